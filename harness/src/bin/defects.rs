// Demonstrations of the four defects found in round 0 (run before and after the fix: commits).
use fast_qr::convert::{svg::SvgBuilder, Builder};
use fast_qr::verif_hooks as h;
use fast_qr::wasm_host::{qr_svg, SvgOptions};
use fast_qr::{QRBuilder, ECL};
use std::panic::catch_unwind;

fn main() {
    std::panic::set_hook(Box::new(|_| {}));
    // C11
    let payload = "ijn9yxotqetxvh:4idqb76h7b03m:r:e0pepds4eeh7hhd";
    h::record_start();
    let q = QRBuilder::new(payload).ecl(ECL::M).build().unwrap();
    let rec = h::record_take();
    let mut true_scores = vec![];
    for c in &rec {
        let mut qr = fast_qr::QRCode::default(c.size);
        for (i, b) in c.modules.iter().enumerate() { qr.data[i] = fast_qr::Module(*b); }
        let t = h::transpose(&qr);
        true_scores.push(h::score(&qr, &t));
    }
    let used: Vec<u32> = rec.iter().map(|c| c.score).collect();
    println!("C11 chosen={:?} used={:?} true={:?}", q.mask, used, true_scores);
    let chosen = q.mask.unwrap() as usize;
    let min = *true_scores.iter().min().unwrap();
    println!("C11 {}", if true_scores[chosen] == min { "OK minimal" } else { "DEFECT non-minimal" });
    // C12
    let q = QRBuilder::new("x").build().unwrap();
    let s = SvgBuilder::default().image("https://x.y/?a=1&b=\"2\"<>".to_string()).to_str(&q);
    let i = s.find("<image").unwrap();
    println!("C12 {}", &s[i..]);
    let ok = resvg::usvg::Tree::from_data(s.as_bytes(), &resvg::usvg::Options::default()).is_ok();
    println!("C12 parses={}", ok);
    // C17a
    let r = catch_unwind(|| qr_svg("x", SvgOptions::new().image_size(5.0, 1.0)));
    println!("C17a image_size w/o position: {}", if r.is_ok() { "OK" } else { "PANIC" });
    let a = qr_svg("x", SvgOptions::new().image("i".into()).image_position(vec![3.0, 3.0]));
    let b = SvgBuilder::default().shape(fast_qr::convert::Shape::Square).image("i".into()).image_position(3.0, 3.0).to_str(&q);
    println!("C17a position honoured: {}", a == b);
    // C17b
    for c in ["zz", "é", "€a", "#12345", "", "#11223344", "+1+2+3"] {
        let c2 = c.to_string();
        let r = catch_unwind(move || { SvgOptions::new().module_color(c2) });
        println!("C17b module_color({:?}): {}", c, if r.is_ok() { "OK" } else { "PANIC" });
    }
}
