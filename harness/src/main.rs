// fqh: runs the real fast_qr code on case lines and prints one canonical result line per case.
// usage: fqh run <cases-file>      (one case per line; output on stdout, one line per case)
//        fqh tables                (extensional dump of every finite-domain table, JSON)
use fast_qr::verif_hooks as h;
use fast_qr::{Mask, Mode, Module, QRCode, Version, ECL};
use std::fmt::Write as _;
use std::io::{BufRead, Write};
use std::panic::{catch_unwind, AssertUnwindSafe};

mod render;

pub const VERSIONS: [Version; 40] = [
    Version::V01, Version::V02, Version::V03, Version::V04, Version::V05, Version::V06, Version::V07, Version::V08,
    Version::V09, Version::V10, Version::V11, Version::V12, Version::V13, Version::V14, Version::V15, Version::V16,
    Version::V17, Version::V18, Version::V19, Version::V20, Version::V21, Version::V22, Version::V23, Version::V24,
    Version::V25, Version::V26, Version::V27, Version::V28, Version::V29, Version::V30, Version::V31, Version::V32,
    Version::V33, Version::V34, Version::V35, Version::V36, Version::V37, Version::V38, Version::V39, Version::V40,
];
pub const LEVELS: [ECL; 4] = [ECL::L, ECL::M, ECL::Q, ECL::H];
pub const MODES: [Mode; 3] = [Mode::Numeric, Mode::Alphanumeric, Mode::Byte];
pub const MASKS: [Mask; 8] = [
    Mask::Checkerboard, Mask::HorizontalLines, Mask::VerticalLines, Mask::DiagonalLines,
    Mask::LargeCheckerboard, Mask::Fields, Mask::Diamonds, Mask::Meadow,
];

pub fn unhex(s: &str) -> Vec<u8> {
    if s == "-" {
        return vec![];
    }
    let b = s.as_bytes();
    (0..b.len() / 2)
        .map(|i| u8::from_str_radix(std::str::from_utf8(&b[2 * i..2 * i + 2]).unwrap(), 16).unwrap())
        .collect()
}
pub fn hex(v: &[u8]) -> String {
    if v.is_empty() {
        return "-".to_string();
    }
    let mut s = String::with_capacity(v.len() * 2);
    for b in v {
        write!(s, "{:02x}", b).unwrap();
    }
    s
}
fn opt_idx(s: &str) -> Option<usize> {
    if s == "-" { None } else { Some(s.parse().unwrap()) }
}
fn mode_idx(m: Mode) -> usize {
    match m { Mode::Numeric => 0, Mode::Alphanumeric => 1, Mode::Byte => 2 }
}

/// module bytes of the size x size square, then the number of non-default bytes beyond it
pub fn matrix_hex(qr: &QRCode) -> String {
    let n = qr.size;
    let bytes: Vec<u8> = qr.data[..n * n].iter().map(|m| m.0).collect();
    let beyond = qr.data[n * n..].iter().filter(|m| m.0 != 0).count();
    format!("{} {} {}", n, hex(&bytes), beyond)
}
pub fn matrix_from(size: usize, bytes: &[u8]) -> QRCode {
    let mut qr = QRCode::default(size);
    for (i, b) in bytes.iter().enumerate() {
        qr.data[i] = Module(*b);
    }
    qr
}
fn poly_hash(bytes: &[u8]) -> u64 {
    let mut hsh: u64 = 7;
    for b in bytes {
        hsh = (hsh * 31 + *b as u64) % 1_000_000_007;
    }
    hsh
}

fn stream_buf(s: &[u8]) -> Vec<u8> {
    let mut v = s.to_vec();
    if v.len() < 5430 {
        v.resize(5430, 0);
    }
    v
}

fn run_case(line: &str) -> String {
    let a: Vec<&str> = line.split_whitespace().collect();
    match a[0] {
        "vget" => {
            let r = h::version_get(MODES[a[1].parse::<usize>().unwrap()], LEVELS[a[2].parse::<usize>().unwrap()], a[3].parse().unwrap());
            match r { Some(v) => format!("{}", v as usize), None => "NONE".into() }
        }
        "blank" => {
            let qr = h::blank_matrix(VERSIONS[a[1].parse::<usize>().unwrap()]);
            format!("OK {}", matrix_hex(&qr))
        }
        "enc" => {
            let m = MODES[a[1].parse::<usize>().unwrap()];
            let e = LEVELS[a[2].parse::<usize>().unwrap()];
            let v = VERSIONS[a[3].parse::<usize>().unwrap()];
            let c = h::encode(&unhex(a[4]), e, m, v);
            let t = h::version_max_bytes(v);
            let nz = c.data[t..].iter().filter(|b| **b != 0).count();
            format!("OK {} {} {} {}", c.len, c.data.len(), hex(&c.data[..t]), nz)
        }
        "div" => {
            let r = h::division(&unhex(a[1]), &unhex(a[2]));
            format!("OK {}", hex(&r))
        }
        "struct" => {
            let e = LEVELS[a[1].parse::<usize>().unwrap()];
            let v = VERSIONS[a[2].parse::<usize>().unwrap()];
            let r = h::structure(&unhex(a[3]), e, v);
            let t = h::version_max_bytes(v);
            let nz = r[t..].iter().filter(|b| **b != 0).count();
            format!("OK {} {}", hex(&r[..t]), nz)
        }
        "place" | "mask" => {
            let v = VERSIONS[a[1].parse::<usize>().unwrap()];
            let (k, sidx) = if a[0] == "mask" { (Some(a[2].parse::<usize>().unwrap()), 3) } else { (None, 2) };
            let bytes = stream_buf(&unhex(a[sidx]));
            let mut qr = h::blank_matrix(v);
            let c = h::CompactQR::from_array(&bytes, 0);
            h::place_on_matrix_data(&mut qr, &c);
            if let Some(k) = k {
                h::apply_mask(&mut qr, MASKS[k]);
            }
            format!("OK {}", matrix_hex(&qr))
        }
        "maskraw" => {
            // mask k applied to an arbitrary matrix of module bytes
            let n: usize = a[1].parse().unwrap();
            let k: usize = a[2].parse().unwrap();
            let mut qr = matrix_from(n, &unhex(a[3]));
            h::apply_mask(&mut qr, MASKS[k]);
            format!("OK {}", matrix_hex(&qr))
        }
        "transpose" => {
            let n: usize = a[1].parse().unwrap();
            let qr = matrix_from(n, &unhex(a[2]));
            format!("OK {}", matrix_hex(&h::transpose(&qr)))
        }
        "fmt" => {
            let v = VERSIONS[a[1].parse::<usize>().unwrap()];
            let e = LEVELS[a[2].parse::<usize>().unwrap()];
            let k = MASKS[a[3].parse::<usize>().unwrap()];
            let mut qr = h::blank_matrix(v);
            h::create_matrix_format_info(&mut qr, e, k);
            format!("OK {}", matrix_hex(&qr))
        }
        "best" => format!("{}", mode_idx(h::best_encoding(&unhex(a[1])))),
        "alnum" => {
            let c: u8 = a[1].parse().unwrap();
            format!("{} {}", h::is_qr_alphanumeric(c) as u8, h::ascii_to_alphanumeric(c))
        }
        "build" | "sel" => {
            let m = opt_idx(a[1]).map(|i| MODES[i]);
            let e = opt_idx(a[2]).map(|i| LEVELS[i]);
            let v = opt_idx(a[3]).map(|i| VERSIONS[i]);
            let k = opt_idx(a[4]).map(|i| MASKS[i]);
            let input = unhex(a[5]);
            if a[0] == "sel" {
                h::record_start();
            }
            // through the PUBLIC builder (QRBuilder::new + setters + build), the way a user reaches QRCode::new
            let r = {
                let mut b = fast_qr::QRBuilder::new(input.clone());
                if let Some(x) = m { b.mode(x); }
                if let Some(x) = e { b.ecl(x); }
                if let Some(x) = v { b.version(x); }
                if let Some(x) = k { b.mask(x); }
                b.build()
            };
            let rec = if a[0] == "sel" { h::record_take() } else { vec![] };
            match r {
                Ok(q) => {
                    let head = format!(
                        "OK {} {} {} {}",
                        q.version.map(|v| v as usize as i64).unwrap_or(-1),
                        q.ecl.map(|e| e as usize as i64).unwrap_or(-1),
                        q.mask.map(|k| k as usize as i64).unwrap_or(-1),
                        q.mode.map(|m| mode_idx(m) as i64).unwrap_or(-1)
                    );
                    if a[0] == "sel" {
                        let mut s = head;
                        for c in &rec {
                            write!(s, " {}:{}:{}", c.mask as usize, c.score, poly_hash(&c.modules)).unwrap();
                        }
                        s
                    } else {
                        format!("{} {}", head, matrix_hex(&q))
                    }
                }
                Err(fast_qr::qr::QRCodeError::EncodedData) => "ERR1".into(),
                Err(fast_qr::qr::QRCodeError::SpecifiedVersion) => "ERR2".into(),
            }
        }
        "cands" => {
            // full candidate matrices of the selection loop (for the penalty oracle)
            let e = opt_idx(a[2]).map(|i| LEVELS[i]);
            let v = opt_idx(a[3]).map(|i| VERSIONS[i]);
            let m = opt_idx(a[1]).map(|i| MODES[i]);
            h::record_start();
            let r = {
                let mut b = fast_qr::QRBuilder::new(unhex(a[5]));
                if let Some(x) = m { b.mode(x); }
                if let Some(x) = e { b.ecl(x); }
                if let Some(x) = v { b.version(x); }
                b.build()
            };
            let rec = h::record_take();
            match r {
                Ok(q) => {
                    let mut s = format!("OK {} {}", q.mask.unwrap() as usize, q.size);
                    for c in &rec {
                        write!(s, " {}:{}:{}", c.mask as usize, c.score, hex(&c.modules)).unwrap();
                    }
                    s
                }
                Err(_) => "ERR".into(),
            }
        }
        "line" => {
            let l: Vec<Module> = unhex(a[1]).iter().map(|b| Module(*b)).collect();
            let (p, s) = h::line(&l);
            format!("{} {}", p, s)
        }
        "score" => {
            let n: usize = a[1].parse().unwrap();
            let qr = matrix_from(n, &unhex(a[2]));
            let t = h::transpose(&qr);
            let (l, c, p) = h::matrix_pattern_and_line(&qr, &t);
            let d = h::dark_module_score(&qr);
            let s = h::matrix_score_squares(&qr);
            format!("{} {} {} {} {} {}", l, c, p, d, s, h::score(&qr, &t))
        }
        "pushbits" => {
            // a[1] = initial byte count, then pairs value:width ; 'u8:xx' pushes a byte via push_u8
            let mut c = h::CompactQR::from_array(&vec![0u8; a[1].parse::<usize>().unwrap()], 0);
            for op in &a[2..] {
                let (x, w) = op.split_once(':').unwrap();
                if x == "u8" {
                    c.push_u8(u8::from_str_radix(w, 16).unwrap());
                } else if x == "sl" {
                    c.push_u8_slice(&unhex(w));
                } else {
                    c.push_bits(x.parse::<usize>().unwrap(), w.parse::<usize>().unwrap());
                }
            }
            format!("OK {} {}", c.len, hex(&c.data))
        }
        "tostr" => {
            let n: usize = a[1].parse().unwrap();
            let qr = matrix_from(n, &unhex(a[2]));
            let s = qr.to_str();
            let cps: Vec<String> = s.chars().map(|c| format!("{:x}", c as u32)).collect();
            format!("OK {}", cps.join(","))
        }
        _ => render::run_case(&a),
    }
}

fn main() {
    let args: Vec<String> = std::env::args().collect();
    if std::env::var("FQH_SHOW_PANIC").is_err() {
        std::panic::set_hook(Box::new(|_| {}));
    }
    match args.get(1).map(|s| s.as_str()) {
        Some("run") => {
            let f = std::fs::File::open(&args[2]).expect("cases file");
            let out = std::io::stdout();
            let mut out = std::io::BufWriter::new(out.lock());
            for line in std::io::BufReader::new(f).lines() {
                let line = line.unwrap();
                if line.trim().is_empty() {
                    continue;
                }
                let r = catch_unwind(AssertUnwindSafe(|| run_case(&line)));
                match r {
                    Ok(s) => writeln!(out, "{}", s).unwrap(),
                    Err(_) => writeln!(out, "PANIC").unwrap(),
                }
            }
        }
        Some("filechild") => {
            // filechild <svg|png> <path> <small|large>: one to_file call on exactly that path (used under a file-size limit)
            let case = format!("file {} direct {} {}", args[2], args[3], args[4]);
            let r = catch_unwind(AssertUnwindSafe(|| run_case(&case)));
            println!("{}", r.unwrap_or_else(|_| "PANIC".to_string()));
        }
        Some("tables") => tables(),
        _ => {
            eprintln!("usage: fqh run <cases> | fqh tables");
            std::process::exit(2);
        }
    }
}

fn jlist<T: std::fmt::Display>(v: impl Iterator<Item = T>) -> String {
    let v: Vec<String> = v.map(|x| x.to_string()).collect();
    format!("[{}]", v.join(","))
}

/// Extensional dump of every finite-domain item the translator parses, by executing the real code.
fn tables() {
    let mut o = String::from("{\n");
    let (log, antilog) = h::gf_tables();
    writeln!(o, "\"log\": {},", jlist(log.iter())).unwrap();
    writeln!(o, "\"antilog\": {},", jlist(antilog.iter())).unwrap();
    writeln!(o, "\"max_bytes\": {},", jlist(VERSIONS.iter().map(|v| h::version_max_bytes(*v)))).unwrap();
    writeln!(o, "\"missing_bits\": {},", jlist(VERSIONS.iter().map(|v| h::version_missing_bits(*v)))).unwrap();
    writeln!(o, "\"version_information\": {},", jlist(VERSIONS.iter().map(|v| h::version_information(*v)))).unwrap();
    writeln!(o, "\"version_size\": {},", jlist(VERSIONS.iter().map(|v| h::version_size(*v)))).unwrap();
    writeln!(o, "\"alignment\": {},", jlist(VERSIONS.iter().map(|v| jlist(h::version_alignment_patterns_grid(*v).iter())))).unwrap();
    writeln!(o, "\"ecc_groups\": {},", jlist(LEVELS.iter().map(|e| jlist(VERSIONS.iter().map(|v| {
        let g = h::ecc_to_groups(*e, *v);
        format!("[{},{},{},{}]", g[0].0, g[0].1, g[1].0, g[1].1)
    }))))).unwrap();
    writeln!(o, "\"format_info\": {},", jlist(LEVELS.iter().map(|e| jlist(MASKS.iter().map(|k| h::ecm_to_format_information(*e, *k)))))).unwrap();
    writeln!(o, "\"data_codewords\": {},", jlist(LEVELS.iter().map(|e| jlist(VERSIONS.iter().map(|v| h::data_codewords(*v, *e)))))).unwrap();
    writeln!(o, "\"data_bits\": {},", jlist(LEVELS.iter().map(|e| jlist(VERSIONS.iter().map(|v| h::data_bits(*v, *e)))))).unwrap();
    writeln!(o, "\"cci_bits\": {},", jlist(MODES.iter().map(|m| jlist(VERSIONS.iter().map(|v| h::cci_bits(*v, *m)))))).unwrap();
    writeln!(o, "\"polynomial\": {},", jlist(LEVELS.iter().map(|e| jlist(VERSIONS.iter().map(|v| jlist(h::get_polynomial(*v, *e).iter())))))).unwrap();
    writeln!(o, "\"percent_score\": {},", jlist(h::PERCENT_SCORE.iter())).unwrap();
    writeln!(o, "\"alnum\": {},", jlist((0u16..256).map(|c| {
        let c = c as u8;
        let r = catch_unwind(|| h::ascii_to_alphanumeric(c));
        format!("[{},{}]", h::is_qr_alphanumeric(c) as u8, r.map(|x| x as i64).unwrap_or(-1))
    }))).unwrap();
    // Version::get: first length at which each version index (or None = 40) starts, scanning 0..=8000
    let mut vg = vec![];
    for m in MODES {
        for e in LEVELS {
            let mut starts: Vec<String> = vec![];
            let mut prev: i64 = -2;
            for len in 0..=8000usize {
                let cur = h::version_get(m, e, len).map(|v| v as usize as i64).unwrap_or(40);
                if cur != prev {
                    starts.push(format!("[{},{}]", len, cur));
                    prev = cur;
                }
            }
            vg.push(format!("[{}]", starts.join(",")));
        }
    }
    writeln!(o, "\"version_get_starts\": [{}],", vg.join(",")).unwrap();
    let big: Vec<String> = [10_000usize, 65_535, 65_536, 1 << 20, 1 << 31, usize::MAX]
        .iter()
        .map(|len| {
            let all_none = MODES.iter().all(|m| LEVELS.iter().all(|e| h::version_get(*m, *e, *len).is_none()));
            format!("{}", all_none)
        })
        .collect();
    writeln!(o, "\"version_get_big_none\": [{}]", big.join(",")).unwrap();
    o.push_str("}\n");
    print!("{}", o);
}
