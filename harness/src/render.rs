// Streams for the renderers and the glue: svg, image/raster, wasm options, files, builder histories, threads.
use crate::{hex, matrix_from, unhex, LEVELS, MASKS, MODES, VERSIONS};
use fast_qr::convert::image::ImageBuilder;
use fast_qr::convert::svg::SvgBuilder;
use fast_qr::convert::{Builder, ImageBackgroundShape, Shape};
use fast_qr::wasm_host::{qr as wasm_qr, qr_svg, SvgOptions};
use fast_qr::{QRBuilder, QRCode};
use std::fmt::Write as _;

pub const SHAPES: [Shape; 6] = [
    Shape::Square, Shape::Circle, Shape::RoundedSquare, Shape::Vertical, Shape::Horizontal, Shape::Diamond,
];
const ISHAPES: [ImageBackgroundShape; 3] =
    [ImageBackgroundShape::Square, ImageBackgroundShape::Circle, ImageBackgroundShape::RoundedSquare];

fn rgba(s: &str) -> [u8; 4] {
    let v = unhex(s);
    [v[0], v[1], v[2], v[3]]
}

/// q* options set the public fields of the QRCode value other than its modules (a renderer must not depend on them)
fn set_qr_fields(qr: &mut QRCode, opts: &[&str]) {
    for o in opts {
        let (k, v) = o.split_once('=').unwrap();
        match k {
            "qecl" => qr.ecl = Some(LEVELS[v.parse::<usize>().unwrap()]),
            "qmask" => qr.mask = Some(MASKS[v.parse::<usize>().unwrap()]),
            "qmode" => qr.mode = Some(MODES[v.parse::<usize>().unwrap()]),
            "qver" => qr.version = Some(VERSIONS[v.parse::<usize>().unwrap()]),
            _ => {}
        }
    }
}

/// key=value options shared by the svg and raster streams
fn configure<B: Builder>(b: &mut B, opts: &[&str]) {
    for o in opts {
        let (k, v) = o.split_once('=').unwrap();
        match k {
            "margin" => { b.margin(v.parse().unwrap()); }
            "bg" => { b.background_color(rgba(v)); }
            "fg" => { b.module_color(rgba(v)); }
            // colour given as a string (<hex of the string>:<the rgba it denotes>): &str for the module colour, String for the background
            // other constructor forms of Color: Vec<u8> (4 components), &[u8] (4 / 3 components)
            "fgv" => { let c = rgba(v); b.module_color(c.to_vec()); }
            "bgv" => { let c = rgba(v); b.background_color(&c[..]); }
            "bgv3" => { let c = rgba(v); b.background_color(&c[..3]); }
            "fgv3" => { let c = rgba(v); b.module_color(&c[..3]); }
            "fgs" => { let st = String::from_utf8(unhex(v.split_once(':').unwrap().0)).unwrap(); b.module_color(st.as_str()); }
            "bgs" => { let st = String::from_utf8(unhex(v.split_once(':').unwrap().0)).unwrap(); b.background_color(st); }
            "shape" => { b.shape(SHAPES[v.parse::<usize>().unwrap()]); }
            "shapec" => {
                let (s, c) = v.split_once(':').unwrap();
                b.shape_color(SHAPES[s.parse::<usize>().unwrap()], rgba(c));
            }
            "image" => { b.image(String::from_utf8(unhex(v)).unwrap()); }
            "ibg" => { b.image_background_color(rgba(v)); }
            "ishape" => { b.image_background_shape(ISHAPES[v.parse::<usize>().unwrap()]); }
            "isize" => { b.image_size(v.parse().unwrap()); }
            "igap" => { b.image_gap(v.parse().unwrap()); }
            "ipos" => {
                let (x, y) = v.split_once(',').unwrap();
                b.image_position(x.parse().unwrap(), y.parse().unwrap());
            }
            "ibgv" => { let c = rgba(v); b.image_background_color(c.to_vec()); }
            "shapecv" => {
                let (s, c) = v.split_once(':').unwrap();
                let c = rgba(c);
                b.shape_color(SHAPES[s.parse::<usize>().unwrap()], &c[..]);
            }
            "fitw" | "fith" | "qecl" | "qmask" | "qmode" | "qver" => {}
            _ => panic!("unknown option {}", k),
        }
    }
}

fn color_class(p: [u8; 4], fg: [u8; 4], bg: [u8; 4]) -> u8 {
    // premultiplied comparison with a tolerance of 1 per channel
    let pre = |c: [u8; 4]| -> [i32; 4] {
        let a = c[3] as i32;
        [(c[0] as i32 * a + 127) / 255, (c[1] as i32 * a + 127) / 255, (c[2] as i32 * a + 127) / 255, a]
    };
    let close = |a: [i32; 4], b: [i32; 4]| (0..4).all(|i| (a[i] - b[i]).abs() <= 1);
    let pp = [p[0] as i32, p[1] as i32, p[2] as i32, p[3] as i32];
    // the module colour is drawn over the background: source-over
    let f = pre(fg);
    let b = pre(bg);
    let over: [i32; 4] = {
        let fa = f[3];
        [f[0] + b[0] * (255 - fa) / 255, f[1] + b[1] * (255 - fa) / 255, f[2] + b[2] * (255 - fa) / 255, fa + b[3] * (255 - fa) / 255]
    };
    // alpha is not subject to premultiplication rounding: where nothing is blended (a light cell; a dark cell over a fully
    // transparent background) the pixel's alpha must be the configured alpha exactly
    let dark_alpha_ok = bg[3] != 0 || p[3] == fg[3];
    let light_alpha_ok = p[3] == bg[3];
    if close(pp, over) && dark_alpha_ok { 1 } else if close(pp, b) && light_alpha_ok { 0 } else { 2 }
}

pub fn run_case(a: &[&str]) -> String {
    match a[0] {
        "svg" => {
            // svg <size> <hexmatrix> opts...
            let n: usize = a[1].parse().unwrap();
            let mut qr = matrix_from(n, &unhex(a[2]));
            set_qr_fields(&mut qr, &a[3..]);
            let mut b = SvgBuilder::default();
            configure(&mut b, &a[3..]);
            let before: Vec<u8> = qr.data.iter().map(|m| m.0).collect();
            let s = b.to_str(&qr);
            let s2 = b.to_str(&qr);
            let after: Vec<u8> = qr.data.iter().map(|m| m.0).collect();
            format!("OK {} {}", hex(s.as_bytes()), (s == s2 && before == after) as u8)
        }
        "raster" => {
            // raster <size> <hexmatrix> opts...  -> width height centre-mismatches full-cell-mismatches png-ok
            let n: usize = a[1].parse().unwrap();
            let mut qr = matrix_from(n, &unhex(a[2]));
            set_qr_fields(&mut qr, &a[3..]);
            let mut b = ImageBuilder::default();
            configure(&mut b, &a[3..]);
            let mut margin = 4usize;
            let mut fg = [0, 0, 0, 255u8];
            let mut bg = [255u8; 4];
            let mut square_only = true;
            let mut any_shape = false;
            for o in &a[3..] {
                let (k, v) = o.split_once('=').unwrap();
                match k {
                    "margin" => margin = v.parse().unwrap(),
                    "fg" => fg = rgba(v),
                    "bg" => bg = rgba(v),
                    "fgv" => fg = rgba(v),
                    "bgv" => bg = rgba(v),
                    "bgv3" => { let c = rgba(v); bg = [c[0], c[1], c[2], 255]; }
                    "fgv3" => { let c = rgba(v); fg = [c[0], c[1], c[2], 255]; }
                    "fgs" => fg = rgba(v.split_once(':').unwrap().1),
                    "bgs" => bg = rgba(v.split_once(':').unwrap().1),
                    "fitw" => { b.fit_width(v.parse().unwrap()); }
                    "fith" => { b.fit_height(v.parse().unwrap()); }
                    "shape" => { any_shape = true; if v != "0" { square_only = false; } }
                    _ => {}
                }
            }
            let _ = any_shape;
            let pm = b.to_pixmap(&qr);
            let (w, h) = (pm.width() as usize, pm.height() as usize);
            let side = n + 2 * margin;
            let scale = w as f64 / side as f64;
            let px = |x: usize, y: usize| -> [u8; 4] {
                let p = pm.pixels()[y * w + x];
                [p.red(), p.green(), p.blue(), p.alpha()]
            };
            let mut centre_mismatch = 0usize;
            let mut full_mismatch = 0usize;
            let integer_scale = (scale.fract() == 0.0) && scale >= 1.0;
            for cy in 0..side {
                for cx in 0..side {
                    let dark = cy >= margin && cy < margin + n && cx >= margin && cx < margin + n
                        && qr.data[(cy - margin) * n + (cx - margin)].value();
                    let want = if dark { 1 } else { 0 };
                    let x = (((cx as f64) + 0.5) * scale).floor() as usize;
                    let y = (((cy as f64) + 0.5) * scale).floor() as usize;
                    if x < w && y < h && color_class(px(x, y), fg, bg) != want {
                        centre_mismatch += 1;
                    }
                    if square_only && integer_scale {
                        let s = scale as usize;
                        for yy in cy * s..(cy + 1) * s {
                            for xx in cx * s..(cx + 1) * s {
                                if xx < w && yy < h && color_class(px(xx, yy), fg, bg) != want {
                                    full_mismatch += 1;
                                }
                            }
                        }
                    }
                }
            }
            // PNG round trip
            let bytes = b.to_bytes(&qr).map_err(|e| e.to_string());
            let png_ok = match bytes {
                Ok(by) => {
                    let dec = png::Decoder::new(&by[..]);
                    match dec.read_info() {
                        Ok(mut rd) => {
                            let mut buf = vec![0; rd.output_buffer_size()];
                            match rd.next_frame(&mut buf) {
                                Ok(info) => {
                                    let ok_dims = info.width as usize == w && info.height as usize == h;
                                    // tiny-skia demultiplies on encode; compare against demultiplied pixels
                                    let mut same = ok_dims && info.color_type == png::ColorType::Rgba;
                                    if same {
                                        for (i, p) in pm.pixels().iter().enumerate() {
                                            let c = p.demultiply();
                                            let e = [c.red(), c.green(), c.blue(), c.alpha()];
                                            if buf[4 * i..4 * i + 4] != e {
                                                same = false;
                                                break;
                                            }
                                        }
                                    }
                                    same as u8
                                }
                                Err(_) => 0,
                            }
                        }
                        Err(_) => 0,
                    }
                }
                Err(_) => 0,
            };
            format!("OK {} {} {} {} {}", w, h, centre_mismatch, full_mismatch, png_ok)
        }
        "wasmqr" => {
            let content = String::from_utf8(unhex(a[1])).unwrap();
            format!("OK {}", hex(&wasm_qr(&content)))
        }
        "wasm" => {
            // wasm <content-hex> ops...   (string values are hex of UTF-8)
            let content = String::from_utf8(unhex(a[1])).unwrap();
            let mut o = SvgOptions::new();
            for op in &a[2..] {
                let (k, v) = op.split_once('=').unwrap();
                let st = || String::from_utf8(unhex(v)).unwrap();
                let fl = |s: &str| -> Vec<f64> {
                    if s == "-" { vec![] } else { s.split(',').map(|x| x.parse().unwrap()).collect() }
                };
                o = match k {
                    "shape" => o.shape(SHAPES[v.parse::<usize>().unwrap()]),
                    "modcol" => o.module_color(st()),
                    "margin" => o.margin(v.parse().unwrap()),
                    "bg" => o.background_color(st()),
                    "image" => o.image(st()),
                    "ibg" => o.image_background_color(st()),
                    "ishape" => o.image_background_shape(ISHAPES[v.parse::<usize>().unwrap()]),
                    "isize" => { let f = fl(v); o.image_size(f[0], f[1]) }
                    "ipos" => o.image_position(fl(v)),
                    "ecl" => o.ecl(LEVELS[v.parse::<usize>().unwrap()]),
                    "version" => o.version(VERSIONS[v.parse::<usize>().unwrap()]),
                    _ => panic!("unknown wasm op"),
                };
            }
            format!("OK {}", hex(qr_svg(&content, o).as_bytes()))
        }
        "file" if a[2] == "fsize" => {
            // write-time fault AFTER a partial write: the write runs in a child process whose file-size limit is 1 KiB
            // (SIGXFSZ ignored, so write(2) first writes 1024 bytes and then fails with EFBIG)
            let exe = std::env::current_exe().unwrap();
            let path = format!("{}/out_fsize_{}_{}.{}", a[3], a.get(4).unwrap_or(&"large"), std::process::id(), a[1]);
            let cmd = format!("trap '' XFSZ; ulimit -f 2; exec {} filechild {} {} {}", exe.display(), a[1], path, a.get(4).unwrap_or(&"large"));
            let out = std::process::Command::new("/bin/sh").arg("-c").arg(&cmd).output().expect("spawn sh");
            let _ = std::fs::remove_file(&path);
            let txt = String::from_utf8_lossy(&out.stdout).trim().to_string();
            if txt.is_empty() { "CHILD-FAILED".to_string() } else { txt }
        }
        "file" => {
            // file <svg|png> <fault-class> <workdir> [small|large]
            let payload = if a.get(4).map(|s| *s) == Some("small") { "A" } else { "https://example.com/verif" };
            let qr = QRBuilder::new(payload).build().unwrap();
            let dir = a[3];
            let path = match a[2] {
                "ok" | "overwrite" | "samelen" => format!("{}/out_{}_{}_{}.{}", dir, a[2], a.get(4).unwrap_or(&"large"), std::process::id(), a[1]),
                "direct" => dir.to_string(),
                "missingdir" => format!("{}/no/such/dir/out.{}", dir, a[1]),
                "isdir" => dir.to_string(),
                "devfull" => "/dev/full".to_string(),
                "procfs" => format!("/proc/fqh_out.{}", a[1]),
                "longname" => format!("{}/{}.{}", dir, "x".repeat(300), a[1]),
                "nul" => format!("{}/a\0b.{}", dir, a[1]),
                // degenerate paths: no file name at all, or no parent component
                "empty" => String::new(),
                "root" => "/".to_string(),
                "dot" => ".".to_string(),
                "dotdot" => "..".to_string(),
                "trailslash" => format!("{}/out_ts_{}.{}/", dir, std::process::id(), a[1]),
                "relmissing" => format!("no_such_dir_fqh/out.{}", a[1]),
                // a bare file name (Path::parent() is ""), written in the work directory: must succeed
                // the file name's extension does not select the format: a PNG written to x.svg / X.SVG, an SVG written to x.png, no extension
                "otherext" => format!("{}/out_oe_{}_{}.{}", dir, a.get(4).unwrap_or(&"large"), std::process::id(),
                                      if a[1] == "png" { if a.get(4) == Some(&"small") { "SVG" } else { "svg" } } else { "png" }),
                "noext" => format!("{}/out_ne_{}_{}_{}", dir, a[1], a.get(4).unwrap_or(&"large"), std::process::id()),
                // whitespace is part of a file name
                "trailspace" => format!("{}/out_ts_{}_{}.{} ", dir, a.get(4).unwrap_or(&"large"), std::process::id(), a[1]),
                "leadspace" => format!("{}/ out_ls_{}_{}.{}", dir, a.get(4).unwrap_or(&"large"), std::process::id(), a[1]),
                "trailnl" => format!("{}/out_nl_{}_{}.{}\n", dir, a.get(4).unwrap_or(&"large"), std::process::id(), a[1]),
                "bare" => { std::env::set_current_dir(dir).unwrap(); format!("out_bare_{}_{}.{}", a.get(4).unwrap_or(&"large"), std::process::id(), a[1]) }
                _ => panic!("fault class"),
            };
            if a[2] == "overwrite" {
                // an existing, much longer file at the target path
                std::fs::write(&path, vec![0x55u8; 300_000]).unwrap();
            } else if a[2] == "ok" || a[2] == "bare" {
                let _ = std::fs::remove_file(&path);
            }
            let nonascii = a.get(4).map(|s| *s) == Some("nonascii");
            let (res, expect): (Result<(), String>, Vec<u8>) = if a[1] == "svg" {
                let mut b = SvgBuilder::default();
                if payload != "A" {
                    b.shape(Shape::Circle).margin(2);
                }
                if nonascii {
                    b.image("caf\u{e9}/\u{20ac}.png".to_string());
                }
                let expect = b.to_str(&qr).into_bytes();
                if a[2] == "samelen" {
                    // an existing file of exactly the length of the new document, with different content
                    std::fs::write(&path, vec![0x55u8; expect.len()]).unwrap();
                }
                (b.to_file(&qr, &path).map_err(|e| format!("{:?}", e)), expect)
            } else {
                let mut b = ImageBuilder::default();
                b.margin(1);
                let expect = b.to_bytes(&qr).unwrap();
                if a[2] == "samelen" {
                    std::fs::write(&path, vec![0x55u8; expect.len()]).unwrap();
                }
                (b.to_file(&qr, &path).map_err(|e| format!("{:?}", e)), expect)
            };
            match res {
                Ok(()) => {
                    let same = if ["ok", "overwrite", "samelen", "direct", "bare", "trailspace", "leadspace", "trailnl", "otherext", "noext"].contains(&a[2]) { std::fs::read(&path).map(|c| c == expect).unwrap_or(false) } else { false };
                    format!("RET_OK same={}", same as u8)
                }
                Err(_) => "RET_ERR".to_string(),
            }
        }
        "hist" => {
            // hist <input-hex> ops... : ops = mode=i ecl=i version=i mask=i build ; prints a hash per build, and whether each
            // build equals a fresh builder with the final options
            let input = unhex(a[1]);
            let mut b = QRBuilder::new(input.clone());
            let (mut m, mut e, mut v, mut k) = (None, None, None, None);
            let mut out = String::from("OK");
            for op in &a[2..] {
                if *op == "build" {
                    let r1 = b.build();
                    let mut f = QRBuilder::new(input.clone());
                    if let Some(x) = m { f.mode(MODES[x]); }
                    if let Some(x) = e { f.ecl(LEVELS[x]); }
                    if let Some(x) = v { f.version(VERSIONS[x]); }
                    if let Some(x) = k { f.mask(MASKS[x]); }
                    let r2 = f.build();
                    let d = |r: &Result<QRCode, fast_qr::qr::QRCodeError>| -> String {
                        match r {
                            Ok(q) => format!("{}", crate::matrix_hex(q)),
                            Err(fast_qr::qr::QRCodeError::EncodedData) => "ERR1".into(),
                            Err(_) => "ERR2".into(),
                        }
                    };
                    let (d1, d2) = (d(&r1), d(&r2));
                    write!(out, " {}:{}", (d1 == d2) as u8, simple_hash(d1.as_bytes())).unwrap();
                } else {
                    let (key, val) = op.split_once('=').unwrap();
                    let i: usize = val.parse().unwrap();
                    match key {
                        "mode" => { b.mode(MODES[i]); m = Some(i); }
                        "ecl" => { b.ecl(LEVELS[i]); e = Some(i); }
                        "version" => { b.version(VERSIONS[i]); v = Some(i); }
                        "mask" => { b.mask(MASKS[i]); k = Some(i); }
                        _ => panic!("hist op"),
                    }
                }
            }
            out
        }
        "threads" => {
            // threads <nthreads> <rounds> <seed> : builds of different inputs on many threads vs the sequential results
            let nt: usize = a[1].parse().unwrap();
            let rounds: usize = a[2].parse().unwrap();
            let seed: u64 = a[3].parse().unwrap();
            let inputs: Vec<Vec<u8>> = (0..nt * rounds)
                .map(|i| {
                    let mut x = seed.wrapping_mul(6364136223846793005).wrapping_add((i as u64).wrapping_mul(1442695040888963407).wrapping_add(1));
                    let len = 1 + (x >> 33) as usize % 120;
                    (0..len).map(|_| { x = x.wrapping_mul(6364136223846793005).wrapping_add(1442695040888963407); (x >> 56) as u8 }).collect()
                })
                .collect();
            let render = |inp: &Vec<u8>| -> u64 {
                let q = QRBuilder::new(inp.clone()).ecl(LEVELS[inp.len() % 4]).build().unwrap();
                let mut s = crate::matrix_hex(&q);
                s.push_str(&q.to_str());
                s.push_str(&SvgBuilder::default().shape(SHAPES[inp.len() % 6]).to_str(&q));
                simple_hash(s.as_bytes())
            };
            let seq: Vec<u64> = inputs.iter().map(render).collect();
            let inputs = std::sync::Arc::new(inputs);
            let mut handles = vec![];
            for t in 0..nt {
                let inputs = inputs.clone();
                handles.push(std::thread::spawn(move || {
                    let mut r = vec![];
                    for j in 0..rounds {
                        let idx = j * nt + t;
                        let inp = &inputs[idx];
                        let q = QRBuilder::new(inp.clone()).ecl(LEVELS[inp.len() % 4]).build().unwrap();
                        let mut s = crate::matrix_hex(&q);
                        s.push_str(&q.to_str());
                        s.push_str(&SvgBuilder::default().shape(SHAPES[inp.len() % 6]).to_str(&q));
                        r.push((idx, simple_hash(s.as_bytes())));
                    }
                    r
                }));
            }
            let mut mism = 0;
            for hd in handles {
                for (idx, hv) in hd.join().unwrap() {
                    if seq[idx] != hv {
                        mism += 1;
                    }
                }
            }
            format!("OK {} {}", nt * rounds, mism)
        }
        _ => panic!("unknown stream {}", a[0]),
    }
}

pub fn simple_hash(bytes: &[u8]) -> u64 {
    let mut hsh: u64 = 7;
    for b in bytes {
        hsh = (hsh * 31 + *b as u64) % 1_000_000_007;
    }
    hsh
}
