#![no_main]
// Differential WITNESS SEARCH for builder histories (see build_diff.rs): a sequence of QRBuilder setter calls and build()
// calls on ONE builder, on the current tree and on the pinned reference copy; differing result sequences are written out as
// `hist` cases. Only histories whose mode in force at every build() can represent the payload are emitted.
use libfuzzer_sys::fuzz_target;
use std::io::Write;
use std::panic::{catch_unwind, AssertUnwindSafe};

const ALNUM: &[u8] = b"0123456789ABCDEFGHIJKLMNOPQRSTUVWXYZ $%*+-./:";
fn hex(b: &[u8]) -> String { if b.is_empty() { "-".to_string() } else { b.iter().map(|x| format!("{:02x}", x)).collect() } }

#[derive(Clone, Copy)]
enum Op { Mode(usize), Ecl(usize), Version(usize), Mask(usize), Build }

macro_rules! run {
    ($krate:ident, $data:expr, $ops:expr) => {{
        use $krate::{Mask, Mode, QRBuilder, Version, ECL};
        const VS: [Version; 7] = [Version::V01, Version::V02, Version::V03, Version::V06, Version::V10, Version::V21, Version::V40];
        catch_unwind(AssertUnwindSafe(|| {
            let mut b = QRBuilder::new($data.to_vec());
            let mut out: Vec<Vec<u8>> = vec![];
            for op in $ops.iter() {
                match *op {
                    Op::Mode(m) => { b.mode([Mode::Numeric, Mode::Alphanumeric, Mode::Byte][m]); }
                    Op::Ecl(e) => { b.ecl([ECL::L, ECL::M, ECL::Q, ECL::H][e]); }
                    Op::Version(v) => { b.version(VS[v]); }
                    Op::Mask(k) => { b.mask([Mask::Checkerboard, Mask::HorizontalLines, Mask::VerticalLines, Mask::DiagonalLines,
                                             Mask::LargeCheckerboard, Mask::Fields, Mask::Diamonds, Mask::Meadow][k]); }
                    Op::Build => out.push(match b.build() {
                        Ok(q) => { let mut o = format!("OK {:?} {:?} {:?} {:?} {} ", q.version, q.ecl, q.mode, q.mask, q.size).into_bytes(); o.extend(q.data.iter().map(|m| m.0)); o }
                        Err(e) => format!("ERR {:?}", e).into_bytes(),
                    }),
                }
            }
            out
        })).unwrap_or(vec![b"PANIC".to_vec()])
    }};
}

const VIDX: [usize; 7] = [0, 1, 2, 5, 9, 20, 39];

fuzz_target!(|input: &[u8]| {
    static HOOK: std::sync::Once = std::sync::Once::new();
    HOOK.call_once(|| std::panic::set_hook(Box::new(|_| {})));
    if input.len() < 3 { return; }
    let alpha = input[0] % 3;
    let nops = 1 + (input[1] % 9) as usize;
    if input.len() < 2 + nops { return; }
    let mut ops: Vec<Op> = vec![];
    for &b in &input[2..2 + nops] {
        ops.push(match b % 6 { 0 => Op::Mode((b as usize / 6) % 3), 1 => Op::Ecl((b as usize / 6) % 4), 2 => Op::Version((b as usize / 6) % 7), 3 => Op::Mask((b as usize / 6) % 8), _ => Op::Build });
    }
    ops.push(Op::Build);
    let data: Vec<u8> = input[2 + nops..].iter().map(|&b| match alpha { 1 => b'0' + b % 10, 2 => ALNUM[(b % 45) as usize], _ => b }).collect();
    // precondition at every build: the mode in force can represent the payload
    let digits = data.iter().all(|c| c.is_ascii_digit());
    let alnum = data.iter().all(|c| ALNUM.contains(c));
    let mut mode: Option<usize> = None;
    for op in &ops {
        match *op {
            Op::Mode(m) => mode = Some(m),
            Op::Build => { if (mode == Some(0) && !digits) || (mode == Some(1) && !alnum) { return; } }
            _ => {}
        }
    }
    let a = run!(fast_qr, &data[..], &ops);
    let r = run!(fast_qr_ref, &data[..], &ops);
    if a != r {
        if let Ok(base) = std::env::var("FQ_FUZZ_OUT") {
            let mut line = format!("hist {}", hex(&data));
            for op in &ops {
                line += &match *op { Op::Mode(m) => format!(" mode={}", m), Op::Ecl(e) => format!(" ecl={}", e), Op::Version(v) => format!(" version={}", VIDX[v]), Op::Mask(k) => format!(" mask={}", k), Op::Build => " build".to_string() };
            }
            let path = format!("{}.{}", base, std::process::id());
            if let Ok(mut fh) = std::fs::OpenOptions::new().create(true).append(true).open(path) { let _ = writeln!(fh, "{}", line); }
        }
    }
});
