#![no_main]
// Differential WITNESS SEARCH (not a verdict): the current /repo tree against the pinned reference copy of the crate
// (refimpl/, the tree the model was written against). Inputs on which the two differ are written out as `build` cases;
// the check then decides each of them with the spec oracles. Equal behaviour produces nothing.
use libfuzzer_sys::fuzz_target;
use std::io::Write;
use std::panic::{catch_unwind, AssertUnwindSafe};

const ALNUM: &[u8] = b"0123456789ABCDEFGHIJKLMNOPQRSTUVWXYZ $%*+-./:";

macro_rules! run_build {
    ($krate:ident, $m:expr, $e:expr, $v:expr, $k:expr, $data:expr) => {{
        use $krate::{Mask, Mode, QRBuilder, Version, ECL};
        const VS: [Version; 40] = [
            Version::V01, Version::V02, Version::V03, Version::V04, Version::V05, Version::V06, Version::V07, Version::V08,
            Version::V09, Version::V10, Version::V11, Version::V12, Version::V13, Version::V14, Version::V15, Version::V16,
            Version::V17, Version::V18, Version::V19, Version::V20, Version::V21, Version::V22, Version::V23, Version::V24,
            Version::V25, Version::V26, Version::V27, Version::V28, Version::V29, Version::V30, Version::V31, Version::V32,
            Version::V33, Version::V34, Version::V35, Version::V36, Version::V37, Version::V38, Version::V39, Version::V40,
        ];
        let r = catch_unwind(AssertUnwindSafe(|| {
            let mut b = QRBuilder::new($data.to_vec());
            if let Some(m) = $m { b.mode([Mode::Numeric, Mode::Alphanumeric, Mode::Byte][m as usize]); }
            if let Some(e) = $e { b.ecl([ECL::L, ECL::M, ECL::Q, ECL::H][e as usize]); }
            if let Some(v) = $v { b.version(VS[v as usize]); }
            if let Some(k) = $k {
                b.mask([Mask::Checkerboard, Mask::HorizontalLines, Mask::VerticalLines, Mask::DiagonalLines,
                        Mask::LargeCheckerboard, Mask::Fields, Mask::Diamonds, Mask::Meadow][k as usize]);
            }
            // the scores used for ranking the eight candidates are part of the compared behaviour
            $krate::verif_hooks::record_start();
            let res = b.build();
            let rec = $krate::verif_hooks::record_take();
            match res {
                Ok(q) => {
                    let mut out: Vec<u8> = format!("OK {:?} {:?} {:?} {:?} {} ", q.version, q.ecl, q.mode, q.mask, q.size).into_bytes();
                    out.extend(q.data.iter().map(|m| m.0));
                    out.extend(q.to_str().into_bytes());
                    for c in rec { out.extend(format!(" {:?}:{}", c.mask, c.score).into_bytes()); }
                    out
                }
                Err(e) => format!("ERR {:?}", e).into_bytes(),
            }
        }));
        match r { Ok(v) => v, Err(_) => b"PANIC".to_vec() }
    }};
}

fn hex(b: &[u8]) -> String { b.iter().map(|x| format!("{:02x}", x)).collect() }
fn opt(x: Option<u8>) -> String { x.map(|v| v.to_string()).unwrap_or_else(|| "-".to_string()) }

fuzz_target!(|input: &[u8]| {
    // libfuzzer-sys aborts the process on any panic; a panic of either crate is an outcome to compare here, not a crash
    static HOOK: std::sync::Once = std::sync::Once::new();
    HOOK.call_once(|| std::panic::set_hook(Box::new(|_| {})));
    if input.len() < 3 { return; }
    let b0 = input[0];
    // alphabet of the payload: 0 raw bytes, 1 digits, 2 alphanumeric
    let alpha = b0 & 3;
    let mode_sel = (b0 >> 2) & 3;           // 0 none, 1 numeric, 2 alphanumeric, 3 byte
    let ecl_sel = (b0 >> 4) & 7;            // 0..3 level, >= 4 none
    let vsel = input[1];                    // < 40 forced version, else none (half of the space)
    let ksel = input[2];                    // < 8 forced mask, else none
    let alpha = if alpha == 3 { 0 } else { alpha };
    // a forced mode needs a payload inside its character set (documented precondition)
    let mode: Option<u8> = match mode_sel {
        1 if alpha == 1 => Some(0),
        2 if alpha == 1 || alpha == 2 => Some(1),
        3 => Some(2),
        _ => None,
    };
    let ecl = if ecl_sel < 4 { Some(ecl_sel) } else { None };
    let version = if vsel < 80 { Some(vsel % 40) } else { None };
    let mask = if ksel < 64 { Some(ksel % 8) } else { None };
    let data: Vec<u8> = input[3..].iter().map(|&b| match alpha { 1 => b'0' + b % 10, 2 => ALNUM[(b % 45) as usize], _ => b }).collect();
    let a = run_build!(fast_qr, mode, ecl, version, mask, &data[..]);
    let r = run_build!(fast_qr_ref, mode, ecl, version, mask, &data[..]);
    if a != r {
        if let Ok(base) = std::env::var("FQ_FUZZ_OUT") {
            let path = format!("{}.{}", base, std::process::id());
            if let Ok(mut f) = std::fs::OpenOptions::new().create(true).append(true).open(path) {
                let _ = writeln!(f, "build {} {} {} {} {}", opt(mode), opt(ecl), opt(version), opt(mask), hex(&data));
            }
        }
    }
});
