#![no_main]
// Differential WITNESS SEARCH for the wasm bindings (host build through the verif-hooks re-export), see build_diff.rs.
use libfuzzer_sys::fuzz_target;
use std::io::Write;
use std::panic::{catch_unwind, AssertUnwindSafe};

fn hex(b: &[u8]) -> String { if b.is_empty() { "-".to_string() } else { b.iter().map(|x| format!("{:02x}", x)).collect() } }

#[derive(Clone)]
enum Op { Shape(usize), ModCol(String), Margin(usize), Bg(String), Image(String), Ibg(String), Ishape(usize), Isize(f64, f64), Ipos(Vec<f64>), Ecl(usize), Version(usize) }

macro_rules! run {
    ($krate:ident, $content:expr, $ops:expr) => {{
        use $krate::convert::{ImageBackgroundShape, Shape};
        use $krate::wasm_host::{qr, qr_svg, SvgOptions};
        use $krate::{Version, ECL};
        const SH: [Shape; 6] = [Shape::Square, Shape::Circle, Shape::RoundedSquare, Shape::Vertical, Shape::Horizontal, Shape::Diamond];
        const ISH: [ImageBackgroundShape; 3] = [ImageBackgroundShape::Square, ImageBackgroundShape::Circle, ImageBackgroundShape::RoundedSquare];
        const VS: [Version; 6] = [Version::V01, Version::V02, Version::V06, Version::V13, Version::V27, Version::V40];
        catch_unwind(AssertUnwindSafe(|| {
            let mut o = SvgOptions::new();
            for op in $ops.iter().cloned() {
                o = match op {
                    Op::Shape(s) => o.shape(SH[s]), Op::ModCol(s) => o.module_color(s), Op::Margin(m) => o.margin(m), Op::Bg(s) => o.background_color(s),
                    Op::Image(s) => o.image(s), Op::Ibg(s) => o.image_background_color(s), Op::Ishape(s) => o.image_background_shape(ISH[s]),
                    Op::Isize(a, b) => o.image_size(a, b), Op::Ipos(v) => o.image_position(v),
                    Op::Ecl(e) => o.ecl([ECL::L, ECL::M, ECL::Q, ECL::H][e]), Op::Version(v) => o.version(VS[v]),
                };
            }
            (qr_svg($content, o), qr($content))
        })).unwrap_or(("PANIC".to_string(), vec![]))
    }};
}

const VIDX: [usize; 6] = [0, 1, 5, 12, 26, 39];

fuzz_target!(|input: &[u8]| {
    // libfuzzer-sys aborts the process on any panic; a panic of either crate is an outcome to compare here, not a crash
    static HOOK: std::sync::Once = std::sync::Once::new();
    HOOK.call_once(|| std::panic::set_hook(Box::new(|_| {})));
    if input.len() < 2 { return; }
    let nops = (input[0] % 8) as usize;
    let mut p = 1;
    let mut ops: Vec<Op> = vec![];
    let take_str = |p: &mut usize, max: usize| -> String {
        if *p >= input.len() { return String::new(); }
        let n = (input[*p] as usize % max).min(input.len() - *p - 1);
        let s = String::from_utf8_lossy(&input[*p + 1..*p + 1 + n]).to_string();
        *p += 1 + n;
        s
    };
    for _ in 0..nops {
        if p + 2 > input.len() { break; }
        let k = input[p] % 11;
        let a = input[p + 1];
        p += 2;
        ops.push(match k {
            0 => Op::Shape((a % 6) as usize),
            1 => Op::ModCol(take_str(&mut p, 12)),
            2 => Op::Margin((a % 12) as usize),
            3 => Op::Bg(take_str(&mut p, 12)),
            4 => Op::Image(take_str(&mut p, 24)),
            5 => Op::Ibg(take_str(&mut p, 12)),
            6 => Op::Ishape((a % 3) as usize),
            7 => { let g = if p < input.len() { input[p] } else { 0 }; p += 1; Op::Isize(a as f64 / 4.0, g as f64 / 4.0) }
            8 => { let n = (a % 5) as usize; let mut v = vec![]; for _ in 0..n { if p < input.len() { v.push(input[p] as f64 / 4.0); p += 1; } } Op::Ipos(v) }
            9 => Op::Ecl((a % 4) as usize),
            _ => Op::Version((a % 6) as usize),
        });
    }
    let content = String::from_utf8_lossy(&input[p.min(input.len())..]).to_string();
    // long contents (only a dense mode can hold them) by repetition; the repetition count comes from the first byte
    let reps = [1usize, 1, 1, 1, 1, 40, 400, 1500][(input[0] >> 5) as usize];
    let content = if content.len() * reps <= 8000 { content.repeat(reps) } else { content };
    let a = run!(fast_qr, &content, &ops);
    let r = run!(fast_qr_ref, &content, &ops);
    if a != r {
        if let Ok(base) = std::env::var("FQ_FUZZ_OUT") {
            let mut line = format!("wasm {}", hex(content.as_bytes()));
            for op in &ops {
                line += &match op {
                    Op::Shape(s) => format!(" shape={}", s), Op::ModCol(s) => format!(" modcol={}", hex(s.as_bytes())), Op::Margin(m) => format!(" margin={}", m),
                    Op::Bg(s) => format!(" bg={}", hex(s.as_bytes())), Op::Image(s) => format!(" image={}", hex(s.as_bytes())), Op::Ibg(s) => format!(" ibg={}", hex(s.as_bytes())),
                    Op::Ishape(s) => format!(" ishape={}", s), Op::Isize(a, b) => format!(" isize={},{}", a, b),
                    Op::Ipos(v) => format!(" ipos={}", if v.is_empty() { "-".to_string() } else { v.iter().map(|x| x.to_string()).collect::<Vec<_>>().join(",") }),
                    Op::Ecl(e) => format!(" ecl={}", e), Op::Version(v) => format!(" version={}", VIDX[*v]),
                };
            }
            let path = format!("{}.{}", base, std::process::id());
            if let Ok(mut fh) = std::fs::OpenOptions::new().create(true).append(true).open(path) {
                let _ = writeln!(fh, "{}", line);
                if a.1 != r.1 { let _ = writeln!(fh, "wasmqr {}", hex(content.as_bytes())); }
            }
        }
    }
});
