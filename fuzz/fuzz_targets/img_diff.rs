#![no_main]
// Differential WITNESS SEARCH for the raster renderer (see build_diff.rs): ImageBuilder option histories (margin, shape, colours in
// every constructor form, fit_width / fit_height sequences) on a version-1 symbol; differing pixmaps are written out as `raster`
// cases. Fit requests are generated inside C13's domain only: original scale with the square shape, or >= 4 pixels per module.
use libfuzzer_sys::fuzz_target;
use std::io::Write;
use std::panic::{catch_unwind, AssertUnwindSafe};

fn hex(b: &[u8]) -> String { b.iter().map(|x| format!("{:02x}", x)).collect() }
const CSS: [(&str, [u8; 4]); 8] = [("red", [255, 0, 0, 255]), ("white", [255, 255, 255, 255]), ("black", [0, 0, 0, 255]), ("blue", [0, 0, 255, 255]),
    ("#f00", [255, 0, 0, 255]), ("rgb(0,128,0)", [0, 128, 0, 255]), ("#00FF00", [0, 255, 0, 255]), ("yellow", [255, 255, 0, 255])];

#[derive(Clone)]
enum Col { Arr([u8; 4]), Vec4([u8; 4]), Sl3([u8; 4]), Css(usize) }
#[derive(Clone)]
enum Op { Margin(usize), Shape(usize), Fg(Col), Bg(Col), FitW(u32), FitH(u32) }

macro_rules! run {
    ($krate:ident, $ops:expr) => {{
        use $krate::convert::image::ImageBuilder;
        use $krate::convert::{Builder, Shape};
        use $krate::QRBuilder;
        const SH: [Shape; 6] = [Shape::Square, Shape::Circle, Shape::RoundedSquare, Shape::Vertical, Shape::Horizontal, Shape::Diamond];
        catch_unwind(AssertUnwindSafe(|| {
            let qr = QRBuilder::new("A").build().unwrap();
            let mut b = ImageBuilder::default();
            for op in $ops.iter().cloned() {
                match op {
                    Op::Margin(m) => { b.margin(m); }
                    Op::Shape(s) => { b.shape(SH[s]); }
                    Op::Fg(c) => { match c { Col::Arr(a) => { b.module_color(a); } Col::Vec4(a) => { b.module_color(a.to_vec()); } Col::Sl3(a) => { b.module_color(&a[..3]); } Col::Css(i) => { b.module_color(CSS[i].0); } } }
                    Op::Bg(c) => { match c { Col::Arr(a) => { b.background_color(a); } Col::Vec4(a) => { b.background_color(&a[..]); } Col::Sl3(a) => { b.background_color(&a[..3]); } Col::Css(i) => { b.background_color(CSS[i].0.to_string()); } } }
                    Op::FitW(w) => { b.fit_width(w); }
                    Op::FitH(h) => { b.fit_height(h); }
                }
            }
            let pm = b.to_pixmap(&qr);
            let mat: Vec<u8> = qr.data[..qr.size * qr.size].iter().map(|m| m.0).collect();
            (pm.width(), pm.height(), pm.data().to_vec(), qr.size, mat)
        })).unwrap_or((0, 0, b"PANIC".to_vec(), 0, vec![]))
    }};
}

fuzz_target!(|input: &[u8]| {
    static HOOK: std::sync::Once = std::sync::Once::new();
    HOOK.call_once(|| std::panic::set_hook(Box::new(|_| {})));
    if input.len() < 2 { return; }
    let nops = 1 + (input[0] % 8) as usize;
    let mut p = 1;
    let mut ops: Vec<Op> = vec![];
    let mut margin = 4usize;
    let mut shape = 0usize;
    let mut pending: Vec<(bool, u8)> = vec![];
    for _ in 0..nops {
        if p + 2 > input.len() { break; }
        let (k, a) = (input[p] % 6, input[p + 1]);
        p += 2;
        let col = |p: &mut usize| -> Option<Col> {
            if *p + 5 > input.len() { return None; }
            let c = [input[*p + 1], input[*p + 2], input[*p + 3], input[*p + 4]];
            let r = match input[*p] % 4 { 0 => Col::Arr(c), 1 => Col::Vec4(c), 2 => Col::Sl3(c), _ => Col::Css((c[0] % 8) as usize) };
            *p += 5;
            Some(r)
        };
        match k {
            0 => { margin = (a % 5) as usize; ops.push(Op::Margin(margin)); }
            1 => { shape = (a % 6) as usize; ops.push(Op::Shape(shape)); }
            2 => { if let Some(c) = col(&mut p) { ops.push(Op::Fg(c)); } }
            3 => { if let Some(c) = col(&mut p) { ops.push(Op::Bg(c)); } }
            4 => { pending.push((true, a)); ops.push(Op::FitW(0)); }
            _ => { pending.push((false, a)); ops.push(Op::FitH(0)); }
        }
    }
    // fit values depend on the FINAL margin: side * (4..8) + a remainder below side
    let side = (21 + 2 * margin) as u32;
    let mut it = pending.iter();
    for op in ops.iter_mut() {
        match op {
            Op::FitW(w) => { let (_, a) = it.next().unwrap(); *w = side * (4 + (*a as u32 % 5)) + (*a as u32 / 5) % side; }
            Op::FitH(h) => { let (_, a) = it.next().unwrap(); *h = side * (4 + (*a as u32 % 5)) + (*a as u32 / 5) % side; }
            _ => {}
        }
    }
    let has_fit = ops.iter().any(|o| matches!(o, Op::FitW(_) | Op::FitH(_)));
    if !has_fit && shape != 0 { return; }     // original scale is exact for the square shape only
    // equal fully transparent / identical colours make the picture meaningless for a pixel oracle: leave them to the renderer diff only
    let a = run!(fast_qr, &ops);
    let r = run!(fast_qr_ref, &ops);
    if (a.0, a.1, &a.2) != (r.0, r.1, &r.2) {
        if let Ok(base) = std::env::var("FQ_FUZZ_OUT") {
            if r.3 == 0 { return; }
            let mut line = format!("raster {} {}", r.3, hex(&r.4));
            let cs = |c: &Col, f: &str| -> String {
                match c {
                    Col::Arr(a) => format!(" {}g={}", f, hex(a)),
                    Col::Vec4(a) => format!(" {}gv={}", f, hex(a)),
                    Col::Sl3(a) => if f == "b" { format!(" bgv3={}", hex(a)) } else { format!(" fgv3={}", hex(a)) },
                    Col::Css(i) => format!(" {}gs={}:{}", f, hex(CSS[*i].0.as_bytes()), hex(&CSS[*i].1)),
                }
            };
            for op in &ops {
                line += &match op {
                    Op::Margin(m) => format!(" margin={}", m), Op::Shape(s) => format!(" shape={}", s),
                    Op::Fg(c) => cs(c, "f"), Op::Bg(c) => cs(c, "b"),
                    Op::FitW(w) => format!(" fitw={}", w), Op::FitH(h) => format!(" fith={}", h),
                };
            }
            let path = format!("{}.{}", base, std::process::id());
            if let Ok(mut fh) = std::fs::OpenOptions::new().create(true).append(true).open(path) { let _ = writeln!(fh, "{}", line); }
        }
    }
});
