#![no_main]
// Differential WITNESS SEARCH for the SVG renderer (see build_diff.rs): options decoded from the input bytes are applied to
// the SvgBuilder of the current tree and of the pinned reference copy; differing documents are written out as `svg` cases.
use libfuzzer_sys::fuzz_target;
use std::io::Write;
use std::panic::{catch_unwind, AssertUnwindSafe};

fn hex(b: &[u8]) -> String { b.iter().map(|x| format!("{:02x}", x)).collect() }

struct Opts {
    margin: Option<usize>, bg: Option<[u8; 4]>, fg: Option<[u8; 4]>, layers: Vec<(usize, Option<[u8; 4]>)>,
    image: Option<String>, ishape: Option<usize>, ibg: Option<[u8; 4]>, isize: Option<f64>, igap: Option<f64>, ipos: Option<(f64, f64)>,
}

macro_rules! render {
    ($krate:ident, $payload:expr, $v:expr, $o:expr) => {{
        use $krate::convert::svg::SvgBuilder;
        use $krate::convert::{Builder, ImageBackgroundShape, Shape};
        use $krate::{QRBuilder, Version};
        const VS: [Version; 40] = [
            Version::V01, Version::V02, Version::V03, Version::V04, Version::V05, Version::V06, Version::V07, Version::V08,
            Version::V09, Version::V10, Version::V11, Version::V12, Version::V13, Version::V14, Version::V15, Version::V16,
            Version::V17, Version::V18, Version::V19, Version::V20, Version::V21, Version::V22, Version::V23, Version::V24,
            Version::V25, Version::V26, Version::V27, Version::V28, Version::V29, Version::V30, Version::V31, Version::V32,
            Version::V33, Version::V34, Version::V35, Version::V36, Version::V37, Version::V38, Version::V39, Version::V40,
        ];
        const SH: [Shape; 6] = [Shape::Square, Shape::Circle, Shape::RoundedSquare, Shape::Vertical, Shape::Horizontal, Shape::Diamond];
        const ISH: [ImageBackgroundShape; 3] = [ImageBackgroundShape::Square, ImageBackgroundShape::Circle, ImageBackgroundShape::RoundedSquare];
        catch_unwind(AssertUnwindSafe(|| {
            let qr = QRBuilder::new($payload.to_vec()).version(VS[$v]).build().ok()?;
            let mut b = SvgBuilder::default();
            let o: &Opts = $o;
            if let Some(m) = o.margin { b.margin(m); }
            if let Some(c) = o.bg { b.background_color(c); }
            if let Some(c) = o.fg { b.module_color(c); }
            for (s, c) in &o.layers { match c { Some(c) => { b.shape_color(SH[*s], *c); } None => { b.shape(SH[*s]); } } }
            if let Some(i) = &o.image { b.image(i.clone()); }
            if let Some(s) = o.ishape { b.image_background_shape(ISH[s]); }
            if let Some(c) = o.ibg { b.image_background_color(c); }
            if let Some(x) = o.isize { b.image_size(x); }
            if let Some(x) = o.igap { b.image_gap(x); }
            if let Some((x, y)) = o.ipos { b.image_position(x, y); }
            let mat: Vec<u8> = qr.data[..qr.size * qr.size].iter().map(|m| m.0).collect();
            Some((qr.size, mat, b.to_str(&qr)))
        })).unwrap_or(Some((0, vec![], "PANIC".to_string())))
    }};
}

fuzz_target!(|input: &[u8]| {
    // libfuzzer-sys aborts the process on any panic; a panic of either crate is an outcome to compare here, not a crash
    static HOOK: std::sync::Once = std::sync::Once::new();
    HOOK.call_once(|| std::panic::set_hook(Box::new(|_| {})));
    if input.len() < 24 { return; }
    let f = input[2];
    let rgba = |i: usize| [input[i], input[i + 1], input[i + 2], input[i + 3]];
    let q4 = |b: u8| (b as f64) / 4.0;
    let mut o = Opts {
        margin: if input[1] < 128 { Some((input[1] % 20) as usize) } else { None },
        bg: if f & 1 != 0 { Some(rgba(3)) } else { None },
        fg: if f & 2 != 0 { Some(rgba(7)) } else { None },
        layers: vec![], image: None,
        ishape: if f & 8 != 0 { Some((input[15] % 3) as usize) } else { None },
        ibg: if f & 16 != 0 { Some(rgba(11)) } else { None },
        isize: if f & 32 != 0 { Some(q4(input[16])) } else { None },
        igap: if f & 64 != 0 { Some(q4(input[17])) } else { None },
        ipos: if f & 128 != 0 { Some((q4(input[18]), q4(input[19]))) } else { None },
    };
    let nl = (input[20] % 4) as usize;
    let mut p = 21;
    for _ in 0..nl {
        if p + 6 > input.len() { break; }
        let s = (input[p] % 6) as usize;
        let c = if input[p + 1] & 1 != 0 { Some(rgba(p + 2)) } else { None };
        o.layers.push((s, c));
        p += 6;
    }
    if f & 4 != 0 {
        let img = String::from_utf8_lossy(&input[p.min(input.len())..]).to_string();
        // C12 quantifies over URLs / data URIs / paths: characters that no XML document may contain at all (C0 controls other
        // than tab / LF / CR, U+FFFE, U+FFFF) are outside its domain
        if img.chars().any(|c| (c < ' ' && c != '\t' && c != '\n' && c != '\r') || c == '\u{fffe}' || c == '\u{ffff}') { return; }
        o.image = Some(img);
    }
    // small versions most of the time (a version-40 document is ~1 MB), every version reachable
    let v = if input[0] < 160 { (input[0] % 8) as usize } else { ((input[0] - 160) % 40) as usize };
    let payload = b"verif";
    let a = render!(fast_qr, payload, v, &o);
    let r = render!(fast_qr_ref, payload, v, &o);
    if a != r {
        if let (Some((n, mat, _)), Ok(base)) = (r, std::env::var("FQ_FUZZ_OUT")) {
            if n == 0 { return; }
            let mut line = format!("svg {} {}", n, hex(&mat));
            if let Some(m) = o.margin { line += &format!(" margin={}", m); }
            if let Some(c) = o.bg { line += &format!(" bg={}", hex(&c)); }
            if let Some(c) = o.fg { line += &format!(" fg={}", hex(&c)); }
            for (s, c) in &o.layers { match c { Some(c) => line += &format!(" shapec={}:{}", s, hex(c)), None => line += &format!(" shape={}", s) } }
            if let Some(i) = &o.image { if !i.is_empty() { line += &format!(" image={}", hex(i.as_bytes())); } else { return; } }
            if let Some(s) = o.ishape { line += &format!(" ishape={}", s); }
            if let Some(c) = o.ibg { line += &format!(" ibg={}", hex(&c)); }
            if let Some(x) = o.isize { line += &format!(" isize={}", x); }
            if let Some(x) = o.igap { line += &format!(" igap={}", x); }
            if let Some((x, y)) = o.ipos { line += &format!(" ipos={},{}", x, y); }
            let path = format!("{}.{}", base, std::process::id());
            if let Ok(mut fh) = std::fs::OpenOptions::new().create(true).append(true).open(path) { let _ = writeln!(fh, "{}", line); }
        }
    }
});
