//! Converts [`QRCode`] to an image
//!
//! ```rust
//! use fast_qr::convert::ConvertError;
//! use fast_qr::convert::{image::ImageBuilder, Builder, Shape};
//! use fast_qr::qr::QRBuilder;
//!
//! # fn main() -> Result<(), ConvertError> {
//! // QRBuilde::new can fail if content is too big for version,
//! // please check before unwrapping.
//! let qrcode = QRBuilder::new("https://example.com/")
//!     .build()
//!     .unwrap();
//!
//! let _img = ImageBuilder::default()
//!     .shape(Shape::RoundedSquare)
//!     .fit_width(600)
//!     .to_file(&qrcode, "out.png");
//!
//! #     std::fs::remove_file("out.png");
//! #     Ok(())
//! # }
//! ```

use std::fmt::Formatter;
use std::io;

use crate::QRCode;

use super::Color;
use super::{svg::SvgBuilder, Builder, Shape};

use resvg::tiny_skia::{self, Pixmap};
use resvg::usvg;

/// [`ImageBuilder`] contains an [`SvgBuilder`] and adds some options \
/// - fit_height adds a max-height boundary
/// - fit_width adds a max-width boundary
pub struct ImageBuilder {
    fit_height: Option<u32>,
    fit_width: Option<u32>,
    svg_builder: SvgBuilder,
}

/// Error when converting to image
#[derive(Debug)]
pub enum ImageError {
    /// Error while writing to file
    IoError(io::Error),
    /// Error while creating image
    ImageError(String),
    /// Error while convert to bytes
    EncodingError(String),
}

impl std::error::Error for ImageError {}

impl std::fmt::Display for ImageError {
    fn fmt(&self, f: &mut Formatter<'_>) -> std::fmt::Result {
        match self {
            ImageError::IoError(io_err) => f.write_str(io_err.to_string().as_str()),
            ImageError::ImageError(error) => f.write_str(error.as_str()),
            ImageError::EncodingError(error) => f.write_str(error.as_str()),
        }
    }
}

/// Creates an ImageBuilder instance, which contains an [`SvgBuilder`]
impl Default for ImageBuilder {
    fn default() -> Self {
        ImageBuilder {
            fit_height: None,
            fit_width: None,
            svg_builder: Default::default(),
        }
    }
}

impl Builder for ImageBuilder {
    fn margin(&mut self, margin: usize) -> &mut Self {
        self.svg_builder.margin(margin);
        self
    }

    fn module_color<C: Into<Color>>(&mut self, module_color: C) -> &mut Self {
        self.svg_builder.module_color(module_color);
        self
    }

    fn background_color<C: Into<Color>>(&mut self, background_color: C) -> &mut Self {
        self.svg_builder.background_color(background_color);
        self
    }

    fn shape(&mut self, shape: Shape) -> &mut Self {
        self.svg_builder.shape(shape);
        self
    }

    fn image(&mut self, image: String) -> &mut Self {
        self.svg_builder.image(image);
        self
    }

    fn image_background_color<C: Into<Color>>(&mut self, image_background_color: C) -> &mut Self {
        self.svg_builder
            .image_background_color(image_background_color);
        self
    }

    fn image_background_shape(
        &mut self,
        image_background_shape: super::ImageBackgroundShape,
    ) -> &mut Self {
        self.svg_builder
            .image_background_shape(image_background_shape);
        self
    }

    fn image_size(&mut self, image_size: f64) -> &mut Self {
        self.svg_builder.image_size(image_size);
        self
    }

    fn image_gap(&mut self, gap: f64) -> &mut Self {
        self.svg_builder.image_gap(gap);
        self
    }

    fn image_position(&mut self, x: f64, y: f64) -> &mut Self {
        self.svg_builder.image_position(x, y);
        self
    }

    fn shape_color<C: Into<Color>>(&mut self, shape: Shape, color: C) -> &mut Self {
        self.svg_builder.shape_color(shape, color);
        self
    }
}

impl ImageBuilder {
    /// Add a max-height boundary
    pub fn fit_height(&mut self, height: u32) -> &mut Self {
        self.fit_height = Some(height);
        self
    }

    /// Add a max-width boundary
    pub fn fit_width(&mut self, width: u32) -> &mut Self {
        self.fit_width = Some(width);
        self
    }

    // From https://github.com/RazrFalcon/resvg/blob/374a25f/crates/resvg/tests/integration/main.rs
    /// Return a pixmap containing the svg for a QRCode
    pub fn to_pixmap(&self, qr: &QRCode) -> Pixmap {
        let opt = usvg::Options::default();

        // Do not unwrap on the from_data line, because panic will poison GLOBAL_OPT.
        let tree = {
            let svg_data = self.svg_builder.to_str(qr);
            let tree = usvg::Tree::from_data(svg_data.as_bytes(), &opt);
            tree.expect("Failed to parse SVG")
        };

        let fit_to = match (self.fit_width, self.fit_height) {
            (Some(w), Some(h)) => usvg::FitTo::Size(w, h),
            (Some(w), None) => usvg::FitTo::Width(w),
            (None, Some(h)) => usvg::FitTo::Height(h),
            _ => usvg::FitTo::Original,
        };

        let size = fit_to
            .fit_to(tree.size.to_screen_size())
            .unwrap_or(tree.size.to_screen_size());
        let mut pixmap =
            tiny_skia::Pixmap::new(size.width(), size.height()).expect("Failed to create pixmap");
        resvg::render(
            &tree,
            fit_to,
            tiny_skia::Transform::default(),
            pixmap.as_mut(),
        )
        .unwrap();

        pixmap
    }

    /// Saves the image for a QRCode to a file
    pub fn to_file(&self, qr: &QRCode, file: &str) -> Result<(), ImageError> {
        use io::{Error, ErrorKind};

        self.to_pixmap(qr)
            .save_png(file)
            .map_err(|err| ImageError::IoError(Error::new(ErrorKind::Other, err.to_string())))
    }

    /// Saves the image for a QRCode in a byte buffer
    pub fn to_bytes(&self, qr: &QRCode) -> Result<Vec<u8>, ImageError> {
        let out = self.to_pixmap(qr);
        out.encode_png()
            .map_err(|err| ImageError::EncodingError(err.to_string()))
    }
}
