//! Converts [`QRCode`] to SVG
//!
//! ```rust
//! use fast_qr::convert::ConvertError;
//! use fast_qr::convert::{svg::SvgBuilder, Builder, Shape};
//! use fast_qr::qr::QRBuilder;
//!
//! # fn main() -> Result<(), ConvertError> {
//! // QRBuilde::new can fail if content is too big for version,
//! // please check before unwrapping.
//! let qrcode = QRBuilder::new("https://example.com/")
//!     .build()
//!     .unwrap();
//!
//! let _svg = SvgBuilder::default()
//!     .shape(Shape::RoundedSquare)
//!     .to_file(&qrcode, "out.svg");
//!
//! #     std::fs::remove_file("out.svg");
//! #     Ok(())
//! # }
//! ```

use crate::{QRCode, Version};

use super::{Builder, Color, ImageBackgroundShape, ModuleFunction, Shape};

/// Builder for svg, can set shape, margin, background_color, dot_color
pub struct SvgBuilder {
    /// Command vector allows predefined or custom shapes
    /// The default is square, commands can be added using `.shape()`
    commands: Vec<ModuleFunction>,
    /// Commands can also have a custom color
    /// The default is `dot_color`, commands with specific colors can be
    /// added using `.shape_color()`
    command_colors: Vec<Option<Color>>,
    /// The margin for the svg, default is 4
    margin: usize,
    /// The background color for the svg, default is #FFFFFF
    background_color: Color,
    /// The color for each module, default is #000000
    dot_color: Color,

    // Image Embedding
    /// Image to embed in the svg, can be a path or a base64 string
    image: Option<String>,
    /// Background color for the image, default is #FFFFFF
    image_background_color: Color,
    /// Background shape for the image, default is square
    image_background_shape: ImageBackgroundShape,
    /// Size of the image (in module size), default is ~1/3 of the svg
    image_size: Option<f64>,
    /// Gap between the image and the border (in module size), default is calculated
    image_gap: Option<f64>,
    /// Position of the image, default is center
    image_position: Option<(f64, f64)>,
}

#[derive(Debug)]
/// Possible errors when converting to SVG
pub enum SvgError {
    /// Error while writing file
    #[cfg(not(feature = "wasm-bindgen"))]
    IoError(std::io::Error),
    /// Error while creating svg
    SvgError(String),
}

/// Creates a Builder instance
impl Default for SvgBuilder {
    fn default() -> Self {
        SvgBuilder {
            background_color: [255; 4].into(),
            dot_color: [0, 0, 0, 255].into(),
            margin: 4,
            commands: Vec::new(),
            command_colors: Vec::new(),

            // Image Embedding
            image: None,
            image_background_color: [255; 4].into(),
            image_background_shape: ImageBackgroundShape::Square,
            image_size: None,
            image_gap: None,
            image_position: None,
        }
    }
}

impl Builder for SvgBuilder {
    fn margin(&mut self, margin: usize) -> &mut Self {
        self.margin = margin;
        self
    }

    fn module_color<C: Into<Color>>(&mut self, dot_color: C) -> &mut Self {
        self.dot_color = dot_color.into();
        self
    }

    fn background_color<C: Into<Color>>(&mut self, background_color: C) -> &mut Self {
        self.background_color = background_color.into();
        self
    }

    fn shape(&mut self, shape: Shape) -> &mut Self {
        self.commands.push(*shape);
        self.command_colors.push(None);
        self
    }

    fn shape_color<C: Into<Color>>(&mut self, shape: Shape, color: C) -> &mut Self {
        self.commands.push(*shape);
        self.command_colors.push(Some(color.into()));
        self
    }

    fn image(&mut self, image: String) -> &mut Self {
        self.image = Some(image);
        self
    }

    fn image_background_color<C: Into<Color>>(&mut self, image_background_color: C) -> &mut Self {
        self.image_background_color = image_background_color.into();
        self
    }

    fn image_background_shape(
        &mut self,
        image_background_shape: ImageBackgroundShape,
    ) -> &mut Self {
        self.image_background_shape = image_background_shape;
        self
    }

    fn image_size(&mut self, image_size: f64) -> &mut Self {
        self.image_size = Some(image_size);
        self
    }

    fn image_gap(&mut self, gap: f64) -> &mut Self {
        self.image_gap = Some(gap);
        self
    }

    fn image_position(&mut self, x: f64, y: f64) -> &mut Self {
        self.image_position = Some((x, y));
        self
    }
}

impl SvgBuilder {
    fn image_placement(image_background_shape: ImageBackgroundShape, n: usize) -> (f64, f64) {
        use ImageBackgroundShape::{Circle, RoundedSquare, Square};

        #[rustfmt::skip]
        const SQUARE: [f64; 40] = [
            5f64,   9f64,  9f64, 11f64, 13f64,
            13f64, 15f64, 17f64, 17f64, 19f64,
            21f64, 21f64, 23f64, 25f64, 25f64,
            27f64, 29f64, 29f64, 31f64, 33f64,
            33f64, 35f64, 37f64, 37f64, 39f64,
            41f64, 41f64, 43f64, 45f64, 45f64,
            47f64, 49f64, 49f64, 51f64, 53f64,
            53f64, 55f64, 57f64, 57f64, 59f64,
        ];
        const ROUNDED_SQUARE: [f64; 40] = SQUARE;
        const CIRCLE: [f64; 40] = SQUARE;

        // Using hardcoded values
        let version = Version::from_n(n) as usize;
        let border_size = match image_background_shape {
            Square => SQUARE[version],
            RoundedSquare => ROUNDED_SQUARE[version],
            Circle => CIRCLE[version],
        };

        // Allows for a module gap between the image and the border
        let gap = match image_background_shape {
            Square | RoundedSquare => 2f64,
            Circle => 3f64,
        };
        // Make the image border bigger for bigger versions
        let gap = gap * (version + 10) as f64 / 10f64;
        (border_size, (border_size - gap).round())
    }

    /// Escapes a string so it can be used inside a double-quoted XML attribute
    fn escape_attribute(value: &str) -> String {
        let mut out = String::with_capacity(value.len());
        for c in value.chars() {
            match c {
                '&' => out.push_str("&amp;"),
                '<' => out.push_str("&lt;"),
                '>' => out.push_str("&gt;"),
                '"' => out.push_str("&quot;"),
                '\'' => out.push_str("&apos;"),
                '\t' => out.push_str("&#9;"),
                '\n' => out.push_str("&#10;"),
                '\r' => out.push_str("&#13;"),
                _ => out.push(c),
            }
        }
        out
    }

    fn image(&self, n: usize) -> String {
        if self.image.is_none() {
            return String::new();
        }

        let image = self.image.as_ref().unwrap();
        let mut out = String::with_capacity(image.len() + 100);

        let (mut border_size, mut image_size) =
            Self::image_placement(self.image_background_shape, n);

        if let Some(override_size) = self.image_size {
            let gap = -(image_size - border_size);
            border_size = override_size + gap;
            image_size = override_size;
        }

        if let Some(override_gap) = self.image_gap {
            border_size = image_size + override_gap * 2f64;
        }

        let mut placed_coord_x = (self.margin * 2 + n) as f64 - border_size;

        // Adjust for non-integer initial x coordinates so as not to partially cover bits by rounding down.
        if placed_coord_x % 2f64 != 0f64 {
            placed_coord_x += 1f64;
            border_size -= 1f64;
        }

        placed_coord_x = placed_coord_x / 2f64;

        let mut placed_coord = (placed_coord_x, placed_coord_x);

        if let Some((x, y)) = self.image_position {
            placed_coord = (x - border_size / 2f64, y - border_size / 2f64);
        }

        let format = match self.image_background_shape {
            ImageBackgroundShape::Square => {
                r#"<rect x="{0}" y="{1}" width="{2}" height="{2}" fill="{3}"/>"#
            }
            ImageBackgroundShape::Circle => {
                r#"<rect x="{0}" y="{1}" width="{2}" height="{2}" fill="{3}" rx="1000px"/>"#
            }
            ImageBackgroundShape::RoundedSquare => {
                r#"<rect x="{0}" y="{1}" width="{2}" height="{2}" fill="{3}" rx="1px"/>"#
            }
        };

        let format = format
            .replace("{0}", &placed_coord.0.to_string())
            .replace("{1}", &placed_coord.1.to_string())
            .replace("{2}", &border_size.to_string())
            .replace("{3}", &self.image_background_color.to_str());

        out.push_str(&format);

        out.push_str(&format!(
            r#"<image x="{0:.2}" y="{1:.2}" width="{2:.2}" height="{2:.2}" href="{3}" />"#,
            placed_coord.0 + (border_size - image_size) / 2f64,
            placed_coord.1 + (border_size - image_size) / 2f64,
            image_size,
            Self::escape_attribute(image)
        ));

        out
    }

    fn path(&self, qr: &QRCode) -> String {
        const DEFAULT_COMMAND: [ModuleFunction; 1] = [Shape::square];
        const DEFAULT_COMMAND_COLOR: [Option<Color>; 1] = [None];

        // TODO: cleanup this basic logic
        let command_colors: &[Option<Color>] = if !self.commands.is_empty() {
            &self.command_colors
        } else {
            &DEFAULT_COMMAND_COLOR
        };
        let commands: &[ModuleFunction] = if !self.commands.is_empty() {
            &self.commands
        } else {
            &DEFAULT_COMMAND
        };

        let mut paths = vec![String::with_capacity(10 * qr.size * qr.size); commands.len()];
        for path in paths.iter_mut() {
            path.push_str(r#"<path d=""#);
        }

        for y in 0..qr.size {
            let line = &qr[y];
            for (x, &cell) in line.iter().enumerate() {
                if !cell.value() {
                    continue;
                }

                for (i, command) in commands.iter().enumerate() {
                    paths[i].push_str(&command(y + self.margin, x + self.margin, cell));
                }
            }
        }

        for (i, &command) in commands.iter().enumerate() {
            let command_color = command_colors[i].as_ref().unwrap_or(&self.dot_color);
            // Allows to compare if two function pointers are the same
            // This works because there is no notion of Generics for `rounded_square`
            if command as usize == Shape::rounded_square as usize {
                paths[i].push_str(&format!(
                    r##"" stroke-width=".3" stroke-linejoin="round" stroke="{}"##,
                    command_color.to_str()
                ));
            }

            paths[i].push_str(&format!(r#"" fill="{}"/>"#, command_color.to_str()));
        }

        paths.join("")
    }

    /// Return a string containing the svg for a qr code
    pub fn to_str(&self, qr: &QRCode) -> String {
        let n = qr.size;

        let mut out = String::with_capacity(11 * n * n / 2);
        out.push_str(&format!(
            r#"<svg viewBox="0 0 {0} {0}" xmlns="http://www.w3.org/2000/svg">"#,
            self.margin * 2 + n
        ));

        out.push_str(&format!(
            r#"<rect width="{0}px" height="{0}px" fill="{1}"/>"#,
            self.margin * 2 + n,
            self.background_color.to_str()
        ));

        out.push_str(&self.path(qr));
        out.push_str(&self.image(n));

        out.push_str("</svg>");
        out
    }

    /// Saves the svg for a qr code to a file
    #[cfg(not(feature = "wasm-bindgen"))]
    pub fn to_file(&self, qr: &QRCode, file: &str) -> Result<(), SvgError> {
        use std::fs::File;
        use std::io::Write;

        let out = self.to_str(qr);

        let mut f = File::create(file).map_err(SvgError::IoError)?;
        f.write_all(out.as_bytes()).map_err(SvgError::IoError)?;

        Ok(())
    }
}
