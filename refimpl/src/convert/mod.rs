//! Converts a [`crate::QRCode`] to image or SVG you will need to activate associated feature flag

#[cfg(feature = "svg")]
#[cfg_attr(docsrs, doc(cfg(feature = "svg")))]
pub mod svg;
use core::ops::Deref;

#[cfg(feature = "svg")]
use svg::SvgError;

#[cfg(feature = "image")]
#[cfg_attr(docsrs, doc(cfg(feature = "image")))]
pub mod image;
#[cfg(feature = "image")]
use image::ImageError;

use crate::Module;

/// Converts a position to a module svg
/// # Example
///
/// For the square shape, the svg is `M{x},{y}h1v1h-1`
///
/// ```rust
/// # use fast_qr::Module;
/// fn square(y: usize, x: usize, _module: Module) -> String {
///     format!("M{x},{y}h1v1h-1")
/// }
/// ```
pub type ModuleFunction = fn(usize, usize, Module) -> String;

#[cfg(all(target_arch = "wasm32", feature = "wasm-bindgen"))]
use wasm_bindgen::prelude::*;

/// Different possible Shapes to represent modules in a [`crate::QRCode`]
#[repr(C)]
#[wasm_bindgen]
#[cfg(feature = "wasm-bindgen")]
#[derive(Debug, Clone, Copy, PartialEq, Eq, Ord, PartialOrd)]
pub enum Shape {
    /// Square Shape
    Square,
    /// Circle Shape
    Circle,
    /// RoundedSquare Shape
    RoundedSquare,
    /// Vertical Shape
    Vertical,
    /// Horizontal Shape
    Horizontal,
    /// Diamond Shape
    Diamond,
}

/// Different possible Shapes to represent modules in a [`crate::QRCode`]
#[cfg(not(feature = "wasm-bindgen"))]
#[derive(Debug, Clone, Copy, PartialEq, Eq, Ord, PartialOrd)]
pub enum Shape {
    /// Square Shape
    Square,
    /// Circle Shape
    Circle,
    /// RoundedSquare Shape
    RoundedSquare,
    /// Vertical Shape
    Vertical,
    /// Horizontal Shape
    Horizontal,
    /// Diamond Shape
    Diamond,
    /// Custom Shape with a function / closure
    /// # Example
    /// ```rust
    /// use fast_qr::convert::Shape;
    /// let command_function = |y, x, cell| {
    ///     if x % 2 == 0 {
    ///         // Works thanks to Deref
    ///         Shape::Square(y, x, cell)
    ///     } else {
    ///         // Rectangle
    ///         format!("M{x},{y}h1v.5h-1")
    ///     }
    /// };
    /// let command = Shape::Command(command_function);
    /// ```
    ///
    /// <svg viewBox="0 0 37 37" xmlns="http://www.w3.org/2000/svg" width="250px">
    ///     <rect width="37px" height="37px" fill="#ffffff" />
    ///     <path
    ///         d="M4,4h1v1h-1M4,5h1v1h-1M4,6h1v1h-1M4,7h1v1h-1M4,8h1v1h-1M4,9h1v1h-1M4,10h1v1h-1M4,12h1v1h-1M4,13h1v1h-1M4,17h1v1h-1M4,19h1v1h-1M4,22h1v1h-1M4,24h1v1h-1M4,26h1v1h-1M4,27h1v1h-1M4,28h1v1h-1M4,29h1v1h-1M4,30h1v1h-1M4,31h1v1h-1M4,32h1v1h-1M5,4h1v.5h-1M5,10h1v.5h-1M5,12h1v.5h-1M5,13h1v.5h-1M5,14h1v.5h-1M5,17h1v.5h-1M5,19h1v.5h-1M5,22h1v.5h-1M5,23h1v.5h-1M5,26h1v.5h-1M5,32h1v.5h-1M6,4h1v1h-1M6,6h1v1h-1M6,7h1v1h-1M6,8h1v1h-1M6,10h1v1h-1M6,12h1v1h-1M6,14h1v1h-1M6,16h1v1h-1M6,18h1v1h-1M6,19h1v1h-1M6,23h1v1h-1M6,24h1v1h-1M6,26h1v1h-1M6,28h1v1h-1M6,29h1v1h-1M6,30h1v1h-1M6,32h1v1h-1M7,4h1v.5h-1M7,6h1v.5h-1M7,7h1v.5h-1M7,8h1v.5h-1M7,10h1v.5h-1M7,13h1v.5h-1M7,15h1v.5h-1M7,18h1v.5h-1M7,21h1v.5h-1M7,23h1v.5h-1M7,26h1v.5h-1M7,28h1v.5h-1M7,29h1v.5h-1M7,30h1v.5h-1M7,32h1v.5h-1M8,4h1v1h-1M8,6h1v1h-1M8,7h1v1h-1M8,8h1v1h-1M8,10h1v1h-1M8,16h1v1h-1M8,17h1v1h-1M8,18h1v1h-1M8,19h1v1h-1M8,20h1v1h-1M8,22h1v1h-1M8,23h1v1h-1M8,24h1v1h-1M8,26h1v1h-1M8,28h1v1h-1M8,29h1v1h-1M8,30h1v1h-1M8,32h1v1h-1M9,4h1v.5h-1M9,10h1v.5h-1M9,12h1v.5h-1M9,13h1v.5h-1M9,14h1v.5h-1M9,15h1v.5h-1M9,16h1v.5h-1M9,19h1v.5h-1M9,22h1v.5h-1M9,26h1v.5h-1M9,32h1v.5h-1M10,4h1v1h-1M10,5h1v1h-1M10,6h1v1h-1M10,7h1v1h-1M10,8h1v1h-1M10,9h1v1h-1M10,10h1v1h-1M10,12h1v1h-1M10,14h1v1h-1M10,16h1v1h-1M10,18h1v1h-1M10,20h1v1h-1M10,22h1v1h-1M10,24h1v1h-1M10,26h1v1h-1M10,27h1v1h-1M10,28h1v1h-1M10,29h1v1h-1M10,30h1v1h-1M10,31h1v1h-1M10,32h1v1h-1M11,12h1v.5h-1M11,13h1v.5h-1M11,15h1v.5h-1M11,16h1v.5h-1M11,17h1v.5h-1M11,18h1v.5h-1M11,19h1v.5h-1M12,6h1v1h-1M12,7h1v1h-1M12,8h1v1h-1M12,10h1v1h-1M12,12h1v1h-1M12,20h1v1h-1M12,22h1v1h-1M12,23h1v1h-1M12,24h1v1h-1M12,25h1v1h-1M12,26h1v1h-1M12,27h1v1h-1M12,30h1v1h-1M12,31h1v1h-1M12,32h1v1h-1M13,9h1v.5h-1M13,11h1v.5h-1M13,12h1v.5h-1M13,13h1v.5h-1M13,14h1v.5h-1M13,15h1v.5h-1M13,16h1v.5h-1M13,18h1v.5h-1M13,20h1v.5h-1M13,25h1v.5h-1M13,26h1v.5h-1M13,27h1v.5h-1M13,28h1v.5h-1M13,29h1v.5h-1M13,30h1v.5h-1M13,32h1v.5h-1M14,4h1v1h-1M14,6h1v1h-1M14,7h1v1h-1M14,9h1v1h-1M14,10h1v1h-1M14,12h1v1h-1M14,13h1v1h-1M14,14h1v1h-1M14,15h1v1h-1M14,16h1v1h-1M14,17h1v1h-1M14,18h1v1h-1M14,19h1v1h-1M14,20h1v1h-1M14,22h1v1h-1M14,24h1v1h-1M14,25h1v1h-1M14,26h1v1h-1M14,27h1v1h-1M15,4h1v.5h-1M15,6h1v.5h-1M15,8h1v.5h-1M15,9h1v.5h-1M15,11h1v.5h-1M15,12h1v.5h-1M15,13h1v.5h-1M15,15h1v.5h-1M15,16h1v.5h-1M15,18h1v.5h-1M15,20h1v.5h-1M15,21h1v.5h-1M15,22h1v.5h-1M15,25h1v.5h-1M15,26h1v.5h-1M15,27h1v.5h-1M15,29h1v.5h-1M15,31h1v.5h-1M16,5h1v1h-1M16,7h1v1h-1M16,9h1v1h-1M16,10h1v1h-1M16,11h1v1h-1M16,12h1v1h-1M16,14h1v1h-1M16,17h1v1h-1M16,24h1v1h-1M16,25h1v1h-1M16,27h1v1h-1M16,30h1v1h-1M16,31h1v1h-1M16,32h1v1h-1M17,5h1v.5h-1M17,6h1v.5h-1M17,8h1v.5h-1M17,9h1v.5h-1M17,12h1v.5h-1M17,16h1v.5h-1M17,18h1v.5h-1M17,20h1v.5h-1M17,23h1v.5h-1M17,24h1v.5h-1M17,25h1v.5h-1M17,26h1v.5h-1M17,28h1v.5h-1M17,29h1v.5h-1M17,31h1v.5h-1M17,32h1v.5h-1M18,4h1v1h-1M18,5h1v1h-1M18,7h1v1h-1M18,9h1v1h-1M18,10h1v1h-1M18,12h1v1h-1M18,13h1v1h-1M18,14h1v1h-1M18,16h1v1h-1M18,19h1v1h-1M18,20h1v1h-1M18,22h1v1h-1M18,24h1v1h-1M18,26h1v1h-1M18,27h1v1h-1M19,4h1v.5h-1M19,6h1v.5h-1M19,7h1v.5h-1M19,8h1v.5h-1M19,12h1v.5h-1M19,13h1v.5h-1M19,16h1v.5h-1M19,21h1v.5h-1M19,22h1v.5h-1M19,24h1v.5h-1M19,28h1v.5h-1M19,29h1v.5h-1M19,31h1v.5h-1M20,5h1v1h-1M20,6h1v1h-1M20,8h1v1h-1M20,9h1v1h-1M20,10h1v1h-1M20,13h1v1h-1M20,14h1v1h-1M20,16h1v1h-1M20,19h1v1h-1M20,20h1v1h-1M20,25h1v1h-1M20,29h1v1h-1M20,30h1v1h-1M20,31h1v1h-1M21,4h1v.5h-1M21,6h1v.5h-1M21,7h1v.5h-1M21,8h1v.5h-1M21,12h1v.5h-1M21,14h1v.5h-1M21,16h1v.5h-1M21,17h1v.5h-1M21,19h1v.5h-1M21,20h1v.5h-1M21,24h1v.5h-1M21,25h1v.5h-1M21,26h1v.5h-1M21,27h1v.5h-1M21,28h1v.5h-1M21,29h1v.5h-1M21,31h1v.5h-1M21,32h1v.5h-1M22,4h1v1h-1M22,7h1v1h-1M22,8h1v1h-1M22,10h1v1h-1M22,13h1v1h-1M22,15h1v1h-1M22,17h1v1h-1M22,19h1v1h-1M22,20h1v1h-1M22,21h1v1h-1M22,23h1v1h-1M22,26h1v1h-1M22,27h1v1h-1M22,29h1v1h-1M23,4h1v.5h-1M23,6h1v.5h-1M23,9h1v.5h-1M23,11h1v.5h-1M23,13h1v.5h-1M23,14h1v.5h-1M23,15h1v.5h-1M23,16h1v.5h-1M23,19h1v.5h-1M23,20h1v.5h-1M23,21h1v.5h-1M23,23h1v.5h-1M23,24h1v.5h-1M23,26h1v.5h-1M23,28h1v.5h-1M23,31h1v.5h-1M24,4h1v1h-1M24,6h1v1h-1M24,7h1v1h-1M24,9h1v1h-1M24,10h1v1h-1M24,12h1v1h-1M24,14h1v1h-1M24,15h1v1h-1M24,16h1v1h-1M24,17h1v1h-1M24,18h1v1h-1M24,19h1v1h-1M24,20h1v1h-1M24,22h1v1h-1M24,23h1v1h-1M24,24h1v1h-1M24,25h1v1h-1M24,26h1v1h-1M24,27h1v1h-1M24,28h1v1h-1M24,30h1v1h-1M25,12h1v.5h-1M25,16h1v.5h-1M25,18h1v.5h-1M25,20h1v.5h-1M25,21h1v.5h-1M25,22h1v.5h-1M25,24h1v.5h-1M25,28h1v.5h-1M25,29h1v.5h-1M25,32h1v.5h-1M26,4h1v1h-1M26,5h1v1h-1M26,6h1v1h-1M26,7h1v1h-1M26,8h1v1h-1M26,9h1v1h-1M26,10h1v1h-1M26,14h1v1h-1M26,16h1v1h-1M26,17h1v1h-1M26,18h1v1h-1M26,19h1v1h-1M26,21h1v1h-1M26,22h1v1h-1M26,23h1v1h-1M26,24h1v1h-1M26,26h1v1h-1M26,28h1v1h-1M27,4h1v.5h-1M27,10h1v.5h-1M27,13h1v.5h-1M27,14h1v.5h-1M27,15h1v.5h-1M27,16h1v.5h-1M27,17h1v.5h-1M27,19h1v.5h-1M27,20h1v.5h-1M27,22h1v.5h-1M27,23h1v.5h-1M27,24h1v.5h-1M27,28h1v.5h-1M27,29h1v.5h-1M28,4h1v1h-1M28,6h1v1h-1M28,7h1v1h-1M28,8h1v1h-1M28,10h1v1h-1M28,12h1v1h-1M28,13h1v1h-1M28,16h1v1h-1M28,20h1v1h-1M28,21h1v1h-1M28,22h1v1h-1M28,24h1v1h-1M28,25h1v1h-1M28,26h1v1h-1M28,27h1v1h-1M28,28h1v1h-1M28,29h1v1h-1M28,30h1v1h-1M28,32h1v1h-1M29,4h1v.5h-1M29,6h1v.5h-1M29,7h1v.5h-1M29,8h1v.5h-1M29,10h1v.5h-1M29,12h1v.5h-1M29,13h1v.5h-1M29,15h1v.5h-1M29,16h1v.5h-1M29,17h1v.5h-1M29,18h1v.5h-1M29,22h1v.5h-1M29,23h1v.5h-1M29,24h1v.5h-1M29,25h1v.5h-1M29,27h1v.5h-1M29,29h1v.5h-1M29,30h1v.5h-1M30,4h1v1h-1M30,6h1v1h-1M30,7h1v1h-1M30,8h1v1h-1M30,10h1v1h-1M30,12h1v1h-1M30,13h1v1h-1M30,14h1v1h-1M30,16h1v1h-1M30,18h1v1h-1M30,20h1v1h-1M30,21h1v1h-1M30,22h1v1h-1M30,23h1v1h-1M30,24h1v1h-1M30,25h1v1h-1M30,26h1v1h-1M30,27h1v1h-1M30,28h1v1h-1M30,30h1v1h-1M30,31h1v1h-1M31,4h1v.5h-1M31,10h1v.5h-1M31,13h1v.5h-1M31,18h1v.5h-1M31,19h1v.5h-1M31,20h1v.5h-1M31,21h1v.5h-1M31,26h1v.5h-1M31,28h1v.5h-1M31,29h1v.5h-1M31,31h1v.5h-1M32,4h1v1h-1M32,5h1v1h-1M32,6h1v1h-1M32,7h1v1h-1M32,8h1v1h-1M32,9h1v1h-1M32,10h1v1h-1M32,14h1v1h-1M32,15h1v1h-1M32,16h1v1h-1M32,17h1v1h-1M32,18h1v1h-1M32,19h1v1h-1M32,22h1v1h-1M32,26h1v1h-1M32,28h1v1h-1M32,30h1v1h-1"
    ///         fill="#000000" />
    /// </svg>
    Command(ModuleFunction),
}

impl From<Shape> for usize {
    fn from(shape: Shape) -> Self {
        match shape {
            Shape::Square => 0,
            Shape::Circle => 1,
            Shape::RoundedSquare => 2,
            Shape::Vertical => 3,
            Shape::Horizontal => 4,
            Shape::Diamond => 5,
            #[cfg(not(feature = "wasm-bindgen"))]
            Shape::Command(_) => 6,
        }
    }
}

impl From<String> for Shape {
    #[allow(clippy::match_same_arms)]
    fn from(shape: String) -> Self {
        match shape.to_lowercase().as_str() {
            "square" => Shape::Square,
            "circle" => Shape::Circle,
            "rounded_square" => Shape::RoundedSquare,
            "vertical" => Shape::Vertical,
            "horizontal" => Shape::Horizontal,
            "diamond" => Shape::Diamond,

            _ => Shape::Square,
        }
    }
}

impl From<Shape> for &str {
    fn from(shape: Shape) -> Self {
        match shape {
            Shape::Square => "square",
            Shape::Circle => "circle",
            Shape::RoundedSquare => "rounded_square",
            Shape::Vertical => "vertical",
            Shape::Horizontal => "horizontal",
            Shape::Diamond => "diamond",
            #[cfg(not(feature = "wasm-bindgen"))]
            Shape::Command(_) => "command",
        }
    }
}

impl Shape {
    pub(crate) fn square(y: usize, x: usize, _: Module) -> String {
        format!("M{x},{y}h1v1h-1")
    }

    pub(crate) fn circle(y: usize, x: usize, _: Module) -> String {
        format!("M{},{y}.5a.5,.5 0 1,1 0,-.1", x + 1)
    }

    pub(crate) fn rounded_square(y: usize, x: usize, _: Module) -> String {
        format!("M{x}.2,{y}.2 {x}.8,{y}.2 {x}.8,{y}.8 {x}.2,{y}.8z")
    }

    pub(crate) fn horizontal(y: usize, x: usize, _: Module) -> String {
        format!("M{x},{y}.1h1v.8h-1")
    }

    pub(crate) fn vertical(y: usize, x: usize, _: Module) -> String {
        format!("M{x}.1,{y}h.8v1h-.8")
    }

    pub(crate) fn diamond(y: usize, x: usize, _: Module) -> String {
        format!("M{x}.5,{y}l.5,.5l-.5,.5l-.5,-.5z")
    }

    const FUNCTIONS: [ModuleFunction; 6] = [
        Shape::square,
        Shape::circle,
        Shape::rounded_square,
        Shape::vertical,
        Shape::horizontal,
        Shape::diamond,
    ];
}

impl Deref for Shape {
    type Target = ModuleFunction;

    fn deref(&self) -> &Self::Target {
        let index: usize = (*self).into();
        match self {
            #[cfg(not(feature = "wasm-bindgen"))]
            Self::Command(func) => func,
            _ => &Self::FUNCTIONS[index],
        }
    }
}

/// Different possible image background shapes
#[cfg_attr(feature = "wasm-bindgen", repr(C), wasm_bindgen)]
#[derive(Debug, Clone, Copy, PartialEq, Eq, Ord, PartialOrd)]
pub enum ImageBackgroundShape {
    /// Square shape
    Square,
    /// Circle shape
    Circle,
    /// Rounded square shape
    RoundedSquare,
}

/// Contains possible errors for a conversion
#[derive(Debug)]
pub enum ConvertError {
    /// Contains error message for a SVG conversion
    #[cfg(feature = "svg")]
    #[cfg_attr(docsrs, doc(cfg(feature = "svg")))]
    Svg(String),
    /// Contains error message for an Image conversion
    #[cfg(feature = "image")]
    #[cfg_attr(docsrs, doc(cfg(feature = "image")))]
    Image(String),
    /// Contains error message if a file write failed
    Io(std::io::Error),
}

#[cfg(feature = "svg")]
#[cfg_attr(docsrs, doc(cfg(feature = "svg")))]
impl From<SvgError> for ConvertError {
    fn from(err: SvgError) -> Self {
        match err {
            SvgError::SvgError(svg_err) => Self::Svg(svg_err),
            #[cfg(not(feature = "wasm-bindgen"))]
            SvgError::IoError(io_err) => Self::Io(io_err),
        }
    }
}

#[cfg(feature = "image")]
#[cfg_attr(docsrs, doc(cfg(feature = "image")))]
impl From<ImageError> for ConvertError {
    fn from(err: ImageError) -> Self {
        match err {
            ImageError::EncodingError(image_err) => Self::Image(image_err),
            ImageError::ImageError(image_err) => Self::Image(image_err),
            ImageError::IoError(io_err) => Self::Io(io_err),
        }
    }
}

/// Converts an array of pixel color to it's hexadecimal representation
/// # Example
/// ```rust
/// # use fast_qr::convert::rgba2hex;
/// let color = [0, 0, 0, 255];
/// assert_eq!(&rgba2hex(color), "#000000");
/// ```
#[must_use]
pub fn rgba2hex(color: [u8; 4]) -> String {
    let mut hex = String::with_capacity(9);

    hex.push('#');
    hex.push_str(&format!("{:02x}", color[0]));
    hex.push_str(&format!("{:02x}", color[1]));
    hex.push_str(&format!("{:02x}", color[2]));
    if color[3] != 255 {
        hex.push_str(&format!("{:02x}", color[3]));
    }

    hex
}

/// Allows to take String, string slices, arrays or slices of u8 (3 or 4) to create a [Color]
pub struct Color(pub String);

impl Color {
    /// Returns the contained color
    #[must_use]
    pub fn to_str(&self) -> &str {
        &self.0
    }
}

impl From<String> for Color {
    fn from(color: String) -> Self {
        Self(color)
    }
}

impl From<&str> for Color {
    fn from(color: &str) -> Self {
        Self(color.to_string())
    }
}

impl From<[u8; 4]> for Color {
    fn from(color: [u8; 4]) -> Self {
        Self(rgba2hex(color))
    }
}

impl From<[u8; 3]> for Color {
    fn from(color: [u8; 3]) -> Self {
        Self::from([color[0], color[1], color[2], 255])
    }
}

impl From<&[u8]> for Color {
    fn from(color: &[u8]) -> Self {
        if color.len() == 3 {
            Self::from([color[0], color[1], color[2]])
        } else if color.len() == 4 {
            Self::from([color[0], color[1], color[2], color[3]])
        } else {
            panic!("Invalid color length");
        }
    }
}

impl From<Vec<u8>> for Color {
    fn from(color: Vec<u8>) -> Self {
        Self::from(&color[..])
    }
}

/// Trait for `SvgBuilder` and `ImageBuilder`
pub trait Builder {
    /// Updates margin (default: 4)
    fn margin(&mut self, margin: usize) -> &mut Self;
    /// Updates module color (default: #000000)
    fn module_color<C: Into<Color>>(&mut self, module_color: C) -> &mut Self;
    /// Updates background color (default: #FFFFFF)
    fn background_color<C: Into<Color>>(&mut self, background_color: C) -> &mut Self;
    /// Adds a shape to the shapes list
    fn shape(&mut self, shape: Shape) -> &mut Self;
    /// Add a shape to the shapes list with a specific color
    fn shape_color<C: Into<Color>>(&mut self, shape: Shape, color: C) -> &mut Self;

    // Manages the image part

    /// Provides the image path or an base64 encoded image
    fn image(&mut self, image: String) -> &mut Self;
    /// Updates the image background color (default: #FFFFFF)
    fn image_background_color<C: Into<Color>>(&mut self, image_background_color: C) -> &mut Self;
    /// Updates the image background shape (default: Square)
    fn image_background_shape(&mut self, image_background_shape: ImageBackgroundShape)
        -> &mut Self;
    /// Updates the image size and the gap between the image and the [`crate::QRCode`]
    /// Default is around 30% of the [`crate::QRCode`] size
    fn image_size(&mut self, image_size: f64) -> &mut Self;
    /// Updates the gap between the image and the [`crate::QRCode`]
    fn image_gap(&mut self, gap: f64) -> &mut Self;
    /// Updates the image position, anchor is the center of the image. Default is the center of the [`crate::QRCode`]
    fn image_position(&mut self, x: f64, y: f64) -> &mut Self;
}
