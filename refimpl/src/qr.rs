//! Module `qr` is the entrypoint to start making `QRCodes`

use crate::module::Module;
use core::fmt::{Debug, Formatter};
use core::ops::{Index, IndexMut};

use crate::datamasking::Mask;
use crate::encode::Mode;
#[cfg(not(feature = "wasm-bindgen"))]
use crate::helpers;
use crate::{encode, Version, ECL};

const QR_MAX_WIDTH: usize = 177;
const QR_MAX_MODULES: usize = QR_MAX_WIDTH * QR_MAX_WIDTH;

/// A `QRCode` can be created using [`QRBuilder`]. Simple API for simple usage.
/// If you need to use `QRCode` directly, please file an [issue on
/// github](https://github.com/erwanvivien/fast_qr) explaining your use case.
///
/// Contains all needed information about the `QRCode`.
/// This is the main struct of the crate.
///
/// It contains the matrix of the `QRCode`, stored as a one-dimensional array.
#[derive(Clone)]
pub struct QRCode {
    /// This array length is of size `177 x 177`. It is using a fixed size
    /// array simply because of performance.
    ///
    /// # Other data type possible:
    /// - Templated Matrix was faster but crate size was huge.
    /// - Vector using `with_capacity`, really bad.
    pub data: [Module; QR_MAX_MODULES],
    /// Width & Height of QRCode. If manually set, should be `version * 4 + 17`, `version` going
    /// from 1 to 40 both included.
    pub size: usize,

    /// Version of the `QRCode`, impacts the size.
    ///
    /// `None` will optimize Version according to ECL and Mode
    pub version: Option<Version>,
    /// Defines how powerful `QRCode` redundancy should be or how much percent of a QRCode can be
    /// recovered.
    ///
    /// - `ECL::L`: 7%
    /// - `ECL::M`: 15%
    /// - `ECL::Q`: 25%
    /// - `ELC::H`: 30%
    ///
    /// `None` will set ECL to Quartile (`ELC::Q`)
    pub ecl: Option<ECL>,

    /// Changes the final pattern used.
    ///
    /// None will find the best suited mask.
    pub mask: Option<Mask>,
    /// Mode defines which data is being parsed, between Numeric, AlphaNumeric & Byte.
    ///
    /// `None` will optimize Mode according to user input.
    ///
    /// ## Note
    /// Kanji mode is not supported (yet).
    pub mode: Option<Mode>,
}

impl Debug for QRCode {
    fn fmt(&self, f: &mut Formatter<'_>) -> core::fmt::Result {
        f.debug_struct("QRCode")
            .field("size", &self.size)
            .field("version", &self.version)
            .field("ecl", &self.ecl)
            .field("mask", &self.mask)
            .field("mode", &self.mode)
            .finish_non_exhaustive()
    }
}

impl QRCode {
    /// A default `QRCode` will have all it's fields as `None` and a default Matrix filled with `Module::LIGHT`.
    #[must_use]
    pub const fn default(size: usize) -> Self {
        QRCode {
            data: [Module::data(Module::LIGHT); QR_MAX_MODULES],
            size,
            version: None,
            ecl: None,
            mask: None,
            mode: None,
        }
    }
}

impl Index<usize> for QRCode {
    type Output = [Module];

    fn index(&self, index: usize) -> &Self::Output {
        &self.data[index * self.size..(index + 1) * self.size]
    }
}

impl IndexMut<usize> for QRCode {
    fn index_mut(&mut self, index: usize) -> &mut Self::Output {
        &mut self.data[index * self.size..(index + 1) * self.size]
    }
}

/// Contains different error when [`QRCode`] could not be created
pub enum QRCodeError {
    /// If data if too large to be encoded (refer to Table 7-11 of the spec or [an online table](https://fast-qr.com/blog/tables/ecl))
    EncodedData,
    /// Specified version too small to contain data
    SpecifiedVersion,
}

// We don't want to use `std::error::Error` on wasm32
impl std::error::Error for QRCodeError {}

impl std::fmt::Display for QRCodeError {
    fn fmt(&self, f: &mut Formatter<'_>) -> core::fmt::Result {
        match self {
            QRCodeError::EncodedData => f.write_str("Data too big to be encoded"),
            QRCodeError::SpecifiedVersion => {
                f.write_str("Specified version too low to contain data")
            }
        }
    }
}

impl Debug for QRCodeError {
    fn fmt(&self, f: &mut Formatter<'_>) -> core::fmt::Result {
        match self {
            QRCodeError::EncodedData => f.write_str("Data too big to be encoded"),
            QRCodeError::SpecifiedVersion => {
                f.write_str("Specified version too low to contain data")
            }
        }
    }
}

impl QRCode {
    /// Creates a new `QRCode` from a ECL / version
    ///
    /// # Errors
    /// - `QRCodeError::EncodedData` if `input` is too large to be encoded
    /// - `QRCodeError::SpecifiedVersion` if specified `version` is too small to contain data
    pub(crate) fn new(
        input: &[u8],
        ecl: Option<ECL>,
        v: Option<Version>,
        mode: Option<Mode>,
        mut mask: Option<Mask>,
    ) -> Result<Self, QRCodeError> {
        use crate::placement::create_matrix;

        let mode = mode.unwrap_or_else(|| encode::best_encoding(input));
        let level = ecl.unwrap_or(ECL::Q);

        let version = match Version::get(mode, level, input.len()) {
            Some(version) => version,
            None => return Err(QRCodeError::EncodedData),
        };
        let version = match v {
            Some(user_version) if user_version as usize >= version as usize => user_version,
            None => version,
            Some(_) => return Err(QRCodeError::SpecifiedVersion),
        };

        let out = create_matrix(input, level, mode, version, &mut mask);
        Ok(out)
    }

    /// Prints the `QRCode` to the terminal
    #[must_use]
    #[cfg(not(feature = "wasm-bindgen"))]
    pub fn to_str(&self) -> String {
        helpers::print_matrix_with_margin(self)
    }

    /// Prints the `QRCode` to the terminal
    #[cfg(not(feature = "wasm-bindgen"))]
    pub fn print(&self) {
        println!("{}", helpers::print_matrix_with_margin(self));
    }
}

/// Builder struct, makes it easier to create a [`QRCode`].
///
/// # Example
/// ```rust
/// use fast_qr::QRBuilder;
/// use fast_qr::{Mask, ECL, Version};
///
/// // Creates a `QRCode` with a forced `version`, `ecl` and/or `mask`
/// let input = String::from("Hello World!");
/// let qr = QRBuilder::new(input)
///     // .version(Version::V05)
///     // .ecl(ECL::H)
///     // .mask(Mask::Checkerboard)
///     .build();
/// ```
pub struct QRBuilder {
    input: Vec<u8>,
    ecl: Option<ECL>,
    mode: Option<Mode>,
    version: Option<Version>,
    mask: Option<Mask>,
}

impl QRBuilder {
    /// Creates an instance of `QRBuilder` with default parameters
    #[must_use]
    pub fn new<I: Into<Vec<u8>>>(input: I) -> QRBuilder {
        QRBuilder {
            input: input.into(),
            mask: None,
            mode: None,
            version: None,
            ecl: None,
        }
    }

    /// Forces the Mode
    pub fn mode(&mut self, mode: Mode) -> &mut Self {
        self.mode = Some(mode);
        self
    }

    /// Forces the Encoding Level
    pub fn ecl(&mut self, ecl: ECL) -> &mut Self {
        self.ecl = Some(ecl);
        self
    }

    /// Forces the version
    pub fn version(&mut self, version: Version) -> &mut Self {
        self.version = Some(version);
        self
    }

    /// Forces the mask, should very rarely be used
    pub fn mask(&mut self, mask: Mask) -> &mut Self {
        self.mask = Some(mask);
        self
    }

    /// Computes a [`QRCode`] with given parameters
    ///
    /// # Errors
    /// - `QRCodeError::EncodedData` if `input` is too large to be encoded. See [an online table](https://fast-qr.com/blog/tables/ecl) for more info.
    /// - `QRCodeError::SpecifiedVersion` if specified `version` is too small to contain data
    pub fn build(&self) -> Result<QRCode, QRCodeError> {
        QRCode::new(&self.input, self.ecl, self.version, self.mode, self.mask)
    }
}
