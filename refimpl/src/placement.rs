//! Places data on a matrix
#![deny(unsafe_code)]
#![warn(missing_docs)]

use crate::compact::CompactQR;
use crate::datamasking::Mask;
use crate::encode::Mode;

use crate::module::ModuleType;
use crate::{datamasking, default, encode, polynomials, score, QRCode};
use crate::{Version, ECL};
use core::iter::Rev;
use core::ops::Range;

pub enum BiRange {
    Forward(Range<usize>),
    Backwards(Rev<Range<usize>>),
}

impl Iterator for BiRange {
    type Item = usize;
    fn next(&mut self) -> Option<usize> {
        match self {
            BiRange::Forward(range) => range.next(),
            BiRange::Backwards(range) => range.next(),
        }
    }
}

#[cfg(test)]
pub fn test_place_on_matrix_data(qr: &mut QRCode, structure_as_binarystring: &CompactQR) {
    place_on_matrix_data(qr, structure_as_binarystring);
}

/// Places the data on the matrix
pub fn place_on_matrix_data(qr: &mut QRCode, structure_as_binarystring: &CompactQR) {
    let structure_bytes_tmp = structure_as_binarystring.get_data();

    let mut rev = true;
    let mut idx = 0;

    // 0, 2, 4, 7, 9, .., N (skipping 6)
    for x in (0..6).chain(7..qr.size).rev().step_by(2) {
        let y_range = if rev {
            BiRange::Backwards((0..qr.size).rev())
        } else {
            BiRange::Forward(0..qr.size)
        };

        for y in y_range {
            if qr[y][x].module_type() == ModuleType::Data {
                let c = structure_bytes_tmp[idx / 8] & (1 << (7 - idx % 8));
                idx += 1;
                qr[y][x].set(c != 0);
            }
            if qr[y][x - 1].module_type() == ModuleType::Data {
                let c = structure_bytes_tmp[idx / 8] & (1 << (7 - idx % 8));
                idx += 1;
                qr[y][x - 1].set(c != 0);
            }
        }

        rev = !rev;
    }

    #[cfg(debug_assertions)]
    {
        let version = Version::from_n(qr.size);
        assert_eq!(idx - version.missing_bits(), version.max_bytes() * 8);
    }
}

const MASKS: [Mask; 8] = [
    Mask::Checkerboard,
    Mask::HorizontalLines,
    Mask::VerticalLines,
    Mask::DiagonalLines,
    Mask::LargeCheckerboard,
    Mask::Fields,
    Mask::Diamonds,
    Mask::Meadow,
];

/// Main function to place everything in the `QRCode`, returns a valid matrix
pub fn place_on_matrix(
    structure_as_binarystring: &CompactQR,
    quality: ECL,
    version: Version,
    mask: &mut Option<Mask>,
) -> QRCode {
    let mut best_score = u32::MAX;
    let mut best_mask = MASKS[0];

    let mut qr = default::create_matrix(version);
    place_on_matrix_data(&mut qr, structure_as_binarystring);

    for mask in MASKS {
        let mut copy = qr.clone();

        datamasking::mask(&mut copy, mask);
        let copy_transpose = default::transpose(&copy);
        let matrix_score = score::score(&copy, &copy_transpose);
        #[cfg(feature = "verif-hooks")]
        crate::verif_hooks::record(mask, matrix_score, &copy);
        if matrix_score < best_score {
            best_score = matrix_score;
            best_mask = mask;
        }
    }

    best_mask = mask.unwrap_or(best_mask);
    *mask = Some(best_mask);

    default::create_matrix_format_info(&mut qr, quality, best_mask);
    datamasking::mask(&mut qr, best_mask);

    qr.mask = *mask;
    qr
}

/// Generate the whole matrix
pub fn create_matrix(
    input: &[u8],
    ecl: ECL,
    mode: Mode,
    version: Version,
    mask: &mut Option<Mask>,
) -> QRCode {
    let data_codewords = encode::encode(input, ecl, mode, version);
    let structure = polynomials::structure(data_codewords.get_data(), ecl, version);

    let max = version.max_bytes() * 8;
    let structure_binstring = CompactQR::from_array(&structure, max + version.missing_bits());

    QRCode {
        mode: Some(mode),
        ecl: Some(ecl),
        version: Some(version),
        ..place_on_matrix(&structure_binstring, ecl, version, mask)
    }
}
