//! Verification hooks: add-only re-exports of crate-private items and a
//! recorder for the mask selection loop. Compiled only with feature
//! `verif-hooks`; nothing here is used by the library itself.
#![allow(missing_docs)]

use std::cell::RefCell;

pub use crate::compact::CompactQR;
pub use crate::datamasking::mask as apply_mask;
pub use crate::default::{create_matrix as blank_matrix, create_matrix_format_info, transpose};
pub use crate::encode::{best_encoding, encode};
pub use crate::hardcode::{
    cci_bits, data_bits, data_codewords, ecc_to_groups, ecm_to_format_information,
    get_polynomial, PERCENT_SCORE,
};
pub use crate::placement::{create_matrix as full_matrix, place_on_matrix, place_on_matrix_data};
pub use crate::polynomials::{division, structure, verif_tables as gf_tables};
pub use crate::score::{
    score, verif_dark as dark_module_score, verif_line as line,
    verif_pattern_and_line as matrix_pattern_and_line, verif_squares as matrix_score_squares,
};

use crate::{Mask, Mode, QRCode, Version, ECL};

pub fn version_get(mode: Mode, ecl: ECL, len: usize) -> Option<Version> {
    Version::get(mode, ecl, len)
}

pub fn version_missing_bits(v: Version) -> usize {
    v.missing_bits()
}

pub fn version_max_bytes(v: Version) -> usize {
    v.max_bytes()
}

pub fn version_information(v: Version) -> u32 {
    v.information()
}

pub fn version_alignment_patterns_grid(v: Version) -> &'static [usize] {
    v.alignment_patterns_grid()
}

pub fn version_size(v: Version) -> usize {
    v.size()
}

pub fn ascii_to_alphanumeric(c: u8) -> usize {
    crate::encode::ascii_to_alphanumeric(c)
}

pub fn is_qr_alphanumeric(c: u8) -> bool {
    crate::encode::verif_is_qr_alphanumeric(c)
}

pub fn qrcode_new(
    input: &[u8],
    ecl: Option<ECL>,
    v: Option<Version>,
    mode: Option<Mode>,
    mask: Option<Mask>,
) -> Result<QRCode, crate::qr::QRCodeError> {
    QRCode::new(input, ecl, v, mode, mask)
}

/// One iteration of the mask selection loop: the mask tried, the score used
/// for ranking, and the candidate matrix that was scored (size*size bytes).
pub struct Candidate {
    pub mask: Mask,
    pub score: u32,
    pub size: usize,
    pub modules: Vec<u8>,
}

thread_local! {
    static RECORD: RefCell<Option<Vec<Candidate>>> = RefCell::new(None);
}

/// Starts recording on this thread (clears any previous record).
pub fn record_start() {
    RECORD.with(|r| *r.borrow_mut() = Some(Vec::new()));
}

/// Stops recording and returns what was recorded on this thread.
pub fn record_take() -> Vec<Candidate> {
    RECORD.with(|r| r.borrow_mut().take().unwrap_or_default())
}

pub(crate) fn record(mask: Mask, score: u32, qr: &QRCode) {
    RECORD.with(|r| {
        if let Some(v) = r.borrow_mut().as_mut() {
            let n = qr.size;
            v.push(Candidate {
                mask,
                score,
                size: n,
                modules: qr.data[..n * n].iter().map(|m| m.0).collect(),
            });
        }
    });
}
