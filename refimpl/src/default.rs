//! Creates the default empty `QRCode` (no data)
#![deny(unsafe_code)]
#![warn(missing_docs)]

use crate::datamasking::Mask;
use crate::module::Module;
use crate::version::Version;
use crate::{hardcode, QRCode, ECL};

/// Size of FIP (Finder Patterns)
const POSITION_SIZE: usize = 7;

pub fn transpose(qr: &QRCode) -> QRCode {
    let mut transpose = qr.clone();

    for i in 0..qr.size {
        for j in i + 1..qr.size {
            transpose[i][j] = qr[j][i];
            transpose[j][i] = qr[i][j];
        }
    }

    transpose
}

pub fn create_matrix(version: Version) -> QRCode {
    let size = version.size();
    let mut qr = QRCode::default(size);

    create_matrix_pattern(&mut qr);
    create_matrix_timing(&mut qr);
    create_matrix_dark_module(&mut qr);
    create_matrix_alignments(&mut qr, version);
    create_matrix_version_info(&mut qr, version);
    create_matrix_empty(&mut qr);

    let n: usize = qr.size;

    // Format information is not placed on the matrix yet
    // But we fill it anyway with garbage data to make it easier for placement
    {
        if (version as usize) < (Version::V01 as usize) {
            return qr;
        }

        for i in 0..=5 {
            // Top left
            qr[8][i] = Module::format(Module::LIGHT);
            qr[i][8] = Module::format(Module::LIGHT);

            // Top right
            qr[8][n - 1 - i] = Module::format(Module::LIGHT);

            // Bottom left
            qr[n - 1 - i][8] = Module::format(Module::LIGHT);
        }

        // Top left
        qr[8][7] = Module::format(Module::LIGHT);
        qr[8][8] = Module::format(Module::LIGHT);
        qr[7][8] = Module::format(Module::LIGHT);

        // Top right
        qr[8][n - 1 - 6] = Module::format(Module::LIGHT);
        qr[8][n - 1 - 7] = Module::format(Module::LIGHT);

        // Bottom left
        qr[n - 1 - 6][8] = Module::format(Module::LIGHT);
    }

    qr
}

/// Adds the 3 needed squares
pub fn create_matrix_pattern(qr: &mut QRCode) {
    let length = qr.size;
    let offsets = [
        (0, 0),
        (length - POSITION_SIZE, 0),
        (0, length - POSITION_SIZE),
    ];

    // Required pattern (4.1 Positions)
    for (y, x) in offsets {
        // Border
        for j in 0..=6 {
            qr[y][j + x] = Module::finder_pattern(Module::DARK);
            qr[6 + y][j + x] = Module::finder_pattern(Module::DARK);

            qr[j + y][x] = Module::finder_pattern(Module::DARK);
            qr[j + y][6 + x] = Module::finder_pattern(Module::DARK);
        }

        for j in 1..=5 {
            qr[y + 1][j + x] = Module::finder_pattern(Module::LIGHT);
            qr[5 + y][j + x] = Module::finder_pattern(Module::LIGHT);

            qr[j + y][x + 1] = Module::finder_pattern(Module::LIGHT);
            qr[j + y][5 + x] = Module::finder_pattern(Module::LIGHT);
        }

        for j in 2..=4 {
            qr[j + y][2 + x] = Module::finder_pattern(Module::DARK);
            qr[j + y][3 + x] = Module::finder_pattern(Module::DARK);
            qr[j + y][4 + x] = Module::finder_pattern(Module::DARK);
        }
    }
}

/// Adds the two lines of Timing patterns
pub fn create_matrix_timing(qr: &mut QRCode) {
    let length = qr.size;
    // Required pattern (4.3 Timing)
    for i in POSITION_SIZE + 1..length - POSITION_SIZE {
        let value = if (POSITION_SIZE + 1) % 2 == i % 2 {
            Module::DARK
        } else {
            Module::LIGHT
        };

        qr[POSITION_SIZE - 1][i] = Module::timing(value);
        qr[i][POSITION_SIZE - 1] = Module::timing(value);
    }
}

/// Adds the forever present pixel
pub fn create_matrix_dark_module(qr: &mut QRCode) {
    // Dark module
    let n: usize = qr.size;
    qr[n - 8][8] = Module::dark(Module::DARK);
}

/// Adds the smaller squares if needed
pub fn create_matrix_alignments(qr: &mut QRCode, version: Version) {
    if let Version::V01 = version {
        return;
    }

    // Alignments (smaller cubes)
    let alignment_patterns = version.alignment_patterns_grid();
    let max = alignment_patterns.len() - 1;

    for (i, &alignment_y) in alignment_patterns.iter().enumerate() {
        for (j, &alignment_x) in alignment_patterns.iter().enumerate() {
            if i == 0 && (j == max || j == 0) || (i == max && j == 0) {
                continue;
            }

            let y = alignment_y - 2;
            let x = alignment_x - 2;

            for offset in 0..=4 {
                qr[y][x + offset] = Module::alignment(Module::DARK);
                qr[y + 4][x + offset] = Module::alignment(Module::DARK);

                qr[y + offset][x] = Module::alignment(Module::DARK);
                qr[y + offset][x + 4] = Module::alignment(Module::DARK);
            }

            let y = alignment_y - 1;
            let x = alignment_x - 1;

            for offset in 0..=2 {
                qr[y][x + offset] = Module::alignment(Module::LIGHT);
                qr[y + 2][x + offset] = Module::alignment(Module::LIGHT);

                qr[y + offset][x] = Module::alignment(Module::LIGHT);
                qr[y + offset][x + 2] = Module::alignment(Module::LIGHT);
            }

            qr[alignment_y][alignment_x] = Module::alignment(Module::DARK);
        }
    }
}

/// Adds the version information if needed
pub fn create_matrix_version_info(qr: &mut QRCode, version: Version) {
    if (version as usize) < (Version::V07 as usize) {
        return;
    }

    let version_info = version.information();

    let n: usize = qr.size;

    for i in 0..=2 {
        for j in 0..=5 {
            let shift_i = 2 - i;
            let shift_j = 5 - j;
            let shift: u32 = 1 << ((5 - shift_j) * 3 + (2 - shift_i));

            let value = (version_info & shift) != 0;
            qr[j][n - 11 + i] = Module::version(value);
            qr[n - 11 + i][j] = Module::version(value);
        }
    }
}

/// Adds the format information if needed
pub fn create_matrix_format_info(qr: &mut QRCode, quality: ECL, mask: Mask) {
    let format_info = hardcode::ecm_to_format_information(quality, mask);

    let n: usize = qr.size;

    for i in (0..=5).rev() {
        let shift = 1 << (i + 9);
        let value = (format_info & shift) != 0;
        qr[8][5 - i] = Module::format(value);
        qr[n - 6 + i][8] = Module::format(value);
    }

    for i in 0..=5 {
        let shift = 1 << i;
        let value = (format_info & shift) != 0;
        qr[i][8] = Module::format(value);
        qr[8][n - i - 1] = Module::format(value);
    }

    {
        let shift = 1 << 8;
        let value = (format_info & shift) != 0;
        // Six on left
        qr[8][7] = Module::format(value);
        // Six on bottom
        qr[n - 7][8] = Module::format(value);
    }
    {
        let shift = 1 << 7;
        let value = (format_info & shift) != 0;
        // Seven on left
        qr[8][8] = Module::format(value);
        // Seven on right
        qr[8][n - 8] = Module::format(value);
    }
    {
        let shift = 1 << 6;
        let value = (format_info & shift) != 0;
        // Height on left
        qr[7][8] = Module::format(value);
        // Height on right
        qr[8][n - 7] = Module::format(value);
    }
}

/// Adds the space between finder patterns and data
fn create_matrix_empty(qr: &mut QRCode) {
    let n: usize = qr.size;

    for i in 0..=7 {
        // Top left
        qr[i][7] = Module::empty(Module::LIGHT);
        qr[7][i] = Module::empty(Module::LIGHT);

        // Bottom left
        qr[n - 8 + i][7] = Module::empty(Module::LIGHT);
        qr[n - 8][i] = Module::empty(Module::LIGHT);

        // Top right
        qr[i][n - 8] = Module::empty(Module::LIGHT);
        qr[7][n - 8 + i] = Module::empty(Module::LIGHT);
    }
}

#[cfg(test)]
pub fn create_mat_from_bool<const N: usize>(bool_mat: &[[bool; N]; N]) -> QRCode {
    let mut mat = create_matrix(Version::from_n(N));

    for (i, row) in bool_mat.iter().enumerate() {
        for (j, &value) in row.iter().enumerate() {
            mat[i][j].set(value);
        }
    }

    mat
}
