//! Contains the HEIGHT functions that can alter `QRCode`
#![deny(unsafe_code)]
#![warn(missing_docs)]

use crate::module::ModuleType;
use crate::QRCode;

/// The different mask patterns. The mask pattern should only be applied to
/// the data and error correction portion of the QR code.
#[derive(Debug, Copy, Clone)]
pub enum Mask {
    /// QR code pattern n°0: `(x + y) % 2 == 0`.
    Checkerboard = 0,
    /// QR code pattern n°1: `y % 2 == 0`.
    HorizontalLines = 1,
    /// QR code pattern n°2: `x % 3 == 0`.
    VerticalLines = 2,
    /// QR code pattern n°3: `(x + y) % 3 == 0`.
    DiagonalLines = 3,
    /// QR code pattern n°4: `((x/3) + (y/2)) % 2 == 0`.
    LargeCheckerboard = 4,
    /// QR code pattern n°5: `(x*y)%2 + (x*y)%3 == 0`.
    Fields = 5,
    /// QR code pattern n°6: `((x*y)%2 + (x*y)%3) % 2 == 0`.
    Diamonds = 6,
    /// QR code pattern n°7: `((x+y)%2 + (x*y)%3) % 2 == 0`.
    Meadow = 7,
}

/// Mask function nb°**0**, `Mask::Checkerboard`.
fn mask_checkerboard(qr: &mut QRCode) {
    for row in 0..qr.size {
        for column in (row & 1..qr.size).step_by(2) {
            let module = &mut qr[row][column];
            if module.module_type() == ModuleType::Data {
                module.toggle();
            }
        }
    }
}

/// Mask function nb°**1**, `Mask::HorizontalLines`.
fn mask_horizontal(qr: &mut QRCode) {
    for row in (0..qr.size).step_by(2) {
        for column in 0..qr.size {
            let module = &mut qr[row][column];
            if module.module_type() == ModuleType::Data {
                module.toggle();
            }
        }
    }
}

/// Mask function nb°**2**, `Mask::VerticalLines`.
fn mask_vertical(qr: &mut QRCode) {
    for row in 0..qr.size {
        for column in (0..qr.size).step_by(3) {
            let module = &mut qr[row][column];
            if module.module_type() == ModuleType::Data {
                module.toggle();
            }
        }
    }
}

/// Mask function nb°**3**, `Mask::DiagonalLines`.
fn mask_diagonal(qr: &mut QRCode) {
    for row in 0..qr.size {
        let start = (3 - row % 3) % 3;
        for column in (start..qr.size).step_by(3) {
            let module = &mut qr[row][column];
            if module.module_type() == ModuleType::Data {
                module.toggle();
            }
        }
    }
}

/// Mask function nb°**4**, `Mask::LargeCheckerboard`.
fn mask_large_checkerboard(qr: &mut QRCode) {
    for row in 0..qr.size {
        let start = ((row >> 1) & 1) * 3; // ((row / 2) % 2) * 3;
        for column in (start..qr.size).step_by(6) {
            for i in column..core::cmp::min(qr.size, column + 3) {
                let module = &mut qr[row][i];
                if module.module_type() == ModuleType::Data {
                    module.toggle();
                }
            }
        }
    }
}

fn mask_5_6(qr: &mut QRCode, offset: &[(usize, usize)]) {
    for row in (0..qr.size).step_by(6) {
        for column in 0..qr.size {
            let module = &mut qr[row][column];
            if module.module_type() == ModuleType::Data {
                module.toggle();
            }
            let module = &mut qr[column][row];
            if module.module_type() == ModuleType::Data && (row % 6 != 0 || column % 6 != 0) {
                module.toggle();
            }
        }
    }

    for row in (0..qr.size).step_by(6) {
        for column in (0..qr.size).step_by(6) {
            for (y, x) in offset {
                if row + y >= qr.size || column + x >= qr.size {
                    continue;
                }

                let module = &mut qr[row + y][column + x];
                if module.module_type() == ModuleType::Data {
                    module.toggle();
                }
            }
        }
    }
}

/// Mask function nb°**5**, `Mask::Fields`.
fn mask_field(qr: &mut QRCode) {
    const OFFSETS: [(usize, usize); 4] = [(2, 3), (3, 2), (3, 4), (4, 3)];
    mask_5_6(qr, &OFFSETS);
}

/// Mask function nb°**6**, `Mask::Diamonds`.
fn mask_diamond(qr: &mut QRCode) {
    #[rustfmt::skip]
    const OFFSETS: [(usize, usize); 12] = [
        (1, 1), (1, 2), (2, 1), (2, 3),
        (2, 4), (3, 2), (3, 4), (4, 2),
        (4, 3), (4, 5), (5, 4), (5, 5)
    ];
    mask_5_6(qr, &OFFSETS);
}

/// Mask function nb°**7**, `Mask::Meadow`.
fn mask_meadow(qr: &mut QRCode) {
    for row in 0..qr.size {
        for column in row..qr.size {
            if (((row + column) % 2) + ((row * column) % 3)) % 2 != 0 {
                continue;
            }

            let module = &mut qr[row][column];
            if module.module_type() == ModuleType::Data {
                module.toggle();
            }

            let module = &mut qr[column][row];
            if column != row && module.module_type() == ModuleType::Data {
                module.toggle();
            }
        }
    }
}

/// Applies the function at `mask_nb` on `mat`
pub fn mask(qr: &mut QRCode, mask: Mask) {
    match mask {
        Mask::Checkerboard => mask_checkerboard(qr),
        Mask::HorizontalLines => mask_horizontal(qr),
        Mask::VerticalLines => mask_vertical(qr),
        Mask::DiagonalLines => mask_diagonal(qr),
        Mask::LargeCheckerboard => mask_large_checkerboard(qr),
        Mask::Fields => mask_field(qr),
        Mask::Diamonds => mask_diamond(qr),
        Mask::Meadow => mask_meadow(qr),
    }
}
