//! Contains all functions required to encode any string as a `QRCode`

#![deny(unsafe_code)]
#![warn(missing_docs)]

use crate::compact::CompactQR;
use crate::ecl::ECL;
use crate::hardcode;
use crate::version::Version;

/// Enum for the 3 encoding mode
#[derive(Clone, Copy, PartialEq, Eq, Debug)]
pub enum Mode {
    /// Numeric mode (0-9 only)
    Numeric,
    /// Alphanumeric mode (0-9, A-Z, $%*./:+-?.= [space])
    Alphanumeric,
    /// Byte mode (any)
    Byte,
}

/// Encodes the string according the mode and version
pub fn encode(input: &[u8], ecl: ECL, mode: Mode, version: Version) -> CompactQR {
    let cci_bits = hardcode::cci_bits(version, mode);

    let mut compact = CompactQR::from_version(version);

    match mode {
        Mode::Numeric => encode_numeric(&mut compact, input, cci_bits),
        Mode::Alphanumeric => encode_alphanumeric(&mut compact, input, cci_bits),
        Mode::Byte => encode_byte(&mut compact, input, cci_bits),
    };

    let data_bits = hardcode::data_bits(version, ecl);

    add_terminator(&mut compact, data_bits);
    pad_to_8(&mut compact);
    compact.fill();

    compact
}

/// Find the best encoding (Numeric -> Alnum -> Byte)
pub fn best_encoding(input: &[u8]) -> Mode {
    fn try_encode_numeric(input: &[u8], i: usize) -> Mode {
        for &c in input.iter().skip(i) {
            if !c.is_ascii_digit() {
                return try_encode_alphanumeric(input, i);
            }
        }
        Mode::Numeric
    }

    fn try_encode_alphanumeric(input: &[u8], i: usize) -> Mode {
        for &c in input.iter().skip(i) {
            if !is_qr_alphanumeric(c) {
                return Mode::Byte;
            }
        }
        Mode::Alphanumeric
    }

    try_encode_numeric(input, 0)
}

/// Encodes numeric strings (i.e. "123456789"), referring to 8.4.2 of the spec.
pub(crate) fn encode_numeric(compact: &mut CompactQR, input: &[u8], cci_bits: usize) {
    #[derive(Clone, Copy)]
    enum NumericEncoding {
        Single,
        Double,
        Triple,
    }

    fn encode_number(compact: &mut CompactQR, number: usize, encoding: NumericEncoding) {
        match encoding {
            NumericEncoding::Single => compact.push_bits(number, 4),
            NumericEncoding::Double => compact.push_bits(number, 7),
            NumericEncoding::Triple => compact.push_bits(number, 10),
        }
    }

    compact.push_bits(0b0001, 4);
    compact.push_bits(input.len(), cci_bits);

    let mut i = 0;
    let len = input.len() - input.len() % 3;

    while i < len {
        let number = ascii_to_digit(input[i]) * 100
            + ascii_to_digit(input[i + 1]) * 10
            + ascii_to_digit(input[i + 2]);

        encode_number(compact, number, NumericEncoding::Triple);
        i += 3;
    }

    // If the length is a multiple of 3, we are done
    if len == input.len() {
        return;
    }

    let mut number = 0;
    while i < input.len() {
        number *= 10;
        number += ascii_to_digit(input[i]);
        i += 1;
    }

    let encoding = match i % 3 {
        1 => NumericEncoding::Single,
        2 => NumericEncoding::Double,
        _ => unreachable!("i % 3 can only be 1 or 2"),
    };

    encode_number(compact, number, encoding);
}

/// Encodes alphanumeric strings (i.e. "FAST-QR123"), referring to 8.4.3 of the spec.
pub(crate) fn encode_alphanumeric(compact: &mut CompactQR, input: &[u8], cci_bits: usize) {
    compact.push_bits(0b0010, 4);
    compact.push_bits(input.len(), cci_bits);

    let even_size = input.len() - input.len() % 2;
    for chunk in input.chunks_exact(2) {
        let a = ascii_to_alphanumeric(chunk[0]);
        let b = ascii_to_alphanumeric(chunk[1]);
        compact.push_bits(a * 45 + b, 11);
    }
    if even_size != input.len() {
        compact.push_bits(ascii_to_alphanumeric(*input.last().unwrap()), 6);
    }
}

/// Encodes any string (i.e. "<https://fast-qr.com/🚀>"), referring to 8.4.4 of the spec.
pub(crate) fn encode_byte(compact: &mut CompactQR, input: &[u8], cci_bits: usize) {
    compact.push_bits(0b0100, 4);
    compact.push_bits(input.len(), cci_bits);
    compact.push_u8_slice(input);
}

/// Adds needed terminator padding, terminating the data `BitString`, referring to 8.4.8 of the spec.
fn add_terminator(compact: &mut CompactQR, data_bits: usize) {
    let len = data_bits - compact.len();
    let len = core::cmp::min(len, 4);

    compact.push_bits(0, len);
}

/// Adds the padding to make the length of the `BitString` a multiple of 8, referring to 8.4.9 of the spec.
fn pad_to_8(compact: &mut CompactQR) {
    let len = (8 - compact.len() % 8) % 8;
    compact.push_bits(0, len);
}

/// Converts ascii number to it's value in usize \
/// "5" -> 5
fn ascii_to_digit(c: u8) -> usize {
    assert!(
        c.is_ascii_digit(),
        "Unexpected character '{}' in Numeric mode",
        c as char
    );
    (c - b'0') as usize
}

/// Converts ascii alnum to it's numeric value, characters included in `AlphaNumeric` are: \
/// 0-9, A-Z, $%*./:+-?.= [space] \
/// referring to 7.1 of the spec.
pub(crate) fn ascii_to_alphanumeric(c: u8) -> usize {
    match c {
        b'0'..=b'9' => (c - b'0') as usize,
        b'A'..=b'Z' => (c - b'A') as usize + 10,
        b' ' => 36,
        b'$' => 37,
        b'%' => 38,
        b'*' => 39,
        b'+' => 40,
        b'-' => 41,
        b'.' => 42,
        b'/' => 43,
        b':' => 44,
        _ => panic!("Unexpected character '{}' in Alphanumeric mode", c as char),
    }
}

#[cfg(feature = "verif-hooks")]
#[doc(hidden)]
pub fn verif_is_qr_alphanumeric(c: u8) -> bool {
    is_qr_alphanumeric(c)
}

/// Checks if character c is alphanumeric: 0-9, A-Z, $%*./:+-?.= [space] \
/// referring to 7.1 of the spec.
const fn is_qr_alphanumeric(c: u8) -> bool {
    matches!(c,
        b'A'..=b'Z'
        | b'0'..=b'9'
        | b' '
        | b'$'
        | b'%'
        | b'*'
        | b'+'
        | b'-'
        | b'.'
        | b'/'
        | b':')
}
