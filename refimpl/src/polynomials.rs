//! Is used to compute ECC (Error Correction Coding)

#![deny(unsafe_code)]
#![warn(missing_docs)]

use crate::hardcode;
use crate::polynomials;
use crate::{Version, ECL};

/// Used in the ring, convert a^x using `LOG[x % 255]` to it's decimal Galois-Field value
const LOG: [u8; 256] = [
    1, 2, 4, 8, 16, 32, 64, 128, 29, 58, 116, 232, 205, 135, 19, 38, 76, 152, 45, 90, 180, 117,
    234, 201, 143, 3, 6, 12, 24, 48, 96, 192, 157, 39, 78, 156, 37, 74, 148, 53, 106, 212, 181,
    119, 238, 193, 159, 35, 70, 140, 5, 10, 20, 40, 80, 160, 93, 186, 105, 210, 185, 111, 222, 161,
    95, 190, 97, 194, 153, 47, 94, 188, 101, 202, 137, 15, 30, 60, 120, 240, 253, 231, 211, 187,
    107, 214, 177, 127, 254, 225, 223, 163, 91, 182, 113, 226, 217, 175, 67, 134, 17, 34, 68, 136,
    13, 26, 52, 104, 208, 189, 103, 206, 129, 31, 62, 124, 248, 237, 199, 147, 59, 118, 236, 197,
    151, 51, 102, 204, 133, 23, 46, 92, 184, 109, 218, 169, 79, 158, 33, 66, 132, 21, 42, 84, 168,
    77, 154, 41, 82, 164, 85, 170, 73, 146, 57, 114, 228, 213, 183, 115, 230, 209, 191, 99, 198,
    145, 63, 126, 252, 229, 215, 179, 123, 246, 241, 255, 227, 219, 171, 75, 150, 49, 98, 196, 149,
    55, 110, 220, 165, 87, 174, 65, 130, 25, 50, 100, 200, 141, 7, 14, 28, 56, 112, 224, 221, 167,
    83, 166, 81, 162, 89, 178, 121, 242, 249, 239, 195, 155, 43, 86, 172, 69, 138, 9, 18, 36, 72,
    144, 61, 122, 244, 245, 247, 243, 251, 235, 203, 139, 11, 22, 44, 88, 176, 125, 250, 233, 207,
    131, 27, 54, 108, 216, 173, 71, 142, 1,
];

/// Reverses a ring value, converts decimal value x using `ANTILOG[x % 255]` to it's alpha power value
const ANTILOG: [u8; 256] = [
    175, 0, 1, 25, 2, 50, 26, 198, 3, 223, 51, 238, 27, 104, 199, 75, 4, 100, 224, 14, 52, 141,
    239, 129, 28, 193, 105, 248, 200, 8, 76, 113, 5, 138, 101, 47, 225, 36, 15, 33, 53, 147, 142,
    218, 240, 18, 130, 69, 29, 181, 194, 125, 106, 39, 249, 185, 201, 154, 9, 120, 77, 228, 114,
    166, 6, 191, 139, 98, 102, 221, 48, 253, 226, 152, 37, 179, 16, 145, 34, 136, 54, 208, 148,
    206, 143, 150, 219, 189, 241, 210, 19, 92, 131, 56, 70, 64, 30, 66, 182, 163, 195, 72, 126,
    110, 107, 58, 40, 84, 250, 133, 186, 61, 202, 94, 155, 159, 10, 21, 121, 43, 78, 212, 229, 172,
    115, 243, 167, 87, 7, 112, 192, 247, 140, 128, 99, 13, 103, 74, 222, 237, 49, 197, 254, 24,
    227, 165, 153, 119, 38, 184, 180, 124, 17, 68, 146, 217, 35, 32, 137, 46, 55, 63, 209, 91, 149,
    188, 207, 205, 144, 135, 151, 178, 220, 252, 190, 97, 242, 86, 211, 171, 20, 42, 93, 158, 132,
    60, 57, 83, 71, 109, 65, 162, 31, 45, 67, 216, 183, 123, 164, 118, 196, 23, 73, 236, 127, 12,
    111, 246, 108, 161, 59, 82, 41, 157, 85, 170, 251, 96, 134, 177, 187, 204, 62, 90, 203, 89, 95,
    176, 156, 169, 160, 81, 11, 245, 22, 235, 122, 117, 44, 215, 79, 174, 213, 233, 230, 231, 173,
    232, 116, 214, 244, 234, 168, 80, 88, 175,
];

#[cfg(feature = "verif-hooks")]
#[doc(hidden)]
pub fn verif_tables() -> ([u8; 256], [u8; 256]) {
    (LOG, ANTILOG)
}

/// Return a string of human readable polynomial
///
/// `[0, 75, 249, 78, 6]` => "α0x4 + α75x3 + α249x2 + α78x + α6"
#[cfg(test)]
pub fn generated_to_string(poly: &[u8]) -> String {
    let mut s = String::new();
    let length = poly.len();

    for (i, item) in poly.iter().enumerate() {
        s.push_str(&format!(
            "α{}{}",
            item,
            &match length - i - 1 {
                0 => String::new(),
                1 => String::from("x + "),
                n => format!("x{} + ", n),
            },
        ));
    }

    s
}

/// Takes an array and divides it by the other in a Galois Field (256)
/// ```txt
/// from: [ 32,  91,  11, 120, 209, 114, 220,  77,  67,  64, 236,
///         17, 236,  17, 236,  17] (integer)
/// by  :                          [  0, 251,  67,  46,  61, 118,
///         70,  64,  94,  32,  45] (alpha)
/// ```
///
/// `from` should be of length `from.len() + by.len()`, so we pad zeroes, like so:
/// ```txt
/// from: [ 32,  91,  11, 120, 209, 114, 220,  77,  67,  64, 236,
///         17, 236,  17, 236,  17,   0, ..eight..,   0] (integer)
/// ```
///
/// Then the actual division takes place
/// We convert `from` from INTEGER to ALPHA
pub fn division(from: &[u8], by: &[u8]) -> [u8; 255] {
    let mut from_mut = [0; 255];
    let start = 256 - from.len() - by.len();

    from_mut[start..(256 - by.len())].copy_from_slice(&from[..((256 - by.len()) - start)]);

    for i in start..start + from.len() {
        if from_mut[i] == 0 {
            continue;
        }

        let alpha = ANTILOG[from_mut[i] as usize];
        for j in 0..by.len() {
            let tmp = by[j] as usize + alpha as usize;
            from_mut[i + j] ^= LOG[tmp % 255];
        }
    }

    from_mut
}

/// Uses the data and error(generator polynomial) to compute the divisions
/// for each block.
pub fn structure(data: &[u8], quality: ECL, version: Version) -> [u8; 5430] {
    const MAX_ERROR: usize = 30;
    const MAX_GROUP_COUNT: usize = 81;
    const MAX_DATABITS: usize = 3000;

    // Need to find a more accurate way to do this.
    // let mut interleaved_data = vec![0; 0];

    let error = hardcode::get_polynomial(version, quality);

    let [(g1_count, g1_size), (g2_count, g2_size)] = hardcode::ecc_to_groups(quality, version);
    let groups_count_total = g1_count + g2_count;

    let mut interleaved_data = [0; MAX_DATABITS + MAX_ERROR * MAX_GROUP_COUNT];

    let start_error_idx = hardcode::data_codewords(version, quality);

    for i in 0..g1_count {
        let start_idx = i * g1_size;
        let division = polynomials::division(&data[start_idx..start_idx + g1_size], error);

        for j in 0..error.len() - 1 {
            interleaved_data[start_error_idx + j * groups_count_total + i] =
                division[256 - error.len() + j];
        }
    }

    for i in 0..g2_count {
        let start_idx = g1_size * g1_count + i * g2_size;
        let division = polynomials::division(&data[start_idx..start_idx + g2_size], error);

        for j in 0..error.len() - 1 {
            interleaved_data[start_error_idx + j * groups_count_total + i + g1_count] =
                division[256 - error.len() + j];
        }
    }

    let mut push_idx = 0;
    let max = core::cmp::max(g1_size, g2_size);

    for i in 0..max {
        if i < g1_size {
            for j in 0..g1_count {
                let idx = j * g1_size + i;
                interleaved_data[push_idx] = data[idx];
                push_idx += 1;
            }
        }
        if i < g2_size {
            for j in 0..g2_count {
                let idx = j * g2_size + i + g1_size * g1_count;
                interleaved_data[push_idx] = data[idx];
                push_idx += 1;
            }
        }
    }

    interleaved_data
}
