//! Struct containing an u8-array of C size to store bitwise boolean values

#![deny(unsafe_code)]
#![warn(missing_docs)]

use core::fmt::{Display, Formatter};

use crate::Version;

/// Values to keep last X bits of a u8
/// `KEEP_LAST[i]` equates `(1 << i) - 1`
///
/// # Example
/// ```rust
/// # pub const KEEP_LAST: [usize; 65] = [
/// #     0, 1, 3, 7, 15, 31, 63, 127, 255, 511, 1023, 2047, 4095, 8191, 16383,
/// #     32767, 65535, 131071, 262143, 524287, 1048575, 2097151, 4194303, 8388607,
/// #     16777215, 33554431, 67108863, 134217727, 268435455, 536870911,  1073741823,
/// #     2147483647, 4294967295, 8589934591, 17179869183, 34359738367, 68719476735,
/// #     137438953471, 274877906943, 549755813887, 1099511627775, 2199023255551,
/// #     4398046511103, 8796093022207, 17592186044415, 35184372088831,
/// #     70368744177663, 140737488355327, 281474976710655, 562949953421311,
/// #     1125899906842623, 2251799813685247, 4503599627370495, 9007199254740991,
/// #     18014398509481983, 36028797018963967, 72057594037927935,
/// #     144115188075855871, 288230376151711743, 576460752303423487,
/// #     1152921504606846975, 2305843009213693951, 4611686018427387903,
/// #     9223372036854775807, 18446744073709551615,
/// # ];
/// let mut b = 0b1010_1010;
/// assert_eq!(b & KEEP_LAST[3], 0b010)
/// ```
#[rustfmt::skip]
#[cfg(not(target_arch = "wasm32"))]
pub const KEEP_LAST: [usize; 65] = [
    0, 1, 3, 7, 15, 31, 63, 127, 255, 511, 1023, 2047, 4095, 8191, 16383,
    32767, 65535, 131_071, 262_143, 524_287, 1_048_575, 2_097_151, 4_194_303, 8_388_607,
    16_777_215, 33_554_431, 67_108_863, 134_217_727, 268_435_455, 536_870_911, 1_073_741_823,
    2_147_483_647, 4_294_967_295, 8_589_934_591, 17_179_869_183, 34_359_738_367, 68_719_476_735,
    137_438_953_471, 274_877_906_943, 549_755_813_887, 1_099_511_627_775, 2_199_023_255_551,
    4_398_046_511_103, 8_796_093_022_207, 17_592_186_044_415, 35_184_372_088_831,
    70_368_744_177_663, 140_737_488_355_327, 281_474_976_710_655, 562_949_953_421_311,
    1_125_899_906_842_623, 2_251_799_813_685_247, 4_503_599_627_370_495, 9_007_199_254_740_991,
    18_014_398_509_481_983, 36_028_797_018_963_967, 72_057_594_037_927_935,
    144_115_188_075_855_871, 288_230_376_151_711_743, 576_460_752_303_423_487,
    1_152_921_504_606_846_975, 2_305_843_009_213_693_951, 4_611_686_018_427_387_903,
    9_223_372_036_854_775_807, 18_446_744_073_709_551_615,
];

/// Values to keep last X bits of a u8
/// `KEEP_LAST[i]` equates `(1 << i) - 1`
#[rustfmt::skip]
#[cfg(target_arch = "wasm32")]
pub const KEEP_LAST: [usize; 33] = [
    0, 1, 3, 7, 15, 31, 63, 127, 255, 511, 1_023, 2_047, 4_095, 8_191, 16_383,
    32_767, 65_535, 131_071, 262_143, 524_287, 1_048_575, 2_097_151, 4_194_303, 8_388_607,
    16_777_215, 33_554_431, 67_108_863, 134_217_727, 268_435_455, 536_870_911, 1_073_741_823,
    2_147_483_647, 4_294_967_295,
];

/// `CompactQR` is a struct that contains a `Vec<u8>` to store boolean values as bits.
pub struct CompactQR {
    pub len: usize,
    pub data: Vec<u8>,
}

/// Returns a string visualization of the `CompactQR`. \
/// `CompactQR { len: 4, data: [0b1111_1010] }.to_string()` => `"1010"`
impl Display for CompactQR {
    fn fmt(&self, f: &mut Formatter<'_>) -> core::fmt::Result {
        let mut res = String::with_capacity(self.len);

        for i in 0..(self.data.capacity() / 8) {
            let nb = self.data[i];
            for j in 0..8 {
                if i * 8 + j >= self.len {
                    return f.write_str(&res);
                }

                let j = 7 - j;
                let c = if nb & (1 << j) == 0 { '0' } else { '1' };
                res.push(c);
            }
        }

        f.write_str(&res)
    }
}

#[allow(clippy::cast_possible_truncation)]
impl CompactQR {
    /// Instantiates a new `CompactQR`, should not be used, reduces performance.
    #[allow(dead_code)]
    pub const fn new() -> Self {
        CompactQR {
            len: 0,
            data: Vec::new(),
        }
    }

    pub fn from_version(version: Version) -> Self {
        let len = version.max_bytes();
        let data = vec![0; len * 8];

        CompactQR { len: 0, data }
    }

    /// Instantiates a new `CompactQR`, with a given length, expects the length to be a multiple of 8.
    #[allow(dead_code)]
    #[cfg(test)]
    pub fn with_len(data_length: usize) -> Self {
        let length = data_length / 8 + usize::from(data_length % 8 != 0);
        CompactQR {
            len: 0,
            data: vec![0; length],
        }
    }

    /// Increase the length of data to specified length.
    pub fn increase_len(&mut self, data_length: usize) {
        if data_length / 8 >= self.data.len() {
            self.data.resize(data_length / 8 + 1, 0);
        }
    }

    /// Instantiates a new `CompactQR` from an already created array
    pub fn from_array(data: &[u8], len: usize) -> Self {
        CompactQR {
            len,
            data: data.to_vec(),
        }
    }

    /// Returns `len`, length is the current number of bits / boolean values stored in the array.
    pub const fn len(&self) -> usize {
        self.len
    }

    /// Returns `data`, the array of bits.
    pub const fn get_data(&self) -> &Vec<u8> {
        &self.data
    }

    /// Pushes eight values in the `CompactQR`, if the array is not big enough, it will be resized.
    #[inline(always)]
    #[allow(dead_code)]
    pub fn push_u8(&mut self, bits: u8) {
        self.increase_len(self.len + 8);

        let right = self.len % 8;
        let first_idx = self.len / 8;

        if right == 0 {
            self.data[first_idx] = bits;
        } else {
            let left = 8 - right;
            self.data[first_idx] |= (bits >> right) & (KEEP_LAST[left] as u8);
            self.data[first_idx + 1] |= (bits & KEEP_LAST[right] as u8) << left;
        }

        self.len += 8;
    }

    /// Pushes the u8 array in the `CompactQR`, using the `push_u8` function. \
    /// If the array is not big enough, it will be resized.
    #[inline(always)]
    pub fn push_u8_slice(&mut self, slice: &[u8]) {
        self.increase_len(self.len + 8 * slice.len());

        for &u in slice {
            self.push_u8(u);
        }
    }

    /// Pushes `len` values to the `CompactQR`. \
    /// If the array is not big enough, it will be resized.
    #[inline(always)]
    pub fn push_bits(&mut self, bits: usize, len: usize) {
        self.increase_len(self.len + len);

        // Caps to max usize bits
        let bits = bits & KEEP_LAST[len];

        let rem_space = (8 - self.len % 8) % 8;
        let first = self.len / 8;

        if rem_space > len {
            self.data[first] |= (bits << (rem_space - len)) as u8;
            self.len += len;
            return;
        }

        if rem_space != 0 {
            self.data[first] |= ((bits >> (len - rem_space)) & KEEP_LAST[rem_space]) as u8;
            self.len += rem_space;
        }

        for i in (8..=len - rem_space).rev().step_by(8) {
            self.push_u8((bits >> (i - 8)) as u8);
        }

        let remaining = (len - rem_space) % 8;
        if remaining == 0 {
            return;
        }

        self.data[self.len / 8] += ((bits & KEEP_LAST[remaining]) as u8) << (8 - remaining);
        self.len += remaining;
    }

    /// Fills the `CompactQR`'s remaining space with `[236, 17]`.
    /// Expects the `CompactQR` `len` to be a multiple of 8.
    #[inline(always)]
    pub fn fill(&mut self) {
        const PAD_BYTES: [u8; 2] = [0b1110_1100, 0b0001_0001]; //[236, 17]

        #[cfg(debug_assertions)]
        assert_eq!(self.len % 8, 0);

        for (i, _) in (self.len..self.data.len()).step_by(8).enumerate() {
            let bits = PAD_BYTES[i % 2];
            self.push_u8(bits);
        }
    }
}
