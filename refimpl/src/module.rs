/// Module is a single pixel in the QR code.
#[derive(Debug, Clone, Copy, PartialEq, Eq)]
#[repr(u8)]
pub enum ModuleType {
    /// The module is part of the data              (Encoded data)
    Data = 0 << 1,
    /// The module is part of the finder pattern    (bigger cubes)
    FinderPattern = 1 << 1,
    /// The module is part of the alignment pattern (smaller cubes)
    Alignment = 2 << 1,
    /// The module is part of the timing pattern    (Line between finder patterns)
    Timing = 3 << 1,
    /// The module is part of the format information
    Format = 4 << 1,
    /// The module is part of the version information
    Version = 5 << 1,
    /// Dark module
    DarkModule = 6 << 1,
    /// Space between finder patterns
    Empty = 7 << 1,
}

impl From<u8> for ModuleType {
    fn from(value: u8) -> Self {
        match value {
            0 => ModuleType::Data,
            1 => ModuleType::FinderPattern,
            2 => ModuleType::Alignment,
            3 => ModuleType::Timing,
            4 => ModuleType::Format,
            5 => ModuleType::Version,
            6 => ModuleType::DarkModule,
            7 => ModuleType::Empty,
            _ => unreachable!(),
        }
    }
}

/// Module is a single pixel in the QR code.
/// Module uses u8 to store value and type.
#[derive(Copy, Clone, Debug)]
pub struct Module(pub u8);

impl Module {
    /// Represents a dark module, which is a black pixel.
    pub const DARK: bool = true;
    /// Represents a light module, which is a white pixel.
    pub const LIGHT: bool = false;

    /// Creates a new module with the given type and value.
    #[must_use]
    pub const fn new(value: bool, module_type: ModuleType) -> Self {
        let value = value as u8;
        Module(value | (module_type as u8))
    }

    /// Creates a new module with the given value with type data.
    #[must_use]
    pub const fn data(value: bool) -> Self {
        Module::new(value, ModuleType::Data)
    }

    /// Creates a new module with the given value with type finder pattern.
    #[must_use]
    pub const fn finder_pattern(value: bool) -> Self {
        Module::new(value, ModuleType::FinderPattern)
    }

    /// Creates a new module with the given value with type alignment.
    #[must_use]
    pub const fn alignment(value: bool) -> Self {
        Module::new(value, ModuleType::Alignment)
    }

    /// Creates a new module with the given value with type timing.
    #[must_use]
    pub const fn timing(value: bool) -> Self {
        Module::new(value, ModuleType::Timing)
    }

    /// Creates a new module with the given value with type format.
    #[must_use]
    pub const fn format(value: bool) -> Self {
        Module::new(value, ModuleType::Format)
    }

    /// Creates a new module with the given value with type version.
    #[must_use]
    pub const fn version(value: bool) -> Self {
        Module::new(value, ModuleType::Version)
    }

    /// Creates a new module with the given value with type dark module.
    #[must_use]
    pub const fn dark(value: bool) -> Self {
        Module::new(value, ModuleType::DarkModule)
    }

    /// Creates a new module with the given value with type empty.
    #[must_use]
    pub const fn empty(value: bool) -> Self {
        Module::new(value, ModuleType::Empty)
    }

    /// Returns the boolean value of the module.
    #[must_use]
    pub const fn value(self) -> bool {
        self.0 & 1 == 1
    }

    /// Returns the type of the module.
    #[must_use]
    pub fn module_type(self) -> ModuleType {
        ModuleType::from(self.0 >> 1)
    }

    /// Sets the boolean value of the module.
    pub fn set(&mut self, value: bool) {
        self.0 = if value { self.0 | 1 } else { self.0 & !1 };
    }

    /// Toggles the boolean value of the module.
    pub fn toggle(&mut self) {
        self.0 ^= 1;
    }
}

impl From<bool> for Module {
    fn from(value: bool) -> Self {
        Module::empty(value)
    }
}

impl PartialEq<bool> for Module {
    fn eq(&self, other: &bool) -> bool {
        self.value() == *other
    }
}

impl PartialEq<Self> for Module {
    fn eq(&self, other: &Self) -> bool {
        self.0 == other.0
    }
}

impl Eq for Module {}

#[cfg(test)]
mod test {
    use super::*;

    #[test]
    fn byte_size() {
        assert_eq!(std::mem::size_of::<Module>(), 1);
    }

    #[test]
    fn data() {
        let module = Module::data(Module::LIGHT);
        assert_eq!(module.module_type(), ModuleType::Data);
    }

    #[test]
    fn finder_pattern() {
        let module = Module::finder_pattern(Module::LIGHT);
        assert_eq!(module.module_type(), ModuleType::FinderPattern);
    }

    #[test]
    fn alignment() {
        let module = Module::alignment(Module::LIGHT);
        assert_eq!(module.module_type(), ModuleType::Alignment);
    }

    #[test]
    fn timing() {
        let module = Module::timing(Module::LIGHT);
        assert_eq!(module.module_type(), ModuleType::Timing);
    }

    #[test]
    fn format() {
        let module = Module::format(Module::LIGHT);
        assert_eq!(module.module_type(), ModuleType::Format);
    }

    #[test]
    fn version() {
        let module = Module::version(Module::LIGHT);
        assert_eq!(module.module_type(), ModuleType::Version);
    }

    #[test]
    fn dark() {
        let module = Module::dark(Module::LIGHT);
        assert_eq!(module.module_type(), ModuleType::DarkModule);
    }

    #[test]
    fn value_light() {
        let module = Module::data(Module::LIGHT);
        assert_eq!(module.value(), Module::LIGHT);
    }

    #[test]
    fn value_dark() {
        let module = Module::data(Module::DARK);
        assert_eq!(module.value(), Module::DARK);
    }

    #[test]
    fn set() {
        let mut module = Module::data(Module::LIGHT);
        module.set(Module::DARK);
        assert_eq!(module.value(), Module::DARK);
    }
}
