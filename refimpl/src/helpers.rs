//! Matrix helpers functions
#![deny(unsafe_code)]
#![warn(missing_docs)]

use crate::module::Module;
use crate::QRCode;

/// Used to print a ` ` (space)
const EMPTY: char = ' ';
/// Used to print a `█`
const BLOCK: char = '█';
/// Used to print a `▀`
const TOP: char = '▀';
/// Used to print a `▄`
const BOTTOM: char = '▄';

/// Helper to print two lines at the same time
fn print_line(line1: &[Module], line2: &[Module], size: usize) -> String {
    let mut line = String::with_capacity(size);
    for i in 0..size {
        match (line1[i].value(), line2[i].value()) {
            (true, true) => line.push(EMPTY),
            (true, false) => line.push(BOTTOM),
            (false, true) => line.push(TOP),
            (false, false) => line.push(BLOCK),
        }
    }
    line
}

/// Prints a matrix with margins
pub fn print_matrix_with_margin(qr: &QRCode) -> String {
    let mut out = String::new();

    let line = print_line(
        &[Module::empty(true); 177],
        &[Module::empty(false); 177],
        qr.size,
    );

    out.push(BOTTOM);
    out.push_str(&line);
    out.push_str(&format!("{BOTTOM}\n"));

    // Black background
    for i in (0..qr.size - 1).step_by(2) {
        let line = print_line(&qr[i], &qr[i + 1], qr.size);
        out.push(BLOCK);
        out.push_str(&line);
        out.push_str(&format!("{BLOCK}\n"));
    }

    let line = print_line(&qr[qr.size - 1], &[Module::empty(false); 177], qr.size);
    out.push(BLOCK);
    out.push_str(&line);
    out.push(BLOCK);

    out
}

#[cfg(test)]
use crate::{compact::CompactQR, Version};

/// Convert a vector of u8 to it's representation in bits
///
/// If bits are required by the QR code (referring to 8.6 of the spec), they are added to the end of the vector.
///
/// ## Example
/// { 101 } => "01100101"
#[cfg(test)]
pub fn binary_to_binarystring_version(binary: [u8; 5430], version: Version) -> CompactQR {
    let max = version.max_bytes() * 8;
    CompactQR::from_array(&binary, max + version.missing_bits())
}
