use crate::datamasking::Mask;
use crate::QRCode;

const F: bool = false;
const T: bool = true;

#[test]
fn mask_checkerboard_test() {
    let mut qr = QRCode::default(10);
    crate::datamasking::mask(&mut qr, Mask::Checkerboard);

    #[rustfmt::skip]
        let qr_bool = [
        &qr[0][..10], &qr[1][..10], &qr[2][..10], &qr[3][..10], &qr[4][..10],
        &qr[5][..10], &qr[6][..10], &qr[7][..10], &qr[8][..10], &qr[9][..10],
    ];

    #[rustfmt::skip]
    assert_eq!(
        qr_bool,
        [
            [T, F, T, F, T, F, T, F, T, F],
            [F, T, F, T, F, T, F, T, F, T],
            [T, F, T, F, T, F, T, F, T, F],
            [F, T, F, T, F, T, F, T, F, T],
            [T, F, T, F, T, F, T, F, T, F],
            [F, T, F, T, F, T, F, T, F, T],
            [T, F, T, F, T, F, T, F, T, F],
            [F, T, F, T, F, T, F, T, F, T],
            [T, F, T, F, T, F, T, F, T, F],
            [F, T, F, T, F, T, F, T, F, T],
        ]
    );
}

#[test]
fn mask_horizontal_test() {
    let mut qr = QRCode::default(10);
    crate::datamasking::mask(&mut qr, Mask::HorizontalLines);

    #[rustfmt::skip]
        let qr_bool = [
        &qr[0][..10], &qr[1][..10], &qr[2][..10], &qr[3][..10], &qr[4][..10],
        &qr[5][..10], &qr[6][..10], &qr[7][..10], &qr[8][..10], &qr[9][..10],
    ];

    #[rustfmt::skip]
    assert_eq!(
        qr_bool,
        [
            [T, T, T, T, T, T, T, T, T, T],
            [F, F, F, F, F, F, F, F, F, F],
            [T, T, T, T, T, T, T, T, T, T],
            [F, F, F, F, F, F, F, F, F, F],
            [T, T, T, T, T, T, T, T, T, T],
            [F, F, F, F, F, F, F, F, F, F],
            [T, T, T, T, T, T, T, T, T, T],
            [F, F, F, F, F, F, F, F, F, F],
            [T, T, T, T, T, T, T, T, T, T],
            [F, F, F, F, F, F, F, F, F, F],
        ]
    );
}

#[test]
fn mask_vertical_test() {
    let mut qr = QRCode::default(10);
    crate::datamasking::mask(&mut qr, Mask::VerticalLines);

    #[rustfmt::skip]
        let qr_bool = [
        &qr[0][..10], &qr[1][..10], &qr[2][..10], &qr[3][..10], &qr[4][..10],
        &qr[5][..10], &qr[6][..10], &qr[7][..10], &qr[8][..10], &qr[9][..10],
    ];

    #[rustfmt::skip]
    assert_eq!(
        qr_bool,
        [
            [T, F, F, T, F, F, T, F, F, T],
            [T, F, F, T, F, F, T, F, F, T],
            [T, F, F, T, F, F, T, F, F, T],
            [T, F, F, T, F, F, T, F, F, T],
            [T, F, F, T, F, F, T, F, F, T],
            [T, F, F, T, F, F, T, F, F, T],
            [T, F, F, T, F, F, T, F, F, T],
            [T, F, F, T, F, F, T, F, F, T],
            [T, F, F, T, F, F, T, F, F, T],
            [T, F, F, T, F, F, T, F, F, T],
        ]
    );
}

#[test]
fn mask_diagonal_test() {
    let mut qr = QRCode::default(10);
    crate::datamasking::mask(&mut qr, Mask::DiagonalLines);

    #[rustfmt::skip]
        let qr_bool = [
        &qr[0][..10], &qr[1][..10], &qr[2][..10], &qr[3][..10], &qr[4][..10],
        &qr[5][..10], &qr[6][..10], &qr[7][..10], &qr[8][..10], &qr[9][..10],
    ];

    #[rustfmt::skip]
    assert_eq!(
        qr_bool,
        [
            [T, F, F, T, F, F, T, F, F, T],
            [F, F, T, F, F, T, F, F, T, F],
            [F, T, F, F, T, F, F, T, F, F],
            [T, F, F, T, F, F, T, F, F, T],
            [F, F, T, F, F, T, F, F, T, F],
            [F, T, F, F, T, F, F, T, F, F],
            [T, F, F, T, F, F, T, F, F, T],
            [F, F, T, F, F, T, F, F, T, F],
            [F, T, F, F, T, F, F, T, F, F],
            [T, F, F, T, F, F, T, F, F, T],
        ]
    );
}

#[test]
fn mask_large_checkerboard_test() {
    let mut qr = QRCode::default(10);
    crate::datamasking::mask(&mut qr, Mask::LargeCheckerboard);

    #[rustfmt::skip]
        let qr_bool = [
        &qr[0][..10], &qr[1][..10], &qr[2][..10], &qr[3][..10], &qr[4][..10],
        &qr[5][..10], &qr[6][..10], &qr[7][..10], &qr[8][..10], &qr[9][..10],
    ];

    #[rustfmt::skip]
    assert_eq!(
        qr_bool,
        [
            [T, T, T, F, F, F, T, T, T, F],
            [T, T, T, F, F, F, T, T, T, F],
            [F, F, F, T, T, T, F, F, F, T],
            [F, F, F, T, T, T, F, F, F, T],
            [T, T, T, F, F, F, T, T, T, F],
            [T, T, T, F, F, F, T, T, T, F],
            [F, F, F, T, T, T, F, F, F, T],
            [F, F, F, T, T, T, F, F, F, T],
            [T, T, T, F, F, F, T, T, T, F],
            [T, T, T, F, F, F, T, T, T, F],
        ]
    );
}

#[test]
fn mask_field_test() {
    let mut qr = QRCode::default(10);
    crate::datamasking::mask(&mut qr, Mask::Fields);

    #[rustfmt::skip]
        let qr_bool = [
        &qr[0][..10], &qr[1][..10], &qr[2][..10], &qr[3][..10], &qr[4][..10],
        &qr[5][..10], &qr[6][..10], &qr[7][..10], &qr[8][..10], &qr[9][..10],
    ];

    #[rustfmt::skip]
    assert_eq!(
        qr_bool,
        [
            [T, T, T, T, T, T, T, T, T, T],
            [T, F, F, F, F, F, T, F, F, F],
            [T, F, F, T, F, F, T, F, F, T],
            [T, F, T, F, T, F, T, F, T, F],
            [T, F, F, T, F, F, T, F, F, T],
            [T, F, F, F, F, F, T, F, F, F],
            [T, T, T, T, T, T, T, T, T, T],
            [T, F, F, F, F, F, T, F, F, F],
            [T, F, F, T, F, F, T, F, F, T],
            [T, F, T, F, T, F, T, F, T, F],
        ]
    );
}

#[test]
fn mask_diamond_test() {
    let mut qr = QRCode::default(10);
    crate::datamasking::mask(&mut qr, Mask::Diamonds);

    #[rustfmt::skip]
        let qr_bool = [
        &qr[0][..10], &qr[1][..10], &qr[2][..10], &qr[3][..10], &qr[4][..10],
        &qr[5][..10], &qr[6][..10], &qr[7][..10], &qr[8][..10], &qr[9][..10],
    ];

    #[rustfmt::skip]
    assert_eq!(
        qr_bool,
        [
            [T, T, T, T, T, T, T, T, T, T],
            [T, T, T, F, F, F, T, T, T, F],
            [T, T, F, T, T, F, T, T, F, T],
            [T, F, T, F, T, F, T, F, T, F],
            [T, F, T, T, F, T, T, F, T, T],
            [T, F, F, F, T, T, T, F, F, F],
            [T, T, T, T, T, T, T, T, T, T],
            [T, T, T, F, F, F, T, T, T, F],
            [T, T, F, T, T, F, T, T, F, T],
            [T, F, T, F, T, F, T, F, T, F],
        ]
    );
}

#[test]
fn mask_meadow_test() {
    let mut qr = QRCode::default(10);

    crate::datamasking::mask(&mut qr, Mask::Meadow);

    #[rustfmt::skip]
        let qr_bool = [
        &qr[0][..10], &qr[1][..10], &qr[2][..10], &qr[3][..10], &qr[4][..10],
        &qr[5][..10], &qr[6][..10], &qr[7][..10], &qr[8][..10], &qr[9][..10],
    ];

    #[rustfmt::skip]
    assert_eq!(
        qr_bool,
        [
            [T, F, T, F, T, F, T, F, T, F],
            [F, F, F, T, T, T, F, F, F, T],
            [T, F, F, F, T, T, T, F, F, F],
            [F, T, F, T, F, T, F, T, F, T],
            [T, T, T, F, F, F, T, T, T, F],
            [F, T, T, T, F, F, F, T, T, T],
            [T, F, T, F, T, F, T, F, T, F],
            [F, F, F, T, T, T, F, F, F, T],
            [T, F, F, F, T, T, T, F, F, F],
            [F, T, F, T, F, T, F, T, F, T],
        ]
    );
}
