use crate::compact::{CompactQR, KEEP_LAST};
use crate::encode;
use crate::encode::Mode;
use crate::hardcode::cci_bits;

#[test]
fn best_encoding_numeric_0() {
    let res = encode::best_encoding(b"589492");
    assert_eq!(Mode::Numeric, res);
}

#[test]
fn best_encoding_numeric_1() {
    let res = encode::best_encoding(b"95904409521090298052194059450950249521940");
    assert_eq!(Mode::Numeric, res);
}

#[test]
fn best_encoding_alnum_0() {
    let res = encode::best_encoding(b"HELLO WORLD");
    assert_eq!(Mode::Alphanumeric, res);
}

#[test]
fn best_encoding_alnum_1() {
    let res = encode::best_encoding(b"HELLO WORLD MY NAME IS ERWAN VIVIEN: THIS IS A TEST//////");
    assert_eq!(Mode::Alphanumeric, res);
}

#[test]
fn best_encoding_byte_0() {
    let res = encode::best_encoding(b"589492h");
    assert_eq!(Mode::Byte, res);
}

#[test]
fn best_encoding_byte_1() {
    let res = encode::best_encoding(b"HELLO WORLD!");
    assert_eq!(Mode::Byte, res);
}

#[test]
fn best_encoding_byte_2() {
    let res = encode::best_encoding(b"HELLO WORLD MY NAME, IS ERWAN VIVIEN: THIS IS A TEST//////");
    assert_eq!(Mode::Byte, res);
}

fn test_encode_header(compact: &CompactQR, input: &[u8], expected_mode: Mode) {
    let res = compact.get_data();
    let mode = match res[0] >> 4 {
        0b0001 => Mode::Numeric,
        0b0010 => Mode::Alphanumeric,
        0b0100 => Mode::Byte,
        _ => panic!("Invalid encoding mode"),
    };

    assert_eq!(
        expected_mode, mode,
        "Encoding mode should be {:?}",
        expected_mode
    );

    let cci = cci_bits(crate::Version::V01, mode) as u16;
    let character_count: u16 = {
        let first_nb_bits = 4;
        let second_nb_bits = cci - first_nb_bits;

        let first = ((res[0] & 0b0000_1111) as u16) << second_nb_bits;
        let second_mask = u8::MAX << (8 - second_nb_bits);
        let second = ((res[1] & second_mask) as u16) >> (8 - second_nb_bits);

        first | second
    };

    assert_eq!(
        character_count,
        input.len() as u16,
        "Input length, should be {}",
        input.len()
    );
}

#[test]
fn encode_byte_1() {
    let mut compact = CompactQR::new();
    const INPUT: &[u8] = b"Hello WORLD!";
    encode::encode_byte(&mut compact, INPUT, 8);

    test_encode_header(&compact, INPUT, Mode::Byte);

    let res = compact.get_data();
    for (i, b) in INPUT.iter().enumerate() {
        assert_eq!(res[1 + i] & 0b111, *b >> 4, "Left part at index {}", i);
        assert_eq!(res[2 + i] >> 4, *b & 0b1111, "Right part at index {}", i);
    }
}

#[test]
fn encode_alphanumeric_1() {
    let mut compact = CompactQR::new();
    const INPUT: &[u8] = b"HELLO WORLD";
    encode::encode_alphanumeric(&mut compact, INPUT, 9);

    test_encode_header(&compact, INPUT, Mode::Alphanumeric);

    let keep_last = KEEP_LAST.map(|x| x as u16);

    let res = compact
        .get_data()
        .iter()
        .map(|&x| u16::from(x))
        .collect::<Vec<_>>();

    // 13, 'HE'
    assert_eq!(res[1] & 0b0000_0111, (17 * 45 + 14) >> 8);
    assert_eq!(res[2] & 0b1111_1111, (17 * 45 + 14) & keep_last[8]);
    // 24, 'LL'
    assert_eq!(res[3] & 0b1111_1111, (21 * 45 + 21) >> 3);
    assert_eq!(res[4] & 0b1110_0000, (21 * 45 + 21) << 5 & keep_last[8]);
    // 35, 'O '
    assert_eq!(res[4] & 0b0001_1111, (24 * 45 + 36) >> 6);
    assert_eq!(res[5] & 0b1111_1100, (24 * 45 + 36) << 2 & keep_last[8]);
    // 46, 'WO'
    assert_eq!(res[5] & 0b0000_0011, (32 * 45 + 24) >> 9);
    assert_eq!(res[6] & 0b1111_1111, (32 * 45 + 24) >> 1 & keep_last[8]);
    assert_eq!(res[7] & 0b1000_0000, (32 * 45 + 24) << 8 & keep_last[8]);
    // 57, 'RL'
    assert_eq!(res[7] & 0b0111_1111, (27 * 45 + 21) >> 4);
    assert_eq!(res[8] & 0b1111_0000, (27 * 45 + 21) << 4 & keep_last[8]);
    // 68, 'D'
    assert_eq!(res[8] & 0b0000_1111, (13) >> 2);
    assert_eq!(res[9] & 0b1100_0000, (13) << 6 & keep_last[8]);
}

#[test]
fn encode_numeric_1() {
    let mut compact = CompactQR::new();
    const INPUT: &[u8] = b"5894";
    encode::encode_numeric(&mut compact, INPUT, 10);

    test_encode_header(&compact, INPUT, Mode::Numeric);

    let keep_last = KEEP_LAST.map(|x| x as u16);

    let res = compact
        .get_data()
        .iter()
        .map(|&x| u16::from(x))
        .collect::<Vec<_>>();

    // 13, '589'
    assert_eq!(res[1] & 0b0000_0011, 589 >> 8);
    assert_eq!(res[2] & 0b1111_1111, (589 << 0) & keep_last[8]);
    // 24, '4'
    assert_eq!(res[3] & 0b1111_0000, (4 << 4) & keep_last[8]);
}

#[test]
fn encode_numeric_2() {
    let mut compact = CompactQR::new();
    const INPUT: &[u8] = b"58949";
    encode::encode_numeric(&mut compact, INPUT, 10);

    test_encode_header(&compact, INPUT, Mode::Numeric);

    let keep_last = KEEP_LAST.map(|x| x as u16);

    let res = compact
        .get_data()
        .iter()
        .map(|&x| u16::from(x))
        .collect::<Vec<_>>();

    // 13, '589'
    assert_eq!(res[1] & 0b0000_0011, 589 >> 8);
    assert_eq!(res[2] & 0b1111_1111, (589 << 0) & keep_last[8]);
    // 24, '49'
    assert_eq!(res[3] & 0b1111_1110, 49 << 1 & keep_last[8]);
}

#[test]
fn encode_numeric_3() {
    let mut compact = CompactQR::new();
    const INPUT: &[u8] = b"589491";
    encode::encode_numeric(&mut compact, INPUT, 10);

    test_encode_header(&compact, INPUT, Mode::Numeric);

    let keep_last = KEEP_LAST.map(|x| x as u16);

    let res = compact
        .get_data()
        .iter()
        .map(|&x| u16::from(x))
        .collect::<Vec<_>>();

    // 13, '589'
    assert_eq!(res[1] & 0b0000_0011, 589 >> 8);
    assert_eq!(res[2] & 0b1111_1111, (589 << 0) & keep_last[8]);
    // 24, '491'
    assert_eq!(res[3] & 0b1111_1111, (491 >> 2) & keep_last[8]);
    assert_eq!(res[4] & 0b1100_0000, (491 << 6) & keep_last[8]);
}

#[test]
fn encode_numeric_4() {
    let mut compact = CompactQR::new();
    const INPUT: &[u8] = b"200505150001";
    encode::encode_numeric(&mut compact, INPUT, 10);

    test_encode_header(&compact, INPUT, Mode::Numeric);

    let keep_last = KEEP_LAST.map(|x| x as u16);

    let res = compact
        .get_data()
        .iter()
        .map(|&x| u16::from(x))
        .collect::<Vec<_>>();

    // 13, '200'
    assert_eq!(res[1] & 0b0000_0011, 200 >> 8);
    assert_eq!(res[2] & 0b1111_1111, (200 << 0) & keep_last[8]);
    // 24, '505'
    assert_eq!(res[3] & 0b1111_1111, (505 >> 2) & keep_last[8]);
    assert_eq!(res[4] & 0b1100_0000, (505 << 6) & keep_last[8]);
    // 35, '150'
    assert_eq!(res[4] & 0b0011_1111, (150 >> 4) & keep_last[8]);
    assert_eq!(res[5] & 0b1111_0000, (150 << 4) & keep_last[8]);
    // 46, '001'
    assert_eq!(res[5] & 0b0000_1111, (1) >> 6);
    assert_eq!(res[6] & 0b1111_1100, (1) << 2 & keep_last[8]);
}
