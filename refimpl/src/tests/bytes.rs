#[cfg(feature = "image")]
#[test]
fn it_can_output_to_bytes_from_image() {
    use base64::engine::general_purpose;
    use base64::Engine;

    use crate::convert::image::ImageBuilder;
    use crate::{QRBuilder, ECL};

    // Expected
    let image_base64 = "iVBORw0KGgoAAAANSUhEUgAAACUAAAAlCAYAAADFniADAAACxElEQVR4Ae2W224UQQxEc/7/o2HOOrV2z/Qs0fJAkIKo2K4qX6YBCX4dvz6+2a+fo776B/J/vBRw+0H+9YPSzWMEPqyhojxUDh3ld7B38peXghoyTeZQPNRRchkGrU1u55GbgOpduGPIr4X4NMG6HKoZ7qNzjnmGB6BmyEH3PcTjx+SP8vn79qWgBuo8N0MvUNMDxc0c9pweYS+0R068dZSNAfTx4bLsXL/i4zXeHqU4AfVFsD9CL5TnnO9qOQHdYy22RynskC99N+5myjnPGFyOinAXoV7KQVD59MrP+p389ijohS6CemaoeLcMSofun15nWUPr4eTF7VGKAfx5EbTnsuTQMmtGfVB9k78cBWWC+pI02jRz6zvElzh9crPe5S+PcgBcj3PQTptcPEaoGebxzCg/cTlKEfq10iwfhDPKQfnNz4A6SC+0D4rXr2YMbo/SoBmq2VwOevCsoXioGM0YOAN6HnQej/FyFLQRagGsnI0iS4zWsPrk4TpD7ytsj8qwNFonh14sB7XUPID2wKrDvfbsPxYu/0tQgLVRThxewwes+o5/GD9/wP4w5fSaB2+9lIOgFsF6oIPVjQJKN5/QA6WZT+32KE3QTVBHhHcQFAcd1cXUrWE/S+2M26OgFtkAlUNH+cADzKEWm8tB1cln1AM1z3zi5VEaM2jmk5M/46u6vnOv9eUoyVeA9eugauiYfpdC8eGgX08OVv3BHY3Lvz6oJsUzDu+TghoGq18P7LloxuegTXJ5KahlZy80D+tSvS6C4mcezSigPdY73B4F1WxTliSGM0Ifm9oopt/6jOjGqf3VUdCHO3QOh6sG9QFQ2vTbH7x9lAMcCr0otdorTJ/52Xt71MX4uVwe6hDzAOrrU5+XQfVA+dShuPQkbo+KeI4OCgc1PHViPLAuhKphjemb8XLUFP9V/nPUV1/+W77Ub25RML9l49+tAAAAAElFTkSuQmCC";
    let expected_data_uri = format!("data:image/png;base64,{image_base64}");

    // Source
    let qrcode = QRBuilder::new("https://example.com/")
        .ecl(ECL::H)
        .build()
        .unwrap();

    // As bytes
    let png_bytes = ImageBuilder::default().to_bytes(&qrcode).unwrap();

    // As base64
    let png_base64 = general_purpose::STANDARD.encode(png_bytes);
    let data_uri = format!("data:image/png;base64,{png_base64}");

    // Verify
    assert_eq!(data_uri, expected_data_uri);
}
