use crate::{hardcode, polynomials, Version, ECL};

#[test]
fn error_code_computation_01() {
    let version = Version::V05;
    let quality = ECL::Q;

    let vec = [67, 85, 70, 134, 87, 38, 85, 194, 119, 50, 6, 18, 6, 103, 38];
    let generator_polynomials = hardcode::get_polynomial(version, quality);

    let div = polynomials::division(&vec, generator_polynomials);
    assert_eq!(
        div[255 - generator_polynomials.len() + 1..],
        [213, 199, 11, 45, 115, 247, 241, 223, 229, 248, 154, 117, 154, 111, 86, 161, 111, 39]
    )
}

#[test]
fn error_code_computation_02() {
    let version = Version::V05;
    let quality = ECL::Q;

    let vec = [
        246, 246, 66, 7, 118, 134, 242, 7, 38, 86, 22, 198, 199, 146, 6,
    ];

    let generator_polynomials = hardcode::get_polynomial(version, quality);

    let div = polynomials::division(&vec, generator_polynomials);

    assert_eq!(
        div[255 - generator_polynomials.len() + 1..],
        [87, 204, 96, 60, 202, 182, 124, 157, 200, 134, 27, 129, 209, 17, 163, 163, 120, 133]
    )
}

#[test]
fn error_code_computation_03() {
    let version = Version::V05;
    let quality = ECL::Q;

    let vec = [
        182, 230, 247, 119, 50, 7, 118, 134, 87, 38, 82, 6, 134, 151, 50, 7,
    ];
    let generator_polynomials = hardcode::get_polynomial(version, quality);

    let div = polynomials::division(&vec, generator_polynomials);

    assert_eq!(
        div[255 - generator_polynomials.len() + 1..],
        [148, 116, 177, 212, 76, 133, 75, 242, 238, 76, 195, 230, 189, 10, 108, 240, 192, 141]
    )
}

#[test]
fn error_code_computation_04() {
    let version = Version::V05;
    let quality = ECL::Q;

    let vec = [
        70, 247, 118, 86, 194, 6, 151, 50, 16, 236, 17, 236, 17, 236, 17, 236,
    ];
    let generator_polynomials = hardcode::get_polynomial(version, quality);

    let div = polynomials::division(&vec, generator_polynomials);

    assert_eq!(
        div[255 - generator_polynomials.len() + 1..],
        [235, 159, 5, 173, 24, 147, 59, 33, 106, 40, 255, 172, 82, 2, 131, 32, 178, 236]
    )
}

#[test]
fn error_code_computation_821043386() {
    let tmp1 = [
        29, 10, 145, 40, 0, 90, 126, 137, 221, 186, 137, 39, 208, 250, 199, 176, 202, 124, 200, 85,
        63, 254,
    ];
    let tmp2 = [
        0, 156, 45, 183, 29, 151, 219, 54, 96, 249, 24, 136, 5, 241, 175, 189, 28, 75, 234, 150,
        148, 23, 9, 202, 162, 68, 250, 140, 24, 151,
    ];
    let div = polynomials::division(&tmp1, &tmp2);
    assert_eq!(
        div[255 - 29..],
        ([
            0, 85, 37, 253, 234, 217, 13, 16, 62, 107, 80, 72, 22, 66, 240, 139, 57, 109, 195, 68,
            121, 32, 206, 196, 117, 252, 175, 189, 167
        ])
    )
}

#[test]
fn error_code_computation_struct_31_0() {
    let tmp1 = [28, 195, 100, 36, 175, 11, 35, 243, 28, 137, 59, 182, 193];
    let tmp2 = [
        0, 173, 125, 158, 2, 103, 182, 118, 17, 145, 201, 111, 28, 165, 53, 161, 21, 245, 142, 13,
        102, 48, 227, 153, 145, 218, 70,
    ];
    let div = polynomials::division(&tmp1, &tmp2);
    assert_eq!(
        div[255 - 26..],
        ([
            68, 150, 68, 205, 197, 78, 104, 100, 177, 0, 185, 7, 178, 106, 110, 170, 101, 222, 45,
            74, 31, 75, 3, 126, 216, 208
        ])
    )
}

#[test]
fn error_code_computation_struct_31_1() {
    let tmp1 = [35, 37, 251, 189, 8, 169, 15, 34, 59, 137, 187, 114, 134];
    let tmp2 = [
        0, 173, 125, 158, 2, 103, 182, 118, 17, 145, 201, 111, 28, 165, 53, 161, 21, 245, 142, 13,
        102, 48, 227, 153, 145, 218, 70,
    ];
    let div = polynomials::division(&tmp1, &tmp2);
    assert_eq!(
        div[255 - 26..],
        ([
            246, 74, 169, 24, 210, 247, 165, 59, 102, 186, 144, 234, 202, 247, 84, 191, 166, 28,
            140, 190, 219, 81, 72, 34, 159, 0
        ])
    )
}

#[test]
fn division_small_1() {
    let a = polynomials::division(&[32, 9], &[0, 0]);
    assert_eq!(&a[254..], &[41])
}
