use crate::{Mask, QRCode};

#[test]
fn version_format_l_mask0() {
    const CONTENT: &str = "4";
    const MASK: Option<Mask> = Some(Mask::Checkerboard);
    const VERSION: Option<crate::version::Version> = Some(crate::version::Version::V05);
    const LEVEL: Option<crate::ecl::ECL> = Some(crate::ecl::ECL::L);

    let q = QRCode::new(CONTENT.as_bytes(), LEVEL, VERSION, None, MASK);
    if q.is_err() {
        assert_eq!(true, false, "Couldn't create QR");
    };
    let mat = q.unwrap();

    const EXPECTED: [bool; 15] = [
        true, true, true, false, true, true, true, true, true, false, false, false, true, false,
        false,
    ];

    {
        let l = mat.size;
        #[rustfmt::skip]
        let tmp = [
            mat[l - 1][8], mat[l - 2][8], mat[l - 3][8], mat[l - 4][8], mat[l - 5][8], mat[l - 6][8], mat[l - 7][8],
            mat[8][l - 8], mat[8][l - 7], mat[8][l - 6], mat[8][l - 5], mat[8][l - 4], mat[8][l - 3], mat[8][l - 2], mat[8][l - 1]
        ];
        assert_eq!(tmp.map(|x| x.value()), EXPECTED);

        #[rustfmt::skip]
        let tmp = [
            mat[8][0], mat[8][1], mat[8][2], mat[8][3], mat[8][4], mat[8][5], mat[8][7], mat[8][8],
            mat[7][8], mat[5][8], mat[4][8], mat[3][8], mat[2][8], mat[1][8], mat[0][8],
        ];
        assert_eq!(tmp.map(|x| x.value()), EXPECTED);
    }
}

#[test]
fn version_format_l_mask1() {
    const CONTENT: &str = "4";
    const MASK: Option<Mask> = Some(Mask::HorizontalLines);
    const VERSION: Option<crate::version::Version> = Some(crate::version::Version::V03);
    const LEVEL: Option<crate::ecl::ECL> = Some(crate::ecl::ECL::L);

    let q = QRCode::new(CONTENT.as_bytes(), LEVEL, VERSION, None, MASK);
    if q.is_err() {
        assert_eq!(true, false, "Couldn't create QR");
    };
    let mat = q.unwrap();

    const EXPECTED: [bool; 15] = [
        true, true, true, false, false, true, false, true, true, true, true, false, false, true,
        true,
    ];

    {
        let l = mat.size;
        #[rustfmt::skip]
        let tmp = [
            mat[l - 1][8], mat[l - 2][8], mat[l - 3][8], mat[l - 4][8], mat[l - 5][8], mat[l - 6][8], mat[l - 7][8],
            mat[8][l - 8], mat[8][l - 7], mat[8][l - 6], mat[8][l - 5], mat[8][l - 4], mat[8][l - 3], mat[8][l - 2], mat[8][l - 1]
        ];
        assert_eq!(tmp.map(|x| x.value()), EXPECTED);

        #[rustfmt::skip]
        let tmp = [
            mat[8][0], mat[8][1], mat[8][2], mat[8][3], mat[8][4], mat[8][5], mat[8][7], mat[8][8],
            mat[7][8], mat[5][8], mat[4][8], mat[3][8], mat[2][8], mat[1][8], mat[0][8],
        ];
        assert_eq!(tmp.map(|x| x.value()), EXPECTED);
    }
}

#[test]
fn version_format_l_mask2() {
    const CONTENT: &str = "4";
    const MASK: Option<Mask> = Some(Mask::VerticalLines);
    const VERSION: Option<crate::version::Version> = Some(crate::version::Version::V06);
    const LEVEL: Option<crate::ecl::ECL> = Some(crate::ecl::ECL::L);

    let q = QRCode::new(CONTENT.as_bytes(), LEVEL, VERSION, None, MASK);
    if q.is_err() {
        assert_eq!(true, false, "Couldn't create QR");
    };
    let mat = q.unwrap();

    const EXPECTED: [bool; 15] = [
        true, true, true, true, true, false, true, true, false, true, false, true, false, true,
        false,
    ];

    {
        let l = mat.size;
        #[rustfmt::skip]
        let tmp = [
            mat[l - 1][8], mat[l - 2][8], mat[l - 3][8], mat[l - 4][8], mat[l - 5][8], mat[l - 6][8], mat[l - 7][8],
            mat[8][l - 8], mat[8][l - 7], mat[8][l - 6], mat[8][l - 5], mat[8][l - 4], mat[8][l - 3], mat[8][l - 2], mat[8][l - 1]
        ];
        assert_eq!(tmp.map(|x| x.value()), EXPECTED);

        #[rustfmt::skip]
        let tmp = [
            mat[8][0], mat[8][1], mat[8][2], mat[8][3], mat[8][4], mat[8][5], mat[8][7], mat[8][8],
            mat[7][8], mat[5][8], mat[4][8], mat[3][8], mat[2][8], mat[1][8], mat[0][8],
        ];
        assert_eq!(tmp.map(|x| x.value()), EXPECTED);
    }
}

#[test]
fn version_format_l_mask3() {
    const CONTENT: &str = "4";
    const MASK: Option<Mask> = Some(Mask::DiagonalLines);
    const VERSION: Option<crate::version::Version> = Some(crate::version::Version::V03);
    const LEVEL: Option<crate::ecl::ECL> = Some(crate::ecl::ECL::L);

    let q = QRCode::new(CONTENT.as_bytes(), LEVEL, VERSION, None, MASK);
    if q.is_err() {
        assert_eq!(true, false, "Couldn't create QR");
    };
    let mat = q.unwrap();

    const EXPECTED: [bool; 15] = [
        true, true, true, true, false, false, false, true, false, false, true, true, true, false,
        true,
    ];

    {
        let l = mat.size;
        #[rustfmt::skip]
        let tmp = [
            mat[l - 1][8], mat[l - 2][8], mat[l - 3][8], mat[l - 4][8], mat[l - 5][8], mat[l - 6][8], mat[l - 7][8],
            mat[8][l - 8], mat[8][l - 7], mat[8][l - 6], mat[8][l - 5], mat[8][l - 4], mat[8][l - 3], mat[8][l - 2], mat[8][l - 1]
        ];
        assert_eq!(tmp.map(|x| x.value()), EXPECTED);

        #[rustfmt::skip]
        let tmp = [
            mat[8][0], mat[8][1], mat[8][2], mat[8][3], mat[8][4], mat[8][5], mat[8][7], mat[8][8],
            mat[7][8], mat[5][8], mat[4][8], mat[3][8], mat[2][8], mat[1][8], mat[0][8],
        ];
        assert_eq!(tmp.map(|x| x.value()), EXPECTED);
    }
}

#[test]
fn version_format_l_mask4() {
    const CONTENT: &str = "4";
    const MASK: Option<Mask> = Some(Mask::LargeCheckerboard);
    const VERSION: Option<crate::version::Version> = Some(crate::version::Version::V06);
    const LEVEL: Option<crate::ecl::ECL> = Some(crate::ecl::ECL::L);

    let q = QRCode::new(CONTENT.as_bytes(), LEVEL, VERSION, None, MASK);
    if q.is_err() {
        assert_eq!(true, false, "Couldn't create QR");
    };
    let mat = q.unwrap();

    const EXPECTED: [bool; 15] = [
        true, true, false, false, true, true, false, false, false, true, false, true, true, true,
        true,
    ];

    {
        let l = mat.size;
        #[rustfmt::skip]
        let tmp = [
            mat[l - 1][8], mat[l - 2][8], mat[l - 3][8], mat[l - 4][8], mat[l - 5][8], mat[l - 6][8], mat[l - 7][8],
            mat[8][l - 8], mat[8][l - 7], mat[8][l - 6], mat[8][l - 5], mat[8][l - 4], mat[8][l - 3], mat[8][l - 2], mat[8][l - 1]
        ];
        assert_eq!(tmp.map(|x| x.value()), EXPECTED);

        #[rustfmt::skip]
        let tmp = [
            mat[8][0], mat[8][1], mat[8][2], mat[8][3], mat[8][4], mat[8][5], mat[8][7], mat[8][8],
            mat[7][8], mat[5][8], mat[4][8], mat[3][8], mat[2][8], mat[1][8], mat[0][8],
        ];
        assert_eq!(tmp.map(|x| x.value()), EXPECTED);
    }
}

#[test]
fn version_format_l_mask5() {
    const CONTENT: &str = "4";
    const MASK: Option<Mask> = Some(Mask::Fields);
    const VERSION: Option<crate::version::Version> = Some(crate::version::Version::V06);
    const LEVEL: Option<crate::ecl::ECL> = Some(crate::ecl::ECL::L);

    let q = QRCode::new(CONTENT.as_bytes(), LEVEL, VERSION, None, MASK);
    if q.is_err() {
        assert_eq!(true, false, "Couldn't create QR");
    };
    let mat = q.unwrap();

    const EXPECTED: [bool; 15] = [
        true, true, false, false, false, true, true, false, false, false, true, true, false, false,
        false,
    ];

    {
        let l = mat.size;
        #[rustfmt::skip]

        #[rustfmt::skip]
        let tmp = [
            mat[l - 1][8], mat[l - 2][8], mat[l - 3][8], mat[l - 4][8], mat[l - 5][8], mat[l - 6][8], mat[l - 7][8],
            mat[8][l - 8], mat[8][l - 7], mat[8][l - 6], mat[8][l - 5], mat[8][l - 4], mat[8][l - 3], mat[8][l - 2], mat[8][l - 1]
        ];
        assert_eq!(tmp.map(|x| x.value()), EXPECTED);

        #[rustfmt::skip]
        let tmp = [
            mat[8][0], mat[8][1], mat[8][2], mat[8][3], mat[8][4], mat[8][5], mat[8][7], mat[8][8],
            mat[7][8], mat[5][8], mat[4][8], mat[3][8], mat[2][8], mat[1][8], mat[0][8],
        ];
        assert_eq!(tmp.map(|x| x.value()), EXPECTED);
    }
}

#[test]
fn version_format_l_mask6() {
    const CONTENT: &str = "4";
    const MASK: Option<Mask> = Some(Mask::Diamonds);
    const VERSION: Option<crate::version::Version> = Some(crate::version::Version::V06);
    const LEVEL: Option<crate::ecl::ECL> = Some(crate::ecl::ECL::L);

    let q = QRCode::new(CONTENT.as_bytes(), LEVEL, VERSION, None, MASK);
    if q.is_err() {
        assert_eq!(true, false, "Couldn't create QR");
    };
    let mat = q.unwrap();

    const EXPECTED: [bool; 15] = [
        true, true, false, true, true, false, false, false, true, false, false, false, false,
        false, true,
    ];

    {
        let l = mat.size;

        #[rustfmt::skip]
        let tmp = [
            mat[l - 1][8], mat[l - 2][8], mat[l - 3][8], mat[l - 4][8], mat[l - 5][8], mat[l - 6][8], mat[l - 7][8],
            mat[8][l - 8], mat[8][l - 7], mat[8][l - 6], mat[8][l - 5], mat[8][l - 4], mat[8][l - 3], mat[8][l - 2], mat[8][l - 1]
        ];
        assert_eq!(tmp.map(|x| x.value()), EXPECTED);

        #[rustfmt::skip]
        let tmp = [
            mat[8][0], mat[8][1], mat[8][2], mat[8][3], mat[8][4], mat[8][5], mat[8][7], mat[8][8],
            mat[7][8], mat[5][8], mat[4][8], mat[3][8], mat[2][8], mat[1][8], mat[0][8],
        ];
        assert_eq!(tmp.map(|x| x.value()), EXPECTED);
    }
}

#[test]
fn version_format_l_mask7() {
    const CONTENT: &str = "4";
    const MASK: Option<Mask> = Some(Mask::Meadow);
    const VERSION: Option<crate::version::Version> = Some(crate::version::Version::V05);
    const LEVEL: Option<crate::ecl::ECL> = Some(crate::ecl::ECL::L);

    let q = QRCode::new(CONTENT.as_bytes(), LEVEL, VERSION, None, MASK);
    if q.is_err() {
        assert_eq!(true, false, "Couldn't create QR");
    };
    let mat = q.unwrap();

    const EXPECTED: [bool; 15] = [
        true, true, false, true, false, false, true, false, true, true, true, false, true, true,
        false,
    ];

    {
        let l = mat.size;
        #[rustfmt::skip]
        let tmp = [
                mat[l - 1][8], mat[l - 2][8], mat[l - 3][8], mat[l - 4][8], mat[l - 5][8], mat[l - 6][8], mat[l - 7][8],
                mat[8][l - 8], mat[8][l - 7], mat[8][l - 6], mat[8][l - 5], mat[8][l - 4], mat[8][l - 3], mat[8][l - 2], mat[8][l - 1]
            ];
        assert_eq!(tmp.map(|x| x.value()), EXPECTED);

        #[rustfmt::skip]
        let tmp = [
                mat[8][0], mat[8][1], mat[8][2], mat[8][3], mat[8][4], mat[8][5], mat[8][7], mat[8][8],
                mat[7][8], mat[5][8], mat[4][8], mat[3][8], mat[2][8], mat[1][8], mat[0][8],
            ];
        assert_eq!(tmp.map(|x| x.value()), EXPECTED);
    }
}

#[test]
fn version_format_m_mask0() {
    const CONTENT: &str = "4";
    const MASK: Option<Mask> = Some(Mask::Checkerboard);
    const VERSION: Option<crate::version::Version> = Some(crate::version::Version::V01);
    const LEVEL: Option<crate::ecl::ECL> = Some(crate::ecl::ECL::M);

    let q = QRCode::new(CONTENT.as_bytes(), LEVEL, VERSION, None, MASK);
    if q.is_err() {
        assert_eq!(true, false, "Couldn't create QR");
    };
    let mat = q.unwrap();

    const EXPECTED: [bool; 15] = [
        true, false, true, false, true, false, false, false, false, false, true, false, false,
        true, false,
    ];

    {
        let l = mat.size;
        #[rustfmt::skip]
        let tmp = [
                mat[l - 1][8], mat[l - 2][8], mat[l - 3][8], mat[l - 4][8], mat[l - 5][8], mat[l - 6][8], mat[l - 7][8],
                mat[8][l - 8], mat[8][l - 7], mat[8][l - 6], mat[8][l - 5], mat[8][l - 4], mat[8][l - 3], mat[8][l - 2], mat[8][l - 1]
            ];
        assert_eq!(tmp.map(|x| x.value()), EXPECTED);

        #[rustfmt::skip]
        let tmp = [
                mat[8][0], mat[8][1], mat[8][2], mat[8][3], mat[8][4], mat[8][5], mat[8][7], mat[8][8],
                mat[7][8], mat[5][8], mat[4][8], mat[3][8], mat[2][8], mat[1][8], mat[0][8],
            ];
        assert_eq!(tmp.map(|x| x.value()), EXPECTED);
    }
}

#[test]
fn version_format_m_mask1() {
    const CONTENT: &str = "4";
    const MASK: Option<Mask> = Some(Mask::HorizontalLines);
    const VERSION: Option<crate::version::Version> = Some(crate::version::Version::V04);
    const LEVEL: Option<crate::ecl::ECL> = Some(crate::ecl::ECL::M);

    let q = QRCode::new(CONTENT.as_bytes(), LEVEL, VERSION, None, MASK);
    if q.is_err() {
        assert_eq!(true, false, "Couldn't create QR");
    };
    let mat = q.unwrap();

    const EXPECTED: [bool; 15] = [
        true, false, true, false, false, false, true, false, false, true, false, false, true,
        false, true,
    ];

    {
        let l = mat.size;
        #[rustfmt::skip]
        let tmp = [
                mat[l - 1][8], mat[l - 2][8], mat[l - 3][8], mat[l - 4][8], mat[l - 5][8], mat[l - 6][8], mat[l - 7][8],
                mat[8][l - 8], mat[8][l - 7], mat[8][l - 6], mat[8][l - 5], mat[8][l - 4], mat[8][l - 3], mat[8][l - 2], mat[8][l - 1]
            ];
        assert_eq!(tmp.map(|x| x.value()), EXPECTED);

        #[rustfmt::skip]
        let tmp = [
                mat[8][0], mat[8][1], mat[8][2], mat[8][3], mat[8][4], mat[8][5], mat[8][7], mat[8][8],
                mat[7][8], mat[5][8], mat[4][8], mat[3][8], mat[2][8], mat[1][8], mat[0][8],
            ];
        assert_eq!(tmp.map(|x| x.value()), EXPECTED);
    }
}

#[test]
fn version_format_m_mask2() {
    const CONTENT: &str = "4";
    const MASK: Option<Mask> = Some(Mask::VerticalLines);
    const VERSION: Option<crate::version::Version> = Some(crate::version::Version::V02);
    const LEVEL: Option<crate::ecl::ECL> = Some(crate::ecl::ECL::M);

    let q = QRCode::new(CONTENT.as_bytes(), LEVEL, VERSION, None, MASK);
    if q.is_err() {
        assert_eq!(true, false, "Couldn't create QR");
    };
    let mat = q.unwrap();

    const EXPECTED: [bool; 15] = [
        true, false, true, true, true, true, false, false, true, true, true, true, true, false,
        false,
    ];

    {
        let l = mat.size;
        #[rustfmt::skip]
        let tmp = [
                mat[l - 1][8], mat[l - 2][8], mat[l - 3][8], mat[l - 4][8], mat[l - 5][8], mat[l - 6][8], mat[l - 7][8],
                mat[8][l - 8], mat[8][l - 7], mat[8][l - 6], mat[8][l - 5], mat[8][l - 4], mat[8][l - 3], mat[8][l - 2], mat[8][l - 1]
            ];
        assert_eq!(tmp.map(|x| x.value()), EXPECTED);

        #[rustfmt::skip]
        let tmp = [
                mat[8][0], mat[8][1], mat[8][2], mat[8][3], mat[8][4], mat[8][5], mat[8][7], mat[8][8],
                mat[7][8], mat[5][8], mat[4][8], mat[3][8], mat[2][8], mat[1][8], mat[0][8],
            ];
        assert_eq!(tmp.map(|x| x.value()), EXPECTED);
    }
}

#[test]
fn version_format_m_mask3() {
    const CONTENT: &str = "4";
    const MASK: Option<Mask> = Some(Mask::DiagonalLines);
    const VERSION: Option<crate::version::Version> = Some(crate::version::Version::V06);
    const LEVEL: Option<crate::ecl::ECL> = Some(crate::ecl::ECL::M);

    let q = QRCode::new(CONTENT.as_bytes(), LEVEL, VERSION, None, MASK);
    if q.is_err() {
        assert_eq!(true, false, "Couldn't create QR");
    };
    let mat = q.unwrap();

    const EXPECTED: [bool; 15] = [
        true, false, true, true, false, true, true, false, true, false, false, true, false, true,
        true,
    ];

    {
        let l = mat.size;
        #[rustfmt::skip]
        let tmp = [
                mat[l - 1][8], mat[l - 2][8], mat[l - 3][8], mat[l - 4][8], mat[l - 5][8], mat[l - 6][8], mat[l - 7][8],
                mat[8][l - 8], mat[8][l - 7], mat[8][l - 6], mat[8][l - 5], mat[8][l - 4], mat[8][l - 3], mat[8][l - 2], mat[8][l - 1]
            ];
        assert_eq!(tmp.map(|x| x.value()), EXPECTED);

        #[rustfmt::skip]
        let tmp = [
                mat[8][0], mat[8][1], mat[8][2], mat[8][3], mat[8][4], mat[8][5], mat[8][7], mat[8][8],
                mat[7][8], mat[5][8], mat[4][8], mat[3][8], mat[2][8], mat[1][8], mat[0][8],
            ];
        assert_eq!(tmp.map(|x| x.value()), EXPECTED);
    }
}

#[test]
fn version_format_m_mask4() {
    const CONTENT: &str = "4";
    const MASK: Option<Mask> = Some(Mask::LargeCheckerboard);
    const VERSION: Option<crate::version::Version> = Some(crate::version::Version::V01);
    const LEVEL: Option<crate::ecl::ECL> = Some(crate::ecl::ECL::M);

    let q = QRCode::new(CONTENT.as_bytes(), LEVEL, VERSION, None, MASK);
    if q.is_err() {
        assert_eq!(true, false, "Couldn't create QR");
    };
    let mat = q.unwrap();

    const EXPECTED: [bool; 15] = [
        true, false, false, false, true, false, true, true, true, true, true, true, false, false,
        true,
    ];

    {
        let l = mat.size;
        #[rustfmt::skip]
        let tmp = [
                mat[l - 1][8], mat[l - 2][8], mat[l - 3][8], mat[l - 4][8], mat[l - 5][8], mat[l - 6][8], mat[l - 7][8],
                mat[8][l - 8], mat[8][l - 7], mat[8][l - 6], mat[8][l - 5], mat[8][l - 4], mat[8][l - 3], mat[8][l - 2], mat[8][l - 1]
            ];
        assert_eq!(tmp.map(|x| x.value()), EXPECTED);

        #[rustfmt::skip]
        let tmp = [
                mat[8][0], mat[8][1], mat[8][2], mat[8][3], mat[8][4], mat[8][5], mat[8][7], mat[8][8],
                mat[7][8], mat[5][8], mat[4][8], mat[3][8], mat[2][8], mat[1][8], mat[0][8],
            ];
        assert_eq!(tmp.map(|x| x.value()), EXPECTED);
    }
}

#[test]
fn version_format_m_mask5() {
    const CONTENT: &str = "4";
    const MASK: Option<Mask> = Some(Mask::Fields);
    const VERSION: Option<crate::version::Version> = Some(crate::version::Version::V02);
    const LEVEL: Option<crate::ecl::ECL> = Some(crate::ecl::ECL::M);

    let q = QRCode::new(CONTENT.as_bytes(), LEVEL, VERSION, None, MASK);
    if q.is_err() {
        assert_eq!(true, false, "Couldn't create QR");
    };
    let mat = q.unwrap();

    const EXPECTED: [bool; 15] = [
        true, false, false, false, false, false, false, true, true, false, false, true, true, true,
        false,
    ];

    {
        let l = mat.size;
        #[rustfmt::skip]
        let tmp = [
                mat[l - 1][8], mat[l - 2][8], mat[l - 3][8], mat[l - 4][8], mat[l - 5][8], mat[l - 6][8], mat[l - 7][8],
                mat[8][l - 8], mat[8][l - 7], mat[8][l - 6], mat[8][l - 5], mat[8][l - 4], mat[8][l - 3], mat[8][l - 2], mat[8][l - 1]
            ];
        assert_eq!(tmp.map(|x| x.value()), EXPECTED);

        #[rustfmt::skip]
        let tmp = [
                mat[8][0], mat[8][1], mat[8][2], mat[8][3], mat[8][4], mat[8][5], mat[8][7], mat[8][8],
                mat[7][8], mat[5][8], mat[4][8], mat[3][8], mat[2][8], mat[1][8], mat[0][8],
            ];
        assert_eq!(tmp.map(|x| x.value()), EXPECTED);
    }
}

#[test]
fn version_format_m_mask6() {
    const CONTENT: &str = "4";
    const MASK: Option<Mask> = Some(Mask::Diamonds);
    const VERSION: Option<crate::version::Version> = Some(crate::version::Version::V01);
    const LEVEL: Option<crate::ecl::ECL> = Some(crate::ecl::ECL::M);

    let q = QRCode::new(CONTENT.as_bytes(), LEVEL, VERSION, None, MASK);
    if q.is_err() {
        assert_eq!(true, false, "Couldn't create QR");
    };
    let mat = q.unwrap();

    const EXPECTED: [bool; 15] = [
        true, false, false, true, true, true, true, true, false, false, true, false, true, true,
        true,
    ];

    {
        let l = mat.size;
        #[rustfmt::skip]
        let tmp = [
                mat[l - 1][8], mat[l - 2][8], mat[l - 3][8], mat[l - 4][8], mat[l - 5][8], mat[l - 6][8], mat[l - 7][8],
                mat[8][l - 8], mat[8][l - 7], mat[8][l - 6], mat[8][l - 5], mat[8][l - 4], mat[8][l - 3], mat[8][l - 2], mat[8][l - 1]
            ];
        assert_eq!(tmp.map(|x| x.value()), EXPECTED);

        #[rustfmt::skip]
        let tmp = [
                mat[8][0], mat[8][1], mat[8][2], mat[8][3], mat[8][4], mat[8][5], mat[8][7], mat[8][8],
                mat[7][8], mat[5][8], mat[4][8], mat[3][8], mat[2][8], mat[1][8], mat[0][8],
            ];
        assert_eq!(tmp.map(|x| x.value()), EXPECTED);
    }
}

#[test]
fn version_format_m_mask7() {
    const CONTENT: &str = "4";
    const MASK: Option<Mask> = Some(Mask::Meadow);
    const VERSION: Option<crate::version::Version> = Some(crate::version::Version::V03);
    const LEVEL: Option<crate::ecl::ECL> = Some(crate::ecl::ECL::M);

    let q = QRCode::new(CONTENT.as_bytes(), LEVEL, VERSION, None, MASK);
    if q.is_err() {
        assert_eq!(true, false, "Couldn't create QR");
    };
    let mat = q.unwrap();

    const EXPECTED: [bool; 15] = [
        true, false, false, true, false, true, false, true, false, true, false, false, false,
        false, false,
    ];

    {
        let l = mat.size;
        #[rustfmt::skip]
        let tmp = [
                mat[l - 1][8], mat[l - 2][8], mat[l - 3][8], mat[l - 4][8], mat[l - 5][8], mat[l - 6][8], mat[l - 7][8],
                mat[8][l - 8], mat[8][l - 7], mat[8][l - 6], mat[8][l - 5], mat[8][l - 4], mat[8][l - 3], mat[8][l - 2], mat[8][l - 1]
            ];
        assert_eq!(tmp.map(|x| x.value()), EXPECTED);

        #[rustfmt::skip]
        let tmp = [
                mat[8][0], mat[8][1], mat[8][2], mat[8][3], mat[8][4], mat[8][5], mat[8][7], mat[8][8],
                mat[7][8], mat[5][8], mat[4][8], mat[3][8], mat[2][8], mat[1][8], mat[0][8],
            ];
        assert_eq!(tmp.map(|x| x.value()), EXPECTED);
    }
}

#[test]
fn version_format_q_mask0() {
    const CONTENT: &str = "4";
    const MASK: Option<Mask> = Some(Mask::Checkerboard);
    const VERSION: Option<crate::version::Version> = Some(crate::version::Version::V04);
    const LEVEL: Option<crate::ecl::ECL> = Some(crate::ecl::ECL::Q);

    let q = QRCode::new(CONTENT.as_bytes(), LEVEL, VERSION, None, MASK);
    if q.is_err() {
        assert_eq!(true, false, "Couldn't create QR");
    };
    let mat = q.unwrap();

    const EXPECTED: [bool; 15] = [
        false, true, true, false, true, false, true, false, true, false, true, true, true, true,
        true,
    ];

    {
        let l = mat.size;
        #[rustfmt::skip]
        let tmp = [
                mat[l - 1][8], mat[l - 2][8], mat[l - 3][8], mat[l - 4][8], mat[l - 5][8], mat[l - 6][8], mat[l - 7][8],
                mat[8][l - 8], mat[8][l - 7], mat[8][l - 6], mat[8][l - 5], mat[8][l - 4], mat[8][l - 3], mat[8][l - 2], mat[8][l - 1]
            ];
        assert_eq!(tmp.map(|x| x.value()), EXPECTED);

        #[rustfmt::skip]
        let tmp = [
                mat[8][0], mat[8][1], mat[8][2], mat[8][3], mat[8][4], mat[8][5], mat[8][7], mat[8][8],
                mat[7][8], mat[5][8], mat[4][8], mat[3][8], mat[2][8], mat[1][8], mat[0][8],
            ];
        assert_eq!(tmp.map(|x| x.value()), EXPECTED);
    }
}

#[test]
fn version_format_q_mask1() {
    const CONTENT: &str = "4";
    const MASK: Option<Mask> = Some(Mask::HorizontalLines);
    const VERSION: Option<crate::version::Version> = Some(crate::version::Version::V02);
    const LEVEL: Option<crate::ecl::ECL> = Some(crate::ecl::ECL::Q);

    let q = QRCode::new(CONTENT.as_bytes(), LEVEL, VERSION, None, MASK);
    if q.is_err() {
        assert_eq!(true, false, "Couldn't create QR");
    };
    let mat = q.unwrap();

    const EXPECTED: [bool; 15] = [
        false, true, true, false, false, false, false, false, true, true, false, true, false,
        false, false,
    ];

    {
        let l = mat.size;
        #[rustfmt::skip]
        let tmp = [
                mat[l - 1][8], mat[l - 2][8], mat[l - 3][8], mat[l - 4][8], mat[l - 5][8], mat[l - 6][8], mat[l - 7][8],
                mat[8][l - 8], mat[8][l - 7], mat[8][l - 6], mat[8][l - 5], mat[8][l - 4], mat[8][l - 3], mat[8][l - 2], mat[8][l - 1]
            ];
        assert_eq!(tmp.map(|x| x.value()), EXPECTED);

        #[rustfmt::skip]
        let tmp = [
                mat[8][0], mat[8][1], mat[8][2], mat[8][3], mat[8][4], mat[8][5], mat[8][7], mat[8][8],
                mat[7][8], mat[5][8], mat[4][8], mat[3][8], mat[2][8], mat[1][8], mat[0][8],
            ];
        assert_eq!(tmp.map(|x| x.value()), EXPECTED);
    }
}

#[test]
fn version_format_q_mask2() {
    const CONTENT: &str = "4";
    const MASK: Option<Mask> = Some(Mask::VerticalLines);
    const VERSION: Option<crate::version::Version> = Some(crate::version::Version::V04);
    const LEVEL: Option<crate::ecl::ECL> = Some(crate::ecl::ECL::Q);

    let q = QRCode::new(CONTENT.as_bytes(), LEVEL, VERSION, None, MASK);
    if q.is_err() {
        assert_eq!(true, false, "Couldn't create QR");
    };
    let mat = q.unwrap();

    const EXPECTED: [bool; 15] = [
        false, true, true, true, true, true, true, false, false, true, true, false, false, false,
        true,
    ];

    {
        let l = mat.size;
        #[rustfmt::skip]
        let tmp = [
                mat[l - 1][8], mat[l - 2][8], mat[l - 3][8], mat[l - 4][8], mat[l - 5][8], mat[l - 6][8], mat[l - 7][8],
                mat[8][l - 8], mat[8][l - 7], mat[8][l - 6], mat[8][l - 5], mat[8][l - 4], mat[8][l - 3], mat[8][l - 2], mat[8][l - 1]
            ];
        assert_eq!(tmp.map(|x| x.value()), EXPECTED);

        #[rustfmt::skip]
        let tmp = [
                mat[8][0], mat[8][1], mat[8][2], mat[8][3], mat[8][4], mat[8][5], mat[8][7], mat[8][8],
                mat[7][8], mat[5][8], mat[4][8], mat[3][8], mat[2][8], mat[1][8], mat[0][8],
            ];
        assert_eq!(tmp.map(|x| x.value()), EXPECTED);
    }
}

#[test]
fn version_format_q_mask3() {
    const CONTENT: &str = "4";
    const MASK: Option<Mask> = Some(Mask::DiagonalLines);
    const VERSION: Option<crate::version::Version> = Some(crate::version::Version::V05);
    const LEVEL: Option<crate::ecl::ECL> = Some(crate::ecl::ECL::Q);

    let q = QRCode::new(CONTENT.as_bytes(), LEVEL, VERSION, None, MASK);
    if q.is_err() {
        assert_eq!(true, false, "Couldn't create QR");
    };
    let mat = q.unwrap();

    const EXPECTED: [bool; 15] = [
        false, true, true, true, false, true, false, false, false, false, false, false, true, true,
        false,
    ];

    {
        let l = mat.size;
        #[rustfmt::skip]
        let tmp = [
                mat[l - 1][8], mat[l - 2][8], mat[l - 3][8], mat[l - 4][8], mat[l - 5][8], mat[l - 6][8], mat[l - 7][8],
                mat[8][l - 8], mat[8][l - 7], mat[8][l - 6], mat[8][l - 5], mat[8][l - 4], mat[8][l - 3], mat[8][l - 2], mat[8][l - 1]
            ];
        assert_eq!(tmp.map(|x| x.value()), EXPECTED);

        #[rustfmt::skip]
        let tmp = [
                mat[8][0], mat[8][1], mat[8][2], mat[8][3], mat[8][4], mat[8][5], mat[8][7], mat[8][8],
                mat[7][8], mat[5][8], mat[4][8], mat[3][8], mat[2][8], mat[1][8], mat[0][8],
            ];
        assert_eq!(tmp.map(|x| x.value()), EXPECTED);
    }
}

#[test]
fn version_format_q_mask4() {
    const CONTENT: &str = "4";
    const MASK: Option<Mask> = Some(Mask::LargeCheckerboard);
    const VERSION: Option<crate::version::Version> = Some(crate::version::Version::V01);
    const LEVEL: Option<crate::ecl::ECL> = Some(crate::ecl::ECL::Q);

    let q = QRCode::new(CONTENT.as_bytes(), LEVEL, VERSION, None, MASK);
    if q.is_err() {
        assert_eq!(true, false, "Couldn't create QR");
    };
    let mat = q.unwrap();

    const EXPECTED: [bool; 15] = [
        false, true, false, false, true, false, false, true, false, true, true, false, true, false,
        false,
    ];

    {
        let l = mat.size;
        #[rustfmt::skip]
        let tmp = [
                mat[l - 1][8], mat[l - 2][8], mat[l - 3][8], mat[l - 4][8], mat[l - 5][8], mat[l - 6][8], mat[l - 7][8],
                mat[8][l - 8], mat[8][l - 7], mat[8][l - 6], mat[8][l - 5], mat[8][l - 4], mat[8][l - 3], mat[8][l - 2], mat[8][l - 1]
            ];
        assert_eq!(tmp.map(|x| x.value()), EXPECTED);

        #[rustfmt::skip]
        let tmp = [
                mat[8][0], mat[8][1], mat[8][2], mat[8][3], mat[8][4], mat[8][5], mat[8][7], mat[8][8],
                mat[7][8], mat[5][8], mat[4][8], mat[3][8], mat[2][8], mat[1][8], mat[0][8],
            ];
        assert_eq!(tmp.map(|x| x.value()), EXPECTED);
    }
}

#[test]
fn version_format_q_mask5() {
    const CONTENT: &str = "4";
    const MASK: Option<Mask> = Some(Mask::Fields);
    const VERSION: Option<crate::version::Version> = Some(crate::version::Version::V05);
    const LEVEL: Option<crate::ecl::ECL> = Some(crate::ecl::ECL::Q);

    let q = QRCode::new(CONTENT.as_bytes(), LEVEL, VERSION, None, MASK);
    if q.is_err() {
        assert_eq!(true, false, "Couldn't create QR");
    };
    let mat = q.unwrap();

    const EXPECTED: [bool; 15] = [
        false, true, false, false, false, false, true, true, false, false, false, false, false,
        true, true,
    ];

    {
        let l = mat.size;
        #[rustfmt::skip]
        let tmp = [
                mat[l - 1][8], mat[l - 2][8], mat[l - 3][8], mat[l - 4][8], mat[l - 5][8], mat[l - 6][8], mat[l - 7][8],
                mat[8][l - 8], mat[8][l - 7], mat[8][l - 6], mat[8][l - 5], mat[8][l - 4], mat[8][l - 3], mat[8][l - 2], mat[8][l - 1]
            ];
        assert_eq!(tmp.map(|x| x.value()), EXPECTED);

        #[rustfmt::skip]
        let tmp = [
                mat[8][0], mat[8][1], mat[8][2], mat[8][3], mat[8][4], mat[8][5], mat[8][7], mat[8][8],
                mat[7][8], mat[5][8], mat[4][8], mat[3][8], mat[2][8], mat[1][8], mat[0][8],
            ];
        assert_eq!(tmp.map(|x| x.value()), EXPECTED);
    }
}

#[test]
fn version_format_q_mask6() {
    const CONTENT: &str = "4";
    const MASK: Option<Mask> = Some(Mask::Diamonds);
    const VERSION: Option<crate::version::Version> = Some(crate::version::Version::V02);
    const LEVEL: Option<crate::ecl::ECL> = Some(crate::ecl::ECL::Q);

    let q = QRCode::new(CONTENT.as_bytes(), LEVEL, VERSION, None, MASK);
    if q.is_err() {
        assert_eq!(true, false, "Couldn't create QR");
    };
    let mat = q.unwrap();

    const EXPECTED: [bool; 15] = [
        false, true, false, true, true, true, false, true, true, false, true, true, false, true,
        false,
    ];

    {
        let l = mat.size;
        #[rustfmt::skip]
        let tmp = [
                mat[l - 1][8], mat[l - 2][8], mat[l - 3][8], mat[l - 4][8], mat[l - 5][8], mat[l - 6][8], mat[l - 7][8],
                mat[8][l - 8], mat[8][l - 7], mat[8][l - 6], mat[8][l - 5], mat[8][l - 4], mat[8][l - 3], mat[8][l - 2], mat[8][l - 1]
            ];
        assert_eq!(tmp.map(|x| x.value()), EXPECTED);

        #[rustfmt::skip]
        let tmp = [
                mat[8][0], mat[8][1], mat[8][2], mat[8][3], mat[8][4], mat[8][5], mat[8][7], mat[8][8],
                mat[7][8], mat[5][8], mat[4][8], mat[3][8], mat[2][8], mat[1][8], mat[0][8],
            ];
        assert_eq!(tmp.map(|x| x.value()), EXPECTED);
    }
}

#[test]
fn version_format_q_mask7() {
    const CONTENT: &str = "4";
    const MASK: Option<Mask> = Some(Mask::Meadow);
    const VERSION: Option<crate::version::Version> = Some(crate::version::Version::V01);
    const LEVEL: Option<crate::ecl::ECL> = Some(crate::ecl::ECL::Q);

    let q = QRCode::new(CONTENT.as_bytes(), LEVEL, VERSION, None, MASK);
    if q.is_err() {
        assert_eq!(true, false, "Couldn't create QR");
    };
    let mat = q.unwrap();

    const EXPECTED: [bool; 15] = [
        false, true, false, true, false, true, true, true, true, true, false, true, true, false,
        true,
    ];

    {
        let l = mat.size;
        #[rustfmt::skip]
        let tmp = [
                mat[l - 1][8], mat[l - 2][8], mat[l - 3][8], mat[l - 4][8], mat[l - 5][8], mat[l - 6][8], mat[l - 7][8],
                mat[8][l - 8], mat[8][l - 7], mat[8][l - 6], mat[8][l - 5], mat[8][l - 4], mat[8][l - 3], mat[8][l - 2], mat[8][l - 1]
            ];
        assert_eq!(tmp.map(|x| x.value()), EXPECTED);

        #[rustfmt::skip]
        let tmp = [
                mat[8][0], mat[8][1], mat[8][2], mat[8][3], mat[8][4], mat[8][5], mat[8][7], mat[8][8],
                mat[7][8], mat[5][8], mat[4][8], mat[3][8], mat[2][8], mat[1][8], mat[0][8],
            ];
        assert_eq!(tmp.map(|x| x.value()), EXPECTED);
    }
}

#[test]
fn version_format_h_mask0() {
    const CONTENT: &str = "4";
    const MASK: Option<Mask> = Some(Mask::Checkerboard);
    const VERSION: Option<crate::version::Version> = Some(crate::version::Version::V06);
    const LEVEL: Option<crate::ecl::ECL> = Some(crate::ecl::ECL::H);

    let q = QRCode::new(CONTENT.as_bytes(), LEVEL, VERSION, None, MASK);
    if q.is_err() {
        assert_eq!(true, false, "Couldn't create QR");
    };
    let mat = q.unwrap();

    const EXPECTED: [bool; 15] = [
        false, false, true, false, true, true, false, true, false, false, false, true, false,
        false, true,
    ];

    {
        let l = mat.size;
        #[rustfmt::skip]
        let tmp = [
                mat[l - 1][8], mat[l - 2][8], mat[l - 3][8], mat[l - 4][8], mat[l - 5][8], mat[l - 6][8], mat[l - 7][8],
                mat[8][l - 8], mat[8][l - 7], mat[8][l - 6], mat[8][l - 5], mat[8][l - 4], mat[8][l - 3], mat[8][l - 2], mat[8][l - 1]
            ];
        assert_eq!(tmp.map(|x| x.value()), EXPECTED);

        #[rustfmt::skip]
        let tmp = [
                mat[8][0], mat[8][1], mat[8][2], mat[8][3], mat[8][4], mat[8][5], mat[8][7], mat[8][8],
                mat[7][8], mat[5][8], mat[4][8], mat[3][8], mat[2][8], mat[1][8], mat[0][8],
            ];
        assert_eq!(tmp.map(|x| x.value()), EXPECTED);
    }
}

#[test]
fn version_format_h_mask1() {
    const CONTENT: &str = "4";
    const MASK: Option<Mask> = Some(Mask::HorizontalLines);
    const VERSION: Option<crate::version::Version> = Some(crate::version::Version::V02);
    const LEVEL: Option<crate::ecl::ECL> = Some(crate::ecl::ECL::H);

    let q = QRCode::new(CONTENT.as_bytes(), LEVEL, VERSION, None, MASK);
    if q.is_err() {
        assert_eq!(true, false, "Couldn't create QR");
    };
    let mat = q.unwrap();

    const EXPECTED: [bool; 15] = [
        false, false, true, false, false, true, true, true, false, true, true, true, true, true,
        false,
    ];

    {
        let l = mat.size;
        #[rustfmt::skip]
        let tmp = [
                mat[l - 1][8], mat[l - 2][8], mat[l - 3][8], mat[l - 4][8], mat[l - 5][8], mat[l - 6][8], mat[l - 7][8],
                mat[8][l - 8], mat[8][l - 7], mat[8][l - 6], mat[8][l - 5], mat[8][l - 4], mat[8][l - 3], mat[8][l - 2], mat[8][l - 1]
            ];
        assert_eq!(tmp.map(|x| x.value()), EXPECTED);

        #[rustfmt::skip]
        let tmp = [
                mat[8][0], mat[8][1], mat[8][2], mat[8][3], mat[8][4], mat[8][5], mat[8][7], mat[8][8],
                mat[7][8], mat[5][8], mat[4][8], mat[3][8], mat[2][8], mat[1][8], mat[0][8],
            ];
        assert_eq!(tmp.map(|x| x.value()), EXPECTED);
    }
}

#[test]
fn version_format_h_mask2() {
    const CONTENT: &str = "4";
    const MASK: Option<Mask> = Some(Mask::VerticalLines);
    const VERSION: Option<crate::version::Version> = Some(crate::version::Version::V04);
    const LEVEL: Option<crate::ecl::ECL> = Some(crate::ecl::ECL::H);

    let q = QRCode::new(CONTENT.as_bytes(), LEVEL, VERSION, None, MASK);
    if q.is_err() {
        assert_eq!(true, false, "Couldn't create QR");
    };
    let mat = q.unwrap();

    const EXPECTED: [bool; 15] = [
        false, false, true, true, true, false, false, true, true, true, false, false, true, true,
        true,
    ];

    {
        let l = mat.size;
        #[rustfmt::skip]
        let tmp = [
                mat[l - 1][8], mat[l - 2][8], mat[l - 3][8], mat[l - 4][8], mat[l - 5][8], mat[l - 6][8], mat[l - 7][8],
                mat[8][l - 8], mat[8][l - 7], mat[8][l - 6], mat[8][l - 5], mat[8][l - 4], mat[8][l - 3], mat[8][l - 2], mat[8][l - 1]
            ];
        assert_eq!(tmp.map(|x| x.value()), EXPECTED);

        #[rustfmt::skip]
        let tmp = [
                mat[8][0], mat[8][1], mat[8][2], mat[8][3], mat[8][4], mat[8][5], mat[8][7], mat[8][8],
                mat[7][8], mat[5][8], mat[4][8], mat[3][8], mat[2][8], mat[1][8], mat[0][8],
            ];
        assert_eq!(tmp.map(|x| x.value()), EXPECTED);
    }
}

#[test]
fn version_format_h_mask3() {
    const CONTENT: &str = "4";
    const MASK: Option<Mask> = Some(Mask::DiagonalLines);
    const VERSION: Option<crate::version::Version> = Some(crate::version::Version::V03);
    const LEVEL: Option<crate::ecl::ECL> = Some(crate::ecl::ECL::H);

    let q = QRCode::new(CONTENT.as_bytes(), LEVEL, VERSION, None, MASK);
    if q.is_err() {
        assert_eq!(true, false, "Couldn't create QR");
    };
    let mat = q.unwrap();

    const EXPECTED: [bool; 15] = [
        false, false, true, true, false, false, true, true, true, false, true, false, false, false,
        false,
    ];

    {
        let l = mat.size;
        #[rustfmt::skip]
        let tmp = [
                mat[l - 1][8], mat[l - 2][8], mat[l - 3][8], mat[l - 4][8], mat[l - 5][8], mat[l - 6][8], mat[l - 7][8],
                mat[8][l - 8], mat[8][l - 7], mat[8][l - 6], mat[8][l - 5], mat[8][l - 4], mat[8][l - 3], mat[8][l - 2], mat[8][l - 1]
            ];
        assert_eq!(tmp.map(|x| x.value()), EXPECTED);

        #[rustfmt::skip]
        let tmp = [
                mat[8][0], mat[8][1], mat[8][2], mat[8][3], mat[8][4], mat[8][5], mat[8][7], mat[8][8],
                mat[7][8], mat[5][8], mat[4][8], mat[3][8], mat[2][8], mat[1][8], mat[0][8],
            ];
        assert_eq!(tmp.map(|x| x.value()), EXPECTED);
    }
}

#[test]
fn version_format_h_mask4() {
    const CONTENT: &str = "4";
    const MASK: Option<Mask> = Some(Mask::LargeCheckerboard);
    const VERSION: Option<crate::version::Version> = Some(crate::version::Version::V02);
    const LEVEL: Option<crate::ecl::ECL> = Some(crate::ecl::ECL::H);

    let q = QRCode::new(CONTENT.as_bytes(), LEVEL, VERSION, None, MASK);
    if q.is_err() {
        assert_eq!(true, false, "Couldn't create QR");
    };
    let mat = q.unwrap();

    const EXPECTED: [bool; 15] = [
        false, false, false, false, true, true, true, false, true, true, false, false, false, true,
        false,
    ];

    {
        let l = mat.size;
        #[rustfmt::skip]
        let tmp = [
                mat[l - 1][8], mat[l - 2][8], mat[l - 3][8], mat[l - 4][8], mat[l - 5][8], mat[l - 6][8], mat[l - 7][8],
                mat[8][l - 8], mat[8][l - 7], mat[8][l - 6], mat[8][l - 5], mat[8][l - 4], mat[8][l - 3], mat[8][l - 2], mat[8][l - 1]
            ];
        assert_eq!(tmp.map(|x| x.value()), EXPECTED);

        #[rustfmt::skip]
        let tmp = [
                mat[8][0], mat[8][1], mat[8][2], mat[8][3], mat[8][4], mat[8][5], mat[8][7], mat[8][8],
                mat[7][8], mat[5][8], mat[4][8], mat[3][8], mat[2][8], mat[1][8], mat[0][8],
            ];
        assert_eq!(tmp.map(|x| x.value()), EXPECTED);
    }
}

#[test]
fn version_format_h_mask5() {
    const CONTENT: &str = "4";
    const MASK: Option<Mask> = Some(Mask::Fields);
    const VERSION: Option<crate::version::Version> = Some(crate::version::Version::V04);
    const LEVEL: Option<crate::ecl::ECL> = Some(crate::ecl::ECL::H);

    let q = QRCode::new(CONTENT.as_bytes(), LEVEL, VERSION, None, MASK);
    if q.is_err() {
        assert_eq!(true, false, "Couldn't create QR");
    };
    let mat = q.unwrap();

    const EXPECTED: [bool; 15] = [
        false, false, false, false, false, true, false, false, true, false, true, false, true,
        false, true,
    ];

    {
        let l = mat.size;
        #[rustfmt::skip]
        let tmp = [
                mat[l - 1][8], mat[l - 2][8], mat[l - 3][8], mat[l - 4][8], mat[l - 5][8], mat[l - 6][8], mat[l - 7][8],
                mat[8][l - 8], mat[8][l - 7], mat[8][l - 6], mat[8][l - 5], mat[8][l - 4], mat[8][l - 3], mat[8][l - 2], mat[8][l - 1]
            ];
        assert_eq!(tmp.map(|x| x.value()), EXPECTED);

        #[rustfmt::skip]
        let tmp = [
                mat[8][0], mat[8][1], mat[8][2], mat[8][3], mat[8][4], mat[8][5], mat[8][7], mat[8][8],
                mat[7][8], mat[5][8], mat[4][8], mat[3][8], mat[2][8], mat[1][8], mat[0][8],
            ];
        assert_eq!(tmp.map(|x| x.value()), EXPECTED);
    }
}

#[test]
fn version_format_h_mask6() {
    const CONTENT: &str = "4";
    const MASK: Option<Mask> = Some(Mask::Diamonds);
    const VERSION: Option<crate::version::Version> = Some(crate::version::Version::V02);
    const LEVEL: Option<crate::ecl::ECL> = Some(crate::ecl::ECL::H);

    let q = QRCode::new(CONTENT.as_bytes(), LEVEL, VERSION, None, MASK);
    if q.is_err() {
        assert_eq!(true, false, "Couldn't create QR");
    };
    let mat = q.unwrap();

    const EXPECTED: [bool; 15] = [
        false, false, false, true, true, false, true, false, false, false, false, true, true,
        false, false,
    ];

    {
        let l = mat.size;
        #[rustfmt::skip]
        let tmp = [
                mat[l - 1][8], mat[l - 2][8], mat[l - 3][8], mat[l - 4][8], mat[l - 5][8], mat[l - 6][8], mat[l - 7][8],
                mat[8][l - 8], mat[8][l - 7], mat[8][l - 6], mat[8][l - 5], mat[8][l - 4], mat[8][l - 3], mat[8][l - 2], mat[8][l - 1]
            ];
        assert_eq!(tmp.map(|x| x.value()), EXPECTED);

        #[rustfmt::skip]
        let tmp = [
                mat[8][0], mat[8][1], mat[8][2], mat[8][3], mat[8][4], mat[8][5], mat[8][7], mat[8][8],
                mat[7][8], mat[5][8], mat[4][8], mat[3][8], mat[2][8], mat[1][8], mat[0][8],
            ];
        assert_eq!(tmp.map(|x| x.value()), EXPECTED);
    }
}

#[test]
fn version_format_h_mask7() {
    const CONTENT: &str = "4";
    const MASK: Option<Mask> = Some(Mask::Meadow);
    const VERSION: Option<crate::version::Version> = Some(crate::version::Version::V01);
    const LEVEL: Option<crate::ecl::ECL> = Some(crate::ecl::ECL::H);

    let q = QRCode::new(CONTENT.as_bytes(), LEVEL, VERSION, None, MASK);
    if q.is_err() {
        assert_eq!(true, false, "Couldn't create QR");
    };
    let mat = q.unwrap();

    const EXPECTED: [bool; 15] = [
        false, false, false, true, false, false, false, false, false, true, true, true, false,
        true, true,
    ];

    {
        let l = mat.size;
        #[rustfmt::skip]
        let tmp = [
                mat[l - 1][8], mat[l - 2][8], mat[l - 3][8], mat[l - 4][8], mat[l - 5][8], mat[l - 6][8], mat[l - 7][8],
                mat[8][l - 8], mat[8][l - 7], mat[8][l - 6], mat[8][l - 5], mat[8][l - 4], mat[8][l - 3], mat[8][l - 2], mat[8][l - 1]
            ];
        assert_eq!(tmp.map(|x| x.value()), EXPECTED);

        #[rustfmt::skip]
        let tmp = [
                mat[8][0], mat[8][1], mat[8][2], mat[8][3], mat[8][4], mat[8][5], mat[8][7], mat[8][8],
                mat[7][8], mat[5][8], mat[4][8], mat[3][8], mat[2][8], mat[1][8], mat[0][8],
            ];
        assert_eq!(tmp.map(|x| x.value()), EXPECTED);
    }
}

#[test]
fn version_format_l_mask0_version23() {
    const CONTENT: &str = "4";
    const MASK: Option<Mask> = Some(Mask::Checkerboard);
    const VERSION: Option<crate::version::Version> = Some(crate::version::Version::V23);
    const LEVEL: Option<crate::ecl::ECL> = Some(crate::ecl::ECL::L);

    let q = QRCode::new(CONTENT.as_bytes(), LEVEL, VERSION, None, MASK);
    if q.is_err() {
        assert_eq!(true, false, "Couldn't create QR");
    };
    let mat = q.unwrap();

    const EXPECTED: [bool; 15] = [
        true, true, true, false, true, true, true, true, true, false, false, false, true, false,
        false,
    ];
    let mut expected2: [bool; 18] = [
        false, true, false, true, true, true, false, true, true, true, true, true, true, false,
        true, true, false, false,
    ];
    expected2.reverse();

    {
        let l = mat.size;
        #[rustfmt::skip]
        let tmp = [
                mat[l - 1][8], mat[l - 2][8], mat[l - 3][8], mat[l - 4][8], mat[l - 5][8], mat[l - 6][8], mat[l - 7][8],
                mat[8][l - 8], mat[8][l - 7], mat[8][l - 6], mat[8][l - 5], mat[8][l - 4], mat[8][l - 3], mat[8][l - 2], mat[8][l - 1]
            ];
        assert_eq!(tmp.map(|x| x.value()), EXPECTED);

        #[rustfmt::skip]
        let tmp = [
                mat[8][0], mat[8][1], mat[8][2], mat[8][3], mat[8][4], mat[8][5], mat[8][7], mat[8][8],
                mat[7][8], mat[5][8], mat[4][8], mat[3][8], mat[2][8], mat[1][8], mat[0][8],
            ];
        assert_eq!(tmp.map(|x| x.value()), EXPECTED);

        let tmp2 = [
            mat[l - 11][0],
            mat[l - 10][0],
            mat[l - 9][0],
            mat[l - 11][1],
            mat[l - 10][1],
            mat[l - 9][1],
            mat[l - 11][2],
            mat[l - 10][2],
            mat[l - 9][2],
            mat[l - 11][3],
            mat[l - 10][3],
            mat[l - 9][3],
            mat[l - 11][4],
            mat[l - 10][4],
            mat[l - 9][4],
            mat[l - 11][5],
            mat[l - 10][5],
            mat[l - 9][5],
        ];
        assert_eq!(tmp2.map(|x| x.value()), expected2);

        let tmp2 = [
            mat[0][l - 11],
            mat[0][l - 10],
            mat[0][l - 9],
            mat[1][l - 11],
            mat[1][l - 10],
            mat[1][l - 9],
            mat[2][l - 11],
            mat[2][l - 10],
            mat[2][l - 9],
            mat[3][l - 11],
            mat[3][l - 10],
            mat[3][l - 9],
            mat[4][l - 11],
            mat[4][l - 10],
            mat[4][l - 9],
            mat[5][l - 11],
            mat[5][l - 10],
            mat[5][l - 9],
        ];
        assert_eq!(tmp2.map(|x| x.value()), expected2);
    }
}

#[test]
fn version_format_l_mask1_version29() {
    const CONTENT: &str = "4";
    const MASK: Option<Mask> = Some(Mask::HorizontalLines);
    const VERSION: Option<crate::version::Version> = Some(crate::version::Version::V29);
    const LEVEL: Option<crate::ecl::ECL> = Some(crate::ecl::ECL::L);

    let q = QRCode::new(CONTENT.as_bytes(), LEVEL, VERSION, None, MASK);
    if q.is_err() {
        assert_eq!(true, false, "Couldn't create QR");
    };
    let mat = q.unwrap();

    const EXPECTED: [bool; 15] = [
        true, true, true, false, false, true, false, true, true, true, true, false, false, true,
        true,
    ];
    let mut expected2: [bool; 18] = [
        false, true, true, true, false, true, false, false, true, true, false, false, true, true,
        true, true, true, true,
    ];
    expected2.reverse();

    {
        let l = mat.size;
        #[rustfmt::skip]
        let tmp = [
                mat[l - 1][8], mat[l - 2][8], mat[l - 3][8], mat[l - 4][8], mat[l - 5][8], mat[l - 6][8], mat[l - 7][8],
                mat[8][l - 8], mat[8][l - 7], mat[8][l - 6], mat[8][l - 5], mat[8][l - 4], mat[8][l - 3], mat[8][l - 2], mat[8][l - 1]
            ];
        assert_eq!(tmp.map(|x| x.value()), EXPECTED);

        #[rustfmt::skip]
        let tmp = [
                mat[8][0], mat[8][1], mat[8][2], mat[8][3], mat[8][4], mat[8][5], mat[8][7], mat[8][8],
                mat[7][8], mat[5][8], mat[4][8], mat[3][8], mat[2][8], mat[1][8], mat[0][8],
            ];
        assert_eq!(tmp.map(|x| x.value()), EXPECTED);

        let tmp2 = [
            mat[l - 11][0],
            mat[l - 10][0],
            mat[l - 9][0],
            mat[l - 11][1],
            mat[l - 10][1],
            mat[l - 9][1],
            mat[l - 11][2],
            mat[l - 10][2],
            mat[l - 9][2],
            mat[l - 11][3],
            mat[l - 10][3],
            mat[l - 9][3],
            mat[l - 11][4],
            mat[l - 10][4],
            mat[l - 9][4],
            mat[l - 11][5],
            mat[l - 10][5],
            mat[l - 9][5],
        ];
        assert_eq!(tmp2.map(|x| x.value()), expected2);

        let tmp2 = [
            mat[0][l - 11],
            mat[0][l - 10],
            mat[0][l - 9],
            mat[1][l - 11],
            mat[1][l - 10],
            mat[1][l - 9],
            mat[2][l - 11],
            mat[2][l - 10],
            mat[2][l - 9],
            mat[3][l - 11],
            mat[3][l - 10],
            mat[3][l - 9],
            mat[4][l - 11],
            mat[4][l - 10],
            mat[4][l - 9],
            mat[5][l - 11],
            mat[5][l - 10],
            mat[5][l - 9],
        ];
        assert_eq!(tmp2.map(|x| x.value()), expected2);
    }
}

#[test]
fn version_format_l_mask2_version40() {
    const CONTENT: &str = "4";
    const MASK: Option<Mask> = Some(Mask::VerticalLines);
    const VERSION: Option<crate::version::Version> = Some(crate::version::Version::V40);
    const LEVEL: Option<crate::ecl::ECL> = Some(crate::ecl::ECL::L);

    let q = QRCode::new(CONTENT.as_bytes(), LEVEL, VERSION, None, MASK);
    if q.is_err() {
        assert_eq!(true, false, "Couldn't create QR");
    };
    let mat = q.unwrap();

    const EXPECTED: [bool; 15] = [
        true, true, true, true, true, false, true, true, false, true, false, true, false, true,
        false,
    ];
    let mut expected2: [bool; 18] = [
        true, false, true, false, false, false, true, true, false, false, false, true, true, false,
        true, false, false, true,
    ];
    expected2.reverse();

    {
        let l = mat.size;
        #[rustfmt::skip]
        let tmp = [
                mat[l - 1][8], mat[l - 2][8], mat[l - 3][8], mat[l - 4][8], mat[l - 5][8], mat[l - 6][8], mat[l - 7][8],
                mat[8][l - 8], mat[8][l - 7], mat[8][l - 6], mat[8][l - 5], mat[8][l - 4], mat[8][l - 3], mat[8][l - 2], mat[8][l - 1]
            ];
        assert_eq!(tmp.map(|x| x.value()), EXPECTED);

        #[rustfmt::skip]
        let tmp = [
                mat[8][0], mat[8][1], mat[8][2], mat[8][3], mat[8][4], mat[8][5], mat[8][7], mat[8][8],
                mat[7][8], mat[5][8], mat[4][8], mat[3][8], mat[2][8], mat[1][8], mat[0][8],
            ];
        assert_eq!(tmp.map(|x| x.value()), EXPECTED);

        let tmp2 = [
            mat[l - 11][0],
            mat[l - 10][0],
            mat[l - 9][0],
            mat[l - 11][1],
            mat[l - 10][1],
            mat[l - 9][1],
            mat[l - 11][2],
            mat[l - 10][2],
            mat[l - 9][2],
            mat[l - 11][3],
            mat[l - 10][3],
            mat[l - 9][3],
            mat[l - 11][4],
            mat[l - 10][4],
            mat[l - 9][4],
            mat[l - 11][5],
            mat[l - 10][5],
            mat[l - 9][5],
        ];
        assert_eq!(tmp2.map(|x| x.value()), expected2);

        let tmp2 = [
            mat[0][l - 11],
            mat[0][l - 10],
            mat[0][l - 9],
            mat[1][l - 11],
            mat[1][l - 10],
            mat[1][l - 9],
            mat[2][l - 11],
            mat[2][l - 10],
            mat[2][l - 9],
            mat[3][l - 11],
            mat[3][l - 10],
            mat[3][l - 9],
            mat[4][l - 11],
            mat[4][l - 10],
            mat[4][l - 9],
            mat[5][l - 11],
            mat[5][l - 10],
            mat[5][l - 9],
        ];
        assert_eq!(tmp2.map(|x| x.value()), expected2);
    }
}

#[test]
fn version_format_l_mask3_version8() {
    const CONTENT: &str = "4";
    const MASK: Option<Mask> = Some(Mask::DiagonalLines);
    const VERSION: Option<crate::version::Version> = Some(crate::version::Version::V08);
    const LEVEL: Option<crate::ecl::ECL> = Some(crate::ecl::ECL::L);

    let q = QRCode::new(CONTENT.as_bytes(), LEVEL, VERSION, None, MASK);
    if q.is_err() {
        assert_eq!(true, false, "Couldn't create QR");
    };
    let mat = q.unwrap();

    const EXPECTED: [bool; 15] = [
        true, true, true, true, false, false, false, true, false, false, true, true, true, false,
        true,
    ];
    let mut expected2: [bool; 18] = [
        false, false, true, false, false, false, false, true, false, true, true, false, true, true,
        true, true, false, false,
    ];
    expected2.reverse();

    {
        let l = mat.size;
        #[rustfmt::skip]
        let tmp = [
                mat[l - 1][8], mat[l - 2][8], mat[l - 3][8], mat[l - 4][8], mat[l - 5][8], mat[l - 6][8], mat[l - 7][8],
                mat[8][l - 8], mat[8][l - 7], mat[8][l - 6], mat[8][l - 5], mat[8][l - 4], mat[8][l - 3], mat[8][l - 2], mat[8][l - 1]
            ];
        assert_eq!(tmp.map(|x| x.value()), EXPECTED);

        #[rustfmt::skip]
        let tmp = [
                mat[8][0], mat[8][1], mat[8][2], mat[8][3], mat[8][4], mat[8][5], mat[8][7], mat[8][8],
                mat[7][8], mat[5][8], mat[4][8], mat[3][8], mat[2][8], mat[1][8], mat[0][8],
            ];
        assert_eq!(tmp.map(|x| x.value()), EXPECTED);

        let tmp2 = [
            mat[l - 11][0],
            mat[l - 10][0],
            mat[l - 9][0],
            mat[l - 11][1],
            mat[l - 10][1],
            mat[l - 9][1],
            mat[l - 11][2],
            mat[l - 10][2],
            mat[l - 9][2],
            mat[l - 11][3],
            mat[l - 10][3],
            mat[l - 9][3],
            mat[l - 11][4],
            mat[l - 10][4],
            mat[l - 9][4],
            mat[l - 11][5],
            mat[l - 10][5],
            mat[l - 9][5],
        ];
        assert_eq!(tmp2.map(|x| x.value()), expected2);

        let tmp2 = [
            mat[0][l - 11],
            mat[0][l - 10],
            mat[0][l - 9],
            mat[1][l - 11],
            mat[1][l - 10],
            mat[1][l - 9],
            mat[2][l - 11],
            mat[2][l - 10],
            mat[2][l - 9],
            mat[3][l - 11],
            mat[3][l - 10],
            mat[3][l - 9],
            mat[4][l - 11],
            mat[4][l - 10],
            mat[4][l - 9],
            mat[5][l - 11],
            mat[5][l - 10],
            mat[5][l - 9],
        ];
        assert_eq!(tmp2.map(|x| x.value()), expected2);
    }
}

#[test]
fn version_format_l_mask4_version36() {
    const CONTENT: &str = "4";
    const MASK: Option<Mask> = Some(Mask::LargeCheckerboard);
    const VERSION: Option<crate::version::Version> = Some(crate::version::Version::V36);
    const LEVEL: Option<crate::ecl::ECL> = Some(crate::ecl::ECL::L);

    let q = QRCode::new(CONTENT.as_bytes(), LEVEL, VERSION, None, MASK);
    if q.is_err() {
        assert_eq!(true, false, "Couldn't create QR");
    };
    let mat = q.unwrap();

    const EXPECTED: [bool; 15] = [
        true, true, false, false, true, true, false, false, false, true, false, true, true, true,
        true,
    ];
    let mut expected2: [bool; 18] = [
        true, false, false, true, false, false, true, false, true, true, false, false, false,
        false, true, false, true, true,
    ];
    expected2.reverse();

    {
        let l = mat.size;
        #[rustfmt::skip]
        let tmp = [
                mat[l - 1][8], mat[l - 2][8], mat[l - 3][8], mat[l - 4][8], mat[l - 5][8], mat[l - 6][8], mat[l - 7][8],
                mat[8][l - 8], mat[8][l - 7], mat[8][l - 6], mat[8][l - 5], mat[8][l - 4], mat[8][l - 3], mat[8][l - 2], mat[8][l - 1]
            ];
        assert_eq!(tmp.map(|x| x.value()), EXPECTED);

        #[rustfmt::skip]
        let tmp = [
                mat[8][0], mat[8][1], mat[8][2], mat[8][3], mat[8][4], mat[8][5], mat[8][7], mat[8][8],
                mat[7][8], mat[5][8], mat[4][8], mat[3][8], mat[2][8], mat[1][8], mat[0][8],
            ];
        assert_eq!(tmp.map(|x| x.value()), EXPECTED);

        let tmp2 = [
            mat[l - 11][0],
            mat[l - 10][0],
            mat[l - 9][0],
            mat[l - 11][1],
            mat[l - 10][1],
            mat[l - 9][1],
            mat[l - 11][2],
            mat[l - 10][2],
            mat[l - 9][2],
            mat[l - 11][3],
            mat[l - 10][3],
            mat[l - 9][3],
            mat[l - 11][4],
            mat[l - 10][4],
            mat[l - 9][4],
            mat[l - 11][5],
            mat[l - 10][5],
            mat[l - 9][5],
        ];
        assert_eq!(tmp2.map(|x| x.value()), expected2);

        let tmp2 = [
            mat[0][l - 11],
            mat[0][l - 10],
            mat[0][l - 9],
            mat[1][l - 11],
            mat[1][l - 10],
            mat[1][l - 9],
            mat[2][l - 11],
            mat[2][l - 10],
            mat[2][l - 9],
            mat[3][l - 11],
            mat[3][l - 10],
            mat[3][l - 9],
            mat[4][l - 11],
            mat[4][l - 10],
            mat[4][l - 9],
            mat[5][l - 11],
            mat[5][l - 10],
            mat[5][l - 9],
        ];
        assert_eq!(tmp2.map(|x| x.value()), expected2);
    }
}

#[test]
fn version_format_l_mask5_version22() {
    const CONTENT: &str = "4";
    const MASK: Option<Mask> = Some(Mask::Fields);
    const VERSION: Option<crate::version::Version> = Some(crate::version::Version::V22);
    const LEVEL: Option<crate::ecl::ECL> = Some(crate::ecl::ECL::L);

    let q = QRCode::new(CONTENT.as_bytes(), LEVEL, VERSION, None, MASK);
    if q.is_err() {
        assert_eq!(true, false, "Couldn't create QR");
    };
    let mat = q.unwrap();

    const EXPECTED: [bool; 15] = [
        true, true, false, false, false, true, true, false, false, false, true, true, false, false,
        false,
    ];
    let mut expected2: [bool; 18] = [
        false, true, false, true, true, false, true, false, false, false, true, true, false, false,
        true, false, false, true,
    ];
    expected2.reverse();

    {
        let l = mat.size;
        #[rustfmt::skip]
        let tmp = [
                mat[l - 1][8], mat[l - 2][8], mat[l - 3][8], mat[l - 4][8], mat[l - 5][8], mat[l - 6][8], mat[l - 7][8],
                mat[8][l - 8], mat[8][l - 7], mat[8][l - 6], mat[8][l - 5], mat[8][l - 4], mat[8][l - 3], mat[8][l - 2], mat[8][l - 1]
            ];
        assert_eq!(tmp.map(|x| x.value()), EXPECTED);

        #[rustfmt::skip]
        let tmp = [
                mat[8][0], mat[8][1], mat[8][2], mat[8][3], mat[8][4], mat[8][5], mat[8][7], mat[8][8],
                mat[7][8], mat[5][8], mat[4][8], mat[3][8], mat[2][8], mat[1][8], mat[0][8],
            ];
        assert_eq!(tmp.map(|x| x.value()), EXPECTED);

        let tmp2 = [
            mat[l - 11][0],
            mat[l - 10][0],
            mat[l - 9][0],
            mat[l - 11][1],
            mat[l - 10][1],
            mat[l - 9][1],
            mat[l - 11][2],
            mat[l - 10][2],
            mat[l - 9][2],
            mat[l - 11][3],
            mat[l - 10][3],
            mat[l - 9][3],
            mat[l - 11][4],
            mat[l - 10][4],
            mat[l - 9][4],
            mat[l - 11][5],
            mat[l - 10][5],
            mat[l - 9][5],
        ];
        assert_eq!(tmp2.map(|x| x.value()), expected2);

        let tmp2 = [
            mat[0][l - 11],
            mat[0][l - 10],
            mat[0][l - 9],
            mat[1][l - 11],
            mat[1][l - 10],
            mat[1][l - 9],
            mat[2][l - 11],
            mat[2][l - 10],
            mat[2][l - 9],
            mat[3][l - 11],
            mat[3][l - 10],
            mat[3][l - 9],
            mat[4][l - 11],
            mat[4][l - 10],
            mat[4][l - 9],
            mat[5][l - 11],
            mat[5][l - 10],
            mat[5][l - 9],
        ];
        assert_eq!(tmp2.map(|x| x.value()), expected2);
    }
}

#[test]
fn version_format_l_mask6_version10() {
    const CONTENT: &str = "4";
    const MASK: Option<Mask> = Some(Mask::Diamonds);
    const VERSION: Option<crate::version::Version> = Some(crate::version::Version::V10);
    const LEVEL: Option<crate::ecl::ECL> = Some(crate::ecl::ECL::L);

    let q = QRCode::new(CONTENT.as_bytes(), LEVEL, VERSION, None, MASK);
    if q.is_err() {
        assert_eq!(true, false, "Couldn't create QR");
    };
    let mat = q.unwrap();

    const EXPECTED: [bool; 15] = [
        true, true, false, true, true, false, false, false, true, false, false, false, false,
        false, true,
    ];
    let mut expected2: [bool; 18] = [
        false, false, true, false, true, false, false, true, false, false, true, true, false, true,
        false, false, true, true,
    ];
    expected2.reverse();

    {
        let l = mat.size;
        #[rustfmt::skip]
        let tmp = [
                mat[l - 1][8], mat[l - 2][8], mat[l - 3][8], mat[l - 4][8], mat[l - 5][8], mat[l - 6][8], mat[l - 7][8],
                mat[8][l - 8], mat[8][l - 7], mat[8][l - 6], mat[8][l - 5], mat[8][l - 4], mat[8][l - 3], mat[8][l - 2], mat[8][l - 1]
            ];
        assert_eq!(tmp.map(|x| x.value()), EXPECTED);

        #[rustfmt::skip]
        let tmp = [
                mat[8][0], mat[8][1], mat[8][2], mat[8][3], mat[8][4], mat[8][5], mat[8][7], mat[8][8],
                mat[7][8], mat[5][8], mat[4][8], mat[3][8], mat[2][8], mat[1][8], mat[0][8],
            ];
        assert_eq!(tmp.map(|x| x.value()), EXPECTED);

        let tmp2 = [
            mat[l - 11][0],
            mat[l - 10][0],
            mat[l - 9][0],
            mat[l - 11][1],
            mat[l - 10][1],
            mat[l - 9][1],
            mat[l - 11][2],
            mat[l - 10][2],
            mat[l - 9][2],
            mat[l - 11][3],
            mat[l - 10][3],
            mat[l - 9][3],
            mat[l - 11][4],
            mat[l - 10][4],
            mat[l - 9][4],
            mat[l - 11][5],
            mat[l - 10][5],
            mat[l - 9][5],
        ];
        assert_eq!(tmp2.map(|x| x.value()), expected2);

        let tmp2 = [
            mat[0][l - 11],
            mat[0][l - 10],
            mat[0][l - 9],
            mat[1][l - 11],
            mat[1][l - 10],
            mat[1][l - 9],
            mat[2][l - 11],
            mat[2][l - 10],
            mat[2][l - 9],
            mat[3][l - 11],
            mat[3][l - 10],
            mat[3][l - 9],
            mat[4][l - 11],
            mat[4][l - 10],
            mat[4][l - 9],
            mat[5][l - 11],
            mat[5][l - 10],
            mat[5][l - 9],
        ];
        assert_eq!(tmp2.map(|x| x.value()), expected2);
    }
}

#[test]
fn version_format_l_mask7_version17() {
    const CONTENT: &str = "4";
    const MASK: Option<Mask> = Some(Mask::Meadow);
    const VERSION: Option<crate::version::Version> = Some(crate::version::Version::V17);
    const LEVEL: Option<crate::ecl::ECL> = Some(crate::ecl::ECL::L);

    let q = QRCode::new(CONTENT.as_bytes(), LEVEL, VERSION, None, MASK);
    if q.is_err() {
        assert_eq!(true, false, "Couldn't create QR");
    };
    let mat = q.unwrap();

    const EXPECTED: [bool; 15] = [
        true, true, false, true, false, false, true, false, true, true, true, false, true, true,
        false,
    ];
    let mut expected2: [bool; 18] = [
        false, true, false, false, false, true, false, true, false, false, false, true, false,
        true, true, true, false, true,
    ];
    expected2.reverse();

    {
        let l = mat.size;
        #[rustfmt::skip]
        let tmp = [
                mat[l - 1][8], mat[l - 2][8], mat[l - 3][8], mat[l - 4][8], mat[l - 5][8], mat[l - 6][8], mat[l - 7][8],
                mat[8][l - 8], mat[8][l - 7], mat[8][l - 6], mat[8][l - 5], mat[8][l - 4], mat[8][l - 3], mat[8][l - 2], mat[8][l - 1]
            ];
        assert_eq!(tmp.map(|x| x.value()), EXPECTED);

        #[rustfmt::skip]
        let tmp = [
                mat[8][0], mat[8][1], mat[8][2], mat[8][3], mat[8][4], mat[8][5], mat[8][7], mat[8][8],
                mat[7][8], mat[5][8], mat[4][8], mat[3][8], mat[2][8], mat[1][8], mat[0][8],
            ];
        assert_eq!(tmp.map(|x| x.value()), EXPECTED);

        let tmp2 = [
            mat[l - 11][0],
            mat[l - 10][0],
            mat[l - 9][0],
            mat[l - 11][1],
            mat[l - 10][1],
            mat[l - 9][1],
            mat[l - 11][2],
            mat[l - 10][2],
            mat[l - 9][2],
            mat[l - 11][3],
            mat[l - 10][3],
            mat[l - 9][3],
            mat[l - 11][4],
            mat[l - 10][4],
            mat[l - 9][4],
            mat[l - 11][5],
            mat[l - 10][5],
            mat[l - 9][5],
        ];
        assert_eq!(tmp2.map(|x| x.value()), expected2);

        let tmp2 = [
            mat[0][l - 11],
            mat[0][l - 10],
            mat[0][l - 9],
            mat[1][l - 11],
            mat[1][l - 10],
            mat[1][l - 9],
            mat[2][l - 11],
            mat[2][l - 10],
            mat[2][l - 9],
            mat[3][l - 11],
            mat[3][l - 10],
            mat[3][l - 9],
            mat[4][l - 11],
            mat[4][l - 10],
            mat[4][l - 9],
            mat[5][l - 11],
            mat[5][l - 10],
            mat[5][l - 9],
        ];
        assert_eq!(tmp2.map(|x| x.value()), expected2);
    }
}

#[test]
fn version_format_m_mask0_version14() {
    const CONTENT: &str = "4";
    const MASK: Option<Mask> = Some(Mask::Checkerboard);
    const VERSION: Option<crate::version::Version> = Some(crate::version::Version::V14);
    const LEVEL: Option<crate::ecl::ECL> = Some(crate::ecl::ECL::M);

    let q = QRCode::new(CONTENT.as_bytes(), LEVEL, VERSION, None, MASK);
    if q.is_err() {
        assert_eq!(true, false, "Couldn't create QR");
    };
    let mat = q.unwrap();

    const EXPECTED: [bool; 15] = [
        true, false, true, false, true, false, false, false, false, false, true, false, false,
        true, false,
    ];
    let mut expected2: [bool; 18] = [
        false, false, true, true, true, false, false, true, true, false, false, false, false,
        false, true, true, false, true,
    ];
    expected2.reverse();

    {
        let l = mat.size;
        #[rustfmt::skip]
        let tmp = [
                mat[l - 1][8], mat[l - 2][8], mat[l - 3][8], mat[l - 4][8], mat[l - 5][8], mat[l - 6][8], mat[l - 7][8],
                mat[8][l - 8], mat[8][l - 7], mat[8][l - 6], mat[8][l - 5], mat[8][l - 4], mat[8][l - 3], mat[8][l - 2], mat[8][l - 1]
            ];
        assert_eq!(tmp.map(|x| x.value()), EXPECTED);

        #[rustfmt::skip]
        let tmp = [
                mat[8][0], mat[8][1], mat[8][2], mat[8][3], mat[8][4], mat[8][5], mat[8][7], mat[8][8],
                mat[7][8], mat[5][8], mat[4][8], mat[3][8], mat[2][8], mat[1][8], mat[0][8],
            ];
        assert_eq!(tmp.map(|x| x.value()), EXPECTED);

        let tmp2 = [
            mat[l - 11][0],
            mat[l - 10][0],
            mat[l - 9][0],
            mat[l - 11][1],
            mat[l - 10][1],
            mat[l - 9][1],
            mat[l - 11][2],
            mat[l - 10][2],
            mat[l - 9][2],
            mat[l - 11][3],
            mat[l - 10][3],
            mat[l - 9][3],
            mat[l - 11][4],
            mat[l - 10][4],
            mat[l - 9][4],
            mat[l - 11][5],
            mat[l - 10][5],
            mat[l - 9][5],
        ];
        assert_eq!(tmp2.map(|x| x.value()), expected2);

        let tmp2 = [
            mat[0][l - 11],
            mat[0][l - 10],
            mat[0][l - 9],
            mat[1][l - 11],
            mat[1][l - 10],
            mat[1][l - 9],
            mat[2][l - 11],
            mat[2][l - 10],
            mat[2][l - 9],
            mat[3][l - 11],
            mat[3][l - 10],
            mat[3][l - 9],
            mat[4][l - 11],
            mat[4][l - 10],
            mat[4][l - 9],
            mat[5][l - 11],
            mat[5][l - 10],
            mat[5][l - 9],
        ];
        assert_eq!(tmp2.map(|x| x.value()), expected2);
    }
}

#[test]
fn version_format_m_mask1_version30() {
    const CONTENT: &str = "4";
    const MASK: Option<Mask> = Some(Mask::HorizontalLines);
    const VERSION: Option<crate::version::Version> = Some(crate::version::Version::V30);
    const LEVEL: Option<crate::ecl::ECL> = Some(crate::ecl::ECL::M);

    let q = QRCode::new(CONTENT.as_bytes(), LEVEL, VERSION, None, MASK);
    if q.is_err() {
        assert_eq!(true, false, "Couldn't create QR");
    };
    let mat = q.unwrap();

    const EXPECTED: [bool; 15] = [
        true, false, true, false, false, false, true, false, false, true, false, false, true,
        false, true,
    ];
    let mut expected2: [bool; 18] = [
        false, true, true, true, true, false, true, true, false, true, false, true, true, true,
        false, true, false, true,
    ];
    expected2.reverse();

    {
        let l = mat.size;
        #[rustfmt::skip]
        let tmp = [
                mat[l - 1][8], mat[l - 2][8], mat[l - 3][8], mat[l - 4][8], mat[l - 5][8], mat[l - 6][8], mat[l - 7][8],
                mat[8][l - 8], mat[8][l - 7], mat[8][l - 6], mat[8][l - 5], mat[8][l - 4], mat[8][l - 3], mat[8][l - 2], mat[8][l - 1]
            ];
        assert_eq!(tmp.map(|x| x.value()), EXPECTED);

        #[rustfmt::skip]
        let tmp = [
                mat[8][0], mat[8][1], mat[8][2], mat[8][3], mat[8][4], mat[8][5], mat[8][7], mat[8][8],
                mat[7][8], mat[5][8], mat[4][8], mat[3][8], mat[2][8], mat[1][8], mat[0][8],
            ];
        assert_eq!(tmp.map(|x| x.value()), EXPECTED);

        let tmp2 = [
            mat[l - 11][0],
            mat[l - 10][0],
            mat[l - 9][0],
            mat[l - 11][1],
            mat[l - 10][1],
            mat[l - 9][1],
            mat[l - 11][2],
            mat[l - 10][2],
            mat[l - 9][2],
            mat[l - 11][3],
            mat[l - 10][3],
            mat[l - 9][3],
            mat[l - 11][4],
            mat[l - 10][4],
            mat[l - 9][4],
            mat[l - 11][5],
            mat[l - 10][5],
            mat[l - 9][5],
        ];
        assert_eq!(tmp2.map(|x| x.value()), expected2);

        let tmp2 = [
            mat[0][l - 11],
            mat[0][l - 10],
            mat[0][l - 9],
            mat[1][l - 11],
            mat[1][l - 10],
            mat[1][l - 9],
            mat[2][l - 11],
            mat[2][l - 10],
            mat[2][l - 9],
            mat[3][l - 11],
            mat[3][l - 10],
            mat[3][l - 9],
            mat[4][l - 11],
            mat[4][l - 10],
            mat[4][l - 9],
            mat[5][l - 11],
            mat[5][l - 10],
            mat[5][l - 9],
        ];
        assert_eq!(tmp2.map(|x| x.value()), expected2);
    }
}

#[test]
fn version_format_m_mask2_version37() {
    const CONTENT: &str = "4";
    const MASK: Option<Mask> = Some(Mask::VerticalLines);
    const VERSION: Option<crate::version::Version> = Some(crate::version::Version::V37);
    const LEVEL: Option<crate::ecl::ECL> = Some(crate::ecl::ECL::M);

    let q = QRCode::new(CONTENT.as_bytes(), LEVEL, VERSION, None, MASK);
    if q.is_err() {
        assert_eq!(true, false, "Couldn't create QR");
    };
    let mat = q.unwrap();

    const EXPECTED: [bool; 15] = [
        true, false, true, true, true, true, false, false, true, true, true, true, true, false,
        false,
    ];
    let mut expected2: [bool; 18] = [
        true, false, false, true, false, true, false, true, false, false, false, false, true,
        false, true, true, true, false,
    ];
    expected2.reverse();

    {
        let l = mat.size;
        #[rustfmt::skip]
        let tmp = [
                mat[l - 1][8], mat[l - 2][8], mat[l - 3][8], mat[l - 4][8], mat[l - 5][8], mat[l - 6][8], mat[l - 7][8],
                mat[8][l - 8], mat[8][l - 7], mat[8][l - 6], mat[8][l - 5], mat[8][l - 4], mat[8][l - 3], mat[8][l - 2], mat[8][l - 1]
            ];
        assert_eq!(tmp.map(|x| x.value()), EXPECTED);

        #[rustfmt::skip]
        let tmp = [
                mat[8][0], mat[8][1], mat[8][2], mat[8][3], mat[8][4], mat[8][5], mat[8][7], mat[8][8],
                mat[7][8], mat[5][8], mat[4][8], mat[3][8], mat[2][8], mat[1][8], mat[0][8],
            ];
        assert_eq!(tmp.map(|x| x.value()), EXPECTED);

        let tmp2 = [
            mat[l - 11][0],
            mat[l - 10][0],
            mat[l - 9][0],
            mat[l - 11][1],
            mat[l - 10][1],
            mat[l - 9][1],
            mat[l - 11][2],
            mat[l - 10][2],
            mat[l - 9][2],
            mat[l - 11][3],
            mat[l - 10][3],
            mat[l - 9][3],
            mat[l - 11][4],
            mat[l - 10][4],
            mat[l - 9][4],
            mat[l - 11][5],
            mat[l - 10][5],
            mat[l - 9][5],
        ];
        assert_eq!(tmp2.map(|x| x.value()), expected2);

        let tmp2 = [
            mat[0][l - 11],
            mat[0][l - 10],
            mat[0][l - 9],
            mat[1][l - 11],
            mat[1][l - 10],
            mat[1][l - 9],
            mat[2][l - 11],
            mat[2][l - 10],
            mat[2][l - 9],
            mat[3][l - 11],
            mat[3][l - 10],
            mat[3][l - 9],
            mat[4][l - 11],
            mat[4][l - 10],
            mat[4][l - 9],
            mat[5][l - 11],
            mat[5][l - 10],
            mat[5][l - 9],
        ];
        assert_eq!(tmp2.map(|x| x.value()), expected2);
    }
}

#[test]
fn version_format_m_mask3_version22() {
    const CONTENT: &str = "4";
    const MASK: Option<Mask> = Some(Mask::DiagonalLines);
    const VERSION: Option<crate::version::Version> = Some(crate::version::Version::V22);
    const LEVEL: Option<crate::ecl::ECL> = Some(crate::ecl::ECL::M);

    let q = QRCode::new(CONTENT.as_bytes(), LEVEL, VERSION, None, MASK);
    if q.is_err() {
        assert_eq!(true, false, "Couldn't create QR");
    };
    let mat = q.unwrap();

    const EXPECTED: [bool; 15] = [
        true, false, true, true, false, true, true, false, true, false, false, true, false, true,
        true,
    ];
    let mut expected2: [bool; 18] = [
        false, true, false, true, true, false, true, false, false, false, true, true, false, false,
        true, false, false, true,
    ];
    expected2.reverse();

    {
        let l = mat.size;
        #[rustfmt::skip]
        let tmp = [
                mat[l - 1][8], mat[l - 2][8], mat[l - 3][8], mat[l - 4][8], mat[l - 5][8], mat[l - 6][8], mat[l - 7][8],
                mat[8][l - 8], mat[8][l - 7], mat[8][l - 6], mat[8][l - 5], mat[8][l - 4], mat[8][l - 3], mat[8][l - 2], mat[8][l - 1]
            ];
        assert_eq!(tmp.map(|x| x.value()), EXPECTED);

        #[rustfmt::skip]
        let tmp = [
                mat[8][0], mat[8][1], mat[8][2], mat[8][3], mat[8][4], mat[8][5], mat[8][7], mat[8][8],
                mat[7][8], mat[5][8], mat[4][8], mat[3][8], mat[2][8], mat[1][8], mat[0][8],
            ];
        assert_eq!(tmp.map(|x| x.value()), EXPECTED);

        let tmp2 = [
            mat[l - 11][0],
            mat[l - 10][0],
            mat[l - 9][0],
            mat[l - 11][1],
            mat[l - 10][1],
            mat[l - 9][1],
            mat[l - 11][2],
            mat[l - 10][2],
            mat[l - 9][2],
            mat[l - 11][3],
            mat[l - 10][3],
            mat[l - 9][3],
            mat[l - 11][4],
            mat[l - 10][4],
            mat[l - 9][4],
            mat[l - 11][5],
            mat[l - 10][5],
            mat[l - 9][5],
        ];
        assert_eq!(tmp2.map(|x| x.value()), expected2);

        let tmp2 = [
            mat[0][l - 11],
            mat[0][l - 10],
            mat[0][l - 9],
            mat[1][l - 11],
            mat[1][l - 10],
            mat[1][l - 9],
            mat[2][l - 11],
            mat[2][l - 10],
            mat[2][l - 9],
            mat[3][l - 11],
            mat[3][l - 10],
            mat[3][l - 9],
            mat[4][l - 11],
            mat[4][l - 10],
            mat[4][l - 9],
            mat[5][l - 11],
            mat[5][l - 10],
            mat[5][l - 9],
        ];
        assert_eq!(tmp2.map(|x| x.value()), expected2);
    }
}

#[test]
fn version_format_m_mask4_version31() {
    const CONTENT: &str = "4";
    const MASK: Option<Mask> = Some(Mask::LargeCheckerboard);
    const VERSION: Option<crate::version::Version> = Some(crate::version::Version::V31);
    const LEVEL: Option<crate::ecl::ECL> = Some(crate::ecl::ECL::M);

    let q = QRCode::new(CONTENT.as_bytes(), LEVEL, VERSION, None, MASK);
    if q.is_err() {
        assert_eq!(true, false, "Couldn't create QR");
    };
    let mat = q.unwrap();

    const EXPECTED: [bool; 15] = [
        true, false, false, false, true, false, true, true, true, true, true, true, false, false,
        true,
    ];
    let mut expected2: [bool; 18] = [
        false, true, true, true, true, true, false, false, true, false, false, true, false, true,
        false, false, false, false,
    ];
    expected2.reverse();

    {
        let l = mat.size;
        #[rustfmt::skip]
        let tmp = [
                mat[l - 1][8], mat[l - 2][8], mat[l - 3][8], mat[l - 4][8], mat[l - 5][8], mat[l - 6][8], mat[l - 7][8],
                mat[8][l - 8], mat[8][l - 7], mat[8][l - 6], mat[8][l - 5], mat[8][l - 4], mat[8][l - 3], mat[8][l - 2], mat[8][l - 1]
            ];
        assert_eq!(tmp.map(|x| x.value()), EXPECTED);

        #[rustfmt::skip]
        let tmp = [
                mat[8][0], mat[8][1], mat[8][2], mat[8][3], mat[8][4], mat[8][5], mat[8][7], mat[8][8],
                mat[7][8], mat[5][8], mat[4][8], mat[3][8], mat[2][8], mat[1][8], mat[0][8],
            ];
        assert_eq!(tmp.map(|x| x.value()), EXPECTED);

        let tmp2 = [
            mat[l - 11][0],
            mat[l - 10][0],
            mat[l - 9][0],
            mat[l - 11][1],
            mat[l - 10][1],
            mat[l - 9][1],
            mat[l - 11][2],
            mat[l - 10][2],
            mat[l - 9][2],
            mat[l - 11][3],
            mat[l - 10][3],
            mat[l - 9][3],
            mat[l - 11][4],
            mat[l - 10][4],
            mat[l - 9][4],
            mat[l - 11][5],
            mat[l - 10][5],
            mat[l - 9][5],
        ];
        assert_eq!(tmp2.map(|x| x.value()), expected2);

        let tmp2 = [
            mat[0][l - 11],
            mat[0][l - 10],
            mat[0][l - 9],
            mat[1][l - 11],
            mat[1][l - 10],
            mat[1][l - 9],
            mat[2][l - 11],
            mat[2][l - 10],
            mat[2][l - 9],
            mat[3][l - 11],
            mat[3][l - 10],
            mat[3][l - 9],
            mat[4][l - 11],
            mat[4][l - 10],
            mat[4][l - 9],
            mat[5][l - 11],
            mat[5][l - 10],
            mat[5][l - 9],
        ];
        assert_eq!(tmp2.map(|x| x.value()), expected2);
    }
}

#[test]
fn version_format_m_mask5_version13() {
    const CONTENT: &str = "4";
    const MASK: Option<Mask> = Some(Mask::Fields);
    const VERSION: Option<crate::version::Version> = Some(crate::version::Version::V13);
    const LEVEL: Option<crate::ecl::ECL> = Some(crate::ecl::ECL::M);

    let q = QRCode::new(CONTENT.as_bytes(), LEVEL, VERSION, None, MASK);
    if q.is_err() {
        assert_eq!(true, false, "Couldn't create QR");
    };
    let mat = q.unwrap();

    const EXPECTED: [bool; 15] = [
        true, false, false, false, false, false, false, true, true, false, false, true, true, true,
        false,
    ];
    let mut expected2: [bool; 18] = [
        false, false, true, true, false, true, true, false, false, false, false, true, false,
        false, false, true, true, true,
    ];
    expected2.reverse();

    {
        let l = mat.size;
        #[rustfmt::skip]
        let tmp = [
                mat[l - 1][8], mat[l - 2][8], mat[l - 3][8], mat[l - 4][8], mat[l - 5][8], mat[l - 6][8], mat[l - 7][8],
                mat[8][l - 8], mat[8][l - 7], mat[8][l - 6], mat[8][l - 5], mat[8][l - 4], mat[8][l - 3], mat[8][l - 2], mat[8][l - 1]
            ];
        assert_eq!(tmp.map(|x| x.value()), EXPECTED);

        #[rustfmt::skip]
        let tmp = [
                mat[8][0], mat[8][1], mat[8][2], mat[8][3], mat[8][4], mat[8][5], mat[8][7], mat[8][8],
                mat[7][8], mat[5][8], mat[4][8], mat[3][8], mat[2][8], mat[1][8], mat[0][8],
            ];
        assert_eq!(tmp.map(|x| x.value()), EXPECTED);

        let tmp2 = [
            mat[l - 11][0],
            mat[l - 10][0],
            mat[l - 9][0],
            mat[l - 11][1],
            mat[l - 10][1],
            mat[l - 9][1],
            mat[l - 11][2],
            mat[l - 10][2],
            mat[l - 9][2],
            mat[l - 11][3],
            mat[l - 10][3],
            mat[l - 9][3],
            mat[l - 11][4],
            mat[l - 10][4],
            mat[l - 9][4],
            mat[l - 11][5],
            mat[l - 10][5],
            mat[l - 9][5],
        ];
        assert_eq!(tmp2.map(|x| x.value()), expected2);

        let tmp2 = [
            mat[0][l - 11],
            mat[0][l - 10],
            mat[0][l - 9],
            mat[1][l - 11],
            mat[1][l - 10],
            mat[1][l - 9],
            mat[2][l - 11],
            mat[2][l - 10],
            mat[2][l - 9],
            mat[3][l - 11],
            mat[3][l - 10],
            mat[3][l - 9],
            mat[4][l - 11],
            mat[4][l - 10],
            mat[4][l - 9],
            mat[5][l - 11],
            mat[5][l - 10],
            mat[5][l - 9],
        ];
        assert_eq!(tmp2.map(|x| x.value()), expected2);
    }
}

#[test]
fn version_format_m_mask6_version22() {
    const CONTENT: &str = "4";
    const MASK: Option<Mask> = Some(Mask::Diamonds);
    const VERSION: Option<crate::version::Version> = Some(crate::version::Version::V22);
    const LEVEL: Option<crate::ecl::ECL> = Some(crate::ecl::ECL::M);

    let q = QRCode::new(CONTENT.as_bytes(), LEVEL, VERSION, None, MASK);
    if q.is_err() {
        assert_eq!(true, false, "Couldn't create QR");
    };
    let mat = q.unwrap();

    const EXPECTED: [bool; 15] = [
        true, false, false, true, true, true, true, true, false, false, true, false, true, true,
        true,
    ];
    let mut expected2: [bool; 18] = [
        false, true, false, true, true, false, true, false, false, false, true, true, false, false,
        true, false, false, true,
    ];
    expected2.reverse();

    {
        let l = mat.size;
        #[rustfmt::skip]
        let tmp = [
                mat[l - 1][8], mat[l - 2][8], mat[l - 3][8], mat[l - 4][8], mat[l - 5][8], mat[l - 6][8], mat[l - 7][8],
                mat[8][l - 8], mat[8][l - 7], mat[8][l - 6], mat[8][l - 5], mat[8][l - 4], mat[8][l - 3], mat[8][l - 2], mat[8][l - 1]
            ];
        assert_eq!(tmp.map(|x| x.value()), EXPECTED);

        #[rustfmt::skip]
        let tmp = [
                mat[8][0], mat[8][1], mat[8][2], mat[8][3], mat[8][4], mat[8][5], mat[8][7], mat[8][8],
                mat[7][8], mat[5][8], mat[4][8], mat[3][8], mat[2][8], mat[1][8], mat[0][8],
            ];
        assert_eq!(tmp.map(|x| x.value()), EXPECTED);

        let tmp2 = [
            mat[l - 11][0],
            mat[l - 10][0],
            mat[l - 9][0],
            mat[l - 11][1],
            mat[l - 10][1],
            mat[l - 9][1],
            mat[l - 11][2],
            mat[l - 10][2],
            mat[l - 9][2],
            mat[l - 11][3],
            mat[l - 10][3],
            mat[l - 9][3],
            mat[l - 11][4],
            mat[l - 10][4],
            mat[l - 9][4],
            mat[l - 11][5],
            mat[l - 10][5],
            mat[l - 9][5],
        ];
        assert_eq!(tmp2.map(|x| x.value()), expected2);

        let tmp2 = [
            mat[0][l - 11],
            mat[0][l - 10],
            mat[0][l - 9],
            mat[1][l - 11],
            mat[1][l - 10],
            mat[1][l - 9],
            mat[2][l - 11],
            mat[2][l - 10],
            mat[2][l - 9],
            mat[3][l - 11],
            mat[3][l - 10],
            mat[3][l - 9],
            mat[4][l - 11],
            mat[4][l - 10],
            mat[4][l - 9],
            mat[5][l - 11],
            mat[5][l - 10],
            mat[5][l - 9],
        ];
        assert_eq!(tmp2.map(|x| x.value()), expected2);
    }
}

#[test]
fn version_format_m_mask7_version7() {
    const CONTENT: &str = "4";
    const MASK: Option<Mask> = Some(Mask::Meadow);
    const VERSION: Option<crate::version::Version> = Some(crate::version::Version::V07);
    const LEVEL: Option<crate::ecl::ECL> = Some(crate::ecl::ECL::M);

    let q = QRCode::new(CONTENT.as_bytes(), LEVEL, VERSION, None, MASK);
    if q.is_err() {
        assert_eq!(true, false, "Couldn't create QR");
    };
    let mat = q.unwrap();

    const EXPECTED: [bool; 15] = [
        true, false, false, true, false, true, false, true, false, true, false, false, false,
        false, false,
    ];
    let mut expected2: [bool; 18] = [
        false, false, false, true, true, true, true, true, false, false, true, false, false, true,
        false, true, false, false,
    ];
    expected2.reverse();

    {
        let l = mat.size;
        #[rustfmt::skip]
        let tmp = [
                mat[l - 1][8], mat[l - 2][8], mat[l - 3][8], mat[l - 4][8], mat[l - 5][8], mat[l - 6][8], mat[l - 7][8],
                mat[8][l - 8], mat[8][l - 7], mat[8][l - 6], mat[8][l - 5], mat[8][l - 4], mat[8][l - 3], mat[8][l - 2], mat[8][l - 1]
            ];
        assert_eq!(tmp.map(|x| x.value()), EXPECTED);

        #[rustfmt::skip]
        let tmp = [
                mat[8][0], mat[8][1], mat[8][2], mat[8][3], mat[8][4], mat[8][5], mat[8][7], mat[8][8],
                mat[7][8], mat[5][8], mat[4][8], mat[3][8], mat[2][8], mat[1][8], mat[0][8],
            ];
        assert_eq!(tmp.map(|x| x.value()), EXPECTED);

        let tmp2 = [
            mat[l - 11][0],
            mat[l - 10][0],
            mat[l - 9][0],
            mat[l - 11][1],
            mat[l - 10][1],
            mat[l - 9][1],
            mat[l - 11][2],
            mat[l - 10][2],
            mat[l - 9][2],
            mat[l - 11][3],
            mat[l - 10][3],
            mat[l - 9][3],
            mat[l - 11][4],
            mat[l - 10][4],
            mat[l - 9][4],
            mat[l - 11][5],
            mat[l - 10][5],
            mat[l - 9][5],
        ];
        assert_eq!(tmp2.map(|x| x.value()), expected2);

        let tmp2 = [
            mat[0][l - 11],
            mat[0][l - 10],
            mat[0][l - 9],
            mat[1][l - 11],
            mat[1][l - 10],
            mat[1][l - 9],
            mat[2][l - 11],
            mat[2][l - 10],
            mat[2][l - 9],
            mat[3][l - 11],
            mat[3][l - 10],
            mat[3][l - 9],
            mat[4][l - 11],
            mat[4][l - 10],
            mat[4][l - 9],
            mat[5][l - 11],
            mat[5][l - 10],
            mat[5][l - 9],
        ];
        assert_eq!(tmp2.map(|x| x.value()), expected2);
    }
}

#[test]
fn version_format_q_mask0_version20() {
    const CONTENT: &str = "4";
    const MASK: Option<Mask> = Some(Mask::Checkerboard);
    const VERSION: Option<crate::version::Version> = Some(crate::version::Version::V20);
    const LEVEL: Option<crate::ecl::ECL> = Some(crate::ecl::ECL::Q);

    let q = QRCode::new(CONTENT.as_bytes(), LEVEL, VERSION, None, MASK);
    if q.is_err() {
        assert_eq!(true, false, "Couldn't create QR");
    };
    let mat = q.unwrap();

    const EXPECTED: [bool; 15] = [
        false, true, true, false, true, false, true, false, true, false, true, true, true, true,
        true,
    ];
    let mut expected2: [bool; 18] = [
        false, true, false, true, false, false, true, false, false, true, true, false, true, false,
        false, true, true, false,
    ];
    expected2.reverse();

    {
        let l = mat.size;
        #[rustfmt::skip]
        let tmp = [
                mat[l - 1][8], mat[l - 2][8], mat[l - 3][8], mat[l - 4][8], mat[l - 5][8], mat[l - 6][8], mat[l - 7][8],
                mat[8][l - 8], mat[8][l - 7], mat[8][l - 6], mat[8][l - 5], mat[8][l - 4], mat[8][l - 3], mat[8][l - 2], mat[8][l - 1]
            ];
        assert_eq!(tmp.map(|x| x.value()), EXPECTED);

        #[rustfmt::skip]
        let tmp = [
                mat[8][0], mat[8][1], mat[8][2], mat[8][3], mat[8][4], mat[8][5], mat[8][7], mat[8][8],
                mat[7][8], mat[5][8], mat[4][8], mat[3][8], mat[2][8], mat[1][8], mat[0][8],
            ];
        assert_eq!(tmp.map(|x| x.value()), EXPECTED);

        let tmp2 = [
            mat[l - 11][0],
            mat[l - 10][0],
            mat[l - 9][0],
            mat[l - 11][1],
            mat[l - 10][1],
            mat[l - 9][1],
            mat[l - 11][2],
            mat[l - 10][2],
            mat[l - 9][2],
            mat[l - 11][3],
            mat[l - 10][3],
            mat[l - 9][3],
            mat[l - 11][4],
            mat[l - 10][4],
            mat[l - 9][4],
            mat[l - 11][5],
            mat[l - 10][5],
            mat[l - 9][5],
        ];
        assert_eq!(tmp2.map(|x| x.value()), expected2);

        let tmp2 = [
            mat[0][l - 11],
            mat[0][l - 10],
            mat[0][l - 9],
            mat[1][l - 11],
            mat[1][l - 10],
            mat[1][l - 9],
            mat[2][l - 11],
            mat[2][l - 10],
            mat[2][l - 9],
            mat[3][l - 11],
            mat[3][l - 10],
            mat[3][l - 9],
            mat[4][l - 11],
            mat[4][l - 10],
            mat[4][l - 9],
            mat[5][l - 11],
            mat[5][l - 10],
            mat[5][l - 9],
        ];
        assert_eq!(tmp2.map(|x| x.value()), expected2);
    }
}

#[test]
fn version_format_q_mask1_version33() {
    const CONTENT: &str = "4";
    const MASK: Option<Mask> = Some(Mask::HorizontalLines);
    const VERSION: Option<crate::version::Version> = Some(crate::version::Version::V33);
    const LEVEL: Option<crate::ecl::ECL> = Some(crate::ecl::ECL::Q);

    let q = QRCode::new(CONTENT.as_bytes(), LEVEL, VERSION, None, MASK);
    if q.is_err() {
        assert_eq!(true, false, "Couldn't create QR");
    };
    let mat = q.unwrap();

    const EXPECTED: [bool; 15] = [
        false, true, true, false, false, false, false, false, true, true, false, true, false,
        false, false,
    ];
    let mut expected2: [bool; 18] = [
        true, false, false, false, false, true, false, true, true, false, true, true, true, true,
        false, false, false, false,
    ];
    expected2.reverse();

    {
        let l = mat.size;
        #[rustfmt::skip]
        let tmp = [
                mat[l - 1][8], mat[l - 2][8], mat[l - 3][8], mat[l - 4][8], mat[l - 5][8], mat[l - 6][8], mat[l - 7][8],
                mat[8][l - 8], mat[8][l - 7], mat[8][l - 6], mat[8][l - 5], mat[8][l - 4], mat[8][l - 3], mat[8][l - 2], mat[8][l - 1]
            ];
        assert_eq!(tmp.map(|x| x.value()), EXPECTED);

        #[rustfmt::skip]
        let tmp = [
                mat[8][0], mat[8][1], mat[8][2], mat[8][3], mat[8][4], mat[8][5], mat[8][7], mat[8][8],
                mat[7][8], mat[5][8], mat[4][8], mat[3][8], mat[2][8], mat[1][8], mat[0][8],
            ];
        assert_eq!(tmp.map(|x| x.value()), EXPECTED);

        let tmp2 = [
            mat[l - 11][0],
            mat[l - 10][0],
            mat[l - 9][0],
            mat[l - 11][1],
            mat[l - 10][1],
            mat[l - 9][1],
            mat[l - 11][2],
            mat[l - 10][2],
            mat[l - 9][2],
            mat[l - 11][3],
            mat[l - 10][3],
            mat[l - 9][3],
            mat[l - 11][4],
            mat[l - 10][4],
            mat[l - 9][4],
            mat[l - 11][5],
            mat[l - 10][5],
            mat[l - 9][5],
        ];
        assert_eq!(tmp2.map(|x| x.value()), expected2);

        let tmp2 = [
            mat[0][l - 11],
            mat[0][l - 10],
            mat[0][l - 9],
            mat[1][l - 11],
            mat[1][l - 10],
            mat[1][l - 9],
            mat[2][l - 11],
            mat[2][l - 10],
            mat[2][l - 9],
            mat[3][l - 11],
            mat[3][l - 10],
            mat[3][l - 9],
            mat[4][l - 11],
            mat[4][l - 10],
            mat[4][l - 9],
            mat[5][l - 11],
            mat[5][l - 10],
            mat[5][l - 9],
        ];
        assert_eq!(tmp2.map(|x| x.value()), expected2);
    }
}

#[test]
fn version_format_q_mask2_version24() {
    const CONTENT: &str = "4";
    const MASK: Option<Mask> = Some(Mask::VerticalLines);
    const VERSION: Option<crate::version::Version> = Some(crate::version::Version::V24);
    const LEVEL: Option<crate::ecl::ECL> = Some(crate::ecl::ECL::Q);

    let q = QRCode::new(CONTENT.as_bytes(), LEVEL, VERSION, None, MASK);
    if q.is_err() {
        assert_eq!(true, false, "Couldn't create QR");
    };
    let mat = q.unwrap();

    const EXPECTED: [bool; 15] = [
        false, true, true, true, true, true, true, false, false, true, true, false, false, false,
        true,
    ];
    let mut expected2: [bool; 18] = [
        false, true, true, false, false, false, true, true, true, false, true, true, false, false,
        false, true, false, false,
    ];
    expected2.reverse();

    {
        let l = mat.size;
        #[rustfmt::skip]
        let tmp = [
                mat[l - 1][8], mat[l - 2][8], mat[l - 3][8], mat[l - 4][8], mat[l - 5][8], mat[l - 6][8], mat[l - 7][8],
                mat[8][l - 8], mat[8][l - 7], mat[8][l - 6], mat[8][l - 5], mat[8][l - 4], mat[8][l - 3], mat[8][l - 2], mat[8][l - 1]
            ];
        assert_eq!(tmp.map(|x| x.value()), EXPECTED);

        #[rustfmt::skip]
        let tmp = [
                mat[8][0], mat[8][1], mat[8][2], mat[8][3], mat[8][4], mat[8][5], mat[8][7], mat[8][8],
                mat[7][8], mat[5][8], mat[4][8], mat[3][8], mat[2][8], mat[1][8], mat[0][8],
            ];
        assert_eq!(tmp.map(|x| x.value()), EXPECTED);

        let tmp2 = [
            mat[l - 11][0],
            mat[l - 10][0],
            mat[l - 9][0],
            mat[l - 11][1],
            mat[l - 10][1],
            mat[l - 9][1],
            mat[l - 11][2],
            mat[l - 10][2],
            mat[l - 9][2],
            mat[l - 11][3],
            mat[l - 10][3],
            mat[l - 9][3],
            mat[l - 11][4],
            mat[l - 10][4],
            mat[l - 9][4],
            mat[l - 11][5],
            mat[l - 10][5],
            mat[l - 9][5],
        ];
        assert_eq!(tmp2.map(|x| x.value()), expected2);

        let tmp2 = [
            mat[0][l - 11],
            mat[0][l - 10],
            mat[0][l - 9],
            mat[1][l - 11],
            mat[1][l - 10],
            mat[1][l - 9],
            mat[2][l - 11],
            mat[2][l - 10],
            mat[2][l - 9],
            mat[3][l - 11],
            mat[3][l - 10],
            mat[3][l - 9],
            mat[4][l - 11],
            mat[4][l - 10],
            mat[4][l - 9],
            mat[5][l - 11],
            mat[5][l - 10],
            mat[5][l - 9],
        ];
        assert_eq!(tmp2.map(|x| x.value()), expected2);
    }
}

#[test]
fn version_format_q_mask3_version18() {
    const CONTENT: &str = "4";
    const MASK: Option<Mask> = Some(Mask::DiagonalLines);
    const VERSION: Option<crate::version::Version> = Some(crate::version::Version::V18);
    const LEVEL: Option<crate::ecl::ECL> = Some(crate::ecl::ECL::Q);

    let q = QRCode::new(CONTENT.as_bytes(), LEVEL, VERSION, None, MASK);
    if q.is_err() {
        assert_eq!(true, false, "Couldn't create QR");
    };
    let mat = q.unwrap();

    const EXPECTED: [bool; 15] = [
        false, true, true, true, false, true, false, false, false, false, false, false, true, true,
        false,
    ];
    let mut expected2: [bool; 18] = [
        false, true, false, false, true, false, true, false, true, false, false, false, false,
        true, false, true, true, true,
    ];
    expected2.reverse();

    {
        let l = mat.size;
        #[rustfmt::skip]
        let tmp = [
                mat[l - 1][8], mat[l - 2][8], mat[l - 3][8], mat[l - 4][8], mat[l - 5][8], mat[l - 6][8], mat[l - 7][8],
                mat[8][l - 8], mat[8][l - 7], mat[8][l - 6], mat[8][l - 5], mat[8][l - 4], mat[8][l - 3], mat[8][l - 2], mat[8][l - 1]
            ];
        assert_eq!(tmp.map(|x| x.value()), EXPECTED);

        #[rustfmt::skip]
        let tmp = [
                mat[8][0], mat[8][1], mat[8][2], mat[8][3], mat[8][4], mat[8][5], mat[8][7], mat[8][8],
                mat[7][8], mat[5][8], mat[4][8], mat[3][8], mat[2][8], mat[1][8], mat[0][8],
            ];
        assert_eq!(tmp.map(|x| x.value()), EXPECTED);

        let tmp2 = [
            mat[l - 11][0],
            mat[l - 10][0],
            mat[l - 9][0],
            mat[l - 11][1],
            mat[l - 10][1],
            mat[l - 9][1],
            mat[l - 11][2],
            mat[l - 10][2],
            mat[l - 9][2],
            mat[l - 11][3],
            mat[l - 10][3],
            mat[l - 9][3],
            mat[l - 11][4],
            mat[l - 10][4],
            mat[l - 9][4],
            mat[l - 11][5],
            mat[l - 10][5],
            mat[l - 9][5],
        ];
        assert_eq!(tmp2.map(|x| x.value()), expected2);

        let tmp2 = [
            mat[0][l - 11],
            mat[0][l - 10],
            mat[0][l - 9],
            mat[1][l - 11],
            mat[1][l - 10],
            mat[1][l - 9],
            mat[2][l - 11],
            mat[2][l - 10],
            mat[2][l - 9],
            mat[3][l - 11],
            mat[3][l - 10],
            mat[3][l - 9],
            mat[4][l - 11],
            mat[4][l - 10],
            mat[4][l - 9],
            mat[5][l - 11],
            mat[5][l - 10],
            mat[5][l - 9],
        ];
        assert_eq!(tmp2.map(|x| x.value()), expected2);
    }
}

#[test]
fn version_format_q_mask4_version31() {
    const CONTENT: &str = "4";
    const MASK: Option<Mask> = Some(Mask::LargeCheckerboard);
    const VERSION: Option<crate::version::Version> = Some(crate::version::Version::V31);
    const LEVEL: Option<crate::ecl::ECL> = Some(crate::ecl::ECL::Q);

    let q = QRCode::new(CONTENT.as_bytes(), LEVEL, VERSION, None, MASK);
    if q.is_err() {
        assert_eq!(true, false, "Couldn't create QR");
    };
    let mat = q.unwrap();

    const EXPECTED: [bool; 15] = [
        false, true, false, false, true, false, false, true, false, true, true, false, true, false,
        false,
    ];
    let mut expected2: [bool; 18] = [
        false, true, true, true, true, true, false, false, true, false, false, true, false, true,
        false, false, false, false,
    ];
    expected2.reverse();

    {
        let l = mat.size;
        #[rustfmt::skip]
        let tmp = [
                mat[l - 1][8], mat[l - 2][8], mat[l - 3][8], mat[l - 4][8], mat[l - 5][8], mat[l - 6][8], mat[l - 7][8],
                mat[8][l - 8], mat[8][l - 7], mat[8][l - 6], mat[8][l - 5], mat[8][l - 4], mat[8][l - 3], mat[8][l - 2], mat[8][l - 1]
            ];
        assert_eq!(tmp.map(|x| x.value()), EXPECTED);

        #[rustfmt::skip]
        let tmp = [
                mat[8][0], mat[8][1], mat[8][2], mat[8][3], mat[8][4], mat[8][5], mat[8][7], mat[8][8],
                mat[7][8], mat[5][8], mat[4][8], mat[3][8], mat[2][8], mat[1][8], mat[0][8],
            ];
        assert_eq!(tmp.map(|x| x.value()), EXPECTED);

        let tmp2 = [
            mat[l - 11][0],
            mat[l - 10][0],
            mat[l - 9][0],
            mat[l - 11][1],
            mat[l - 10][1],
            mat[l - 9][1],
            mat[l - 11][2],
            mat[l - 10][2],
            mat[l - 9][2],
            mat[l - 11][3],
            mat[l - 10][3],
            mat[l - 9][3],
            mat[l - 11][4],
            mat[l - 10][4],
            mat[l - 9][4],
            mat[l - 11][5],
            mat[l - 10][5],
            mat[l - 9][5],
        ];
        assert_eq!(tmp2.map(|x| x.value()), expected2);

        let tmp2 = [
            mat[0][l - 11],
            mat[0][l - 10],
            mat[0][l - 9],
            mat[1][l - 11],
            mat[1][l - 10],
            mat[1][l - 9],
            mat[2][l - 11],
            mat[2][l - 10],
            mat[2][l - 9],
            mat[3][l - 11],
            mat[3][l - 10],
            mat[3][l - 9],
            mat[4][l - 11],
            mat[4][l - 10],
            mat[4][l - 9],
            mat[5][l - 11],
            mat[5][l - 10],
            mat[5][l - 9],
        ];
        assert_eq!(tmp2.map(|x| x.value()), expected2);
    }
}

#[test]
fn version_format_q_mask5_version17() {
    const CONTENT: &str = "4";
    const MASK: Option<Mask> = Some(Mask::Fields);
    const VERSION: Option<crate::version::Version> = Some(crate::version::Version::V17);
    const LEVEL: Option<crate::ecl::ECL> = Some(crate::ecl::ECL::Q);

    let q = QRCode::new(CONTENT.as_bytes(), LEVEL, VERSION, None, MASK);
    if q.is_err() {
        assert_eq!(true, false, "Couldn't create QR");
    };
    let mat = q.unwrap();

    const EXPECTED: [bool; 15] = [
        false, true, false, false, false, false, true, true, false, false, false, false, false,
        true, true,
    ];
    let mut expected2: [bool; 18] = [
        false, true, false, false, false, true, false, true, false, false, false, true, false,
        true, true, true, false, true,
    ];
    expected2.reverse();

    {
        let l = mat.size;
        #[rustfmt::skip]
        let tmp = [
                mat[l - 1][8], mat[l - 2][8], mat[l - 3][8], mat[l - 4][8], mat[l - 5][8], mat[l - 6][8], mat[l - 7][8],
                mat[8][l - 8], mat[8][l - 7], mat[8][l - 6], mat[8][l - 5], mat[8][l - 4], mat[8][l - 3], mat[8][l - 2], mat[8][l - 1]
            ];
        assert_eq!(tmp.map(|x| x.value()), EXPECTED);

        #[rustfmt::skip]
        let tmp = [
                mat[8][0], mat[8][1], mat[8][2], mat[8][3], mat[8][4], mat[8][5], mat[8][7], mat[8][8],
                mat[7][8], mat[5][8], mat[4][8], mat[3][8], mat[2][8], mat[1][8], mat[0][8],
            ];
        assert_eq!(tmp.map(|x| x.value()), EXPECTED);

        let tmp2 = [
            mat[l - 11][0],
            mat[l - 10][0],
            mat[l - 9][0],
            mat[l - 11][1],
            mat[l - 10][1],
            mat[l - 9][1],
            mat[l - 11][2],
            mat[l - 10][2],
            mat[l - 9][2],
            mat[l - 11][3],
            mat[l - 10][3],
            mat[l - 9][3],
            mat[l - 11][4],
            mat[l - 10][4],
            mat[l - 9][4],
            mat[l - 11][5],
            mat[l - 10][5],
            mat[l - 9][5],
        ];
        assert_eq!(tmp2.map(|x| x.value()), expected2);

        let tmp2 = [
            mat[0][l - 11],
            mat[0][l - 10],
            mat[0][l - 9],
            mat[1][l - 11],
            mat[1][l - 10],
            mat[1][l - 9],
            mat[2][l - 11],
            mat[2][l - 10],
            mat[2][l - 9],
            mat[3][l - 11],
            mat[3][l - 10],
            mat[3][l - 9],
            mat[4][l - 11],
            mat[4][l - 10],
            mat[4][l - 9],
            mat[5][l - 11],
            mat[5][l - 10],
            mat[5][l - 9],
        ];
        assert_eq!(tmp2.map(|x| x.value()), expected2);
    }
}

#[test]
fn version_format_q_mask6_version11() {
    const CONTENT: &str = "4";
    const MASK: Option<Mask> = Some(Mask::Diamonds);
    const VERSION: Option<crate::version::Version> = Some(crate::version::Version::V11);
    const LEVEL: Option<crate::ecl::ECL> = Some(crate::ecl::ECL::Q);

    let q = QRCode::new(CONTENT.as_bytes(), LEVEL, VERSION, None, MASK);
    if q.is_err() {
        assert_eq!(true, false, "Couldn't create QR");
    };
    let mat = q.unwrap();

    const EXPECTED: [bool; 15] = [
        false, true, false, true, true, true, false, true, true, false, true, true, false, true,
        false,
    ];
    let mut expected2: [bool; 18] = [
        false, false, true, false, true, true, true, false, true, true, true, true, true, true,
        false, true, true, false,
    ];
    expected2.reverse();

    {
        let l = mat.size;
        #[rustfmt::skip]
        let tmp = [
                mat[l - 1][8], mat[l - 2][8], mat[l - 3][8], mat[l - 4][8], mat[l - 5][8], mat[l - 6][8], mat[l - 7][8],
                mat[8][l - 8], mat[8][l - 7], mat[8][l - 6], mat[8][l - 5], mat[8][l - 4], mat[8][l - 3], mat[8][l - 2], mat[8][l - 1]
            ];
        assert_eq!(tmp.map(|x| x.value()), EXPECTED);

        #[rustfmt::skip]
        let tmp = [
                mat[8][0], mat[8][1], mat[8][2], mat[8][3], mat[8][4], mat[8][5], mat[8][7], mat[8][8],
                mat[7][8], mat[5][8], mat[4][8], mat[3][8], mat[2][8], mat[1][8], mat[0][8],
            ];
        assert_eq!(tmp.map(|x| x.value()), EXPECTED);

        let tmp2 = [
            mat[l - 11][0],
            mat[l - 10][0],
            mat[l - 9][0],
            mat[l - 11][1],
            mat[l - 10][1],
            mat[l - 9][1],
            mat[l - 11][2],
            mat[l - 10][2],
            mat[l - 9][2],
            mat[l - 11][3],
            mat[l - 10][3],
            mat[l - 9][3],
            mat[l - 11][4],
            mat[l - 10][4],
            mat[l - 9][4],
            mat[l - 11][5],
            mat[l - 10][5],
            mat[l - 9][5],
        ];
        assert_eq!(tmp2.map(|x| x.value()), expected2);

        let tmp2 = [
            mat[0][l - 11],
            mat[0][l - 10],
            mat[0][l - 9],
            mat[1][l - 11],
            mat[1][l - 10],
            mat[1][l - 9],
            mat[2][l - 11],
            mat[2][l - 10],
            mat[2][l - 9],
            mat[3][l - 11],
            mat[3][l - 10],
            mat[3][l - 9],
            mat[4][l - 11],
            mat[4][l - 10],
            mat[4][l - 9],
            mat[5][l - 11],
            mat[5][l - 10],
            mat[5][l - 9],
        ];
        assert_eq!(tmp2.map(|x| x.value()), expected2);
    }
}

#[test]
fn version_format_q_mask7_version15() {
    const CONTENT: &str = "4";
    const MASK: Option<Mask> = Some(Mask::Meadow);
    const VERSION: Option<crate::version::Version> = Some(crate::version::Version::V15);
    const LEVEL: Option<crate::ecl::ECL> = Some(crate::ecl::ECL::Q);

    let q = QRCode::new(CONTENT.as_bytes(), LEVEL, VERSION, None, MASK);
    if q.is_err() {
        assert_eq!(true, false, "Couldn't create QR");
    };
    let mat = q.unwrap();

    const EXPECTED: [bool; 15] = [
        false, true, false, true, false, true, true, true, true, true, false, true, true, false,
        true,
    ];
    let mut expected2: [bool; 18] = [
        false, false, true, true, true, true, true, false, false, true, false, false, true, false,
        true, false, false, false,
    ];
    expected2.reverse();

    {
        let l = mat.size;
        #[rustfmt::skip]
        let tmp = [
                mat[l - 1][8], mat[l - 2][8], mat[l - 3][8], mat[l - 4][8], mat[l - 5][8], mat[l - 6][8], mat[l - 7][8],
                mat[8][l - 8], mat[8][l - 7], mat[8][l - 6], mat[8][l - 5], mat[8][l - 4], mat[8][l - 3], mat[8][l - 2], mat[8][l - 1]
            ];
        assert_eq!(tmp.map(|x| x.value()), EXPECTED);

        #[rustfmt::skip]
        let tmp = [
                mat[8][0], mat[8][1], mat[8][2], mat[8][3], mat[8][4], mat[8][5], mat[8][7], mat[8][8],
                mat[7][8], mat[5][8], mat[4][8], mat[3][8], mat[2][8], mat[1][8], mat[0][8],
            ];
        assert_eq!(tmp.map(|x| x.value()), EXPECTED);

        let tmp2 = [
            mat[l - 11][0],
            mat[l - 10][0],
            mat[l - 9][0],
            mat[l - 11][1],
            mat[l - 10][1],
            mat[l - 9][1],
            mat[l - 11][2],
            mat[l - 10][2],
            mat[l - 9][2],
            mat[l - 11][3],
            mat[l - 10][3],
            mat[l - 9][3],
            mat[l - 11][4],
            mat[l - 10][4],
            mat[l - 9][4],
            mat[l - 11][5],
            mat[l - 10][5],
            mat[l - 9][5],
        ];
        assert_eq!(tmp2.map(|x| x.value()), expected2);

        let tmp2 = [
            mat[0][l - 11],
            mat[0][l - 10],
            mat[0][l - 9],
            mat[1][l - 11],
            mat[1][l - 10],
            mat[1][l - 9],
            mat[2][l - 11],
            mat[2][l - 10],
            mat[2][l - 9],
            mat[3][l - 11],
            mat[3][l - 10],
            mat[3][l - 9],
            mat[4][l - 11],
            mat[4][l - 10],
            mat[4][l - 9],
            mat[5][l - 11],
            mat[5][l - 10],
            mat[5][l - 9],
        ];
        assert_eq!(tmp2.map(|x| x.value()), expected2);
    }
}

#[test]
fn version_format_h_mask0_version35() {
    const CONTENT: &str = "4";
    const MASK: Option<Mask> = Some(Mask::Checkerboard);
    const VERSION: Option<crate::version::Version> = Some(crate::version::Version::V35);
    const LEVEL: Option<crate::ecl::ECL> = Some(crate::ecl::ECL::H);

    let q = QRCode::new(CONTENT.as_bytes(), LEVEL, VERSION, None, MASK);
    if q.is_err() {
        assert_eq!(true, false, "Couldn't create QR");
    };
    let mat = q.unwrap();

    const EXPECTED: [bool; 15] = [
        false, false, true, false, true, true, false, true, false, false, false, true, false,
        false, true,
    ];
    let mut expected2: [bool; 18] = [
        true, false, false, false, true, true, false, true, true, true, true, false, false, true,
        true, true, true, true,
    ];
    expected2.reverse();

    {
        let l = mat.size;
        #[rustfmt::skip]
        let tmp = [
                mat[l - 1][8], mat[l - 2][8], mat[l - 3][8], mat[l - 4][8], mat[l - 5][8], mat[l - 6][8], mat[l - 7][8],
                mat[8][l - 8], mat[8][l - 7], mat[8][l - 6], mat[8][l - 5], mat[8][l - 4], mat[8][l - 3], mat[8][l - 2], mat[8][l - 1]
            ];
        assert_eq!(tmp.map(|x| x.value()), EXPECTED);

        #[rustfmt::skip]
        let tmp = [
                mat[8][0], mat[8][1], mat[8][2], mat[8][3], mat[8][4], mat[8][5], mat[8][7], mat[8][8],
                mat[7][8], mat[5][8], mat[4][8], mat[3][8], mat[2][8], mat[1][8], mat[0][8],
            ];
        assert_eq!(tmp.map(|x| x.value()), EXPECTED);

        let tmp2 = [
            mat[l - 11][0],
            mat[l - 10][0],
            mat[l - 9][0],
            mat[l - 11][1],
            mat[l - 10][1],
            mat[l - 9][1],
            mat[l - 11][2],
            mat[l - 10][2],
            mat[l - 9][2],
            mat[l - 11][3],
            mat[l - 10][3],
            mat[l - 9][3],
            mat[l - 11][4],
            mat[l - 10][4],
            mat[l - 9][4],
            mat[l - 11][5],
            mat[l - 10][5],
            mat[l - 9][5],
        ];
        assert_eq!(tmp2.map(|x| x.value()), expected2);

        let tmp2 = [
            mat[0][l - 11],
            mat[0][l - 10],
            mat[0][l - 9],
            mat[1][l - 11],
            mat[1][l - 10],
            mat[1][l - 9],
            mat[2][l - 11],
            mat[2][l - 10],
            mat[2][l - 9],
            mat[3][l - 11],
            mat[3][l - 10],
            mat[3][l - 9],
            mat[4][l - 11],
            mat[4][l - 10],
            mat[4][l - 9],
            mat[5][l - 11],
            mat[5][l - 10],
            mat[5][l - 9],
        ];
        assert_eq!(tmp2.map(|x| x.value()), expected2);
    }
}

#[test]
fn version_format_h_mask1_version15() {
    const CONTENT: &str = "4";
    const MASK: Option<Mask> = Some(Mask::HorizontalLines);
    const VERSION: Option<crate::version::Version> = Some(crate::version::Version::V15);
    const LEVEL: Option<crate::ecl::ECL> = Some(crate::ecl::ECL::H);

    let q = QRCode::new(CONTENT.as_bytes(), LEVEL, VERSION, None, MASK);
    if q.is_err() {
        assert_eq!(true, false, "Couldn't create QR");
    };
    let mat = q.unwrap();

    const EXPECTED: [bool; 15] = [
        false, false, true, false, false, true, true, true, false, true, true, true, true, true,
        false,
    ];
    let mut expected2: [bool; 18] = [
        false, false, true, true, true, true, true, false, false, true, false, false, true, false,
        true, false, false, false,
    ];
    expected2.reverse();

    {
        let l = mat.size;
        #[rustfmt::skip]
        let tmp = [
                mat[l - 1][8], mat[l - 2][8], mat[l - 3][8], mat[l - 4][8], mat[l - 5][8], mat[l - 6][8], mat[l - 7][8],
                mat[8][l - 8], mat[8][l - 7], mat[8][l - 6], mat[8][l - 5], mat[8][l - 4], mat[8][l - 3], mat[8][l - 2], mat[8][l - 1]
            ];
        assert_eq!(tmp.map(|x| x.value()), EXPECTED);

        #[rustfmt::skip]
        let tmp = [
                mat[8][0], mat[8][1], mat[8][2], mat[8][3], mat[8][4], mat[8][5], mat[8][7], mat[8][8],
                mat[7][8], mat[5][8], mat[4][8], mat[3][8], mat[2][8], mat[1][8], mat[0][8],
            ];
        assert_eq!(tmp.map(|x| x.value()), EXPECTED);

        let tmp2 = [
            mat[l - 11][0],
            mat[l - 10][0],
            mat[l - 9][0],
            mat[l - 11][1],
            mat[l - 10][1],
            mat[l - 9][1],
            mat[l - 11][2],
            mat[l - 10][2],
            mat[l - 9][2],
            mat[l - 11][3],
            mat[l - 10][3],
            mat[l - 9][3],
            mat[l - 11][4],
            mat[l - 10][4],
            mat[l - 9][4],
            mat[l - 11][5],
            mat[l - 10][5],
            mat[l - 9][5],
        ];
        assert_eq!(tmp2.map(|x| x.value()), expected2);

        let tmp2 = [
            mat[0][l - 11],
            mat[0][l - 10],
            mat[0][l - 9],
            mat[1][l - 11],
            mat[1][l - 10],
            mat[1][l - 9],
            mat[2][l - 11],
            mat[2][l - 10],
            mat[2][l - 9],
            mat[3][l - 11],
            mat[3][l - 10],
            mat[3][l - 9],
            mat[4][l - 11],
            mat[4][l - 10],
            mat[4][l - 9],
            mat[5][l - 11],
            mat[5][l - 10],
            mat[5][l - 9],
        ];
        assert_eq!(tmp2.map(|x| x.value()), expected2);
    }
}

#[test]
fn version_format_h_mask2_version15() {
    const CONTENT: &str = "4";
    const MASK: Option<Mask> = Some(Mask::VerticalLines);
    const VERSION: Option<crate::version::Version> = Some(crate::version::Version::V15);
    const LEVEL: Option<crate::ecl::ECL> = Some(crate::ecl::ECL::H);

    let q = QRCode::new(CONTENT.as_bytes(), LEVEL, VERSION, None, MASK);
    if q.is_err() {
        assert_eq!(true, false, "Couldn't create QR");
    };
    let mat = q.unwrap();

    const EXPECTED: [bool; 15] = [
        false, false, true, true, true, false, false, true, true, true, false, false, true, true,
        true,
    ];
    let mut expected2: [bool; 18] = [
        false, false, true, true, true, true, true, false, false, true, false, false, true, false,
        true, false, false, false,
    ];
    expected2.reverse();

    {
        let l = mat.size;
        #[rustfmt::skip]
        let tmp = [
                mat[l - 1][8], mat[l - 2][8], mat[l - 3][8], mat[l - 4][8], mat[l - 5][8], mat[l - 6][8], mat[l - 7][8],
                mat[8][l - 8], mat[8][l - 7], mat[8][l - 6], mat[8][l - 5], mat[8][l - 4], mat[8][l - 3], mat[8][l - 2], mat[8][l - 1]
            ];
        assert_eq!(tmp.map(|x| x.value()), EXPECTED);

        #[rustfmt::skip]
        let tmp = [
                mat[8][0], mat[8][1], mat[8][2], mat[8][3], mat[8][4], mat[8][5], mat[8][7], mat[8][8],
                mat[7][8], mat[5][8], mat[4][8], mat[3][8], mat[2][8], mat[1][8], mat[0][8],
            ];
        assert_eq!(tmp.map(|x| x.value()), EXPECTED);

        let tmp2 = [
            mat[l - 11][0],
            mat[l - 10][0],
            mat[l - 9][0],
            mat[l - 11][1],
            mat[l - 10][1],
            mat[l - 9][1],
            mat[l - 11][2],
            mat[l - 10][2],
            mat[l - 9][2],
            mat[l - 11][3],
            mat[l - 10][3],
            mat[l - 9][3],
            mat[l - 11][4],
            mat[l - 10][4],
            mat[l - 9][4],
            mat[l - 11][5],
            mat[l - 10][5],
            mat[l - 9][5],
        ];
        assert_eq!(tmp2.map(|x| x.value()), expected2);

        let tmp2 = [
            mat[0][l - 11],
            mat[0][l - 10],
            mat[0][l - 9],
            mat[1][l - 11],
            mat[1][l - 10],
            mat[1][l - 9],
            mat[2][l - 11],
            mat[2][l - 10],
            mat[2][l - 9],
            mat[3][l - 11],
            mat[3][l - 10],
            mat[3][l - 9],
            mat[4][l - 11],
            mat[4][l - 10],
            mat[4][l - 9],
            mat[5][l - 11],
            mat[5][l - 10],
            mat[5][l - 9],
        ];
        assert_eq!(tmp2.map(|x| x.value()), expected2);
    }
}

#[test]
fn version_format_h_mask3_version7() {
    const CONTENT: &str = "4";
    const MASK: Option<Mask> = Some(Mask::DiagonalLines);
    const VERSION: Option<crate::version::Version> = Some(crate::version::Version::V07);
    const LEVEL: Option<crate::ecl::ECL> = Some(crate::ecl::ECL::H);

    let q = QRCode::new(CONTENT.as_bytes(), LEVEL, VERSION, None, MASK);
    if q.is_err() {
        assert_eq!(true, false, "Couldn't create QR");
    };
    let mat = q.unwrap();

    const EXPECTED: [bool; 15] = [
        false, false, true, true, false, false, true, true, true, false, true, false, false, false,
        false,
    ];
    let mut expected2: [bool; 18] = [
        false, false, false, true, true, true, true, true, false, false, true, false, false, true,
        false, true, false, false,
    ];
    expected2.reverse();

    {
        let l = mat.size;
        #[rustfmt::skip]
        let tmp = [
                mat[l - 1][8], mat[l - 2][8], mat[l - 3][8], mat[l - 4][8], mat[l - 5][8], mat[l - 6][8], mat[l - 7][8],
                mat[8][l - 8], mat[8][l - 7], mat[8][l - 6], mat[8][l - 5], mat[8][l - 4], mat[8][l - 3], mat[8][l - 2], mat[8][l - 1]
            ];
        assert_eq!(tmp.map(|x| x.value()), EXPECTED);

        #[rustfmt::skip]
        let tmp = [
                mat[8][0], mat[8][1], mat[8][2], mat[8][3], mat[8][4], mat[8][5], mat[8][7], mat[8][8],
                mat[7][8], mat[5][8], mat[4][8], mat[3][8], mat[2][8], mat[1][8], mat[0][8],
            ];
        assert_eq!(tmp.map(|x| x.value()), EXPECTED);

        let tmp2 = [
            mat[l - 11][0],
            mat[l - 10][0],
            mat[l - 9][0],
            mat[l - 11][1],
            mat[l - 10][1],
            mat[l - 9][1],
            mat[l - 11][2],
            mat[l - 10][2],
            mat[l - 9][2],
            mat[l - 11][3],
            mat[l - 10][3],
            mat[l - 9][3],
            mat[l - 11][4],
            mat[l - 10][4],
            mat[l - 9][4],
            mat[l - 11][5],
            mat[l - 10][5],
            mat[l - 9][5],
        ];
        assert_eq!(tmp2.map(|x| x.value()), expected2);

        let tmp2 = [
            mat[0][l - 11],
            mat[0][l - 10],
            mat[0][l - 9],
            mat[1][l - 11],
            mat[1][l - 10],
            mat[1][l - 9],
            mat[2][l - 11],
            mat[2][l - 10],
            mat[2][l - 9],
            mat[3][l - 11],
            mat[3][l - 10],
            mat[3][l - 9],
            mat[4][l - 11],
            mat[4][l - 10],
            mat[4][l - 9],
            mat[5][l - 11],
            mat[5][l - 10],
            mat[5][l - 9],
        ];
        assert_eq!(tmp2.map(|x| x.value()), expected2);
    }
}

#[test]
fn version_format_h_mask4_version7() {
    const CONTENT: &str = "4";
    const MASK: Option<Mask> = Some(Mask::LargeCheckerboard);
    const VERSION: Option<crate::version::Version> = Some(crate::version::Version::V07);
    const LEVEL: Option<crate::ecl::ECL> = Some(crate::ecl::ECL::H);

    let q = QRCode::new(CONTENT.as_bytes(), LEVEL, VERSION, None, MASK);
    if q.is_err() {
        assert_eq!(true, false, "Couldn't create QR");
    };
    let mat = q.unwrap();

    const EXPECTED: [bool; 15] = [
        false, false, false, false, true, true, true, false, true, true, false, false, false, true,
        false,
    ];
    let mut expected2: [bool; 18] = [
        false, false, false, true, true, true, true, true, false, false, true, false, false, true,
        false, true, false, false,
    ];
    expected2.reverse();

    {
        let l = mat.size;
        #[rustfmt::skip]
        let tmp = [
                mat[l - 1][8], mat[l - 2][8], mat[l - 3][8], mat[l - 4][8], mat[l - 5][8], mat[l - 6][8], mat[l - 7][8],
                mat[8][l - 8], mat[8][l - 7], mat[8][l - 6], mat[8][l - 5], mat[8][l - 4], mat[8][l - 3], mat[8][l - 2], mat[8][l - 1]
            ];
        assert_eq!(tmp.map(|x| x.value()), EXPECTED);

        #[rustfmt::skip]
        let tmp = [
                mat[8][0], mat[8][1], mat[8][2], mat[8][3], mat[8][4], mat[8][5], mat[8][7], mat[8][8],
                mat[7][8], mat[5][8], mat[4][8], mat[3][8], mat[2][8], mat[1][8], mat[0][8],
            ];
        assert_eq!(tmp.map(|x| x.value()), EXPECTED);

        let tmp2 = [
            mat[l - 11][0],
            mat[l - 10][0],
            mat[l - 9][0],
            mat[l - 11][1],
            mat[l - 10][1],
            mat[l - 9][1],
            mat[l - 11][2],
            mat[l - 10][2],
            mat[l - 9][2],
            mat[l - 11][3],
            mat[l - 10][3],
            mat[l - 9][3],
            mat[l - 11][4],
            mat[l - 10][4],
            mat[l - 9][4],
            mat[l - 11][5],
            mat[l - 10][5],
            mat[l - 9][5],
        ];
        assert_eq!(tmp2.map(|x| x.value()), expected2);

        let tmp2 = [
            mat[0][l - 11],
            mat[0][l - 10],
            mat[0][l - 9],
            mat[1][l - 11],
            mat[1][l - 10],
            mat[1][l - 9],
            mat[2][l - 11],
            mat[2][l - 10],
            mat[2][l - 9],
            mat[3][l - 11],
            mat[3][l - 10],
            mat[3][l - 9],
            mat[4][l - 11],
            mat[4][l - 10],
            mat[4][l - 9],
            mat[5][l - 11],
            mat[5][l - 10],
            mat[5][l - 9],
        ];
        assert_eq!(tmp2.map(|x| x.value()), expected2);
    }
}

#[test]
fn version_format_h_mask5_version20() {
    const CONTENT: &str = "4";
    const MASK: Option<Mask> = Some(Mask::Fields);
    const VERSION: Option<crate::version::Version> = Some(crate::version::Version::V20);
    const LEVEL: Option<crate::ecl::ECL> = Some(crate::ecl::ECL::H);

    let q = QRCode::new(CONTENT.as_bytes(), LEVEL, VERSION, None, MASK);
    if q.is_err() {
        assert_eq!(true, false, "Couldn't create QR");
    };
    let mat = q.unwrap();

    const EXPECTED: [bool; 15] = [
        false, false, false, false, false, true, false, false, true, false, true, false, true,
        false, true,
    ];
    let mut expected2: [bool; 18] = [
        false, true, false, true, false, false, true, false, false, true, true, false, true, false,
        false, true, true, false,
    ];
    expected2.reverse();

    {
        let l = mat.size;
        #[rustfmt::skip]
        let tmp = [
                mat[l - 1][8], mat[l - 2][8], mat[l - 3][8], mat[l - 4][8], mat[l - 5][8], mat[l - 6][8], mat[l - 7][8],
                mat[8][l - 8], mat[8][l - 7], mat[8][l - 6], mat[8][l - 5], mat[8][l - 4], mat[8][l - 3], mat[8][l - 2], mat[8][l - 1]
            ];
        assert_eq!(tmp.map(|x| x.value()), EXPECTED);

        #[rustfmt::skip]
        let tmp = [
                mat[8][0], mat[8][1], mat[8][2], mat[8][3], mat[8][4], mat[8][5], mat[8][7], mat[8][8],
                mat[7][8], mat[5][8], mat[4][8], mat[3][8], mat[2][8], mat[1][8], mat[0][8],
            ];
        assert_eq!(tmp.map(|x| x.value()), EXPECTED);

        let tmp2 = [
            mat[l - 11][0],
            mat[l - 10][0],
            mat[l - 9][0],
            mat[l - 11][1],
            mat[l - 10][1],
            mat[l - 9][1],
            mat[l - 11][2],
            mat[l - 10][2],
            mat[l - 9][2],
            mat[l - 11][3],
            mat[l - 10][3],
            mat[l - 9][3],
            mat[l - 11][4],
            mat[l - 10][4],
            mat[l - 9][4],
            mat[l - 11][5],
            mat[l - 10][5],
            mat[l - 9][5],
        ];
        assert_eq!(tmp2.map(|x| x.value()), expected2);

        let tmp2 = [
            mat[0][l - 11],
            mat[0][l - 10],
            mat[0][l - 9],
            mat[1][l - 11],
            mat[1][l - 10],
            mat[1][l - 9],
            mat[2][l - 11],
            mat[2][l - 10],
            mat[2][l - 9],
            mat[3][l - 11],
            mat[3][l - 10],
            mat[3][l - 9],
            mat[4][l - 11],
            mat[4][l - 10],
            mat[4][l - 9],
            mat[5][l - 11],
            mat[5][l - 10],
            mat[5][l - 9],
        ];
        assert_eq!(tmp2.map(|x| x.value()), expected2);
    }
}

#[test]
fn version_format_h_mask6_version20() {
    const CONTENT: &str = "4";
    const MASK: Option<Mask> = Some(Mask::Diamonds);
    const VERSION: Option<crate::version::Version> = Some(crate::version::Version::V20);
    const LEVEL: Option<crate::ecl::ECL> = Some(crate::ecl::ECL::H);

    let q = QRCode::new(CONTENT.as_bytes(), LEVEL, VERSION, None, MASK);
    if q.is_err() {
        assert_eq!(true, false, "Couldn't create QR");
    };
    let mat = q.unwrap();

    const EXPECTED: [bool; 15] = [
        false, false, false, true, true, false, true, false, false, false, false, true, true,
        false, false,
    ];
    let mut expected2: [bool; 18] = [
        false, true, false, true, false, false, true, false, false, true, true, false, true, false,
        false, true, true, false,
    ];
    expected2.reverse();

    {
        let l = mat.size;
        #[rustfmt::skip]
        let tmp = [
                mat[l - 1][8], mat[l - 2][8], mat[l - 3][8], mat[l - 4][8], mat[l - 5][8], mat[l - 6][8], mat[l - 7][8],
                mat[8][l - 8], mat[8][l - 7], mat[8][l - 6], mat[8][l - 5], mat[8][l - 4], mat[8][l - 3], mat[8][l - 2], mat[8][l - 1]
            ];
        assert_eq!(tmp.map(|x| x.value()), EXPECTED);

        #[rustfmt::skip]
        let tmp = [
                mat[8][0], mat[8][1], mat[8][2], mat[8][3], mat[8][4], mat[8][5], mat[8][7], mat[8][8],
                mat[7][8], mat[5][8], mat[4][8], mat[3][8], mat[2][8], mat[1][8], mat[0][8],
            ];
        assert_eq!(tmp.map(|x| x.value()), EXPECTED);

        let tmp2 = [
            mat[l - 11][0],
            mat[l - 10][0],
            mat[l - 9][0],
            mat[l - 11][1],
            mat[l - 10][1],
            mat[l - 9][1],
            mat[l - 11][2],
            mat[l - 10][2],
            mat[l - 9][2],
            mat[l - 11][3],
            mat[l - 10][3],
            mat[l - 9][3],
            mat[l - 11][4],
            mat[l - 10][4],
            mat[l - 9][4],
            mat[l - 11][5],
            mat[l - 10][5],
            mat[l - 9][5],
        ];
        assert_eq!(tmp2.map(|x| x.value()), expected2);

        let tmp2 = [
            mat[0][l - 11],
            mat[0][l - 10],
            mat[0][l - 9],
            mat[1][l - 11],
            mat[1][l - 10],
            mat[1][l - 9],
            mat[2][l - 11],
            mat[2][l - 10],
            mat[2][l - 9],
            mat[3][l - 11],
            mat[3][l - 10],
            mat[3][l - 9],
            mat[4][l - 11],
            mat[4][l - 10],
            mat[4][l - 9],
            mat[5][l - 11],
            mat[5][l - 10],
            mat[5][l - 9],
        ];
        assert_eq!(tmp2.map(|x| x.value()), expected2);
    }
}

#[test]
fn version_format_h_mask7_version17() {
    const CONTENT: &str = "4";
    const MASK: Option<Mask> = Some(Mask::Meadow);
    const VERSION: Option<crate::version::Version> = Some(crate::version::Version::V17);
    const LEVEL: Option<crate::ecl::ECL> = Some(crate::ecl::ECL::H);

    let q = QRCode::new(CONTENT.as_bytes(), LEVEL, VERSION, None, MASK);
    if q.is_err() {
        assert_eq!(true, false, "Couldn't create QR");
    };
    let mat = q.unwrap();

    const EXPECTED: [bool; 15] = [
        false, false, false, true, false, false, false, false, false, true, true, true, false,
        true, true,
    ];
    let mut expected2: [bool; 18] = [
        false, true, false, false, false, true, false, true, false, false, false, true, false,
        true, true, true, false, true,
    ];
    expected2.reverse();

    {
        let l = mat.size;
        #[rustfmt::skip]
        let tmp = [
                mat[l - 1][8], mat[l - 2][8], mat[l - 3][8], mat[l - 4][8], mat[l - 5][8], mat[l - 6][8], mat[l - 7][8],
                mat[8][l - 8], mat[8][l - 7], mat[8][l - 6], mat[8][l - 5], mat[8][l - 4], mat[8][l - 3], mat[8][l - 2], mat[8][l - 1]
            ];
        assert_eq!(tmp.map(|x| x.value()), EXPECTED);

        #[rustfmt::skip]
        let tmp = [
                mat[8][0], mat[8][1], mat[8][2], mat[8][3], mat[8][4], mat[8][5], mat[8][7], mat[8][8],
                mat[7][8], mat[5][8], mat[4][8], mat[3][8], mat[2][8], mat[1][8], mat[0][8],
            ];
        assert_eq!(tmp.map(|x| x.value()), EXPECTED);

        let tmp2 = [
            mat[l - 11][0],
            mat[l - 10][0],
            mat[l - 9][0],
            mat[l - 11][1],
            mat[l - 10][1],
            mat[l - 9][1],
            mat[l - 11][2],
            mat[l - 10][2],
            mat[l - 9][2],
            mat[l - 11][3],
            mat[l - 10][3],
            mat[l - 9][3],
            mat[l - 11][4],
            mat[l - 10][4],
            mat[l - 9][4],
            mat[l - 11][5],
            mat[l - 10][5],
            mat[l - 9][5],
        ];
        assert_eq!(tmp2.map(|x| x.value()), expected2);

        let tmp2 = [
            mat[0][l - 11],
            mat[0][l - 10],
            mat[0][l - 9],
            mat[1][l - 11],
            mat[1][l - 10],
            mat[1][l - 9],
            mat[2][l - 11],
            mat[2][l - 10],
            mat[2][l - 9],
            mat[3][l - 11],
            mat[3][l - 10],
            mat[3][l - 9],
            mat[4][l - 11],
            mat[4][l - 10],
            mat[4][l - 9],
            mat[5][l - 11],
            mat[5][l - 10],
            mat[5][l - 9],
        ];
        assert_eq!(tmp2.map(|x| x.value()), expected2);
    }
}
