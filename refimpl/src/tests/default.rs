use crate::module::Module;
use crate::QRCode;

pub(crate) const F: bool = false;
pub(crate) const T: bool = true;

pub(crate) const DARK: fn(bool) -> Module = Module::dark;
pub(crate) const DATA: fn(bool) -> Module = Module::data;
pub(crate) const ALIG: fn(bool) -> Module = Module::alignment;
pub(crate) const FORM: fn(bool) -> Module = Module::format;
pub(crate) const VERS: fn(bool) -> Module = Module::version;
pub(crate) const TIMG: fn(bool) -> Module = Module::timing;
pub(crate) const FIND: fn(bool) -> Module = Module::finder_pattern;
pub(crate) const EMPT: fn(bool) -> Module = Module::empty;

#[test]
fn from_bool_v1() {
    #[rustfmt::skip]
    const MAT_FAST_QR_COM_V1_BOOL: [[bool; 21]; 21] = [[true, true, true, true, true, true, true, false, false, false, true, true, true, false, true, true, true, true, true, true, true],
        [true, false, false, false, false, false, true, false, true, true, true, false, false, false, true, false, false, false, false, false, true],
        [true, false, true, true, true, false, true, false, false, true, false, false, false, false, true, false, true, true, true, false, true],
        [true, false, true, true, true, false, true, false, false, false, true, false, false, false, true, false, true, true, true, false, true],
        [true, false, true, true, true, false, true, false, true, false, true, false, true, false, true, false, true, true, true, false, true],
        [true, false, false, false, false, false, true, false, false, true, false, false, true, false, true, false, false, false, false, false, true],
        [true, true, true, true, true, true, true, false, true, false, true, false, true, false, true, true, true, true, true, true, true],
        [false, false, false, false, false, false, false, false, false, true, false, true, true, false, false, false, false, false, false, false, false],
        [true, false, true, false, true, false, true, false, false, true, true, true, false, false, false, false, true, false, false, true, false],
        [true, true, true, false, true, false, false, false, false, false, true, false, false, false, false, false, false, true, false, true, true],
        [true, false, false, true, false, false, true, true, false, false, true, false, true, true, false, false, true, false, true, false, true],
        [false, true, true, false, false, true, false, true, false, true, true, false, false, true, false, false, false, true, true, false, true],
        [true, false, true, true, false, false, true, false, false, true, false, false, true, false, false, false, false, false, false, false, true],
        [false, false, false, false, false, false, false, false, true, true, false, true, false, true, false, true, true, true, true, true, true],
        [true, true, true, true, true, true, true, false, false, true, false, true, false, true, true, false, false, true, true, false, false],
        [true, false, false, false, false, false, true, false, false, true, false, true, true, true, true, true, false, true, true, false, false],
        [true, false, true, true, true, false, true, false, true, true, false, true, false, false, false, false, false, false, false, true, true],
        [true, false, true, true, true, false, true, false, false, false, true, true, false, false, false, true, true, true, true, true, false],
        [true, false, true, true, true, false, true, false, true, true, true, false, true, true, false, false, false, false, false, false, true],
        [true, false, false, false, false, false, true, false, false, true, true, true, false, true, true, true, true, true, false, true, true],
        [true, true, true, true, true, true, true, false, true, true, false, true, false, false, false, true, true, true, true, false, true]
    ];

    #[rustfmt::skip]
        let mat_fast_qr_com_v1: [[Module; 21]; 21] = [
        [FIND(T), FIND(T), FIND(T), FIND(T), FIND(T), FIND(T), FIND(T), EMPT(F), FORM(F), DATA(F), DATA(T), DATA(T), DATA(T), EMPT(F), FIND(T), FIND(T), FIND(T), FIND(T), FIND(T), FIND(T), FIND(T)],
        [FIND(T), FIND(F), FIND(F), FIND(F), FIND(F), FIND(F), FIND(T), EMPT(F), FORM(T), DATA(T), DATA(T), DATA(F), DATA(F), EMPT(F), FIND(T), FIND(F), FIND(F), FIND(F), FIND(F), FIND(F), FIND(T)],
        [FIND(T), FIND(F), FIND(T), FIND(T), FIND(T), FIND(F), FIND(T), EMPT(F), FORM(F), DATA(T), DATA(F), DATA(F), DATA(F), EMPT(F), FIND(T), FIND(F), FIND(T), FIND(T), FIND(T), FIND(F), FIND(T)],
        [FIND(T), FIND(F), FIND(T), FIND(T), FIND(T), FIND(F), FIND(T), EMPT(F), FORM(F), DATA(F), DATA(T), DATA(F), DATA(F), EMPT(F), FIND(T), FIND(F), FIND(T), FIND(T), FIND(T), FIND(F), FIND(T)],
        [FIND(T), FIND(F), FIND(T), FIND(T), FIND(T), FIND(F), FIND(T), EMPT(F), FORM(T), DATA(F), DATA(T), DATA(F), DATA(T), EMPT(F), FIND(T), FIND(F), FIND(T), FIND(T), FIND(T), FIND(F), FIND(T)],
        [FIND(T), FIND(F), FIND(F), FIND(F), FIND(F), FIND(F), FIND(T), EMPT(F), FORM(F), DATA(T), DATA(F), DATA(F), DATA(T), EMPT(F), FIND(T), FIND(F), FIND(F), FIND(F), FIND(F), FIND(F), FIND(T)],
        [FIND(T), FIND(T), FIND(T), FIND(T), FIND(T), FIND(T), FIND(T), EMPT(F), TIMG(T), TIMG(F), TIMG(T), TIMG(F), TIMG(T), EMPT(F), FIND(T), FIND(T), FIND(T), FIND(T), FIND(T), FIND(T), FIND(T)],
        [EMPT(F), EMPT(F), EMPT(F), EMPT(F), EMPT(F), EMPT(F), EMPT(F), EMPT(F), FORM(F), DATA(T), DATA(F), DATA(T), DATA(T), EMPT(F), EMPT(F), EMPT(F), EMPT(F), EMPT(F), EMPT(F), EMPT(F), EMPT(F)],
        [FORM(T), FORM(F), FORM(T), FORM(F), FORM(T), FORM(F), TIMG(T), FORM(F), FORM(F), DATA(T), DATA(T), DATA(T), DATA(F), FORM(F), FORM(F), FORM(F), FORM(T), FORM(F), FORM(F), FORM(T), FORM(F)],
        [DATA(T), DATA(T), DATA(T), DATA(F), DATA(T), DATA(F), TIMG(F), DATA(F), DATA(F), DATA(F), DATA(T), DATA(F), DATA(F), DATA(F), DATA(F), DATA(F), DATA(F), DATA(T), DATA(F), DATA(T), DATA(T)],
        [DATA(T), DATA(F), DATA(F), DATA(T), DATA(F), DATA(F), TIMG(T), DATA(T), DATA(F), DATA(F), DATA(T), DATA(F), DATA(T), DATA(T), DATA(F), DATA(F), DATA(T), DATA(F), DATA(T), DATA(F), DATA(T)],
        [DATA(F), DATA(T), DATA(T), DATA(F), DATA(F), DATA(T), TIMG(F), DATA(T), DATA(F), DATA(T), DATA(T), DATA(F), DATA(F), DATA(T), DATA(F), DATA(F), DATA(F), DATA(T), DATA(T), DATA(F), DATA(T)],
        [DATA(T), DATA(F), DATA(T), DATA(T), DATA(F), DATA(F), TIMG(T), DATA(F), DATA(F), DATA(T), DATA(F), DATA(F), DATA(T), DATA(F), DATA(F), DATA(F), DATA(F), DATA(F), DATA(F), DATA(F), DATA(T)],
        [EMPT(F), EMPT(F), EMPT(F), EMPT(F), EMPT(F), EMPT(F), EMPT(F), EMPT(F), DARK(T), DATA(T), DATA(F), DATA(T), DATA(F), DATA(T), DATA(F), DATA(T), DATA(T), DATA(T), DATA(T), DATA(T), DATA(T)],
        [FIND(T), FIND(T), FIND(T), FIND(T), FIND(T), FIND(T), FIND(T), EMPT(F), FORM(F), DATA(T), DATA(F), DATA(T), DATA(F), DATA(T), DATA(T), DATA(F), DATA(F), DATA(T), DATA(T), DATA(F), DATA(F)],
        [FIND(T), FIND(F), FIND(F), FIND(F), FIND(F), FIND(F), FIND(T), EMPT(F), FORM(F), DATA(T), DATA(F), DATA(T), DATA(T), DATA(T), DATA(T), DATA(T), DATA(F), DATA(T), DATA(T), DATA(F), DATA(F)],
        [FIND(T), FIND(F), FIND(T), FIND(T), FIND(T), FIND(F), FIND(T), EMPT(F), FORM(T), DATA(T), DATA(F), DATA(T), DATA(F), DATA(F), DATA(F), DATA(F), DATA(F), DATA(F), DATA(F), DATA(T), DATA(T)],
        [FIND(T), FIND(F), FIND(T), FIND(T), FIND(T), FIND(F), FIND(T), EMPT(F), FORM(F), DATA(F), DATA(T), DATA(T), DATA(F), DATA(F), DATA(F), DATA(T), DATA(T), DATA(T), DATA(T), DATA(T), DATA(F)],
        [FIND(T), FIND(F), FIND(T), FIND(T), FIND(T), FIND(F), FIND(T), EMPT(F), FORM(T), DATA(T), DATA(T), DATA(F), DATA(T), DATA(T), DATA(F), DATA(F), DATA(F), DATA(F), DATA(F), DATA(F), DATA(T)],
        [FIND(T), FIND(F), FIND(F), FIND(F), FIND(F), FIND(F), FIND(T), EMPT(F), FORM(F), DATA(T), DATA(T), DATA(T), DATA(F), DATA(T), DATA(T), DATA(T), DATA(T), DATA(T), DATA(F), DATA(T), DATA(T)],
        [FIND(T), FIND(T), FIND(T), FIND(T), FIND(T), FIND(T), FIND(T), EMPT(F), FORM(T), DATA(T), DATA(F), DATA(T), DATA(F), DATA(F), DATA(F), DATA(T), DATA(T), DATA(T), DATA(T), DATA(F), DATA(T)]
    ];

    let qr = crate::default::create_mat_from_bool(&MAT_FAST_QR_COM_V1_BOOL);

    for i in 0..qr.size {
        let row = &qr[i];
        for (j, elem) in row.iter().enumerate() {
            assert_eq!(elem, &mat_fast_qr_com_v1[i][j], "mat[{i}][{j}]");
        }
    }
}

#[test]
fn from_bool_v3() {
    #[rustfmt::skip]
    const MAT_FAST_QR_COM_BOOL: [[bool; 29]; 29] = [
        [true, true, true, true, true, true, true, false, true, true, true, true, true, true, true, true, true, true, true, true, false, false, true, true, true, true, true, true, true],
        [true, false, false, false, false, false, true, false, false, false, false, false, false, true, true, false, false, true, true, true, false, false, true, false, false, false, false, false, true],
        [true, false, true, true, true, false, true, false, true, false, true, false, true, true, false, false, false, false, false, true, true, false, true, false, true, true, true, false, true],
        [true, false, true, true, true, false, true, false, false, true, true, true, true, false, true, false, false, true, false, true, false, false, true, false, true, true, true, false, true],
        [true, false, true, true, true, false, true, false, true, false, false, true, false, true, false, false, true, false, false, true, true, false, true, false, true, true, true, false, true],
        [true, false, false, false, false, false, true, false, false, false, true, true, false, true, true, true, true, false, true, false, true, false, true, false, false, false, false, false, true],
        [true, true, true, true, true, true, true, false, true, false, true, false, true, false, true, false, true, false, true, false, true, false, true, true, true, true, true, true, true],
        [false, false, false, false, false, false, false, false, true, false, true, false, false, true, false, true, true, false, false, false, false, false, false, false, false, false, false, false, false],
        [false, false, false, false, false, true, true, false, false, false, true, true, true, false, true, false, false, false, true, false, true, false, true, false, true, false, true, false, true],
        [true, true, false, true, true, true, false, true, true, true, true, false, false, false, false, false, false, false, false, false, true, false, false, true, true, false, true, true, false],
        [false, true, false, false, true, false, true, false, true, false, true, false, true, true, false, false, false, true, true, false, true, true, true, true, false, true, false, false, false],
        [false, false, false, true, true, false, false, false, false, false, true, true, true, false, false, true, true, true, false, false, false, false, true, true, false, true, false, false, false],
        [true, true, false, true, true, true, true, false, true, false, true, true, false, false, false, true, true, false, true, true, true, true, true, false, false, false, false, true, false],
        [true, false, true, true, false, false, false, false, false, true, false, false, false, true, false, false, true, true, true, true, true, false, true, false, true, true, false, true, true],
        [true, true, false, false, false, false, true, true, true, false, false, false, false, false, false, true, false, true, false, false, false, false, true, true, false, false, false, false, false],
        [false, false, true, false, true, false, false, false, false, false, true, true, false, false, false, true, true, false, true, true, false, true, true, false, true, true, true, true, true],
        [false, false, true, false, true, false, true, true, false, false, true, false, true, false, true, true, false, false, true, false, false, true, false, false, false, true, true, false, true],
        [true, true, true, true, false, false, false, true, false, false, true, false, false, false, true, false, true, true, false, false, true, false, true, true, true, false, false, false, true],
        [true, true, true, true, true, true, true, true, true, false, false, false, false, true, true, true, false, false, true, false, true, false, false, false, false, true, false, false, true],
        [true, false, false, false, false, true, false, false, true, false, true, true, false, true, true, false, false, false, true, true, true, true, true, false, true, false, false, false, false],
        [true, false, false, true, false, false, true, false, false, false, true, true, false, true, false, false, true, true, false, true, true, true, true, true, true, false, true, false, false],
        [false, false, false, false, false, false, false, false, true, false, true, false, false, true, true, false, true, true, true, false, true, false, false, false, true, true, true, false, false],
        [true, true, true, true, true, true, true, false, false, false, false, true, true, false, false, false, true, true, true, true, true, false, true, false, true, false, false, true, false],
        [true, false, false, false, false, false, true, false, true, true, false, true, true, true, true, false, false, false, true, true, true, false, false, false, true, true, false, false, false],
        [true, false, true, true, true, false, true, false, false, true, true, false, true, false, false, true, true, false, true, true, true, true, true, true, true, false, false, false, true],
        [true, false, true, true, true, false, true, false, false, true, true, false, false, false, true, false, true, false, true, true, true, false, false, true, false, true, true, true, false],
        [true, false, true, true, true, false, true, false, false, true, true, false, false, false, false, true, true, false, true, true, true, true, true, true, true, false, true, true, false],
        [true, false, false, false, false, false, true, false, false, true, false, true, true, true, false, true, true, true, false, false, true, true, false, false, true, true, true, false, true],
        [true, true, true, true, true, true, true, false, false, false, true, true, false, false, true, true, true, true, true, false, false, false, true, false, true, false, true, false, false]
    ];

    #[rustfmt::skip]
        let mat_fast_qr_com_v3: [[Module; 29]; 29] = [
        [FIND(T), FIND(T), FIND(T), FIND(T), FIND(T), FIND(T), FIND(T), EMPT(F), FORM(T), DATA(T), DATA(T), DATA(T), DATA(T), DATA(T), DATA(T), DATA(T), DATA(T), DATA(T), DATA(T), DATA(T), DATA(F), EMPT(F), FIND(T), FIND(T), FIND(T), FIND(T), FIND(T), FIND(T), FIND(T)],
        [FIND(T), FIND(F), FIND(F), FIND(F), FIND(F), FIND(F), FIND(T), EMPT(F), FORM(F), DATA(F), DATA(F), DATA(F), DATA(F), DATA(T), DATA(T), DATA(F), DATA(F), DATA(T), DATA(T), DATA(T), DATA(F), EMPT(F), FIND(T), FIND(F), FIND(F), FIND(F), FIND(F), FIND(F), FIND(T)],
        [FIND(T), FIND(F), FIND(T), FIND(T), FIND(T), FIND(F), FIND(T), EMPT(F), FORM(T), DATA(F), DATA(T), DATA(F), DATA(T), DATA(T), DATA(F), DATA(F), DATA(F), DATA(F), DATA(F), DATA(T), DATA(T), EMPT(F), FIND(T), FIND(F), FIND(T), FIND(T), FIND(T), FIND(F), FIND(T)],
        [FIND(T), FIND(F), FIND(T), FIND(T), FIND(T), FIND(F), FIND(T), EMPT(F), FORM(F), DATA(T), DATA(T), DATA(T), DATA(T), DATA(F), DATA(T), DATA(F), DATA(F), DATA(T), DATA(F), DATA(T), DATA(F), EMPT(F), FIND(T), FIND(F), FIND(T), FIND(T), FIND(T), FIND(F), FIND(T)],
        [FIND(T), FIND(F), FIND(T), FIND(T), FIND(T), FIND(F), FIND(T), EMPT(F), FORM(T), DATA(F), DATA(F), DATA(T), DATA(F), DATA(T), DATA(F), DATA(F), DATA(T), DATA(F), DATA(F), DATA(T), DATA(T), EMPT(F), FIND(T), FIND(F), FIND(T), FIND(T), FIND(T), FIND(F), FIND(T)],
        [FIND(T), FIND(F), FIND(F), FIND(F), FIND(F), FIND(F), FIND(T), EMPT(F), FORM(F), DATA(F), DATA(T), DATA(T), DATA(F), DATA(T), DATA(T), DATA(T), DATA(T), DATA(F), DATA(T), DATA(F), DATA(T), EMPT(F), FIND(T), FIND(F), FIND(F), FIND(F), FIND(F), FIND(F), FIND(T)],
        [FIND(T), FIND(T), FIND(T), FIND(T), FIND(T), FIND(T), FIND(T), EMPT(F), TIMG(T), TIMG(F), TIMG(T), TIMG(F), TIMG(T), TIMG(F), TIMG(T), TIMG(F), TIMG(T), TIMG(F), TIMG(T), TIMG(F), TIMG(T), EMPT(F), FIND(T), FIND(T), FIND(T), FIND(T), FIND(T), FIND(T), FIND(T)],
        [EMPT(F), EMPT(F), EMPT(F), EMPT(F), EMPT(F), EMPT(F), EMPT(F), EMPT(F), FORM(T), DATA(F), DATA(T), DATA(F), DATA(F), DATA(T), DATA(F), DATA(T), DATA(T), DATA(F), DATA(F), DATA(F), DATA(F), EMPT(F), EMPT(F), EMPT(F), EMPT(F), EMPT(F), EMPT(F), EMPT(F), EMPT(F)],
        [FORM(F), FORM(F), FORM(F), FORM(F), FORM(F), FORM(T), TIMG(T), FORM(F), FORM(F), DATA(F), DATA(T), DATA(T), DATA(T), DATA(F), DATA(T), DATA(F), DATA(F), DATA(F), DATA(T), DATA(F), DATA(T), FORM(F), FORM(T), FORM(F), FORM(T), FORM(F), FORM(T), FORM(F), FORM(T)],
        [DATA(T), DATA(T), DATA(F), DATA(T), DATA(T), DATA(T), TIMG(F), DATA(T), DATA(T), DATA(T), DATA(T), DATA(F), DATA(F), DATA(F), DATA(F), DATA(F), DATA(F), DATA(F), DATA(F), DATA(F), DATA(T), DATA(F), DATA(F), DATA(T), DATA(T), DATA(F), DATA(T), DATA(T), DATA(F)],
        [DATA(F), DATA(T), DATA(F), DATA(F), DATA(T), DATA(F), TIMG(T), DATA(F), DATA(T), DATA(F), DATA(T), DATA(F), DATA(T), DATA(T), DATA(F), DATA(F), DATA(F), DATA(T), DATA(T), DATA(F), DATA(T), DATA(T), DATA(T), DATA(T), DATA(F), DATA(T), DATA(F), DATA(F), DATA(F)],
        [DATA(F), DATA(F), DATA(F), DATA(T), DATA(T), DATA(F), TIMG(F), DATA(F), DATA(F), DATA(F), DATA(T), DATA(T), DATA(T), DATA(F), DATA(F), DATA(T), DATA(T), DATA(T), DATA(F), DATA(F), DATA(F), DATA(F), DATA(T), DATA(T), DATA(F), DATA(T), DATA(F), DATA(F), DATA(F)],
        [DATA(T), DATA(T), DATA(F), DATA(T), DATA(T), DATA(T), TIMG(T), DATA(F), DATA(T), DATA(F), DATA(T), DATA(T), DATA(F), DATA(F), DATA(F), DATA(T), DATA(T), DATA(F), DATA(T), DATA(T), DATA(T), DATA(T), DATA(T), DATA(F), DATA(F), DATA(F), DATA(F), DATA(T), DATA(F)],
        [DATA(T), DATA(F), DATA(T), DATA(T), DATA(F), DATA(F), TIMG(F), DATA(F), DATA(F), DATA(T), DATA(F), DATA(F), DATA(F), DATA(T), DATA(F), DATA(F), DATA(T), DATA(T), DATA(T), DATA(T), DATA(T), DATA(F), DATA(T), DATA(F), DATA(T), DATA(T), DATA(F), DATA(T), DATA(T)],
        [DATA(T), DATA(T), DATA(F), DATA(F), DATA(F), DATA(F), TIMG(T), DATA(T), DATA(T), DATA(F), DATA(F), DATA(F), DATA(F), DATA(F), DATA(F), DATA(T), DATA(F), DATA(T), DATA(F), DATA(F), DATA(F), DATA(F), DATA(T), DATA(T), DATA(F), DATA(F), DATA(F), DATA(F), DATA(F)],
        [DATA(F), DATA(F), DATA(T), DATA(F), DATA(T), DATA(F), TIMG(F), DATA(F), DATA(F), DATA(F), DATA(T), DATA(T), DATA(F), DATA(F), DATA(F), DATA(T), DATA(T), DATA(F), DATA(T), DATA(T), DATA(F), DATA(T), DATA(T), DATA(F), DATA(T), DATA(T), DATA(T), DATA(T), DATA(T)],
        [DATA(F), DATA(F), DATA(T), DATA(F), DATA(T), DATA(F), TIMG(T), DATA(T), DATA(F), DATA(F), DATA(T), DATA(F), DATA(T), DATA(F), DATA(T), DATA(T), DATA(F), DATA(F), DATA(T), DATA(F), DATA(F), DATA(T), DATA(F), DATA(F), DATA(F), DATA(T), DATA(T), DATA(F), DATA(T)],
        [DATA(T), DATA(T), DATA(T), DATA(T), DATA(F), DATA(F), TIMG(F), DATA(T), DATA(F), DATA(F), DATA(T), DATA(F), DATA(F), DATA(F), DATA(T), DATA(F), DATA(T), DATA(T), DATA(F), DATA(F), DATA(T), DATA(F), DATA(T), DATA(T), DATA(T), DATA(F), DATA(F), DATA(F), DATA(T)],
        [DATA(T), DATA(T), DATA(T), DATA(T), DATA(T), DATA(T), TIMG(T), DATA(T), DATA(T), DATA(F), DATA(F), DATA(F), DATA(F), DATA(T), DATA(T), DATA(T), DATA(F), DATA(F), DATA(T), DATA(F), DATA(T), DATA(F), DATA(F), DATA(F), DATA(F), DATA(T), DATA(F), DATA(F), DATA(T)],
        [DATA(T), DATA(F), DATA(F), DATA(F), DATA(F), DATA(T), TIMG(F), DATA(F), DATA(T), DATA(F), DATA(T), DATA(T), DATA(F), DATA(T), DATA(T), DATA(F), DATA(F), DATA(F), DATA(T), DATA(T), DATA(T), DATA(T), DATA(T), DATA(F), DATA(T), DATA(F), DATA(F), DATA(F), DATA(F)],
        [DATA(T), DATA(F), DATA(F), DATA(T), DATA(F), DATA(F), TIMG(T), DATA(F), DATA(F), DATA(F), DATA(T), DATA(T), DATA(F), DATA(T), DATA(F), DATA(F), DATA(T), DATA(T), DATA(F), DATA(T), ALIG(T), ALIG(T), ALIG(T), ALIG(T), ALIG(T), DATA(F), DATA(T), DATA(F), DATA(F)],
        [EMPT(F), EMPT(F), EMPT(F), EMPT(F), EMPT(F), EMPT(F), EMPT(F), EMPT(F), DARK(T), DATA(F), DATA(T), DATA(F), DATA(F), DATA(T), DATA(T), DATA(F), DATA(T), DATA(T), DATA(T), DATA(F), ALIG(T), ALIG(F), ALIG(F), ALIG(F), ALIG(T), DATA(T), DATA(T), DATA(F), DATA(F)],
        [FIND(T), FIND(T), FIND(T), FIND(T), FIND(T), FIND(T), FIND(T), EMPT(F), FORM(F), DATA(F), DATA(F), DATA(T), DATA(T), DATA(F), DATA(F), DATA(F), DATA(T), DATA(T), DATA(T), DATA(T), ALIG(T), ALIG(F), ALIG(T), ALIG(F), ALIG(T), DATA(F), DATA(F), DATA(T), DATA(F)],
        [FIND(T), FIND(F), FIND(F), FIND(F), FIND(F), FIND(F), FIND(T), EMPT(F), FORM(T), DATA(T), DATA(F), DATA(T), DATA(T), DATA(T), DATA(T), DATA(F), DATA(F), DATA(F), DATA(T), DATA(T), ALIG(T), ALIG(F), ALIG(F), ALIG(F), ALIG(T), DATA(T), DATA(F), DATA(F), DATA(F)],
        [FIND(T), FIND(F), FIND(T), FIND(T), FIND(T), FIND(F), FIND(T), EMPT(F), FORM(F), DATA(T), DATA(T), DATA(F), DATA(T), DATA(F), DATA(F), DATA(T), DATA(T), DATA(F), DATA(T), DATA(T), ALIG(T), ALIG(T), ALIG(T), ALIG(T), ALIG(T), DATA(F), DATA(F), DATA(F), DATA(T)],
        [FIND(T), FIND(F), FIND(T), FIND(T), FIND(T), FIND(F), FIND(T), EMPT(F), FORM(F), DATA(T), DATA(T), DATA(F), DATA(F), DATA(F), DATA(T), DATA(F), DATA(T), DATA(F), DATA(T), DATA(T), DATA(T), DATA(F), DATA(F), DATA(T), DATA(F), DATA(T), DATA(T), DATA(T), DATA(F)],
        [FIND(T), FIND(F), FIND(T), FIND(T), FIND(T), FIND(F), FIND(T), EMPT(F), FORM(F), DATA(T), DATA(T), DATA(F), DATA(F), DATA(F), DATA(F), DATA(T), DATA(T), DATA(F), DATA(T), DATA(T), DATA(T), DATA(T), DATA(T), DATA(T), DATA(T), DATA(F), DATA(T), DATA(T), DATA(F)],
        [FIND(T), FIND(F), FIND(F), FIND(F), FIND(F), FIND(F), FIND(T), EMPT(F), FORM(F), DATA(T), DATA(F), DATA(T), DATA(T), DATA(T), DATA(F), DATA(T), DATA(T), DATA(T), DATA(F), DATA(F), DATA(T), DATA(T), DATA(F), DATA(F), DATA(T), DATA(T), DATA(T), DATA(F), DATA(T)],
        [FIND(T), FIND(T), FIND(T), FIND(T), FIND(T), FIND(T), FIND(T), EMPT(F), FORM(F), DATA(F), DATA(T), DATA(T), DATA(F), DATA(F), DATA(T), DATA(T), DATA(T), DATA(T), DATA(T), DATA(F), DATA(F), DATA(F), DATA(T), DATA(F), DATA(T), DATA(F), DATA(T), DATA(F), DATA(F)]
    ];

    let qr = crate::default::create_mat_from_bool(&MAT_FAST_QR_COM_BOOL);

    for i in 0..qr.size {
        let row = &qr[i];
        for (j, elem) in row.iter().enumerate() {
            assert_eq!(elem, &mat_fast_qr_com_v3[i][j], "mat[{i}][{j}]");
        }
    }
}

#[test]
fn from_bool_v7() {
    #[rustfmt::skip]
    const MAT_FAST_QR_COM_V7_BOOL: [[bool; 45]; 45] = [
        [true, true, true, true, true, true, true, false, true, false, false, false, false, true, true, false, true, true, false, true, true, true, true, false, false, true, true, true, false, true, true, true, false, false, false, false, true, false, true, true, true, true, true, true, true],
        [true, false, false, false, false, false, true, false, true, false, false, false, false, true, false, false, false, true, false, false, false, false, true, true, false, false, true, false, false, false, false, false, false, true, false, true, false, false, true, false, false, false, false, false, true],
        [true, false, true, true, true, false, true, false, true, false, true, false, true, false, false, true, false, false, false, false, true, true, true, true, true, true, true, true, true, true, false, false, false, false, false, true, false, false, true, false, true, true, true, false, true],
        [true, false, true, true, true, false, true, false, false, true, true, true, false, true, true, true, true, true, true, false, true, false, true, true, true, true, true, false, true, false, false, true, true, false, false, true, true, false, true, false, true, true, true, false, true],
        [true, false, true, true, true, false, true, false, false, false, true, false, true, false, false, false, true, false, false, true, true, true, true, true, true, true, false, false, true, true, false, false, true, true, true, true, true, false, true, false, true, true, true, false, true],
        [true, false, false, false, false, false, true, false, true, false, false, true, true, false, false, true, false, false, true, false, true, false, false, false, true, true, true, false, true, false, true, true, true, true, false, false, false, false, true, false, false, false, false, false, true],
        [true, true, true, true, true, true, true, false, true, false, true, false, true, false, true, false, true, false, true, false, true, false, true, false, true, false, true, false, true, false, true, false, true, false, true, false, true, false, true, true, true, true, true, true, true],
        [false, false, false, false, false, false, false, false, true, false, false, true, true, false, true, false, true, false, false, false, true, false, false, false, true, false, false, true, false, false, true, true, false, false, true, true, false, false, false, false, false, false, false, false, false],
        [false, false, true, true, true, false, true, false, true, true, true, true, false, true, true, true, false, false, false, false, true, true, true, true, true, true, false, true, true, true, true, false, false, false, true, true, true, true, true, true, false, false, true, true, true],
        [true, false, false, false, false, true, false, false, true, true, true, true, true, true, false, false, false, false, false, true, false, true, true, true, false, false, false, true, true, false, true, true, false, true, false, false, true, false, false, false, false, true, false, true, false],
        [false, false, true, true, false, false, true, true, true, true, false, false, false, true, false, true, true, false, true, false, true, true, false, true, false, false, true, false, true, true, true, false, false, true, true, true, true, true, false, true, false, false, false, false, false],
        [false, true, true, true, true, true, false, true, false, true, false, true, false, true, true, false, false, true, false, false, false, true, true, true, false, false, false, true, true, true, false, false, false, false, false, false, true, false, false, true, false, true, false, true, false],
        [false, false, false, true, false, true, true, false, false, true, false, true, true, true, true, true, true, true, false, false, false, false, false, true, true, false, false, false, false, false, false, true, true, true, true, false, true, false, false, false, true, false, true, false, false],
        [true, false, false, false, true, true, false, false, false, false, false, false, true, false, true, false, false, false, false, false, false, true, true, true, true, true, false, true, false, true, false, false, true, true, false, true, false, true, false, true, true, false, false, false, false],
        [false, false, true, true, false, false, true, true, false, false, true, false, false, false, true, false, true, false, false, true, true, false, false, false, true, false, false, true, true, false, true, true, true, true, true, false, false, true, true, false, true, false, true, true, true],
        [false, false, true, false, true, false, false, false, true, false, true, false, true, true, true, true, true, true, false, true, false, false, false, true, false, false, true, true, true, false, true, true, false, true, false, true, false, true, true, false, false, true, true, false, true],
        [true, true, true, true, false, true, true, true, true, true, false, false, false, true, false, false, true, true, false, true, true, true, false, true, true, true, true, true, true, true, true, false, false, false, false, true, false, false, true, true, false, true, false, true, true],
        [false, false, false, false, true, false, false, true, true, false, false, false, true, false, false, true, false, true, true, true, true, false, true, false, false, false, false, true, false, false, true, true, false, true, false, true, true, true, false, false, false, false, false, false, true],
        [true, false, true, false, true, false, true, true, false, true, false, false, false, true, true, false, false, true, false, false, false, false, false, false, true, false, false, false, true, true, true, false, false, false, false, true, true, false, true, true, false, true, true, true, false],
        [true, false, true, true, true, false, false, false, true, true, true, true, false, false, false, false, true, true, false, false, false, true, true, false, true, false, false, true, false, true, false, false, true, false, true, true, true, true, true, true, true, true, true, false, true],
        [true, false, false, true, true, true, true, true, true, true, true, true, false, true, true, true, true, false, false, false, true, true, true, true, true, true, false, false, true, false, false, true, false, true, true, false, true, true, true, true, true, false, false, false, true],
        [true, true, true, false, true, false, false, false, true, false, true, false, false, true, true, false, false, true, false, false, true, false, false, false, true, false, false, false, false, true, false, true, false, false, true, true, true, false, false, false, true, false, true, false, true],
        [true, true, true, false, true, false, true, false, true, true, false, false, false, true, false, false, false, true, true, false, true, false, true, false, true, true, false, false, false, false, true, false, true, true, false, false, true, false, true, false, true, true, true, true, false],
        [true, false, true, false, true, false, false, false, true, false, false, false, false, false, true, true, false, true, true, true, true, false, false, false, true, true, false, true, false, false, false, true, false, true, false, false, true, false, false, false, true, false, true, true, false],
        [true, false, true, true, true, true, true, true, true, true, true, false, false, false, false, true, false, true, false, false, true, true, true, true, true, true, true, true, true, true, true, false, false, false, false, false, true, true, true, true, true, true, true, true, false],
        [true, true, false, false, true, false, false, false, true, true, true, true, false, true, false, true, false, true, false, true, false, false, false, true, true, true, true, true, true, true, true, true, false, true, false, true, true, false, true, true, false, true, false, true, false],
        [true, true, false, true, true, true, true, false, false, false, false, false, true, false, false, true, false, true, true, false, true, true, false, false, false, true, false, true, true, true, false, false, false, false, false, true, false, true, true, false, false, false, false, false, false],
        [true, false, true, false, false, true, false, false, true, true, false, false, false, true, false, false, false, false, false, true, false, true, false, true, false, true, false, false, true, false, true, false, false, false, true, false, true, false, false, true, false, true, false, true, false],
        [true, false, false, false, false, true, true, true, false, true, true, true, false, true, true, false, false, false, true, true, false, false, true, false, true, false, false, false, false, false, true, true, true, false, true, false, false, false, false, false, true, false, true, false, false],
        [true, true, true, false, true, false, false, false, true, false, true, false, true, false, false, false, false, true, false, true, false, true, false, false, true, false, false, false, true, true, true, false, true, false, false, false, true, true, false, false, false, false, true, false, false],
        [true, false, true, true, true, true, true, true, true, false, false, true, true, true, true, false, true, true, true, true, false, false, false, true, false, true, false, true, false, false, true, true, true, false, true, false, true, false, false, true, false, true, true, true, true],
        [true, false, false, true, false, false, false, false, true, false, false, false, true, true, false, false, false, false, false, false, true, true, false, true, false, false, false, true, false, false, false, true, false, false, true, false, false, true, false, false, false, false, true, false, true],
        [true, false, true, true, false, true, true, true, false, false, false, false, false, true, true, false, false, true, false, true, true, false, false, false, false, true, false, false, true, true, false, false, false, false, true, true, true, true, true, true, false, true, true, true, true],
        [false, true, true, true, true, true, false, false, false, false, false, true, false, false, true, true, true, false, false, false, false, true, true, true, false, false, false, true, true, true, true, true, false, true, false, true, false, false, true, false, true, true, true, true, false],
        [false, false, false, false, true, false, true, true, false, true, true, true, true, false, true, false, true, true, true, false, true, false, false, false, false, false, true, false, false, true, true, false, false, true, false, true, false, true, true, true, true, false, true, false, false],
        [false, true, true, true, true, false, false, false, true, false, false, true, false, true, false, false, false, false, false, false, false, false, true, false, false, false, true, true, false, false, false, false, false, false, true, false, true, false, false, false, true, true, true, true, false],
        [true, false, false, true, true, false, true, false, false, true, true, false, false, true, false, false, true, false, false, true, true, true, true, true, true, true, true, false, true, false, false, true, true, true, true, false, true, true, true, true, true, true, false, false, false],
        [false, false, false, false, false, false, false, false, true, false, false, true, false, false, false, true, true, true, true, false, true, false, false, false, true, false, false, true, true, false, true, false, true, false, true, true, true, false, false, false, true, false, true, false, true],
        [true, true, true, true, true, true, true, false, false, true, true, false, true, true, false, false, true, true, false, true, true, false, true, false, true, false, false, false, false, false, false, true, true, true, false, false, true, false, true, false, true, false, false, true, false],
        [true, false, false, false, false, false, true, false, false, false, false, true, true, false, false, false, false, true, true, false, true, false, false, false, true, true, false, false, false, true, false, false, true, true, false, false, true, false, false, false, true, true, true, true, true],
        [true, false, true, true, true, false, true, false, true, false, true, false, true, true, true, false, true, false, false, true, true, true, true, true, true, false, true, false, false, false, false, true, false, false, false, false, true, true, true, true, true, false, false, true, true],
        [true, false, true, true, true, false, true, false, true, true, true, true, false, true, true, false, false, true, false, true, true, false, false, true, true, false, true, true, false, false, false, false, false, true, false, false, false, false, false, false, false, true, false, true, false],
        [true, false, true, true, true, false, true, false, true, false, true, true, false, true, true, false, true, true, true, true, false, true, false, false, true, false, false, false, false, true, true, false, true, false, false, true, true, true, true, true, false, false, false, false, false],
        [true, false, false, false, false, false, true, false, false, false, false, true, false, false, false, true, false, false, false, false, false, true, true, true, false, true, false, false, true, true, false, false, false, false, true, false, true, false, false, false, false, true, false, false, false],
        [true, true, true, true, true, true, true, false, false, false, false, false, false, false, false, false, false, true, true, true, true, false, false, false, false, true, true, false, true, true, true, true, true, true, true, true, true, true, true, true, false, false, true, true, false]
    ];

    #[rustfmt::skip]
        let mat_fast_qr_com_v7: [[Module; 45]; 45] = [
        [FIND(T), FIND(T), FIND(T), FIND(T), FIND(T), FIND(T), FIND(T), EMPT(F), FORM(T), DATA(F), DATA(F), DATA(F), DATA(F), DATA(T), DATA(T), DATA(F), DATA(T), DATA(T), DATA(F), DATA(T), DATA(T), DATA(T), DATA(T), DATA(F), DATA(F), DATA(T), DATA(T), DATA(T), DATA(F), DATA(T), DATA(T), DATA(T), DATA(F), DATA(F), VERS(F), VERS(F), VERS(T), EMPT(F), FIND(T), FIND(T), FIND(T), FIND(T), FIND(T), FIND(T), FIND(T)],
        [FIND(T), FIND(F), FIND(F), FIND(F), FIND(F), FIND(F), FIND(T), EMPT(F), FORM(T), DATA(F), DATA(F), DATA(F), DATA(F), DATA(T), DATA(F), DATA(F), DATA(F), DATA(T), DATA(F), DATA(F), DATA(F), DATA(F), DATA(T), DATA(T), DATA(F), DATA(F), DATA(T), DATA(F), DATA(F), DATA(F), DATA(F), DATA(F), DATA(F), DATA(T), VERS(F), VERS(T), VERS(F), EMPT(F), FIND(T), FIND(F), FIND(F), FIND(F), FIND(F), FIND(F), FIND(T)],
        [FIND(T), FIND(F), FIND(T), FIND(T), FIND(T), FIND(F), FIND(T), EMPT(F), FORM(T), DATA(F), DATA(T), DATA(F), DATA(T), DATA(F), DATA(F), DATA(T), DATA(F), DATA(F), DATA(F), DATA(F), DATA(T), DATA(T), DATA(T), DATA(T), DATA(T), DATA(T), DATA(T), DATA(T), DATA(T), DATA(T), DATA(F), DATA(F), DATA(F), DATA(F), VERS(F), VERS(T), VERS(F), EMPT(F), FIND(T), FIND(F), FIND(T), FIND(T), FIND(T), FIND(F), FIND(T)],
        [FIND(T), FIND(F), FIND(T), FIND(T), FIND(T), FIND(F), FIND(T), EMPT(F), FORM(F), DATA(T), DATA(T), DATA(T), DATA(F), DATA(T), DATA(T), DATA(T), DATA(T), DATA(T), DATA(T), DATA(F), DATA(T), DATA(F), DATA(T), DATA(T), DATA(T), DATA(T), DATA(T), DATA(F), DATA(T), DATA(F), DATA(F), DATA(T), DATA(T), DATA(F), VERS(F), VERS(T), VERS(T), EMPT(F), FIND(T), FIND(F), FIND(T), FIND(T), FIND(T), FIND(F), FIND(T)],
        [FIND(T), FIND(F), FIND(T), FIND(T), FIND(T), FIND(F), FIND(T), EMPT(F), FORM(F), DATA(F), DATA(T), DATA(F), DATA(T), DATA(F), DATA(F), DATA(F), DATA(T), DATA(F), DATA(F), DATA(T), ALIG(T), ALIG(T), ALIG(T), ALIG(T), ALIG(T), DATA(T), DATA(F), DATA(F), DATA(T), DATA(T), DATA(F), DATA(F), DATA(T), DATA(T), VERS(T), VERS(T), VERS(T), EMPT(F), FIND(T), FIND(F), FIND(T), FIND(T), FIND(T), FIND(F), FIND(T)],
        [FIND(T), FIND(F), FIND(F), FIND(F), FIND(F), FIND(F), FIND(T), EMPT(F), FORM(T), DATA(F), DATA(F), DATA(T), DATA(T), DATA(F), DATA(F), DATA(T), DATA(F), DATA(F), DATA(T), DATA(F), ALIG(T), ALIG(F), ALIG(F), ALIG(F), ALIG(T), DATA(T), DATA(T), DATA(F), DATA(T), DATA(F), DATA(T), DATA(T), DATA(T), DATA(T), VERS(F), VERS(F), VERS(F), EMPT(F), FIND(T), FIND(F), FIND(F), FIND(F), FIND(F), FIND(F), FIND(T)],
        [FIND(T), FIND(T), FIND(T), FIND(T), FIND(T), FIND(T), FIND(T), EMPT(F), TIMG(T), TIMG(F), TIMG(T), TIMG(F), TIMG(T), TIMG(F), TIMG(T), TIMG(F), TIMG(T), TIMG(F), TIMG(T), TIMG(F), ALIG(T), ALIG(F), ALIG(T), ALIG(F), ALIG(T), TIMG(F), TIMG(T), TIMG(F), TIMG(T), TIMG(F), TIMG(T), TIMG(F), TIMG(T), TIMG(F), TIMG(T), TIMG(F), TIMG(T), EMPT(F), FIND(T), FIND(T), FIND(T), FIND(T), FIND(T), FIND(T), FIND(T)],
        [EMPT(F), EMPT(F), EMPT(F), EMPT(F), EMPT(F), EMPT(F), EMPT(F), EMPT(F), FORM(T), DATA(F), DATA(F), DATA(T), DATA(T), DATA(F), DATA(T), DATA(F), DATA(T), DATA(F), DATA(F), DATA(F), ALIG(T), ALIG(F), ALIG(F), ALIG(F), ALIG(T), DATA(F), DATA(F), DATA(T), DATA(F), DATA(F), DATA(T), DATA(T), DATA(F), DATA(F), DATA(T), DATA(T), DATA(F), EMPT(F), EMPT(F), EMPT(F), EMPT(F), EMPT(F), EMPT(F), EMPT(F), EMPT(F)],
        [FORM(F), FORM(F), FORM(T), FORM(T), FORM(T), FORM(F), TIMG(T), FORM(F), FORM(T), DATA(T), DATA(T), DATA(T), DATA(F), DATA(T), DATA(T), DATA(T), DATA(F), DATA(F), DATA(F), DATA(F), ALIG(T), ALIG(T), ALIG(T), ALIG(T), ALIG(T), DATA(T), DATA(F), DATA(T), DATA(T), DATA(T), DATA(T), DATA(F), DATA(F), DATA(F), DATA(T), DATA(T), DATA(T), FORM(T), FORM(T), FORM(T), FORM(F), FORM(F), FORM(T), FORM(T), FORM(T)],
        [DATA(T), DATA(F), DATA(F), DATA(F), DATA(F), DATA(T), TIMG(F), DATA(F), DATA(T), DATA(T), DATA(T), DATA(T), DATA(T), DATA(T), DATA(F), DATA(F), DATA(F), DATA(F), DATA(F), DATA(T), DATA(F), DATA(T), DATA(T), DATA(T), DATA(F), DATA(F), DATA(F), DATA(T), DATA(T), DATA(F), DATA(T), DATA(T), DATA(F), DATA(T), DATA(F), DATA(F), DATA(T), DATA(F), DATA(F), DATA(F), DATA(F), DATA(T), DATA(F), DATA(T), DATA(F)],
        [DATA(F), DATA(F), DATA(T), DATA(T), DATA(F), DATA(F), TIMG(T), DATA(T), DATA(T), DATA(T), DATA(F), DATA(F), DATA(F), DATA(T), DATA(F), DATA(T), DATA(T), DATA(F), DATA(T), DATA(F), DATA(T), DATA(T), DATA(F), DATA(T), DATA(F), DATA(F), DATA(T), DATA(F), DATA(T), DATA(T), DATA(T), DATA(F), DATA(F), DATA(T), DATA(T), DATA(T), DATA(T), DATA(T), DATA(F), DATA(T), DATA(F), DATA(F), DATA(F), DATA(F), DATA(F)],
        [DATA(F), DATA(T), DATA(T), DATA(T), DATA(T), DATA(T), TIMG(F), DATA(T), DATA(F), DATA(T), DATA(F), DATA(T), DATA(F), DATA(T), DATA(T), DATA(F), DATA(F), DATA(T), DATA(F), DATA(F), DATA(F), DATA(T), DATA(T), DATA(T), DATA(F), DATA(F), DATA(F), DATA(T), DATA(T), DATA(T), DATA(F), DATA(F), DATA(F), DATA(F), DATA(F), DATA(F), DATA(T), DATA(F), DATA(F), DATA(T), DATA(F), DATA(T), DATA(F), DATA(T), DATA(F)],
        [DATA(F), DATA(F), DATA(F), DATA(T), DATA(F), DATA(T), TIMG(T), DATA(F), DATA(F), DATA(T), DATA(F), DATA(T), DATA(T), DATA(T), DATA(T), DATA(T), DATA(T), DATA(T), DATA(F), DATA(F), DATA(F), DATA(F), DATA(F), DATA(T), DATA(T), DATA(F), DATA(F), DATA(F), DATA(F), DATA(F), DATA(F), DATA(T), DATA(T), DATA(T), DATA(T), DATA(F), DATA(T), DATA(F), DATA(F), DATA(F), DATA(T), DATA(F), DATA(T), DATA(F), DATA(F)],
        [DATA(T), DATA(F), DATA(F), DATA(F), DATA(T), DATA(T), TIMG(F), DATA(F), DATA(F), DATA(F), DATA(F), DATA(F), DATA(T), DATA(F), DATA(T), DATA(F), DATA(F), DATA(F), DATA(F), DATA(F), DATA(F), DATA(T), DATA(T), DATA(T), DATA(T), DATA(T), DATA(F), DATA(T), DATA(F), DATA(T), DATA(F), DATA(F), DATA(T), DATA(T), DATA(F), DATA(T), DATA(F), DATA(T), DATA(F), DATA(T), DATA(T), DATA(F), DATA(F), DATA(F), DATA(F)],
        [DATA(F), DATA(F), DATA(T), DATA(T), DATA(F), DATA(F), TIMG(T), DATA(T), DATA(F), DATA(F), DATA(T), DATA(F), DATA(F), DATA(F), DATA(T), DATA(F), DATA(T), DATA(F), DATA(F), DATA(T), DATA(T), DATA(F), DATA(F), DATA(F), DATA(T), DATA(F), DATA(F), DATA(T), DATA(T), DATA(F), DATA(T), DATA(T), DATA(T), DATA(T), DATA(T), DATA(F), DATA(F), DATA(T), DATA(T), DATA(F), DATA(T), DATA(F), DATA(T), DATA(T), DATA(T)],
        [DATA(F), DATA(F), DATA(T), DATA(F), DATA(T), DATA(F), TIMG(F), DATA(F), DATA(T), DATA(F), DATA(T), DATA(F), DATA(T), DATA(T), DATA(T), DATA(T), DATA(T), DATA(T), DATA(F), DATA(T), DATA(F), DATA(F), DATA(F), DATA(T), DATA(F), DATA(F), DATA(T), DATA(T), DATA(T), DATA(F), DATA(T), DATA(T), DATA(F), DATA(T), DATA(F), DATA(T), DATA(F), DATA(T), DATA(T), DATA(F), DATA(F), DATA(T), DATA(T), DATA(F), DATA(T)],
        [DATA(T), DATA(T), DATA(T), DATA(T), DATA(F), DATA(T), TIMG(T), DATA(T), DATA(T), DATA(T), DATA(F), DATA(F), DATA(F), DATA(T), DATA(F), DATA(F), DATA(T), DATA(T), DATA(F), DATA(T), DATA(T), DATA(T), DATA(F), DATA(T), DATA(T), DATA(T), DATA(T), DATA(T), DATA(T), DATA(T), DATA(T), DATA(F), DATA(F), DATA(F), DATA(F), DATA(T), DATA(F), DATA(F), DATA(T), DATA(T), DATA(F), DATA(T), DATA(F), DATA(T), DATA(T)],
        [DATA(F), DATA(F), DATA(F), DATA(F), DATA(T), DATA(F), TIMG(F), DATA(T), DATA(T), DATA(F), DATA(F), DATA(F), DATA(T), DATA(F), DATA(F), DATA(T), DATA(F), DATA(T), DATA(T), DATA(T), DATA(T), DATA(F), DATA(T), DATA(F), DATA(F), DATA(F), DATA(F), DATA(T), DATA(F), DATA(F), DATA(T), DATA(T), DATA(F), DATA(T), DATA(F), DATA(T), DATA(T), DATA(T), DATA(F), DATA(F), DATA(F), DATA(F), DATA(F), DATA(F), DATA(T)],
        [DATA(T), DATA(F), DATA(T), DATA(F), DATA(T), DATA(F), TIMG(T), DATA(T), DATA(F), DATA(T), DATA(F), DATA(F), DATA(F), DATA(T), DATA(T), DATA(F), DATA(F), DATA(T), DATA(F), DATA(F), DATA(F), DATA(F), DATA(F), DATA(F), DATA(T), DATA(F), DATA(F), DATA(F), DATA(T), DATA(T), DATA(T), DATA(F), DATA(F), DATA(F), DATA(F), DATA(T), DATA(T), DATA(F), DATA(T), DATA(T), DATA(F), DATA(T), DATA(T), DATA(T), DATA(F)],
        [DATA(T), DATA(F), DATA(T), DATA(T), DATA(T), DATA(F), TIMG(F), DATA(F), DATA(T), DATA(T), DATA(T), DATA(T), DATA(F), DATA(F), DATA(F), DATA(F), DATA(T), DATA(T), DATA(F), DATA(F), DATA(F), DATA(T), DATA(T), DATA(F), DATA(T), DATA(F), DATA(F), DATA(T), DATA(F), DATA(T), DATA(F), DATA(F), DATA(T), DATA(F), DATA(T), DATA(T), DATA(T), DATA(T), DATA(T), DATA(T), DATA(T), DATA(T), DATA(T), DATA(F), DATA(T)],
        [DATA(T), DATA(F), DATA(F), DATA(T), ALIG(T), ALIG(T), ALIG(T), ALIG(T), ALIG(T), DATA(T), DATA(T), DATA(T), DATA(F), DATA(T), DATA(T), DATA(T), DATA(T), DATA(F), DATA(F), DATA(F), ALIG(T), ALIG(T), ALIG(T), ALIG(T), ALIG(T), DATA(T), DATA(F), DATA(F), DATA(T), DATA(F), DATA(F), DATA(T), DATA(F), DATA(T), DATA(T), DATA(F), ALIG(T), ALIG(T), ALIG(T), ALIG(T), ALIG(T), DATA(F), DATA(F), DATA(F), DATA(T)],
        [DATA(T), DATA(T), DATA(T), DATA(F), ALIG(T), ALIG(F), ALIG(F), ALIG(F), ALIG(T), DATA(F), DATA(T), DATA(F), DATA(F), DATA(T), DATA(T), DATA(F), DATA(F), DATA(T), DATA(F), DATA(F), ALIG(T), ALIG(F), ALIG(F), ALIG(F), ALIG(T), DATA(F), DATA(F), DATA(F), DATA(F), DATA(T), DATA(F), DATA(T), DATA(F), DATA(F), DATA(T), DATA(T), ALIG(T), ALIG(F), ALIG(F), ALIG(F), ALIG(T), DATA(F), DATA(T), DATA(F), DATA(T)],
        [DATA(T), DATA(T), DATA(T), DATA(F), ALIG(T), ALIG(F), ALIG(T), ALIG(F), ALIG(T), DATA(T), DATA(F), DATA(F), DATA(F), DATA(T), DATA(F), DATA(F), DATA(F), DATA(T), DATA(T), DATA(F), ALIG(T), ALIG(F), ALIG(T), ALIG(F), ALIG(T), DATA(T), DATA(F), DATA(F), DATA(F), DATA(F), DATA(T), DATA(F), DATA(T), DATA(T), DATA(F), DATA(F), ALIG(T), ALIG(F), ALIG(T), ALIG(F), ALIG(T), DATA(T), DATA(T), DATA(T), DATA(F)],
        [DATA(T), DATA(F), DATA(T), DATA(F), ALIG(T), ALIG(F), ALIG(F), ALIG(F), ALIG(T), DATA(F), DATA(F), DATA(F), DATA(F), DATA(F), DATA(T), DATA(T), DATA(F), DATA(T), DATA(T), DATA(T), ALIG(T), ALIG(F), ALIG(F), ALIG(F), ALIG(T), DATA(T), DATA(F), DATA(T), DATA(F), DATA(F), DATA(F), DATA(T), DATA(F), DATA(T), DATA(F), DATA(F), ALIG(T), ALIG(F), ALIG(F), ALIG(F), ALIG(T), DATA(F), DATA(T), DATA(T), DATA(F)],
        [DATA(T), DATA(F), DATA(T), DATA(T), ALIG(T), ALIG(T), ALIG(T), ALIG(T), ALIG(T), DATA(T), DATA(T), DATA(F), DATA(F), DATA(F), DATA(F), DATA(T), DATA(F), DATA(T), DATA(F), DATA(F), ALIG(T), ALIG(T), ALIG(T), ALIG(T), ALIG(T), DATA(T), DATA(T), DATA(T), DATA(T), DATA(T), DATA(T), DATA(F), DATA(F), DATA(F), DATA(F), DATA(F), ALIG(T), ALIG(T), ALIG(T), ALIG(T), ALIG(T), DATA(T), DATA(T), DATA(T), DATA(F)],
        [DATA(T), DATA(T), DATA(F), DATA(F), DATA(T), DATA(F), TIMG(F), DATA(F), DATA(T), DATA(T), DATA(T), DATA(T), DATA(F), DATA(T), DATA(F), DATA(T), DATA(F), DATA(T), DATA(F), DATA(T), DATA(F), DATA(F), DATA(F), DATA(T), DATA(T), DATA(T), DATA(T), DATA(T), DATA(T), DATA(T), DATA(T), DATA(T), DATA(F), DATA(T), DATA(F), DATA(T), DATA(T), DATA(F), DATA(T), DATA(T), DATA(F), DATA(T), DATA(F), DATA(T), DATA(F)],
        [DATA(T), DATA(T), DATA(F), DATA(T), DATA(T), DATA(T), TIMG(T), DATA(F), DATA(F), DATA(F), DATA(F), DATA(F), DATA(T), DATA(F), DATA(F), DATA(T), DATA(F), DATA(T), DATA(T), DATA(F), DATA(T), DATA(T), DATA(F), DATA(F), DATA(F), DATA(T), DATA(F), DATA(T), DATA(T), DATA(T), DATA(F), DATA(F), DATA(F), DATA(F), DATA(F), DATA(T), DATA(F), DATA(T), DATA(T), DATA(F), DATA(F), DATA(F), DATA(F), DATA(F), DATA(F)],
        [DATA(T), DATA(F), DATA(T), DATA(F), DATA(F), DATA(T), TIMG(F), DATA(F), DATA(T), DATA(T), DATA(F), DATA(F), DATA(F), DATA(T), DATA(F), DATA(F), DATA(F), DATA(F), DATA(F), DATA(T), DATA(F), DATA(T), DATA(F), DATA(T), DATA(F), DATA(T), DATA(F), DATA(F), DATA(T), DATA(F), DATA(T), DATA(F), DATA(F), DATA(F), DATA(T), DATA(F), DATA(T), DATA(F), DATA(F), DATA(T), DATA(F), DATA(T), DATA(F), DATA(T), DATA(F)],
        [DATA(T), DATA(F), DATA(F), DATA(F), DATA(F), DATA(T), TIMG(T), DATA(T), DATA(F), DATA(T), DATA(T), DATA(T), DATA(F), DATA(T), DATA(T), DATA(F), DATA(F), DATA(F), DATA(T), DATA(T), DATA(F), DATA(F), DATA(T), DATA(F), DATA(T), DATA(F), DATA(F), DATA(F), DATA(F), DATA(F), DATA(T), DATA(T), DATA(T), DATA(F), DATA(T), DATA(F), DATA(F), DATA(F), DATA(F), DATA(F), DATA(T), DATA(F), DATA(T), DATA(F), DATA(F)],
        [DATA(T), DATA(T), DATA(T), DATA(F), DATA(T), DATA(F), TIMG(F), DATA(F), DATA(T), DATA(F), DATA(T), DATA(F), DATA(T), DATA(F), DATA(F), DATA(F), DATA(F), DATA(T), DATA(F), DATA(T), DATA(F), DATA(T), DATA(F), DATA(F), DATA(T), DATA(F), DATA(F), DATA(F), DATA(T), DATA(T), DATA(T), DATA(F), DATA(T), DATA(F), DATA(F), DATA(F), DATA(T), DATA(T), DATA(F), DATA(F), DATA(F), DATA(F), DATA(T), DATA(F), DATA(F)],
        [DATA(T), DATA(F), DATA(T), DATA(T), DATA(T), DATA(T), TIMG(T), DATA(T), DATA(T), DATA(F), DATA(F), DATA(T), DATA(T), DATA(T), DATA(T), DATA(F), DATA(T), DATA(T), DATA(T), DATA(T), DATA(F), DATA(F), DATA(F), DATA(T), DATA(F), DATA(T), DATA(F), DATA(T), DATA(F), DATA(F), DATA(T), DATA(T), DATA(T), DATA(F), DATA(T), DATA(F), DATA(T), DATA(F), DATA(F), DATA(T), DATA(F), DATA(T), DATA(T), DATA(T), DATA(T)],
        [DATA(T), DATA(F), DATA(F), DATA(T), DATA(F), DATA(F), TIMG(F), DATA(F), DATA(T), DATA(F), DATA(F), DATA(F), DATA(T), DATA(T), DATA(F), DATA(F), DATA(F), DATA(F), DATA(F), DATA(F), DATA(T), DATA(T), DATA(F), DATA(T), DATA(F), DATA(F), DATA(F), DATA(T), DATA(F), DATA(F), DATA(F), DATA(T), DATA(F), DATA(F), DATA(T), DATA(F), DATA(F), DATA(T), DATA(F), DATA(F), DATA(F), DATA(F), DATA(T), DATA(F), DATA(T)],
        [DATA(T), DATA(F), DATA(T), DATA(T), DATA(F), DATA(T), TIMG(T), DATA(T), DATA(F), DATA(F), DATA(F), DATA(F), DATA(F), DATA(T), DATA(T), DATA(F), DATA(F), DATA(T), DATA(F), DATA(T), DATA(T), DATA(F), DATA(F), DATA(F), DATA(F), DATA(T), DATA(F), DATA(F), DATA(T), DATA(T), DATA(F), DATA(F), DATA(F), DATA(F), DATA(T), DATA(T), DATA(T), DATA(T), DATA(T), DATA(T), DATA(F), DATA(T), DATA(T), DATA(T), DATA(T)],
        [DATA(F), DATA(T), DATA(T), DATA(T), DATA(T), DATA(T), TIMG(F), DATA(F), DATA(F), DATA(F), DATA(F), DATA(T), DATA(F), DATA(F), DATA(T), DATA(T), DATA(T), DATA(F), DATA(F), DATA(F), DATA(F), DATA(T), DATA(T), DATA(T), DATA(F), DATA(F), DATA(F), DATA(T), DATA(T), DATA(T), DATA(T), DATA(T), DATA(F), DATA(T), DATA(F), DATA(T), DATA(F), DATA(F), DATA(T), DATA(F), DATA(T), DATA(T), DATA(T), DATA(T), DATA(F)],
        [VERS(F), VERS(F), VERS(F), VERS(F), VERS(T), VERS(F), TIMG(T), DATA(T), DATA(F), DATA(T), DATA(T), DATA(T), DATA(T), DATA(F), DATA(T), DATA(F), DATA(T), DATA(T), DATA(T), DATA(F), DATA(T), DATA(F), DATA(F), DATA(F), DATA(F), DATA(F), DATA(T), DATA(F), DATA(F), DATA(T), DATA(T), DATA(F), DATA(F), DATA(T), DATA(F), DATA(T), DATA(F), DATA(T), DATA(T), DATA(T), DATA(T), DATA(F), DATA(T), DATA(F), DATA(F)],
        [VERS(F), VERS(T), VERS(T), VERS(T), VERS(T), VERS(F), TIMG(F), DATA(F), DATA(T), DATA(F), DATA(F), DATA(T), DATA(F), DATA(T), DATA(F), DATA(F), DATA(F), DATA(F), DATA(F), DATA(F), DATA(F), DATA(F), DATA(T), DATA(F), DATA(F), DATA(F), DATA(T), DATA(T), DATA(F), DATA(F), DATA(F), DATA(F), DATA(F), DATA(F), DATA(T), DATA(F), DATA(T), DATA(F), DATA(F), DATA(F), DATA(T), DATA(T), DATA(T), DATA(T), DATA(F)],
        [VERS(T), VERS(F), VERS(F), VERS(T), VERS(T), VERS(F), TIMG(T), DATA(F), DATA(F), DATA(T), DATA(T), DATA(F), DATA(F), DATA(T), DATA(F), DATA(F), DATA(T), DATA(F), DATA(F), DATA(T), ALIG(T), ALIG(T), ALIG(T), ALIG(T), ALIG(T), DATA(T), DATA(T), DATA(F), DATA(T), DATA(F), DATA(F), DATA(T), DATA(T), DATA(T), DATA(T), DATA(F), ALIG(T), ALIG(T), ALIG(T), ALIG(T), ALIG(T), DATA(T), DATA(F), DATA(F), DATA(F)],
        [EMPT(F), EMPT(F), EMPT(F), EMPT(F), EMPT(F), EMPT(F), EMPT(F), EMPT(F), DARK(T), DATA(F), DATA(F), DATA(T), DATA(F), DATA(F), DATA(F), DATA(T), DATA(T), DATA(T), DATA(T), DATA(F), ALIG(T), ALIG(F), ALIG(F), ALIG(F), ALIG(T), DATA(F), DATA(F), DATA(T), DATA(T), DATA(F), DATA(T), DATA(F), DATA(T), DATA(F), DATA(T), DATA(T), ALIG(T), ALIG(F), ALIG(F), ALIG(F), ALIG(T), DATA(F), DATA(T), DATA(F), DATA(T)],
        [FIND(T), FIND(T), FIND(T), FIND(T), FIND(T), FIND(T), FIND(T), EMPT(F), FORM(F), DATA(T), DATA(T), DATA(F), DATA(T), DATA(T), DATA(F), DATA(F), DATA(T), DATA(T), DATA(F), DATA(T), ALIG(T), ALIG(F), ALIG(T), ALIG(F), ALIG(T), DATA(F), DATA(F), DATA(F), DATA(F), DATA(F), DATA(F), DATA(T), DATA(T), DATA(T), DATA(F), DATA(F), ALIG(T), ALIG(F), ALIG(T), ALIG(F), ALIG(T), DATA(F), DATA(F), DATA(T), DATA(F)],
        [FIND(T), FIND(F), FIND(F), FIND(F), FIND(F), FIND(F), FIND(T), EMPT(F), FORM(F), DATA(F), DATA(F), DATA(T), DATA(T), DATA(F), DATA(F), DATA(F), DATA(F), DATA(T), DATA(T), DATA(F), ALIG(T), ALIG(F), ALIG(F), ALIG(F), ALIG(T), DATA(T), DATA(F), DATA(F), DATA(F), DATA(T), DATA(F), DATA(F), DATA(T), DATA(T), DATA(F), DATA(F), ALIG(T), ALIG(F), ALIG(F), ALIG(F), ALIG(T), DATA(T), DATA(T), DATA(T), DATA(T)],
        [FIND(T), FIND(F), FIND(T), FIND(T), FIND(T), FIND(F), FIND(T), EMPT(F), FORM(T), DATA(F), DATA(T), DATA(F), DATA(T), DATA(T), DATA(T), DATA(F), DATA(T), DATA(F), DATA(F), DATA(T), ALIG(T), ALIG(T), ALIG(T), ALIG(T), ALIG(T), DATA(F), DATA(T), DATA(F), DATA(F), DATA(F), DATA(F), DATA(T), DATA(F), DATA(F), DATA(F), DATA(F), ALIG(T), ALIG(T), ALIG(T), ALIG(T), ALIG(T), DATA(F), DATA(F), DATA(T), DATA(T)],
        [FIND(T), FIND(F), FIND(T), FIND(T), FIND(T), FIND(F), FIND(T), EMPT(F), FORM(T), DATA(T), DATA(T), DATA(T), DATA(F), DATA(T), DATA(T), DATA(F), DATA(F), DATA(T), DATA(F), DATA(T), DATA(T), DATA(F), DATA(F), DATA(T), DATA(T), DATA(F), DATA(T), DATA(T), DATA(F), DATA(F), DATA(F), DATA(F), DATA(F), DATA(T), DATA(F), DATA(F), DATA(F), DATA(F), DATA(F), DATA(F), DATA(F), DATA(T), DATA(F), DATA(T), DATA(F)],
        [FIND(T), FIND(F), FIND(T), FIND(T), FIND(T), FIND(F), FIND(T), EMPT(F), FORM(T), DATA(F), DATA(T), DATA(T), DATA(F), DATA(T), DATA(T), DATA(F), DATA(T), DATA(T), DATA(T), DATA(T), DATA(F), DATA(T), DATA(F), DATA(F), DATA(T), DATA(F), DATA(F), DATA(F), DATA(F), DATA(T), DATA(T), DATA(F), DATA(T), DATA(F), DATA(F), DATA(T), DATA(T), DATA(T), DATA(T), DATA(T), DATA(F), DATA(F), DATA(F), DATA(F), DATA(F)],
        [FIND(T), FIND(F), FIND(F), FIND(F), FIND(F), FIND(F), FIND(T), EMPT(F), FORM(F), DATA(F), DATA(F), DATA(T), DATA(F), DATA(F), DATA(F), DATA(T), DATA(F), DATA(F), DATA(F), DATA(F), DATA(F), DATA(T), DATA(T), DATA(T), DATA(F), DATA(T), DATA(F), DATA(F), DATA(T), DATA(T), DATA(F), DATA(F), DATA(F), DATA(F), DATA(T), DATA(F), DATA(T), DATA(F), DATA(F), DATA(F), DATA(F), DATA(T), DATA(F), DATA(F), DATA(F)],
        [FIND(T), FIND(T), FIND(T), FIND(T), FIND(T), FIND(T), FIND(T), EMPT(F), FORM(F), DATA(F), DATA(F), DATA(F), DATA(F), DATA(F), DATA(F), DATA(F), DATA(F), DATA(T), DATA(T), DATA(T), DATA(T), DATA(F), DATA(F), DATA(F), DATA(F), DATA(T), DATA(T), DATA(F), DATA(T), DATA(T), DATA(T), DATA(T), DATA(T), DATA(T), DATA(T), DATA(T), DATA(T), DATA(T), DATA(T), DATA(T), DATA(F), DATA(F), DATA(T), DATA(T), DATA(F)]
    ];

    let qr = crate::default::create_mat_from_bool(&MAT_FAST_QR_COM_V7_BOOL);

    for i in 0..qr.size {
        let row = &qr[i];
        for (j, elem) in row.iter().enumerate() {
            assert_eq!(elem, &mat_fast_qr_com_v7[i][j], "mat[{i}][{j}]");
        }
    }
}

#[test]
fn transpose() {
    let mut qr = QRCode::default(10);
    for i in 0..100 {
        qr.data[i] = Module(i as u8);
    }

    let transpose = crate::default::transpose(&qr);
    for i in 0..10 {
        for j in 0..10 {
            assert_eq!(
                transpose[j][i], qr[i][j],
                "transpose[{i}][{j}] doesn't match"
            );
        }
    }
}
