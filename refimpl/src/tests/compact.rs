use crate::compact::CompactQR;

#[test]
fn push8_lined() {
    let mut expected = [0u8; 64];
    let mut res = CompactQR::with_len(64);

    res.push_u8(0);
    res.push_u8(1);
    res.push_u8(2);

    expected[1] = 1;
    expected[2] = 2;

    assert_eq!(res.len, 8 * 3, "expected 24, got {}", res.len);
    assert_eq!(res.get_data()[..4], expected[..4]);
}

#[test]
fn push_bits_half() {
    let mut expected = [0u8; 64];
    let mut res = CompactQR::with_len(64);

    res.push_bits(0b1111, 4);
    assert_eq!(res.len, 4, "expected 4, got {}", res.len);
    res.push_bits(0, 8);
    assert_eq!(res.len, 12, "expected 12, got {}", res.len);
    res.push_bits(0b1111, 4);
    assert_eq!(res.len, 16, "expected 16, got {}", res.len);

    expected[0] = 0b1111_0000;
    expected[1] = 0b0000_1111;

    assert_eq!(res.get_data()[..4], expected[..4]);
}

#[test]
fn push_bits_random() {
    let mut expected = [0u8; 64];
    let mut res = CompactQR::with_len(64);

    res.push_bits(0b1111, 2);
    expected[0] = 0b1100_0000;
    assert_eq!(res.len, 2, "expected 2, got {}", res.len);
    assert_eq!(res.get_data()[..4], expected[..4]);

    res.push_bits(0, 1);
    expected[0] = 0b1100_0000;
    assert_eq!(res.len, 3, "expected 3, got {}", res.len);
    assert_eq!(res.get_data()[..4], expected[..4]);

    res.push_bits(5, 3);
    expected[0] = 0b1101_0100;
    assert_eq!(res.len, 6, "expected 6, got {}", res.len);
    assert_eq!(res.get_data()[..4], expected[..4]);

    res.push_bits(0b1101, 2);
    expected[0] = 0b1101_0101;
    assert_eq!(res.len, 8, "expected 8, got {}", res.len);
    assert_eq!(res.get_data()[..4], expected[..4]);
}

#[test]
fn push_bits_push8() {
    let mut expected = [0u8; 64];
    let mut res = CompactQR::with_len(64);

    res.push_bits(0b1111, 3);
    expected[0] = 0b1110_0000;
    assert_eq!(res.get_data()[..4], expected[..4]);

    res.push_u8(0b1001_1110);
    expected[0] = 0b1111_0011;
    expected[1] = 0b1100_0000;
    assert_eq!(res.get_data()[..4], expected[..4]);
}

#[test]
fn push_bits_push8_2() {
    let mut expected = [0u8; 64];
    let mut res = CompactQR::with_len(64);

    res.push_bits(0b1111, 3);
    expected[0] = 0b1110_0000;
    assert_eq!(res.get_data()[..4], expected[..4]);

    res.push_u8(0b1001_1110);
    expected[0] = 0b1111_0011;
    expected[1] = 0b1100_0000;
    assert_eq!(res.get_data()[..4], expected[..4]);

    res.push_u8(0b1001_1110);
    expected[0] = 0b1111_0011;
    expected[1] = 0b1101_0011;
    expected[2] = 0b1100_0000;
    assert_eq!(res.get_data()[..4], expected[..4]);
}

#[test]
fn push8_push_bits() {
    let mut expected = [0u8; 64];
    let mut res = CompactQR::with_len(64);

    res.push_u8(0b1001_1110);
    expected[0] = 0b1001_1110;
    assert_eq!(res.get_data()[..4], expected[..4]);

    res.push_bits(0b1_1011_1001_1110, 13);
    expected[0] = 0b1001_1110;
    expected[1] = 0b1101_1100;
    expected[2] = 0b1111_0000;
    assert_eq!(res.get_data()[..4], expected[..4]);
}

#[test]
fn push_slice() {
    let mut expected = [0u8; 64];
    let mut res = CompactQR::with_len(64);

    res.push_u8_slice(&[0b1001_1110, 0b1001_1110, 0b1001_1110]);
    expected[0] = 0b1001_1110;
    expected[1] = 0b1001_1110;
    expected[2] = 0b1001_1110;
    assert_eq!(res.get_data()[..4], expected[..4]);
}

#[test]
fn push_slice_off() {
    let mut expected = [0u8; 64];
    let mut res = CompactQR::with_len(64);

    res.push_bits(0b1111, 3);
    expected[0] = 0b1110_0000;
    assert_eq!(res.get_data()[..4], expected[..4]);

    res.push_u8_slice(&[0b0000_0000, 0b1111_1111, 0b0000_0000]);
    expected[0] = 0b1110_0000;
    expected[1] = 0b0001_1111;
    expected[2] = 0b1110_0000;
    expected[3] = 0b0000_0000;
    assert_eq!(res.get_data()[..4], expected[..4]);
}

#[test]
fn push_bitfs_off() {
    let mut expected = [0u8; 64];
    let mut res = CompactQR::with_len(64);

    res.push_bits(0b0_0000_0000_0000_0000, 17);
    expected[0] |= 0b0000_0000;
    expected[1] |= 0b0000_0000;
    expected[2] |= 0b0000_0000;
    assert_eq!(res.len, 17);
    assert_eq!(res.get_data()[..8], expected[..8]);

    res.push_bits(0b1_1111_1111_1111_1111, 17);
    expected[2] |= 0b0111_1111;
    expected[3] |= 0b1111_1111;
    expected[4] |= 0b1100_0000;
    assert_eq!(res.get_data()[..8], expected[..8]);

    res.push_bits(0b0_0000_0000_0000_0000, 17);
    expected[4] |= 0b1100_0000;
    expected[5] |= 0b0000_0000;
    expected[6] |= 0b0000_0000;
    assert_eq!(res.get_data()[..8], expected[..8]);

    res.push_bits(0b1, 2);
    expected[5] |= 0b0000_0000;
    expected[6] |= 0b0000_1000;
    assert_eq!(res.get_data()[..8], expected[..8]);

    res.push_u8(0b1111_1111);
    expected[6] |= 0b0000_1111;
    expected[7] |= 0b1111_1000;
    assert_eq!(res.get_data()[..8], expected[..8]);
}

#[test]
fn push_random() {
    let mut expected = [0u8; 64];
    let mut res = CompactQR::with_len(64);

    res.push_bits(1, 1);
    expected[0] = 0b1000_0000;
    assert_eq!(res.get_data()[..8], expected[..8]);

    res.push_u8(0b1010_1010);
    expected[0] = 0b1101_0101;
    expected[1] = 0b0000_0000;
    assert_eq!(res.get_data()[..8], expected[..8]);

    res.push_bits(1, 1);
    expected[1] = 0b0100_0000;
    assert_eq!(res.get_data()[..8], expected[..8]);

    res.push_bits(1, 3);
    expected[1] = 0b0100_1000;
    assert_eq!(res.get_data()[..8], expected[..8]);
}
