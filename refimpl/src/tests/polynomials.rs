/// Contains all possible generator polynomials (to compule error codewords)
pub const GENERATOR_POLYNOMIALS: [&[u8]; 31] = [
    &[0],
    &[0, 0],
    &[0, 25, 1],
    &[0, 198, 199, 3],
    &[0, 75, 249, 78, 6],
    &[0, 113, 164, 166, 119, 10],
    &[0, 166, 0, 134, 5, 176, 15],
    &[0, 87, 229, 146, 149, 238, 102, 21],
    &[0, 175, 238, 208, 249, 215, 252, 196, 28],
    &[0, 95, 246, 137, 231, 235, 149, 11, 123, 36],
    &[0, 251, 67, 46, 61, 118, 70, 64, 94, 32, 45],
    &[0, 220, 192, 91, 194, 172, 177, 209, 116, 227, 10, 55],
    &[0, 102, 43, 98, 121, 187, 113, 198, 143, 131, 87, 157, 66],
    &[
        0, 74, 152, 176, 100, 86, 100, 106, 104, 130, 218, 206, 140, 78,
    ],
    &[
        0, 199, 249, 155, 48, 190, 124, 218, 137, 216, 87, 207, 59, 22, 91,
    ],
    &[
        0, 8, 183, 61, 91, 202, 37, 51, 58, 58, 237, 140, 124, 5, 99, 105,
    ],
    &[
        0, 120, 104, 107, 109, 102, 161, 76, 3, 91, 191, 147, 169, 182, 194, 225, 120,
    ],
    &[
        0, 43, 139, 206, 78, 43, 239, 123, 206, 214, 147, 24, 99, 150, 39, 243, 163, 136,
    ],
    &[
        0, 215, 234, 158, 94, 184, 97, 118, 170, 79, 187, 152, 148, 252, 179, 5, 98, 96, 153,
    ],
    &[
        0, 67, 3, 105, 153, 52, 90, 83, 17, 150, 159, 44, 128, 153, 133, 252, 222, 138, 220, 171,
    ],
    &[
        0, 17, 60, 79, 50, 61, 163, 26, 187, 202, 180, 221, 225, 83, 239, 156, 164, 212, 212, 188,
        190,
    ],
    &[
        0, 240, 233, 104, 247, 181, 140, 67, 98, 85, 200, 210, 115, 148, 137, 230, 36, 122, 254,
        148, 175, 210,
    ],
    &[
        0, 210, 171, 247, 242, 93, 230, 14, 109, 221, 53, 200, 74, 8, 172, 98, 80, 219, 134, 160,
        105, 165, 231,
    ],
    &[
        0, 171, 102, 146, 91, 49, 103, 65, 17, 193, 150, 14, 25, 183, 248, 94, 164, 224, 192, 1,
        78, 56, 147, 253,
    ],
    &[
        0, 229, 121, 135, 48, 211, 117, 251, 126, 159, 180, 169, 152, 192, 226, 228, 218, 111, 0,
        117, 232, 87, 96, 227, 21,
    ],
    &[
        0, 231, 181, 156, 39, 170, 26, 12, 59, 15, 148, 201, 54, 66, 237, 208, 99, 167, 144, 182,
        95, 243, 129, 178, 252, 45,
    ],
    &[
        0, 173, 125, 158, 2, 103, 182, 118, 17, 145, 201, 111, 28, 165, 53, 161, 21, 245, 142, 13,
        102, 48, 227, 153, 145, 218, 70,
    ],
    &[
        0, 79, 228, 8, 165, 227, 21, 180, 29, 9, 237, 70, 99, 45, 58, 138, 135, 73, 126, 172, 94,
        216, 193, 157, 26, 17, 149, 96,
    ],
    &[
        0, 168, 223, 200, 104, 224, 234, 108, 180, 110, 190, 195, 147, 205, 27, 232, 201, 21, 43,
        245, 87, 42, 195, 212, 119, 242, 37, 9, 123,
    ],
    &[
        0, 156, 45, 183, 29, 151, 219, 54, 96, 249, 24, 136, 5, 241, 175, 189, 28, 75, 234, 150,
        148, 23, 9, 202, 162, 68, 250, 140, 24, 151,
    ],
    &[
        0, 41, 173, 145, 152, 216, 31, 179, 182, 50, 48, 110, 86, 239, 96, 222, 125, 42, 173, 226,
        193, 224, 130, 156, 37, 251, 216, 238, 40, 192, 180,
    ],
];

#[test]
fn generator_polynomials() {
    let poly = GENERATOR_POLYNOMIALS[7];
    let poly_string = crate::polynomials::generated_to_string(poly);
    assert_eq!(
        poly_string,
        "α0x7 + α87x6 + α229x5 + α146x4 + α149x3 + α238x2 + α102x + α21"
    );

    let poly = GENERATOR_POLYNOMIALS[8];
    let poly_string = crate::polynomials::generated_to_string(poly);
    assert_eq!(
        poly_string,
        "α0x8 + α175x7 + α238x6 + α208x5 + α249x4 + α215x3 + α252x2 + α196x + α28"
    );

    let poly = GENERATOR_POLYNOMIALS[9];
    let poly_string = crate::polynomials::generated_to_string(poly);
    assert_eq!(
        poly_string,
        "α0x9 + α95x8 + α246x7 + α137x6 + α231x5 + α235x4 + α149x3 + α11x2 + α123x + α36"
    );

    let poly = GENERATOR_POLYNOMIALS[10];
    let poly_string = crate::polynomials::generated_to_string(poly);
    assert_eq!(
        poly_string,
        "α0x10 + α251x9 + α67x8 + α46x7 + α61x6 + α118x5 + α70x4 + α64x3 + α94x2 + α32x + α45"
    );

    let poly = GENERATOR_POLYNOMIALS[11];
    let poly_string = crate::polynomials::generated_to_string(poly);
    assert_eq!(
        poly_string,
        "α0x11 + α220x10 + α192x9 + α91x8 + α194x7 + α172x6 + α177x5 + α209x4 + α116x3 + α227x2 + α10x + α55"
    );

    let poly = GENERATOR_POLYNOMIALS[12];
    let poly_string = crate::polynomials::generated_to_string(poly);
    assert_eq!(
        poly_string,
        "α0x12 + α102x11 + α43x10 + α98x9 + α121x8 + α187x7 + α113x6 + α198x5 + α143x4 + α131x3 + α87x2 + α157x + α66"
    );

    let poly = GENERATOR_POLYNOMIALS[13];
    let poly_string = crate::polynomials::generated_to_string(poly);
    assert_eq!(
        poly_string,
        "α0x13 + α74x12 + α152x11 + α176x10 + α100x9 + α86x8 + α100x7 + α106x6 + α104x5 + α130x4 + α218x3 + α206x2 + α140x + α78"
    );

    let poly = GENERATOR_POLYNOMIALS[14];
    let poly_string = crate::polynomials::generated_to_string(poly);
    assert_eq!(
        poly_string,
        "α0x14 + α199x13 + α249x12 + α155x11 + α48x10 + α190x9 + α124x8 + α218x7 + α137x6 + α216x5 + α87x4 + α207x3 + α59x2 + α22x + α91"
    );

    let poly = GENERATOR_POLYNOMIALS[15];
    let poly_string = crate::polynomials::generated_to_string(poly);
    assert_eq!(
        poly_string,
        "α0x15 + α8x14 + α183x13 + α61x12 + α91x11 + α202x10 + α37x9 + α51x8 + α58x7 + α58x6 + α237x5 + α140x4 + α124x3 + α5x2 + α99x + α105"
    );

    let poly = GENERATOR_POLYNOMIALS[16];
    let poly_string = crate::polynomials::generated_to_string(poly);
    assert_eq!(
        poly_string,
        "α0x16 + α120x15 + α104x14 + α107x13 + α109x12 + α102x11 + α161x10 + α76x9 + α3x8 + α91x7 + α191x6 + α147x5 + α169x4 + α182x3 + α194x2 + α225x + α120"
    );

    let poly = GENERATOR_POLYNOMIALS[17];
    let poly_string = crate::polynomials::generated_to_string(poly);
    assert_eq!(
        poly_string,
        "α0x17 + α43x16 + α139x15 + α206x14 + α78x13 + α43x12 + α239x11 + α123x10 + α206x9 + α214x8 + α147x7 + α24x6 + α99x5 + α150x4 + α39x3 + α243x2 + α163x + α136"
    );

    let poly = GENERATOR_POLYNOMIALS[18];
    let poly_string = crate::polynomials::generated_to_string(poly);
    assert_eq!(
        poly_string,
        "α0x18 + α215x17 + α234x16 + α158x15 + α94x14 + α184x13 + α97x12 + α118x11 + α170x10 + α79x9 + α187x8 + α152x7 + α148x6 + α252x5 + α179x4 + α5x3 + α98x2 + α96x + α153"
    );

    let poly = GENERATOR_POLYNOMIALS[19];
    let poly_string = crate::polynomials::generated_to_string(poly);
    assert_eq!(
        poly_string,
        "α0x19 + α67x18 + α3x17 + α105x16 + α153x15 + α52x14 + α90x13 + α83x12 + α17x11 + α150x10 + α159x9 + α44x8 + α128x7 + α153x6 + α133x5 + α252x4 + α222x3 + α138x2 + α220x + α171"
    );

    let poly = GENERATOR_POLYNOMIALS[20];
    let poly_string = crate::polynomials::generated_to_string(poly);
    assert_eq!(
        poly_string,
        "α0x20 + α17x19 + α60x18 + α79x17 + α50x16 + α61x15 + α163x14 + α26x13 + α187x12 + α202x11 + α180x10 + α221x9 + α225x8 + α83x7 + α239x6 + α156x5 + α164x4 + α212x3 + α212x2 + α188x + α190"
    );

    let poly = GENERATOR_POLYNOMIALS[21];
    let poly_string = crate::polynomials::generated_to_string(poly);
    assert_eq!(
        poly_string,
        "α0x21 + α240x20 + α233x19 + α104x18 + α247x17 + α181x16 + α140x15 + α67x14 + α98x13 + α85x12 + α200x11 + α210x10 + α115x9 + α148x8 + α137x7 + α230x6 + α36x5 + α122x4 + α254x3 + α148x2 + α175x + α210"
    );

    let poly = GENERATOR_POLYNOMIALS[22];
    let poly_string = crate::polynomials::generated_to_string(poly);
    assert_eq!(
        poly_string,
        "α0x22 + α210x21 + α171x20 + α247x19 + α242x18 + α93x17 + α230x16 + α14x15 + α109x14 + α221x13 + α53x12 + α200x11 + α74x10 + α8x9 + α172x8 + α98x7 + α80x6 + α219x5 + α134x4 + α160x3 + α105x2 + α165x + α231"
    );

    let poly = GENERATOR_POLYNOMIALS[23];
    let poly_string = crate::polynomials::generated_to_string(poly);
    assert_eq!(
        poly_string,
        "α0x23 + α171x22 + α102x21 + α146x20 + α91x19 + α49x18 + α103x17 + α65x16 + α17x15 + α193x14 + α150x13 + α14x12 + α25x11 + α183x10 + α248x9 + α94x8 + α164x7 + α224x6 + α192x5 + α1x4 + α78x3 + α56x2 + α147x + α253"
    );

    let poly = GENERATOR_POLYNOMIALS[24];
    let poly_string = crate::polynomials::generated_to_string(poly);
    assert_eq!(
        poly_string,
        "α0x24 + α229x23 + α121x22 + α135x21 + α48x20 + α211x19 + α117x18 + α251x17 + α126x16 + α159x15 + α180x14 + α169x13 + α152x12 + α192x11 + α226x10 + α228x9 + α218x8 + α111x7 + α0x6 + α117x5 + α232x4 + α87x3 + α96x2 + α227x + α21"
    );

    let poly = GENERATOR_POLYNOMIALS[25];
    let poly_string = crate::polynomials::generated_to_string(poly);
    assert_eq!(
        poly_string,
        "α0x25 + α231x24 + α181x23 + α156x22 + α39x21 + α170x20 + α26x19 + α12x18 + α59x17 + α15x16 + α148x15 + α201x14 + α54x13 + α66x12 + α237x11 + α208x10 + α99x9 + α167x8 + α144x7 + α182x6 + α95x5 + α243x4 + α129x3 + α178x2 + α252x + α45"
    );

    let poly = GENERATOR_POLYNOMIALS[26];
    let poly_string = crate::polynomials::generated_to_string(poly);
    assert_eq!(
        poly_string,
        "α0x26 + α173x25 + α125x24 + α158x23 + α2x22 + α103x21 + α182x20 + α118x19 + α17x18 + α145x17 + α201x16 + α111x15 + α28x14 + α165x13 + α53x12 + α161x11 + α21x10 + α245x9 + α142x8 + α13x7 + α102x6 + α48x5 + α227x4 + α153x3 + α145x2 + α218x + α70"
    );

    let poly = GENERATOR_POLYNOMIALS[27];
    let poly_string = crate::polynomials::generated_to_string(poly);
    assert_eq!(
        poly_string,
        "α0x27 + α79x26 + α228x25 + α8x24 + α165x23 + α227x22 + α21x21 + α180x20 + α29x19 + α9x18 + α237x17 + α70x16 + α99x15 + α45x14 + α58x13 + α138x12 + α135x11 + α73x10 + α126x9 + α172x8 + α94x7 + α216x6 + α193x5 + α157x4 + α26x3 + α17x2 + α149x + α96"
    );

    let poly = GENERATOR_POLYNOMIALS[28];
    let poly_string = crate::polynomials::generated_to_string(poly);
    assert_eq!(
        poly_string,
        "α0x28 + α168x27 + α223x26 + α200x25 + α104x24 + α224x23 + α234x22 + α108x21 + α180x20 + α110x19 + α190x18 + α195x17 + α147x16 + α205x15 + α27x14 + α232x13 + α201x12 + α21x11 + α43x10 + α245x9 + α87x8 + α42x7 + α195x6 + α212x5 + α119x4 + α242x3 + α37x2 + α9x + α123"
    );

    let poly = GENERATOR_POLYNOMIALS[29];
    let poly_string = crate::polynomials::generated_to_string(poly);
    assert_eq!(
        poly_string,
        "α0x29 + α156x28 + α45x27 + α183x26 + α29x25 + α151x24 + α219x23 + α54x22 + α96x21 + α249x20 + α24x19 + α136x18 + α5x17 + α241x16 + α175x15 + α189x14 + α28x13 + α75x12 + α234x11 + α150x10 + α148x9 + α23x8 + α9x7 + α202x6 + α162x5 + α68x4 + α250x3 + α140x2 + α24x + α151"
    )
}
mod generators {
    use super::GENERATOR_POLYNOMIALS;

    #[test]
    fn generator1() {
        let version = crate::version::Version::V01;
        let gen = crate::hardcode::get_polynomial(version, crate::ecl::ECL::L);

        assert_eq!(gen, GENERATOR_POLYNOMIALS[7]);

        let version = crate::version::Version::V01;
        let gen = crate::hardcode::get_polynomial(version, crate::ecl::ECL::M);

        assert_eq!(gen, GENERATOR_POLYNOMIALS[10]);

        let version = crate::version::Version::V01;
        let gen = crate::hardcode::get_polynomial(version, crate::ecl::ECL::Q);

        assert_eq!(gen, GENERATOR_POLYNOMIALS[13]);

        let version = crate::version::Version::V01;
        let gen = crate::hardcode::get_polynomial(version, crate::ecl::ECL::H);

        assert_eq!(gen, GENERATOR_POLYNOMIALS[17]);
    }

    #[test]
    fn generator2() {
        let version = crate::version::Version::V02;
        let gen = crate::hardcode::get_polynomial(version, crate::ecl::ECL::L);

        assert_eq!(gen, GENERATOR_POLYNOMIALS[10]);

        let version = crate::version::Version::V02;
        let gen = crate::hardcode::get_polynomial(version, crate::ecl::ECL::M);

        assert_eq!(gen, GENERATOR_POLYNOMIALS[16]);

        let version = crate::version::Version::V02;
        let gen = crate::hardcode::get_polynomial(version, crate::ecl::ECL::Q);

        assert_eq!(gen, GENERATOR_POLYNOMIALS[22]);

        let version = crate::version::Version::V02;
        let gen = crate::hardcode::get_polynomial(version, crate::ecl::ECL::H);

        assert_eq!(gen, GENERATOR_POLYNOMIALS[28]);
    }

    #[test]
    fn generator3() {
        let version = crate::version::Version::V03;
        let gen = crate::hardcode::get_polynomial(version, crate::ecl::ECL::L);

        assert_eq!(gen, GENERATOR_POLYNOMIALS[15]);

        let version = crate::version::Version::V03;
        let gen = crate::hardcode::get_polynomial(version, crate::ecl::ECL::M);

        assert_eq!(gen, GENERATOR_POLYNOMIALS[26]);

        let version = crate::version::Version::V03;
        let gen = crate::hardcode::get_polynomial(version, crate::ecl::ECL::Q);

        assert_eq!(gen, GENERATOR_POLYNOMIALS[18]);

        let version = crate::version::Version::V03;
        let gen = crate::hardcode::get_polynomial(version, crate::ecl::ECL::H);

        assert_eq!(gen, GENERATOR_POLYNOMIALS[22]);
    }

    #[test]
    fn generator4() {
        let version = crate::version::Version::V04;
        let gen = crate::hardcode::get_polynomial(version, crate::ecl::ECL::L);

        assert_eq!(gen, GENERATOR_POLYNOMIALS[20]);

        let version = crate::version::Version::V04;
        let gen = crate::hardcode::get_polynomial(version, crate::ecl::ECL::M);

        assert_eq!(gen, GENERATOR_POLYNOMIALS[18]);

        let version = crate::version::Version::V04;
        let gen = crate::hardcode::get_polynomial(version, crate::ecl::ECL::Q);

        assert_eq!(gen, GENERATOR_POLYNOMIALS[26]);

        let version = crate::version::Version::V04;
        let gen = crate::hardcode::get_polynomial(version, crate::ecl::ECL::H);

        assert_eq!(gen, GENERATOR_POLYNOMIALS[16]);
    }

    #[test]
    fn generator5() {
        let version = crate::version::Version::V05;
        let gen = crate::hardcode::get_polynomial(version, crate::ecl::ECL::L);

        assert_eq!(gen, GENERATOR_POLYNOMIALS[26]);

        let version = crate::version::Version::V05;
        let gen = crate::hardcode::get_polynomial(version, crate::ecl::ECL::M);

        assert_eq!(gen, GENERATOR_POLYNOMIALS[24]);

        let version = crate::version::Version::V05;
        let gen = crate::hardcode::get_polynomial(version, crate::ecl::ECL::Q);

        assert_eq!(gen, GENERATOR_POLYNOMIALS[18]);

        let version = crate::version::Version::V05;
        let gen = crate::hardcode::get_polynomial(version, crate::ecl::ECL::H);

        assert_eq!(gen, GENERATOR_POLYNOMIALS[22]);
    }

    #[test]
    fn generator6() {
        let version = crate::version::Version::V06;
        let gen = crate::hardcode::get_polynomial(version, crate::ecl::ECL::L);

        assert_eq!(gen, GENERATOR_POLYNOMIALS[18]);

        let version = crate::version::Version::V06;
        let gen = crate::hardcode::get_polynomial(version, crate::ecl::ECL::M);

        assert_eq!(gen, GENERATOR_POLYNOMIALS[16]);

        let version = crate::version::Version::V06;
        let gen = crate::hardcode::get_polynomial(version, crate::ecl::ECL::Q);

        assert_eq!(gen, GENERATOR_POLYNOMIALS[24]);

        let version = crate::version::Version::V06;
        let gen = crate::hardcode::get_polynomial(version, crate::ecl::ECL::H);

        assert_eq!(gen, GENERATOR_POLYNOMIALS[28]);
    }

    #[test]
    fn generator7() {
        let version = crate::version::Version::V07;
        let gen = crate::hardcode::get_polynomial(version, crate::ecl::ECL::L);

        assert_eq!(gen, GENERATOR_POLYNOMIALS[20]);

        let version = crate::version::Version::V07;
        let gen = crate::hardcode::get_polynomial(version, crate::ecl::ECL::M);

        assert_eq!(gen, GENERATOR_POLYNOMIALS[18]);

        let version = crate::version::Version::V07;
        let gen = crate::hardcode::get_polynomial(version, crate::ecl::ECL::Q);

        assert_eq!(gen, GENERATOR_POLYNOMIALS[18]);

        let version = crate::version::Version::V07;
        let gen = crate::hardcode::get_polynomial(version, crate::ecl::ECL::H);

        assert_eq!(gen, GENERATOR_POLYNOMIALS[26]);
    }

    #[test]
    fn generator8() {
        let version = crate::version::Version::V08;
        let gen = crate::hardcode::get_polynomial(version, crate::ecl::ECL::L);

        assert_eq!(gen, GENERATOR_POLYNOMIALS[24]);

        let version = crate::version::Version::V08;
        let gen = crate::hardcode::get_polynomial(version, crate::ecl::ECL::M);

        assert_eq!(gen, GENERATOR_POLYNOMIALS[22]);

        let version = crate::version::Version::V08;
        let gen = crate::hardcode::get_polynomial(version, crate::ecl::ECL::Q);

        assert_eq!(gen, GENERATOR_POLYNOMIALS[22]);

        let version = crate::version::Version::V08;
        let gen = crate::hardcode::get_polynomial(version, crate::ecl::ECL::H);

        assert_eq!(gen, GENERATOR_POLYNOMIALS[26]);
    }

    #[test]
    fn generator9() {
        let version = crate::version::Version::V09;
        let gen = crate::hardcode::get_polynomial(version, crate::ecl::ECL::L);

        assert_eq!(gen, GENERATOR_POLYNOMIALS[30]);

        let version = crate::version::Version::V09;
        let gen = crate::hardcode::get_polynomial(version, crate::ecl::ECL::M);

        assert_eq!(gen, GENERATOR_POLYNOMIALS[22]);

        let version = crate::version::Version::V09;
        let gen = crate::hardcode::get_polynomial(version, crate::ecl::ECL::Q);

        assert_eq!(gen, GENERATOR_POLYNOMIALS[20]);

        let version = crate::version::Version::V09;
        let gen = crate::hardcode::get_polynomial(version, crate::ecl::ECL::H);

        assert_eq!(gen, GENERATOR_POLYNOMIALS[24]);
    }

    #[test]
    fn generator10() {
        let version = crate::version::Version::V10;
        let gen = crate::hardcode::get_polynomial(version, crate::ecl::ECL::L);

        assert_eq!(gen, GENERATOR_POLYNOMIALS[18]);

        let version = crate::version::Version::V10;
        let gen = crate::hardcode::get_polynomial(version, crate::ecl::ECL::M);

        assert_eq!(gen, GENERATOR_POLYNOMIALS[26]);

        let version = crate::version::Version::V10;
        let gen = crate::hardcode::get_polynomial(version, crate::ecl::ECL::Q);

        assert_eq!(gen, GENERATOR_POLYNOMIALS[24]);

        let version = crate::version::Version::V10;
        let gen = crate::hardcode::get_polynomial(version, crate::ecl::ECL::H);

        assert_eq!(gen, GENERATOR_POLYNOMIALS[28]);
    }

    #[test]
    fn generator11() {
        let version = crate::version::Version::V11;
        let gen = crate::hardcode::get_polynomial(version, crate::ecl::ECL::L);

        assert_eq!(gen, GENERATOR_POLYNOMIALS[20]);

        let version = crate::version::Version::V11;
        let gen = crate::hardcode::get_polynomial(version, crate::ecl::ECL::M);

        assert_eq!(gen, GENERATOR_POLYNOMIALS[30]);

        let version = crate::version::Version::V11;
        let gen = crate::hardcode::get_polynomial(version, crate::ecl::ECL::Q);

        assert_eq!(gen, GENERATOR_POLYNOMIALS[28]);

        let version = crate::version::Version::V11;
        let gen = crate::hardcode::get_polynomial(version, crate::ecl::ECL::H);

        assert_eq!(gen, GENERATOR_POLYNOMIALS[24]);
    }

    #[test]
    fn generator12() {
        let version = crate::version::Version::V12;
        let gen = crate::hardcode::get_polynomial(version, crate::ecl::ECL::L);

        assert_eq!(gen, GENERATOR_POLYNOMIALS[24]);

        let version = crate::version::Version::V12;
        let gen = crate::hardcode::get_polynomial(version, crate::ecl::ECL::M);

        assert_eq!(gen, GENERATOR_POLYNOMIALS[22]);

        let version = crate::version::Version::V12;
        let gen = crate::hardcode::get_polynomial(version, crate::ecl::ECL::Q);

        assert_eq!(gen, GENERATOR_POLYNOMIALS[26]);

        let version = crate::version::Version::V12;
        let gen = crate::hardcode::get_polynomial(version, crate::ecl::ECL::H);

        assert_eq!(gen, GENERATOR_POLYNOMIALS[28]);
    }

    #[test]
    fn generator13() {
        let version = crate::version::Version::V13;
        let gen = crate::hardcode::get_polynomial(version, crate::ecl::ECL::L);

        assert_eq!(gen, GENERATOR_POLYNOMIALS[26]);

        let version = crate::version::Version::V13;
        let gen = crate::hardcode::get_polynomial(version, crate::ecl::ECL::M);

        assert_eq!(gen, GENERATOR_POLYNOMIALS[22]);

        let version = crate::version::Version::V13;
        let gen = crate::hardcode::get_polynomial(version, crate::ecl::ECL::Q);

        assert_eq!(gen, GENERATOR_POLYNOMIALS[24]);

        let version = crate::version::Version::V13;
        let gen = crate::hardcode::get_polynomial(version, crate::ecl::ECL::H);

        assert_eq!(gen, GENERATOR_POLYNOMIALS[22]);
    }

    #[test]
    fn generator14() {
        let version = crate::version::Version::V14;
        let gen = crate::hardcode::get_polynomial(version, crate::ecl::ECL::L);

        assert_eq!(gen, GENERATOR_POLYNOMIALS[30]);

        let version = crate::version::Version::V14;
        let gen = crate::hardcode::get_polynomial(version, crate::ecl::ECL::M);

        assert_eq!(gen, GENERATOR_POLYNOMIALS[24]);

        let version = crate::version::Version::V14;
        let gen = crate::hardcode::get_polynomial(version, crate::ecl::ECL::Q);

        assert_eq!(gen, GENERATOR_POLYNOMIALS[20]);

        let version = crate::version::Version::V14;
        let gen = crate::hardcode::get_polynomial(version, crate::ecl::ECL::H);

        assert_eq!(gen, GENERATOR_POLYNOMIALS[24]);
    }

    #[test]
    fn generator15() {
        let version = crate::version::Version::V15;
        let gen = crate::hardcode::get_polynomial(version, crate::ecl::ECL::L);

        assert_eq!(gen, GENERATOR_POLYNOMIALS[22]);

        let version = crate::version::Version::V15;
        let gen = crate::hardcode::get_polynomial(version, crate::ecl::ECL::M);

        assert_eq!(gen, GENERATOR_POLYNOMIALS[24]);

        let version = crate::version::Version::V15;
        let gen = crate::hardcode::get_polynomial(version, crate::ecl::ECL::Q);

        assert_eq!(gen, GENERATOR_POLYNOMIALS[30]);

        let version = crate::version::Version::V15;
        let gen = crate::hardcode::get_polynomial(version, crate::ecl::ECL::H);

        assert_eq!(gen, GENERATOR_POLYNOMIALS[24]);
    }

    #[test]
    fn generator16() {
        let version = crate::version::Version::V16;
        let gen = crate::hardcode::get_polynomial(version, crate::ecl::ECL::L);

        assert_eq!(gen, GENERATOR_POLYNOMIALS[24]);

        let version = crate::version::Version::V16;
        let gen = crate::hardcode::get_polynomial(version, crate::ecl::ECL::M);

        assert_eq!(gen, GENERATOR_POLYNOMIALS[28]);

        let version = crate::version::Version::V16;
        let gen = crate::hardcode::get_polynomial(version, crate::ecl::ECL::Q);

        assert_eq!(gen, GENERATOR_POLYNOMIALS[24]);

        let version = crate::version::Version::V16;
        let gen = crate::hardcode::get_polynomial(version, crate::ecl::ECL::H);

        assert_eq!(gen, GENERATOR_POLYNOMIALS[30]);
    }

    #[test]
    fn generator17() {
        let version = crate::version::Version::V17;
        let gen = crate::hardcode::get_polynomial(version, crate::ecl::ECL::L);

        assert_eq!(gen, GENERATOR_POLYNOMIALS[28]);

        let version = crate::version::Version::V17;
        let gen = crate::hardcode::get_polynomial(version, crate::ecl::ECL::M);

        assert_eq!(gen, GENERATOR_POLYNOMIALS[28]);

        let version = crate::version::Version::V17;
        let gen = crate::hardcode::get_polynomial(version, crate::ecl::ECL::Q);

        assert_eq!(gen, GENERATOR_POLYNOMIALS[28]);

        let version = crate::version::Version::V17;
        let gen = crate::hardcode::get_polynomial(version, crate::ecl::ECL::H);

        assert_eq!(gen, GENERATOR_POLYNOMIALS[28]);
    }

    #[test]
    fn generator18() {
        let version = crate::version::Version::V18;
        let gen = crate::hardcode::get_polynomial(version, crate::ecl::ECL::L);

        assert_eq!(gen, GENERATOR_POLYNOMIALS[30]);

        let version = crate::version::Version::V18;
        let gen = crate::hardcode::get_polynomial(version, crate::ecl::ECL::M);

        assert_eq!(gen, GENERATOR_POLYNOMIALS[26]);

        let version = crate::version::Version::V18;
        let gen = crate::hardcode::get_polynomial(version, crate::ecl::ECL::Q);

        assert_eq!(gen, GENERATOR_POLYNOMIALS[28]);

        let version = crate::version::Version::V18;
        let gen = crate::hardcode::get_polynomial(version, crate::ecl::ECL::H);

        assert_eq!(gen, GENERATOR_POLYNOMIALS[28]);
    }

    #[test]
    fn generator19() {
        let version = crate::version::Version::V19;
        let gen = crate::hardcode::get_polynomial(version, crate::ecl::ECL::L);

        assert_eq!(gen, GENERATOR_POLYNOMIALS[28]);

        let version = crate::version::Version::V19;
        let gen = crate::hardcode::get_polynomial(version, crate::ecl::ECL::M);

        assert_eq!(gen, GENERATOR_POLYNOMIALS[26]);

        let version = crate::version::Version::V19;
        let gen = crate::hardcode::get_polynomial(version, crate::ecl::ECL::Q);

        assert_eq!(gen, GENERATOR_POLYNOMIALS[26]);

        let version = crate::version::Version::V19;
        let gen = crate::hardcode::get_polynomial(version, crate::ecl::ECL::H);

        assert_eq!(gen, GENERATOR_POLYNOMIALS[26]);
    }

    #[test]
    fn generator20() {
        let version = crate::version::Version::V20;
        let gen = crate::hardcode::get_polynomial(version, crate::ecl::ECL::L);

        assert_eq!(gen, GENERATOR_POLYNOMIALS[28]);

        let version = crate::version::Version::V20;
        let gen = crate::hardcode::get_polynomial(version, crate::ecl::ECL::M);

        assert_eq!(gen, GENERATOR_POLYNOMIALS[26]);

        let version = crate::version::Version::V20;
        let gen = crate::hardcode::get_polynomial(version, crate::ecl::ECL::Q);

        assert_eq!(gen, GENERATOR_POLYNOMIALS[30]);

        let version = crate::version::Version::V20;
        let gen = crate::hardcode::get_polynomial(version, crate::ecl::ECL::H);

        assert_eq!(gen, GENERATOR_POLYNOMIALS[28]);
    }

    #[test]
    fn generator21() {
        let version = crate::version::Version::V21;
        let gen = crate::hardcode::get_polynomial(version, crate::ecl::ECL::L);

        assert_eq!(gen, GENERATOR_POLYNOMIALS[28]);

        let version = crate::version::Version::V21;
        let gen = crate::hardcode::get_polynomial(version, crate::ecl::ECL::M);

        assert_eq!(gen, GENERATOR_POLYNOMIALS[26]);

        let version = crate::version::Version::V21;
        let gen = crate::hardcode::get_polynomial(version, crate::ecl::ECL::Q);

        assert_eq!(gen, GENERATOR_POLYNOMIALS[28]);

        let version = crate::version::Version::V21;
        let gen = crate::hardcode::get_polynomial(version, crate::ecl::ECL::H);

        assert_eq!(gen, GENERATOR_POLYNOMIALS[30]);
    }

    #[test]
    fn generator22() {
        let version = crate::version::Version::V22;
        let gen = crate::hardcode::get_polynomial(version, crate::ecl::ECL::L);

        assert_eq!(gen, GENERATOR_POLYNOMIALS[28]);

        let version = crate::version::Version::V22;
        let gen = crate::hardcode::get_polynomial(version, crate::ecl::ECL::M);

        assert_eq!(gen, GENERATOR_POLYNOMIALS[28]);

        let version = crate::version::Version::V22;
        let gen = crate::hardcode::get_polynomial(version, crate::ecl::ECL::Q);

        assert_eq!(gen, GENERATOR_POLYNOMIALS[30]);

        let version = crate::version::Version::V22;
        let gen = crate::hardcode::get_polynomial(version, crate::ecl::ECL::H);

        assert_eq!(gen, GENERATOR_POLYNOMIALS[24]);
    }

    #[test]
    fn generator23() {
        let version = crate::version::Version::V23;
        let gen = crate::hardcode::get_polynomial(version, crate::ecl::ECL::L);

        assert_eq!(gen, GENERATOR_POLYNOMIALS[30]);

        let version = crate::version::Version::V23;
        let gen = crate::hardcode::get_polynomial(version, crate::ecl::ECL::M);

        assert_eq!(gen, GENERATOR_POLYNOMIALS[28]);

        let version = crate::version::Version::V23;
        let gen = crate::hardcode::get_polynomial(version, crate::ecl::ECL::Q);

        assert_eq!(gen, GENERATOR_POLYNOMIALS[30]);

        let version = crate::version::Version::V23;
        let gen = crate::hardcode::get_polynomial(version, crate::ecl::ECL::H);

        assert_eq!(gen, GENERATOR_POLYNOMIALS[30]);
    }

    #[test]
    fn generator24() {
        let version = crate::version::Version::V24;
        let gen = crate::hardcode::get_polynomial(version, crate::ecl::ECL::L);

        assert_eq!(gen, GENERATOR_POLYNOMIALS[30]);

        let version = crate::version::Version::V24;
        let gen = crate::hardcode::get_polynomial(version, crate::ecl::ECL::M);

        assert_eq!(gen, GENERATOR_POLYNOMIALS[28]);

        let version = crate::version::Version::V24;
        let gen = crate::hardcode::get_polynomial(version, crate::ecl::ECL::Q);

        assert_eq!(gen, GENERATOR_POLYNOMIALS[30]);

        let version = crate::version::Version::V24;
        let gen = crate::hardcode::get_polynomial(version, crate::ecl::ECL::H);

        assert_eq!(gen, GENERATOR_POLYNOMIALS[30]);
    }

    #[test]
    fn generator25() {
        let version = crate::version::Version::V25;
        let gen = crate::hardcode::get_polynomial(version, crate::ecl::ECL::L);

        assert_eq!(gen, GENERATOR_POLYNOMIALS[26]);

        let version = crate::version::Version::V25;
        let gen = crate::hardcode::get_polynomial(version, crate::ecl::ECL::M);

        assert_eq!(gen, GENERATOR_POLYNOMIALS[28]);

        let version = crate::version::Version::V25;
        let gen = crate::hardcode::get_polynomial(version, crate::ecl::ECL::Q);

        assert_eq!(gen, GENERATOR_POLYNOMIALS[30]);

        let version = crate::version::Version::V25;
        let gen = crate::hardcode::get_polynomial(version, crate::ecl::ECL::H);

        assert_eq!(gen, GENERATOR_POLYNOMIALS[30]);
    }

    #[test]
    fn generator26() {
        let version = crate::version::Version::V26;
        let gen = crate::hardcode::get_polynomial(version, crate::ecl::ECL::L);

        assert_eq!(gen, GENERATOR_POLYNOMIALS[28]);

        let version = crate::version::Version::V26;
        let gen = crate::hardcode::get_polynomial(version, crate::ecl::ECL::M);

        assert_eq!(gen, GENERATOR_POLYNOMIALS[28]);

        let version = crate::version::Version::V26;
        let gen = crate::hardcode::get_polynomial(version, crate::ecl::ECL::Q);

        assert_eq!(gen, GENERATOR_POLYNOMIALS[28]);

        let version = crate::version::Version::V26;
        let gen = crate::hardcode::get_polynomial(version, crate::ecl::ECL::H);

        assert_eq!(gen, GENERATOR_POLYNOMIALS[30]);
    }

    #[test]
    fn generator27() {
        let version = crate::version::Version::V27;
        let gen = crate::hardcode::get_polynomial(version, crate::ecl::ECL::L);

        assert_eq!(gen, GENERATOR_POLYNOMIALS[30]);

        let version = crate::version::Version::V27;
        let gen = crate::hardcode::get_polynomial(version, crate::ecl::ECL::M);

        assert_eq!(gen, GENERATOR_POLYNOMIALS[28]);

        let version = crate::version::Version::V27;
        let gen = crate::hardcode::get_polynomial(version, crate::ecl::ECL::Q);

        assert_eq!(gen, GENERATOR_POLYNOMIALS[30]);

        let version = crate::version::Version::V27;
        let gen = crate::hardcode::get_polynomial(version, crate::ecl::ECL::H);

        assert_eq!(gen, GENERATOR_POLYNOMIALS[30]);
    }

    #[test]
    fn generator28() {
        let version = crate::version::Version::V28;
        let gen = crate::hardcode::get_polynomial(version, crate::ecl::ECL::L);

        assert_eq!(gen, GENERATOR_POLYNOMIALS[30]);

        let version = crate::version::Version::V28;
        let gen = crate::hardcode::get_polynomial(version, crate::ecl::ECL::M);

        assert_eq!(gen, GENERATOR_POLYNOMIALS[28]);

        let version = crate::version::Version::V28;
        let gen = crate::hardcode::get_polynomial(version, crate::ecl::ECL::Q);

        assert_eq!(gen, GENERATOR_POLYNOMIALS[30]);

        let version = crate::version::Version::V28;
        let gen = crate::hardcode::get_polynomial(version, crate::ecl::ECL::H);

        assert_eq!(gen, GENERATOR_POLYNOMIALS[30]);
    }

    #[test]
    fn generator29() {
        let version = crate::version::Version::V29;
        let gen = crate::hardcode::get_polynomial(version, crate::ecl::ECL::L);

        assert_eq!(gen, GENERATOR_POLYNOMIALS[30]);

        let version = crate::version::Version::V29;
        let gen = crate::hardcode::get_polynomial(version, crate::ecl::ECL::M);

        assert_eq!(gen, GENERATOR_POLYNOMIALS[28]);

        let version = crate::version::Version::V29;
        let gen = crate::hardcode::get_polynomial(version, crate::ecl::ECL::Q);

        assert_eq!(gen, GENERATOR_POLYNOMIALS[30]);

        let version = crate::version::Version::V29;
        let gen = crate::hardcode::get_polynomial(version, crate::ecl::ECL::H);

        assert_eq!(gen, GENERATOR_POLYNOMIALS[30]);
    }

    #[test]
    fn generator30() {
        let version = crate::version::Version::V30;
        let gen = crate::hardcode::get_polynomial(version, crate::ecl::ECL::L);

        assert_eq!(gen, GENERATOR_POLYNOMIALS[30]);

        let version = crate::version::Version::V30;
        let gen = crate::hardcode::get_polynomial(version, crate::ecl::ECL::M);

        assert_eq!(gen, GENERATOR_POLYNOMIALS[28]);

        let version = crate::version::Version::V30;
        let gen = crate::hardcode::get_polynomial(version, crate::ecl::ECL::Q);

        assert_eq!(gen, GENERATOR_POLYNOMIALS[30]);

        let version = crate::version::Version::V30;
        let gen = crate::hardcode::get_polynomial(version, crate::ecl::ECL::H);

        assert_eq!(gen, GENERATOR_POLYNOMIALS[30]);
    }

    #[test]
    fn generator31() {
        let version = crate::version::Version::V31;
        let gen = crate::hardcode::get_polynomial(version, crate::ecl::ECL::L);

        assert_eq!(gen, GENERATOR_POLYNOMIALS[30]);

        let version = crate::version::Version::V31;
        let gen = crate::hardcode::get_polynomial(version, crate::ecl::ECL::M);

        assert_eq!(gen, GENERATOR_POLYNOMIALS[28]);

        let version = crate::version::Version::V31;
        let gen = crate::hardcode::get_polynomial(version, crate::ecl::ECL::Q);

        assert_eq!(gen, GENERATOR_POLYNOMIALS[30]);

        let version = crate::version::Version::V31;
        let gen = crate::hardcode::get_polynomial(version, crate::ecl::ECL::H);

        assert_eq!(gen, GENERATOR_POLYNOMIALS[30]);
    }

    #[test]
    fn generator32() {
        let version = crate::version::Version::V32;
        let gen = crate::hardcode::get_polynomial(version, crate::ecl::ECL::L);

        assert_eq!(gen, GENERATOR_POLYNOMIALS[30]);

        let version = crate::version::Version::V32;
        let gen = crate::hardcode::get_polynomial(version, crate::ecl::ECL::M);

        assert_eq!(gen, GENERATOR_POLYNOMIALS[28]);

        let version = crate::version::Version::V32;
        let gen = crate::hardcode::get_polynomial(version, crate::ecl::ECL::Q);

        assert_eq!(gen, GENERATOR_POLYNOMIALS[30]);

        let version = crate::version::Version::V32;
        let gen = crate::hardcode::get_polynomial(version, crate::ecl::ECL::H);

        assert_eq!(gen, GENERATOR_POLYNOMIALS[30]);
    }

    #[test]
    fn generator33() {
        let version = crate::version::Version::V33;
        let gen = crate::hardcode::get_polynomial(version, crate::ecl::ECL::L);

        assert_eq!(gen, GENERATOR_POLYNOMIALS[30]);

        let version = crate::version::Version::V33;
        let gen = crate::hardcode::get_polynomial(version, crate::ecl::ECL::M);

        assert_eq!(gen, GENERATOR_POLYNOMIALS[28]);

        let version = crate::version::Version::V33;
        let gen = crate::hardcode::get_polynomial(version, crate::ecl::ECL::Q);

        assert_eq!(gen, GENERATOR_POLYNOMIALS[30]);

        let version = crate::version::Version::V33;
        let gen = crate::hardcode::get_polynomial(version, crate::ecl::ECL::H);

        assert_eq!(gen, GENERATOR_POLYNOMIALS[30]);
    }

    #[test]
    fn generator34() {
        let version = crate::version::Version::V34;
        let gen = crate::hardcode::get_polynomial(version, crate::ecl::ECL::L);

        assert_eq!(gen, GENERATOR_POLYNOMIALS[30]);

        let version = crate::version::Version::V34;
        let gen = crate::hardcode::get_polynomial(version, crate::ecl::ECL::M);

        assert_eq!(gen, GENERATOR_POLYNOMIALS[28]);

        let version = crate::version::Version::V34;
        let gen = crate::hardcode::get_polynomial(version, crate::ecl::ECL::Q);

        assert_eq!(gen, GENERATOR_POLYNOMIALS[30]);

        let version = crate::version::Version::V34;
        let gen = crate::hardcode::get_polynomial(version, crate::ecl::ECL::H);

        assert_eq!(gen, GENERATOR_POLYNOMIALS[30]);
    }

    #[test]
    fn generator35() {
        let version = crate::version::Version::V35;
        let gen = crate::hardcode::get_polynomial(version, crate::ecl::ECL::L);

        assert_eq!(gen, GENERATOR_POLYNOMIALS[30]);

        let version = crate::version::Version::V35;
        let gen = crate::hardcode::get_polynomial(version, crate::ecl::ECL::M);

        assert_eq!(gen, GENERATOR_POLYNOMIALS[28]);

        let version = crate::version::Version::V35;
        let gen = crate::hardcode::get_polynomial(version, crate::ecl::ECL::Q);

        assert_eq!(gen, GENERATOR_POLYNOMIALS[30]);

        let version = crate::version::Version::V35;
        let gen = crate::hardcode::get_polynomial(version, crate::ecl::ECL::H);

        assert_eq!(gen, GENERATOR_POLYNOMIALS[30]);
    }

    #[test]
    fn generator36() {
        let version = crate::version::Version::V36;
        let gen = crate::hardcode::get_polynomial(version, crate::ecl::ECL::L);

        assert_eq!(gen, GENERATOR_POLYNOMIALS[30]);

        let version = crate::version::Version::V36;
        let gen = crate::hardcode::get_polynomial(version, crate::ecl::ECL::M);

        assert_eq!(gen, GENERATOR_POLYNOMIALS[28]);

        let version = crate::version::Version::V36;
        let gen = crate::hardcode::get_polynomial(version, crate::ecl::ECL::Q);

        assert_eq!(gen, GENERATOR_POLYNOMIALS[30]);

        let version = crate::version::Version::V36;
        let gen = crate::hardcode::get_polynomial(version, crate::ecl::ECL::H);

        assert_eq!(gen, GENERATOR_POLYNOMIALS[30]);
    }

    #[test]
    fn generator37() {
        let version = crate::version::Version::V37;
        let gen = crate::hardcode::get_polynomial(version, crate::ecl::ECL::L);

        assert_eq!(gen, GENERATOR_POLYNOMIALS[30]);

        let version = crate::version::Version::V37;
        let gen = crate::hardcode::get_polynomial(version, crate::ecl::ECL::M);

        assert_eq!(gen, GENERATOR_POLYNOMIALS[28]);

        let version = crate::version::Version::V37;
        let gen = crate::hardcode::get_polynomial(version, crate::ecl::ECL::Q);

        assert_eq!(gen, GENERATOR_POLYNOMIALS[30]);

        let version = crate::version::Version::V37;
        let gen = crate::hardcode::get_polynomial(version, crate::ecl::ECL::H);

        assert_eq!(gen, GENERATOR_POLYNOMIALS[30]);
    }

    #[test]
    fn generator38() {
        let version = crate::version::Version::V38;
        let gen = crate::hardcode::get_polynomial(version, crate::ecl::ECL::L);

        assert_eq!(gen, GENERATOR_POLYNOMIALS[30]);

        let version = crate::version::Version::V38;
        let gen = crate::hardcode::get_polynomial(version, crate::ecl::ECL::M);

        assert_eq!(gen, GENERATOR_POLYNOMIALS[28]);

        let version = crate::version::Version::V38;
        let gen = crate::hardcode::get_polynomial(version, crate::ecl::ECL::Q);

        assert_eq!(gen, GENERATOR_POLYNOMIALS[30]);

        let version = crate::version::Version::V38;
        let gen = crate::hardcode::get_polynomial(version, crate::ecl::ECL::H);

        assert_eq!(gen, GENERATOR_POLYNOMIALS[30]);
    }

    #[test]
    fn generator39() {
        let version = crate::version::Version::V39;
        let gen = crate::hardcode::get_polynomial(version, crate::ecl::ECL::L);

        assert_eq!(gen, GENERATOR_POLYNOMIALS[30]);

        let version = crate::version::Version::V39;
        let gen = crate::hardcode::get_polynomial(version, crate::ecl::ECL::M);

        assert_eq!(gen, GENERATOR_POLYNOMIALS[28]);

        let version = crate::version::Version::V39;
        let gen = crate::hardcode::get_polynomial(version, crate::ecl::ECL::Q);

        assert_eq!(gen, GENERATOR_POLYNOMIALS[30]);

        let version = crate::version::Version::V39;
        let gen = crate::hardcode::get_polynomial(version, crate::ecl::ECL::H);

        assert_eq!(gen, GENERATOR_POLYNOMIALS[30]);
    }

    #[test]
    fn generator40() {
        let version = crate::version::Version::V40;
        let gen = crate::hardcode::get_polynomial(version, crate::ecl::ECL::L);

        assert_eq!(gen, GENERATOR_POLYNOMIALS[30]);

        let version = crate::version::Version::V40;
        let gen = crate::hardcode::get_polynomial(version, crate::ecl::ECL::M);

        assert_eq!(gen, GENERATOR_POLYNOMIALS[28]);

        let version = crate::version::Version::V40;
        let gen = crate::hardcode::get_polynomial(version, crate::ecl::ECL::Q);

        assert_eq!(gen, GENERATOR_POLYNOMIALS[30]);

        let version = crate::version::Version::V40;
        let gen = crate::hardcode::get_polynomial(version, crate::ecl::ECL::H);

        assert_eq!(gen, GENERATOR_POLYNOMIALS[30]);
    }
}
