#[cfg(feature = "svg")]
#[test]
fn it_embeds_an_image_via_data_uri() {
    use crate::convert::svg::SvgBuilder;
    use crate::convert::Builder;
    use crate::{QRBuilder, ECL};

    let image_base64 = "iVBORw0KGgoAAAANSUhEUgAAABAAAAAQCAIAAACQkWg2AAAAFUlEQVR4AWP4oyVDEhrGGkY1jGoAABACQhA+7XDPAAAAAElFTkSuQmCC";
    let data_uri = format!("data:image/png;base64,{image_base64}");

    let qrcode = QRBuilder::new("https://example.com/")
        .ecl(ECL::H)
        .build()
        .unwrap();

    let svg = SvgBuilder::default()
        .image(data_uri.clone())
        .to_str(&qrcode);

    let expected_href = format!(r#"href="{data_uri}""#);
    assert!(svg.contains(&expected_href));
}

#[cfg(feature = "svg")]
#[test]
fn check_svg_is_not_inverted() {
    use crate::convert::svg::SvgBuilder;
    use crate::convert::Builder;
    use crate::{QRBuilder, Version, ECL};

    let qrcode = QRBuilder::new("Test")
        .ecl(ECL::M)
        .version(Version::V01)
        .build()
        .unwrap();

    const MARGIN: usize = 4;
    let svg = SvgBuilder::default().margin(MARGIN).to_str(&qrcode);

    let size = qrcode.size;
    for y in 0..size {
        for x in 0..size {
            let index = y * size + x;
            let expected = qrcode.data[index];
            if expected.value() {
                let expected = format!(r#"M{x},{y}"#, x = x + MARGIN, y = y + MARGIN);
                assert!(svg.contains(&expected));
            }
        }
    }
}
