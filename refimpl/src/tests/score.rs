use crate::default::create_mat_from_bool;
use crate::module::Module;
use crate::score::{
    test_matrix_dark_modules, test_matrix_pattern_and_line, test_matrix_score_squares,
    test_score_line, test_score_pattern,
};
use crate::tests::default::{DATA, EMPT, F, FIND, T};

#[rustfmt::skip]
const MAT_EXAMPLE_COM: [[bool; 29]; 29] = [
    [true, true, true, true, true, true, true, false, true, true, false, false, false, true, false, true, false, false, true, false, true, false, true, true, true, true, true, true, true],
    [true, false, false, false, false, false, true, false, true, true, true, false, false, true, false, true, false, false, true, true, false, false, true, false, false, false, false, false, true],
    [true, false, true, true, true, false, true, false, true, false, true, false, true, false, true, true, false, false, false, true, true, false, true, false, true, true, true, false, true],
    [true, false, true, true, true, false, true, false, false, true, false, true, false, false, true, false, false, true, false, true, false, false, true, false, true, true, true, false, true],
    [true, false, true, true, true, false, true, false, false, false, false, false, true, true, true, true, true, false, true, true, true, false, true, false, true, true, true, false, true],
    [true, false, false, false, false, false, true, false, true, true, true, true, true, false, false, true, false, false, true, false, false, false, true, false, false, false, false, false, true],
    [true, true, true, true, true, true, true, false, true, false, true, false, true, false, true, false, true, false, true, false, true, false, true, true, true, true, true, true, true],
    [false, false, false, false, false, false, false, false, true, true, false, true, true, true, true, true, false, false, false, false, false, false, false, false, false, false, false, false, false],
    [false, false, true, true, true, false, true, false, true, false, false, false, false, false, false, false, true, false, true, true, true, true, true, true, false, false, true, true, true],
    [false, false, false, false, false, true, false, true, true, true, true, true, true, false, true, false, true, false, false, false, false, true, true, true, true, true, true, false, true],
    [true, false, true, true, false, true, true, false, true, true, true, true, true, true, true, true, true, false, true, false, true, true, true, true, false, false, false, false, false],
    [true, false, true, false, true, true, false, true, true, true, false, true, true, false, true, false, true, true, true, false, false, true, true, true, false, true, false, true, false],
    [false, true, false, true, false, true, true, true, true, false, true, false, false, true, false, false, false, false, false, false, true, true, false, true, false, false, true, true, true],
    [false, true, true, false, true, true, false, false, true, false, false, false, true, false, true, false, true, false, false, true, true, true, true, false, true, true, false, true, true],
    [true, true, false, true, false, true, true, false, true, true, true, false, true, false, false, true, true, false, true, false, true, false, true, true, false, false, false, false, false],
    [true, false, true, true, true, false, false, false, true, true, false, false, true, false, false, false, false, true, true, false, true, false, false, false, true, true, false, true, false],
    [false, true, true, false, true, true, true, false, false, true, true, false, true, false, false, true, true, false, false, false, false, true, false, false, false, true, true, true, false],
    [true, false, true, true, true, false, false, false, true, false, true, false, true, true, false, true, true, false, false, false, true, true, true, true, true, true, false, true, true],
    [true, false, false, true, true, false, true, false, false, true, false, true, false, true, false, true, true, true, false, true, false, false, true, true, false, true, false, false, false],
    [true, false, true, false, false, true, false, true, false, true, true, true, true, false, false, true, true, true, false, true, true, false, true, false, true, false, false, true, false],
    [true, false, true, true, false, true, true, false, true, false, true, true, true, true, true, true, true, false, true, true, true, true, true, true, true, false, true, false, false],
    [false, false, false, false, false, false, false, false, true, false, false, false, true, false, true, false, true, true, true, false, true, false, false, false, true, true, false, false, true],
    [true, true, true, true, true, true, true, false, false, false, true, false, true, true, true, true, false, true, true, true, true, false, true, false, true, false, false, false, false],
    [true, false, false, false, false, false, true, false, false, true, true, true, true, true, false, true, true, false, true, true, true, false, false, false, true, true, false, false, false],
    [true, false, true, true, true, false, true, false, true, true, false, false, true, false, false, false, true, true, true, false, true, true, true, true, true, true, true, false, true],
    [true, false, true, true, true, false, true, false, true, true, false, true, true, true, true, false, false, false, true, true, true, true, false, true, false, true, true, false, false],
    [true, false, true, true, true, false, true, false, true, true, true, false, true, false, true, false, true, true, true, true, true, true, true, true, true, false, true, true, false],
    [true, false, false, false, false, false, true, false, false, true, false, false, false, false, true, true, true, true, false, false, false, false, true, false, true, true, false, true, false],
    [true, true, true, true, true, true, true, false, false, false, true, true, true, true, true, true, false, false, true, false, false, false, true, false, true, false, true, false, false]
];

#[test]
fn example_com() {
    let mat = create_mat_from_bool(&MAT_EXAMPLE_COM);
    let (line_score, col_score, pattern_score) = test_matrix_pattern_and_line(&mat);
    let dark_score = test_matrix_dark_modules(&mat);
    let square_score = test_matrix_score_squares(&mat);

    // {"patternScore":160,"lineColScore":106,"squareScore":135,"darkScore":0}
    // {"patternScore":240,"lineColScore":117,"squareScore":138,"darkScore":0}
    assert_eq!(dark_score, 0, "dark score, expected 0");
    assert_eq!(square_score, 138, "square score, expected 138");
    assert_eq!(line_score + col_score, 117, "line col score, expected 117");
    assert_eq!(pattern_score, 240, "pattern score, expected 240");
}

#[rustfmt::skip]
const MAT_FAST_QR_COM: [[bool; 29]; 29] = [
    [true, true, true, true, true, true, true, false, true, true, true, true, true, true, true, true, true, true, true, true, false, false, true, true, true, true, true, true, true],
    [true, false, false, false, false, false, true, false, false, false, false, false, false, true, true, false, false, true, true, true, false, false, true, false, false, false, false, false, true],
    [true, false, true, true, true, false, true, false, true, false, true, false, true, true, false, false, false, false, false, true, true, false, true, false, true, true, true, false, true],
    [true, false, true, true, true, false, true, false, false, true, true, true, true, false, true, false, false, true, false, true, false, false, true, false, true, true, true, false, true],
    [true, false, true, true, true, false, true, false, true, false, false, true, false, true, false, false, true, false, false, true, true, false, true, false, true, true, true, false, true],
    [true, false, false, false, false, false, true, false, false, false, true, true, false, true, true, true, true, false, true, false, true, false, true, false, false, false, false, false, true],
    [true, true, true, true, true, true, true, false, true, false, true, false, true, false, true, false, true, false, true, false, true, false, true, true, true, true, true, true, true],
    [false, false, false, false, false, false, false, false, true, false, true, false, false, true, false, true, true, false, false, false, false, false, false, false, false, false, false, false, false],
    [false, false, false, false, false, true, true, false, false, false, true, true, true, false, true, false, false, false, true, false, true, false, true, false, true, false, true, false, true],
    [true, true, false, true, true, true, false, true, true, true, true, false, false, false, false, false, false, false, false, false, true, false, false, true, true, false, true, true, false],
    [false, true, false, false, true, false, true, false, true, false, true, false, true, true, false, false, false, true, true, false, true, true, true, true, false, true, false, false, false],
    [false, false, false, true, true, false, false, false, false, false, true, true, true, false, false, true, true, true, false, false, false, false, true, true, false, true, false, false, false],
    [true, true, false, true, true, true, true, false, true, false, true, true, false, false, false, true, true, false, true, true, true, true, true, false, false, false, false, true, false],
    [true, false, true, true, false, false, false, false, false, true, false, false, false, true, false, false, true, true, true, true, true, false, true, false, true, true, false, true, true],
    [true, true, false, false, false, false, true, true, true, false, false, false, false, false, false, true, false, true, false, false, false, false, true, true, false, false, false, false, false],
    [false, false, true, false, true, false, false, false, false, false, true, true, false, false, false, true, true, false, true, true, false, true, true, false, true, true, true, true, true],
    [false, false, true, false, true, false, true, true, false, false, true, false, true, false, true, true, false, false, true, false, false, true, false, false, false, true, true, false, true],
    [true, true, true, true, false, false, false, true, false, false, true, false, false, false, true, false, true, true, false, false, true, false, true, true, true, false, false, false, true],
    [true, true, true, true, true, true, true, true, true, false, false, false, false, true, true, true, false, false, true, false, true, false, false, false, false, true, false, false, true],
    [true, false, false, false, false, true, false, false, true, false, true, true, false, true, true, false, false, false, true, true, true, true, true, false, true, false, false, false, false],
    [true, false, false, true, false, false, true, false, false, false, true, true, false, true, false, false, true, true, false, true, true, true, true, true, true, false, true, false, false],
    [false, false, false, false, false, false, false, false, true, false, true, false, false, true, true, false, true, true, true, false, true, false, false, false, true, true, true, false, false],
    [true, true, true, true, true, true, true, false, false, false, false, true, true, false, false, false, true, true, true, true, true, false, true, false, true, false, false, true, false],
    [true, false, false, false, false, false, true, false, true, true, false, true, true, true, true, false, false, false, true, true, true, false, false, false, true, true, false, false, false],
    [true, false, true, true, true, false, true, false, false, true, true, false, true, false, false, true, true, false, true, true, true, true, true, true, true, false, false, false, true],
    [true, false, true, true, true, false, true, false, false, true, true, false, false, false, true, false, true, false, true, true, true, false, false, true, false, true, true, true, false],
    [true, false, true, true, true, false, true, false, false, true, true, false, false, false, false, true, true, false, true, true, true, true, true, true, true, false, true, true, false],
    [true, false, false, false, false, false, true, false, false, true, false, true, true, true, false, true, true, true, false, false, true, true, false, false, true, true, true, false, true],
    [true, true, true, true, true, true, true, false, false, false, true, true, false, false, true, true, true, true, true, false, false, false, true, false, true, false, true, false, false]
];

#[test]
fn fast_qr_com() {
    let mat = create_mat_from_bool(&MAT_FAST_QR_COM);
    let (line_score, col_score, pattern_score) = test_matrix_pattern_and_line(&mat);
    let dark_score = test_matrix_dark_modules(&mat);
    let square_score = test_matrix_score_squares(&mat);

    // {"patternScore":80,"lineColScore":108,"squareScore":174,"darkScore":0}
    assert_eq!(dark_score, 0, "dark score, expected 0");
    assert_eq!(square_score, 174, "square score, expected 174");
    assert_eq!(line_score + col_score, 108, "line col score, expected 108");
    assert_eq!(pattern_score, 80, "pattern score, expected 80");
}

#[rustfmt::skip]
const MAT_XIAOJIBA_DEV: [[bool; 29]; 29] = [
    [true, true, true, true, true, true, true, false, false, true, false, true, false, true, true, true, true, true, false, true, true, false, true, true, true, true, true, true, true],
    [true, false, false, false, false, false, true, false, false, true, true, false, true, true, true, false, true, false, true, true, false, false, true, false, false, false, false, false, true],
    [true, false, true, true, true, false, true, false, true, true, true, false, true, false, true, true, true, false, false, true, false, false, true, false, true, true, true, false, true],
    [true, false, true, true, true, false, true, false, true, true, true, true, false, true, false, false, false, true, false, false, true, false, true, false, true, true, true, false, true],
    [true, false, true, true, true, false, true, false, false, true, false, true, true, true, false, false, true, false, true, true, false, false, true, false, true, true, true, false, true],
    [true, false, false, false, false, false, true, false, false, true, false, false, false, false, true, true, false, false, false, false, true, false, true, false, false, false, false, false, true],
    [true, true, true, true, true, true, true, false, true, false, true, false, true, false, true, false, true, false, true, false, true, false, true, true, true, true, true, true, true],
    [false, false, false, false, false, false, false, false, false, false, false, false, false, false, true, false, true, true, true, true, true, false, false, false, false, false, false, false, false],
    [false, false, false, true, true, false, true, true, false, false, false, true, false, false, false, false, true, false, false, false, false, false, false, false, false, true, true, false, false],
    [true, true, false, true, true, false, false, true, true, false, true, true, false, true, true, true, false, false, true, false, false, false, false, true, true, false, false, true, false],
    [true, true, true, false, false, true, true, true, true, false, false, true, false, true, false, true, false, true, false, true, true, true, true, true, true, true, true, false, false],
    [true, true, true, false, false, true, false, true, false, true, false, false, true, true, false, false, false, true, false, true, true, false, false, false, true, true, false, false, true],
    [false, true, true, false, false, true, true, true, true, true, true, true, true, true, false, true, true, true, true, false, true, true, true, false, false, true, false, true, false],
    [true, false, false, false, false, true, false, true, false, false, false, true, false, true, true, false, false, true, true, false, false, false, true, false, true, false, true, false, true],
    [false, true, false, false, true, true, true, true, true, true, false, true, true, false, true, true, false, true, false, true, false, false, true, true, false, true, false, false, true],
    [true, true, false, true, false, true, false, false, true, true, true, false, false, false, false, false, false, true, true, false, true, true, true, false, true, true, true, false, false],
    [false, true, false, false, false, true, true, true, false, true, true, true, true, true, true, true, true, false, true, true, true, false, false, true, false, true, false, true, true],
    [true, true, true, false, true, false, false, false, true, true, false, false, true, true, false, true, true, false, false, false, false, true, false, false, true, false, false, false, false],
    [true, true, true, false, true, true, true, false, true, false, false, true, false, true, false, false, true, true, true, true, false, false, false, true, false, true, false, false, true],
    [true, true, true, true, true, false, false, false, false, true, true, true, true, false, false, false, false, false, false, false, false, true, true, true, false, false, true, true, false],
    [true, true, false, true, true, false, true, true, true, false, false, false, false, true, false, true, false, true, false, false, true, true, true, true, true, true, true, false, true],
    [false, false, false, false, false, false, false, false, true, false, false, false, true, false, false, false, false, true, true, true, true, false, false, false, true, true, true, false, false],
    [true, true, true, true, true, true, true, false, true, false, true, false, true, true, false, false, false, false, false, true, true, false, true, false, true, false, true, false, false],
    [true, false, false, false, false, false, true, false, false, true, true, false, false, false, false, true, false, false, false, true, true, false, false, false, true, true, false, true, false],
    [true, false, true, true, true, false, true, false, true, true, true, true, false, true, false, false, false, true, false, true, true, true, true, true, true, false, false, false, false],
    [true, false, true, true, true, false, true, false, true, false, true, false, true, true, false, true, true, true, true, false, false, false, false, true, false, true, true, true, false],
    [true, false, true, true, true, false, true, false, false, true, true, true, false, true, false, true, true, true, false, false, true, true, false, true, true, false, false, true, true],
    [true, false, false, false, false, false, true, false, false, true, false, true, true, false, false, true, true, true, true, false, false, true, true, false, true, false, true, false, true],
    [true, true, true, true, true, true, true, false, false, false, true, false, true, false, true, true, false, true, true, false, true, true, true, true, true, false, false, false, false]
];

#[rustfmt::skip]
const XIAOJIBA_MOD: [[Module; 29]; 29] = [
    [Module(3), Module(3), Module(3), Module(3), Module(3), Module(3), Module(3), Module(14), Module(8), Module(1), Module(0), Module(1), Module(0), Module(1), Module(1), Module(1), Module(1), Module(1), Module(0), Module(1), Module(1), Module(14), Module(3), Module(3), Module(3), Module(3), Module(3), Module(3), Module(3)],
    [Module(3), Module(2), Module(2), Module(2), Module(2), Module(2), Module(3), Module(14), Module(8), Module(1), Module(1), Module(0), Module(1), Module(1), Module(1), Module(0), Module(1), Module(0), Module(1), Module(1), Module(0), Module(14), Module(3), Module(2), Module(2), Module(2), Module(2), Module(2), Module(3)],
    [Module(3), Module(2), Module(3), Module(3), Module(3), Module(2), Module(3), Module(14), Module(9), Module(1), Module(1), Module(0), Module(1), Module(0), Module(1), Module(1), Module(1), Module(0), Module(0), Module(1), Module(0), Module(14), Module(3), Module(2), Module(3), Module(3), Module(3), Module(2), Module(3)],
    [Module(3), Module(2), Module(3), Module(3), Module(3), Module(2), Module(3), Module(14), Module(9), Module(1), Module(1), Module(1), Module(0), Module(1), Module(0), Module(0), Module(0), Module(1), Module(0), Module(0), Module(1), Module(14), Module(3), Module(2), Module(3), Module(3), Module(3), Module(2), Module(3)],
    [Module(3), Module(2), Module(3), Module(3), Module(3), Module(2), Module(3), Module(14), Module(8), Module(1), Module(0), Module(1), Module(1), Module(1), Module(0), Module(0), Module(1), Module(0), Module(1), Module(1), Module(0), Module(14), Module(3), Module(2), Module(3), Module(3), Module(3), Module(2), Module(3)],
    [Module(3), Module(2), Module(2), Module(2), Module(2), Module(2), Module(3), Module(14), Module(8), Module(1), Module(0), Module(0), Module(0), Module(0), Module(1), Module(1), Module(0), Module(0), Module(0), Module(0), Module(1), Module(14), Module(3), Module(2), Module(2), Module(2), Module(2), Module(2), Module(3)],
    [Module(3), Module(3), Module(3), Module(3), Module(3), Module(3), Module(3), Module(14), Module(7), Module(6), Module(7), Module(6), Module(7), Module(6), Module(7), Module(6), Module(7), Module(6), Module(7), Module(6), Module(7), Module(14), Module(3), Module(3), Module(3), Module(3), Module(3), Module(3), Module(3)],
    [Module(14), Module(14), Module(14), Module(14), Module(14), Module(14), Module(14), Module(14), Module(8), Module(0), Module(0), Module(0), Module(0), Module(0), Module(1), Module(0), Module(1), Module(1), Module(1), Module(1), Module(1), Module(14), Module(14), Module(14), Module(14), Module(14), Module(14), Module(14), Module(14)],
    [Module(8), Module(8), Module(8), Module(9), Module(9), Module(8), Module(7), Module(9), Module(8), Module(0), Module(0), Module(1), Module(0), Module(0), Module(0), Module(0), Module(1), Module(0), Module(0), Module(0), Module(0), Module(8), Module(8), Module(8), Module(8), Module(9), Module(9), Module(8), Module(8)],
    [Module(1), Module(1), Module(0), Module(1), Module(1), Module(0), Module(6), Module(1), Module(1), Module(0), Module(1), Module(1), Module(0), Module(1), Module(1), Module(1), Module(0), Module(0), Module(1), Module(0), Module(0), Module(0), Module(0), Module(1), Module(1), Module(0), Module(0), Module(1), Module(0)],
    [Module(1), Module(1), Module(1), Module(0), Module(0), Module(1), Module(7), Module(1), Module(1), Module(0), Module(0), Module(1), Module(0), Module(1), Module(0), Module(1), Module(0), Module(1), Module(0), Module(1), Module(1), Module(1), Module(1), Module(1), Module(1), Module(1), Module(1), Module(0), Module(0)],
    [Module(1), Module(1), Module(1), Module(0), Module(0), Module(1), Module(6), Module(1), Module(0), Module(1), Module(0), Module(0), Module(1), Module(1), Module(0), Module(0), Module(0), Module(1), Module(0), Module(1), Module(1), Module(0), Module(0), Module(0), Module(1), Module(1), Module(0), Module(0), Module(1)],
    [Module(0), Module(1), Module(1), Module(0), Module(0), Module(1), Module(7), Module(1), Module(1), Module(1), Module(1), Module(1), Module(1), Module(1), Module(0), Module(1), Module(1), Module(1), Module(1), Module(0), Module(1), Module(1), Module(1), Module(0), Module(0), Module(1), Module(0), Module(1), Module(0)],
    [Module(1), Module(0), Module(0), Module(0), Module(0), Module(1), Module(6), Module(1), Module(0), Module(0), Module(0), Module(1), Module(0), Module(1), Module(1), Module(0), Module(0), Module(1), Module(1), Module(0), Module(0), Module(0), Module(1), Module(0), Module(1), Module(0), Module(1), Module(0), Module(1)],
    [Module(0), Module(1), Module(0), Module(0), Module(1), Module(1), Module(7), Module(1), Module(1), Module(1), Module(0), Module(1), Module(1), Module(0), Module(1), Module(1), Module(0), Module(1), Module(0), Module(1), Module(0), Module(0), Module(1), Module(1), Module(0), Module(1), Module(0), Module(0), Module(1)],
    [Module(1), Module(1), Module(0), Module(1), Module(0), Module(1), Module(6), Module(0), Module(1), Module(1), Module(1), Module(0), Module(0), Module(0), Module(0), Module(0), Module(0), Module(1), Module(1), Module(0), Module(1), Module(1), Module(1), Module(0), Module(1), Module(1), Module(1), Module(0), Module(0)],
    [Module(0), Module(1), Module(0), Module(0), Module(0), Module(1), Module(7), Module(1), Module(0), Module(1), Module(1), Module(1), Module(1), Module(1), Module(1), Module(1), Module(1), Module(0), Module(1), Module(1), Module(1), Module(0), Module(0), Module(1), Module(0), Module(1), Module(0), Module(1), Module(1)],
    [Module(1), Module(1), Module(1), Module(0), Module(1), Module(0), Module(6), Module(0), Module(1), Module(1), Module(0), Module(0), Module(1), Module(1), Module(0), Module(1), Module(1), Module(0), Module(0), Module(0), Module(0), Module(1), Module(0), Module(0), Module(1), Module(0), Module(0), Module(0), Module(0)],
    [Module(1), Module(1), Module(1), Module(0), Module(1), Module(1), Module(7), Module(0), Module(1), Module(0), Module(0), Module(1), Module(0), Module(1), Module(0), Module(0), Module(1), Module(1), Module(1), Module(1), Module(0), Module(0), Module(0), Module(1), Module(0), Module(1), Module(0), Module(0), Module(1)],
    [Module(1), Module(1), Module(1), Module(1), Module(1), Module(0), Module(6), Module(0), Module(0), Module(1), Module(1), Module(1), Module(1), Module(0), Module(0), Module(0), Module(0), Module(0), Module(0), Module(0), Module(0), Module(1), Module(1), Module(1), Module(0), Module(0), Module(1), Module(1), Module(0)],
    [Module(1), Module(1), Module(0), Module(1), Module(1), Module(0), Module(7), Module(1), Module(1), Module(0), Module(0), Module(0), Module(0), Module(1), Module(0), Module(1), Module(0), Module(1), Module(0), Module(0), Module(5), Module(5), Module(5), Module(5), Module(5), Module(1), Module(1), Module(0), Module(1)],
    [Module(14), Module(14), Module(14), Module(14), Module(14), Module(14), Module(14), Module(14), Module(13), Module(0), Module(0), Module(0), Module(1), Module(0), Module(0), Module(0), Module(0), Module(1), Module(1), Module(1), Module(5), Module(4), Module(4), Module(4), Module(5), Module(1), Module(1), Module(0), Module(0)],
    [Module(3), Module(3), Module(3), Module(3), Module(3), Module(3), Module(3), Module(14), Module(9), Module(0), Module(1), Module(0), Module(1), Module(1), Module(0), Module(0), Module(0), Module(0), Module(0), Module(1), Module(5), Module(4), Module(5), Module(4), Module(5), Module(0), Module(1), Module(0), Module(0)],
    [Module(3), Module(2), Module(2), Module(2), Module(2), Module(2), Module(3), Module(14), Module(8), Module(1), Module(1), Module(0), Module(0), Module(0), Module(0), Module(1), Module(0), Module(0), Module(0), Module(1), Module(5), Module(4), Module(4), Module(4), Module(5), Module(1), Module(0), Module(1), Module(0)],
    [Module(3), Module(2), Module(3), Module(3), Module(3), Module(2), Module(3), Module(14), Module(9), Module(1), Module(1), Module(1), Module(0), Module(1), Module(0), Module(0), Module(0), Module(1), Module(0), Module(1), Module(5), Module(5), Module(5), Module(5), Module(5), Module(0), Module(0), Module(0), Module(0)],
    [Module(3), Module(2), Module(3), Module(3), Module(3), Module(2), Module(3), Module(14), Module(9), Module(0), Module(1), Module(0), Module(1), Module(1), Module(0), Module(1), Module(1), Module(1), Module(1), Module(0), Module(0), Module(0), Module(0), Module(1), Module(0), Module(1), Module(1), Module(1), Module(0)],
    [Module(3), Module(2), Module(3), Module(3), Module(3), Module(2), Module(3), Module(14), Module(8), Module(1), Module(1), Module(1), Module(0), Module(1), Module(0), Module(1), Module(1), Module(1), Module(0), Module(0), Module(1), Module(1), Module(0), Module(1), Module(1), Module(0), Module(0), Module(1), Module(1)],
    [Module(3), Module(2), Module(2), Module(2), Module(2), Module(2), Module(3), Module(14), Module(8), Module(1), Module(0), Module(1), Module(1), Module(0), Module(0), Module(1), Module(1), Module(1), Module(1), Module(0), Module(0), Module(1), Module(1), Module(0), Module(1), Module(0), Module(1), Module(0), Module(1)],
    [Module(3), Module(3), Module(3), Module(3), Module(3), Module(3), Module(3), Module(14), Module(8), Module(0), Module(1), Module(0), Module(1), Module(0), Module(1), Module(1), Module(0), Module(1), Module(1), Module(0), Module(1), Module(1), Module(1), Module(1), Module(1), Module(0), Module(0), Module(0), Module(0)]
];

#[test]
fn xiaojiba_dev() {
    let mat = create_mat_from_bool(&MAT_XIAOJIBA_DEV);
    let (line_score, col_score, pattern_score) = test_matrix_pattern_and_line(&mat);
    let dark_score = test_matrix_dark_modules(&mat);
    let square_score = test_matrix_score_squares(&mat);

    // {"patternScore":160,"lineColScore":95,"squareScore":150,"darkScore":0}
    assert_eq!(dark_score, 0, "dark score, expected 0");
    assert_eq!(square_score, 150, "square score, expected 150");
    assert_eq!(line_score + col_score, 95, "line col score, expected 95");
    assert_eq!(pattern_score, 160, "pattern score, expected 160");
}

#[test]
fn adjacent_line() {
    // Data module true, false, true, true, true, false, true
    let line = [
        DATA(T),
        DATA(T),
        DATA(T),
        DATA(T),
        DATA(T),
        DATA(T),
        DATA(T),
    ];

    // Data module true true true true true true true
    let line_2 = [
        DATA(T),
        DATA(T),
        DATA(T),
        DATA(T),
        DATA(T),
        DATA(T),
        DATA(T),
    ];

    // Data module true true true true true false true true true true true
    let line_3_not_data = [
        EMPT(T),
        DATA(T),
        DATA(T),
        DATA(T),
        DATA(T),
        EMPT(T),
        DATA(T),
        DATA(T),
        DATA(T),
        DATA(T),
        DATA(T),
    ];

    let line_4_xiaojiba_dev = [
        FIND(T),
        FIND(T),
        FIND(T),
        FIND(T),
        FIND(T),
        FIND(T),
        FIND(T),
        EMPT(F),
        DATA(F),
        DATA(T),
        DATA(F),
        DATA(T),
        DATA(F),
        DATA(T),
        DATA(T),
        DATA(T),
        DATA(T),
        DATA(T),
        DATA(F),
        DATA(T),
        DATA(T),
        EMPT(F),
        FIND(T),
        FIND(T),
        FIND(T),
        FIND(T),
        FIND(T),
        FIND(T),
        FIND(T),
    ];

    assert_eq!(test_score_line(&line), 5, "line score, expected 5");
    assert_eq!(test_score_line(&line_2), 5, "line score, expected 5");
    assert_eq!(
        test_score_line(&line_3_not_data),
        3,
        "line score, expected 3"
    );
    assert_eq!(
        test_score_line(&line_4_xiaojiba_dev),
        3,
        "line score, expected 3"
    );
}

#[test]
fn line_by_line_xiaojiba() {
    let scores = [
        3, 0, 0, 0, 0, 0, 0, // 7
        6, 0, 0, 6, 0, 5, 0, // 14
        0, 4, 6, 0, 0, 9, 0, // 21
        0, 3, 0, 0, 0, 0, 0, 3,
    ]; // total: 45

    for (i, line) in XIAOJIBA_MOD.iter().enumerate() {
        let score = scores[i];
        assert_eq!(test_score_line(line), score, "line {i}, expected {score}",);
    }
}

#[test]
fn col_by_col_xiaojiba() {
    let mut transposed = [[EMPT(T); 29]; 29];
    for i in 0..29 {
        for j in i..29 {
            transposed[j][i] = XIAOJIBA_MOD[i][j];
            transposed[i][j] = XIAOJIBA_MOD[j][i];
        }
    }

    let scores = [
        0, 5, 0, 3, 0, 5, 0, // 7
        4, 0, 4, 3, 0, 0, 3, // 14
        9, 0, 4, 7, 0, 0, 0, // 21
        0, 0, 0, 0, 0, 0, 0, 3,
    ]; // total: 50

    for (i, col) in transposed.iter().enumerate() {
        let score = scores[i];
        assert_eq!(
            test_score_line(col),
            score,
            "col {i}, expected {score}\n\n{:?}",
            col
        );
    }
}

#[test]
fn pattern() {
    // Module data: true false true true true false true
    let line = [
        DATA(T),
        DATA(F),
        DATA(T),
        DATA(T),
        DATA(T),
        DATA(F),
        DATA(T),
    ];

    assert_eq!(test_score_pattern(&line), 40, "pattern, expected 40");

    // Module data: true false true true true false true (double)
    let line = [
        DATA(T),
        DATA(F),
        DATA(T),
        DATA(T),
        DATA(T),
        DATA(F),
        DATA(T),
        DATA(T),
        DATA(F),
        DATA(T),
        DATA(T),
        DATA(T),
        DATA(F),
        DATA(T),
    ];

    assert_eq!(test_score_pattern(&line), 80, "pattern, expected 80");

    // Module data: true false true true true false true (double using middle)
    let line = [
        DATA(T),
        DATA(F),
        DATA(T),
        DATA(T),
        DATA(T),
        DATA(F),
        DATA(T),
        DATA(F),
        DATA(T),
        DATA(T),
        DATA(T),
        DATA(F),
        DATA(T),
    ];

    assert_eq!(test_score_pattern(&line), 80, "pattern, expected 80");

    // Module data: true false true true true false true (double using middle)
    let line = [
        EMPT(F),
        DATA(T),
        DATA(F),
        DATA(T),
        DATA(T),
        DATA(T),
        DATA(F),
        DATA(T),
        EMPT(F),
    ];

    assert_eq!(test_score_pattern(&line), 40, "pattern, expected 40");
}
