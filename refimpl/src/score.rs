//! `QRCode` need a way to define if they are readable, using a
//! scoring system. The lesser, the better.

#![warn(missing_docs)]

#[cfg(test)]
use crate::default::transpose;
use crate::module::{Module, ModuleType};
use crate::QRCode;

use super::hardcode;

#[cfg(test)]
pub fn test_score_line(l: &[Module]) -> u32 {
    line(l).1
}

#[cfg(test)]
pub fn test_score_pattern(l: &[Module]) -> u32 {
    line(l).0
}

#[cfg(test)]
pub fn test_matrix_dark_modules(qr: &QRCode) -> u32 {
    dark_module_score(qr)
}

#[cfg(test)]
pub fn test_matrix_pattern_and_line(qr: &QRCode) -> (u32, u32, u32) {
    let transpose = transpose(qr);
    matrix_pattern_and_line(qr, &transpose)
}

#[cfg(test)]
pub fn test_matrix_score_squares(qr: &QRCode) -> u32 {
    matrix_score_squares(qr)
}

#[cfg(feature = "verif-hooks")]
#[doc(hidden)]
pub fn verif_line(l: &[Module]) -> (u32, u32) {
    line(l)
}

#[cfg(feature = "verif-hooks")]
#[doc(hidden)]
pub fn verif_squares(qr: &QRCode) -> u32 {
    matrix_score_squares(qr)
}

#[cfg(feature = "verif-hooks")]
#[doc(hidden)]
pub fn verif_dark(qr: &QRCode) -> u32 {
    dark_module_score(qr)
}

#[cfg(feature = "verif-hooks")]
#[doc(hidden)]
pub fn verif_pattern_and_line(qr: &QRCode, qr_transpose: &QRCode) -> (u32, u32, u32) {
    matrix_pattern_and_line(qr, qr_transpose)
}

/// Computes scores for squares, any 2x2 square (black or white)
/// add 3 to the score
///
/// ### Opti:
/// We don't want to access the 4 squares each time, so we score the left most
/// ones and only fetch the next right ones
fn matrix_score_squares(qr: &QRCode) -> u32 {
    let mut square_score = 0;

    for i in 0..qr.size - 1 {
        let mut count_data = 2;

        let line1 = &qr[i];
        let line2 = &qr[i + 1];

        let mut buffer = 0u8;
        buffer |= u8::from(line1[0].value()) << 2;
        buffer |= u8::from(line2[0].value()) << 3;

        for j in 0..qr.size - 1 {
            buffer >>= 2;
            buffer |= u8::from(line1[j + 1].value()) << 2;
            buffer |= u8::from(line2[j + 1].value()) << 3;

            if line1[j + 1].module_type() != ModuleType::Data
                || line2[j + 1].module_type() != ModuleType::Data
            {
                count_data = 0;
            }

            if count_data >= 2 && (buffer == 0b1111 || buffer == 0b0000) {
                square_score += 3;
            }

            count_data += 1;
        }
    }

    square_score
}

/// Computes scores for both patterns (`0b10111010000` or `0b00001011101`)
///
/// ### Opti:
/// We convert the line to a u11 (supposedly) so comparing it to a pattern is
/// a simple comparison.
fn line(line: &[Module]) -> (u32, u32) {
    const PATTERN_LEN: usize = 7;

    let mut line_score = 0;
    let mut patt_score = 0;

    let mut count = 1;
    let mut current = !line[0].value();

    let mut buffer = 0;
    let mut count_data = 0;

    for &item in line {
        buffer = ((buffer << 1) | u16::from(item.value())) & 0b111_1111;
        count_data += 1;

        if item.value() != current {
            if count >= 5 {
                line_score += count - 2;
            }
            count = 0;
            current = item.value();
        }

        if item.module_type() != ModuleType::Data {
            if count >= 5 {
                line_score += count - 2;
            }

            count_data = 0;
            count = 0;
            continue;
        }

        if count_data >= PATTERN_LEN && buffer == 0b101_1101 {
            patt_score += 40;
        }

        count += 1;
    }

    if count >= 5 {
        line_score += count - 2;
    }

    (patt_score, line_score)
}

/// Converts the matrix to lines & columns and feed it to `score_line`
fn matrix_pattern_and_line(qr: &QRCode, qr_transpose: &QRCode) -> (u32, u32, u32) {
    let mut line_score = 0;
    let mut col_score = 0;
    let mut patt_score = 0;

    let n = qr.size;

    for i in 0..n {
        let l = line(&qr[i]);
        line_score += l.1;

        let c = line(&qr_transpose[i]);
        col_score += c.1;

        patt_score += l.0 + c.0;
    }

    (line_score, col_score, patt_score)
}

/// Computes the number of `ModuleType::Dark` modules
fn dark_module_score(qr: &QRCode) -> u32 {
    let n = qr.size;
    let dark_modules = qr.data[..n * n]
        .iter()
        .filter(|m| m.value() == Module::DARK)
        .count();

    let percent = (dark_modules * 100) / (n * n);
    u32::from(hardcode::PERCENT_SCORE[percent])
}

/// Computes the score for the matrix
/// - `matrix_pattern_and_line`:
///   - 40 points for each [TFTTTFT] pattern (T: true / F: false)
///   - N - 2 points for each line with N consecutive modules of the same color (N >= 5)
/// - `matrix_score_squares`: 3 points for each 2x2 square (black or white)
/// - `dark_module_score`: 10 points for each 5% of dark modules away from 50%
pub fn score(qr: &QRCode, qr_transpose: &QRCode) -> u32 {
    let dark_score = dark_module_score(qr);
    let square_score = matrix_score_squares(qr);
    let (line_score, col_score, patt_score) = matrix_pattern_and_line(qr, qr_transpose);

    line_score + patt_score + col_score + dark_score + square_score
}
