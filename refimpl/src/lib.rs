#![cfg_attr(docsrs, feature(doc_cfg))]
#![warn(missing_docs)]
//! # Easy to use fast QRCode generator
//!
//! More examples can be found on [GitHub](https://github.com/erwanvivien/fast_qr/tree/master/examples).
//!
//! ## Converts [`QRCode`] to Unicode
//!
//! ```rust
//! # use fast_qr::convert::ConvertError;
//! use fast_qr::qr::QRBuilder;
//!
//! # fn main() -> Result<(), ConvertError> {
//! // QRBuilder::new can fail if content is too big for version,
//! // please check before unwrapping.
//! let qrcode = QRBuilder::new("https://example.com/")
//!     .build()
//!     .unwrap();
//!
//! let str = qrcode.to_str(); // .print() exists
//! println!("{}", str);
//!
//! #     Ok(())
//! # }
//! ```
//!
//! ## Converts [`QRCode`] to SVG
//!
//! ```rust
//! # use fast_qr::convert::ConvertError;
//! use fast_qr::convert::{svg::SvgBuilder, Builder, Shape};
//! use fast_qr::qr::QRBuilder;
//!
//! # fn main() -> Result<(), ConvertError> {
//! // QRBuilder::new can fail if content is too big for version,
//! // please check before unwrapping.
//! let qrcode = QRBuilder::new("https://example.com/")
//!     .build()
//!     .unwrap();
//!
//! let _svg = SvgBuilder::default()
//!     .shape(Shape::RoundedSquare)
//!     .to_file(&qrcode, "out.svg");
//! #     std::fs::remove_file("out.svg");
//!
//! #     Ok(())
//! # }
//! ```
//!
//! ## Converts [`QRCode`] to an image
//!
//! ```rust
//! # use fast_qr::convert::ConvertError;
//! use fast_qr::convert::{image::ImageBuilder, Builder, Shape};
//! use fast_qr::qr::QRBuilder;
//!
//! # fn main() -> Result<(), ConvertError> {
//! // QRBuilder::new can fail if content is too big for version,
//! // please check before unwrapping.
//! let qrcode = QRBuilder::new("https://example.com/")
//!     .build()
//!     .unwrap();
//!
//! let _img = ImageBuilder::default()
//!     .shape(Shape::RoundedSquare)
//!     .background_color([255, 255, 255, 0]) // transparency
//!     .fit_width(600)
//!     .to_file(&qrcode, "out.png");
//! #     std::fs::remove_file("out.png");
//!
//! #     Ok(())
//! # }
//! ```

pub use crate::datamasking::Mask;
pub use crate::ecl::ECL;
pub use crate::encode::Mode;
pub use crate::module::{Module, ModuleType};
pub use crate::qr::{QRBuilder, QRCode};
pub use crate::version::Version;

mod compact;
#[doc(hidden)]
pub mod datamasking;

pub mod convert;
mod default;
mod ecl;
mod encode;
mod hardcode;
#[cfg(not(feature = "wasm-bindgen"))]
mod helpers;
mod module;
mod placement;
mod polynomials;
#[macro_use]
pub mod qr;
mod score;
mod version;

#[cfg(test)]
mod tests;

#[cfg(feature = "verif-hooks")]
#[doc(hidden)]
pub mod verif_hooks;

#[cfg(all(feature = "verif-hooks", not(target_arch = "wasm32")))]
#[doc(hidden)]
#[allow(missing_docs)]
#[path = "wasm.rs"]
pub mod wasm_host;

#[cfg(target_arch = "wasm32")]
mod wasm;

#[cfg(target_arch = "wasm32")]
pub use wasm::*;
