use crate::QRCode;
#[cfg(feature = "svg")]
use crate::{convert, Version, ECL};
#[cfg(feature = "wasm-bindgen")]
use wasm_bindgen::prelude::*;

fn bool_to_u8(qr: QRCode) -> Vec<u8> {
    let dim = qr.size;
    qr.data[..dim * dim]
        .iter()
        .map(|x| u8::from(x.value()))
        .collect()
}

/// Generate a QR code from a string. All parameters are automatically set.
#[cfg_attr(feature = "wasm-bindgen", wasm_bindgen)]
#[must_use]
pub fn qr(content: &str) -> Vec<u8> {
    let qrcode = QRCode::new(content.as_bytes(), None, None, None, None);
    qrcode.map(bool_to_u8).unwrap_or(Vec::new())
}

/// Configuration for the SVG output.
#[cfg(feature = "svg")]
#[cfg_attr(feature = "wasm-bindgen", wasm_bindgen)]
#[derive(Debug, Clone)]
pub struct SvgOptions {
    shape: convert::Shape,
    module_color: Vec<u8>,
    margin: usize,

    ecl: Option<ECL>,
    version: Option<Version>,

    background_color: Vec<u8>,

    image: String,
    image_background_color: Vec<u8>,
    image_background_shape: convert::ImageBackgroundShape,
    image_size: Vec<f64>,
    image_position: Vec<f64>,
}

#[cfg_attr(feature = "wasm-bindgen", wasm_bindgen)]
#[cfg(feature = "svg")]
impl SvgOptions {
    fn color_to_code(color: String) -> Vec<u8> {
        let mut color = color;
        if color.starts_with('#') {
            color.remove(0);
        }
        let color = color.as_bytes();
        let color = color.chunks_exact(2);
        let color = color.map(|x| {
            std::str::from_utf8(x)
                .ok()
                .and_then(|x| u8::from_str_radix(x, 16).ok())
        });

        // A malformed color yields an empty code, which every setter ignores
        let mut color = color.collect::<Option<Vec<u8>>>().unwrap_or_default();
        if color.len() == 3 {
            color.push(255);
        }

        color
    }

    /// Updates the shape of the QRCode modules.
    pub fn shape(self, shape: convert::Shape) -> Self {
        Self { shape, ..self }
    }

    /// Updates the module color of the QRCode. Tales a string in the format `#RRGGBB[AA]`.
    pub fn module_color(self, module_color: String) -> Self {
        let code = Self::color_to_code(module_color);
        if code.len() != 4 {
            return self;
        }
        Self {
            module_color: code,
            ..self
        }
    }

    /// Updates the margin of the QRCode.
    pub fn margin(self, margin: usize) -> Self {
        Self { margin, ..self }
    }

    /// Updates the background color of the QRCode. Tales a string in the format `#RRGGBB[AA]`.
    pub fn background_color(self, background_color: String) -> Self {
        let code = Self::color_to_code(background_color);
        if code.len() != 4 {
            return self;
        }
        Self {
            background_color: code,
            ..self
        }
    }

    /// Updates the image of the QRCode. Takes base64 or a url.
    pub fn image(self, image: String) -> Self {
        Self { image, ..self }
    }

    /// Updates the background color of the image. Takes a string in the format `#RRGGBB[AA]`.
    pub fn image_background_color(self, image_background_color: String) -> Self {
        let code = Self::color_to_code(image_background_color);
        if code.len() != 4 {
            return self;
        }

        Self {
            image_background_color: code,
            ..self
        }
    }

    /// Updates the shape of the image background. Takes an convert::ImageBackgroundShape.
    pub fn image_background_shape(
        self,
        image_background_shape: convert::ImageBackgroundShape,
    ) -> Self {
        Self {
            image_background_shape,
            ..self
        }
    }

    /// Updates the size of the image. Takes a size and a gap (unit being module size).
    pub fn image_size(self, size: f64, gap: f64) -> Self {
        Self {
            image_size: vec![size, gap],
            ..self
        }
    }

    /// Updates the position of the image. Takes an array [x, y] (unit being module size).
    pub fn image_position(self, image_position: Vec<f64>) -> Self {
        if image_position.len() != 2 {
            return self;
        }

        Self {
            image_position,
            ..self
        }
    }

    /// Updates the error correction level of the QRCode (can increase the size of the QRCode)
    pub fn ecl(self, ecl: ECL) -> Self {
        Self {
            ecl: Some(ecl),
            ..self
        }
    }

    /// Forces the version of the QRCode
    pub fn version(self, version: Version) -> Self {
        Self {
            version: Some(version),
            ..self
        }
    }
}

#[cfg_attr(feature = "wasm-bindgen", wasm_bindgen)]
#[cfg(feature = "svg")]
impl SvgOptions {
    /// Creates a new SvgOptions object.
    #[cfg_attr(feature = "wasm-bindgen", wasm_bindgen(constructor))]
    pub fn new() -> Self {
        Self {
            shape: convert::Shape::Square,
            module_color: vec![0, 0, 0, 255],
            margin: 4,

            ecl: None,
            version: None,

            background_color: vec![255, 255, 255, 255],

            image: String::new(),
            image_background_color: vec![255, 255, 255, 255],
            image_background_shape: convert::ImageBackgroundShape::Square,
            image_size: vec![],
            image_position: vec![],
        }
    }
}

/// Generate a QR code from a string. All parameters are automatically set.
#[cfg_attr(feature = "wasm-bindgen", wasm_bindgen)]
#[cfg(feature = "svg")]
pub fn qr_svg(content: &str, options: SvgOptions) -> String {
    use crate::convert::svg::SvgBuilder;
    use crate::convert::Builder;
    let qrcode = QRCode::new(content.as_bytes(), options.ecl, options.version, None, None);

    let mut builder = SvgBuilder::default();
    builder.shape(options.shape);
    builder.margin(options.margin);
    builder.background_color(options.background_color);
    builder.module_color(options.module_color);
    if !options.image.is_empty() {
        builder.image(options.image);
    }

    builder.image_background_color(options.image_background_color);
    builder.image_background_shape(options.image_background_shape);

    if options.image_size.len() == 2 {
        let size = options.image_size[0];
        let gap = options.image_size[1];
        builder.image_size(size);
        builder.image_gap(gap);
    }

    if options.image_position.len() == 2 {
        let x = options.image_position[0];
        let y = options.image_position[1];
        builder.image_position(x, y);
    }

    qrcode
        .map(|qrcode| builder.to_str(&qrcode))
        .unwrap_or(String::new())
}
