//! Contains all different levels of quality.
//! And allows to find easily max bits per version/quality pair

#![deny(unsafe_code)]
#![warn(missing_docs)]

use std::fmt::Write;

/// Error Correction Coding has 4 levels
#[derive(Copy, Clone, Debug)]
#[allow(dead_code)]
#[cfg_attr(feature = "wasm-bindgen", wasm_bindgen::prelude::wasm_bindgen)]
pub enum ECL {
    /// Low, 7%
    L,
    /// Medium, 15%
    M,
    /// Quartile, 25%
    Q,
    /// High, 30%
    H,
}

impl core::fmt::Display for ECL {
    fn fmt(&self, f: &mut core::fmt::Formatter) -> core::fmt::Result {
        match self {
            ECL::L => f.write_char('L'),
            ECL::M => f.write_char('M'),
            ECL::Q => f.write_char('Q'),
            ECL::H => f.write_char('H'),
        }
    }
}
