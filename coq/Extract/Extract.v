(* Extraction of the executable model and the spec oracles to OCaml.
   Directives in force: exactly those of ExtrOcamlBasic (bool, option, unit, list, prod, sumbool, sumor mapped
   to OCaml natives; andb/orb/negb inlined). nat, positive, N, Z stay the extracted inductive types. *)
Require Extraction.
Require Import ExtrOcamlBasic.
From FQ Require Import Lib.ListX Lib.Mat Model.Types Model.Hardcode Model.Compact Model.Encode Model.Poly
  Model.Default Model.Masking Model.Score Model.Placement Model.Qr Model.Helpers
  Spec.IsoTable9 Spec.Iso Spec.Gf Spec.Oracles Spec.Penalty.
Extraction Language OCaml.
Separate Extraction
  Types.cell_byte Types.ecl_of_idx Types.mode_of_idx Types.ecl_idx Types.mode_idx
  Hardcode.version_get Hardcode.max_bytes
  Compact.push_bits Compact.push_bits_panics Compact.push_u8 Compact.push_u8_slice Compact.from_array
  Encode.best_encoding Encode.encode Encode.encode_panic Encode.is_qr_alphanumeric Encode.ascii_to_alphanumeric
  Poly.division_buffer Poly.division_panics Poly.structure_buffer
  Default.blank Default.transpose Default.place_format
  Masking.apply_mask
  Placement.place_data Placement.select_trace
  Score.line Score.lines_score Score.dark_score Score.squares Score.score
  Qr.build Qr.build_unchecked Qr.build_trace Qr.no_options
  Helpers.print_matrix_with_margin
  Iso.iso_decode Iso.iso_min_version Iso.iso_codewords Iso.iso_region_map
  Oracles.oracle_fixed Oracles.oracle_labels Oracles.oracle_format Oracles.oracle_rs Oracles.oracle_data_codewords
  Oracles.oracle_mask Oracles.oracle_mode Oracles.oracle_ec Oracles.vals_of Penalty.oracle_penalty.
