(* Extraction of the executable model and the spec oracles to OCaml.
   Directives in force: exactly those of ExtrOcamlBasic (bool, option, unit, list, prod, sumbool, sumor mapped
   to OCaml natives; andb/orb/negb inlined). nat, positive, N, Z stay the extracted inductive types. *)
Require Extraction.
Require Import ExtrOcamlBasic.
From FQ Require Import Lib.ListX Lib.Mat Model.Types Model.Hardcode Model.Compact Model.Encode Model.Poly
  Model.Default Model.Masking Model.Score Model.Placement Model.Qr Model.Helpers Model.Builder Model.Svg Model.Wasm
  Spec.IsoTable9 Spec.Iso Spec.Gf Spec.Oracles Spec.Penalty Spec.Xml Spec.SvgDoc.
Extraction Language OCaml.
Separate Extraction
  Types.cell_byte Types.ecl_of_idx Types.mode_of_idx Types.ecl_idx Types.mode_idx
  Hardcode.version_get Hardcode.max_bytes
  Compact.push_bits Compact.push_bits_panics Compact.push_u8 Compact.push_u8_slice Compact.from_array
  Encode.best_encoding Encode.encode Encode.encode_panic Encode.is_qr_alphanumeric Encode.ascii_to_alphanumeric
  Poly.division_buffer Poly.division_panics Poly.structure_buffer
  Default.blank Default.transpose Default.place_format
  Masking.apply_mask
  Placement.place_data Placement.select_trace
  Score.line Score.lines_score Score.dark_score Score.dark_panics Score.squares Score.score
  Qr.build Qr.build_unchecked Qr.build_trace Qr.no_options
  Helpers.print_matrix_with_margin
  Builder.run_history Builder.new_builder
  Svg.default Svg.set_margin Svg.set_module_color Svg.set_background_color Svg.add_shape Svg.add_shape_color
  Svg.set_image Svg.set_image_background_color Svg.set_image_background_shape Svg.set_image_size Svg.set_image_gap
  Svg.set_image_position Svg.shape_of_idx Svg.ishape_of_idx Svg.to_str Svg.to_str_panics
  Wasm.new_options Wasm.set_shape Wasm.set_module_color Wasm.set_margin Wasm.set_background_color Wasm.set_image
  Wasm.set_image_background_color Wasm.set_image_background_shape Wasm.set_image_size Wasm.set_image_position
  Wasm.set_ecl Wasm.set_version Wasm.qr_unchecked Wasm.qr_svg_unchecked Wasm.color_to_code
  Iso.iso_decode Iso.iso_min_version Iso.iso_codewords Iso.iso_region_map
  Oracles.oracle_fixed Oracles.oracle_labels Oracles.oracle_format Oracles.oracle_rs Oracles.oracle_data_codewords
  Oracles.oracle_mask Oracles.oracle_mode Oracles.oracle_ec Oracles.vals_of Penalty.oracle_penalty Penalty.oracle_penalty_parts Penalty.oracle_line Oracles.oracle_rs_stream Oracles.oracle_mask_iso
  Xml.xml_parse SvgDoc.expected_doc SvgDoc.cfg_ok.
