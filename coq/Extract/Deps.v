(* everything the extraction needs, so that `make Extract/Deps.vo` builds the executable part of the development *)
From FQ Require Import Lib.ListX Lib.Mat Model.Types Model.Hardcode Model.Compact Model.Encode Model.Poly
  Model.Default Model.Masking Model.Score Model.Placement Model.Qr Model.Helpers Model.Builder Model.Svg Model.Wasm
  Spec.IsoTable9 Spec.Iso Spec.Gf Spec.Oracles Spec.Penalty Spec.Xml Spec.SvgDoc.
