(* Block structuring and interleaving: reading the codeword sequence produced by structure() with the ISO Table 9
   de-interleaver gives back, for every block, its slice of the data codewords and the division remainder of that slice. *)
From Coq Require Import NArith List Bool Arith Lia.
From FQ Require Import Lib.ListX Generated.Tables Model.Types Model.Hardcode Model.Poly Spec.IsoTable9 Spec.Iso Spec.Gf
  Proofs.Tables Proofs.GfField Proofs.Division Proofs.Syndromes Proofs.InterleavePlan.
Import ListNotations.

(* ------------------------------------------------------------ generic list facts *)
Lemma skipn_add {A} (l : list A) a b : skipn a (skipn b l) = skipn (b + a) l.
Proof.
  revert l; induction b as [|b IH]; intros l; [reflexivity|].
  destruct l as [|x l]; [now rewrite !skipn_nil|]. cbn [skipn Nat.add]. apply IH.
Qed.

Lemma slice_as_map (data : list N) start len : start + len <= length data ->
  slice data start len = map (fun i => nth (start + i) data 0%N) (seq 0 len).
Proof.
  revert data start. induction len as [|len IH]; intros data start H; unfold slice in *.
  - now rewrite firstn_O.
  - destruct (skipn start data) as [|x t] eqn:E.
    + exfalso. assert (L : length (skipn start data) = length data - start) by apply skipn_length. rewrite E in L. cbn in L. lia.
    + cbn [firstn seq map]. f_equal.
      * rewrite Nat.add_0_r. rewrite <- (firstn_skipn start data) at 1.
        rewrite app_nth2 by (rewrite firstn_length; lia). rewrite firstn_length, Nat.min_l by lia.
        rewrite Nat.sub_diag, E. reflexivity.
      * assert (Et : t = skipn (S start) data).
        { replace (S start) with (start + 1) by lia. rewrite <- skipn_add, E. reflexivity. }
        rewrite Et. rewrite (IH data (S start)) by lia. rewrite <- seq_shift, map_map.
        apply map_ext. intros i. f_equal. lia.
Qed.

Lemma map_nth_self (l : list N) k : k = length l -> map (fun j => nth j l 0%N) (seq 0 k) = l.
Proof.
  intros ->. apply nth_ext with (d := 0%N) (d' := 0%N); [now rewrite map_length, seq_length|].
  intros i Hi. rewrite map_length, seq_length in Hi.
  rewrite (nth_indep _ 0%N (nth 0 l 0%N)) by (now rewrite map_length, seq_length).
  rewrite (map_nth (fun j => nth j l 0%N) (seq 0 (length l)) 0 i). now rewrite seq_nth.
Qed.

(* column-major interleaving: element (j, b) of a flat_map over j of a map over the blocks sits at j * B + b *)
Lemma ec_interleave_nth (ecs : list (list N)) k j b : j < k -> b < length ecs ->
  nth (j * length ecs + b) (ec_interleave ecs k) 0%N = nth j (nth b ecs []) 0%N.
Proof.
  unfold ec_interleave. intros Hj Hb.
  assert (G : forall s len, s <= j < s + len ->
            nth ((j - s) * length ecs + b) (flat_map (fun j0 => map (fun ec => nth j0 ec 0%N) ecs) (seq s len)) 0%N
            = nth j (nth b ecs []) 0%N).
  { intros s len; revert s; induction len as [|len IH]; intros s Hs; [lia|].
    cbn [seq flat_map]. destruct (Nat.eq_dec j s) as [->|Hne].
    - rewrite Nat.sub_diag, Nat.mul_0_l, Nat.add_0_l. rewrite app_nth1 by (now rewrite map_length).
      rewrite (nth_indep _ 0%N ((fun ec => nth s ec 0%N) [])) by (now rewrite map_length).
      now rewrite (map_nth (fun ec => nth s ec 0%N) ecs [] b).
    - rewrite app_nth2 by (rewrite map_length; nia). rewrite map_length.
      replace ((j - s) * length ecs + b - length ecs) with ((j - S s) * length ecs + b) by nia.
      apply IH. lia. }
  specialize (G 0 k ltac:(lia)). now rewrite Nat.sub_0_r in G.
Qed.

Lemma ec_interleave_length ecs k : length (ec_interleave ecs k) = k * length ecs.
Proof.
  unfold ec_interleave. induction (seq 0 k) as [|x l IH] eqn:E in k |- *.
  - destruct k; [reflexivity | discriminate].
  - assert (G : forall s len, length (flat_map (fun j => map (fun ec => nth j ec 0%N) ecs) (seq s len)) = len * length ecs).
    { intros s len; revert s; induction len as [|len IHl]; intros s; [reflexivity|].
      cbn [seq flat_map]. rewrite app_length, map_length, IHl. lia. }
    rewrite <- E. apply G.
Qed.

Lemma flat_map_fst_map {A B C} (g : A -> list B * C) (l : list A) :
  flat_map fst (map g l) = flat_map (fun x => fst (g x)) l.
Proof. induction l as [|x l IH]; cbn; [reflexivity | now rewrite IH]. Qed.

Lemma flat_map_ext_in {A B} (f g : A -> list B) (l : list A) :
  (forall x, In x l -> f x = g x) -> flat_map f l = flat_map g l.
Proof.
  induction l as [|x l IH]; intros H; cbn [flat_map]; [reflexivity|].
  rewrite (H x) by now left. rewrite IH; [reflexivity | intros y Hy; apply H; now right].
Qed.

Lemma flat_map_nth_seq {A B} (f : A -> list B) (l : list A) (d : A) :
  flat_map (fun b => f (nth b l d)) (seq 0 (length l)) = flat_map f l.
Proof.
  assert (G : forall pre l', flat_map (fun b => f (nth b (pre ++ l') d)) (seq (length pre) (length l')) = flat_map f l').
  { intros pre l'; revert pre; induction l' as [|x l' IH]; intros pre; [reflexivity|].
    cbn [length seq flat_map]. rewrite app_nth2 by lia. rewrite Nat.sub_diag. cbn [nth]. f_equal.
    specialize (IH (pre ++ [x])). rewrite app_length, <- app_assoc in IH. cbn [length app] in IH.
    rewrite Nat.add_1_r in IH. exact IH. }
  exact (G [] l).
Qed.

(* ------------------------------------------------------------ de-interleaving the structured stream *)
Section Structure.
Variables (v : nat) (e : ecl) (data : list N).
Hypothesis Hv : v < 40.
Hypothesis Hdata : Forall (fun b => (b < 256)%N) data.
Hypothesis Hlen : iso_data_codewords v (ecl_idx e) <= length data.
Let l := ecl_idx e.
Let D := iso_data_codewords v l.
Let ec := iso_ec v l.
Let gen := get_polynomial v e.
Let R := block_ranges e v.
Let S := structure data e v.

Lemma plan_facts :
  let '(d1, g1, d2, g2) := iso_layout v l in
  let B := g1 + g2 in
  length (gather_plan e v) = D /\ length R = B /\ N.to_nat (data_codewords v e) = D /\
  ranges_consecutive R 0 = Some D /\
  forall b, b < B ->
    let '(start, size) := nth b R (0, 0) in
    size = (if b <? g1 then d1 else d2) /\ start + size <= D /\
    forall i, i < size -> iso_pos d1 B g1 i b < D /\ nth (iso_pos d1 B g1 i b) (gather_plan e v) 0 = start + i.
Proof.
  pose proof (forallb_In _ _ (v, l) interleave_plan_check) as C.
  specialize (C ltac:(apply in_prod; [apply in_versions, Hv | apply in_levels, ecl_idx_lt])).
  unfold interleave_plan_ok in C. cbn [fst snd] in C. unfold interleave_plan_ok2 in C.
  assert (El : ecl_of_idx l = e) by (unfold l; apply ecl_of_idx_idx). rewrite El in C.
  destruct (iso_layout v l) as [[[d1 g1] d2] g2]. cbv zeta in C. cbv zeta.
  apply andb_prop in C as [C C4]. apply andb_prop in C as [C C5]. apply andb_prop in C as [C C3]. apply andb_prop in C as [C1 C2].
  apply Nat.eqb_eq in C1, C2, C3. fold D in C1, C3. fold R in C2, C5.
  split; [exact C1|]. split; [exact C2|]. split; [exact C3|]. split.
  { destruct (ranges_consecutive R 0) as [t|]; [|discriminate]. apply Nat.eqb_eq in C5. fold D in C5. now subst t. }
  intros b Hb. pose proof (forallb_In _ _ b C4 ltac:(apply in_seq; lia)) as Cb. cbn beta in Cb. fold R in Cb.
  destruct (nth b R (0, 0)) as [start size]. apply andb_prop in Cb as [Cb Ci]. apply andb_prop in Cb as [Cs Cr].
  apply Nat.eqb_eq in Cs. apply Nat.leb_le in Cr. fold D in Cr.
  split; [exact Cs|]. split; [exact Cr|]. intros i Hi.
  pose proof (forallb_In _ _ i Ci ltac:(apply in_seq; lia)) as Cii. cbn beta in Cii.
  apply andb_prop in Cii as [A B']. apply Nat.ltb_lt in A. apply Nat.eqb_eq in B'. fold D in A. auto.
Qed.

Definition block_slice (b : nat) : list N := let '(start, size) := nth b R (0, 0) in slice data start size.
Definition block_ec (b : nat) : list N := division_ec (block_slice b) gen.

Lemma structure_shape :
  S = map (fun idx => nth idx data 0%N) (gather_plan e v)
      ++ ec_interleave (map (fun r : nat * nat => division_ec (slice data (fst r) (snd r)) gen) R) ec.
Proof.
  unfold S, structure. fold gen. fold R.
  pose proof plan_facts as P. destruct (iso_layout v l) as [[[d1 g1] d2] g2]. cbn zeta in P.
  destruct P as (P1 & P2 & P3 & _).
  rewrite map_length, P1, P3, Nat.sub_diag. cbn [repeat app].
  f_equal. f_equal. unfold ec, l. pose proof (degree_is_table9 v e Hv) as Dg. fold gen in Dg. lia.
Qed.

Lemma Forall_slice (P : N -> Prop) (dt : list N) s k : Forall P dt -> Forall P (slice dt s k).
Proof.
  intros H. unfold slice. apply Forall_forall. intros x Hx.
  rewrite Forall_forall in H. apply H.
  assert (Hsk : In x (skipn s dt)).
  { rewrite <- (firstn_skipn k (skipn s dt)). apply in_or_app. now left. }
  rewrite <- (firstn_skipn s dt). apply in_or_app. now right.
Qed.

Lemma block_slice_bytes b : Forall (fun x => (x < 256)%N) (block_slice b).
Proof. unfold block_slice. destruct (nth b R (0, 0)) as [start size]. now apply Forall_slice. Qed.

Lemma dpart_length : length (map (fun idx => nth idx data 0%N) (gather_plan e v)) = D.
Proof.
  rewrite map_length. pose proof plan_facts as P. destruct (iso_layout v l) as [[[d1 g1] d2] g2]. now destruct P as (P1 & _).
Qed.

Theorem block_data_spec b :
  (let '(d1, g1, d2, g2) := iso_layout v l in b < g1 + g2) -> iso_block_data v l S b = block_slice b.
Proof.
  intros Hb. unfold iso_block_data, block_slice.
  pose proof plan_facts as P. destruct (iso_layout v l) as [[[d1 g1] d2] g2]. cbn zeta in P.
  destruct P as (P1 & P2 & P3 & _ & P4). specialize (P4 b Hb).
  destruct (nth b R (0, 0)) as [start size]. destruct P4 as (Hs & Hr & Hi).
  rewrite <- Hs. rewrite slice_as_map by (unfold D, l in Hr; lia).
  apply map_ext_in. intros i Hin. apply in_seq in Hin. destruct (Hi i ltac:(lia)) as [A B].
  fold (iso_pos d1 (g1 + g2) g1 i b). rewrite structure_shape.
  rewrite app_nth1 by (rewrite dpart_length; exact A).
  rewrite (nth_indep _ 0%N ((fun idx => nth idx data 0%N) 0)) by (rewrite map_length, P1; exact A).
  rewrite (map_nth (fun idx => nth idx data 0%N) (gather_plan e v) 0). now rewrite B.
Qed.

Theorem block_ec_spec b :
  (let '(d1, g1, d2, g2) := iso_layout v l in b < g1 + g2) -> iso_block_ec v l S b = block_ec b.
Proof.
  intros Hb. unfold iso_block_ec, block_ec, block_slice.
  pose proof plan_facts as P. destruct (iso_layout v l) as [[[d1 g1] d2] g2]. cbn zeta in P.
  destruct P as (P1 & P2 & P3 & _ & P4). specialize (P4 b Hb).
  set (ecs := map (fun r : nat * nat => division_ec (slice data (fst r) (snd r)) gen) R).
  assert (Hecs : length ecs = g1 + g2) by (unfold ecs; now rewrite map_length).
  assert (Hnb : nth b ecs [] = division_ec (slice data (fst (nth b R (0, 0))) (snd (nth b R (0, 0)))) gen).
  { unfold ecs. rewrite (nth_indep _ [] ((fun r : nat * nat => division_ec (slice data (fst r) (snd r)) gen) (0, 0))) by (rewrite map_length; lia).
    now rewrite (map_nth (fun r : nat * nat => division_ec (slice data (fst r) (snd r)) gen) R (0, 0)). }
  destruct (nth b R (0, 0)) as [start size] eqn:ER. cbn [fst snd] in Hnb.
  assert (Hl : length (division_ec (slice data start size) gen) = ec).
  { unfold gen, ec, l. apply division_ec_length; [exact Hv | now apply Forall_slice]. }
  rewrite <- (map_nth_self (division_ec (slice data start size) gen) ec) by (now rewrite Hl).
  apply map_ext_in. intros j Hin. apply in_seq in Hin.
  rewrite structure_shape. fold ecs. fold D.
  rewrite app_nth2 by (rewrite dpart_length; lia). rewrite dpart_length.
  match goal with |- nth ?idx _ _ = _ => replace idx with (j * length ecs + b) by (rewrite Hecs; unfold D, l; lia) end.
  rewrite ec_interleave_nth by lia. now rewrite Hnb.
Qed.

(* the data codewords come back in order *)
Lemma firstn_add {A} (xs : list A) a b : firstn (a + b) xs = firstn a xs ++ firstn b (skipn a xs).
Proof.
  revert xs; induction a as [|a IH]; intros xs; [reflexivity|].
  destruct xs as [|x xs]; [now rewrite !firstn_nil|]. cbn [Nat.add firstn skipn app]. now rewrite IH.
Qed.
Lemma slice_split (dt : list N) s a b : slice dt s (a + b) = slice dt s a ++ slice dt (s + a) b.
Proof. unfold slice. now rewrite firstn_add, skipn_add. Qed.

Lemma consecutive_concat (dt : list N) : forall Rl s t, ranges_consecutive Rl s = Some t ->
  flat_map (fun r : nat * nat => slice dt (fst r) (snd r)) Rl = slice dt s (t - s) /\ s <= t.
Proof.
  induction Rl as [|[st sz] Rl IH]; intros s t H; cbn [ranges_consecutive] in H.
  - inversion H; subst. rewrite Nat.sub_diag. split; [reflexivity | lia].
  - destruct (Nat.eqb_spec st s) as [->|]; [|discriminate].
    destruct (IH _ _ H) as [E Hle]. cbn [flat_map fst snd]. rewrite E.
    split; [|lia]. replace (t - s) with (sz + (t - (s + sz))) by lia. now rewrite slice_split.
Qed.

Theorem deinterleave_data_spec : iso_deinterleave_data v l S = firstn D data.
Proof.
  unfold iso_deinterleave_data, iso_blocks_of.
  pose proof plan_facts as P. pose proof block_data_spec as BD.
  destruct (iso_layout v l) as [[[d1 g1] d2] g2] eqn:EL. cbn zeta in P, BD.
  destruct P as (P1 & P2 & P3 & P5 & P4).
  rewrite flat_map_fst_map.
  rewrite (flat_map_ext_in _ (fun b => (fun r : nat * nat => slice data (fst r) (snd r)) (nth b R (0, 0)))).
  2:{ intros b Hb. apply in_seq in Hb. rewrite BD by lia. unfold block_slice. now destruct (nth b R (0, 0)). }
  rewrite <- P2.
  rewrite (flat_map_nth_seq (fun r : nat * nat => slice data (fst r) (snd r)) R (0, 0)).
  destruct (consecutive_concat data R 0 D P5) as [E _]. rewrite E, Nat.sub_0_r. reflexivity.
Qed.

(* every block of the structured stream: Table 9 sizes, its data slice, and all-zero syndromes *)
Theorem blocks_are_rs_codewords b :
  (let '(d1, g1, d2, g2) := iso_layout v l in b < g1 + g2) ->
  forallb (N.eqb 0) (syndromes (iso_block_data v l S b ++ iso_block_ec v l S b) ec) = true.
Proof.
  intros Hb. rewrite (block_data_spec b Hb), (block_ec_spec b Hb). unfold block_ec, gen, ec, l.
  apply model_block_syndromes_b; [exact Hv | apply block_slice_bytes].
Qed.

Theorem structure_length : length S = D + ec * (let '(d1, g1, d2, g2) := iso_layout v l in g1 + g2).
Proof.
  rewrite structure_shape, app_length, dpart_length, ec_interleave_length, map_length.
  pose proof plan_facts as P. destruct (iso_layout v l) as [[[d1 g1] d2] g2]. destruct P as (_ & P2 & _). now rewrite P2.
Qed.

End Structure.
