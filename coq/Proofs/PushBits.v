(* compact.rs: the byte-level bit buffer implements bit-list append.  (Depends on Proofs/BitsBase.v.)

   Abstraction: [bits_of c] = the first [clen c] bits of the bytes; [Inv c] = all bytes < 256, clen <= 8 * |data|,
   every bit after clen is 0.  Route: big-endian integer abstraction  R c V := val (cdata c) = V * 2^(8|data| - clen),
   one primitive step [add_small]/[prim] (add n bits below the written bits of the current byte), and
   [Ext c c' bs] := Inv c' /\ bits_of c' = bits_of c ++ bs /\ clen c' = clen c + |bs| /\ |cdata c'| = |cdata c|.

   Main theorems (all Qed, closed under the global context; nothing is left unproved):
     keep_last_is_ones     k <= 64 -> keep_last k = N.ones k                      (65-case kernel check)
     push_u8_spec          Inv c -> b < 256 -> clen c + 8 < 8 * |data| -> Inv /\ bits ++ be_bits 8 b /\ length kept
     push_bits_spec        Inv c -> w <= 64 -> clen c + w < 8 * |data| ->
                           Inv /\ bits ++ be_bits w x /\ length kept /\ push_bits_panics = false      (holds for w = 0)
     push_u8_slice_spec, fill_spec (fill appends fill_count c pad bytes 236,17,...; fill_panics = false), from_version_Inv
     push_u8_spec_gen, push_bits_spec_gen, push_u8_slice_spec_gen, fill_spec_gen   (no fits precondition)
     push_bits_carry_false (the u8 `+=` carry condition evaluated on the REAL intermediate buffer is false as well)

   CHANGES with respect to the task statement:
   * the "fits" precondition is STRICT (clen + w < 8 * |data|).  With clen + w = 8 * |data| the Rust code
     (increase_len: `if data_length / 8 >= self.data.len() { resize(data_length / 8 + 1) }`) grows the vector by one
     zero byte, so "length preserved" is false for an exact fit (Example push_u8_exact_fit_grows).  Inv and bits_of
     still hold in that case (the _gen theorems).
   * the hypothesis x < 2^64 of push_bits_spec is not needed (the bits are masked with KEEP_LAST[w] = 2^w - 1) and
     has been dropped (stronger statement). *)
From Coq Require Import NArith List Bool Arith Lia ZArith.
From Coq Require Import ZifyBool ZifyNat ZifyN.
From FQ Require Import Lib.ListX Generated.Tables Model.Types Model.Hardcode Model.Compact Spec.Iso Proofs.BitsBase.
Import ListNotations.
Local Open Scope N_scope.
Ltac Zify.zify_post_hook ::= Z.div_mod_to_equations.
Arguments N.add : simpl never.
Arguments N.sub : simpl never.
Arguments N.mul : simpl never.
Arguments N.div : simpl never.
Arguments N.modulo : simpl never.
Arguments N.pow : simpl never.
Arguments N.shiftl : simpl never.
Arguments N.shiftr : simpl never.
Arguments N.land : simpl never.
Arguments N.lor : simpl never.
Arguments N.testbit : simpl never.
Arguments N.of_nat : simpl never.
Arguments N.to_nat : simpl never.
Arguments N.eqb : simpl never.
Arguments N.ltb : simpl never.
Arguments N.leb : simpl never.

Definition bits_of (c : cq) : list bool := firstn (N.to_nat (clen c)) (bytes_bits (cdata c)).
Definition Inv (c : cq) : Prop :=
  Forall (fun b => (b < 256)%N) (cdata c) /\ (clen c <= 8 * N.of_nat (length (cdata c)))%N /\
  Forall (fun b => b = false) (skipn (N.to_nat (clen c)) (bytes_bits (cdata c))).

(* ------------------------------------------------------------------ KEEP_LAST *)
Lemma keep_last_check :
  forallb (fun k => keep_last (N.of_nat k) =? N.ones (N.of_nat k)) (seq 0 65) = true.
Proof. vm_compute. reflexivity. Qed.

Theorem keep_last_is_ones : forall k, (k <= 64)%N -> keep_last k = N.ones k.
Proof.
  intros k Hk. pose proof keep_last_check as H. rewrite forallb_forall in H.
  specialize (H (N.to_nat k)). rewrite N2Nat.id in H. apply N.eqb_eq, H, in_seq. lia.
Qed.

Lemma keep_last_tbl_length : N.of_nat (length keep_last_tbl) = 65.
Proof. vm_compute. reflexivity. Qed.

Lemma land_keep_last x k : k <= 64 -> N.land x (keep_last k) = x mod 2 ^ k.
Proof. intros H. rewrite keep_last_is_ones by exact H. apply N.land_ones. Qed.

Lemma to_u8_small x : x < 256 -> to_u8 x = x.
Proof. intros H. unfold to_u8. now apply N.mod_small. Qed.

Lemma to_u8_keep_last k : k <= 8 -> to_u8 (keep_last k) = N.ones k.
Proof.
  intros H. rewrite keep_last_is_ones by lia. apply to_u8_small.
  rewrite N.ones_equiv. pose proof (pow2_le k 8 H) as Hp. change (2 ^ 8) with 256 in Hp.
  pose proof (pow2_pos k). lia.
Qed.

Lemma shift_bound z n m : z < 2 ^ n -> n <= m -> z * 2 ^ (m - n) < 2 ^ m.
Proof.
  intros Hz Hn. rewrite (pow2_split m n) by exact Hn. apply N.mul_lt_mono_pos_r; [apply pow2_pos | exact Hz].
Qed.

Lemma pow2_le_256 n : n <= 8 -> 2 ^ n <= 256.
Proof. intros H. change 256 with (2 ^ 8). now apply pow2_le. Qed.

(* ------------------------------------------------------------------ numeric abstraction *)
Definition R (c : cq) (V : N) : Prop :=
  bytes (cdata c) /\ clen c <= 8 * dlen c /\ val (cdata c) = V * 2 ^ (8 * dlen c - clen c).

Lemma R_full c V : R c V ->
  bytes_bits (cdata c) = be_bits (N.to_nat (clen c)) V ++ repeat false (N.to_nat (8 * dlen c - clen c)).
Proof.
  intros (Hb & Hle & Hv). rewrite bytes_bits_val by exact Hb. rewrite Hv.
  set (m := N.to_nat (8 * dlen c - clen c)).
  assert (Hm : 8 * dlen c - clen c = N.of_nat m) by (subst m; lia). rewrite Hm.
  replace (8 * length (cdata c))%nat with (N.to_nat (clen c) + m)%nat by (unfold dlen in *; lia).
  rewrite <- (N.add_0_r (V * 2 ^ N.of_nat m)). rewrite be_bits_num by apply pow2_pos.
  now rewrite be_bits_0.
Qed.

Lemma R_bits_of c V : R c V -> bits_of c = be_bits (N.to_nat (clen c)) V.
Proof.
  intros HR. unfold bits_of. rewrite (R_full c V HR). apply firstn_app_exact, be_bits_length.
Qed.

Lemma R_Inv c V : R c V -> Inv c.
Proof.
  intros HR. pose proof HR as (Hb & Hle & Hv). split; [exact Hb | split; [exact Hle|]].
  rewrite (R_full c V HR). rewrite skipn_app_exact by apply be_bits_length.
  now apply Forall_repeat.
Qed.

Lemma Inv_R c : Inv c -> exists V, R c V.
Proof.
  intros (Hb & Hle & Hz). exists (val (cdata c) / 2 ^ (8 * dlen c - clen c)).
  split; [exact Hb | split; [exact Hle|]].
  rewrite bytes_bits_val in Hz by exact Hb.
  rewrite be_bits_skipn in Hz by lia. apply be_bits_false_mod in Hz.
  replace (N.of_nat (8 * length (cdata c) - N.to_nat (clen c))) with (8 * dlen c - clen c) in Hz
    by (unfold dlen; lia).
  rewrite N.mul_comm. apply N.div_exact; [apply pow2_nz | exact Hz].
Qed.

(* byte j, when it is not entirely inside the written part *)
Lemma nth_R c V j : R c V -> j < dlen c -> clen c <= 8 * j + 8 ->
  getN (cdata c) j = (V * 2 ^ (8 * j + 8 - clen c)) mod 256.
Proof.
  intros (Hb & Hle & Hval) Hj Hlen. unfold getN, dlen in *.
  rewrite nth_val by (auto; lia). rewrite Hval, pow256.
  set (k := N.of_nat (length (cdata c))) in *.
  replace (N.of_nat (length (cdata c) - 1 - N.to_nat j)) with (k - 1 - j) by (subst k; lia).
  replace (8 * k - clen c) with ((8 * j + 8 - clen c) + 8 * (k - 1 - j)) by lia.
  rewrite N.pow_add_r, N.mul_assoc, N.div_mul by apply pow2_nz. reflexivity.
Qed.

(* the byte containing the write position: the already written high bits, then zeros *)
Lemma byte_shape c V : R c V -> clen c / 8 < dlen c ->
  getN (cdata c) (clen c / 8) = (V mod 2 ^ (clen c mod 8)) * 2 ^ (8 - clen c mod 8).
Proof.
  intros HR Hf. rewrite (nth_R c V) by (auto; lia).
  replace (8 * (clen c / 8) + 8 - clen c) with (8 - clen c mod 8) by lia.
  set (r := clen c mod 8). assert (Hr : r < 8) by (subst r; lia).
  replace 256 with (2 ^ r * 2 ^ (8 - r)).
  2:{ rewrite <- N.pow_add_r. replace (r + (8 - r)) with 8 by lia. reflexivity. }
  apply N.mul_mod_distr_r; apply pow2_nz.
Qed.

(* the one primitive step: add z (n bits) just below the written bits of the current byte *)
Lemma add_small c V n z : R c V -> clen c / 8 < dlen c -> n <= 8 - clen c mod 8 -> z < 2 ^ n ->
  R {| clen := clen c + n;
       cdata := upd (cdata c) (N.to_nat (clen c / 8))
                    (getN (cdata c) (clen c / 8) + z * 2 ^ (8 - clen c mod 8 - n)) |}
    (V * 2 ^ n + z).
Proof.
  intros HR Hf Hn Hz. pose proof (byte_shape c V HR Hf) as Hb. pose proof HR as (Hby & Hle & Hv).
  set (first := clen c / 8) in *. set (r := clen c mod 8) in *.
  assert (Hr : r < 8) by (subst r; lia).
  assert (HL : clen c = 8 * first + r) by (subst first r; lia).
  set (s := 8 - r - n) in *.
  unfold R, dlen in *. cbn [clen cdata]. rewrite upd_length.
  set (k := N.of_nat (length (cdata c))) in *.
  split; [|split].
  - apply upd_bytes; [exact Hby|]. rewrite Hb.
    rewrite (pow2_split (8 - r) n) by lia. replace (8 - r - n) with s by lia.
    pose proof (N.mod_upper_bound V (2 ^ r) (pow2_nz r)) as Hu.
    set (u := V mod 2 ^ r) in *.
    replace 256 with (2 ^ r * (2 ^ n * 2 ^ s)).
    2:{ rewrite <- !N.pow_add_r. replace (r + (n + s)) with 8 by lia. reflexivity. }
    pose proof (pow2_pos s) as Hs. pose proof (pow2_pos n) as Hn'.
    set (A := 2 ^ r) in *. set (B := 2 ^ n) in *. set (C := 2 ^ s) in *.
    assert (H1 : u * B + z < A * B) by nia.
    replace (u * (B * C) + z * C) with ((u * B + z) * C) by ring.
    replace (A * (B * C)) with ((A * B) * C) by ring.
    apply N.mul_lt_mono_pos_r; [exact Hs | exact H1].
  - lia.
  - unfold getN. rewrite val_upd_add by lia.
    rewrite Hv, pow256.
    set (e := 8 * (k - 1 - first)).
    replace (8 * N.of_nat (length (cdata c) - 1 - N.to_nat first)) with e by (clear - Hf; subst e k; lia).
    replace (8 * k - clen c) with (n + (s + e)) by (clear - HL Hf Hn Hr; subst e s; lia).
    replace (8 * k - (clen c + n)) with (s + e) by (clear - HL Hf Hn Hr; subst e s; lia).
    rewrite !N.pow_add_r. ring.
Qed.

(* ------------------------------------------------------------------ bit-level steps *)
Definition Ext (c c' : cq) (bs : list bool) : Prop :=
  Inv c' /\ bits_of c' = bits_of c ++ bs /\ clen c' = clen c + N.of_nat (length bs)
  /\ length (cdata c') = length (cdata c).

Lemma Ext_refl c : Inv c -> Ext c c [].
Proof. intros H. split; [exact H|]. rewrite app_nil_r. cbn [length]. repeat split; lia. Qed.

Lemma Ext_trans c c1 c2 a b : Ext c c1 a -> Ext c1 c2 b -> Ext c c2 (a ++ b).
Proof.
  intros (I1 & B1 & L1 & D1) (I2 & B2 & L2 & D2). split; [exact I2|].
  rewrite B2, B1, app_assoc, L2, L1, D2, D1, app_length. repeat split; lia.
Qed.

Lemma Ext_eq c c' a b : Ext c c' a -> a = b -> Ext c c' b.
Proof. now intros H <-. Qed.

Lemma Ext_dlen c c' a : Ext c c' a -> dlen c' = dlen c.
Proof. intros (_ & _ & _ & D). unfold dlen. now rewrite D. Qed.

Lemma prim c n z : Inv c -> clen c / 8 < dlen c -> n <= 8 - clen c mod 8 -> z < 2 ^ n ->
  Ext c {| clen := clen c + n;
           cdata := upd (cdata c) (N.to_nat (clen c / 8))
                        (getN (cdata c) (clen c / 8) + z * 2 ^ (8 - clen c mod 8 - n)) |}
      (be_bits (N.to_nat n) z).
Proof.
  intros HI Hf Hn Hz. destruct (Inv_R c HI) as [V HR].
  pose proof (add_small c V n z HR Hf Hn Hz) as HR'.
  split; [exact (R_Inv _ _ HR')|]. split; [|split].
  - rewrite (R_bits_of _ _ HR'), (R_bits_of _ _ HR). cbn [clen].
    replace (N.to_nat (clen c + n)) with (N.to_nat (clen c) + N.to_nat n)%nat by lia.
    replace (2 ^ n) with (2 ^ N.of_nat (N.to_nat n)) by (f_equal; lia).
    apply be_bits_num. rewrite N2Nat.id; exact Hz.
  - cbn [clen]. rewrite be_bits_length. lia.
  - cbn [cdata]. apply upd_length.
Qed.

Lemma Inv_byte_mod c : Inv c -> clen c / 8 < dlen c ->
  getN (cdata c) (clen c / 8) mod 2 ^ (8 - clen c mod 8) = 0.
Proof.
  intros HI Hf. destruct (Inv_R c HI) as [V HR]. rewrite (byte_shape c V HR Hf).
  apply N.mod_mul, pow2_nz.
Qed.

Lemma Inv_byte_zero c : Inv c -> clen c / 8 < dlen c -> clen c mod 8 = 0 -> getN (cdata c) (clen c / 8) = 0.
Proof.
  intros HI Hf Hr. destruct (Inv_R c HI) as [V HR]. rewrite (byte_shape c V HR Hf), Hr.
  change (2 ^ 0) with 1. rewrite N.mod_1_r. lia.
Qed.

(* |= *)
Lemma prim_or c n z L' i y : Inv c -> i = clen c / 8 -> i < dlen c -> n <= 8 - clen c mod 8 -> z < 2 ^ n ->
  y = z * 2 ^ (8 - clen c mod 8 - n) -> L' = clen c + n ->
  Ext c {| clen := L'; cdata := or_at (cdata c) i y |} (be_bits (N.to_nat n) z).
Proof.
  intros HI -> Hf Hn Hz -> ->. unfold or_at.
  rewrite (lor_add_disjoint _ _ (8 - clen c mod 8)).
  - now apply prim.
  - now apply Inv_byte_mod.
  - apply shift_bound; [exact Hz | exact Hn].
Qed.

(* = on an aligned position *)
Lemma prim_set c b L' i : Inv c -> i = clen c / 8 -> i < dlen c -> clen c mod 8 = 0 -> b < 256 ->
  L' = clen c + 8 ->
  Ext c {| clen := L'; cdata := set_at (cdata c) i b |} (be_bits 8 b).
Proof.
  intros HI -> Hf Hr Hb ->. unfold set_at.
  pose proof (prim c 8 b HI Hf) as H. rewrite Hr in H.
  rewrite (Inv_byte_zero c HI Hf Hr) in H.
  replace (0 + b * 2 ^ (8 - 0 - 8)) with b in H by (change (2 ^ (8 - 0 - 8)) with 1; lia).
  apply H; [lia | exact Hb].
Qed.

(* u8 += on an aligned position *)
Lemma prim_add c n z L' i y : Inv c -> i = clen c / 8 -> i < dlen c -> clen c mod 8 = 0 -> n <= 8 -> z < 2 ^ n ->
  y = z * 2 ^ (8 - n) -> L' = clen c + n ->
  Ext c {| clen := L'; cdata := add_at (cdata c) i y |} (be_bits (N.to_nat n) z).
Proof.
  intros HI -> Hf Hr Hn Hz -> ->. unfold add_at.
  pose proof (prim c n z HI Hf) as H. rewrite Hr in H.
  rewrite (Inv_byte_zero c HI Hf Hr) in *.
  replace (8 - 0 - n) with (8 - n) in H by lia.
  rewrite to_u8_small.
  - apply H; [lia | exact Hz].
  - change 256 with (2 ^ 8). apply shift_bound; [exact Hz | exact Hn].
Qed.

(* moving clen forward over bits that are zero anyway *)
Lemma Inv_advance c L' : Inv c -> clen c <= L' -> L' <= 8 * dlen c -> Inv {| clen := L'; cdata := cdata c |}.
Proof.
  intros (Hb & Hle & Hz) H1 H2. split; [exact Hb | split; [exact H2|]]. cbn [clen cdata].
  replace (N.to_nat L') with (N.to_nat (clen c) + (N.to_nat L' - N.to_nat (clen c)))%nat by lia.
  rewrite <- skipn_skipn. now apply Forall_skipn.
Qed.

(* ------------------------------------------------------------------ increase_len *)
Lemma len_le_spec l k : len_le l k = (length l <=? k)%nat.
Proof.
  revert k; induction l as [|x t IH]; intros [|k]; cbn [len_le length]; try reflexivity. apply IH.
Qed.

Lemma increase_len_fits c n : n / 8 < dlen c -> increase_len c n = c.
Proof.
  intros H. unfold increase_len. rewrite len_le_spec.
  destruct (Nat.leb_spec (length (cdata c)) (N.to_nat (n / 8))) as [Hle|Hgt]; [unfold dlen in H; lia | reflexivity].
Qed.

Lemma bytes_bits_repeat0 m : bytes_bits (repeat 0 m) = repeat false (8 * m).
Proof.
  induction m as [|m IH]; [reflexivity|].
  cbn [repeat]. rewrite bytes_bits_cons, IH, be_bits_0, <- repeat_app. f_equal. lia.
Qed.

Lemma increase_len_spec c n : Inv c ->
  Inv (increase_len c n) /\ bits_of (increase_len c n) = bits_of c /\ clen (increase_len c n) = clen c
  /\ n / 8 < dlen (increase_len c n).
Proof.
  intros HI. unfold increase_len. rewrite len_le_spec.
  destruct (Nat.leb_spec (length (cdata c)) (N.to_nat (n / 8))) as [Hle|Hgt].
  - destruct HI as (Hb & Hl & Hz).
    set (m := N.to_nat (n / 8 + 1 - dlen c)).
    assert (Hbb : bytes_bits (cdata c ++ repeat 0 m) = bytes_bits (cdata c) ++ repeat false (8 * m)).
    { now rewrite bytes_bits_app, bytes_bits_repeat0. }
    assert (Hlen : (N.to_nat (clen c) <= length (bytes_bits (cdata c)))%nat) by (rewrite bytes_bits_length; lia).
    unfold Inv, bits_of, dlen. cbn [clen cdata]. rewrite Hbb, app_length, repeat_length.
    repeat split.
    + apply bytes_app; [exact Hb | apply bytes_repeat0].
    + lia.
    + rewrite skipn_app. apply Forall_app. split; [exact Hz|]. apply Forall_skipn, Forall_repeat. reflexivity.
    + rewrite firstn_app. replace (N.to_nat (clen c) - length (bytes_bits (cdata c)))%nat with 0%nat by lia.
      cbn [firstn]. apply app_nil_r.
    + subst m. unfold dlen. lia.
  - split; [exact HI | split; [reflexivity | split; [reflexivity | unfold dlen; lia]]].
Qed.

(* ------------------------------------------------------------------ push_u8 *)
Definition push_u8_body (c : cq) (bits : N) : cq :=
  let right := clen c mod 8 in
  let first := clen c / 8 in
  let d :=
    if right =? 0 then set_at (cdata c) first bits
    else
      let left := 8 - right in
      or_at (or_at (cdata c) first (N.land (N.shiftr bits right) (to_u8 (keep_last left))))
            (first + 1) (to_u8 (N.shiftl (N.land bits (to_u8 (keep_last right))) left)) in
  {| clen := clen c + 8; cdata := d |}.

Lemma push_u8_unfold c0 b : push_u8 c0 b = push_u8_body (increase_len c0 (clen c0 + 8)) b.
Proof. reflexivity. Qed.

Lemma push_u8_body_spec c b : Inv c -> b < 256 -> clen c + 8 <= 8 * dlen c ->
  Ext c (push_u8_body c b) (be_bits 8 b).
Proof.
  intros HI Hb Hfit. unfold push_u8_body.
  destruct (N.eqb_spec (clen c mod 8) 0) as [Hr|Hr].
  - apply prim_set; auto; lia.
  - set (r := clen c mod 8) in *. set (first := clen c / 8) in *.
    assert (Hr8 : r < 8) by (subst r; lia).
    assert (HL : clen c = 8 * first + r) by (subst first r; lia).
    set (left := 8 - r).
    rewrite !to_u8_keep_last by (subst left; lia). rewrite !N.land_ones.
    (* first |= *)
    assert (Hz1 : N.shiftr b r < 2 ^ left).
    { rewrite N.shiftr_div_pow2. apply N.div_lt_upper_bound; [apply pow2_nz|].
      rewrite <- N.pow_add_r. replace (r + left) with 8 by (subst left; lia). exact Hb. }
    rewrite (N.mod_small _ _ Hz1).
    set (c1 := {| clen := clen c + left; cdata := or_at (cdata c) first (N.shiftr b r) |}).
    assert (E1 : Ext c c1 (be_bits (N.to_nat left) (N.shiftr b r))).
    { apply prim_or; auto; try (fold r; subst left; lia).
      fold r. replace (8 - r - left) with 0 by (subst left; lia). change (2 ^ 0) with 1. lia. }
    pose proof E1 as (I1 & _ & _ & D1).
    assert (Hc1 : clen c1 = 8 * (first + 1)) by (subst c1 left; cbn [clen]; lia).
    assert (Hm1 : clen c1 mod 8 = 0) by (rewrite Hc1; lia).
    assert (Hd1 : clen c1 / 8 = first + 1) by (rewrite Hc1; lia).
    (* second |= *)
    assert (Hz2 : b mod 2 ^ r < 2 ^ r) by (apply N.mod_upper_bound, pow2_nz).
    assert (Hy2 : b mod 2 ^ r * 2 ^ left < 256).
    { change 256 with (2 ^ 8). subst left. apply shift_bound; [exact Hz2 | clear - Hr8; lia]. }
    rewrite N.shiftl_mul_pow2, (to_u8_small _ Hy2).
    assert (E2 : Ext c1 {| clen := clen c + 8; cdata := or_at (cdata c1) (first + 1) (b mod 2 ^ r * 2 ^ left) |}
                     (be_bits (N.to_nat r) (b mod 2 ^ r))).
    { apply prim_or; auto.
      - unfold dlen in *. rewrite D1. lia.
      - rewrite Hm1. lia.
      - rewrite Hm1. replace (8 - 0 - r) with left by (subst left; lia). reflexivity.
      - subst c1 left. cbn [clen]. lia. }
    pose proof (Ext_trans _ _ _ _ _ E1 E2) as E. subst c1. cbn [cdata] in E.
    apply (Ext_eq _ _ _ _ E).
    rewrite be_bits_mod by lia.
    replace 8%nat with (N.to_nat left + N.to_nat r)%nat by (subst left; lia).
    rewrite be_bits_app. now rewrite N2Nat.id.
Qed.

Lemma push_u8_Ext c b : Inv c -> b < 256 -> clen c + 8 < 8 * dlen c -> Ext c (push_u8 c b) (be_bits 8 b).
Proof.
  intros HI Hb Hfit. rewrite push_u8_unfold, increase_len_fits by lia.
  apply push_u8_body_spec; auto; lia.
Qed.

Lemma push_u8_gen c b : Inv c -> b < 256 ->
  Inv (push_u8 c b) /\ bits_of (push_u8 c b) = bits_of c ++ be_bits 8 b /\ clen (push_u8 c b) = clen c + 8.
Proof.
  intros HI Hb. rewrite push_u8_unfold.
  destruct (increase_len_spec c (clen c + 8) HI) as (I' & B' & L' & F').
  set (c' := increase_len c (clen c + 8)) in *.
  destruct (push_u8_body_spec c' b I' Hb) as (I2 & B2 & L2 & _); [lia|].
  rewrite B2, L2, B', L'. now rewrite be_bits_length.
Qed.

(* ------------------------------------------------------------------ push_bits *)
Lemma push_bytes_loop_S f c bits i :
  push_bytes_loop (S f) c bits i =
  if 8 <=? i then push_bytes_loop f (push_u8 c (to_u8 (N.shiftr bits (i - 8)))) bits (i - 8) else c.
Proof. reflexivity. Qed.

Lemma push_bytes_loop_spec fuel : forall c y i,
  Inv c -> clen c + i < 8 * dlen c -> (N.to_nat (i / 8) < fuel)%nat ->
  Ext c (push_bytes_loop fuel c y i) (be_bits (8 * N.to_nat (i / 8)) (N.shiftr y (i mod 8))).
Proof.
  induction fuel as [|f IH]; intros c y i HI Hfit Hfuel; [lia|].
  rewrite push_bytes_loop_S.
  destruct (N.leb_spec 8 i) as [Hi|Hi].
  - assert (E1 : Ext c (push_u8 c (to_u8 (N.shiftr y (i - 8)))) (be_bits 8 (to_u8 (N.shiftr y (i - 8))))).
    { apply push_u8_Ext; auto; [unfold to_u8; lia | lia]. }
    pose proof E1 as (I1 & _ & L1 & D1). rewrite be_bits_length in L1.
    assert (E2 := IH (push_u8 c (to_u8 (N.shiftr y (i - 8)))) y (i - 8) I1).
    unfold dlen in *. rewrite D1, L1 in E2.
    specialize (E2 ltac:(lia) ltac:(lia)).
    apply (Ext_eq _ _ _ _ (Ext_trans _ _ _ _ _ E1 E2)).
    replace ((i - 8) mod 8) with (i mod 8) by lia.
    replace (8 * N.to_nat (i / 8))%nat with (8 + 8 * N.to_nat ((i - 8) / 8))%nat by lia.
    rewrite (be_bits_app 8). f_equal.
    unfold to_u8. change 256 with (2 ^ 8). rewrite be_bits_mod by lia.
    rewrite N.shiftr_shiftr. f_equal. f_equal. lia.
  - replace (N.to_nat (i / 8)) with 0%nat by lia. cbn [Nat.mul be_bits]. now apply Ext_refl.
Qed.

Definition push_bits_body (c : cq) (bits0 len : N) : cq :=
  let bits := N.land bits0 (keep_last len) in
  let rem_space := (8 - clen c mod 8) mod 8 in
  let first := clen c / 8 in
  if len <? rem_space then
    {| clen := clen c + len; cdata := or_at (cdata c) first (to_u8 (N.shiftl bits (rem_space - len))) |}
  else
    let c1 := if rem_space =? 0 then c
              else {| clen := clen c + rem_space;
                      cdata := or_at (cdata c) first (to_u8 (N.land (N.shiftr bits (len - rem_space)) (keep_last rem_space))) |} in
    let l := len - rem_space in
    let c2 := push_bytes_loop (S (N.to_nat (l / 8))) c1 bits l in
    let remaining := l mod 8 in
    if remaining =? 0 then c2
    else {| clen := clen c2 + remaining;
            cdata := add_at (cdata c2) (clen c2 / 8) (to_u8 (N.shiftl (to_u8 (N.land bits (keep_last remaining))) (8 - remaining))) |}.

Lemma push_bits_unfold c0 x w : push_bits c0 x w = push_bits_body (increase_len c0 (clen c0 + w)) x w.
Proof. reflexivity. Qed.

Lemma push_bits_body_spec c x w : Inv c -> w <= 64 -> clen c + w < 8 * dlen c ->
  Ext c (push_bits_body c x w) (be_bits (N.to_nat w) x).
Proof.
  intros HI Hw Hfit. unfold push_bits_body.
  rewrite (land_keep_last x w Hw).
  assert (Hy : x mod 2 ^ w < 2 ^ w) by (apply N.mod_upper_bound, pow2_nz).
  rewrite <- (be_bits_mod (N.to_nat w) w x) by lia.
  set (y := x mod 2 ^ w) in *. clearbody y. clear x.
  set (r := clen c mod 8). set (first := clen c / 8).
  assert (Hr8 : r < 8) by (subst r; lia).
  assert (HL : clen c = 8 * first + r) by (subst first r; lia).
  set (rs := (8 - r) mod 8).
  assert (Hrs : rs = 0 /\ r = 0 \/ rs = 8 - r /\ 0 < r) by (subst rs; lia).
  assert (Hf : first < dlen c) by lia.
  destruct (N.ltb_spec w rs) as [Hlt|Hge].
  - (* everything fits in the current byte *)
    destruct Hrs as [[H0 _]|[Hrs Hr0]]; [lia|].
    assert (Hy2 : y * 2 ^ (rs - w) < 256).
    { eapply N.lt_le_trans; [apply shift_bound; [exact Hy | clear - Hlt; lia] | apply pow2_le_256; clear - Hrs Hr8; lia]. }
    rewrite N.shiftl_mul_pow2, (to_u8_small _ Hy2).
    apply prim_or; auto; fold r; try lia. f_equal. f_equal. lia.
  - (* fill the current byte, whole bytes, remainder *)
    set (l := w - rs).
    assert (Hz1 : N.shiftr y l < 2 ^ rs).
    { rewrite N.shiftr_div_pow2. apply N.div_lt_upper_bound; [apply pow2_nz|].
      rewrite <- N.pow_add_r. replace (l + rs) with w by (subst l; lia). exact Hy. }
    set (c1 := if rs =? 0 then c
               else {| clen := clen c + rs;
                       cdata := or_at (cdata c) first (to_u8 (N.land (N.shiftr y l) (keep_last rs))) |}).
    assert (E1 : Ext c c1 (be_bits (N.to_nat rs) (N.shiftr y l))).
    { subst c1. destruct (N.eqb_spec rs 0) as [H0|H0].
      - rewrite H0. cbn [be_bits]. now apply Ext_refl.
      - destruct Hrs as [[H0' _]|[Hrs Hr0]]; [lia|].
        rewrite land_keep_last by lia. rewrite (N.mod_small _ _ Hz1).
        rewrite to_u8_small by (eapply N.lt_le_trans; [exact Hz1 | apply pow2_le_256; clear - Hrs Hr8; lia]).
        apply prim_or; auto; fold r; try lia.
        replace (8 - r - rs) with 0 by lia. change (2 ^ 0) with 1. lia. }
    clearbody c1.
    pose proof E1 as (I1 & _ & L1 & D1). rewrite be_bits_length in L1.
    assert (Hk1 : dlen c1 = dlen c) by (unfold dlen; now rewrite D1).
    (* whole bytes *)
    set (c2 := push_bytes_loop (S (N.to_nat (l / 8))) c1 y l).
    assert (E2 : Ext c1 c2 (be_bits (8 * N.to_nat (l / 8)) (N.shiftr y (l mod 8)))).
    { subst c2. apply push_bytes_loop_spec; [exact I1 | rewrite Hk1, L1; subst l; lia | lia]. }
    clearbody c2.
    pose proof E2 as (I2 & _ & L2 & D2). rewrite be_bits_length in L2.
    assert (Hk2 : dlen c2 = dlen c) by (unfold dlen; now rewrite D2, D1).
    assert (HL2 : clen c2 = clen c + rs + 8 * (l / 8)) by lia.
    assert (Ha2 : clen c2 mod 8 = 0) by (rewrite HL2; lia).
    pose proof (Ext_trans _ _ _ _ _ E1 E2) as E12.
    destruct (N.eqb_spec (l mod 8) 0) as [Hrem|Hrem].
    + apply (Ext_eq _ _ _ _ E12). rewrite Hrem, N.shiftr_0_r.
      replace (N.to_nat w) with (N.to_nat rs + 8 * N.to_nat (l / 8))%nat by (subst l; lia).
      rewrite be_bits_app.
      replace (N.of_nat (8 * N.to_nat (l / 8))) with l by lia. reflexivity.
    + set (rem := l mod 8) in *.
      assert (Hrem8 : rem < 8) by (subst rem; lia).
      rewrite land_keep_last by lia.
      assert (Hz3 : y mod 2 ^ rem < 2 ^ rem) by (apply N.mod_upper_bound, pow2_nz).
      assert (Hz3' : y mod 2 ^ rem < 256).
      { eapply N.lt_le_trans; [exact Hz3 | apply pow2_le_256; clear - Hrem8; lia]. }
      rewrite (to_u8_small _ Hz3'). rewrite N.shiftl_mul_pow2.
      assert (Hy3 : y mod 2 ^ rem * 2 ^ (8 - rem) < 256).
      { change 256 with (2 ^ 8). apply shift_bound; [exact Hz3 | clear - Hrem8; lia]. }
      rewrite (to_u8_small _ Hy3).
      assert (E3 : Ext c2 {| clen := clen c2 + rem; cdata := add_at (cdata c2) (clen c2 / 8) (y mod 2 ^ rem * 2 ^ (8 - rem)) |}
                       (be_bits (N.to_nat rem) (y mod 2 ^ rem))).
      { apply prim_add; [exact I2 | reflexivity | | exact Ha2 | clear - Hrem8; lia | exact Hz3 | reflexivity | reflexivity].
        rewrite Hk2. clear - HL2 Hfit Hge Hrem. subst rem l. lia. }
      apply (Ext_eq _ _ _ _ (Ext_trans _ _ _ _ _ E12 E3)).
      rewrite be_bits_mod by (clear; lia).
      replace (N.to_nat w) with (N.to_nat rs + (8 * N.to_nat (l / 8) + N.to_nat rem))%nat
        by (clear - Hge; subst rem l; lia).
      rewrite (be_bits_app (N.to_nat rs)), (be_bits_app (8 * N.to_nat (l / 8))).
      rewrite <- app_assoc.
      replace (N.of_nat (8 * N.to_nat (l / 8) + N.to_nat rem)) with l by (clear; subst rem; lia).
      replace (N.of_nat (N.to_nat rem)) with rem by (clear; lia). reflexivity.
Qed.

Lemma push_bits_Ext c x w : Inv c -> w <= 64 -> clen c + w < 8 * dlen c ->
  Ext c (push_bits c x w) (be_bits (N.to_nat w) x).
Proof.
  intros HI Hw Hfit. rewrite push_bits_unfold, increase_len_fits by lia.
  now apply push_bits_body_spec.
Qed.

Lemma push_bits_gen c x w : Inv c -> w <= 64 ->
  Inv (push_bits c x w) /\ bits_of (push_bits c x w) = bits_of c ++ be_bits (N.to_nat w) x
  /\ clen (push_bits c x w) = clen c + w.
Proof.
  intros HI Hw. rewrite push_bits_unfold.
  destruct (increase_len_spec c (clen c + w) HI) as (I' & B' & L' & F').
  set (c' := increase_len c (clen c + w)) in *.
  destruct (push_bits_body_spec c' x w I' Hw) as (I2 & B2 & L2 & _); [lia|].
  rewrite B2, L2, B', L'. rewrite be_bits_length. split; [exact I2 | split; [reflexivity | lia]].
Qed.

(* the debug-build panic conditions do not fire *)
Definition push_bits_panics_body (c : cq) (bits0 len : N) : bool :=
  let bits := N.land bits0 (keep_last len) in
  let rem_space := (8 - clen c mod 8) mod 8 in
  if len <? rem_space then false else
    let c1 := if rem_space =? 0 then c
              else {| clen := clen c + rem_space; cdata := cdata c |} in
    let l := len - rem_space in
    let c2 := push_bytes_loop (S (N.to_nat (l / 8))) c1 bits l in
    let remaining := l mod 8 in
    if remaining =? 0 then false
    else 255 <? getN (cdata c2) (clen c2 / 8) + to_u8 (N.shiftl (to_u8 (N.land bits (keep_last remaining))) (8 - remaining)).

Lemma push_bits_panics_unfold c0 x w :
  push_bits_panics c0 x w =
  if N.of_nat (length keep_last_tbl) <=? w then true
  else push_bits_panics_body (increase_len c0 (clen c0 + w)) x w.
Proof. reflexivity. Qed.

Lemma push_bits_panics_body_false c x w : Inv c -> clen c + w < 8 * dlen c ->
  push_bits_panics_body c x w = false.
Proof.
  intros HI Hfit. unfold push_bits_panics_body.
  set (y := N.land x (keep_last w)). clearbody y.
  set (r := clen c mod 8). assert (Hr8 : r < 8) by (subst r; lia).
  set (rs := (8 - r) mod 8).
  assert (Hrs : rs = 0 /\ r = 0 \/ rs = 8 - r /\ 0 < r) by (subst rs; lia).
  destruct (N.ltb_spec w rs) as [Hlt|Hge]; [reflexivity|].
  set (l := w - rs).
  set (c1 := if rs =? 0 then c else {| clen := clen c + rs; cdata := cdata c |}).
  assert (I1 : Inv c1 /\ clen c1 = clen c + rs /\ dlen c1 = dlen c).
  { subst c1. destruct (N.eqb_spec rs 0) as [H0|H0].
    - split; [exact HI | split; [clear - H0; lia | reflexivity]].
    - split; [apply Inv_advance; [exact HI | cbn [clen]; clear; lia | clear - Hfit Hge; lia] | split; reflexivity]. }
  clearbody c1. destruct I1 as (I1 & L1 & K1).
  set (c2 := push_bytes_loop (S (N.to_nat (l / 8))) c1 y l).
  assert (E2 : Ext c1 c2 (be_bits (8 * N.to_nat (l / 8)) (N.shiftr y (l mod 8)))).
  { subst c2. apply push_bytes_loop_spec; [exact I1 | rewrite K1, L1; subst l; lia | lia]. }
  clearbody c2. destruct E2 as (I2 & _ & L2 & D2). rewrite be_bits_length in L2.
  destruct (N.eqb_spec (l mod 8) 0) as [Hrem|Hrem]; [reflexivity|].
  assert (Hk2 : dlen c2 = dlen c) by (unfold dlen in *; now rewrite D2).
  assert (HL2 : clen c2 = clen c + rs + 8 * (l / 8)) by lia.
  rewrite Inv_byte_zero; auto; [| rewrite Hk2; subst l; lia | rewrite HL2; lia].
  apply N.ltb_ge. unfold to_u8. lia.
Qed.

Lemma push_bits_no_panic c x w : Inv c -> w <= 64 -> push_bits_panics c x w = false.
Proof.
  intros HI Hw. rewrite push_bits_panics_unfold, keep_last_tbl_length.
  destruct (N.leb_spec 65 w) as [H|H]; [lia|].
  destruct (increase_len_spec c (clen c + w) HI) as (I' & B' & L' & F').
  apply push_bits_panics_body_false; auto. lia.
Qed.

(* ------------------------------------------------------------------ push_u8_slice, fill, from_version *)
Lemma fold_push_u8_Ext s : forall c, Inv c -> bytes s -> clen c + 8 * N.of_nat (length s) < 8 * dlen c ->
  Ext c (fold_left push_u8 s c) (bytes_bits s).
Proof.
  induction s as [|b t IH]; intros c HI Hs Hfit.
  - cbn [fold_left]. now apply Ext_refl.
  - cbn [fold_left]. inversion Hs as [|b' t' Hb Ht]; subst.
    cbn [length] in Hfit.
    assert (E1 : Ext c (push_u8 c b) (be_bits 8 b)) by (apply push_u8_Ext; auto; lia).
    pose proof E1 as (I1 & _ & L1 & D1). rewrite be_bits_length in L1.
    assert (E2 : Ext (push_u8 c b) (fold_left push_u8 t (push_u8 c b)) (bytes_bits t)).
    { apply IH; auto. unfold dlen in *. rewrite D1, L1. lia. }
    rewrite bytes_bits_cons. exact (Ext_trans _ _ _ _ _ E1 E2).
Qed.

Lemma fold_push_u8_gen s : forall c, Inv c -> bytes s ->
  Inv (fold_left push_u8 s c) /\ bits_of (fold_left push_u8 s c) = bits_of c ++ bytes_bits s
  /\ clen (fold_left push_u8 s c) = clen c + 8 * N.of_nat (length s).
Proof.
  induction s as [|b t IH]; intros c HI Hs.
  - cbn [fold_left length]. rewrite app_nil_r. split; [exact HI | split; [reflexivity | lia]].
  - cbn [fold_left]. inversion Hs as [|b' t' Hb Ht]; subst.
    destruct (push_u8_gen c b HI Hb) as (I1 & B1 & L1).
    destruct (IH (push_u8 c b) I1 Ht) as (I2 & B2 & L2).
    rewrite B2, L2, B1, L1, bytes_bits_cons, app_assoc. cbn [length]. split; [exact I2 | split; [reflexivity | lia]].
Qed.

Lemma push_u8_slice_Ext c s : Inv c -> bytes s -> clen c + 8 * N.of_nat (length s) < 8 * dlen c ->
  Ext c (push_u8_slice c s) (bytes_bits s).
Proof.
  intros HI Hs Hfit. unfold push_u8_slice. rewrite increase_len_fits by lia.
  now apply fold_push_u8_Ext.
Qed.

Lemma iso_pads_bytes n f : bytes (iso_pads n f).
Proof.
  revert f; induction n as [|n IH]; intros f; cbn [iso_pads]; constructor; [destruct f; reflexivity | apply IH].
Qed.

Lemma iso_pads_length n f : length (iso_pads n f) = n.
Proof. revert f; induction n as [|n IH]; intros f; cbn [iso_pads length]; auto. Qed.

Lemma pad_byte i : getN pad_bytes_tbl (i mod 2) = if i mod 2 =? 0 then 236 else 17.
Proof.
  assert (H : i mod 2 = 0 \/ i mod 2 = 1) by lia. destruct H as [-> | ->]; reflexivity.
Qed.

Lemma fill_loop_S n i c : fill_loop (S n) i c = fill_loop n (i + 1) (push_u8 c (getN pad_bytes_tbl (i mod 2))).
Proof. reflexivity. Qed.

Lemma fill_loop_Ext n : forall i c, Inv c -> clen c + 8 * N.of_nat n < 8 * dlen c ->
  Ext c (fill_loop n i c) (bytes_bits (iso_pads n (i mod 2 =? 0))).
Proof.
  induction n as [|n IH]; intros i c HI Hfit.
  - cbn [fill_loop iso_pads]. now apply Ext_refl.
  - rewrite fill_loop_S, pad_byte. cbn [iso_pads]. rewrite bytes_bits_cons.
    set (b := if i mod 2 =? 0 then 236 else 17).
    assert (Hb : b < 256) by (subst b; destruct (i mod 2 =? 0); reflexivity).
    assert (E1 : Ext c (push_u8 c b) (be_bits 8 b)) by (apply push_u8_Ext; auto; lia).
    pose proof E1 as (I1 & _ & L1 & D1). rewrite be_bits_length in L1.
    assert (E2 := IH (i + 1) (push_u8 c b) I1).
    unfold dlen in *. rewrite D1, L1 in E2. specialize (E2 ltac:(lia)).
    replace ((i + 1) mod 2 =? 0) with (negb (i mod 2 =? 0)) in E2.
    2:{ destruct (N.eqb_spec (i mod 2) 0), (N.eqb_spec ((i + 1) mod 2) 0); cbn [negb]; auto; lia. }
    exact (Ext_trans _ _ _ _ _ E1 E2).
Qed.

Lemma fill_Ext c : Inv c -> clen c + 8 * N.of_nat (fill_count c) < 8 * dlen c ->
  Ext c (fill c) (bytes_bits (iso_pads (fill_count c) true)).
Proof. intros HI Hfit. unfold fill. now apply (fill_loop_Ext (fill_count c) 0 c). Qed.

Lemma bits_of_clen0 c : clen c = 0 -> bits_of c = [].
Proof. intros H. unfold bits_of. rewrite H. reflexivity. Qed.

Theorem from_version_Inv v : Inv (from_version v) /\ bits_of (from_version v) = [].
Proof.
  split; [|reflexivity]. unfold Inv, from_version. cbn [clen cdata].
  repeat split.
  - apply bytes_repeat0.
  - lia.
  - rewrite bytes_bits_repeat0. apply Forall_skipn, Forall_repeat. reflexivity.
Qed.

Lemma from_version_dlen v : dlen (from_version v) = max_bytes v * compact_alloc_mul.
Proof. unfold dlen, from_version. cbn [cdata]. rewrite repeat_length. lia. Qed.

(* ------------------------------------------------------------------ the task-shaped statements *)
Theorem push_u8_spec c b : Inv c -> (b < 256)%N -> (clen c + 8 < 8 * N.of_nat (length (cdata c)))%N ->
  Inv (push_u8 c b) /\ bits_of (push_u8 c b) = bits_of c ++ be_bits 8 b
  /\ length (cdata (push_u8 c b)) = length (cdata c).
Proof.
  intros HI Hb Hfit. destruct (push_u8_Ext c b HI Hb Hfit) as (I & B & _ & D). auto.
Qed.

Theorem push_bits_spec c x w : Inv c -> (w <= 64)%N -> (clen c + w < 8 * N.of_nat (length (cdata c)))%N ->
  Inv (push_bits c x w) /\ bits_of (push_bits c x w) = bits_of c ++ be_bits (N.to_nat w) x
  /\ length (cdata (push_bits c x w)) = length (cdata c) /\ push_bits_panics c x w = false.
Proof.
  intros HI Hw Hfit. destruct (push_bits_Ext c x w HI Hw Hfit) as (I & B & _ & D).
  split; [exact I | split; [exact B | split; [exact D | now apply push_bits_no_panic]]].
Qed.

Theorem push_u8_slice_spec c s : Inv c -> Forall (fun b => (b < 256)%N) s ->
  (clen c + 8 * N.of_nat (length s) < 8 * N.of_nat (length (cdata c)))%N ->
  Inv (push_u8_slice c s) /\ bits_of (push_u8_slice c s) = bits_of c ++ bytes_bits s
  /\ length (cdata (push_u8_slice c s)) = length (cdata c).
Proof.
  intros HI Hs Hfit. destruct (push_u8_slice_Ext c s HI Hs Hfit) as (I & B & _ & D). auto.
Qed.

(* fill appends fill_count c = ceil((|data| - clen) / 8) pad bytes 236, 17, 236, ... (Rust: the range clen .. data.len()
   stepped by 8, where clen counts bits and data.len() counts bytes) *)
Theorem fill_spec c : Inv c -> (clen c mod 8 = 0)%N ->
  (clen c + 8 * N.of_nat (fill_count c) < 8 * N.of_nat (length (cdata c)))%N ->
  Inv (fill c) /\ bits_of (fill c) = bits_of c ++ bytes_bits (iso_pads (fill_count c) true)
  /\ length (cdata (fill c)) = length (cdata c) /\ fill_panics c = false.
Proof.
  intros HI Hal Hfit. destruct (fill_Ext c HI Hfit) as (I & B & _ & D).
  split; [exact I | split; [exact B | split; [exact D |]]]. unfold fill_panics. rewrite Hal. reflexivity.
Qed.

(* without the fits precondition: increase_len extends the buffer with zero bytes *)
Theorem push_u8_spec_gen c b : Inv c -> (b < 256)%N ->
  Inv (push_u8 c b) /\ bits_of (push_u8 c b) = bits_of c ++ be_bits 8 b.
Proof. intros HI Hb. destruct (push_u8_gen c b HI Hb) as (I & B & _). auto. Qed.

Theorem push_bits_spec_gen c x w : Inv c -> (w <= 64)%N ->
  Inv (push_bits c x w) /\ bits_of (push_bits c x w) = bits_of c ++ be_bits (N.to_nat w) x
  /\ push_bits_panics c x w = false.
Proof.
  intros HI Hw. destruct (push_bits_gen c x w HI Hw) as (I & B & _).
  split; [exact I | split; [exact B | now apply push_bits_no_panic]].
Qed.

Theorem push_u8_slice_spec_gen c s : Inv c -> Forall (fun b => (b < 256)%N) s ->
  Inv (push_u8_slice c s) /\ bits_of (push_u8_slice c s) = bits_of c ++ bytes_bits s.
Proof.
  intros HI Hs. unfold push_u8_slice.
  destruct (increase_len_spec c (clen c + 8 * N.of_nat (length s)) HI) as (I' & B' & L' & _).
  destruct (fold_push_u8_gen s _ I' Hs) as (I2 & B2 & _). rewrite B2, B'. auto.
Qed.

Theorem fill_spec_gen c : Inv c ->
  Inv (fill c) /\ bits_of (fill c) = bits_of c ++ bytes_bits (iso_pads (fill_count c) true).
Proof.
  intros HI. unfold fill.
  assert (H : forall n i c', Inv c' ->
            Inv (fill_loop n i c') /\ bits_of (fill_loop n i c') = bits_of c' ++ bytes_bits (iso_pads n (i mod 2 =? 0))).
  { induction n as [|n IH]; intros i c' HI'.
    - cbn [fill_loop iso_pads]. split; [exact HI' | now rewrite app_nil_r].
    - rewrite fill_loop_S, pad_byte. cbn [iso_pads]. rewrite bytes_bits_cons.
      set (b := if i mod 2 =? 0 then 236 else 17).
      assert (Hb : b < 256) by (subst b; destruct (i mod 2 =? 0); reflexivity).
      destruct (push_u8_gen c' b HI' Hb) as (I1 & B1 & _).
      destruct (IH (i + 1) (push_u8 c' b) I1) as (I2 & B2).
      replace ((i + 1) mod 2 =? 0) with (negb (i mod 2 =? 0)) in B2.
      2:{ destruct (N.eqb_spec (i mod 2) 0), (N.eqb_spec ((i + 1) mod 2) 0); cbn [negb]; auto; lia. }
      split; [exact I2|]. now rewrite B2, B1, app_assoc. }
  exact (H (fill_count c) 0 c HI).
Qed.

(* why the fits precondition must be strict: an exact fit grows the vector by one byte (as in the Rust code) *)
Example push_u8_exact_fit_grows :
  length (cdata (push_u8 {| clen := 0; cdata := [0] |} 5)) = 2%nat.
Proof. reflexivity. Qed.

(* The model's [push_bits_panics] evaluates the u8 `+=` carry condition on a buffer whose partially filled byte has NOT
   been or-ed (its c1 keeps [cdata c]).  The faithful condition -- on the real intermediate buffer -- is also false: *)
Definition push_bits_carry_body (c : cq) (bits0 len : N) : bool :=
  let bits := N.land bits0 (keep_last len) in
  let rem_space := (8 - clen c mod 8) mod 8 in
  let first := clen c / 8 in
  if len <? rem_space then false else
    let c1 := if rem_space =? 0 then c
              else {| clen := clen c + rem_space;
                      cdata := or_at (cdata c) first (to_u8 (N.land (N.shiftr bits (len - rem_space)) (keep_last rem_space))) |} in
    let l := len - rem_space in
    let c2 := push_bytes_loop (S (N.to_nat (l / 8))) c1 bits l in
    let remaining := l mod 8 in
    if remaining =? 0 then false
    else 255 <? getN (cdata c2) (clen c2 / 8) + to_u8 (N.shiftl (to_u8 (N.land bits (keep_last remaining))) (8 - remaining)).
Definition push_bits_carry (c0 : cq) (bits0 len : N) : bool :=
  push_bits_carry_body (increase_len c0 (clen c0 + len)) bits0 len.

Lemma push_bits_carry_body_false c x w : Inv c -> w <= 64 -> clen c + w < 8 * dlen c ->
  push_bits_carry_body c x w = false.
Proof.
  intros HI Hw Hfit. unfold push_bits_carry_body.
  rewrite (land_keep_last x w Hw).
  assert (Hy : x mod 2 ^ w < 2 ^ w) by (apply N.mod_upper_bound, pow2_nz).
  set (y := x mod 2 ^ w) in *. clearbody y. clear x.
  set (r := clen c mod 8). set (first := clen c / 8).
  assert (Hr8 : r < 8) by (subst r; lia).
  assert (HL : clen c = 8 * first + r) by (subst first r; lia).
  set (rs := (8 - r) mod 8).
  assert (Hrs : rs = 0 /\ r = 0 \/ rs = 8 - r /\ 0 < r) by (subst rs; lia).
  assert (Hf : first < dlen c) by lia.
  destruct (N.ltb_spec w rs) as [Hlt|Hge]; [reflexivity|].
  set (l := w - rs).
  assert (Hz1 : N.shiftr y l < 2 ^ rs).
  { rewrite N.shiftr_div_pow2. apply N.div_lt_upper_bound; [apply pow2_nz|].
    rewrite <- N.pow_add_r. replace (l + rs) with w by (subst l; lia). exact Hy. }
  set (c1 := if rs =? 0 then c
             else {| clen := clen c + rs;
                     cdata := or_at (cdata c) first (to_u8 (N.land (N.shiftr y l) (keep_last rs))) |}).
  assert (E1 : Ext c c1 (be_bits (N.to_nat rs) (N.shiftr y l))).
  { subst c1. destruct (N.eqb_spec rs 0) as [H0|H0].
    - rewrite H0. cbn [be_bits]. now apply Ext_refl.
    - destruct Hrs as [[H0' _]|[Hrs Hr0]]; [lia|].
      rewrite land_keep_last by lia. rewrite (N.mod_small _ _ Hz1).
      rewrite to_u8_small by (eapply N.lt_le_trans; [exact Hz1 | apply pow2_le_256; clear - Hrs Hr8; lia]).
      apply prim_or; [exact HI | reflexivity | exact Hf | fold r; clear - Hrs; lia | exact Hz1 | | reflexivity].
      fold r. replace (8 - r - rs) with 0 by (clear - Hrs; lia). change (2 ^ 0) with 1. lia. }
  clearbody c1.
  pose proof E1 as (I1 & _ & L1 & D1). rewrite be_bits_length in L1.
  assert (Hk1 : dlen c1 = dlen c) by (unfold dlen; now rewrite D1).
  set (c2 := push_bytes_loop (S (N.to_nat (l / 8))) c1 y l).
  assert (E2 : Ext c1 c2 (be_bits (8 * N.to_nat (l / 8)) (N.shiftr y (l mod 8)))).
  { subst c2. apply push_bytes_loop_spec; [exact I1 | rewrite Hk1, L1; subst l; lia | lia]. }
  clearbody c2.
  pose proof E2 as (I2 & _ & L2 & D2). rewrite be_bits_length in L2.
  assert (Hk2 : dlen c2 = dlen c) by (unfold dlen; now rewrite D2, D1).
  assert (HL2 : clen c2 = clen c + rs + 8 * (l / 8)) by lia.
  destruct (N.eqb_spec (l mod 8) 0) as [Hrem|Hrem]; [reflexivity|].
  rewrite Inv_byte_zero; [| exact I2 | rewrite Hk2; clear - HL2 Hfit Hge Hrem; subst l; lia | rewrite HL2; clear; lia].
  apply N.ltb_ge. unfold to_u8. clear. lia.
Qed.

Theorem push_bits_carry_false c x w : Inv c -> w <= 64 -> push_bits_carry c x w = false.
Proof.
  intros HI Hw. unfold push_bits_carry.
  destruct (increase_len_spec c (clen c + w) HI) as (I' & B' & L' & F').
  apply push_bits_carry_body_false; auto. lia.
Qed.
