(* Finite geometry checks over all 40 versions: the blank symbol (values and labels) is the ISO region map, the
   number of encoding-region modules gives the codeword and remainder-bit counts, geometry-level safety. *)
From Coq Require Import NArith List Bool Arith Lia.
From FQ Require Import Lib.ListX Lib.Mat Generated.Tables Model.Types Model.Hardcode Model.Default Model.Qr
  Spec.Iso Spec.Oracles Proofs.Tables.
Import ListNotations.

Definition cell_matches (c : cell) (x : region) : bool :=
  N.eqb (fst c) (region_type x) && match region_value x with Some b => Bool.eqb (snd c) b | None => true end.
Definition blank_ok (v : nat) : bool :=
  Nat.eqb (version_size v) (iso_size v) && all2 (all2 cell_matches) (blank v) (iso_region_map v).
Definition find_bad_blank := filter (fun v => negb (blank_ok v)) all_versions.
Lemma blank_check : forallb blank_ok all_versions = true.
Proof. vm_compute. reflexivity. Qed.
Theorem blank_is_iso v : v < 40 -> blank_ok v = true.
Proof. intros H. apply (forallb_In _ _ _ blank_check), in_versions, H. Qed.

Definition counts_ok (v : nat) : bool :=
  N.eqb (N.of_nat (iso_total_codewords v)) (max_bytes v) && N.eqb (N.of_nat (iso_remainder_bits v)) (missing_bits v).
Definition find_bad_counts := filter (fun v => negb (counts_ok v)) all_versions.
Lemma counts_check : forallb counts_ok all_versions = true.
Proof. vm_compute. reflexivity. Qed.
Theorem counts_from_geometry v : v < 40 ->
  N.of_nat (iso_total_codewords v) = max_bytes v /\ N.of_nat (iso_remainder_bits v) = missing_bits v.
Proof.
  intros H. pose proof (forallb_In _ _ _ counts_check (in_versions v H)) as C.
  unfold counts_ok in C. apply andb_prop in C as [A B]. split; now apply N.eqb_eq.
Qed.

Definition alignment_ok (v : nat) : bool := list_eqb Nat.eqb (iso_align_centres v) (map N.to_nat (alignment_grid v)).
Lemma alignment_check : forallb alignment_ok all_versions = true.
Proof. vm_compute. reflexivity. Qed.
Theorem alignment_is_annex_e v : v < 40 -> map N.to_nat (alignment_grid v) = iso_align_centres v.
Proof.
  intros H. symmetry. apply (list_eqb_eq Nat.eqb). intros x y E; now apply Nat.eqb_eq.
  apply (forallb_In _ _ _ alignment_check), in_versions, H.
Qed.

