(* Finite table checks: the generated tables against the ISO spec, by kernel computation over the whole
   (finite) configuration domain. Each check function has a companion counter-example finder. *)
From Coq Require Import NArith List Bool Arith Lia.
From FQ Require Import Lib.ListX Generated.Tables Model.Types Model.Hardcode Model.Qr Spec.IsoTable9 Spec.Iso Spec.Gf.
Import ListNotations.

Definition all_levels_idx : list nat := seq 0 4.
Definition pairs_vl : list (nat * nat) := list_prod all_versions all_levels_idx.

Lemma forallb_In {A} (f : A -> bool) l x : forallb f l = true -> In x l -> f x = true.
Proof. intros H Hin. rewrite forallb_forall in H. auto. Qed.
Lemma in_versions v : v < 40 -> In v all_versions.
Proof. intros H. unfold all_versions. apply in_seq. lia. Qed.
Lemma in_levels l : l < 4 -> In l all_levels_idx.
Proof. intros H. apply in_seq. lia. Qed.
Lemma in_masks k : k < 8 -> In k all_masks.
Proof. intros H. apply in_seq. lia. Qed.
Lemma ecl_idx_lt e : ecl_idx e < 4.
Proof. destruct e; cbn; lia. Qed.
Lemma ecl_of_idx_idx e : ecl_of_idx (ecl_idx e) = e.
Proof. destruct e; reflexivity. Qed.

(* ---- format / version information words ---- *)
Definition format_ok (lk : nat * nat) : bool :=
  (format_information (ecl_of_idx (fst lk)) (snd lk) =? iso_format_word (fst lk) (snd lk))%N.
Definition find_bad_format := filter (fun lk => negb (format_ok lk)) (list_prod all_levels_idx all_masks).
Lemma format_table_check : forallb format_ok (list_prod all_levels_idx all_masks) = true.
Proof. vm_compute. reflexivity. Qed.
Theorem format_table_is_bch e k : k < 8 ->
  format_information e k = iso_format_word (ecl_idx e) k.
Proof.
  intros Hk. pose proof (forallb_In _ _ (ecl_idx e, k) format_table_check) as H.
  unfold format_ok in H. cbn [fst snd] in H. rewrite ecl_of_idx_idx in H.
  apply N.eqb_eq, H, in_prod; [apply in_levels, ecl_idx_lt | apply in_masks, Hk].
Qed.

Definition version_word_ok (v : nat) : bool := (version_information v =? iso_version_word v)%N.
Definition find_bad_version_word := filter (fun v => negb (version_word_ok v)) (seq 6 34).
Lemma version_table_check : forallb version_word_ok (seq 6 34) = true.
Proof. vm_compute. reflexivity. Qed.
Theorem version_table_is_bch v : 6 <= v < 40 -> version_information v = iso_version_word v.
Proof. intros H. apply N.eqb_eq, (forallb_In _ _ v version_table_check), in_seq. lia. Qed.

(* ---- Table 9: block layout, data codewords, generator degree ---- *)
Definition layout_ok (vl : nat * nat) : bool :=
  let '(v, l) := vl in
  let e := ecl_of_idx l in
  let '(c1, s1, c2, s2) := ecc_groups e v in
  let '(d1, g1, d2, g2) := iso_layout v l in
  (N.to_nat c1 =? g1) && (N.to_nat s1 =? d1) && (N.to_nat c2 =? g2)
  && ((g2 =? 0) || (N.to_nat s2 =? d2))
  && (N.to_nat (data_codewords v e) =? iso_data_codewords v l)
  && (length (get_polynomial v e) =? iso_ec v l + 1)
  && (N.to_nat (max_bytes v) =? iso_data_codewords v l + iso_ec v l * (g1 + g2)).
Definition find_bad_layout := filter (fun vl => negb (layout_ok vl)) pairs_vl.
Lemma layout_check : forallb layout_ok pairs_vl = true.
Proof. vm_compute. reflexivity. Qed.
Theorem layout_is_table9 v e : v < 40 -> layout_ok (v, ecl_idx e) = true.
Proof. intros H. apply (forallb_In _ _ _ layout_check), in_prod; [apply in_versions, H | apply in_levels, ecl_idx_lt]. Qed.

Theorem degree_is_table9 v e : v < 40 -> length (get_polynomial v e) = iso_ec v (ecl_idx e) + 1.
Proof.
  intros H. pose proof (layout_is_table9 v e H) as L. unfold layout_ok in L.
  rewrite ecl_of_idx_idx in L.
  destruct (ecc_groups e v) as [[[c1 s1] c2] s2]. destruct (iso_layout v (ecl_idx e)) as [[[d1 g1] d2] g2].
  repeat (apply andb_prop in L as [L ?]). now apply Nat.eqb_eq.
Qed.

Theorem data_codewords_is_table9 v e : v < 40 -> N.to_nat (data_codewords v e) = iso_data_codewords v (ecl_idx e).
Proof.
  intros H. pose proof (layout_is_table9 v e H) as L. unfold layout_ok in L.
  rewrite ecl_of_idx_idx in L.
  destruct (ecc_groups e v) as [[[c1 s1] c2] s2]. destruct (iso_layout v (ecl_idx e)) as [[[d1 g1] d2] g2].
  repeat (apply andb_prop in L as [L ?]). now apply Nat.eqb_eq.
Qed.

(* ---- Table 3: character count widths ---- *)
Definition cci_ok (mv : nat * nat) : bool :=
  (N.to_nat (cci_bits (snd mv) (mode_of_idx (fst mv))) =? iso_cci (fst mv) (snd mv)).
Definition find_bad_cci := filter (fun mv => negb (cci_ok mv)) (list_prod (seq 0 3) all_versions).
Lemma cci_check : forallb cci_ok (list_prod (seq 0 3) all_versions) = true.
Proof. vm_compute. reflexivity. Qed.
Lemma mode_of_idx_idx m : mode_of_idx (mode_idx m) = m.
Proof. destruct m; reflexivity. Qed.
Theorem cci_is_table3 m v : v < 40 -> N.to_nat (cci_bits v m) = iso_cci (mode_idx m) v.
Proof.
  intros H. pose proof (forallb_In _ _ (mode_idx m, v) cci_check) as C. unfold cci_ok in C. cbn [fst snd] in C.
  rewrite mode_of_idx_idx in C. apply Nat.eqb_eq, C, in_prod; [apply in_seq; destruct m; cbn; lia | apply in_versions, H].
Qed.

(* ---- layout-level safety (array bounds, subtractions) for all 160 pairs ---- *)
Definition find_bad_layout_safe := filter (fun vl : nat * nat => negb (layout_safe (fst vl) (ecl_of_idx (snd vl)))) pairs_vl.
Lemma layout_safe_check : forallb (fun vl : nat * nat => layout_safe (fst vl) (ecl_of_idx (snd vl))) pairs_vl = true.
Proof. vm_compute. reflexivity. Qed.
Theorem layout_safe_all v e : v < 40 -> layout_safe v e = true.
Proof.
  intros H. pose proof (forallb_In _ _ (v, ecl_idx e) layout_safe_check) as C. cbn [fst snd] in C.
  rewrite ecl_of_idx_idx in C. apply C, in_prod; [apply in_versions, H | apply in_levels, ecl_idx_lt].
Qed.
