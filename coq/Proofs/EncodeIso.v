(* encode.rs against ISO/IEC 18004 7.4: the packers produce the ISO bit stream, and encode() produces the ISO data
   codewords (property C06).  Uses the buffer lemmas of PushBits.v (and BitsBase.v).

   Main theorems (all Qed, closed under the global context; nothing is left unproved):
     alnum_is_table5, is_digit_iso, mode_indicator_iso, widths_iso, constants_iso      (finite checks)
     iso_payload_bits_length   |iso_payload_bits m input| = iso_payload_len m |input|
     encode_segment_Ext / encode_segment_bits   the segment theorem (Inv, bits, clen, data length)
     segment_pushes_ok         every push_bits call made by encode_segment has push_bits_panics = false
     finish_spec               terminator + pad_to_8 + fill against the tail of iso_codewords
     encode_is_iso_strong      everything about encode at once (no alphabet / count-width hypotheses needed)
     encode_is_iso             property C06, exactly as specified

   Remarks: alphabet_ok and "count < 2^cci" are not needed for the bit-level equations (both sides truncate the count
   the same way, and ascii_to_digit / alnum_val agree with dig / av on every byte); they are kept as (unused)
   hypotheses in the task-shaped statements encode_segment_bits and encode_is_iso.  The "fits" hypothesis of
   encode_segment_bits is strict (see PushBits.v). *)
From Coq Require Import NArith List Bool Arith Lia ZArith.
From Coq Require Import ZifyBool ZifyNat ZifyN.
From FQ Require Import Lib.ListX Generated.Tables Model.Types Model.Hardcode Model.Compact Model.Encode
  Spec.IsoTable9 Spec.Iso Proofs.Tables Proofs.BitsBase Proofs.PushBits.
Import ListNotations.
Local Open Scope N_scope.
Ltac Zify.zify_post_hook ::= Z.div_mod_to_equations.
Arguments N.add : simpl never.
Arguments N.sub : simpl never.
Arguments N.mul : simpl never.
Arguments N.div : simpl never.
Arguments N.modulo : simpl never.
Arguments N.pow : simpl never.
Arguments N.shiftl : simpl never.
Arguments N.shiftr : simpl never.
Arguments N.land : simpl never.
Arguments N.lor : simpl never.
Arguments N.testbit : simpl never.
Arguments N.of_nat : simpl never.
Arguments N.to_nat : simpl never.
Arguments N.eqb : simpl never.
Arguments N.ltb : simpl never.
Arguments N.leb : simpl never.
Arguments N.min : simpl never.

(* ------------------------------------------------------------------ tables (finite checks, all 256 byte values) *)
Definition optN_eqb (a b : option N) : bool :=
  match a, b with Some x, Some y => x =? y | None, None => true | _, _ => false end.
Lemma optN_eqb_eq a b : optN_eqb a b = true -> a = b.
Proof. destruct a, b; cbn [optN_eqb]; intros H; try discriminate; [apply N.eqb_eq in H; now subst | reflexivity]. Qed.

Lemma alnum_check :
  forallb (fun k => optN_eqb (ascii_to_alphanumeric (N.of_nat k)) (option_map N.of_nat (iso_alnum_value (N.of_nat k))))
          (seq 0 256) = true.
Proof. vm_compute. reflexivity. Qed.

Theorem alnum_is_table5 : forall c, (c < 256)%N -> ascii_to_alphanumeric c = option_map N.of_nat (iso_alnum_value c).
Proof.
  intros c Hc. pose proof alnum_check as H. rewrite forallb_forall in H.
  specialize (H (N.to_nat c)). rewrite N2Nat.id in H. apply optN_eqb_eq, H, in_seq. lia.
Qed.

Theorem is_digit_iso : forall c, is_ascii_digit c = iso_is_digit c.
Proof. reflexivity. Qed.

Lemma alnum_val_av c : c < 256 -> alnum_val c = av c.
Proof.
  intros Hc. unfold alnum_val, av. rewrite (alnum_is_table5 c Hc).
  destruct (iso_alnum_value c); reflexivity.
Qed.

Lemma alnum_ok_iso c : c < 256 ->
  (match ascii_to_alphanumeric c with Some _ => true | None => false end) = iso_is_alnum c.
Proof.
  intros Hc. unfold iso_is_alnum. rewrite (alnum_is_table5 c Hc). destruct (iso_alnum_value c); reflexivity.
Qed.

Theorem mode_indicator_iso m : mode_indicator m = (iso_mode_indicator (mode_idx m), 4).
Proof. destruct m; reflexivity. Qed.

Lemma widths_iso : W_TRIPLE = 10 /\ W_DOUBLE = 7 /\ W_SINGLE = 4 /\ W_PAIR = 11 /\ W_LAST = 6.
Proof. repeat split; reflexivity. Qed.
Lemma constants_iso :
  alnum_mul = 45 /\ nthN numeric_weights_tbl 0 = 100 /\ nthN numeric_weights_tbl 1 = 10 /\ terminator_max = 4
  /\ pad_bytes_tbl = [236; 17] /\ compact_alloc_mul = 8 /\ data_bits_mul = 8.
Proof. repeat split; reflexivity. Qed.

(* sizes for all 160 (version, level) pairs *)
Definition size_ok (vl : nat * nat) : bool :=
  let '(v, l) := vl in
  (0 <? max_bytes v) && (data_codewords v (ecl_of_idx l) <=? max_bytes v).
Lemma size_check : forallb size_ok pairs_vl = true.
Proof. vm_compute. reflexivity. Qed.
Lemma size_all v e : (v < 40)%nat -> 0 < max_bytes v /\ data_codewords v e <= max_bytes v.
Proof.
  intros H. pose proof (forallb_In _ _ (v, ecl_idx e) size_check) as C. unfold size_ok in C.
  rewrite ecl_of_idx_idx in C.
  assert (Hin : In (v, ecl_idx e) pairs_vl) by (apply in_prod; [apply in_versions, H | apply in_levels, ecl_idx_lt]).
  specialize (C Hin). apply andb_prop in C as [C1 C2]. split; lia.
Qed.

(* ------------------------------------------------------------------ chunks / bits_bytes *)
Lemma chunks_aux_S {A} f n (l : list A) :
  chunks_aux (S f) n l = match l with [] => [] | _ => firstn n l :: chunks_aux f n (skipn n l) end.
Proof. reflexivity. Qed.

Lemma chunks_aux_fuel {A} n : (0 < n)%nat -> forall f1 f2 (l : list A),
  (length l <= f1)%nat -> (length l <= f2)%nat -> chunks_aux f1 n l = chunks_aux f2 n l.
Proof.
  intros Hn. induction f1 as [|f1 IH]; intros f2 l H1 H2.
  - destruct l as [|x t]; [|cbn [length] in H1; lia]. destruct f2; reflexivity.
  - destruct f2 as [|f2].
    + destruct l as [|x t]; [reflexivity | cbn [length] in H2; lia].
    + rewrite !chunks_aux_S. destruct l as [|x t]; [reflexivity|].
      f_equal. apply IH; rewrite skipn_length; cbn [length] in *; lia.
Qed.

Lemma chunks_app_exact {A} n (a b : list A) : (0 < n)%nat -> length a = n -> chunks n (a ++ b) = a :: chunks n b.
Proof.
  intros Hn Ha. unfold chunks. rewrite app_length, Ha.
  destruct n as [|n]; [lia|]. cbn [Nat.add]. rewrite chunks_aux_S.
  destruct (a ++ b) as [|x t] eqn:E.
  - destruct a; cbn [length] in Ha; [lia | discriminate].
  - rewrite <- E. rewrite firstn_app_exact, skipn_app_exact by exact Ha.
    f_equal. apply chunks_aux_fuel; lia.
Qed.

Lemma bits_bytes_nil : bits_bytes [] = [].
Proof. reflexivity. Qed.

Lemma bits_bytes_app8 a b : length a = 8%nat -> bits_bytes (a ++ b) = bits_val a :: bits_bytes b.
Proof. intros Ha. unfold bits_bytes. rewrite chunks_app_exact by (auto; lia). reflexivity. Qed.

Lemma bits_bytes_bytes_bits l : bytes l -> bits_bytes (bytes_bits l) = l.
Proof.
  induction 1 as [|x t Hx Ht IH]; [reflexivity|].
  rewrite bytes_bits_cons, bits_bytes_app8 by apply be_bits_length.
  rewrite IH, bits_val_be_bits. f_equal. change (2 ^ N.of_nat 8) with 256. now apply N.mod_small.
Qed.

Lemma bits_bytes_app_k k : forall a b, length a = (8 * k)%nat -> bits_bytes (a ++ b) = bits_bytes a ++ bits_bytes b.
Proof.
  induction k as [|k IH]; intros a b Ha.
  - destruct a; [reflexivity | cbn [length] in Ha; lia].
  - rewrite <- (firstn_skipn 8 a).
    assert (H8 : length (firstn 8 a) = 8%nat) by (rewrite firstn_length; lia).
    rewrite <- app_assoc, (bits_bytes_app8 _ (skipn 8 a ++ b)) by exact H8.
    rewrite (bits_bytes_app8 _ (skipn 8 a)) by exact H8.
    rewrite IH by (rewrite skipn_length; lia). reflexivity.
Qed.

Lemma bits_bytes_length_k k : forall a, length a = (8 * k)%nat -> length (bits_bytes a) = k.
Proof.
  induction k as [|k IH]; intros a Ha.
  - destruct a; [reflexivity | cbn [length] in Ha; lia].
  - rewrite <- (firstn_skipn 8 a).
    assert (H8 : length (firstn 8 a) = 8%nat) by (rewrite firstn_length; lia).
    rewrite bits_bytes_app8 by exact H8. cbn [length]. f_equal.
    apply IH. rewrite skipn_length; lia.
Qed.

Lemma firstn_iso_pads n : forall k f, (n <= k)%nat -> firstn n (iso_pads k f) = iso_pads n f.
Proof.
  induction n as [|n IH]; intros k f H; [reflexivity|].
  destruct k as [|k]; [lia|]. cbn [iso_pads firstn]. f_equal. apply IH. lia.
Qed.

(* ------------------------------------------------------------------ buffer <-> bytes *)
Lemma bits_of_length c : Inv c -> length (bits_of c) = N.to_nat (clen c).
Proof.
  intros (_ & Hle & _). unfold bits_of. rewrite firstn_length, bytes_bits_length. lia.
Qed.

Lemma firstn_cdata c j : Inv c -> clen c = 8 * N.of_nat j -> firstn j (cdata c) = bits_bytes (bits_of c).
Proof.
  intros (Hb & _ & _) Hl. unfold bits_of. rewrite Hl.
  replace (N.to_nat (8 * N.of_nat j)) with (8 * j)%nat by lia.
  rewrite bytes_bits_firstn, bits_bytes_bytes_bits; [reflexivity | now apply Forall_firstn].
Qed.

(* ------------------------------------------------------------------ induction in steps of 3 / 2 *)
Lemma list_ind3 {A} (P : list A -> Prop) :
  P [] -> (forall a, P [a]) -> (forall a b, P [a; b]) -> (forall a b c t, P t -> P (a :: b :: c :: t)) ->
  forall l, P l.
Proof.
  intros H0 H1 H2 H3 l.
  assert (H : forall n (l : list A), (length l <= n)%nat -> P l).
  { induction n as [|n IH]; intros l' Hl.
    - destruct l'; [exact H0 | cbn [length] in Hl; lia].
    - destruct l' as [|a [|b [|c t]]]; auto. apply H3, IH. cbn [length] in Hl. lia. }
  apply (H (length l)). lia.
Qed.

Lemma list_ind2 {A} (P : list A -> Prop) :
  P [] -> (forall a, P [a]) -> (forall a b t, P t -> P (a :: b :: t)) -> forall l, P l.
Proof.
  intros H0 H1 H2 l.
  assert (H : forall n (l : list A), (length l <= n)%nat -> P l).
  { induction n as [|n IH]; intros l' Hl.
    - destruct l'; [exact H0 | cbn [length] in Hl; lia].
    - destruct l' as [|a [|b t]]; auto. apply H2, IH. cbn [length] in Hl. lia. }
  apply (H (length l)). lia.
Qed.

(* ------------------------------------------------------------------ payload length *)
Lemma numeric_bits_length l : length (iso_numeric_bits l) = N.to_nat (iso_payload_len 0 (N.of_nat (length l))).
Proof.
  induction l as [| a | a b | a b c t IH] using list_ind3; try reflexivity.
  change (iso_numeric_bits (a :: b :: c :: t)) with (be_bits 10 (dig a * 100 + dig b * 10 + dig c) ++ iso_numeric_bits t).
  rewrite app_length, be_bits_length, IH. cbn [length].
  replace (N.of_nat (S (S (S (length t))))) with (N.of_nat (length t) + 3) by lia.
  set (n := N.of_nat (length t)). unfold iso_payload_len.
  replace ((n + 3) / 3) with (n / 3 + 1) by lia. replace ((n + 3) mod 3) with (n mod 3) by lia.
  destruct (n mod 3 =? 0); [lia|]. destruct (n mod 3 =? 1); lia.
Qed.

Lemma alnum_bits_length l : length (iso_alnum_bits l) = N.to_nat (iso_payload_len 1 (N.of_nat (length l))).
Proof.
  induction l as [| a | a b t IH] using list_ind2; try reflexivity.
  change (iso_alnum_bits (a :: b :: t)) with (be_bits 11 (av a * 45 + av b) ++ iso_alnum_bits t).
  rewrite app_length, be_bits_length, IH. cbn [length].
  replace (N.of_nat (S (S (length t)))) with (N.of_nat (length t) + 2) by lia.
  set (n := N.of_nat (length t)). unfold iso_payload_len.
  replace ((n + 2) / 2) with (n / 2 + 1) by lia. replace ((n + 2) mod 2) with (n mod 2) by lia. lia.
Qed.

Lemma byte_bits_length l : length (flat_map (be_bits 8) l) = N.to_nat (8 * N.of_nat (length l)).
Proof. change (flat_map (be_bits 8) l) with (bytes_bits l). rewrite bytes_bits_length. lia. Qed.

Theorem iso_payload_bits_length m input :
  length (iso_payload_bits m input) = N.to_nat (iso_payload_len m (N.of_nat (length input))).
Proof.
  destruct m as [|[|m]]; cbn [iso_payload_bits iso_payload_len];
    [apply numeric_bits_length | apply alnum_bits_length | apply byte_bits_length].
Qed.

(* ------------------------------------------------------------------ the packers *)
Lemma numeric_groups_3 c a b d t :
  numeric_groups c (a :: b :: d :: t) =
  numeric_groups (push_bits c (ascii_to_digit a * 100 + ascii_to_digit b * 10 + ascii_to_digit d) 10) t.
Proof. reflexivity. Qed.
Lemma numeric_groups_2 c a b : numeric_groups c [a; b] = push_bits c (ascii_to_digit a * 10 + ascii_to_digit b) 7.
Proof. reflexivity. Qed.
Lemma numeric_groups_1 c a : numeric_groups c [a] = push_bits c (ascii_to_digit a) 4.
Proof. reflexivity. Qed.

Lemma alnum_groups_2 c a b t :
  alnum_groups c (a :: b :: t) = alnum_groups (push_bits c (alnum_val a * 45 + alnum_val b) 11) t.
Proof. reflexivity. Qed.
Lemma alnum_groups_1 c a : alnum_groups c [a] = push_bits c (alnum_val a) 6.
Proof. reflexivity. Qed.

Lemma Ext_fits c c' bs n : Ext c c' bs -> clen c + N.of_nat (length bs) + n < 8 * dlen c -> clen c' + n < 8 * dlen c'.
Proof. intros (_ & _ & L & D) H. unfold dlen in *. rewrite L, D. exact H. Qed.

Lemma numeric_groups_Ext l : forall c, Inv c -> clen c + N.of_nat (length (iso_numeric_bits l)) < 8 * dlen c ->
  Ext c (numeric_groups c l) (iso_numeric_bits l).
Proof.
  induction l as [| a | a b | a b d t IH] using list_ind3; intros c HI Hfit.
  - now apply Ext_refl.
  - rewrite numeric_groups_1. apply (push_bits_Ext c _ 4 HI); [lia | exact Hfit].
  - rewrite numeric_groups_2. apply (push_bits_Ext c _ 7 HI); [lia | exact Hfit].
  - rewrite numeric_groups_3.
    change (iso_numeric_bits (a :: b :: d :: t)) with (be_bits 10 (dig a * 100 + dig b * 10 + dig d) ++ iso_numeric_bits t) in *.
    rewrite app_length, be_bits_length in Hfit.
    assert (E1 : Ext c (push_bits c (ascii_to_digit a * 100 + ascii_to_digit b * 10 + ascii_to_digit d) 10)
                     (be_bits 10 (dig a * 100 + dig b * 10 + dig d))).
    { apply (push_bits_Ext c _ 10 HI); lia. }
    pose proof E1 as (I1 & _).
    eapply Ext_trans; [exact E1|]. apply IH; [exact I1|].
    apply (Ext_fits _ _ _ _ E1). rewrite be_bits_length. lia.
Qed.

Lemma alnum_groups_Ext l : forall c, Inv c -> bytes l -> clen c + N.of_nat (length (iso_alnum_bits l)) < 8 * dlen c ->
  Ext c (alnum_groups c l) (iso_alnum_bits l).
Proof.
  induction l as [| a | a b t IH] using list_ind2; intros c HI Hl Hfit.
  - now apply Ext_refl.
  - inversion Hl as [|a' t' Ha Ht]; subst.
    rewrite alnum_groups_1, (alnum_val_av a Ha). apply (push_bits_Ext c _ 6 HI); [lia | exact Hfit].
  - inversion Hl as [|a' t' Ha Ht]; subst. inversion Ht as [|b' t'' Hb Ht']; subst.
    rewrite alnum_groups_2, (alnum_val_av a Ha), (alnum_val_av b Hb).
    change (iso_alnum_bits (a :: b :: t)) with (be_bits 11 (av a * 45 + av b) ++ iso_alnum_bits t) in *.
    rewrite app_length, be_bits_length in Hfit.
    assert (E1 : Ext c (push_bits c (av a * 45 + av b) 11) (be_bits 11 (av a * 45 + av b))).
    { apply (push_bits_Ext c _ 11 HI); lia. }
    pose proof E1 as (I1 & _).
    eapply Ext_trans; [exact E1|]. apply IH; [exact I1 | exact Ht' |].
    apply (Ext_fits _ _ _ _ E1). rewrite be_bits_length. lia.
Qed.

Definition seg_bits (m : mode) (cci : N) (input : list N) : list bool :=
  be_bits 4 (iso_mode_indicator (mode_idx m)) ++ be_bits (N.to_nat cci) (N.of_nat (length input))
  ++ iso_payload_bits (mode_idx m) input.

Lemma seg_bits_length m cci input :
  N.of_nat (length (seg_bits m cci input)) = 4 + cci + iso_payload_len (mode_idx m) (N.of_nat (length input)).
Proof.
  unfold seg_bits. rewrite !app_length, !be_bits_length, iso_payload_bits_length. lia.
Qed.

Lemma encode_header_Ext c m n cci : Inv c -> cci <= 64 -> clen c + 4 + cci < 8 * dlen c ->
  Ext c (encode_header c m n cci) (be_bits 4 (iso_mode_indicator (mode_idx m)) ++ be_bits (N.to_nat cci) n).
Proof.
  intros HI Hc Hfit. unfold encode_header. rewrite mode_indicator_iso. cbn [fst snd].
  assert (E1 : Ext c (push_bits c (iso_mode_indicator (mode_idx m)) 4) (be_bits 4 (iso_mode_indicator (mode_idx m)))).
  { apply (push_bits_Ext c _ 4 HI); lia. }
  pose proof E1 as (I1 & _).
  eapply Ext_trans; [exact E1|]. apply push_bits_Ext; [exact I1 | exact Hc |].
  apply (Ext_fits _ _ _ _ E1). rewrite be_bits_length. lia.
Qed.

(* the segment theorem, in the Ext form: Inv preserved, bits appended, clen advanced, data length preserved.
   (alphabet_ok and "count < 2^cci" are not needed for the bit-level equation.) *)
Lemma encode_segment_Ext c m input cci :
  Inv c -> bytes input -> cci <= 64 ->
  clen c + N.of_nat (length (seg_bits m cci input)) < 8 * dlen c ->
  Ext c (encode_segment c m input cci) (seg_bits m cci input).
Proof.
  intros HI Hin Hc Hfit. unfold encode_segment, seg_bits in *.
  rewrite !app_length, !be_bits_length in Hfit.
  assert (E1 : Ext c (encode_header c m (N.of_nat (length input)) cci)
                   (be_bits 4 (iso_mode_indicator (mode_idx m)) ++ be_bits (N.to_nat cci) (N.of_nat (length input)))).
  { apply encode_header_Ext; auto; lia. }
  pose proof E1 as (I1 & _).
  rewrite app_assoc. eapply Ext_trans; [exact E1|].
  assert (F1 : clen (encode_header c m (N.of_nat (length input)) cci)
               + N.of_nat (length (iso_payload_bits (mode_idx m) input))
               < 8 * dlen (encode_header c m (N.of_nat (length input)) cci)).
  { apply (Ext_fits _ _ _ _ E1). rewrite app_length, !be_bits_length. lia. }
  destruct m; cbn [mode_idx iso_payload_bits] in *.
  - now apply numeric_groups_Ext.
  - now apply alnum_groups_Ext.
  - change (flat_map (be_bits 8) input) with (bytes_bits input) in *.
    apply push_u8_slice_Ext; [exact I1 | exact Hin |].
    rewrite bytes_bits_length in F1. lia.
Qed.

(* task-shaped statement *)
Theorem encode_segment_bits c m input cci :
  Inv c -> alphabet_ok m input = true -> Forall (fun b => (b < 256)%N) input ->
  (N.of_nat (length input) < 2 ^ cci)%N -> (cci <= 16)%N ->
  (clen c + (4 + cci + iso_payload_len (mode_idx m) (N.of_nat (length input))) < 8 * N.of_nat (length (cdata c)))%N ->
  Inv (encode_segment c m input cci) /\
  bits_of (encode_segment c m input cci) =
    bits_of c ++ be_bits 4 (iso_mode_indicator (mode_idx m)) ++ be_bits (N.to_nat cci) (N.of_nat (length input))
    ++ iso_payload_bits (mode_idx m) input /\
  clen (encode_segment c m input cci) = (clen c + (4 + cci + iso_payload_len (mode_idx m) (N.of_nat (length input))))%N /\
  length (cdata (encode_segment c m input cci)) = length (cdata c).
Proof.
  intros HI _ Hin _ Hc Hfit.
  destruct (encode_segment_Ext c m input cci HI Hin ltac:(lia)) as (I & B & L & D).
  - rewrite seg_bits_length. exact Hfit.
  - rewrite seg_bits_length in L. split; [exact I | split; [exact B | split; [exact L | exact D]]].
Qed.

(* every push_bits call made by encode_segment, with the buffer it is applied to *)
Fixpoint numeric_pushes (c : cq) (l : list N) : list (cq * N * N) :=
  match l with
  | a :: b :: d :: t =>
      let x := ascii_to_digit a * nthN numeric_weights_tbl 0 + ascii_to_digit b * nthN numeric_weights_tbl 1 + ascii_to_digit d in
      (c, x, W_TRIPLE) :: numeric_pushes (push_bits c x W_TRIPLE) t
  | [a; b] => [(c, ascii_to_digit a * 10 + ascii_to_digit b, W_DOUBLE)]
  | [a] => [(c, ascii_to_digit a, W_SINGLE)]
  | [] => []
  end.
Fixpoint alnum_pushes (c : cq) (l : list N) : list (cq * N * N) :=
  match l with
  | a :: b :: t => let x := alnum_val a * alnum_mul + alnum_val b in (c, x, W_PAIR) :: alnum_pushes (push_bits c x W_PAIR) t
  | [a] => [(c, alnum_val a, W_LAST)]
  | [] => []
  end.
Definition segment_pushes (c : cq) (m : mode) (input : list N) (cci : N) : list (cq * N * N) :=
  let c1 := push_bits c (fst (mode_indicator m)) (snd (mode_indicator m)) in
  let h := encode_header c m (N.of_nat (length input)) cci in
  (c, fst (mode_indicator m), snd (mode_indicator m)) :: (c1, N.of_nat (length input), cci) ::
  match m with Numeric => numeric_pushes h input | Alphanumeric => alnum_pushes h input | Byte => [] end.
Definition no_panic (p : cq * N * N) : Prop := push_bits_panics (fst (fst p)) (snd (fst p)) (snd p) = false.

Lemma numeric_pushes_ok l : forall c, Inv c -> Forall no_panic (numeric_pushes c l).
Proof.
  induction l as [| a | a b | a b d t IH] using list_ind3; intros c HI.
  - constructor.
  - constructor; [|constructor]. apply push_bits_no_panic; [exact HI | now vm_compute].
  - constructor; [|constructor]. apply push_bits_no_panic; [exact HI | now vm_compute].
  - change (numeric_pushes c (a :: b :: d :: t)) with
      ((c, ascii_to_digit a * 100 + ascii_to_digit b * 10 + ascii_to_digit d, 10)
       :: numeric_pushes (push_bits c (ascii_to_digit a * 100 + ascii_to_digit b * 10 + ascii_to_digit d) 10) t).
    constructor.
    + apply push_bits_no_panic; [exact HI | now vm_compute].
    + apply IH. apply push_bits_gen; [exact HI | now vm_compute].
Qed.

Lemma alnum_pushes_ok l : forall c, Inv c -> Forall no_panic (alnum_pushes c l).
Proof.
  induction l as [| a | a b t IH] using list_ind2; intros c HI.
  - constructor.
  - constructor; [|constructor]. apply push_bits_no_panic; [exact HI | now vm_compute].
  - change (alnum_pushes c (a :: b :: t)) with
      ((c, alnum_val a * 45 + alnum_val b, 11) :: alnum_pushes (push_bits c (alnum_val a * 45 + alnum_val b) 11) t).
    constructor.
    + apply push_bits_no_panic; [exact HI | now vm_compute].
    + apply IH. apply push_bits_gen; [exact HI | now vm_compute].
Qed.

Theorem segment_pushes_ok c m input cci : Inv c -> cci <= 64 -> Forall no_panic (segment_pushes c m input cci).
Proof.
  intros HI Hc. unfold segment_pushes. rewrite mode_indicator_iso. cbn [fst snd].
  assert (I1 : Inv (push_bits c (iso_mode_indicator (mode_idx m)) 4)) by (apply push_bits_gen; [exact HI | lia]).
  assert (I2 : Inv (encode_header c m (N.of_nat (length input)) cci)).
  { unfold encode_header. rewrite mode_indicator_iso. cbn [fst snd]. apply push_bits_gen; [exact I1 | exact Hc]. }
  constructor; [unfold no_panic; cbn [fst snd]; apply push_bits_no_panic; [exact HI | lia]|].
  constructor; [unfold no_panic; cbn [fst snd]; apply push_bits_no_panic; [exact I1 | exact Hc]|].
  destruct m; [now apply numeric_pushes_ok | now apply alnum_pushes_ok | constructor].
Qed.

(* ------------------------------------------------------------------ terminator, padding, fill *)
(* the tail of iso_codewords as a function of the data-codeword count and the segment bits *)
Definition iso_finish (d : nat) (seg : list bool) : list N :=
  let term := repeat false (Nat.min 4 (8 * d - length seg)) in
  let s1 := seg ++ term in
  let s2 := s1 ++ repeat false ((8 - length s1 mod 8) mod 8) in
  let bytes := bits_bytes s2 in
  bytes ++ iso_pads (d - length bytes) true.

Lemma iso_codewords_finish m v l input :
  iso_codewords m v l input = iso_finish (iso_data_codewords v l) (iso_segment_bits m v input).
Proof. reflexivity. Qed.

Definition finish (c : cq) (dbits : N) : cq := fill (pad_to_8 (add_terminator c dbits)).

Lemma finish_spec c D MB seg :
  Inv c -> bits_of c = seg -> dlen c = 8 * MB -> 0 < MB -> N.of_nat D <= MB -> (length seg <= 8 * D)%nat ->
  add_terminator_panics c (N.of_nat D * 8) = false /\
  Inv (finish c (N.of_nat D * 8)) /\
  length (cdata (finish c (N.of_nat D * 8))) = length (cdata c) /\
  firstn D (cdata (finish c (N.of_nat D * 8))) = iso_finish D seg /\
  push_bits_panics c 0 (N.min (N.of_nat D * 8 - clen c) terminator_max) = false /\
  push_bits_panics (add_terminator c (N.of_nat D * 8)) 0 ((8 - clen (add_terminator c (N.of_nat D * 8)) mod 8) mod 8) = false /\
  fill_panics (pad_to_8 (add_terminator c (N.of_nat D * 8))) = false.
Proof.
  intros HI Hseg Hk HMB HD Hlen. unfold finish.
  assert (Hcl : clen c = N.of_nat (length seg)).
  { rewrite <- Hseg, (bits_of_length c HI). lia. }
  set (Ls := length seg) in *.
  (* terminator *)
  set (tl := N.min (N.of_nat D * 8 - clen c) terminator_max).
  set (tn := Nat.min 4 (8 * D - Ls)).
  assert (Htl : N.to_nat tl = tn) by (subst tl tn; change terminator_max with 4; lia).
  assert (Htl4 : tl <= 4) by (subst tl; change terminator_max with 4; lia).
  set (c2 := add_terminator c (N.of_nat D * 8)).
  assert (E2 : Ext c c2 (repeat false tn)).
  { subst c2. unfold add_terminator. fold tl. rewrite <- Htl, <- be_bits_0.
    apply push_bits_Ext; [exact HI | lia | rewrite Hk, Hcl; lia]. }
  assert (P2 : push_bits_panics c 0 tl = false) by (apply push_bits_no_panic; [exact HI | lia]).
  assert (P1 : add_terminator_panics c (N.of_nat D * 8) = false).
  { unfold add_terminator_panics. apply N.ltb_ge. lia. }
  clearbody c2. destruct E2 as (I2 & B2 & L2 & D2). rewrite repeat_length in L2. rewrite Hseg in B2.
  assert (K2 : dlen c2 = 8 * MB) by (unfold dlen in *; now rewrite D2).
  set (s1 := seg ++ repeat false tn) in *.
  assert (Hs1 : length s1 = (Ls + tn)%nat) by (subst s1; now rewrite app_length, repeat_length).
  (* pad to a byte boundary *)
  set (pn := ((8 - length s1 mod 8) mod 8)%nat).
  set (pN := (8 - clen c2 mod 8) mod 8).
  assert (HpN : N.to_nat pN = pn) by (subst pN pn; rewrite L2, Hcl, Hs1; lia).
  set (c3 := pad_to_8 c2).
  assert (E3 : Ext c2 c3 (repeat false pn)).
  { subst c3. unfold pad_to_8. fold pN. rewrite <- HpN, <- be_bits_0.
    apply push_bits_Ext; [exact I2 | subst pN; lia | rewrite K2, L2, Hcl; subst pN tn; lia]. }
  assert (P3 : push_bits_panics c2 0 pN = false) by (apply push_bits_no_panic; [exact I2 | subst pN; lia]).
  clearbody c3. destruct E3 as (I3 & B3 & L3 & D3). rewrite repeat_length in L3. rewrite B2 in B3.
  assert (K3 : dlen c3 = 8 * MB) by (unfold dlen in *; now rewrite D3).
  set (s2 := s1 ++ repeat false pn) in *.
  assert (Hs2 : length s2 = (Ls + tn + pn)%nat) by (subst s2; now rewrite app_length, repeat_length, Hs1).
  set (mm := ((Ls + tn + pn) / 8)%nat).
  assert (Hmm : (Ls + tn + pn = 8 * mm)%nat) by (subst mm pn; rewrite Hs1; clear; lia).
  assert (HmmD : (mm <= D)%nat) by (subst mm pn tn; rewrite Hs1; clear - Hlen; lia).
  assert (Hc3 : clen c3 = 8 * N.of_nat mm) by (rewrite L3, L2, Hcl; clear - Hmm; lia).
  (* fill *)
  assert (Hfc : fill_count c3 = (N.to_nat MB - mm)%nat).
  { unfold fill_count. rewrite K3, Hc3. clear - HmmD HD. lia. }
  set (fc := (N.to_nat MB - mm)%nat) in *.
  set (c4 := fill c3).
  assert (E4 : Ext c3 c4 (bytes_bits (iso_pads fc true))).
  { subst c4. rewrite <- Hfc. apply fill_Ext; [exact I3|]. rewrite Hfc, K3, Hc3. subst fc. clear - HmmD HD HMB. lia. }
  assert (P4 : fill_panics c3 = false).
  { unfold fill_panics. rewrite Hc3. replace (8 * N.of_nat mm mod 8) with 0 by (clear; lia). reflexivity. }
  clearbody c4. destruct E4 as (I4 & B4 & L4 & D4).
  rewrite bytes_bits_length, iso_pads_length in L4. rewrite B3 in B4.
  assert (Hc4 : clen c4 = 8 * N.of_nat (mm + fc)) by (rewrite L4, Hc3; clear; lia).
  split; [exact P1|]. split; [exact I4|]. split; [now rewrite D4, D3, D2|].
  split; [|split; [exact P2 | split; [exact P3 | exact P4]]].
  (* the bytes *)
  pose proof (firstn_cdata c4 (mm + fc) I4 Hc4) as Hbytes. rewrite B4 in Hbytes.
  rewrite (bits_bytes_app_k mm) in Hbytes by (rewrite Hs2; exact Hmm).
  rewrite bits_bytes_bytes_bits in Hbytes by apply iso_pads_bytes.
  assert (Hlb : length (bits_bytes s2) = mm) by (apply bits_bytes_length_k; rewrite Hs2; exact Hmm).
  replace (firstn D (cdata c4)) with (firstn D (firstn (mm + fc) (cdata c4))).
  2:{ rewrite firstn_firstn. f_equal. subst fc. clear - HmmD HD. lia. }
  rewrite Hbytes, firstn_app, Hlb.
  rewrite (firstn_all2 (bits_bytes s2)) by (rewrite Hlb; exact HmmD).
  rewrite firstn_iso_pads by (subst fc; clear - HmmD HD; lia).
  unfold iso_finish. fold Ls. fold tn. fold s1. fold pn. fold s2. rewrite Hlb. reflexivity.
Qed.

(* ------------------------------------------------------------------ encode = ISO 7.4 data codewords (C06) *)
Lemma iso_cci_le m v : (iso_cci m v <= 16)%nat.
Proof.
  unfold iso_cci. destruct m as [|[|m]];
    repeat match goal with |- context [if ?b then _ else _] => destruct b end; lia.
Qed.

Lemma encode_unfold input e m v :
  encode input e m v = finish (encode_segment (from_version v) m input (cci_bits v m)) (data_bits v e).
Proof. cbv beta zeta delta [encode finish]. reflexivity. Qed.

(* all the facts at once; hypotheses: version in range, input consists of bytes, the ISO capacity test holds *)
Theorem encode_is_iso_strong m e v input :
  (v < 40)%nat -> Forall (fun b => (b < 256)%N) input ->
  iso_fits (mode_idx m) (ecl_idx e) (N.of_nat (length input)) v = true ->
  let c1 := encode_segment (from_version v) m input (cci_bits v m) in
  Inv c1 /\ bits_of c1 = iso_segment_bits (mode_idx m) v input /\
  add_terminator_panics c1 (data_bits v e) = false /\
  Inv (encode input e m v) /\
  length (cdata (encode input e m v)) = N.to_nat (max_bytes v * 8) /\
  firstn (iso_data_codewords v (ecl_idx e)) (cdata (encode input e m v)) = iso_codewords (mode_idx m) v (ecl_idx e) input /\
  (* debug-build panics of the bit buffer do not fire *)
  Forall no_panic (segment_pushes (from_version v) m input (cci_bits v m)) /\
  push_bits_panics c1 0 (N.min (data_bits v e - clen c1) terminator_max) = false /\
  push_bits_panics (add_terminator c1 (data_bits v e)) 0 ((8 - clen (add_terminator c1 (data_bits v e)) mod 8) mod 8) = false /\
  fill_panics (pad_to_8 (add_terminator c1 (data_bits v e))) = false.
Proof.
  intros Hv Hin Hfit c1.
  set (D := iso_data_codewords v (ecl_idx e)).
  pose proof (data_codewords_is_table9 v e Hv) as HD. fold D in HD.
  pose proof (cci_is_table3 m v Hv) as Hcci.
  pose proof (iso_cci_le (mode_idx m) v) as Hcci16.
  destruct (size_all v e Hv) as [HMB HDM].
  assert (Hdb : data_bits v e = N.of_nat D * 8).
  { unfold data_bits. change data_bits_mul with 8. rewrite <- HD. lia. }
  assert (Hseg : seg_bits m (cci_bits v m) input = iso_segment_bits (mode_idx m) v input).
  { unfold seg_bits, iso_segment_bits. now rewrite Hcci. }
  assert (Hlen : N.of_nat (length (iso_segment_bits (mode_idx m) v input)) <= 8 * N.of_nat D).
  { rewrite <- Hseg, seg_bits_length. unfold iso_fits, iso_need, iso_capacity_bits in Hfit. fold D in Hfit.
    apply N.leb_le in Hfit. rewrite <- Hcci in Hfit. rewrite N2Nat.id in Hfit. exact Hfit. }
  destruct (from_version_Inv v) as [I0 B0].
  pose proof (from_version_dlen v) as K0. change compact_alloc_mul with 8 in K0.
  assert (L0 : clen (from_version v) = 0) by reflexivity.
  assert (E1 : Ext (from_version v) c1 (seg_bits m (cci_bits v m) input)).
  { subst c1. apply encode_segment_Ext; [exact I0 | exact Hin | lia |].
    rewrite L0, K0, Hseg. lia. }
  assert (S1 : Forall no_panic (segment_pushes (from_version v) m input (cci_bits v m))).
  { apply segment_pushes_ok; [exact I0 | lia]. }
  rewrite encode_unfold. fold c1. clearbody c1.
  destruct E1 as (I1 & B1 & _ & D1). rewrite B0, Hseg in B1. cbn [app] in B1.
  assert (K1 : dlen c1 = 8 * max_bytes v) by (unfold dlen in *; rewrite D1, K0; lia).
  rewrite Hdb.
  destruct (finish_spec c1 D (max_bytes v) _ I1 B1 K1 HMB) as (P1 & I4 & D4 & Hcw & P2 & P3 & P4); [lia | lia |].
  split; [exact I1|]. split; [exact B1|]. split; [exact P1|]. split; [exact I4|].
  split; [rewrite D4; unfold dlen in K1; lia|].
  split; [rewrite Hcw; symmetry; apply iso_codewords_finish|].
  split; [exact S1|]. split; [exact P2|]. split; [exact P3 | exact P4].
Qed.

(* Property C06 *)
Theorem encode_is_iso : forall m e v input,
  (v < 40)%nat -> alphabet_ok m input = true -> Forall (fun b => (b < 256)%N) input ->
  iso_fits (mode_idx m) (ecl_idx e) (N.of_nat (length input)) v = true ->
  (N.of_nat (length input) < 2 ^ N.of_nat (iso_cci (mode_idx m) v))%N ->
  encode_panic input e m v = None /\
  firstn (iso_data_codewords v (ecl_idx e)) (cdata (encode input e m v)) = iso_codewords (mode_idx m) v (ecl_idx e) input.
Proof.
  intros m e v input Hv Hok Hin Hfit _.
  destruct (encode_is_iso_strong m e v input Hv Hin Hfit) as (_ & _ & P1 & _ & _ & Hcw & _).
  split; [|exact Hcw].
  unfold encode_panic. rewrite Hok. cbn [negb]. rewrite P1. reflexivity.
Qed.
