(* C11 at the level of build: with no mask forced, the emitted mask minimises the documented penalty over the eight
   candidates obtained by masking the same placed matrix. *)
From Coq Require Import NArith List Bool Arith Lia.
From FQ Require Import Lib.ListX Lib.Mat Generated.Tables Model.Types Model.Hardcode Model.Default Model.Masking
  Model.Score Model.Placement Model.Qr Spec.Iso Spec.Penalty
  Proofs.Tables Proofs.GeomSafe Proofs.Stages Proofs.Plans Proofs.Final Proofs.BuildMatrix Proofs.Scanner Proofs.ScoreSpec.
Import ListNotations.

Definition placed_matrix (v : nat) (bytes : list N) : qmat := fst (place_data (version_size v) (blank v) bytes).

Lemma types_eq_of_same n (a b : qmat) : wf n a -> wf n b -> same_types n a b -> types a = types b.
Proof.
  intros [La Fa] [Lb Fb] H. unfold types.
  apply nth_ext with (d := map fst (@nil cell)) (d' := map fst (@nil cell)).
  - rewrite !map_length. transitivity n; [exact La | symmetry; exact Lb].
  - intros r Hr. rewrite map_length in Hr. rewrite !map_nth.
    assert (Hr' : r < n) by (rewrite <- La; exact Hr).
    assert (Ra : length (nth r a []) = n) by (apply (wf_row n a r); [split; auto | auto]).
    assert (Rb : length (nth r b []) = n) by (apply (wf_row n b r); [split; auto | auto]).
    apply nth_ext with (d := fst dflt_cell) (d' := fst dflt_cell).
    + rewrite !map_length. transitivity n; [exact Ra | symmetry; exact Rb].
    + intros c Hc. rewrite map_length in Hc. rewrite !map_nth. apply (H r c Hr'). rewrite <- Ra. exact Hc.
Qed.

Theorem placed_facts v bytes : v < 40 ->
  let n := version_size v in
  let P := placed_matrix v bytes in
  wf n P /\ n <= 177 /\ layout_col01 P /\ 1 < n /\ is_data (qget P 1 1) = false /\ snd (qget P 1 1) = false.
Proof.
  intros Hv n P.
  destruct (place_facts v EL 0 bytes Hv ltac:(lia)) as (W & ST & _ & PG). fold n in W, ST, PG. fold (placed_matrix v bytes) in W, ST, PG. fold P in W, ST, PG.
  assert (Hn : 21 <= n <= 177) by (unfold n, version_size; cbv [size_mul size_add]; lia).
  destruct (blank_light v Hv) as [L1 L2].
  assert (HP11 : qget P 1 1 = qget (blank v) 1 1).
  { rewrite PG by lia. destruct (index_of (1, 1) (iso_data_coords v)) as [j|] eqn:E; [|reflexivity].
    exfalso. destruct (place_plan v Hv) as (Hvis & _ & _).
    assert (Hin : In (1, 1) (iso_data_coords v)).
    { clear -E. revert j E. induction (iso_data_coords v) as [|p t IH]; intros j E; [discriminate|].
      cbn [index_of] in E. destruct (coord_eqb_spec p (1, 1)) as [->|NE]; [now left|].
      right. destruct (index_of (1, 1) t) as [j'|]; [eapply IH; eauto | discriminate]. }
    rewrite <- Hvis in Hin. unfold data_visits in Hin. apply filter_In in Hin as [_ Hd]. cbn [fst snd] in Hd. congruence. }
  split; [exact W|]. split; [lia|]. split.
  - apply (layout_col01_types (blank v)); [|apply blank_col01, Hv].
    symmetry. apply (types_eq_of_same n); auto. apply blank_wf.
  - split; [lia|]. rewrite HP11. auto.
Qed.

Theorem build_mask_minimal input o q : options_wf o -> o_mask o = None -> build input o = Ok q ->
  let v := q_version q in
  let n := version_size v in
  let P := placed_matrix v (stream_of input (q_ecl q) (q_mode q) v) in
  q_mask q = select_mask n P /\ q_mask q < 8 /\
  q_mat q = apply_mask n (place_format n P (q_ecl q) (q_mask q)) (q_mask q) /\
  forall j, j < 8 ->
    (iso_penalty (map (map pc) (apply_mask n P (q_mask q))) <= iso_penalty (map (map pc) (apply_mask n P j)))%N.
Proof.
  intros W Hm H. cbn zeta.
  destruct (build_ok_matrix input o q W H) as (Hv & Hk & Hs & Hmode & Hecl & Hres & Hep & Hmat).
  assert (Hsel : q_mask q = select_mask (version_size (q_version q)) (placed_matrix (q_version q) (stream_of input (q_ecl q) (q_mode q) (q_version q)))).
  { unfold build, build_with in H. rewrite Hres in H. unfold build_matrix in H. rewrite Hep in H.
    destruct (negb (config_safe (q_version q) (q_ecl q))); [discriminate|].
    unfold place_on_matrix in H. rewrite Hm in H. apply (f_equal (fun r => match r with Ok x => q_mask x | _ => 0 end)) in H.
    cbn [q_mask] in H. symmetry. exact H. }
  split; [exact Hsel|]. split; [exact Hk|]. split; [exact Hmat|].
  intros j Hj. destruct (placed_facts (q_version q) (stream_of input (q_ecl q) (q_mode q) (q_version q)) Hv) as (Wf & Hn & Hlay & H1 & Hd & Hl).
  destruct (select_mask_iso_argmin _ _ 1 1 Wf Hn Hlay H1 H1 Hd Hl) as [_ Hmin].
  rewrite Hsel. apply Hmin. rewrite masks_order_eq. repeat (destruct j as [|j]; [cbn; tauto|]). lia.
Qed.
