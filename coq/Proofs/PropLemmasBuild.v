(* Short compositions used by property files whose closure should stay small (no plan checks needed). *)
From Coq Require Import NArith List Bool Arith Lia.
From FQ Require Import Model.Types Model.Encode Model.Qr Spec.Iso Proofs.Build.
Import ListNotations.

Lemma build_uses_it_c09 : forall input o q, o_mode o = None -> build input o = Ok q -> q_mode q = best_encoding input.
Proof. intros input o q Hm H. destruct (build_ok_fields input o q H) as (A & _). rewrite A. unfold eff_mode. now rewrite Hm. Qed.

Lemma forced_mask_c11 : forall input o q k, o_mask o = Some k -> build input o = Ok q -> q_mask q = k.
Proof. intros input o q k Hk H. now apply (proj2 (proj2 (proj2 (proj2 (proj2 (build_ok_fields input o q H)))))). Qed.

Lemma default_level_is_Q_c04 : forall o, o_ecl o = None -> eff_level o = EQ.
Proof. intros o H. unfold eff_level. now rewrite H. Qed.

