(* From `build input o = Ok q` to the characterised final matrix: the version is below 40, the mask below 8, and
   q_mat q is placement + format + mask applied to the blank symbol with the structured stream. *)
From Coq Require Import NArith List Bool Arith Lia.
From FQ Require Import Lib.ListX Lib.Mat Generated.Tables Model.Types Model.Hardcode Model.Compact Model.Encode Model.Poly
  Model.Default Model.Masking Model.Score Model.Placement Model.Qr Spec.Iso
  Proofs.Tables Proofs.GeomSafe Proofs.VersionGet Proofs.Build Proofs.Stages Proofs.Plans Proofs.Final.
Import ListNotations.

(* options as the Rust types allow them: a Version is one of 40, a Mask one of 8 *)
Definition options_wf (o : options) : Prop :=
  (forall v, o_version o = Some v -> v < 40) /\ (forall k, o_mask o = Some k -> k < 8).

Lemma masks_order_is : masks_order = seq 0 8.
Proof. reflexivity. Qed.

Lemma select_mask_in n m : In (select_mask n m) masks_order.
Proof.
  unfold select_mask.
  assert (G : forall l st, In (snd st) masks_order -> (forall x, In x l -> In x masks_order) ->
              In (snd (fold_left (select_step n m) l st)) masks_order).
  { induction l as [|x l IH]; intros st Hst Hl; cbn [fold_left]; [exact Hst|].
    apply IH; [|intros y Hy; apply Hl; now right].
    unfold select_step. destruct (_ <? _)%N; cbn [snd]; [apply Hl; now left | exact Hst]. }
  apply G; [|auto]. cbn [snd]. rewrite masks_order_is. cbn. now left.
Qed.

Lemma select_mask_lt n m : select_mask n m < 8.
Proof. pose proof (select_mask_in n m) as H. rewrite masks_order_is in H. apply in_seq in H. lia. Qed.

Lemma resolve_ok input o m e v : options_wf o -> resolve input o = Ok (m, e, v) ->
  v < 40 /\ m = eff_mode input o /\ e = eff_level o /\
  exists vmin, version_get m e (N.of_nat (length input)) = Some vmin /\ vmin <= v /\
               (o_version o = None -> v = vmin).
Proof.
  intros [Wv _] H. unfold resolve in H. fold (eff_mode input o) in H. fold (eff_level o) in H.
  destruct (version_get (eff_mode input o) (eff_level o) (N.of_nat (length input))) as [vmin|] eqn:G; [|discriminate].
  assert (Hvmin : vmin < 40).
  { rewrite version_get_is_min in G. now destruct (min_version_spec _ _ _ _ G). }
  destruct (o_version o) as [uv|] eqn:Eu.
  - destruct (vmin <=? uv) eqn:L; [|discriminate]. inversion H; subst. apply Nat.leb_le in L.
    repeat split; auto. exists vmin. repeat split; auto. discriminate.
  - inversion H; subst. repeat split; auto. exists v. repeat split; auto.
Qed.

(* the bytes handed to placement *)
Definition stream_of (input : list N) (e : ecl) (m : mode) (v : nat) : list N :=
  structure_buffer (cdata (encode input e m v)) e v.

Definition final_matrix (v : nat) (e : ecl) (k : nat) (bytes : list N) : qmat :=
  let n := version_size v in
  apply_mask n (place_format n (fst (place_data n (blank v) bytes)) e k) k.

Theorem build_ok_matrix input o q : options_wf o -> build input o = Ok q ->
  q_version q < 40 /\ q_mask q < 8 /\ q_size q = version_size (q_version q) /\
  q_mode q = eff_mode input o /\ q_ecl q = eff_level o /\
  resolve input o = Ok (q_mode q, q_ecl q, q_version q) /\
  encode_panic input (q_ecl q) (q_mode q) (q_version q) = None /\
  q_mat q = final_matrix (q_version q) (q_ecl q) (q_mask q) (stream_of input (q_ecl q) (q_mode q) (q_version q)).
Proof.
  intros W H. unfold build, build_with in H.
  destruct (resolve input o) as [[[m e] v]| | |c] eqn:R; try discriminate.
  destruct (resolve_ok input o m e v W R) as (Hv & Hm & He & _).
  unfold build_matrix in H. destruct (encode_panic input e m v) eqn:EP; [discriminate|].
  destruct (negb (config_safe v e)); [discriminate|].
  unfold place_on_matrix in H.
  set (n := version_size v) in *.
  set (placed := fst (place_data n (blank v) (structure_buffer (cdata (encode input e m v)) e v))) in *.
  set (best := match o_mask o with Some k => k | None => select_mask n placed end) in *.
  assert (Hb : best < 8).
  { unfold best. destruct (o_mask o) as [k|] eqn:Ek; [apply (proj2 W k Ek) | apply select_mask_lt]. }
  inversion H; subst q; cbn [q_version q_mask q_size q_mode q_ecl q_mat].
  repeat split; auto.
Qed.

Lemma final_matrix_wf v e k bytes : v < 40 -> k < 8 -> wf (version_size v) (final_matrix v e k bytes).
Proof. intros Hv Hk. apply final_wf; auto. Qed.
