(* C18: the frame and the image computed by SvgBuilder::image (Model/Svg.image_geometry), in exact arithmetic
   (fixed point: fx = thousandths; overrides are given in hundredths).
   Defaults: for all 40 versions x 3 background shapes (by computation) and EVERY margin (generically) the frame is a
   square of integer side b at the integer offset x = (n + 2 margin - b) / 2, centred on the symbol, clear of the finder
   patterns and separators; the parity adjustment never fires; the image is not larger than the frame and is centred.
   Overrides: for all sizes, gaps and positions (any counts of hundredths): image side = requested size;
   frame = size + 2 gap (or size + the default gap), minus 1 exactly when the parity adjustment fires; frame centred on
   the requested position, else on the symbol; image centred in the frame. *)
From Coq Require Import NArith ZArith List Bool Arith Lia.
From Coq Require Import ZifyBool ZifyNat ZifyN.
From FQ Require Import Lib.ListX Lib.Mat Generated.Tables Model.Types Model.Hardcode Model.Svg.
Import ListNotations.
Ltac Zify.zify_post_hook ::= Z.to_euclidean_division_equations.
Arguments N.add : simpl never. Arguments N.sub : simpl never. Arguments N.mul : simpl never.
Arguments N.eqb : simpl never. Arguments N.ltb : simpl never. Arguments N.leb : simpl never.
Arguments N.div : simpl never. Arguments N.modulo : simpl never.
Arguments Z.add : simpl never. Arguments Z.sub : simpl never. Arguments Z.mul : simpl never.
Arguments Z.div : simpl never. Arguments Z.rem : simpl never. Arguments Z.eqb : simpl never. Arguments Z.ltb : simpl never.
Local Open Scope Z_scope.

Definition all_ishapes : list ishape := [ISquare; ICircle; IRoundedSquare].

(* the default frame side and image side, in modules *)
Definition frame_side (v : nat) : Z := Z.of_N (nthN svg_square_tbl v).
Definition image_side (s : ishape) (v : nat) : Z := snd (image_placement s v) / 1000.
Definition sym_size (v : nat) : Z := Z.of_nat (version_size v).

(* ------------------------------------------------------------------------------------------------------------ *)
(* finite facts: 40 versions x 3 shapes                                                                          *)

Definition placement_fact (v : nat) (s : ishape) : bool :=
  let b := frame_side v in
  let i := image_side s v in
  let n := sym_size v in
  (fst (image_placement s v) =? 1000 * b) && (snd (image_placement s v) =? 1000 * i)   (* both are whole modules *)
  && Z.odd b && Z.odd n                                                                  (* so n - b is even *)
  && (5 * b <? 2 * n)                                                                    (* b < 2n/5 *)
  && (b + 16 <=? n)                                                                      (* 8 modules on each side *)
  && (1 <=? i) && (i <=? b).                                                             (* the image fits in the frame *)

Lemma placement_facts_check :
  forallb (fun v => forallb (placement_fact v) all_ishapes) (seq 0 40) = true.
Proof. vm_compute. reflexivity. Qed.

Lemma frame_monotone_check : forallb (fun v => frame_side v <=? frame_side (S v)) (seq 0 39) = true.
Proof. vm_compute. reflexivity. Qed.

Lemma ishape_in s : In s all_ishapes.
Proof. destruct s; cbn; auto. Qed.

Lemma placement_fact_all v s : (v < 40)%nat -> placement_fact v s = true.
Proof.
  intros H. pose proof placement_facts_check as C. rewrite forallb_forall in C.
  specialize (C v). rewrite in_seq in C. specialize (C ltac:(lia)). rewrite forallb_forall in C.
  apply C, ishape_in.
Qed.

Record default_facts (v : nat) (s : ishape) : Prop := {
  df_placement : image_placement s v = (1000 * frame_side v, 1000 * image_side s v);
  df_b_odd : Z.odd (frame_side v) = true;
  df_n_odd : Z.odd (sym_size v) = true;
  df_small : 5 * frame_side v < 2 * sym_size v;
  df_clear : frame_side v + 16 <= sym_size v;
  df_image_pos : 1 <= image_side s v;
  df_image_fits : image_side s v <= frame_side v;
}.

Lemma default_facts_all v s : (v < 40)%nat -> default_facts v s.
Proof.
  intros H. pose proof (placement_fact_all v s H) as F. unfold placement_fact in F.
  repeat (apply andb_prop in F as [F ?]).
  constructor; try assumption; try lia.
  remember (image_side s v) as iv. destruct (image_placement s v) as [b i]. cbn [fst snd] in *. f_equal; lia.
Qed.

(* the frame side does not decrease with the version *)
Theorem frame_side_monotone v : (v < 39)%nat -> frame_side v <= frame_side (S v).
Proof.
  intros H. pose proof frame_monotone_check as C. rewrite forallb_forall in C.
  specialize (C v). rewrite in_seq in C. specialize (C ltac:(lia)). lia.
Qed.

(* ------------------------------------------------------------------------------------------------------------ *)
(* defaults, every margin                                                                                        *)

Definition no_overrides (c : cfg) : Prop :=
  c_image_size c = None /\ c_image_gap c = None /\ c_image_position c = None.

(* the offset of the frame: x = (n + 2 margin - b) / 2, an integer *)
Definition frame_offset (c : cfg) (v : nat) : Z := (sym_size v + 2 * Z.of_N (c_margin c) - frame_side v) / 2.

Theorem default_geometry c v : (v < 40)%nat -> no_overrides c ->
  let s := c_image_background_shape c in
  image_geometry c (N.of_nat (version_size v)) v =
    (1000 * frame_offset c v, 1000 * frame_offset c v, 1000 * frame_side v, 1000 * image_side s v)
  /\ 2 * frame_offset c v + frame_side v = sym_size v + 2 * Z.of_N (c_margin c).
Proof.
  intros Hv (Hs & Hg & Hp) s. destruct (default_facts_all v s Hv) as [Pl Bo No _ Cl _ _].
  unfold image_geometry. fold s. rewrite Pl, Hs, Hg, Hp. unfold frame_offset, fx_of_N.
  set (b := frame_side v) in *. set (n := sym_size v) in *. set (m := Z.of_N (c_margin c)).
  replace (Z.of_N (c_margin c * 2 + N.of_nat (version_size v))) with (2 * m + n) by (unfold m, n, sym_size; lia).
  rewrite Z.odd_spec in Bo, No. destruct Bo as [j Hj]. destruct No as [k Hk].
  assert (E : Z.rem (1000 * (2 * m + n) - 1000 * b) 2000 = 0) by lia.
  rewrite E. cbn [Z.eqb]. change (0 =? 0) with true. cbv iota.
  split; [|lia]. repeat (f_equal; try lia).
Qed.

(* centred on the symbol, and clear of the finder patterns and their separators (8 modules from each edge) *)
Theorem default_frame_clear c v : (v < 40)%nat ->
  let x := frame_offset c v in
  let m := Z.of_N (c_margin c) in
  m + 8 <= x /\ x + frame_side v <= m + sym_size v - 8
  /\ 2 * x + frame_side v = 2 * m + sym_size v                        (* centre of the frame = centre of the symbol *)
  /\ 5 * frame_side v < 2 * sym_size v.
Proof.
  intros Hv x m. destruct (default_facts_all v ISquare Hv) as [_ Bo No Sm Cl _ _].
  unfold x, frame_offset. fold m. rewrite Z.odd_spec in Bo, No. destruct Bo as [j Hj]. destruct No as [k Hk].
  repeat split; lia.
Qed.

(* the image: not larger than the frame, and centred in it (the printed coordinate is px + (border - image) / 2) *)
Theorem default_image_centred c v : (v < 40)%nat ->
  let s := c_image_background_shape c in
  let b := 1000 * frame_side v in
  let i := 1000 * image_side s v in
  let px := 1000 * frame_offset c v in
  1 <= image_side s v <= frame_side v /\ 2 * (px + (b - i) / 2) + i = 2 * px + b.
Proof.
  intros Hv s b i px. destruct (default_facts_all v s Hv) as [_ _ _ _ _ Ip If]. unfold b, i. split; lia.
Qed.

(* ------------------------------------------------------------------------------------------------------------ *)
(* overrides: any size, gap, position (hundredths), any margin, any shape                                        *)

(* the image side and the frame side requested, before the parity adjustment *)
Definition requested_image (c : cfg) (v : nat) : fx :=
  match c_image_size c with
  | Some s => 10 * s
  | None => snd (image_placement (c_image_background_shape c) v)
  end.
Definition requested_frame (c : cfg) (v : nat) : fx :=
  let '(b0, i0) := image_placement (c_image_background_shape c) v in
  match c_image_gap c with
  | Some g => requested_image c v + 10 * g * 2                  (* size + 2 gap *)
  | None =>
      match c_image_size c with
      | Some s => 10 * s + - (i0 - b0)                          (* size + the default gap on both sides *)
      | None => b0
      end
  end.
(* `placed_coord_x % 2 != 0` *)
Definition parity_fires (c : cfg) (n : N) (v : nat) : bool :=
  negb (Z.rem (1000 * Z.of_N (c_margin c * 2 + n) - requested_frame c v) 2000 =? 0).

Lemma placement_whole s v : exists b i, image_placement s v = (1000 * b, 1000 * i).
Proof.
  unfold image_placement, fx_of_N, fx_round.
  match goal with |- context [if ?t then _ else _] => destruct t end.
  - eexists. eexists. f_equal. rewrite <- Z.mul_opp_r. reflexivity.
  - eexists. eexists. reflexivity.
Qed.

Theorem override_geometry c n v px py b i :
  image_geometry c n v = (px, py, b, i) ->
  let total := 1000 * Z.of_N (c_margin c * 2 + n) in
  i = requested_image c v
  /\ b = (if parity_fires c n v then requested_frame c v - 1000 else requested_frame c v)
  /\ match c_image_position c with
     | Some (x, y) => 2 * px + b = 2 * (10 * x) /\ 2 * py + b = 2 * (10 * y)     (* centred on the requested position *)
     | None => 2 * px + b = total /\ py = px                                      (* centred on the symbol *)
     end
  /\ 2 * (px + (b - i) / 2) + i = 2 * px + b                                      (* image centred in the frame *)
  /\ 2 * (py + (b - i) / 2) + i = 2 * py + b.
Proof.
  unfold image_geometry, parity_fires, requested_frame, requested_image, fx_of_hundredths, fx_of_N.
  destruct (placement_whole (c_image_background_shape c) v) as (b0 & i0 & ->).
  set (tot := Z.of_N (c_margin c * 2 + n)).
  destruct (c_image_size c) as [s|]; destruct (c_image_gap c) as [g|]; cbn [snd];
    match goal with |- context [Z.rem ?x 2000 =? 0] => destruct (Z.rem x 2000 =? 0) eqn:E end;
    cbn [negb]; destruct (c_image_position c) as [[x y]|]; intros H; inversion H; subst; clear H;
    repeat split; lia.
Qed.

(* in words: the image has the requested side; the frame loses one module exactly when the parity adjustment fires *)
Corollary override_image_side c n v px py b i s :
  c_image_size c = Some s -> image_geometry c n v = (px, py, b, i) -> i = 10 * s.
Proof.
  intros Hs H. apply override_geometry in H as (Hi & _). rewrite Hi. unfold requested_image. now rewrite Hs.
Qed.

Corollary override_frame_side c n v px py b i s g :
  c_image_size c = Some s -> c_image_gap c = Some g -> image_geometry c n v = (px, py, b, i) ->
  b = 10 * s + 10 * g * 2 \/ b = 10 * s + 10 * g * 2 - 1000.
Proof.
  intros Hs Hg H. apply override_geometry in H as (_ & Hb & _). rewrite Hb.
  unfold requested_frame, requested_image. rewrite Hs, Hg.
  destruct (image_placement _ v). destruct (parity_fires c n v); auto.
Qed.

(* for the defaults the adjustment never fires *)
Corollary default_parity c v : (v < 40)%nat -> no_overrides c -> parity_fires c (N.of_nat (version_size v)) v = false.
Proof.
  intros Hv Hn. destruct (default_geometry c v Hv Hn) as [G _].
  pose proof (override_geometry c _ v _ _ _ _ G) as (_ & Hb & _).
  destruct Hn as (Hs & Hg & _). unfold requested_frame in Hb. rewrite Hs, Hg in Hb.
  destruct (default_facts_all v (c_image_background_shape c) Hv) as [Pl _ _ _ _ _ _]. rewrite Pl in Hb.
  destruct (parity_fires c _ v); [lia|reflexivity].
Qed.
