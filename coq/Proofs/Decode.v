(* C01 / C02 / C10 at the level of build: the reference decoder applied to a built symbol returns the input; the
   codeword stream read from the symbol is the structured stream; building never panics. *)
From Coq Require Import NArith List Bool Arith Lia.
From FQ Require Import Lib.ListX Lib.Mat Generated.Tables Model.Types Model.Hardcode Model.Compact Model.Encode Model.Poly
  Model.Default Model.Masking Model.Placement Model.Qr Spec.IsoTable9 Spec.Iso Spec.Gf Spec.Oracles
  Proofs.Tables Proofs.Geometry Proofs.GeomSafe Proofs.VersionGet Proofs.Build Proofs.Stages Proofs.Plans Proofs.Final
  Proofs.BuildMatrix Proofs.Readout Proofs.Regions Proofs.MaskPairs Proofs.Bits Proofs.Parse Proofs.BestEncoding
  Proofs.GfField Proofs.Division Proofs.Syndromes Proofs.InterleavePlan Proofs.Interleave Proofs.PushBits Proofs.EncodeIso Proofs.FormatInfo.
Import ListNotations.

(* ---------------------------------------------------------------- stream bits = bytes_bits *)
Lemma byte_bits_be w x : byte_bits w x = be_bits w x.
Proof. induction w as [|w IH]; [reflexivity|]. cbn [byte_bits be_bits]. now rewrite IH. Qed.
Lemma stream_bits_is_bytes_bits l : stream_bits l = bytes_bits l.
Proof.
  unfold stream_bits, bytes_bits. induction l as [|x l IH]; [reflexivity|].
  cbn [flat_map]. now rewrite IH, byte_bits_be.
Qed.

Lemma in_firstn {A} (x : A) k l : In x (firstn k l) -> In x l.
Proof. intros H. rewrite <- (firstn_skipn k l). apply in_or_app. now left. Qed.

(* ---------------------------------------------------------------- what build encodes *)
Section Built.
Variables (input : list N) (o : options) (q : qrcode).
Hypothesis W : options_wf o.
Hypothesis Hin : Forall (fun b => (b < 256)%N) input.
Hypothesis Hb : build input o = Ok q.
Let v := q_version q.
Let e := q_ecl q.
Let m := q_mode q.
Let k := q_mask q.
Let l := ecl_idx e.
Let D := iso_data_codewords v l.
Let data := cdata (encode input e m v).
Let S := structure data e v.
Let stream := stream_of input e m v.
Let F := final_matrix v e k stream.

Lemma built_basic : v < 40 /\ k < 8 /\ q_size q = version_size v /\ q_mat q = F /\
  encode_panic input e m v = None /\ resolve input o = Ok (m, e, v).
Proof.
  destruct (build_ok_matrix input o q W Hb) as (A & B & C & _ & _ & R & EP & M). repeat split; auto.
Qed.

Lemma built_fits : iso_fits (mode_idx m) l (N.of_nat (length input)) v = true /\
  (N.of_nat (length input) < 2 ^ N.of_nat (iso_cci (mode_idx m) v))%N /\ alphabet_ok m input = true.
Proof.
  destruct built_basic as (Hv & _ & _ & _ & EP & R).
  destruct (resolve_ok input o m e v W R) as (_ & _ & _ & vmin & G & Hle & _).
  destruct (forced_version_fits m e _ vmin v G ltac:(lia)) as [A B].
  split; [exact A|]. split; [exact B|].
  unfold encode_panic in EP. destruct (alphabet_ok m input); [reflexivity | discriminate].
Qed.

Lemma built_encode :
  Forall (fun b => (b < 256)%N) data /\ length data = N.to_nat (max_bytes v * 8) /\
  firstn D data = iso_codewords (mode_idx m) v l input /\ D <= length data.
Proof.
  destruct built_basic as (Hv & _). destruct built_fits as (Hf & _ & _).
  destruct (encode_is_iso_strong m e v input Hv Hin Hf) as (_ & _ & _ & I & L & E & _).
  destruct I as (Ib & _). fold data in Ib, L, E. fold l in E. fold D in E.
  split; [exact Ib|]. split; [exact L|]. split; [exact E|].
  rewrite L. pose proof (layout_is_table9 v e Hv) as LO. unfold layout_ok in LO. rewrite ecl_of_idx_idx in LO.
  destruct (ecc_groups e v) as [[[c1 s1] c2] s2]. fold l in LO. destruct (iso_layout v l) as [[[d1 g1] d2] g2] eqn:EL.
  repeat (apply andb_prop in LO as [LO ?]).
  match goal with H : (N.to_nat (max_bytes v) =? _) = true |- _ => apply Nat.eqb_eq in H; rename H into HT end.
  unfold D, iso_data_codewords. rewrite EL. unfold iso_data_codewords in HT. rewrite EL in HT. lia.
Qed.

Lemma structure_is_T : length S = iso_total_codewords v /\ Forall (fun b => (b < 256)%N) S.
Proof.
  destruct built_basic as (Hv & _). destruct built_encode as (Hd & _ & _ & HD).
  split.
  - unfold S. rewrite (structure_length v e data Hv HD).
    destruct (counts_from_geometry v Hv) as [C1 _].
    pose proof (layout_is_table9 v e Hv) as LO. unfold layout_ok in LO. rewrite ecl_of_idx_idx in LO.
    destruct (ecc_groups e v) as [[[c1 s1] c2] s2]. fold l. fold l in LO. destruct (iso_layout v l) as [[[d1 g1] d2] g2].
    repeat (apply andb_prop in LO as [LO ?]).
    match goal with H : (N.to_nat (max_bytes v) =? _) = true |- _ => apply Nat.eqb_eq in H; rename H into HT end.
    lia.
  - unfold S. rewrite (structure_shape v e data Hv HD). apply Forall_app. split.
    + apply Forall_forall. intros x Hx. apply in_map_iff in Hx as (idx & <- & _).
      destruct (Nat.lt_ge_cases idx (length data)) as [Hlt|Hge].
      * rewrite Forall_forall in Hd. apply Hd, nth_In, Hlt.
      * rewrite nth_overflow by exact Hge. lia.
    + unfold ec_interleave. apply Forall_forall. intros x Hx. apply in_flat_map in Hx as (j & _ & Hx).
      apply in_map_iff in Hx as (ecb & <- & Hecb). apply in_map_iff in Hecb as (r & <- & _).
      destruct (division_ec_length v e (slice data (fst r) (snd r)) Hv (Forall_slice _ _ _ _ Hd)) as [Ll Lb].
      destruct (Nat.lt_ge_cases j (length (division_ec (slice data (fst r) (snd r)) (get_polynomial v e)))) as [Hlt|Hge].
      * unfold bytes in Lb. rewrite Forall_forall in Lb. apply Lb, nth_In, Hlt.
      * rewrite nth_overflow by exact Hge. lia.
Qed.

(* the codeword sequence and the remainder bits the decoder reads *)
Theorem built_codewords :
  let bits := iso_unmasked_bits v k (vals (q_mat q)) in
  bits_bytes (firstn (8 * iso_total_codewords v) bits) = S /\
  Forall (fun b => b = false) (skipn (8 * iso_total_codewords v) bits).
Proof.
  destruct built_basic as (Hv & Hk & _ & HM & _). destruct structure_is_T as [LS BS]. cbn zeta.
  rewrite HM. unfold F. rewrite (readout v e k stream Hv Hk (coords_le_stream v input e m Hv)).
  rewrite stream_bits_is_bytes_bits.
  set (T := iso_total_codewords v) in *.
  assert (Hlen : length (iso_data_coords v) = 8 * T + iso_remainder_bits v).
  { unfold T, iso_total_codewords, iso_remainder_bits. apply Nat.div_mod. lia. }
  assert (Hstream : stream = S ++ repeat 0%N (N.to_nat interleave_buf - length S)).
  { reflexivity. }
  split.
  - rewrite firstn_firstn, Nat.min_l by lia. rewrite bytes_bits_firstn.
    rewrite Hstream, firstn_app, LS, Nat.sub_diag, firstn_O, app_nil_r, firstn_all2 by lia.
    now apply bits_bytes_bytes_bits.
  - rewrite Hlen. rewrite skipn_firstn_comm. replace (8 * T + iso_remainder_bits v - 8 * T) with (iso_remainder_bits v) by lia.
    rewrite bytes_bits_skipn, Hstream, skipn_app, LS, Nat.sub_diag, skipn_O, skipn_all2 by lia. cbn [app].
    apply Forall_forall. intros x Hx. apply in_firstn in Hx.
    assert (G : forall cnt, Forall (fun b => b = false) (bytes_bits (repeat 0%N cnt))).
    { induction cnt as [|cnt IH]; [constructor|]. cbn [repeat]. rewrite bytes_bits_cons. apply Forall_app. split; [|exact IH].
      repeat constructor. }
    specialize (G (N.to_nat interleave_buf - T)). rewrite Forall_forall in G. now apply G.
Qed.

(* C01 *)
Theorem built_decodes :
  iso_decode (vals (q_mat q)) =
  Some {| d_version := v; d_level := l; d_mask := k; d_segments := [(mode_idx m, input)] |}.
Proof.
  destruct built_basic as (Hv & Hk & Hs & HM & _). destruct built_fits as (Hf & Hc & Ha).
  destruct built_encode as (Hd & _ & HE & HD). destruct built_codewords as [CW _]. cbn zeta in CW.
  destruct (build_format_info input o q W Hb) as (F1 & _ & F3 & _). cbn zeta in F1, F3. fold e l k in F1, F3.
  unfold iso_decode.
  assert (Hn : length (vals (q_mat q)) = version_size v).
  { rewrite vals_length, HM. destruct (final_matrix_wf v e k stream Hv Hk) as [Hl _]. exact Hl. }
  rewrite Hn.
  assert (Hvs : version_size v = 4 * v + 21) by (unfold version_size; cbv [size_mul size_add]; lia).
  assert (Hguard : negb ((21 <=? version_size v) && (version_size v <=? 177) && ((version_size v - 17) mod 4 =? 0)) = false).
  { rewrite Hvs. replace (4 * v + 21 - 17) with ((v + 1) * 4) by lia. rewrite Nat.mod_mul by lia.
    destruct (Nat.leb_spec 21 (4 * v + 21)), (Nat.leb_spec (4 * v + 21) 177); first [lia | reflexivity]. }
  rewrite Hguard.
  assert (Hv' : (version_size v - 21) / 4 = v) by (rewrite Hvs; replace (4 * v + 21 - 21) with (v * 4) by lia; apply Nat.div_mul; lia).
  rewrite Hv'. rewrite F1, F3.
  fold v k in CW. rewrite CW.
  unfold S, l. rewrite (deinterleave_data_spec v e data Hv HD). fold l. fold D. rewrite HE.
  assert (Hcs : match mode_idx m with
                | 0 => forallb iso_is_digit input = true
                | 1 => forallb iso_is_alnum input = true
                | _ => Forall (fun b => (b < 256)%N) input end).
  { destruct m; cbn [mode_idx alphabet_ok] in *.
    - apply forallb_forall. intros c Hc'. rewrite forallb_forall in Ha. rewrite <- is_ascii_digit_iso. now apply Ha.
    - apply forallb_forall. intros c Hc'. rewrite forallb_forall in Ha. specialize (Ha c Hc').
      rewrite ascii_to_alphanumeric_iso in Ha. unfold iso_is_alnum. destruct (iso_alnum_value c); [reflexivity | discriminate].
    - exact Hin. }
  rewrite (parse_roundtrip (mode_idx m) v l input) by (auto; try (destruct m; cbn; lia); try apply ecl_idx_lt).
  reflexivity.
Qed.

(* C02 *)
Theorem built_blocks :
  let bits := iso_unmasked_bits v k (vals (q_mat q)) in
  let cw := bits_bytes (firstn (8 * iso_total_codewords v) bits) in
  length cw = iso_total_codewords v /\
  Forall (fun b => b = false) (skipn (8 * iso_total_codewords v) bits) /\
  (let '(d1, g1, d2, g2) := iso_layout v l in
   iso_total_codewords v = iso_data_codewords v l + iso_ec v l * (g1 + g2) /\
   length (iso_blocks_of v l cw) = g1 + g2 /\
   forall b, b < g1 + g2 ->
     length (iso_block_data v l cw b) = (if b <? g1 then d1 else d2) /\ length (iso_block_ec v l cw b) = iso_ec v l /\
     forallb (N.eqb 0) (syndromes (iso_block_data v l cw b ++ iso_block_ec v l cw b) (iso_ec v l)) = true) /\
  iso_deinterleave_data v l cw = iso_codewords (mode_idx m) v l input.
Proof.
  destruct built_basic as (Hv & Hk & _). destruct built_encode as (Hd & _ & HE & HD).
  destruct built_codewords as [CW RB]. destruct structure_is_T as [LS _]. cbn zeta in *.
  rewrite CW. split; [exact LS|]. split; [exact RB|]. split.
  - pose proof (structure_length v e data Hv HD) as SL. fold S l in SL. rewrite LS in SL.
    pose proof (blocks_are_rs_codewords v e data Hv Hd HD) as BR. fold S l in BR.
    unfold iso_blocks_of, iso_block_data, iso_block_ec. unfold iso_blocks_of in *.
    destruct (iso_layout v l) as [[[d1 g1] d2] g2] eqn:EL.
    split; [exact SL|]. split; [now rewrite map_length, seq_length|].
    intros b Hb'. rewrite !map_length, !seq_length. split; [reflexivity|]. split; [reflexivity|].
    specialize (BR b). unfold iso_block_data, iso_block_ec in BR. rewrite EL in BR. apply BR. exact Hb'.
  - unfold S, l. rewrite (deinterleave_data_spec v e data Hv HD). exact HE.
Qed.

End Built.

(* C10: never Panic *)
Theorem build_total input o : options_wf o -> Forall (fun b => (b < 256)%N) input ->
  (match o_mode o with Some fm => alphabet_ok fm input = true | None => True end) ->
  (exists q, build input o = Ok q) \/ build input o = ErrEncodedData \/ build input o = ErrSpecifiedVersion.
Proof.
  intros W Hin Hal. unfold build, build_with.
  destruct (resolve input o) as [[[m e] v]| | |c] eqn:R; [| right; left; reflexivity | right; right; reflexivity |].
  - left. destruct (resolve_ok input o m e v W R) as (Hv & Hm & He & vmin & G & Hle & _).
    assert (Ha : alphabet_ok m input = true).
    { rewrite Hm. unfold eff_mode. destruct (o_mode o) as [fm|]; [exact Hal | apply best_encoding_accepts_all]. }
    destruct (forced_version_fits m e _ vmin v G ltac:(lia)) as [Hf Hc].
    destruct (encode_is_iso m e v input Hv Ha Hin Hf Hc) as [EP _].
    unfold build_matrix. rewrite EP. rewrite (config_safe_all v e Hv). cbn [negb].
    destruct (place_on_matrix v _ e (o_mask o)) as [mat mask]. eexists. reflexivity.
  - exfalso. unfold resolve in R. destruct (version_get _ _ _); [|discriminate].
    destruct (o_version o); [destruct (_ <=? _)|]; discriminate.
Qed.
