(* Geometry-level safety for all 40 versions: every coordinate the blank-symbol writes, the placement walk and the
   eight mask sweeps visit is inside the size x size square, no index subtraction underflows, and the number of
   Data modules is 8 * max_bytes + missing_bits (the debug assertion of place_on_matrix_data). *)
From Coq Require Import NArith List Bool Arith Lia.
From FQ Require Import Lib.ListX Lib.Mat Generated.Tables Model.Types Model.Hardcode Model.Default Model.Qr Proofs.Tables.
Import ListNotations.

Definition find_bad_geom_safe := filter (fun v => negb (geom_safe v)) all_versions.
Lemma geom_safe_check : forallb geom_safe all_versions = true.
Proof. vm_compute. reflexivity. Qed.
Theorem geom_safe_all v : v < 40 -> geom_safe v = true.
Proof. intros H. apply (forallb_In _ _ _ geom_safe_check), in_versions, H. Qed.

Theorem config_safe_all v e : v < 40 -> config_safe v e = true.
Proof. intros H. unfold config_safe. now rewrite geom_safe_all, layout_safe_all. Qed.
