(* C10, scoring part: for every candidate the selection loop scores, the PERCENT_SCORE look-up is in bounds and the u32
   score does not overflow. *)
From Coq Require Import NArith List Bool Arith Lia.
From FQ Require Import Lib.ListX Lib.Mat Generated.Tables Model.Types Model.Hardcode Model.Default Model.Masking
  Model.Score Model.Placement Model.Qr Proofs.Scanner Proofs.ScoreSpec Proofs.Select.
Import ListNotations.

Theorem candidates_score_safely v bytes j : v < 40 ->
  let n := version_size v in
  let cand := apply_mask n (placed_matrix v bytes) j in
  dark_panics n cand = false /\ (score n cand (transpose n cand) < 4294967295)%N.
Proof.
  intros Hv n cand.
  destruct (placed_facts v bytes Hv) as (W & Hn & Hlay & H1 & Hd & Hl). fold n in W, Hn, H1.
  split.
  - apply (dark_is_spec_gen n cand); [lia|].
    apply (light_cell_count n cand 1 1); [apply apply_mask_wf, W | exact H1 | exact H1 |].
    unfold cand. rewrite apply_mask_get_nondata by exact Hd. exact Hl.
  - apply (score_of_lt n (placed_matrix v bytes) j W Hn).
Qed.
