(* score.rs / placement.rs against Spec.Penalty (pc : cell -> pcell is defined in Proofs/Scanner.v).
     squares_is_spec[_gen]   the 2x2 scanner = 3 * blocks, under the layout fact "a row whose column-0 cell is outside the
                             encoding region has its column-1 cell outside too" (the Rust scanner starts each row pair with
                             count_data = 2 without looking at column 0; squares_needs_col01 is a counter-example without
                             the side condition). No assumption on row lengths is needed (_gen).
     percent_table           PERCENT_SCORE[p] = 10 * (5%-steps away from 50%), all p < 100 (100 cases by computation)
     dark_is_spec[_gen]      the dark-module score = ratio_penalty, and the table index is in bounds (one light module)
     transpose_get, transpose_wf, transpose_is_rows
                             default.rs transpose really transposes; it is the spec's transpose_rows on pc-images
     score_is_penalty[_gen]  score(qr, transpose(qr)) = iso_penalty
     score_le                score <= 85 n^2 + 90  (so < u32::MAX for n <= 177)
     select_mask_argmin      the selection loop returns a mask of minimal score; select_mask_first: the first such mask;
                             select_mask_argmin_bounded: the same with the u32 bound as a hypothesis (no wf needed)
     score_of_is_penalty, select_mask_iso_argmin
                             side conditions discharged for all eight candidates from facts about the unmasked matrix
                             (masking changes neither module types nor modules outside the encoding region)
     blank_col01, blank_light the layout fact and a light function module (1,1) hold for the blank symbol of all 40 versions
   All proofs are by induction over arbitrary lists/matrices except percent_table / blank_* (finite, stated bounds). *)
From Coq Require Import NArith ZArith List Bool Arith Lia ZifyBool ZifyNat ZifyN.
From FQ Require Import Lib.ListX Lib.Mat Generated.Tables Model.Types Model.Hardcode Model.Default Model.Masking
  Model.Score Model.Placement Spec.Penalty Proofs.Scanner.
Import ListNotations.
Local Open Scope N_scope.
Ltac Zify.zify_post_hook ::= Z.div_mod_to_equations.
Local Arguments N.add : simpl never.
Local Arguments N.sub : simpl never.
Local Arguments N.mul : simpl never.
Local Arguments N.eqb : simpl never.
Local Arguments N.ltb : simpl never.
Local Arguments N.leb : simpl never.
Local Arguments N.div : simpl never.
Local Arguments N.modulo : simpl never.
Local Arguments N.shiftl : simpl never.
Local Arguments N.shiftr : simpl never.
Local Arguments N.land : simpl never.
Local Arguments N.lor : simpl never.

(* ================================================================================================ *)
(* 1. the 2x2 scanner *)

(* the layout fact: a row whose column-0 cell is outside the encoding region has its column-1 cell outside too *)
Definition col01 (r : list cell) : Prop :=
  is_data (nth 0 r dflt_cell) = false -> is_data (nth 1 r dflt_cell) = false.

Lemma sq_step_eq sc buf cd a b :
  sq_step (sc, buf, cd) (a, b) =
  let buf' := N.lor (N.lor (N.shiftr buf 2) (N.shiftl (b2n (snd a)) 2)) (N.shiftl (b2n (snd b)) 3) in
  let cd' := if negb (is_data a) || negb (is_data b) then 0 else cd in
  (if (2 <=? cd') && ((buf' =? 15) || (buf' =? 0)) then sc + 3 else sc, buf', cd' + 1).
Proof. reflexivity. Qed.

Lemma sq_buffer_arith buf va vb va' vb' :
  buf / 4 = b2n va + 2 * b2n vb ->
  let buf' := N.lor (N.lor (N.shiftr buf 2) (N.shiftl (b2n va') 2)) (N.shiftl (b2n vb') 3) in
  buf' / 4 = b2n va' + 2 * b2n vb' /\
  ((buf' =? 15) || (buf' =? 0)) = Bool.eqb va va' && Bool.eqb va vb && Bool.eqb va vb'.
Proof.
  intros H. cbv zeta. rewrite N.shiftr_div_pow2. change (2 ^ 2) with 4. rewrite H.
  destruct va, vb, va', vb'; vm_compute; auto.
Qed.

Lemma block_row_cons2 a a' t1 b b' t2 :
  block_row (pc a :: pc a' :: t1) (pc b :: pc b' :: t2) =
  (if is_data a && is_data a' && is_data b && is_data b'
      && Bool.eqb (snd a) (snd a') && Bool.eqb (snd a) (snd b) && Bool.eqb (snd a) (snd b') then 1 else 0)
  + block_row (pc a' :: t1) (pc b' :: t2).
Proof. reflexivity. Qed.

Lemma sq_fold t1 : forall t2 a b sc buf cd,
  buf / 4 = b2n (snd a) + 2 * b2n (snd b) -> 1 <= cd -> (2 <=? cd) = is_data a && is_data b ->
  fst (fst (fold_left sq_step (combine t1 t2) (sc, buf, cd)))
  = sc + 3 * block_row (map pc (a :: t1)) (map pc (b :: t2)).
Proof.
  induction t1 as [|a' t1 IH]; intros t2 a b sc buf cd Hb H1 H2.
  - cbn [combine fold_left fst map block_row]. lia.
  - destruct t2 as [|b' t2].
    + cbn [combine fold_left fst map block_row]. lia.
    + cbn [combine fold_left]. rewrite sq_step_eq. cbv zeta.
      destruct (sq_buffer_arith buf (snd a) (snd b) (snd a') (snd b') Hb) as [Hb' Hq]. cbv zeta in Hb', Hq.
      rewrite (IH t2 a' b'); [| exact Hb' | destruct (is_data a'), (is_data b'); cbn [negb orb]; lia
                   | destruct (is_data a'), (is_data b'); cbn [negb orb andb]; lia ].
      cbn [map]. rewrite block_row_cons2. rewrite Hq.
      destruct (is_data a), (is_data b), (is_data a'), (is_data b'); cbn [negb orb andb] in *;
        repeat match goal with |- context [if ?c then _ else _] => destruct c eqn:? end; try lia.
Qed.

Lemma sq_rows_spec l1 l2 : col01 l1 -> col01 l2 -> sq_rows l1 l2 = 3 * block_row (map pc l1) (map pc l2).
Proof.
  intros C1 C2. destruct l1 as [|a t1]; [reflexivity|]. destruct l2 as [|b t2].
  { destruct t1; reflexivity. }
  unfold sq_rows.
  set (buf0 := N.lor (N.shiftl (b2n (snd a)) 2) (N.shiftl (b2n (snd b)) 3)).
  assert (Hb0 : buf0 / 4 = b2n (snd a) + 2 * b2n (snd b)) by (unfold buf0; destruct (snd a), (snd b); reflexivity).
  assert (E : forall st : N * N * N, (let '(score, _, _) := st in score) = fst (fst st)) by (intros [[? ?] ?]; reflexivity).
  rewrite E. clear E.
  destruct (is_data a && is_data b) eqn:Hd.
  - rewrite (sq_fold t1 t2 a b 0 buf0 2 Hb0); [rewrite N.add_0_l; reflexivity | lia | rewrite Hd; reflexivity].
  - destruct t1 as [|a' t1]; [reflexivity|]. destruct t2 as [|b' t2]; [reflexivity|].
    unfold col01 in C1, C2. cbn [nth] in C1, C2.
    cbn [combine fold_left]. rewrite sq_step_eq. cbv zeta.
    destruct (sq_buffer_arith buf0 (snd a) (snd b) (snd a') (snd b') Hb0) as [Hb' _]. cbv zeta in Hb'.
    assert (Hd' : is_data a' && is_data b' = false).
    { destruct (is_data a); [destruct (is_data b); [discriminate Hd|] |].
      - rewrite C2 by reflexivity. apply andb_false_r.
      - rewrite C1 by reflexivity. reflexivity. }
    assert (Hcd : (if negb (is_data a') || negb (is_data b') then 0 else 2) = 0)
      by (destruct (is_data a'), (is_data b'); try discriminate Hd'; reflexivity).
    rewrite Hcd. change (2 <=? 0) with false. cbn [andb].
    rewrite (sq_fold t1 t2 a' b' 0 _ (0 + 1) Hb'); [| lia | rewrite Hd'; reflexivity].
    cbn [map]. rewrite block_row_cons2.
    destruct (is_data a), (is_data b), (is_data a'), (is_data b'); try discriminate Hd; try discriminate Hd';
      cbn [andb]; lia.
Qed.

(* no assumption on the row lengths is needed: both sides stop at the shorter row of each pair *)
Theorem squares_is_spec_gen : forall rows,
  (forall r, In r rows -> is_data (nth 0 r dflt_cell) = false -> is_data (nth 1 r dflt_cell) = false) ->
  squares rows = 3 * blocks (map (map pc) rows).
Proof.
  induction rows as [|l1 rows IH]; intros H; [reflexivity|].
  destruct rows as [|l2 t]; [reflexivity|].
  change (squares (l1 :: l2 :: t)) with (sq_rows l1 l2 + squares (l2 :: t)).
  change (blocks (map (map pc) (l1 :: l2 :: t)))
    with (block_row (map pc l1) (map pc l2) + blocks (map (map pc) (l2 :: t))).
  rewrite IH by (intros r Hr; apply H; right; exact Hr).
  rewrite sq_rows_spec; [lia | |]; unfold col01; apply H; cbn [In]; auto.
Qed.

(* the statement as requested (rows of one common length >= 2) *)
Theorem squares_is_spec : forall rows (w : nat),
  (2 <= w)%nat -> (forall r, In r rows -> length r = w) ->
  (forall r, In r rows -> is_data (nth 0 r dflt_cell) = false -> is_data (nth 1 r dflt_cell) = false) ->
  squares rows = 3 * blocks (map (map pc) rows).
Proof. intros rows w _ _. apply squares_is_spec_gen. Qed.

(* the side condition cannot be dropped: column 0 outside the region, column 1 inside, four equal values *)
Example squares_needs_col01 :
  let rows := [[(1, false); (0, false)]; [(0, false); (0, false)]] in
  squares rows = 3 /\ 3 * blocks (map (map pc) rows) = 0.
Proof. split; reflexivity. Qed.

(* ================================================================================================ *)
(* 2. the dark-module percentage *)

Definition percent_formula (p : N) : N := 10 * (if p <? 50 then (49 - p) / 5 else (p - 50) / 5).

Lemma percent_table_check :
  forallb (fun i => percent_score (N.of_nat i) =? percent_formula (N.of_nat i)) (seq 0 100) = true.
Proof. vm_compute. reflexivity. Qed.

(* 100 cases *)
Theorem percent_table : forall p, p < 100 ->
  percent_score p = 10 * (if p <? 50 then (49 - p) / 5 else (p - 50) / 5).
Proof.
  intros p Hp. pose proof percent_table_check as H. rewrite forallb_forall in H.
  specialize (H (N.to_nat p)). rewrite N2Nat.id in H. apply N.eqb_eq, H, in_seq. lia.
Qed.

Lemma percent_score_le_90 p : percent_score p <= 90.
Proof.
  destruct (N.lt_ge_cases p 100) as [Hp|Hp].
  - assert (C : forallb (fun i => percent_score (N.of_nat i) <=? 90) (seq 0 100) = true) by (vm_compute; reflexivity).
    rewrite forallb_forall in C. specialize (C (N.to_nat p)). rewrite N2Nat.id in C.
    apply N.leb_le, C, in_seq. lia.
  - unfold percent_score, getN. rewrite nth_overflow; [lia|].
    change (length percent_score_tbl) with 100%nat. lia.
Qed.

Lemma count_row_spec row : forall acc,
  fold_left (fun a (x : cell) => if snd x then a + 1 else a) row acc
  = acc + N.of_nat (length (filter snd (map pc row))).
Proof.
  induction row as [|x row IH]; intros acc.
  - cbn [fold_left map filter length N.of_nat]. lia.
  - cbn [fold_left map filter]. rewrite IH. change (snd (pc x)) with (snd x).
    destruct (snd x); cbn [length]; lia.
Qed.

Lemma count_dark_fold m : forall acc,
  fold_left (fun acc row => fold_left (fun a (x : cell) => if snd x then a + 1 else a) row acc) m acc
  = acc + dark_count (map (map pc) m).
Proof.
  unfold dark_count. induction m as [|row m IH]; intros acc.
  - cbn [fold_left map sumN]. lia.
  - cbn [fold_left map sumN]. rewrite IH, count_row_spec. lia.
Qed.

Lemma count_dark_spec m : count_dark m = dark_count (map (map pc) m).
Proof. unfold count_dark. rewrite count_dark_fold. lia. Qed.

(* [wf n m] is not needed *)
Theorem dark_is_spec_gen n m :
  (0 < n)%nat -> count_dark m < N.of_nat n * N.of_nat n ->
  dark_score n m = ratio_penalty n (map (map pc) m) /\ dark_panics n m = false.
Proof.
  intros Hn Hlt. unfold dark_score, ratio_penalty, dark_panics.
  rewrite <- count_dark_spec.
  set (nn := N.of_nat n * N.of_nat n) in *.
  assert (Hnn : nn <> 0) by lia.
  assert (Hp : count_dark m * 100 / nn < 100) by (apply N.div_lt_upper_bound; lia).
  split.
  - apply percent_table, Hp.
  - change (N.of_nat (length percent_score_tbl)) with 100.
    apply orb_false_iff. split; lia.
Qed.

Theorem dark_is_spec n m :
  (n > 0)%nat -> @wf cell n m -> count_dark m < N.of_nat n * N.of_nat n ->
  dark_score n m = ratio_penalty n (map (map pc) m) /\ dark_panics n m = false.
Proof. intros Hn _. apply dark_is_spec_gen. lia. Qed.

(* ================================================================================================ *)
(* 3. transpose *)

Lemma apply_writes_cons m w ws : apply_writes m (w :: ws) = apply_writes (apply_write m w) ws.
Proof. reflexivity. Qed.

Lemma apply_writes_wf n ws : forall m, @wf cell n m -> wf n (apply_writes m ws).
Proof.
  induction ws as [|[[r c] x] ws IH]; intros m H; [exact H|].
  rewrite apply_writes_cons. apply IH. unfold apply_write, qset. apply mset_wf, H.
Qed.

(* a list of in-range writes whose values are given by a fixed function f of the position *)
Lemma apply_writes_get n (f : nat -> nat -> cell) ws : forall m, @wf cell n m ->
  (forall r c x, In (r, c, x) ws -> (r < n)%nat /\ (c < n)%nat /\ x = f r c) ->
  forall r c, (r < n)%nat -> (c < n)%nat ->
  qget (apply_writes m ws) r c = if existsb (fun w : write => coord_eqb (fst w) (r, c)) ws then f r c else qget m r c.
Proof.
  induction ws as [|[[r0 c0] x0] ws IH]; intros m Hwf Hws r c Hr Hc; [reflexivity|].
  rewrite apply_writes_cons. unfold apply_write.
  destruct (Hws r0 c0 x0 (or_introl eq_refl)) as (Hr0 & Hc0 & Hx0).
  rewrite IH; [| apply mset_wf, Hwf | intros r' c' x' Hin; apply Hws; right; exact Hin | exact Hr | exact Hc].
  cbn [existsb fst].
  destruct (coord_eqb_spec (r0, c0) (r, c)) as [E|E].
  - injection E as -> ->. cbn [orb].
    match goal with |- context [existsb ?p ws] => destruct (existsb p ws) end; [reflexivity|].
    unfold qget, qset. rewrite (mget_mset_same _ n) by assumption. exact Hx0.
  - cbn [orb]. match goal with |- context [existsb ?p ws] => destruct (existsb p ws) end; [reflexivity|].
    unfold qget, qset. apply mget_mset_other, E.
Qed.

Lemma in_transpose_writes n m r c x :
  In (r, c, x) (transpose_writes n m) -> (r < n)%nat /\ (c < n)%nat /\ x = qget m c r.
Proof.
  unfold transpose_writes, range. intros H.
  apply in_flat_map in H as (i & Hi & H). apply in_flat_map in H as (j & Hj & H).
  apply in_seq in Hi. apply in_seq in Hj.
  destruct H as [H|[H|[]]]; injection H as <- <- <-; repeat split; lia.
Qed.

Lemma transpose_written n m r c : (r < n)%nat -> (c < n)%nat -> r <> c ->
  existsb (fun w : write => coord_eqb (fst w) (r, c)) (transpose_writes n m) = true.
Proof.
  intros Hr Hc Hne. apply existsb_exists. exists (r, c, qget m c r). split.
  - unfold transpose_writes, range. apply in_flat_map. exists (Nat.min r c). split; [apply in_seq; lia|].
    apply in_flat_map. exists (Nat.max r c). split; [apply in_seq; lia|].
    destruct (Nat.lt_ge_cases r c) as [L|L].
    + rewrite Nat.min_l, Nat.max_r by lia. left. reflexivity.
    + rewrite Nat.min_r, Nat.max_l by lia. right. left. reflexivity.
  - cbn [fst]. destruct (coord_eqb_spec (r, c) (r, c)); congruence.
Qed.

Theorem transpose_get n m r c : @wf cell n m -> (r < n)%nat -> (c < n)%nat ->
  qget (transpose n m) r c = qget m c r.
Proof.
  intros Hwf Hr Hc. unfold transpose.
  rewrite (apply_writes_get n (fun r c => qget m c r) _ m Hwf (in_transpose_writes n m) r c Hr Hc).
  destruct (Nat.eq_dec r c) as [->|Hne].
  - match goal with |- context [existsb ?p ?l] => destruct (existsb p l) end; reflexivity.
  - rewrite transpose_written by assumption. reflexivity.
Qed.

Theorem transpose_wf n m : @wf cell n m -> wf n (transpose n m).
Proof. intros H. apply apply_writes_wf, H. Qed.

Lemma nth_map_seq {B} (g : nat -> B) n i d : (i < n)%nat -> nth i (map g (seq 0 n)) d = g i.
Proof.
  intros H. rewrite (nth_indep (map g (seq 0 n)) d (g 0%nat)) by (rewrite map_length, seq_length; exact H).
  rewrite map_nth, seq_nth by exact H. reflexivity.
Qed.

(* a square matrix is the table of its entries *)
Lemma wf_tabulate {A} (d : A) n (m : list (list A)) : wf n m ->
  m = map (fun r => map (fun c => nth c (nth r m []) d) (seq 0 n)) (seq 0 n).
Proof.
  intros [Hl Hf]. apply (nth_ext _ _ [] []).
  - rewrite map_length, seq_length. exact Hl.
  - intros r Hr. rewrite Hl in Hr. rewrite nth_map_seq by exact Hr.
    assert (Hrow : length (nth r m []) = n).
    { rewrite Forall_forall in Hf. apply Hf, nth_In. lia. }
    apply (nth_ext _ _ d d).
    + rewrite map_length, seq_length. exact Hrow.
    + intros c Hc. rewrite Hrow in Hc. rewrite nth_map_seq by exact Hc. reflexivity.
Qed.

Lemma map_pc_wf n m : @wf cell n m -> @wf pcell n (map (map pc) m).
Proof.
  intros [Hl Hf]. split; [rewrite map_length; exact Hl|].
  rewrite Forall_forall in *. intros row Hin. apply in_map_iff in Hin as (row0 & <- & Hin).
  rewrite map_length. apply Hf, Hin.
Qed.

Lemma nth_map_pc m r c : (r < length m)%nat -> (c < length (nth r m []))%nat ->
  nth c (nth r (map (map pc) m) []) (false, false) = pc (nth c (nth r m []) dflt_cell).
Proof.
  intros Hr Hc.
  rewrite (nth_indep (map (map pc) m) [] (map pc [])) by (rewrite map_length; exact Hr).
  rewrite map_nth.
  rewrite (nth_indep (map pc (nth r m [])) (false, false) (pc dflt_cell)) by (rewrite map_length; exact Hc).
  apply map_nth.
Qed.

Theorem transpose_is_rows n m : @wf cell n m ->
  map (map pc) (transpose n m) = transpose_rows (false, false) n (map (map pc) m).
Proof.
  intros Hwf. pose proof (transpose_wf n m Hwf) as Hwt.
  rewrite (wf_tabulate (false, false) n _ (map_pc_wf n _ Hwt)).
  unfold transpose_rows. apply map_ext_in. intros c Hc. apply map_ext_in. intros r Hr.
  apply in_seq in Hc. apply in_seq in Hr.
  destruct Hwf as [Hl Hf]. destruct Hwt as [Hlt Hft]. rewrite Forall_forall in Hf, Hft.
  rewrite !nth_map_pc.
  - f_equal. apply (transpose_get n m c r); [split; [exact Hl | apply Forall_forall, Hf] | lia | lia].
  - lia.
  - rewrite (Hf (nth r m [])); [lia | apply nth_In; lia].
  - lia.
  - rewrite (Hft (nth c (transpose n m) [])); [lia | apply nth_In; lia].
Qed.

(* ================================================================================================ *)
(* 4. the whole score *)

Lemma lines_fold m : forall P L,
  fold_left (fun acc row => let '(p, l) := line row in (fst acc + p, snd acc + l)) m (P, L)
  = (P + sumN (map (fun r => 40 * windows r) (map (map pc) m)),
     L + sumN (map runs_penalty (map (map pc) m))).
Proof.
  induction m as [|row m IH]; intros P L.
  - cbn [fold_left map sumN]. f_equal; lia.
  - cbn [fold_left map sumN]. rewrite line_is_spec_all. cbn [fst snd]. rewrite IH. f_equal; lia.
Qed.

Lemma lines_score_spec m :
  lines_score m = (sumN (map (fun r => 40 * windows r) (map (map pc) m)), sumN (map runs_penalty (map (map pc) m))).
Proof. unfold lines_score. rewrite lines_fold. f_equal; lia. Qed.

Lemma sumN_line_penalty pm :
  sumN (map line_penalty pm) = sumN (map (fun r => 40 * windows r) pm) + sumN (map runs_penalty pm).
Proof.
  induction pm as [|r pm IH]; [reflexivity|].
  cbn [map sumN]. rewrite IH. unfold line_penalty. lia.
Qed.

Definition layout_col01 (m : qmat) : Prop :=
  forall r, In r m -> is_data (nth 0 r dflt_cell) = false -> is_data (nth 1 r dflt_cell) = false.

Theorem score_is_penalty_gen n m :
  @wf cell n m -> (0 < n)%nat -> layout_col01 m -> count_dark m < N.of_nat n * N.of_nat n ->
  score n m (transpose n m) = iso_penalty (map (map pc) m).
Proof.
  intros Hwf Hn Hlay Hlight. unfold score, iso_penalty.
  rewrite !lines_score_spec.
  rewrite map_length. rewrite (proj1 Hwf).
  rewrite <- (transpose_is_rows n m Hwf).
  rewrite (squares_is_spec_gen m Hlay).
  rewrite (proj1 (dark_is_spec_gen n m Hn Hlight)).
  rewrite !sumN_line_penalty. lia.
Qed.

(* the statement as requested *)
Theorem score_is_penalty n m :
  @wf cell n m -> (n >= 2)%nat ->
  (forall r, In r m -> is_data (nth 0 r dflt_cell) = false -> is_data (nth 1 r dflt_cell) = false) ->
  count_dark m < N.of_nat n * N.of_nat n ->
  score n m (transpose n m) = iso_penalty (map (map pc) m).
Proof. intros Hwf Hn. apply score_is_penalty_gen; [exact Hwf | lia]. Qed.

(* ================================================================================================ *)
(* 5. a crude bound: score <= 85 n^2 + 90 *)

Lemma windows_le l : windows l <= N.of_nat (length l).
Proof.
  induction l as [|a l IH]; [cbn; lia|].
  cbn [windows length]. destruct (window_here (a :: l)); lia.
Qed.

Lemma runs_from_le l : forall cur,
  runs_from cur l <= match cur with Some (_, k) => k | None => 0 end + N.of_nat (length l).
Proof.
  induction l as [|[d v] l IH]; intros cur.
  - cbn [runs_from length]. destruct cur as [[cv k]|]; [destruct (5 <=? k) eqn:E|]; lia.
  - cbn [runs_from length].
    pose proof (IH None) as H0. pose proof (IH (Some (v, 1))) as H1. cbn beta iota in H0, H1.
    destruct cur as [[cv k]|].
    + pose proof (IH (Some (cv, k + 1))) as H2. cbn beta iota in H2.
      destruct d; cbn [negb]; [destruct (Bool.eqb cv v)|]; destruct (5 <=? k) eqn:E; lia.
    + destruct d; cbn [negb]; lia.
Qed.

Lemma runs_penalty_le l : runs_penalty l <= N.of_nat (length l).
Proof. unfold runs_penalty. pose proof (runs_from_le l None) as H. cbn beta iota in H. lia. Qed.

Lemma sumN_le {A} (g : A -> N) (bound : N) l :
  (forall x, In x l -> g x <= bound) -> sumN (map g l) <= N.of_nat (length l) * bound.
Proof.
  induction l as [|x l IH]; intros H; [cbn; lia|].
  cbn [map sumN length]. pose proof (H x (or_introl eq_refl)) as Hx.
  assert (IH' : sumN (map g l) <= N.of_nat (length l) * bound) by (apply IH; intros y Hy; apply H; right; exact Hy).
  rewrite Nat2N.inj_succ. lia.
Qed.

Lemma lines_score_le n m : @wf cell n m ->
  fst (lines_score m) <= 40 * (N.of_nat n * N.of_nat n) /\ snd (lines_score m) <= N.of_nat n * N.of_nat n.
Proof.
  intros Hwf. pose proof (map_pc_wf n m Hwf) as [Hl Hf]. rewrite Forall_forall in Hf.
  rewrite lines_score_spec. cbn [fst snd]. split.
  - pose proof (sumN_le (fun r => 40 * windows r) (40 * N.of_nat n) (map (map pc) m)) as H.
    rewrite Hl in H. etransitivity; [apply H|lia].
    intros r Hr. pose proof (windows_le r) as W. rewrite (Hf r Hr) in W. lia.
  - pose proof (sumN_le runs_penalty (N.of_nat n) (map (map pc) m)) as H.
    rewrite Hl in H. apply H.
    intros r Hr. pose proof (runs_penalty_le r) as W. rewrite (Hf r Hr) in W. exact W.
Qed.

Lemma sq_fold_le l : forall sc buf cd,
  fst (fst (fold_left sq_step l (sc, buf, cd))) <= sc + 3 * N.of_nat (length l).
Proof.
  induction l as [|[a b] l IH]; intros sc buf cd.
  - cbn [fold_left fst length]. lia.
  - cbn [fold_left]. rewrite sq_step_eq. cbv zeta.
    etransitivity; [apply IH|]. cbn [length]. rewrite Nat2N.inj_succ.
    match goal with |- context [if ?c then _ else _] => destruct c end; lia.
Qed.

Lemma sq_rows_le l1 l2 : sq_rows l1 l2 <= 3 * N.of_nat (length l1).
Proof.
  destruct l1 as [|a t1]; [cbn; lia|]. destruct l2 as [|b t2]; [cbn [sq_rows]; lia|].
  unfold sq_rows.
  assert (E : forall st : N * N * N, (let '(score, _, _) := st in score) = fst (fst st)) by (intros [[? ?] ?]; reflexivity).
  rewrite E. etransitivity; [apply sq_fold_le|].
  rewrite combine_length. cbn [length]. lia.
Qed.

Lemma squares_le n rows : Forall (fun r : list cell => length r = n) rows ->
  squares rows <= 3 * (N.of_nat n * N.of_nat (length rows)).
Proof.
  induction rows as [|l1 rows IH]; intros H; [cbn; lia|].
  destruct rows as [|l2 t]; [cbn [squares]; lia|].
  change (squares (l1 :: l2 :: t)) with (sq_rows l1 l2 + squares (l2 :: t)).
  pose proof (Forall_inv H) as H1. pose proof (Forall_inv_tail H) as H2. cbv beta in H1.
  specialize (IH H2). pose proof (sq_rows_le l1 l2) as Hs. rewrite H1 in Hs.
  cbn [length] in *. rewrite !Nat2N.inj_succ in *. lia.
Qed.

Theorem score_le n m mt : @wf cell n m -> @wf cell n mt ->
  score n m mt <= 85 * (N.of_nat n * N.of_nat n) + 90.
Proof.
  intros Hm Hmt. unfold score.
  pose proof (lines_score_le n m Hm) as [A1 A2]. pose proof (lines_score_le n mt Hmt) as [B1 B2].
  destruct (lines_score m) as [p1 l1]. destruct (lines_score mt) as [p2 l2]. cbn [fst snd] in *.
  pose proof (percent_score_le_90 (count_dark m * 100 / (N.of_nat n * N.of_nat n))) as D.
  pose proof (squares_le n m (proj2 Hm)) as S. rewrite (proj1 Hm) in S.
  unfold dark_score. lia.
Qed.

Lemma score_lt_u32max n m mt : @wf cell n m -> @wf cell n mt -> (n <= 177)%nat -> score n m mt < 4294967295.
Proof.
  intros Hm Hmt Hn. pose proof (score_le n m mt Hm Hmt) as H.
  assert (N.of_nat n * N.of_nat n <= 177 * 177) by (apply N.mul_le_mono; lia).
  lia.
Qed.

(* ================================================================================================ *)
(* 6. the selection loop *)

Section Argmin.
Variable f : nat -> N.
Definition sel_step (st : N * nat) (k : nat) : N * nat := if f k <? fst st then (f k, k) else st.

(* strict `<`: the result is the FIRST index of minimal value below the initial bound, or the initial pair *)
Lemma sel_fold ks : forall b k0,
  let r := fold_left sel_step ks (b, k0) in
  (forall j, In j ks -> fst r <= f j) /\ fst r <= b /\
  (r = (b, k0) \/
   (fst r = f (snd r) /\ fst r < b /\
    exists pre post, ks = pre ++ snd r :: post /\ forall j, In j pre -> fst r < f j)).
Proof.
  induction ks as [|k ks IH]; intros b k0; cbv zeta.
  - cbn [fold_left fst]. split; [intros j []|]. split; [lia|]. left. reflexivity.
  - cbn [fold_left].
    assert (Es : sel_step (b, k0) k = if f k <? b then (f k, k) else (b, k0)) by reflexivity.
    rewrite Es. clear Es.
    destruct (f k <? b) eqn:E.
    + specialize (IH (f k) k). cbv zeta in IH. destruct IH as (H1 & H2 & H3).
      set (r := fold_left sel_step ks (f k, k)) in *.
      split; [intros j [<-|Hj]; [exact H2 | apply H1, Hj]|]. split; [lia|]. right.
      destruct H3 as [H3|(H3 & H4 & pre & post & H5 & H6)].
      * rewrite H3. cbn [fst snd]. split; [reflexivity|]. split; [lia|].
        exists [], ks. split; [reflexivity|]. intros j [].
      * split; [exact H3|]. split; [lia|]. exists (k :: pre), post. split; [rewrite H5 at 1; reflexivity|].
        intros j [<-|Hj]; [exact H4 | apply H6, Hj].
    + specialize (IH b k0). cbv zeta in IH. destruct IH as (H1 & H2 & H3).
      set (r := fold_left sel_step ks (b, k0)) in *.
      split; [intros j [<-|Hj]; [lia | apply H1, Hj]|]. split; [exact H2|].
      destruct H3 as [H3|(H3 & H4 & pre & post & H5 & H6)]; [left; exact H3|]. right.
      split; [exact H3|]. split; [exact H4|]. exists (k :: pre), post. split; [rewrite H5 at 1; reflexivity|].
      intros j [<-|Hj]; [lia | apply H6, Hj].
Qed.

(* with an initial bound above some value of f on the list, the result is the first argmin *)
Lemma sel_argmin ks b k0 : (exists j, In j ks /\ f j < b) ->
  let k := snd (fold_left sel_step ks (b, k0)) in
  In k ks /\ (forall j, In j ks -> f k <= f j) /\
  exists pre post, ks = pre ++ k :: post /\ forall j, In j pre -> f k < f j.
Proof.
  intros (j0 & Hj0 & Hlt). cbv zeta.
  destruct (sel_fold ks b k0) as (H1 & H2 & H3). cbv zeta in H1, H2, H3.
  set (r := fold_left sel_step ks (b, k0)) in *.
  destruct H3 as [H3|(H3 & H4 & pre & post & H5 & H6)].
  - specialize (H1 j0 Hj0). rewrite H3 in H1. cbn [fst] in H1. lia.
  - rewrite <- H3. split; [rewrite H5; apply in_or_app; right; left; reflexivity|].
    split; [exact H1|]. exists pre, post. split; [exact H5 | exact H6].
Qed.
End Argmin.

Definition score_of (n : nat) (m : qmat) (j : nat) : N :=
  score n (apply_mask n m j) (transpose n (apply_mask n m j)).

Lemma select_step_eq n m st k : select_step n m st k = sel_step (score_of n m) st k.
Proof. reflexivity. Qed.

Lemma select_mask_eq n m :
  select_mask n m = snd (fold_left (sel_step (score_of n m)) masks_order (4294967295, hd 0%nat masks_order)).
Proof.
  unfold select_mask. f_equal.
Qed.

Lemma masks_order_eq : masks_order = [0; 1; 2; 3; 4; 5; 6; 7]%nat.
Proof. reflexivity. Qed.

Lemma toggle_at_wf n m p : @wf cell n m -> wf n (toggle_at m p).
Proof. intros H. unfold toggle_at. destruct (is_data _); [apply mset_wf, H | exact H]. Qed.

Lemma apply_mask_wf n m k : @wf cell n m -> wf n (apply_mask n m k).
Proof.
  unfold apply_mask. generalize (mask_coords n k). intros l. revert m.
  induction l as [|p l IH]; intros m H; [exact H|]. cbn [fold_left]. apply IH, toggle_at_wf, H.
Qed.

Lemma score_of_lt n m j : @wf cell n m -> (n <= 177)%nat -> score_of n m j < 4294967295.
Proof.
  intros H Hn. unfold score_of. apply score_lt_u32max; [| apply transpose_wf |]; try apply apply_mask_wf; assumption.
Qed.

(* with the bound as a hypothesis (only one candidate below u32::MAX is needed) *)
Theorem select_mask_argmin_bounded n m :
  (exists j, In j masks_order /\ score_of n m j < 4294967295) ->
  let k := select_mask n m in
  In k masks_order /\ (forall j, In j masks_order -> score_of n m k <= score_of n m j) /\
  exists pre post, masks_order = pre ++ k :: post /\ forall j, In j pre -> score_of n m k < score_of n m j.
Proof. intros H. cbv zeta. rewrite select_mask_eq. apply sel_argmin, H. Qed.

(* for symbols up to 177 x 177 the bound is a theorem *)
Theorem select_mask_argmin n m : @wf cell n m -> (n <= 177)%nat ->
  let k := select_mask n m in
  In k masks_order /\ forall j, In j masks_order -> score_of n m k <= score_of n m j.
Proof.
  intros Hwf Hn. cbv zeta.
  destruct (select_mask_argmin_bounded n m) as (H1 & H2 & _).
  - exists 0%nat. split; [rewrite masks_order_eq; left; reflexivity | apply score_of_lt; assumption].
  - split; assumption.
Qed.

(* ties are broken towards the mask tried first *)
Theorem select_mask_first n m : @wf cell n m -> (n <= 177)%nat ->
  exists pre post, masks_order = pre ++ select_mask n m :: post /\
                   forall j, In j pre -> score_of n m (select_mask n m) < score_of n m j.
Proof.
  intros Hwf Hn. destruct (select_mask_argmin_bounded n m) as (_ & _ & H3); [|exact H3].
  exists 0%nat. split; [rewrite masks_order_eq; left; reflexivity | apply score_of_lt; assumption].
Qed.

(* ================================================================================================ *)
(* 7. discharging the side conditions for mask candidates: they depend only on the module types and on one light
      function-pattern module, neither of which masking changes *)

Lemma map_upd {A B} (g : A -> B) (l : list A) i y : map g (upd l i y) = upd (map g l) i (g y).
Proof. revert i; induction l as [|h t IH]; intros [|i]; cbn [upd map]; try reflexivity. rewrite IH. reflexivity. Qed.

Lemma upd_nth_same {A} (l : list A) i d : upd l i (nth i l d) = l.
Proof. revert i; induction l as [|h t IH]; intros [|i]; cbn [upd nth]; try reflexivity. rewrite IH. reflexivity. Qed.

Definition types (m : qmat) : list (list N) := map (map fst) m.

Lemma mset_map {A B} (g : A -> B) (d : A) (m : list (list A)) r c y :
  g y = g (mget d m r c) -> map (map g) (mset m r c y) = map (map g) m.
Proof.
  intros Hy. unfold mset, mget in *. rewrite map_upd, map_upd, Hy.
  rewrite <- (map_nth g (nth r m []) d c). rewrite upd_nth_same.
  change (map g (nth r m [])) with ((map g) (nth r m [])).
  rewrite <- (map_nth (map g) m [] r). apply upd_nth_same.
Qed.

Lemma mset_types (m : qmat) r c y :
  fst y = fst (qget m r c) -> types (mset m r c y) = types m.
Proof. intros Hy. unfold types. apply (mset_map fst dflt_cell). exact Hy. Qed.

Lemma toggle_at_types m p : types (toggle_at m p) = types m.
Proof. unfold toggle_at. destruct (is_data _); [|reflexivity]. unfold qset. apply mset_types. reflexivity. Qed.

Lemma apply_mask_types n m k : types (apply_mask n m k) = types m.
Proof.
  unfold apply_mask. generalize (mask_coords n k). intros l. revert m.
  induction l as [|p l IH]; intros m; [reflexivity|]. cbn [fold_left]. rewrite IH. apply toggle_at_types.
Qed.

Lemma is_data_nth_types (r : list cell) i : is_data (nth i r dflt_cell) = (nth i (map fst r) 0 =? 0).
Proof. unfold is_data, T_DATA. change 0 with (fst dflt_cell) at 2. rewrite map_nth. reflexivity. Qed.

(* the layout fact is a property of the type layer *)
Lemma layout_col01_types m m' : types m = types m' -> layout_col01 m -> layout_col01 m'.
Proof.
  intros E H r' Hr'. unfold types in E.
  assert (Hin : In (map fst r') (map (map fst) m)) by (rewrite E; apply in_map, Hr').
  apply in_map_iff in Hin as (r & Er & Hr).
  specialize (H r Hr). rewrite !is_data_nth_types in *. rewrite <- Er. exact H.
Qed.

Lemma layout_col01_apply_mask n m k : layout_col01 m -> layout_col01 (apply_mask n m k).
Proof. apply layout_col01_types. symmetry. apply apply_mask_types. Qed.

(* masking never touches a module outside the encoding region *)
Lemma toggle_at_get_nondata m p r c : is_data (qget m r c) = false -> qget (toggle_at m p) r c = qget m r c.
Proof.
  intros H. unfold toggle_at. destruct (is_data (qget m (fst p) (snd p))) eqn:E; [|reflexivity].
  unfold qget, qset. apply mget_mset_other. intros Epq. injection Epq as E1 E2. subst r c.
  rewrite E in H. discriminate H.
Qed.

Lemma apply_mask_get_nondata n m k r c :
  is_data (qget m r c) = false -> qget (apply_mask n m k) r c = qget m r c.
Proof.
  unfold apply_mask. generalize (mask_coords n k). intros l. revert m.
  induction l as [|p l IH]; intros m H; [reflexivity|]. cbn [fold_left].
  rewrite IH by (rewrite toggle_at_get_nondata; exact H). apply toggle_at_get_nondata, H.
Qed.

(* one light module is enough for the percentage index to be in bounds *)
Lemma filter_len_le {A} (g : A -> bool) l : (length (filter g l) <= length l)%nat.
Proof. induction l as [|h t IH]; [cbn; lia|]. cbn [filter length]. destruct (g h); cbn [length]; lia. Qed.

Lemma filter_length_lt {A} (g : A -> bool) l x : In x l -> g x = false -> (length (filter g l) < length l)%nat.
Proof.
  induction l as [|h t IH]; intros Hin Hx; [destruct Hin|].
  cbn [filter length]. pose proof (filter_len_le g t) as Hle.
  destruct Hin as [->|Hin].
  - rewrite Hx. lia.
  - specialize (IH Hin Hx). destruct (g h); cbn [length]; lia.
Qed.

Lemma sumN_lt {A} (g : A -> N) (bound : N) l x0 :
  (forall x, In x l -> g x <= bound) -> In x0 l -> g x0 < bound ->
  sumN (map g l) < N.of_nat (length l) * bound.
Proof.
  induction l as [|x l IH]; intros H Hin Hlt; [destruct Hin|].
  cbn [map sumN length]. rewrite Nat2N.inj_succ.
  pose proof (H x (or_introl eq_refl)) as Hx.
  assert (Ht : forall y, In y l -> g y <= bound) by (intros y Hy; apply H; right; exact Hy).
  destruct Hin as [->|Hin].
  - pose proof (sumN_le g bound l Ht). lia.
  - specialize (IH Ht Hin Hlt). lia.
Qed.

Lemma light_cell_count n m r c : @wf cell n m -> (r < n)%nat -> (c < n)%nat ->
  snd (qget m r c) = false -> count_dark m < N.of_nat n * N.of_nat n.
Proof.
  intros Hwf Hr Hc Hlight. rewrite count_dark_spec. unfold dark_count.
  pose proof (map_pc_wf n m Hwf) as [Hl Hf]. rewrite Forall_forall in Hf.
  rewrite <- Hl at 1.
  pose proof (wf_row n m r Hwf Hr) as Hrow. destruct Hwf as [Hlm Hfm].
  set (g := fun row : list pcell => N.of_nat (length (filter snd row))).
  apply (sumN_lt g (N.of_nat n) _ (map pc (nth r m []))).
  - intros row Hin. unfold g. pose proof (filter_len_le snd row) as Hle. pose proof (Hf row Hin) as Hrw.
    unfold pcell in *. lia.
  - apply in_map, nth_In. lia.
  - unfold g.
    assert (Hlt : (length (filter snd (map pc (nth r m []))) < length (map pc (nth r m [])))%nat).
    { apply (filter_length_lt snd _ (pc (qget m r c))).
      - apply in_map. unfold qget, mget. apply nth_In. lia.
      - exact Hlight. }
    rewrite map_length, Hrow in Hlt. lia.
Qed.

(* the score used for ranking candidate j is the documented penalty of that candidate *)
Theorem score_of_is_penalty n m j r c :
  @wf cell n m -> layout_col01 m ->
  (r < n)%nat -> (c < n)%nat -> is_data (qget m r c) = false -> snd (qget m r c) = false ->
  score_of n m j = iso_penalty (map (map pc) (apply_mask n m j)).
Proof.
  intros Hwf Hlay Hr Hc Hnd Hlight. unfold score_of.
  apply score_is_penalty_gen.
  - apply apply_mask_wf, Hwf.
  - lia.
  - apply layout_col01_apply_mask, Hlay.
  - apply (light_cell_count n _ r c); [apply apply_mask_wf, Hwf | exact Hr | exact Hc |].
    rewrite apply_mask_get_nondata by exact Hnd. exact Hlight.
Qed.

(* the selected mask minimises the documented penalty over the eight candidates *)
Theorem select_mask_iso_argmin n m r c :
  @wf cell n m -> (n <= 177)%nat -> layout_col01 m ->
  (r < n)%nat -> (c < n)%nat -> is_data (qget m r c) = false -> snd (qget m r c) = false ->
  let k := select_mask n m in
  In k masks_order /\
  forall j, In j masks_order ->
    iso_penalty (map (map pc) (apply_mask n m k)) <= iso_penalty (map (map pc) (apply_mask n m j)).
Proof.
  intros Hwf Hn Hlay Hr Hc Hnd Hlight. cbv zeta.
  destruct (select_mask_argmin n m Hwf Hn) as [H1 H2]. split; [exact H1|].
  intros j Hj. rewrite <- !(score_of_is_penalty n m _ r c Hwf Hlay Hr Hc Hnd Hlight). apply H2, Hj.
Qed.

(* the layout fact holds for the blank symbol of each of the 40 versions (finite check) *)
Definition col01b (r : list cell) : bool := is_data (nth 0 r dflt_cell) || negb (is_data (nth 1 r dflt_cell)).
Lemma blank_col01_check : forallb (fun v => forallb col01b (blank v)) (seq 0 40) = true.
Proof. vm_compute. reflexivity. Qed.
Theorem blank_col01 v : (v < 40)%nat -> layout_col01 (blank v).
Proof.
  intros Hv r Hr. pose proof blank_col01_check as H. rewrite forallb_forall in H.
  specialize (H v ltac:(apply in_seq; lia)). rewrite forallb_forall in H. specialize (H r Hr).
  unfold col01b in H. destruct (is_data (nth 0 r dflt_cell)); [discriminate|].
  intros _. cbn [orb] in H. destruct (is_data (nth 1 r dflt_cell)); [discriminate H | reflexivity].
Qed.
(* module (1,1) of every blank symbol is a light finder-pattern module *)
Lemma blank_light_check : forallb (fun v => negb (is_data (qget (blank v) 1 1)) && negb (snd (qget (blank v) 1 1))) (seq 0 40) = true.
Proof. vm_compute. reflexivity. Qed.
Theorem blank_light v : (v < 40)%nat -> is_data (qget (blank v) 1 1) = false /\ snd (qget (blank v) 1 1) = false.
Proof.
  intros Hv. pose proof blank_light_check as H. rewrite forallb_forall in H.
  specialize (H v ltac:(apply in_seq; lia)). apply andb_prop in H as [H1 H2].
  split; [destruct (is_data _) | destruct (snd _)]; try reflexivity; discriminate.
Qed.

Print Assumptions squares_is_spec.
Print Assumptions dark_is_spec.
Print Assumptions transpose_get.
Print Assumptions transpose_is_rows.
Print Assumptions score_is_penalty.
Print Assumptions select_mask_argmin.
Print Assumptions select_mask_first.
Print Assumptions select_mask_iso_argmin.
Print Assumptions blank_col01.
