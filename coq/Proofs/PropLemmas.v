(* Lemmas behind those property theorems that are short compositions of the main results (kept out of Properties/ so that
   the property files contain statements closed by [exact] only). *)
From Coq Require Import NArith List Bool Arith Lia.
From FQ Require Import Lib.Mat Generated.Tables Model.Types Model.Hardcode Model.Default Model.Helpers Model.Encode Model.Qr Spec.Iso Spec.Oracles
  Proofs.Tables Proofs.Geometry Proofs.GeomSafe Proofs.Build Proofs.BuildMatrix Proofs.Regions Proofs.Terminal Proofs.BestEncoding.
Import ListNotations.

Lemma version_size_is_iso v : version_size v = iso_size v.
Proof. unfold version_size, iso_size. cbv [size_mul size_add]. lia. Qed.

Lemma function_patterns_c03 : forall input o q, options_wf o -> build input o = Ok q ->
  q_size q = iso_size (q_version q) /\
  forall r c b, r < q_size q -> c < q_size q ->
    region_value (iso_region (q_version q) r c) = Some b -> snd (qget (q_mat q) r c) = b.
Proof.
  intros input o q W H. destruct (build_ok_matrix input o q W H) as (Hv & Hk & Hs & _ & _ & _ & _ & Hm).
  split.
  - rewrite Hs. apply version_size_is_iso.
  - intros r c b Hr Hc Hb. rewrite Hm. rewrite Hs in Hr, Hc. now apply final_fixed_value.
Qed.

Lemma matrix_is_square_c03 : forall input o q, options_wf o -> build input o = Ok q -> wf (q_size q) (q_mat q).
Proof.
  intros input o q W H. destruct (build_ok_matrix input o q W H) as (Hv & Hk & Hs & _ & _ & _ & _ & Hm).
  rewrite Hm, Hs. now apply final_matrix_wf.
Qed.

Lemma labels_are_regions_c15 : forall input o q, options_wf o -> build input o = Ok q ->
  forall r c, r < q_size q -> c < q_size q ->
    fst (qget (q_mat q) r c) = region_type (iso_region (q_version q) r c).
Proof.
  intros input o q W H r c Hr Hc. destruct (build_ok_matrix input o q W H) as (Hv & Hk & Hs & _ & _ & _ & _ & Hm).
  rewrite Hm. rewrite Hs in Hr, Hc. now apply final_label.
Qed.

Lemma data_count_c15 : forall v, v < 40 ->
  length (iso_data_coords v) = 8 * iso_total_codewords v + iso_remainder_bits v /\
  N.of_nat (iso_total_codewords v) = max_bytes v /\ N.of_nat (iso_remainder_bits v) = missing_bits v.
Proof.
  intros v Hv. split; [|now apply counts_from_geometry].
  unfold iso_total_codewords, iso_remainder_bits. apply Nat.div_mod. lia.
Qed.

Lemma applies_to_builds_c16 : forall input o q, options_wf o -> build input o = Ok q ->
  Nat.odd (q_size q) = true /\ 1 <= q_size q <= 177 /\ wf (q_size q) (q_mat q).
Proof.
  intros input o q W H. destruct (build_ok_matrix input o q W H) as (Hv & Hk & Hs & _ & _ & _ & _ & Hm).
  rewrite Hm, Hs. split; [|split; [|now apply final_matrix_wf]].
  - unfold version_size. cbv [Generated.Tables.size_mul Generated.Tables.size_add].
    replace (N.to_nat (N.of_nat (q_version q) * 4 + 21)) with (S (2 * (2 * q_version q + 10))) by lia.
    rewrite Nat.odd_succ. apply Nat.even_spec. now exists (2 * q_version q + 10).
  - unfold version_size. cbv [Generated.Tables.size_mul Generated.Tables.size_add]. lia.
Qed.

