(* C16: the half-block terminal rendering, read back by an independent reader, is the matrix with a
   one-module light border.

   The reader (split_lines / read_char / read_line / read_lines / read_picture) is written here, from
   the meaning of the four Unicode characters, and does not mention the model's half_char / print_line:
       U+0020 space      = (dark,  dark)      U+2588 full block  = (light, light)
       U+2580 upper half = (light, dark)      U+2584 lower half  = (dark,  light)       [dark = true]
   Each text line yields two half-rows (top halves, bottom halves).

   The proof is for every odd n (1 <= n <= 177) by induction over the row pairs 0, 2, ..., n-3; nothing
   is established by computation on a concrete size. *)
From Coq Require Import NArith List Bool Arith Lia.
From FQ Require Import Lib.ListX Lib.Mat Generated.Tables Model.Types Model.Helpers.
Import ListNotations.

(* ------------------------------------------------------------------------------------------------ *)
(* Independent reader                                                                                *)

(* split a code-point list at newline (10); a text without a trailing newline ends with its last line *)
Fixpoint split_lines (l : list N) : list (list N) :=
  match l with
  | [] => [[]]
  | c :: t =>
      if N.eqb c 10 then [] :: split_lines t
      else match split_lines t with
           | [] => [[c]]
           | h :: r => (c :: h) :: r
           end
  end.

(* (top half, bottom half), dark = true *)
Definition read_char (c : N) : option (bool * bool) :=
  if N.eqb c 32 then Some (true, true)
  else if N.eqb c 9608 then Some (false, false)
  else if N.eqb c 9600 then Some (false, true)
  else if N.eqb c 9604 then Some (true, false)
  else None.

Fixpoint read_line (l : list N) : option (list bool * list bool) :=
  match l with
  | [] => Some ([], [])
  | c :: t =>
      match read_char c, read_line t with
      | Some (a, b), Some (ta, tb) => Some (a :: ta, b :: tb)
      | _, _ => None
      end
  end.

(* line 0 top, line 0 bottom, line 1 top, ... *)
Fixpoint read_lines (ls : list (list N)) : option (list (list bool)) :=
  match ls with
  | [] => Some []
  | l :: t =>
      match read_line l, read_lines t with
      | Some (a, b), Some r => Some (a :: b :: r)
      | _, _ => None
      end
  end.

Definition read_picture (text : list N) : option (list (list bool)) := read_lines (split_lines text).

Definition four_chars : list N := [32; 9608; 9600; 9604]%N.

(* ------------------------------------------------------------------------------------------------ *)
(* Generic list facts                                                                                *)

Lemma split_lines_no_nl a : ~ In 10%N a -> split_lines a = [a].
Proof.
  induction a as [|c t IH]; intros H; cbn [split_lines]; auto.
  destruct (N.eqb_spec c 10) as [E|E].
  - exfalso. apply H. left. auto.
  - rewrite IH; auto. intros HI. apply H. right. exact HI.
Qed.

Lemma split_lines_app_nl a b : ~ In 10%N a -> split_lines (a ++ 10%N :: b) = a :: split_lines b.
Proof.
  induction a as [|c t IH]; intros H.
  - reflexivity.
  - cbn [app split_lines]. destruct (N.eqb_spec c 10) as [E|E].
    + exfalso. apply H. left. auto.
    + rewrite IH; auto. intros HI. apply H. right. exact HI.
Qed.

Lemma read_line_app a b ta ba tb bb :
  read_line a = Some (ta, ba) -> read_line b = Some (tb, bb) ->
  read_line (a ++ b) = Some (ta ++ tb, ba ++ bb).
Proof.
  revert ta ba. induction a as [|c t IH]; intros ta ba Ha Hb.
  - cbn [read_line] in Ha. injection Ha as <- <-. exact Hb.
  - cbn [app read_line] in *. destruct (read_char c) as [[x y]|]; [|discriminate].
    destruct (read_line t) as [[ta' ba']|]; [|discriminate].
    injection Ha as <- <-. rewrite (IH ta' ba' eq_refl Hb). reflexivity.
Qed.

Lemma read_lines_app a b ra rb :
  read_lines a = Some ra -> read_lines b = Some rb -> read_lines (a ++ b) = Some (ra ++ rb).
Proof.
  revert ra. induction a as [|l t IH]; intros ra Ha Hb.
  - cbn [read_lines] in Ha. injection Ha as <-. exact Hb.
  - cbn [app read_lines] in *. destruct (read_line l) as [[x y]|]; [|discriminate].
    destruct (read_lines t) as [r|]; [|discriminate].
    injection Ha as <-. rewrite (IH r eq_refl Hb). reflexivity.
Qed.

Lemma map_nth_seq_firstn {A} (l : list A) (d : A) n :
  n <= length l -> map (fun i => nth i l d) (seq 0 n) = firstn n l.
Proof.
  revert n. induction l as [|x t IH]; intros [|n] H; cbn [length] in H; try lia; try reflexivity.
  cbn [seq map firstn nth]. f_equal.
  rewrite <- seq_shift, map_map. cbn [nth]. apply IH. lia.
Qed.

Lemma firstn_repeat_le {A} (x : A) n k : n <= k -> firstn n (repeat x k) = repeat x n.
Proof.
  revert k. induction n as [|n IH]; intros [|k] H; try lia; try reflexivity.
  cbn [repeat firstn]. f_equal. apply IH. lia.
Qed.

Lemma repeat_border {A} (x : A) n : x :: repeat x n ++ [x] = repeat x (n + 2).
Proof.
  induction n as [|n IH]; [reflexivity|].
  cbn [repeat Nat.add app]. f_equal. exact IH.
Qed.

(* 0, 2, ..., i.e. Rust's (0..2k).step_by(2), as a recursion over row pairs *)
Fixpoint evens (s k : nat) : list nat :=
  match k with
  | O => []
  | S k' => s :: evens (S (S s)) k'
  end.

Lemma step_by_2_seq s k : step_by 2 (seq s (2 * k)) = evens s k.
Proof.
  unfold step_by. revert s. induction k as [|k IH]; intros s.
  - reflexivity.
  - replace (2 * S k) with (S (S (2 * k))) by lia.
    cbn [seq step_by_aux Nat.sub evens]. f_equal. apply IH.
Qed.

(* ------------------------------------------------------------------------------------------------ *)
(* The model's characters, as seen by the reader                                                     *)

Lemma read_half_char a b : read_char (half_char a b) = Some (a, b).
Proof. destruct a, b; reflexivity. Qed.

Lemma half_char_not_nl a b : half_char a b <> 10%N.
Proof. destruct a, b; discriminate. Qed.

Lemma half_char_four a b : In (half_char a b) four_chars.
Proof. destruct a, b; vm_compute; tauto. Qed.

Lemma read_CH_BOTTOM : read_char CH_BOTTOM = Some (true, false).
Proof. reflexivity. Qed.
Lemma read_CH_BLOCK : read_char CH_BLOCK = Some (false, false).
Proof. reflexivity. Qed.
Lemma CH_BOTTOM_half : CH_BOTTOM = half_char true false.
Proof. reflexivity. Qed.
Lemma CH_BLOCK_half : CH_BLOCK = half_char false false.
Proof. reflexivity. Qed.
Lemma CH_NL_10 : CH_NL = 10%N.
Proof. reflexivity. Qed.

(* one text line: border character, n half-block characters, border character *)
Definition tline (a b : bool) (l1 l2 : list bool) (n : nat) : list N :=
  half_char a b :: print_line l1 l2 n ++ [half_char a b].

Lemma print_line_length l1 l2 n : length (print_line l1 l2 n) = n.
Proof. unfold print_line. now rewrite map_length, seq_length. Qed.

Lemma print_line_no_nl l1 l2 n : ~ In 10%N (print_line l1 l2 n).
Proof.
  unfold print_line. intros H. apply in_map_iff in H as [i [Hi _]].
  now apply half_char_not_nl in Hi.
Qed.

Lemma print_line_four l1 l2 n : Forall (fun c => In c four_chars) (print_line l1 l2 n).
Proof.
  unfold print_line. apply Forall_forall. intros c H. apply in_map_iff in H as [i [<- _]].
  apply half_char_four.
Qed.

Lemma read_print_line l1 l2 n :
  n <= length l1 -> n <= length l2 ->
  read_line (print_line l1 l2 n) = Some (firstn n l1, firstn n l2).
Proof.
  intros H1 H2. rewrite <- (map_nth_seq_firstn l1 false n H1), <- (map_nth_seq_firstn l2 false n H2).
  unfold print_line. generalize (seq 0 n) as s. induction s as [|i s IH]; [reflexivity|].
  cbn [map read_line]. rewrite read_half_char, IH. reflexivity.
Qed.

Lemma tline_length a b l1 l2 n : length (tline a b l1 l2 n) = n + 2.
Proof. unfold tline. cbn [length]. rewrite app_length, print_line_length. cbn [length]. lia. Qed.

Lemma tline_no_nl a b l1 l2 n : ~ In 10%N (tline a b l1 l2 n).
Proof.
  unfold tline. intros [H|H].
  - now apply half_char_not_nl in H.
  - apply in_app_or in H as [H|[H|[]]].
    + now apply print_line_no_nl in H.
    + now apply half_char_not_nl in H.
Qed.

Lemma tline_four a b l1 l2 n : Forall (fun c => In c four_chars) (tline a b l1 l2 n).
Proof.
  unfold tline. constructor; [apply half_char_four|].
  apply Forall_app. split; [apply print_line_four|].
  constructor; [apply half_char_four|constructor].
Qed.

Lemma read_tline a b l1 l2 n :
  n <= length l1 -> n <= length l2 ->
  read_line (tline a b l1 l2 n) = Some (a :: firstn n l1 ++ [a], b :: firstn n l2 ++ [b]).
Proof.
  intros H1 H2. unfold tline. cbn [read_line]. rewrite read_half_char.
  rewrite (read_line_app (print_line l1 l2 n) [half_char a b] (firstn n l1) (firstn n l2) [a] [b]).
  - reflexivity.
  - now apply read_print_line.
  - cbn [read_line]. rewrite read_half_char. reflexivity.
Qed.

(* ------------------------------------------------------------------------------------------------ *)
(* Shape of the text                                                                                 *)

Definition top_line (n : nat) : list N := tline true false (repeat true 177) (repeat false 177) n.
Definition pair_line (n : nat) (m : qmat) (i : nat) : list N :=
  tline false false (row_vals m i) (row_vals m (i + 1)) n.
Definition last_line (n : nat) (m : qmat) : list N :=
  tline false false (row_vals m (n - 1)) (repeat false 177) n.

Lemma text_shape n m :
  print_matrix_with_margin n m =
  top_line n ++ 10%N :: flat_map (fun i => pair_line n m i ++ [10%N]) (step_by 2 (range 0 (n - 1))) ++ last_line n m.
Proof.
  unfold print_matrix_with_margin, top_line, pair_line, last_line, tline.
  rewrite <- CH_BOTTOM_half, <- CH_BLOCK_half, CH_NL_10.
  cbn [app]. f_equal. rewrite <- app_assoc. cbn [app]. f_equal. f_equal. f_equal. f_equal.
  apply flat_map_ext. intros i. cbn [app]. f_equal. rewrite <- app_assoc. reflexivity.
Qed.

Lemma split_pairs n m l rest :
  split_lines (flat_map (fun i => pair_line n m i ++ [10%N]) l ++ rest) =
  map (pair_line n m) l ++ split_lines rest.
Proof.
  induction l as [|i l IH]; [reflexivity|].
  cbn [flat_map map app]. rewrite <- !app_assoc. cbn [app].
  rewrite split_lines_app_nl by apply tline_no_nl. now rewrite IH.
Qed.

Lemma text_lines n m k :
  n = 2 * k + 1 ->
  split_lines (print_matrix_with_margin n m) =
  top_line n :: map (pair_line n m) (evens 0 k) ++ [last_line n m].
Proof.
  intros Hn. rewrite text_shape.
  rewrite split_lines_app_nl by apply tline_no_nl.
  rewrite split_pairs, split_lines_no_nl by apply tline_no_nl.
  unfold range. replace (n - 1 - 0) with (2 * k) by lia. now rewrite step_by_2_seq.
Qed.

(* ------------------------------------------------------------------------------------------------ *)
(* Reading the lines back                                                                            *)

Definition bordered_row (m : qmat) (r : nat) : list bool := false :: row_vals m r ++ [false].

Lemma row_vals_length n (m : qmat) r : wf n m -> r < n -> length (row_vals m r) = n.
Proof. intros H Hr. unfold row_vals. rewrite map_length. now apply wf_row. Qed.

Lemma firstn_row n (m : qmat) r : wf n m -> r < n -> firstn n (row_vals m r) = row_vals m r.
Proof. intros H Hr. apply firstn_all2. rewrite (row_vals_length n m r H Hr). lia. Qed.

Lemma read_top_line n :
  n <= 177 -> read_line (top_line n) = Some (repeat true (n + 2), repeat false (n + 2)).
Proof.
  intros H. unfold top_line. rewrite read_tline by (rewrite repeat_length; lia).
  rewrite !firstn_repeat_le by lia. now rewrite !repeat_border.
Qed.

Lemma read_pair_line n (m : qmat) i :
  wf n m -> i + 1 < n ->
  read_line (pair_line n m i) = Some (bordered_row m i, bordered_row m (i + 1)).
Proof.
  intros H Hi. unfold pair_line.
  rewrite read_tline by (rewrite (row_vals_length n) by (auto; lia); lia).
  rewrite !(firstn_row n) by (auto; lia). reflexivity.
Qed.

Lemma read_last_line n (m : qmat) :
  wf n m -> 1 <= n <= 177 ->
  read_line (last_line n m) = Some (bordered_row m (n - 1), repeat false (n + 2)).
Proof.
  intros H Hn. unfold last_line.
  rewrite read_tline; [| rewrite (row_vals_length n) by (auto; lia); lia | rewrite repeat_length; lia].
  rewrite (firstn_row n) by (auto; lia). rewrite firstn_repeat_le by lia. now rewrite repeat_border.
Qed.

(* induction over the row pairs s, s+2, ..., s+2(k-1) *)
Lemma read_pair_lines n (m : qmat) k : wf n m -> forall s,
  s + 2 * k <= n ->
  read_lines (map (pair_line n m) (evens s k)) = Some (map (bordered_row m) (seq s (2 * k))).
Proof.
  intros H. induction k as [|k IH]; intros s Hs.
  - reflexivity.
  - replace (2 * S k) with (S (S (2 * k))) by lia.
    cbn [evens map read_lines seq]. rewrite read_pair_line by (auto; lia).
    rewrite IH by lia. replace (s + 1) with (S s) by lia. reflexivity.
Qed.

(* ------------------------------------------------------------------------------------------------ *)
(* Main theorem                                                                                      *)

Definition expected_picture (n : nat) (m : qmat) : list (list bool) :=
  [repeat false (n + 2)] ++ map (fun r => false :: row_vals m r ++ [false]) (seq 0 n) ++ [repeat false (n + 2)].

Lemma odd_half n : Nat.odd n = true -> exists k, n = 2 * k + 1.
Proof. intros H. apply Nat.odd_spec in H. exact H. Qed.

(* the full picture including the very first half-row (the dark upper halves of the first text line) *)
Theorem read_picture_full : forall n (m : qmat), Nat.odd n = true -> 1 <= n <= 177 -> wf n m ->
  read_picture (print_matrix_with_margin n m) = Some (repeat true (n + 2) :: expected_picture n m).
Proof.
  intros n m Ho Hn Hw. destruct (odd_half n Ho) as [k Hk].
  unfold read_picture. rewrite (text_lines n m k Hk).
  cbn [read_lines]. rewrite read_top_line by lia.
  rewrite (read_lines_app _ [last_line n m] (map (bordered_row m) (seq 0 (2 * k)))
             [bordered_row m (n - 1); repeat false (n + 2)]).
  - unfold expected_picture. cbn [app]. do 2 f_equal.
    replace (seq 0 n) with (seq 0 (2 * k) ++ [n - 1]).
    + rewrite map_app, <- app_assoc. reflexivity.
    + replace n with (S (2 * k)) at 2 by lia. rewrite seq_S. do 2 f_equal. lia.
  - apply read_pair_lines; auto. lia.
  - cbn [read_lines]. rewrite read_last_line by auto. reflexivity.
Qed.

Theorem terminal_spec : forall n (m : qmat), Nat.odd n = true -> 1 <= n <= 177 -> wf n m ->
  let text := print_matrix_with_margin n m in
  length (split_lines text) = (n + 1) / 2 + 1 /\
  Forall (fun line => length line = n + 2) (split_lines text) /\
  Forall (Forall (fun c => In c [32; 9608; 9600; 9604]%N)) (split_lines text) /\
  option_map (@tl (list bool)) (read_picture text) =
    Some ([repeat false (n + 2)] ++ map (fun r => false :: row_vals m r ++ [false]) (seq 0 n) ++ [repeat false (n + 2)]).
Proof.
  intros n m Ho Hn Hw text. subst text. destruct (odd_half n Ho) as [k Hk].
  rewrite (read_picture_full n m Ho Hn Hw). rewrite (text_lines n m k Hk).
  assert (HL : forall (P : list N -> Prop), (forall a b l1 l2, P (tline a b l1 l2 n)) ->
               Forall P (top_line n :: map (pair_line n m) (evens 0 k) ++ [last_line n m])).
  { intros P HP. constructor; [apply HP|]. apply Forall_app. split.
    - apply Forall_forall. intros l Hl. apply in_map_iff in Hl as [i [<- _]]. apply HP.
    - constructor; [apply HP|constructor]. }
  split; [|split; [|split]].
  - cbn [length]. rewrite app_length, map_length. cbn [length].
    assert (HE : forall s, length (evens s k) = k).
    { clear. induction k as [|k IH]; intros s; cbn [evens length]; auto. }
    rewrite HE. subst n. replace (2 * k + 1 + 1) with ((k + 1) * 2) by lia.
    rewrite Nat.div_mul by lia. lia.
  - apply HL. intros a b l1 l2. apply tline_length.
  - apply HL. intros a b l1 l2. apply tline_four.
  - reflexivity.
Qed.

(* the first half-row, dropped in terminal_spec, lies outside the picture: it is the dark upper half of the
   first text line, whose lower half is the top border *)
Corollary terminal_first_half_row : forall n (m : qmat), Nat.odd n = true -> 1 <= n <= 177 -> wf n m ->
  option_map (@hd (list bool) []) (read_picture (print_matrix_with_margin n m)) = Some (repeat true (n + 2)).
Proof. intros n m Ho Hn Hw. now rewrite (read_picture_full n m Ho Hn Hw). Qed.
