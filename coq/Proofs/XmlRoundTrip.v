(* Generic facts about the recogniser Spec/Xml.v: a printer for "flat" documents (a root element whose children are
   empty-element tags) and the theorem that xml_parse inverts it. Nothing here mentions the SVG model. *)
From Coq Require Import NArith List Bool Arith Lia.
From Coq Require Import ZifyBool ZifyNat ZifyN.
From FQ Require Import Lib.ListX Spec.Xml.
Import ListNotations.
Local Open Scope N_scope.
Arguments N.add : simpl never. Arguments N.sub : simpl never. Arguments N.mul : simpl never.
Arguments N.eqb : simpl never. Arguments N.ltb : simpl never. Arguments N.leb : simpl never.
Arguments N.div : simpl never. Arguments N.modulo : simpl never.

(* ------------------------------------------------------------------------------------------------------------ *)
(* small list facts                                                                                              *)

Lemma has_app c a b : has c (a ++ b) = has c a || has c b.
Proof. unfold has. apply existsb_app. Qed.

Lemma has_cons c x a : has c (x :: a) = (c =? x) || has c a.
Proof. reflexivity. Qed.

Lemma has_false_forall c a : has c a = false <-> forallb (fun x => negb (c =? x)) a = true.
Proof.
  induction a as [|x a IH]; cbn; [tauto|].
  rewrite orb_false_iff, andb_true_iff, negb_true_iff, IH. tauto.
Qed.

Lemma list_eqb_N_refl l : list_eqb N.eqb l l = true.
Proof. induction l as [|x l IH]; cbn; auto. now rewrite N.eqb_refl, IH. Qed.

Lemma list_eqb_N_eq a b : list_eqb N.eqb a b = true -> a = b.
Proof. apply list_eqb_eq. intros x y H. now apply N.eqb_eq. Qed.

Lemma list_eqb_N_neq a b : a <> b -> list_eqb N.eqb a b = false.
Proof. intros H. destruct (list_eqb N.eqb a b) eqn:E; auto. now apply list_eqb_N_eq in E. Qed.

(* ------------------------------------------------------------------------------------------------------------ *)
(* split_on                                                                                                      *)

Lemma split_on_nonempty c s : split_on c s <> [].
Proof.
  induction s as [|x t IH]; cbn; [discriminate|].
  destruct (x =? c); [discriminate|]. destruct (split_on c t); [contradiction|discriminate].
Qed.

Lemma split_on_none c a : has c a = false -> split_on c a = [a].
Proof.
  induction a as [|x a IH]; [reflexivity|].
  rewrite has_cons. intros H. apply orb_false_iff in H as [H1 H2].
  cbn [split_on]. rewrite N.eqb_sym, H1. now rewrite IH.
Qed.

Lemma split_on_app_sep c a b : has c a = false -> split_on c (a ++ c :: b) = a :: split_on c b.
Proof.
  induction a as [|x a IH]; cbn [app split_on].
  - intros _. now rewrite N.eqb_refl.
  - rewrite has_cons. intros H. apply orb_false_iff in H as [H1 H2].
    rewrite N.eqb_sym, H1. now rewrite IH.
Qed.

(* ------------------------------------------------------------------------------------------------------------ *)
(* characters                                                                                                    *)

Definition ascii_byte_ok (a : N) : bool := (a <? 128) && ascii_char_ok a.
Definition ascii_ok (l : list N) : bool := forallb ascii_byte_ok l.

Lemma ascii_ok_app a b : ascii_ok (a ++ b) = ascii_ok a && ascii_ok b.
Proof. apply forallb_app. Qed.

Lemma chars_ok_ascii_app a b : ascii_ok a = true -> chars_ok (a ++ b) = chars_ok b.
Proof.
  induction a as [|x a IH]; cbn [app ascii_ok forallb]; auto.
  intros H. apply andb_prop in H as [H1 H2]. unfold ascii_byte_ok in H1. apply andb_prop in H1 as [H1 H3].
  cbn [chars_ok]. rewrite H1, H3. cbn. now apply IH.
Qed.

Lemma chars_ok_ascii a : ascii_ok a = true -> chars_ok a = true.
Proof. intros H. rewrite <- (app_nil_r a). now rewrite chars_ok_ascii_app. Qed.

(* a valid prefix can be split off: proved by induction on a bound of the length, four bytes at a time *)
Lemma chars_ok_app_aux n : forall a b, (length a <= n)%nat -> chars_ok a = true -> chars_ok (a ++ b) = chars_ok b.
Proof.
  induction n as [|n IH]; intros a b Hl Ha.
  - destruct a; [reflexivity|cbn in Hl; lia].
  - destruct a as [|x a]; [reflexivity|].
    cbn [app]. cbn [chars_ok] in *. cbn [length] in Hl.
    destruct (x <? 128).
    + apply andb_prop in Ha as [H1 H2]. rewrite H1. cbn. apply IH; [lia|auto].
    + destruct (x <? 194); [discriminate|].
      destruct (x <? 224).
      * destruct a as [|y a]; [discriminate|]. cbn [app]. apply andb_prop in Ha as [H1 H2]. rewrite H1. cbn.
        apply IH; [cbn [length] in Hl; lia|auto].
      * destruct (x <? 240).
        -- destruct a as [|y [|z a]]; try discriminate. cbn [app].
           apply andb_prop in Ha as [H1 H2]. rewrite H1. cbn. apply IH; [cbn [length] in Hl; lia|auto].
        -- destruct (x <? 245); [|discriminate].
           destruct a as [|y [|z [|w a]]]; try discriminate. cbn [app].
           apply andb_prop in Ha as [H1 H2]. rewrite H1. cbn. apply IH; [cbn [length] in Hl; lia|auto].
Qed.

Lemma chars_ok_app a b : chars_ok a = true -> chars_ok (a ++ b) = chars_ok b.
Proof. apply (chars_ok_app_aux (length a)). lia. Qed.

Lemma chars_ok_app_true a b : chars_ok a = true -> chars_ok b = true -> chars_ok (a ++ b) = true.
Proof. intros Ha Hb. now rewrite chars_ok_app. Qed.

(* ------------------------------------------------------------------------------------------------------------ *)
(* names                                                                                                         *)

Lemma name_char_facts c : is_name_char c = true ->
  c <> 34 /\ c <> 60 /\ c <> 62 /\ c <> 32 /\ c <> 47 /\ c <> 61 /\ c <> 38 /\ ascii_byte_ok c = true.
Proof.
  unfold is_name_char, is_name_start, is_alpha, is_digit, ascii_byte_ok, ascii_char_ok. intros H.
  repeat split; lia.
Qed.

Lemma name_start_char c : is_name_start c = true -> is_name_char c = true.
Proof. unfold is_name_char. intros ->. reflexivity. Qed.

Lemma name_ok_chars nm : name_ok nm = true -> forallb is_name_char nm = true /\ nm <> [].
Proof.
  destruct nm as [|c t]; cbn; [discriminate|]. intros H. apply andb_prop in H as [H1 H2].
  rewrite (name_start_char c H1), H2. split; [reflexivity|discriminate].
Qed.

Lemma name_chars_has c nm : forallb is_name_char nm = true -> is_name_char c = false -> has c nm = false.
Proof.
  intros H Hc. apply has_false_forall. rewrite forallb_forall in *. intros x Hx. specialize (H x Hx).
  apply negb_true_iff. apply N.eqb_neq. intros ->. congruence.
Qed.

Lemma name_chars_ascii nm : forallb is_name_char nm = true -> ascii_ok nm = true.
Proof.
  unfold ascii_ok. rewrite !forallb_forall. intros H x Hx. now apply name_char_facts, H.
Qed.

Lemma span_name_app nm r :
  forallb is_name_char nm = true -> (match r with [] => true | c :: _ => negb (is_name_char c) end = true) ->
  span_name (nm ++ r) = (nm, r).
Proof.
  induction nm as [|c nm IH]; cbn [app forallb]; intros H Hr.
  - destruct r as [|c r]; [reflexivity|]. cbn. apply negb_true_iff in Hr. now rewrite Hr.
  - apply andb_prop in H as [H1 H2]. cbn [span_name]. rewrite H1, (IH H2 Hr). reflexivity.
Qed.

(* ------------------------------------------------------------------------------------------------------------ *)
(* the printer                                                                                                   *)

Definition attrs := list (list N * list N).

Definition attr_text (kv : list N * list N) : list N := [32] ++ fst kv ++ [61; 34] ++ snd kv ++ [34].
Definition attrs_text (l : attrs) : list N := flat_map attr_text l.

(* closer: the text between the last attribute and '>': [] for a start tag, "/" or " /" for an empty-element tag *)
Definition closer_ok (cl : list N) : bool := list_eqb N.eqb cl [] || list_eqb N.eqb cl [47] || list_eqb N.eqb cl [32; 47].
Definition closer_empty (cl : list N) : bool := negb (list_eqb N.eqb cl []).
Definition tag_body (nm : list N) (l : attrs) (cl : list N) : list N := nm ++ attrs_text l ++ cl.
Definition tag_text (nm : list N) (l : attrs) (cl : list N) : list N := [60] ++ tag_body nm l cl ++ [62].
Definition end_tag_text (nm : list N) : list N := [60; 47] ++ nm ++ [62].

(* a raw attribute value v that the recogniser reads as d *)
Definition value_ok (v d : list N) : Prop :=
  unescape v = Some d /\ has 34 v = false /\ has 60 v = false /\ has 62 v = false /\ chars_ok v = true.

Definition attrs_ok (raw dec : attrs) : Prop :=
  Forall2 (fun r d => fst r = fst d /\ name_ok (fst r) = true /\ value_ok (snd r) (snd d)) raw dec.

(* ---- pieces of a tag body ---- *)
Fixpoint pieces_tail (l : attrs) (cl : list N) : list (list N) :=
  match l with
  | [] => [cl]
  | kv :: l' => (32 :: fst kv ++ [61]) :: snd kv :: pieces_tail l' cl
  end.

Lemma closer_cases cl : closer_ok cl = true -> cl = [] \/ cl = [47] \/ cl = [32; 47].
Proof.
  unfold closer_ok. intros H. apply orb_prop in H as [H|H]; [apply orb_prop in H as [H|H]|];
    apply list_eqb_N_eq in H; auto.
Qed.

Lemma split_attrs pre l cl dec :
  has 34 pre = false -> closer_ok cl = true -> attrs_ok l dec ->
  split_on 34 (pre ++ attrs_text l ++ cl) =
    match l with
    | [] => [pre ++ cl]
    | kv :: l' => (pre ++ 32 :: fst kv ++ [61]) :: snd kv :: pieces_tail l' cl
    end.
Proof.
  intros Hpre Hcl Hok. revert pre Hpre. induction Hok as [|kv d l dl Hkv Hrest IH]; intros pre Hpre.
  - cbn [attrs_text flat_map app]. apply split_on_none. rewrite has_app, Hpre.
    destruct (closer_cases cl Hcl) as [ -> | [ -> | -> ] ]; reflexivity.
  - destruct Hkv as (_ & Hk & Hv). destruct Hv as (_ & Hq & _).
    cbn [attrs_text flat_map]. unfold attr_text at 1.
    match goal with |- split_on 34 ?x = _ =>
      replace x with ((pre ++ 32 :: fst kv ++ [61]) ++ 34 :: (snd kv ++ 34 :: ([] ++ attrs_text l ++ cl))) end.
    2:{ unfold attrs_text. cbn [app]. rewrite <- !app_assoc. cbn [app]. rewrite <- !app_assoc. reflexivity. }
    rewrite split_on_app_sep.
    2:{ rewrite has_app, Hpre. cbn [orb]. rewrite has_cons. cbn [N.eqb]. rewrite has_app.
        destruct (name_ok_chars _ Hk) as [Hc _].
        rewrite (name_chars_has 34 _ Hc) by reflexivity. reflexivity. }
    rewrite split_on_app_sep by exact Hq.
    rewrite (IH []) by reflexivity. f_equal. f_equal.
    destruct l as [|kv' l']; reflexivity.
Qed.

Lemma attr_key_ok k : name_ok k = true -> attr_key (32 :: k ++ [61]) = Some k.
Proof.
  intros H. unfold attr_key. rewrite rev_app_distr. cbn [rev app]. rewrite rev_involutive, H. reflexivity.
Qed.

Lemma tag_tail_ok cl : closer_ok cl = true -> tag_tail cl = Some (closer_empty cl).
Proof. intros H. destruct (closer_cases cl H) as [ -> | [ -> | -> ] ]; reflexivity. Qed.

Lemma attrs_of_pieces l dec cl :
  closer_ok cl = true -> attrs_ok l dec -> attrs_of (pieces_tail l cl) = Some (dec, closer_empty cl).
Proof.
  intros Hcl Hok. induction Hok as [|kv d l dl Hkv Hrest IH].
  - cbn [pieces_tail attrs_of]. now rewrite tag_tail_ok.
  - destruct Hkv as (Hkd & Hk & Hv). destruct Hv as (Hu & _).
    cbn [pieces_tail attrs_of]. rewrite attr_key_ok by exact Hk. rewrite Hu, IH.
    destruct d as [dk dv]. cbn [fst snd] in *. subst dk. reflexivity.
Qed.

Lemma attrs_ok_keys l dec : attrs_ok l dec -> map fst dec = map fst l.
Proof. induction 1 as [|kv d l dl Hkv _ IH]; cbn; auto. destruct Hkv as [-> _]. now rewrite IH. Qed.

(* ---- one tag ---- *)
Definition tok_of (nm : list N) (dec : attrs) (cl : list N) : token :=
  if closer_empty cl then TEmpty nm dec else TStart nm dec.

Lemma parse_tag_body nm l dec cl :
  name_ok nm = true -> closer_ok cl = true -> attrs_ok l dec -> nodup_keys (map fst l) = true ->
  parse_tag (tag_body nm l cl) = Some (tok_of nm dec cl).
Proof.
  intros Hnm Hcl Hok Hnd. destruct (name_ok_chars nm Hnm) as [Hc Hne].
  unfold parse_tag, tag_body.
  assert (Hend : is_end_tag (nm ++ attrs_text l ++ cl) = false).
  { destruct nm as [|c t]; [congruence|]. cbn. cbn in Hc. apply andb_prop in Hc as [Hc _].
    apply name_char_facts in Hc. apply N.eqb_neq. tauto. }
  rewrite Hend.
  rewrite (split_attrs nm l cl dec) by (auto; now apply name_chars_has).
  assert (Hsp : forall r, match r with [] => true | c :: _ => negb (is_name_char c) end = true ->
                span_name (nm ++ r) = (nm, r)) by (intros r; now apply span_name_app).
  destruct l as [|kv l'].
  - inversion Hok; subst. rewrite Hsp.
    2:{ destruct (closer_cases cl Hcl) as [ -> | [ -> | -> ] ]; reflexivity. }
    rewrite Hnm. change [cl] with (pieces_tail [] cl). rewrite (attrs_of_pieces [] [] cl Hcl) by constructor.
    reflexivity.
  - rewrite Hsp by reflexivity. rewrite Hnm.
    change ((32 :: fst kv ++ [61]) :: snd kv :: pieces_tail l' cl) with (pieces_tail (kv :: l') cl).
    rewrite (attrs_of_pieces _ dec cl Hcl Hok). rewrite (attrs_ok_keys _ _ Hok), Hnd. reflexivity.
Qed.

Lemma parse_end_tag nm : name_ok nm = true -> parse_tag (47 :: nm) = Some (TEnd nm).
Proof. intros H. unfold parse_tag. cbn [is_end_tag tl]. rewrite N.eqb_refl, H. reflexivity. Qed.

(* the body of a tag contains neither '<' nor '>' and is made of XML characters *)
Lemma attrs_text_clean l dec : attrs_ok l dec ->
  has 60 (attrs_text l) = false /\ has 62 (attrs_text l) = false /\ chars_ok (attrs_text l) = true.
Proof.
  induction 1 as [|kv d l dl Hkv _ IH]; [repeat split; reflexivity|].
  destruct Hkv as (_ & Hk & Hv). destruct Hv as (_ & _ & H60 & H62 & Hch). destruct IH as (I60 & I62 & Ich).
  destruct (name_ok_chars _ Hk) as [Hc _].
  cbn [attrs_text flat_map]. fold (attrs_text l). unfold attr_text.
  repeat split.
  - rewrite !has_app, I60, H60, (name_chars_has 60 _ Hc) by reflexivity. reflexivity.
  - rewrite !has_app, I62, H62, (name_chars_has 62 _ Hc) by reflexivity. reflexivity.
  - rewrite <- !app_assoc.
    rewrite (chars_ok_ascii_app [32]) by reflexivity.
    rewrite chars_ok_ascii_app by now apply name_chars_ascii.
    rewrite (chars_ok_ascii_app [61; 34]) by reflexivity.
    rewrite chars_ok_app by exact Hch.
    rewrite (chars_ok_ascii_app [34]) by reflexivity. exact Ich.
Qed.

Lemma tag_body_clean nm l dec cl :
  name_ok nm = true -> closer_ok cl = true -> attrs_ok l dec ->
  has 60 (tag_body nm l cl) = false /\ has 62 (tag_body nm l cl) = false /\ chars_ok (tag_body nm l cl) = true.
Proof.
  intros Hnm Hcl Hok. destruct (name_ok_chars nm Hnm) as [Hc _].
  destruct (attrs_text_clean l dec Hok) as (H60 & H62 & Hch). unfold tag_body.
  assert (Hcl' : has 60 cl = false /\ has 62 cl = false /\ ascii_ok cl = true)
    by (destruct (closer_cases cl Hcl) as [ -> | [ -> | -> ] ]; repeat split; reflexivity).
  destruct Hcl' as (C60 & C62 & Cch).
  repeat split.
  - rewrite !has_app, H60, C60, (name_chars_has 60 _ Hc) by reflexivity. reflexivity.
  - rewrite !has_app, H62, C62, (name_chars_has 62 _ Hc) by reflexivity. reflexivity.
  - rewrite chars_ok_ascii_app by now apply name_chars_ascii. rewrite chars_ok_app by exact Hch.
    now apply chars_ok_ascii.
Qed.

(* ------------------------------------------------------------------------------------------------------------ *)
(* flat documents                                                                                                *)

(* a child: element name, raw attributes, closer ("/" or " /") *)
Definition child := (list N * attrs * list N)%type.
Definition child_text (ch : child) : list N := let '(nm, l, cl) := ch in tag_text nm l cl.
Definition flat_doc_text (root : list N) (rl : attrs) (cs : list child) : list N :=
  tag_text root rl [] ++ flat_map child_text cs ++ end_tag_text root.

(* the same children as read by the recogniser *)
Definition dchild := (list N * attrs)%type.
Definition child_ok (ch : child) (d : dchild) : Prop :=
  let '(nm, l, cl) := ch in
  nm = fst d /\ name_ok nm = true /\ closer_ok cl = true /\ closer_empty cl = true /\ attrs_ok l (snd d)
  /\ nodup_keys (map fst l) = true.
Definition leaf (d : dchild) : node := Elem (fst d) (snd d) [].

(* bodies *)
Definition child_body (ch : child) : list N := let '(nm, l, cl) := ch in tag_body nm l cl.

Lemma tags_cons body rest :
  has 60 body = false -> has 62 body = false ->
  tags ([60] ++ body ++ [62] ++ rest) = match tags rest with Some l => Some (body :: l) | None => None end.
Proof.
  intros H60 H62. unfold tags. cbn [app]. cbn [split_on]. change (60 =? 62) with false. cbv iota.
  replace (body ++ 62 :: rest) with (body ++ 62 :: rest) by reflexivity.
  rewrite split_on_app_sep by exact H62.
  cbn [tag_bodies]. rewrite N.eqb_refl, H60. cbn [negb andb].
  destruct (split_on 62 rest) as [|p ps] eqn:E; [now apply split_on_nonempty in E|].
  reflexivity.
Qed.

Lemma tags_nil : tags [] = Some [].
Proof. reflexivity. Qed.

Lemma tags_children cs ds rest :
  Forall2 child_ok cs ds ->
  tags (flat_map child_text cs ++ rest) =
    match tags rest with Some l => Some (map child_body cs ++ l) | None => None end.
Proof.
  induction 1 as [|ch d cs ds Hch _ IH]; cbn [flat_map map app].
  - destruct (tags rest); reflexivity.
  - destruct ch as [[nm l] cl]. destruct Hch as (_ & Hnm & Hcl & _ & Hok & _).
    destruct (tag_body_clean nm l (snd d) cl Hnm Hcl Hok) as (H60 & H62 & _).
    unfold child_text at 1. unfold tag_text. rewrite <- !app_assoc.
    rewrite tags_cons by assumption. rewrite IH. cbn [child_body]. destruct (tags rest); reflexivity.
Qed.

Lemma map_opt_app {A B} (f : A -> option B) a b :
  map_opt f (a ++ b) = match map_opt f a, map_opt f b with Some x, Some y => Some (x ++ y) | _, _ => None end.
Proof.
  induction a as [|x a IH]; cbn [app map_opt].
  - destruct (map_opt f b); reflexivity.
  - destruct (f x); [|reflexivity]. rewrite IH. destruct (map_opt f a), (map_opt f b); reflexivity.
Qed.

Lemma map_opt_children cs ds :
  Forall2 child_ok cs ds ->
  map_opt parse_tag (map child_body cs) = Some (map (fun d => TEmpty (fst d) (snd d)) ds).
Proof.
  induction 1 as [|ch d cs ds Hch _ IH]; [reflexivity|].
  destruct ch as [[nm l] cl]. destruct Hch as (Hd & Hnm & Hcl & Hem & Hok & Hnd).
  cbn [map map_opt child_body]. rewrite (parse_tag_body nm l (snd d) cl) by assumption. rewrite IH.
  unfold tok_of. rewrite Hem. subst nm. reflexivity.
Qed.

Lemma build_children root ra ds : forall acc,
  build (map (fun d => TEmpty (fst d) (snd d)) ds ++ [TEnd root]) [(root, ra, acc)]
  = Some (Elem root ra (rev acc ++ map leaf ds)).
Proof.
  induction ds as [|d ds IH]; intros acc; cbn [map app].
  - cbn [build]. rewrite list_eqb_N_refl. cbn [close_into]. now rewrite app_nil_r.
  - cbn [build close_into].
    assert (Hmore : match map (fun d0 : dchild => TEmpty (fst d0) (snd d0)) ds ++ [TEnd root] with [] => false | _ => true end = true)
      by (destruct ds; reflexivity).
    rewrite IH. cbn [rev]. rewrite <- app_assoc. reflexivity.
Qed.

Lemma chars_ok_children cs ds rest :
  Forall2 child_ok cs ds -> chars_ok (flat_map child_text cs ++ rest) = chars_ok rest.
Proof.
  induction 1 as [|ch d cs ds Hch _ IH]; [reflexivity|].
  destruct ch as [[nm l] cl]. destruct Hch as (_ & Hnm & Hcl & _ & Hok & _).
  destruct (tag_body_clean nm l (snd d) cl Hnm Hcl Hok) as (_ & _ & Hc).
  cbn [flat_map]. unfold child_text at 1. unfold tag_text. rewrite <- !app_assoc.
  rewrite (chars_ok_ascii_app [60]) by reflexivity. rewrite chars_ok_app by exact Hc.
  rewrite (chars_ok_ascii_app [62]) by reflexivity. exact IH.
Qed.

Theorem flat_doc_parse root rl rd cs ds :
  name_ok root = true -> attrs_ok rl rd -> nodup_keys (map fst rl) = true ->
  Forall2 child_ok cs ds ->
  xml_parse (flat_doc_text root rl cs) = Some (Elem root rd (map leaf ds)).
Proof.
  intros Hroot Hrl Hnd Hcs. unfold xml_parse, flat_doc_text.
  destruct (tag_body_clean root rl rd [] Hroot eq_refl Hrl) as (R60 & R62 & Rch).
  destruct (name_ok_chars root Hroot) as [Hrc _].
  (* characters *)
  assert (Hchars : chars_ok (tag_text root rl [] ++ flat_map child_text cs ++ end_tag_text root) = true).
  { unfold tag_text. rewrite <- !app_assoc.
    rewrite (chars_ok_ascii_app [60]) by reflexivity. rewrite chars_ok_app by exact Rch.
    rewrite (chars_ok_ascii_app [62]) by reflexivity. rewrite (chars_ok_children cs ds) by exact Hcs.
    unfold end_tag_text. rewrite (chars_ok_ascii_app [60; 47]) by reflexivity.
    rewrite chars_ok_ascii_app by now apply name_chars_ascii. reflexivity. }
  rewrite Hchars.
  (* tags *)
  assert (Htags : tags (tag_text root rl [] ++ flat_map child_text cs ++ end_tag_text root)
                  = Some (tag_body root rl [] :: map child_body cs ++ [47 :: root])).
  { unfold tag_text. rewrite <- !app_assoc. rewrite tags_cons by assumption.
    rewrite (tags_children cs ds) by exact Hcs.
    unfold end_tag_text. change ([60; 47] ++ root ++ [62]) with ([60] ++ (47 :: root) ++ [62] ++ []).
    rewrite tags_cons.
    - rewrite tags_nil. reflexivity.
    - rewrite has_cons. change (60 =? 47) with false. cbn [orb]. now apply name_chars_has.
    - rewrite has_cons. change (62 =? 47) with false. cbn [orb]. now apply name_chars_has. }
  rewrite Htags.
  (* tokens *)
  cbn [map_opt]. rewrite (parse_tag_body root rl rd []) by auto.
  rewrite map_opt_app, (map_opt_children cs ds) by exact Hcs.
  cbn [map_opt]. rewrite parse_end_tag by exact Hroot.
  (* tree *)
  unfold tok_of. cbn [closer_empty list_eqb negb]. cbn [build].
  rewrite build_children. reflexivity.
Qed.
