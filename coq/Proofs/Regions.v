(* From the kernel check "blank symbol = ISO region map" to per-cell statements, and the region facts of a built symbol. *)
From Coq Require Import NArith List Bool Arith Lia.
From FQ Require Import Lib.ListX Lib.Mat Generated.Tables Model.Types Model.Hardcode Model.Default Model.Qr
  Spec.Iso Spec.Oracles Proofs.Tables Proofs.Geometry Proofs.Stages Proofs.Plans Proofs.Final Proofs.BuildMatrix.
Import ListNotations.

Lemma all2_nth {A B} (f : A -> B -> bool) (da : A) (db : B) : forall a b,
  all2 f a b = true -> length a = length b /\ forall i, i < length a -> f (nth i a da) (nth i b db) = true.
Proof.
  induction a as [|x a IH]; intros [|y b] H; cbn [all2] in H; try discriminate.
  - split; [reflexivity | intros i Hi; cbn in Hi; lia].
  - apply andb_prop in H as [H1 H2]. destruct (IH b H2) as [L G]. split; [cbn; lia|].
    intros [|i] Hi; cbn [nth]; [exact H1 | apply G; cbn in Hi; lia].
Qed.

Lemma nth_map_seq {B} (g : N -> B) (d : B) n i : i < n ->
  nth i (map g (map N.of_nat (seq 0 n))) d = g (N.of_nat i).
Proof.
  intros Hi. rewrite map_map.
  rewrite (nth_indep _ d (g (N.of_nat 0))) by (now rewrite map_length, seq_length).
  rewrite (map_nth (fun x => g (N.of_nat x)) (seq 0 n) 0 i). now rewrite seq_nth.
Qed.

Lemma iso_region_map_nth v r c : r < iso_size v -> c < iso_size v ->
  nth c (nth r (iso_region_map v) []) RSeparator = iso_region v r c.
Proof.
  intros Hr Hc. unfold iso_region_map, iso_region.
  rewrite (nth_map_seq _ [] _ r Hr). now rewrite (nth_map_seq _ RSeparator _ c Hc).
Qed.

Theorem blank_cell_is_region v r c : v < 40 -> r < version_size v -> c < version_size v ->
  version_size v = iso_size v /\ cell_matches (qget (blank v) r c) (iso_region v r c) = true.
Proof.
  intros Hv Hr Hc. pose proof (blank_is_iso v Hv) as H. unfold blank_ok in H.
  apply andb_prop in H as [Hs H]. apply Nat.eqb_eq in Hs. split; [exact Hs|].
  destruct (all2_nth _ [] [] _ _ H) as [L G].
  destruct (blank_wf v) as [Hl Hf]. rewrite Hl in G. specialize (G r Hr).
  destruct (all2_nth _ dflt_cell RSeparator _ _ G) as [L2 G2].
  rewrite (wf_row (version_size v) (blank v) r) in G2 by (try split; auto). specialize (G2 c Hc).
  rewrite iso_region_map_nth in G2 by lia. exact G2.
Qed.

(* ---- what every cell of a built matrix is, in terms of the ISO region *)
Theorem final_label v e k bytes r c : v < 40 -> k < 8 -> r < version_size v -> c < version_size v ->
  fst (qget (final_matrix v e k bytes) r c) = region_type (iso_region v r c).
Proof.
  intros Hv Hk Hr Hc. unfold final_matrix. rewrite final_type by auto.
  destruct (blank_cell_is_region v r c Hv Hr Hc) as [_ M]. unfold cell_matches in M.
  apply andb_prop in M as [M _]. now apply N.eqb_eq.
Qed.

Theorem final_fixed_value v e k bytes r c b : v < 40 -> k < 8 -> r < version_size v -> c < version_size v ->
  region_value (iso_region v r c) = Some b -> snd (qget (final_matrix v e k bytes) r c) = b.
Proof.
  intros Hv Hk Hr Hc Hb. destruct (blank_cell_is_region v r c Hv Hr Hc) as [_ M]. unfold cell_matches in M.
  apply andb_prop in M as [Mt Mv]. apply N.eqb_eq in Mt. rewrite Hb in Mv. apply eqb_prop in Mv.
  unfold final_matrix. rewrite final_fixed; auto; rewrite Mt; destruct (iso_region v r c); cbn in Hb |- *; try discriminate.
Qed.
