(* Every Data-typed cell of the blank symbol is visited by the placement walk (counting argument), so every such cell has
   an index in the ISO read order. *)
From Coq Require Import NArith List Bool Arith Lia FinFun.
From FQ Require Import Lib.ListX Lib.Mat Generated.Tables Model.Types Model.Hardcode Model.Default Model.Placement Model.Qr
  Spec.Iso Proofs.Tables Proofs.Geometry Proofs.Stages Proofs.Plans.
Import ListNotations.

Definition all_coords (n : nat) : list (nat * nat) := list_prod (seq 0 n) (seq 0 n).
Definition data_cells_of (B : qmat) (n : nat) : list (nat * nat) :=
  filter (fun p => is_data (qget B (fst p) (snd p))) (all_coords n).
Definition data_cells (v : nat) : list (nat * nat) := data_cells_of (blank v) (version_size v).

Lemma NoDup_app_intro {A} (l1 l2 : list A) : NoDup l1 -> NoDup l2 -> (forall x, In x l1 -> ~ In x l2) -> NoDup (l1 ++ l2).
Proof.
  induction 1 as [|x l1 Hx H1 IH]; intros H2 Hd; cbn [app]; [exact H2|].
  constructor.
  - intros Hin. apply in_app_or in Hin as [Hin|Hin]; [contradiction | apply (Hd x); [now left | exact Hin]].
  - apply IH; [exact H2 | intros y Hy; apply Hd; now right].
Qed.

Lemma NoDup_list_prod {A B} (a : list A) (b : list B) : NoDup a -> NoDup b -> NoDup (list_prod a b).
Proof.
  intros Ha Hb. induction Ha as [|x a Hx Ha IH]; cbn [list_prod]; [constructor|].
  apply NoDup_app_intro.
  - apply FinFun.Injective_map_NoDup; [|exact Hb]. intros y z E. now inversion E.
  - exact IH.
  - intros p H1 H2. apply in_map_iff in H1 as (y & <- & _). apply in_prod_iff in H2 as [H2 _]. contradiction.
Qed.

Definition data_count_ok (v : nat) : bool := length (data_cells v) =? length (iso_data_coords v).
Lemma data_count_check : forallb data_count_ok all_versions = true.
Proof. vm_compute. reflexivity. Qed.

Lemma index_of_in (q : nat * nat) l : In q l -> exists j, index_of q l = Some j /\ j < length l.
Proof.
  induction l as [|p l IH]; intros H; [destruct H|]. cbn [index_of length].
  destruct (coord_eqb_spec p q) as [E|NE]; [exists 0; split; [reflexivity | lia]|].
  destruct H as [H|H]; [congruence|]. destruct (IH H) as (j & Hj & Hl). exists (S j). rewrite Hj. split; [reflexivity | lia].
Qed.

Theorem data_cell_has_index v r c : v < 40 -> r < version_size v -> c < version_size v ->
  fst (qget (blank v) r c) = T_DATA ->
  exists j, index_of (r, c) (iso_data_coords v) = Some j /\ j < length (iso_data_coords v).
Proof.
  intros Hv Hr Hc Ht. apply index_of_in.
  destruct (place_plan v Hv) as (Hvis & Hnd & Hrange).
  assert (Hincl : incl (iso_data_coords v) (data_cells v)).
  { intros p Hp. unfold data_cells, data_cells_of. apply filter_In. split.
    - rewrite Forall_forall in Hrange. destruct (Hrange p Hp) as [A B]. destruct p as [a b].
      apply in_prod; apply in_seq; cbn [fst snd] in *; lia.
    - rewrite <- Hvis in Hp. unfold data_visits in Hp. now apply filter_In in Hp as [_ Hd]. }
  assert (Hlen : length (data_cells v) <= length (iso_data_coords v)).
  { pose proof (forallb_In _ _ _ data_count_check (in_versions v Hv)) as C. unfold data_count_ok in C. apply Nat.eqb_eq in C. lia. }
  pose proof (NoDup_length_incl Hnd Hlen Hincl) as Hback.
  apply Hback. unfold data_cells, data_cells_of. apply filter_In. split.
  - apply in_prod; apply in_seq; lia.
  - cbn [fst snd]. unfold is_data. now rewrite Ht.
Qed.
