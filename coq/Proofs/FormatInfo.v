(* C04 at the level of build *)
From Coq Require Import NArith List Bool Arith Lia.
From FQ Require Import Lib.Mat Model.Types Model.Hardcode Model.Qr Spec.Iso Spec.Oracles
  Proofs.Tables Proofs.Build Proofs.BuildMatrix Proofs.Readout.
Import ListNotations.

Theorem build_format_info input o q : options_wf o -> build input o = Ok q ->
  let m := vals (q_mat q) in
  let w := iso_format_word (ecl_idx (q_ecl q)) (q_mask q) in
  read_word m iso_format_pos1 15 = w /\ read_word m (iso_format_pos2 (q_size q)) 15 = w /\
  iso_find_format w = Some (ecl_idx (q_ecl q), q_mask q) /\
  (6 <= q_version q ->
     read_word m (iso_version_pos1 (q_size q)) 18 = iso_version_word (q_version q) /\
     read_word m (iso_version_pos2 (q_size q)) 18 = iso_version_word (q_version q)).
Proof.
  intros W H. cbn zeta.
  destruct (build_ok_matrix input o q W H) as (Hv & Hk & Hs & _ & _ & _ & _ & Hm).
  rewrite Hm, Hs. set (bytes := stream_of input (q_ecl q) (q_mode q) (q_version q)).
  destruct (format_readback (q_version q) (q_ecl q) (q_mask q) bytes Hv Hk) as [F1 F2]. cbn zeta in F1, F2.
  rewrite (format_table_is_bch _ _ Hk) in F1, F2.
  split; [exact F1|]. split; [exact F2|]. split.
  - apply find_format_word; [apply ecl_idx_lt | exact Hk].
  - intros H6. apply version_readback; auto.
Qed.
