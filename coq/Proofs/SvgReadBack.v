(* C12, part (c): what the attribute values of the expected document mean.
   - a path's d attribute splits at 'M' into exactly one sub-path per dark module, in row-major order, and each
     sub-path reads back (Spec/SvgDoc.anchor) as the corner (column + margin, row + margin) of its module;
   - decimal numbers and colours read back as the values they were printed from. *)
From Coq Require Import String Ascii NArith ZArith List Bool Arith Lia.
From Coq Require Import ZifyBool ZifyNat ZifyN.
From FQ Require Import Lib.ListX Lib.Mat Model.Types Model.Svg Spec.Xml Spec.SvgDoc Proofs.XmlRoundTrip.
Import ListNotations.
Local Open Scope N_scope.
Ltac Zify.zify_post_hook ::= Z.div_mod_to_equations.
Arguments N.add : simpl never. Arguments N.sub : simpl never. Arguments N.mul : simpl never.
Arguments N.eqb : simpl never. Arguments N.ltb : simpl never. Arguments N.leb : simpl never.
Arguments N.div : simpl never. Arguments N.modulo : simpl never. Arguments N.pow : simpl never.

(* ------------------------------------------------------------------------------------------------------------ *)
(* decimal printing                                                                                              *)

Definition step (a d : N) : N := 10 * a + (d - 48).

Lemma dec_aux_acc f : forall n acc, dec_aux f n acc = dec_aux f n [] ++ acc.
Proof.
  induction f as [|f IH]; intros n acc; cbn [dec_aux]; [reflexivity|].
  destruct (n / 10 =? 0); [reflexivity|].
  rewrite (IH (n / 10) (_ :: acc)), (IH (n / 10) [_]). now rewrite <- app_assoc.
Qed.

Lemma dec_aux_S f n : dec_aux (S f) n [] = if n / 10 =? 0 then [48 + n mod 10] else dec_aux f (n / 10) [] ++ [48 + n mod 10].
Proof. cbn [dec_aux]. destruct (n / 10 =? 0); [reflexivity|]. apply dec_aux_acc. Qed.

Lemma fold_step_app l d a : fold_left step (l ++ [d]) a = step (fold_left step l a) d.
Proof. now rewrite fold_left_app. Qed.

Lemma dec_aux_spec f : forall n, n < 2 ^ N.of_nat f -> (1 <= f)%nat ->
  fold_left step (dec_aux f n []) 0 = n /\ forallb is_digit (dec_aux f n []) = true /\ dec_aux f n [] <> [].
Proof.
  induction f as [|f IH]; intros n Hn Hf; [lia|].
  rewrite dec_aux_S. destruct (n / 10 =? 0) eqn:E.
  - cbn [fold_left forallb]. unfold step, is_digit. repeat split; try lia. discriminate.
  - assert (Hp : 2 ^ N.of_nat (S f) = 2 * 2 ^ N.of_nat f) by (rewrite Nat2N.inj_succ, N.pow_succ_r'; reflexivity).
    destruct f as [|f'].
    { cbn in Hp. change (2 ^ 0) with 1 in Hp. lia. }
    destruct (IH (n / 10)) as (I1 & I2 & I3); [lia|lia|].
    rewrite fold_step_app, I1, forallb_app, I2. cbn [forallb]. unfold step, is_digit. repeat split; try lia.
    intros H. apply app_eq_nil in H as [_ H]. discriminate.
Qed.

Lemma dec_spec n : fold_left step (dec n) 0 = n /\ forallb is_digit (dec n) = true /\ dec n <> [].
Proof.
  unfold dec. apply dec_aux_spec; [|lia].
  rewrite Nat2N.inj_succ, N2Nat.id. destruct n as [|p]; [reflexivity|].
  apply N.log2_spec. reflexivity.
Qed.

(* the number printed by [dec] is read back by the recogniser's decimal reader *)
Theorem number_of_dec n : dec_value (dec n) = n.
Proof. apply dec_spec. Qed.

Lemma dec_digits n : forallb is_digit (dec n) = true.
Proof. apply dec_spec. Qed.

Definition stops (r : list N) : bool := match r with [] => true | ch :: _ => negb (is_digit ch) end.

Lemma take_num_aux_app ds r : forall a, forallb is_digit ds = true -> stops r = true ->
  take_num_aux (ds ++ r) a = (fold_left step ds a, r).
Proof.
  induction ds as [|d ds IH]; intros a Hd Hr; cbn [app fold_left].
  - destruct r as [|ch r]; [reflexivity|]. cbn [take_num_aux]. cbn [stops] in Hr. apply negb_true_iff in Hr.
    now rewrite Hr.
  - cbn [forallb] in Hd. apply andb_prop in Hd as [H1 H2]. cbn [take_num_aux]. rewrite H1. now apply IH.
Qed.

Theorem take_num_dec n r : stops r = true -> take_num (dec n ++ r) = (n, r).
Proof.
  intros Hr. unfold take_num. rewrite take_num_aux_app by (auto using dec_digits).
  f_equal. apply dec_spec.
Qed.

Lemma digits_has ch l : forallb is_digit l = true -> is_digit ch = false -> has ch l = false.
Proof.
  intros H Hc. apply has_false_forall. rewrite forallb_forall in *. intros x Hx. specialize (H x Hx).
  apply negb_true_iff, N.eqb_neq. intros ->. congruence.
Qed.

(* ------------------------------------------------------------------------------------------------------------ *)
(* splitting a path at 'M'                                                                                       *)

Lemma split_on_app_nosep ch a y : has ch a = false ->
  split_on ch (a ++ y) = match split_on ch y with p :: ps => (a ++ p) :: ps | [] => [a] end.
Proof.
  induction a as [|x a IH]; intros H.
  - cbn [app]. destruct (split_on ch y) eqn:E; [now apply split_on_nonempty in E|reflexivity].
  - rewrite has_cons in H. apply orb_false_iff in H as [H1 H2]. cbn [app split_on].
    rewrite N.eqb_sym, H1, (IH H2). destruct (split_on ch y); reflexivity.
Qed.

Lemma split_M {A} (f : A -> list N) (l : list A) :
  (forall p, has 77 (f p) = false) ->
  split_on 77 (flat_map (fun p => 77 :: f p) l) = [] :: map f l.
Proof.
  intros H. induction l as [|p l IH]; [reflexivity|].
  cbn [flat_map map app split_on]. rewrite N.eqb_refl.
  rewrite split_on_app_nosep by apply H. rewrite IH. now rewrite app_nil_r.
Qed.

Lemma subpath_no_M s x y : has 77 (subpath s x y) = false.
Proof.
  destruct s; unfold subpath; rewrite !has_app, !(digits_has 77 (dec _)) by (auto using dec_digits); reflexivity.
Qed.

(* exactly one sub-path per dark module, in the order of [dark] (row by row) *)
Theorem path_subpaths c s n m : subpaths (path_d c s n m) = map (module_subpath c s) (dark n m).
Proof.
  unfold subpaths, path_d. change (bs "M") with [77]. cbn [app]. rewrite split_M; [reflexivity|].
  intros p. apply subpath_no_M.
Qed.

(* ------------------------------------------------------------------------------------------------------------ *)
(* anchors                                                                                                       *)

Lemma anchor_intro s text a r b :
  take_num text = (a, r) -> fst (take_num (drop_until 44 r)) = b ->
  text = subpath s (match s with Circle => a - 1 | _ => a end) b ->
  anchor s text = Some (match s with Circle => a - 1 | _ => a end, b).
Proof.
  intros H1 H2 H3. unfold anchor. rewrite H1. destruct (take_num (drop_until 44 r)) as [b' r'].
  cbn [fst] in H2. subst b'. rewrite <- H3. now rewrite list_eqb_N_refl.
Qed.

Ltac second_number y lit :=
  match goal with |- fst (take_num (drop_until 44 (lit ++ dec y ++ ?r))) = _ =>
    change (fst (take_num (dec y ++ r)) = y); rewrite take_num_dec by reflexivity; reflexivity end.

Theorem anchor_subpath s x y : anchor s (subpath s x y) = Some (x, y).
Proof.
  destruct s.
  - eapply (anchor_intro Square _ x _ y).
    + unfold subpath. apply take_num_dec. reflexivity.
    + second_number y (bs ",").
    + reflexivity.
  - replace (Some (x, y)) with (Some (x + 1 - 1, y)) by (f_equal; f_equal; lia).
    eapply (anchor_intro Circle _ (x + 1) _ y).
    + unfold subpath. apply take_num_dec. reflexivity.
    + second_number y (bs ",").
    + replace (x + 1 - 1) with x by lia. reflexivity.
  - eapply (anchor_intro RoundedSquare _ x _ y).
    + unfold subpath. apply take_num_dec. reflexivity.
    + second_number y (bs ".2,").
    + reflexivity.
  - eapply (anchor_intro Vertical _ x _ y).
    + unfold subpath. apply take_num_dec. reflexivity.
    + second_number y (bs ".1,").
    + reflexivity.
  - eapply (anchor_intro Horizontal _ x _ y).
    + unfold subpath. apply take_num_dec. reflexivity.
    + second_number y (bs ",").
    + reflexivity.
  - eapply (anchor_intro Diamond _ x _ y).
    + unfold subpath. apply take_num_dec. reflexivity.
    + second_number y (bs ".5,").
    + reflexivity.
Qed.

Theorem path_anchors c s n m :
  map (anchor s) (subpaths (path_d c s n m)) =
  map (fun p => Some (N.of_nat (snd p) + c_margin c, N.of_nat (fst p) + c_margin c)) (dark n m).
Proof.
  rewrite path_subpaths, map_map. apply map_ext. intros p. apply anchor_subpath.
Qed.

(* the dark modules: each (row, column) of the symbol whose module is dark, once *)
Theorem dark_spec n m r col :
  In (r, col) (dark n m) <-> (r < n)%nat /\ (col < n)%nat /\ snd (qget m r col) = true.
Proof.
  unfold dark, cells. rewrite filter_In, in_prod_iff, !in_seq. cbn [fst snd].
  split; intros H; repeat split; try tauto; lia.
Qed.

(* ------------------------------------------------------------------------------------------------------------ *)
(* colours                                                                                                       *)

Lemma unhexdig_hexdig d : d < 16 -> unhexdig (hexdig d) = Some d.
Proof.
  intros H. unfold unhexdig, hexdig. destruct (d <? 10) eqn:E.
  - replace ((48 <=? 48 + d) && (48 + d <=? 57)) with true by lia. f_equal. lia.
  - replace ((48 <=? 87 + d) && (87 + d <=? 57)) with false by lia.
    replace ((97 <=? 87 + d) && (87 + d <=? 102)) with true by lia. f_equal. lia.
Qed.

Lemma unhex2_hex2 b : b < 256 -> unhex2 (hexdig (b / 16)) (hexdig (b mod 16)) = Some b.
Proof.
  intros H. unfold unhex2. rewrite !unhexdig_hexdig by lia. f_equal. lia.
Qed.

Theorem color_of_rgba2hex x : rgba_ok x = true -> color_of_hex (rgba2hex x) = Some x.
Proof.
  unfold rgba_ok. intros H. destruct x as [r g b a]. cbn [c_r c_g c_b c_a] in *.
  unfold rgba2hex. cbn [c_r c_g c_b c_a]. unfold hex2. cbn [app].
  destruct (a =? 255) eqn:E; cbn [app color_of_hex]; change (35 =? 35) with true; cbv iota;
    rewrite !unhex2_hex2 by lia; [|reflexivity].
  f_equal. f_equal. lia.
Qed.

(* ------------------------------------------------------------------------------------------------------------ *)
(* fixed-point numbers                                                                                           *)

Lemma dec_head n : exists d r, dec n = d :: r /\ is_digit d = true.
Proof.
  destruct (dec_spec n) as (_ & Hd & Hne). destruct (dec n) as [|d r]; [congruence|].
  cbn [forallb] in Hd. apply andb_prop in Hd as [Hd _]. eauto.
Qed.

Lemma digit_val_digit d : d < 10 -> digit_val (digit d) = Some (Z.of_N d).
Proof.
  intros H. unfold digit_val, digit, is_digit. replace ((48 <=? 48 + d) && (48 + d <=? 57)) with true by lia.
  f_equal. lia.
Qed.

Lemma read_unsigned_dec ip (frac : list N) (f : Z) :
  (frac = [] /\ f = 0%Z) \/ (exists ds, frac = 46 :: ds /\ read_frac ds = Some f) ->
  read_unsigned (dec ip ++ frac) = Some (1000 * Z.of_N ip + f)%Z.
Proof.
  intros H. destruct (dec_head ip) as (d & r & E & Hd). unfold read_unsigned.
  rewrite E at 1. cbn [app]. rewrite Hd.
  destruct H as [[-> ->]|(ds & -> & Hf)].
  - rewrite take_num_dec by reflexivity. f_equal. lia.
  - rewrite take_num_dec by reflexivity. change (46 =? 46) with true. cbv iota. now rewrite Hf.
Qed.

Lemma read_fx_sign (neg : bool) body (a : Z) :
  read_unsigned body = Some a -> (exists d r, body = d :: r /\ is_digit d = true) ->
  read_fx ((if neg then [45] else []) ++ body) = Some (if neg then (- a)%Z else a).
Proof.
  intros Hb (d & r & E & Hd). destruct neg.
  - cbn [app read_fx]. change (45 =? 45) with true. cbv iota. now rewrite Hb.
  - cbn [app]. unfold read_fx. rewrite E. rewrite <- E.
    replace (d =? 45) with false by (unfold is_digit in Hd; lia). exact Hb.
Qed.

Lemma read_fx_signed (t : Z) body (a : Z) :
  read_unsigned body = Some a -> (exists d r, body = d :: r /\ is_digit d = true) ->
  (t < 0 -> t = - a)%Z -> (0 <= t -> t = a)%Z ->
  read_fx ((if (t <? 0)%Z then [45] else []) ++ body) = Some t.
Proof.
  intros Hb Hh Hn Hp. rewrite (read_fx_sign _ body a Hb Hh). f_equal. destruct (t <? 0)%Z eqn:Es; lia.
Qed.

Lemma app_head_digit n (rest : list N) : exists d r, dec n ++ rest = d :: r /\ is_digit d = true.
Proof. destruct (dec_head n) as (d & r & -> & Hd). exists d, (r ++ rest). auto. Qed.

(* the text printed by f64 Display in the model denotes exactly the value *)
Theorem read_fx_to_string t : read_fx (fx_to_string t) = Some t.
Proof.
  unfold fx_to_string.
  set (a := Z.abs_N t). set (ip := a / 1000). set (fr := a mod 1000).
  set (d1 := fr / 100). set (d2 := (fr / 10) mod 10). set (d3 := fr mod 10).
  assert (Hfr : fr < 1000) by (unfold fr; lia).
  assert (Hd1 : d1 < 10) by (unfold d1; lia). assert (Hd2 : d2 < 10) by (unfold d2; lia).
  assert (Hd3 : d3 < 10) by (unfold d3; lia).
  assert (Ha : Z.of_N a = Z.abs t) by (unfold a; lia).
  assert (Hval : Z.of_N a = (1000 * Z.of_N ip + 100 * Z.of_N d1 + 10 * Z.of_N d2 + Z.of_N d3)%Z)
    by (unfold ip, d1, d2, d3, fr; lia).
  destruct (negb (d3 =? 0)) eqn:E3; [|destruct (negb (d2 =? 0)) eqn:E2; [|destruct (negb (d1 =? 0)) eqn:E1]].
  - apply (read_fx_signed t _ (1000 * Z.of_N ip + (100 * Z.of_N d1 + 10 * Z.of_N d2 + Z.of_N d3))%Z);
      [|apply app_head_digit|lia|lia].
    apply read_unsigned_dec. right. eexists. split; [reflexivity|]. cbn [read_frac].
    now rewrite !digit_val_digit by assumption.
  - apply (read_fx_signed t _ (1000 * Z.of_N ip + (100 * Z.of_N d1 + 10 * Z.of_N d2))%Z);
      [|apply app_head_digit|lia|lia].
    apply read_unsigned_dec. right. eexists. split; [reflexivity|]. cbn [read_frac].
    now rewrite !digit_val_digit by assumption.
  - apply (read_fx_signed t _ (1000 * Z.of_N ip + (100 * Z.of_N d1))%Z);
      [|apply app_head_digit|lia|lia].
    apply read_unsigned_dec. right. eexists. split; [reflexivity|]. cbn [read_frac].
    now rewrite !digit_val_digit by assumption.
  - apply (read_fx_signed t _ (1000 * Z.of_N ip + 0)%Z); [|apply app_head_digit|lia|lia].
    apply read_unsigned_dec. left. auto.
Qed.

(* the `{:.2}` text denotes a multiple of 0.01 within 0.005 of the value (the value itself when it is a multiple of 0.01) *)
Theorem read_fx_fixed2 t : exists t', read_fx (fx_fixed2 t) = Some t' /\
  (Z.rem t' 10 = 0 /\ Z.abs (t' - t) <= 5 /\ (Z.rem t 10 = 0 -> t' = t))%Z.
Proof.
  unfold fx_fixed2.
  set (a := Z.abs_N t). set (q := a / 10). set (r := a mod 10).
  set (q' := if (5 <? r) || (r =? 5) && N.odd q then q + 1 else q).
  assert (Ha : Z.of_N a = Z.abs t) by (unfold a; lia).
  assert (Hq : (q' = q \/ q' = q + 1) /\ (r = 0 -> q' = q) /\ (q' = q -> r <= 5) /\ (q' = q + 1 -> 5 <= r)).
  { unfold q'. destruct ((5 <? r) || (r =? 5) && N.odd q) eqn:E; repeat split; try lia. }
  assert (Hr : a = 10 * q + r /\ r < 10) by (unfold q, r; lia).
  set (e1 := (q' / 10) mod 10). set (e2 := q' mod 10).
  assert (He1 : e1 < 10) by (unfold e1; lia). assert (He2 : e2 < 10) by (unfold e2; lia).
  set (av := (1000 * Z.of_N (q' / 100) + (100 * Z.of_N e1 + 10 * Z.of_N e2))%Z).
  assert (Hav : av = (10 * Z.of_N q')%Z) by (unfold av, e1, e2; lia).
  exists (if (t <? 0)%Z then (- av)%Z else av). split.
  - apply read_fx_sign; [|apply app_head_digit].
    apply read_unsigned_dec. right. eexists. split; [reflexivity|]. cbn [read_frac].
    now rewrite !digit_val_digit by assumption.
  - rewrite Hav. destruct (t <? 0)%Z eqn:Es; lia.
Qed.
