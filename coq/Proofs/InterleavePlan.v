(* The interleave plan check, by kernel computation over all 160 (version, level) pairs: composing the code's gather order
   with the ISO de-interleaving positions is the identity on every block, block sizes are the Table 9 ones, block ranges
   are consecutive and cover exactly the data codewords. *)
From Coq Require Import NArith List Bool Arith Lia.
From FQ Require Import Lib.ListX Generated.Tables Model.Types Model.Hardcode Model.Poly Spec.IsoTable9 Spec.Iso Proofs.Tables.
Import ListNotations.

(* ------------------------------------------------------------ the interleave plan (160 pairs, kernel computation) *)
Definition iso_pos (d1 B g1 i b : nat) : nat := if i <? d1 then i * B + b else d1 * B + (b - g1).

Fixpoint ranges_consecutive (R : list (nat * nat)) (s : nat) : option nat :=
  match R with
  | [] => Some s
  | (st, sz) :: t => if st =? s then ranges_consecutive t (s + sz) else None
  end.

Definition interleave_plan_ok2 (v l : nat) : bool :=
  let e := ecl_of_idx l in
  let '(d1, g1, d2, g2) := iso_layout v l in
  let B := g1 + g2 in
  let G := gather_plan e v in
  let R := block_ranges e v in
  let D := iso_data_codewords v l in
  (length G =? D) && (length R =? B) && (N.to_nat (data_codewords v e) =? D)
  && (match ranges_consecutive R 0 with Some t => t =? D | None => false end)
  && forallb (fun b =>
       let '(start, size) := nth b R (0, 0) in
       (size =? (if b <? g1 then d1 else d2)) && (start + size <=? D)
       && forallb (fun i => (iso_pos d1 B g1 i b <? D) && (nth (iso_pos d1 B g1 i b) G 0 =? start + i)) (seq 0 size))
     (seq 0 B).
Definition interleave_plan_ok (vl : nat * nat) : bool := interleave_plan_ok2 (fst vl) (snd vl).
Definition find_bad_interleave_plan := filter (fun vl => negb (interleave_plan_ok vl)) pairs_vl.
Lemma interleave_plan_check : forallb interleave_plan_ok pairs_vl = true.
Proof. vm_compute. reflexivity. Qed.

