(* The reference segment parser of Spec/Iso.v inverts the ISO 7.4 single-segment encoding iso_codewords.
   Main results:
     iso_segment_bits_length   length of header + payload = iso_need
     iso_codewords_bits        bytes_bits (iso_codewords ..) = segment ++ tail, tail = terminator/fill/pads (tail_ok)
     iso_codewords_length      exactly iso_data_codewords v l codewords when the segment fits
     parse_roundtrip_strong    parse_segments returns [(m, input)]  (no capacity hypothesis needed)
     parse_roundtrip           the statement requested in the task (corollary) *)
From Coq Require Import NArith List Bool Arith Lia ZArith.
From Coq Require Import ZifyBool ZifyNat ZifyN.
From FQ Require Import Lib.ListX Spec.IsoTable9 Spec.Iso Proofs.Bits.
Import ListNotations.
Ltac Zify.zify_post_hook ::= Z.div_mod_to_equations.

#[local] Arguments N.add : simpl never.
#[local] Arguments N.sub : simpl never.
#[local] Arguments N.mul : simpl never.
#[local] Arguments N.eqb : simpl never.
#[local] Arguments N.ltb : simpl never.
#[local] Arguments N.leb : simpl never.
#[local] Arguments N.div : simpl never.
#[local] Arguments N.modulo : simpl never.
#[local] Arguments N.pow : simpl never.
#[local] Arguments N.testbit : simpl never.
#[local] Arguments N.of_nat : simpl never.
#[local] Arguments N.to_nat : simpl never.

(* ------------------------------------------------------------------ induction in steps of two / three *)
Lemma list_ind2 {A} (P : list A -> Prop) :
  P [] -> (forall a, P [a]) -> (forall a b t, P t -> P (a :: b :: t)) -> forall l, P l.
Proof.
  intros H0 H1 H2. fix IH 1. intros [|a [|b t]]; [exact H0|exact (H1 a)|exact (H2 a b t (IH t))].
Qed.

Lemma list_ind3 {A} (P : list A -> Prop) :
  P [] -> (forall a, P [a]) -> (forall a b, P [a; b]) -> (forall a b c t, P t -> P (a :: b :: c :: t)) ->
  forall l, P l.
Proof.
  intros H0 H1 H2 H3. fix IH 1.
  intros [|a [|b [|c t]]]; [exact H0|exact (H1 a)|exact (H2 a b)|exact (H3 a b c t (IH t))].
Qed.

(* ------------------------------------------------------------------ take_val *)
Lemma firstn_app_exact {A} n (a b : list A) : length a = n -> firstn n (a ++ b) = a.
Proof.
  intros <-. rewrite firstn_app, Nat.sub_diag, firstn_all. cbn [firstn]. apply app_nil_r.
Qed.
Lemma skipn_app_exact {A} n (a b : list A) : length a = n -> skipn n (a ++ b) = b.
Proof.
  intros <-. rewrite skipn_app, Nat.sub_diag, skipn_all. reflexivity.
Qed.

Lemma take_val_app w a rest : length a = w -> take_val w (a ++ rest) = Some (bits_val a, rest).
Proof.
  intros H. unfold take_val. rewrite app_length, H.
  replace (w + length rest <? w) with false by (symmetry; apply Nat.ltb_ge; lia).
  rewrite firstn_app, skipn_app, H, Nat.sub_diag. cbn [firstn skipn]. rewrite app_nil_r.
  rewrite <- H, firstn_all, skipn_all. reflexivity.
Qed.

Lemma take_val_be_bits w x rest :
  (x < 2 ^ N.of_nat w)%N -> take_val w (be_bits w x ++ rest) = Some (x, rest).
Proof.
  intros H. rewrite take_val_app by apply be_bits_length. now rewrite bits_val_be_bits.
Qed.

(* ------------------------------------------------------------------ numeric mode *)
Lemma is_digit_range c : iso_is_digit c = true -> (48 <= c <= 57)%N.
Proof. unfold iso_is_digit. lia. Qed.

Lemma numeric_bits_3 a b c t :
  iso_numeric_bits (a :: b :: c :: t) = be_bits 10 (dig a * 100 + dig b * 10 + dig c) ++ iso_numeric_bits t.
Proof. reflexivity. Qed.
Lemma numeric_bits_2 a b : iso_numeric_bits [a; b] = be_bits 7 (dig a * 10 + dig b).
Proof. reflexivity. Qed.
Lemma numeric_bits_1 a : iso_numeric_bits [a] = be_bits 4 (dig a).
Proof. reflexivity. Qed.

Lemma parse_numeric_0 f bits : parse_numeric 0 (S f) bits = Some ([], bits).
Proof. reflexivity. Qed.
Lemma parse_numeric_1 f bits :
  parse_numeric 1 (S f) bits =
  match take_val 4 bits with Some (x, r) => option_map (fun d => (d, r)) (digits1 x) | None => None end.
Proof. reflexivity. Qed.
Lemma parse_numeric_2 f bits :
  parse_numeric 2 (S f) bits =
  match take_val 7 bits with Some (x, r) => option_map (fun d => (d, r)) (digits2 x) | None => None end.
Proof. reflexivity. Qed.
Lemma parse_numeric_3 c f bits :
  parse_numeric (S (S (S c))) (S f) bits =
  match take_val 10 bits with
  | Some (x, r) =>
      match digits3 x, parse_numeric c f r with
      | Some d, Some (t, r') => Some (d ++ t, r')
      | _, _ => None
      end
  | None => None
  end.
Proof. reflexivity. Qed.

Lemma digits1_dig a : (48 <= a <= 57)%N -> digits1 (dig a) = Some [a].
Proof.
  intros H. unfold digits1, dig. replace (a - 48 <? 10)%N with true by lia.
  do 2 f_equal. lia.
Qed.
Lemma digits2_dig a b : (48 <= a <= 57)%N -> (48 <= b <= 57)%N -> digits2 (dig a * 10 + dig b) = Some [a; b].
Proof.
  intros Ha Hb. unfold digits2, dig. replace ((a - 48) * 10 + (b - 48) <? 100)%N with true by lia.
  f_equal. f_equal; [lia|]. f_equal. lia.
Qed.
Lemma digits3_dig a b c : (48 <= a <= 57)%N -> (48 <= b <= 57)%N -> (48 <= c <= 57)%N ->
  digits3 (dig a * 100 + dig b * 10 + dig c) = Some [a; b; c].
Proof.
  intros Ha Hb Hc. unfold digits3, dig.
  replace ((a - 48) * 100 + (b - 48) * 10 + (c - 48) <? 1000)%N with true by lia.
  f_equal. f_equal; [lia|]. f_equal; [lia|]. f_equal. lia.
Qed.

Lemma parse_numeric_inv input : forallb iso_is_digit input = true ->
  forall fuel rest, length input < fuel ->
  parse_numeric (length input) fuel (iso_numeric_bits input ++ rest) = Some (input, rest).
Proof.
  induction input as [|a|a b|a b c t IH] using list_ind3; intros Hd fuel rest Hf;
    (destruct fuel as [|f]; [lia|]); cbn [forallb] in Hd; rewrite ?andb_true_iff in Hd.
  - reflexivity.
  - destruct Hd as [Ha _]. apply is_digit_range in Ha.
    cbn [length]. rewrite parse_numeric_1, numeric_bits_1.
    rewrite take_val_be_bits by (unfold dig; change (2 ^ N.of_nat 4)%N with 16%N; lia).
    rewrite digits1_dig by assumption. reflexivity.
  - destruct Hd as [Ha [Hb _]]. apply is_digit_range in Ha, Hb.
    cbn [length]. rewrite parse_numeric_2, numeric_bits_2.
    rewrite take_val_be_bits by (unfold dig; change (2 ^ N.of_nat 7)%N with 128%N; lia).
    rewrite digits2_dig by assumption. reflexivity.
  - destruct Hd as [Ha [Hb [Hc Ht]]]. apply is_digit_range in Ha, Hb, Hc.
    cbn [length] in *. rewrite parse_numeric_3, numeric_bits_3, <- app_assoc.
    rewrite take_val_be_bits by (unfold dig; change (2 ^ N.of_nat 10)%N with 1024%N; lia).
    rewrite digits3_dig by assumption.
    rewrite IH by (assumption || lia). reflexivity.
Qed.

Lemma numeric_bits_length input :
  length (iso_numeric_bits input) = N.to_nat (iso_payload_len 0 (N.of_nat (length input))).
Proof.
  unfold iso_payload_len.
  induction input as [|a|a b|a b c t IH] using list_ind3.
  - reflexivity.
  - reflexivity.
  - reflexivity.
  - rewrite numeric_bits_3, app_length, be_bits_length, IH. cbn [length].
    set (n := length t).
    replace (N.of_nat (S (S (S n)))) with (N.of_nat n + 3)%N by lia.
    replace ((N.of_nat n + 3) / 3)%N with (N.of_nat n / 3 + 1)%N by lia.
    replace ((N.of_nat n + 3) mod 3)%N with (N.of_nat n mod 3)%N by lia.
    lia.
Qed.

(* ------------------------------------------------------------------ alphanumeric mode *)
Lemma find_index_nth_error c l k : find_index (N.eqb c) l = Some k -> nth_error l k = Some c.
Proof.
  revert k. induction l as [|x l IH]; intros k H; cbn [find_index] in H; [discriminate|].
  destruct (N.eqb_spec c x) as [->|Hne].
  - injection H as <-. reflexivity.
  - destruct (find_index (N.eqb c) l) as [j|]; cbn [option_map] in H; [|discriminate].
    injection H as <-. cbn [nth_error]. now apply IH.
Qed.

Lemma alnum_chars_length : length iso_alnum_chars = 45.
Proof. reflexivity. Qed.

Lemma is_alnum_av c : iso_is_alnum c = true -> (av c < 45)%N /\ alnum_char (av c) = Some c.
Proof.
  unfold iso_is_alnum, av, alnum_char. destruct (iso_alnum_value c) as [k|] eqn:E; [|discriminate].
  intros _. apply find_index_nth_error in E.
  assert (Hk : k < 45).
  { rewrite <- alnum_chars_length. apply nth_error_Some. rewrite E. discriminate. }
  split; [lia|]. replace (N.to_nat (N.of_nat k)) with k by lia. exact E.
Qed.

Lemma alnum_bits_2 a b t : iso_alnum_bits (a :: b :: t) = be_bits 11 (av a * 45 + av b) ++ iso_alnum_bits t.
Proof. reflexivity. Qed.
Lemma alnum_bits_1 a : iso_alnum_bits [a] = be_bits 6 (av a).
Proof. reflexivity. Qed.

Lemma parse_alnum_0 f bits : parse_alnum 0 (S f) bits = Some ([], bits).
Proof. reflexivity. Qed.
Lemma parse_alnum_1 f bits :
  parse_alnum 1 (S f) bits =
  match take_val 6 bits with
  | Some (x, r) => option_map (fun ch => ([ch], r)) (alnum_char x)
  | None => None end.
Proof. reflexivity. Qed.
Lemma parse_alnum_2 c f bits :
  parse_alnum (S (S c)) (S f) bits =
  match take_val 11 bits with
  | Some (x, r) =>
      match alnum_char (x / 45), alnum_char (x mod 45), (x <? 2025)%N, parse_alnum c f r with
      | Some a, Some b, true, Some (t, r') => Some (a :: b :: t, r')
      | _, _, _, _ => None
      end
  | None => None
  end.
Proof. reflexivity. Qed.

Lemma parse_alnum_inv input : forallb iso_is_alnum input = true ->
  forall fuel rest, length input < fuel ->
  parse_alnum (length input) fuel (iso_alnum_bits input ++ rest) = Some (input, rest).
Proof.
  induction input as [|a|a b t IH] using list_ind2; intros Hd fuel rest Hf;
    (destruct fuel as [|f]; [lia|]); cbn [forallb] in Hd; rewrite ?andb_true_iff in Hd.
  - reflexivity.
  - destruct Hd as [Ha _]. apply is_alnum_av in Ha as [Ha1 Ha2].
    cbn [length]. rewrite parse_alnum_1, alnum_bits_1.
    rewrite take_val_be_bits by (change (2 ^ N.of_nat 6)%N with 64%N; lia).
    rewrite Ha2. reflexivity.
  - destruct Hd as [Ha [Hb Ht]]. apply is_alnum_av in Ha as [Ha1 Ha2]. apply is_alnum_av in Hb as [Hb1 Hb2].
    cbn [length] in *. rewrite parse_alnum_2, alnum_bits_2, <- app_assoc.
    rewrite take_val_be_bits by (change (2 ^ N.of_nat 11)%N with 2048%N; lia).
    replace ((av a * 45 + av b) / 45)%N with (av a) by lia.
    replace ((av a * 45 + av b) mod 45)%N with (av b) by lia.
    rewrite Ha2, Hb2.
    replace (av a * 45 + av b <? 2025)%N with true by lia.
    rewrite IH by (assumption || lia). reflexivity.
Qed.

Lemma alnum_bits_length input :
  length (iso_alnum_bits input) = N.to_nat (iso_payload_len 1 (N.of_nat (length input))).
Proof.
  unfold iso_payload_len.
  induction input as [|a|a b t IH] using list_ind2.
  - reflexivity.
  - reflexivity.
  - rewrite alnum_bits_2, app_length, be_bits_length, IH. cbn [length].
    set (n := length t).
    replace (N.of_nat (S (S n))) with (N.of_nat n + 2)%N by lia.
    replace ((N.of_nat n + 2) / 2)%N with (N.of_nat n / 2 + 1)%N by lia.
    replace ((N.of_nat n + 2) mod 2)%N with (N.of_nat n mod 2)%N by lia.
    lia.
Qed.

(* ------------------------------------------------------------------ byte mode *)
Lemma parse_bytes_S c bits :
  parse_bytes (S c) bits =
  match take_val 8 bits with
  | Some (x, r) => match parse_bytes c r with Some (t, r') => Some (x :: t, r') | None => None end
  | None => None
  end.
Proof. reflexivity. Qed.

Lemma parse_bytes_inv input rest : Forall (fun b => (b < 256)%N) input ->
  parse_bytes (length input) (flat_map (be_bits 8) input ++ rest) = Some (input, rest).
Proof.
  induction 1 as [|x t Hx Ht IH]; [reflexivity|].
  cbn [length flat_map]. rewrite parse_bytes_S, <- app_assoc.
  rewrite take_val_be_bits by (change (2 ^ N.of_nat 8)%N with 256%N; exact Hx).
  rewrite IH. reflexivity.
Qed.

Lemma byte_bits_length input :
  length (flat_map (be_bits 8) input) = N.to_nat (iso_payload_len 2 (N.of_nat (length input))).
Proof.
  change (flat_map (be_bits 8) input) with (bytes_bits input). rewrite bytes_bits_length.
  unfold iso_payload_len. lia.
Qed.

(* ------------------------------------------------------------------ segment length *)
Lemma iso_payload_bits_length m input : m < 3 ->
  length (iso_payload_bits m input) = N.to_nat (iso_payload_len m (N.of_nat (length input))).
Proof.
  intros Hm. destruct m as [|[|[|m]]]; [| | |lia]; unfold iso_payload_bits.
  - apply numeric_bits_length.
  - apply alnum_bits_length.
  - apply byte_bits_length.
Qed.

Lemma iso_segment_bits_length m v input : m < 3 ->
  length (iso_segment_bits m v input) = N.to_nat (iso_need m v (N.of_nat (length input))).
Proof.
  intros Hm. unfold iso_segment_bits, iso_need.
  rewrite !app_length, !be_bits_length, iso_payload_bits_length by assumption. lia.
Qed.

Lemma iso_fits_length m v l input : m < 3 ->
  iso_fits m l (N.of_nat (length input)) v = true ->
  length (iso_segment_bits m v input) <= 8 * iso_data_codewords v l.
Proof.
  intros Hm F. rewrite iso_segment_bits_length by assumption.
  unfold iso_fits, iso_capacity_bits in F. lia.
Qed.

(* ------------------------------------------------------------------ what follows the segment *)
(* a tail the parser accepts as "end of data": either at least four bits starting with 0000, or fewer than
   four bits, all zero *)
Definition tail_ok (tail : list bool) : Prop :=
  (4 <= length tail /\ firstn 4 tail = repeat false 4) \/ (length tail < 4 /\ forallb negb tail = true).

Lemma iso_pads_length k b : length (iso_pads k b) = k.
Proof. revert b. induction k as [|k IH]; intros b; [reflexivity|]. cbn [iso_pads length]. now rewrite IH. Qed.

Lemma iso_pads_bound k b : Forall (fun x => (x < 256)%N) (iso_pads k b).
Proof.
  revert b. induction k as [|k IH]; intros b; [constructor|]. cbn [iso_pads].
  constructor; [destruct b; reflexivity|apply IH].
Qed.

Lemma forallb_negb_repeat n : forallb negb (repeat false n) = true.
Proof. induction n as [|n IH]; [reflexivity|]. cbn [repeat forallb negb andb]. exact IH. Qed.

(* the tail of the codeword bit stream after the segment, spelled out *)
Definition iso_tail (m v l : nat) (input : list N) : list bool :=
  let d := iso_data_codewords v l in
  let n := length (iso_segment_bits m v input) in
  let t := Nat.min 4 (8 * d - n) in
  let f := (8 - (n + t) mod 8) mod 8 in
  repeat false (t + f) ++ bytes_bits (iso_pads (d - (n + t + f) / 8) true).

Lemma iso_codewords_bits m v l input :
  bytes_bits (iso_codewords m v l input) = iso_segment_bits m v input ++ iso_tail m v l input.
Proof.
  unfold iso_codewords, iso_tail.
  set (d := iso_data_codewords v l). set (seg := iso_segment_bits m v input).
  set (t := Nat.min 4 (8 * d - length seg)).
  assert (E1 : length (seg ++ repeat false t) = length seg + t) by (rewrite app_length, repeat_length; reflexivity).
  rewrite E1. set (f := (8 - (length seg + t) mod 8) mod 8).
  set (s2 := (seg ++ repeat false t) ++ repeat false f).
  assert (E2 : length s2 = length seg + t + f) by (unfold s2; rewrite app_length, E1, repeat_length; reflexivity).
  assert (M : length s2 mod 8 = 0) by (rewrite E2; unfold f; lia).
  rewrite bytes_bits_app, bytes_bits_bits_bytes by exact M.
  rewrite bits_bytes_length, E2 by exact M.
  unfold s2. rewrite <- !app_assoc. f_equal. rewrite app_assoc. f_equal.
  symmetry. apply repeat_app.
Qed.

Lemma iso_tail_ok m v l input : tail_ok (iso_tail m v l input).
Proof.
  unfold iso_tail.
  set (d := iso_data_codewords v l). set (n := length (iso_segment_bits m v input)).
  set (t := Nat.min 4 (8 * d - n)). set (f := (8 - (n + t) mod 8) mod 8).
  destruct (Nat.le_gt_cases 4 (t + f)) as [Hge|Hlt].
  - left. replace (t + f) with (4 + (t + f - 4)) by lia. rewrite repeat_app, <- app_assoc.
    split.
    + rewrite app_length, repeat_length. lia.
    + change 4 with (length (repeat false 4)) at 1. rewrite firstn_app, Nat.sub_diag, firstn_all.
      cbn [firstn]. apply app_nil_r.
  - right. replace (d - (n + t + f) / 8) with 0 by (unfold t, f in *; lia).
    change (bytes_bits (iso_pads 0 true)) with (@nil bool). rewrite app_nil_r, repeat_length.
    split; [exact Hlt|apply forallb_negb_repeat].
Qed.

Lemma iso_codewords_length m v l input :
  length (iso_segment_bits m v input) <= 8 * iso_data_codewords v l ->
  length (iso_codewords m v l input) = iso_data_codewords v l.
Proof.
  intros Hfit. unfold iso_codewords.
  set (d := iso_data_codewords v l) in *. set (seg := iso_segment_bits m v input) in *.
  set (t := Nat.min 4 (8 * d - length seg)).
  assert (E1 : length (seg ++ repeat false t) = length seg + t) by (rewrite app_length, repeat_length; reflexivity).
  rewrite E1. set (f := (8 - (length seg + t) mod 8) mod 8).
  set (s2 := (seg ++ repeat false t) ++ repeat false f).
  assert (E2 : length s2 = length seg + t + f) by (unfold s2; rewrite app_length, E1, repeat_length; reflexivity).
  assert (M : length s2 mod 8 = 0) by (rewrite E2; unfold f; lia).
  rewrite app_length, iso_pads_length, bits_bytes_length, E2 by exact M.
  unfold t, f. lia.
Qed.

Lemma iso_codewords_bound m v l input : Forall (fun b => (b < 256)%N) (iso_codewords m v l input).
Proof. unfold iso_codewords. apply Forall_app. split; [apply bits_bytes_bound|apply iso_pads_bound]. Qed.

(* ------------------------------------------------------------------ parse_segments *)
Lemma parse_segments_S f v bits :
  parse_segments (S f) v bits =
  if length bits <? 4 then (if forallb negb bits then Some [] else None) else
  let ind := bits_val (firstn 4 bits) in
  let rest := skipn 4 bits in
  if (ind =? 0)%N then Some [] else
  let mo := if (ind =? 1)%N then Some 0 else if (ind =? 2)%N then Some 1 else if (ind =? 4)%N then Some 2 else None in
  match mo with
  | None => None
  | Some m =>
      match take_val (iso_cci m v) rest with
      | None => None
      | Some (cnt, r) =>
          let count := N.to_nat cnt in
          let seg := match m with
                     | 0 => parse_numeric count (S count) r
                     | 1 => parse_alnum count (S count) r
                     | _ => parse_bytes count r
                     end in
          match seg with
          | None => None
          | Some (payload, r') =>
              match parse_segments f v r' with
              | Some more => Some ((m, payload) :: more)
              | None => None
              end
          end
      end
  end.
Proof. reflexivity. Qed.

Lemma parse_segments_tail f v tail : tail_ok tail -> parse_segments (S f) v tail = Some [].
Proof.
  intros [[Hlen H4]|[Hlen Hz]]; rewrite parse_segments_S.
  - replace (length tail <? 4) with false by (symmetry; apply Nat.ltb_ge; exact Hlen).
    cbv zeta. rewrite H4. reflexivity.
  - replace (length tail <? 4) with true by (symmetry; apply Nat.ltb_lt; exact Hlen).
    rewrite Hz. reflexivity.
Qed.

Definition charset_ok (m : nat) (input : list N) : Prop :=
  match m with
  | 0 => forallb iso_is_digit input = true
  | 1 => forallb iso_is_alnum input = true
  | _ => Forall (fun b => (b < 256)%N) input
  end.

(* one segment is consumed and the parser continues on what follows it *)
Lemma parse_segments_segment f v m input rest :
  m < 3 -> charset_ok m input ->
  (N.of_nat (length input) < 2 ^ N.of_nat (iso_cci m v))%N ->
  parse_segments (S f) v (iso_segment_bits m v input ++ rest) =
  match parse_segments f v rest with Some more => Some ((m, input) :: more) | None => None end.
Proof.
  intros Hm Hc Hb. rewrite parse_segments_S. unfold iso_segment_bits. rewrite <- !app_assoc.
  set (body := be_bits (iso_cci m v) (N.of_nat (length input)) ++ iso_payload_bits m input ++ rest).
  replace (length (be_bits 4 (iso_mode_indicator m) ++ body) <? 4) with false
    by (symmetry; apply Nat.ltb_ge; rewrite app_length, be_bits_length; lia).
  cbv zeta.
  assert (F4 : firstn 4 (be_bits 4 (iso_mode_indicator m) ++ body) = be_bits 4 (iso_mode_indicator m))
    by (apply firstn_app_exact, be_bits_length).
  assert (S4 : skipn 4 (be_bits 4 (iso_mode_indicator m) ++ body) = body)
    by (apply skipn_app_exact, be_bits_length).
  rewrite F4, S4. clear F4 S4.
  destruct m as [|[|[|m]]]; [| | |lia]; cbn [iso_mode_indicator].
  - change (bits_val (be_bits 4 1)) with 1%N. change (1 =? 0)%N with false. change (1 =? 1)%N with true.
    cbv iota. unfold body. rewrite take_val_be_bits by exact Hb.
    replace (N.to_nat (N.of_nat (length input))) with (length input) by lia.
    unfold iso_payload_bits. rewrite parse_numeric_inv by (exact Hc || lia). reflexivity.
  - change (bits_val (be_bits 4 2)) with 2%N. change (2 =? 0)%N with false. change (2 =? 1)%N with false.
    change (2 =? 2)%N with true.
    cbv iota. unfold body. rewrite take_val_be_bits by exact Hb.
    replace (N.to_nat (N.of_nat (length input))) with (length input) by lia.
    unfold iso_payload_bits. rewrite parse_alnum_inv by (exact Hc || lia). reflexivity.
  - change (bits_val (be_bits 4 4)) with 4%N. change (4 =? 0)%N with false. change (4 =? 1)%N with false.
    change (4 =? 2)%N with false. change (4 =? 4)%N with true.
    cbv iota. unfold body. rewrite take_val_be_bits by exact Hb.
    replace (N.to_nat (N.of_nat (length input))) with (length input) by lia.
    unfold iso_payload_bits. rewrite parse_bytes_inv by exact Hc. reflexivity.
Qed.

(* ------------------------------------------------------------------ main theorems *)
(* Stronger than requested: neither v < 40, l < 4 nor iso_fits is needed. If the segment does not fit,
   iso_codewords simply produces more than iso_data_codewords v l codewords and the parser still recovers it. *)
Theorem parse_roundtrip_strong : forall m v l input,
  m < 3 -> charset_ok m input ->
  (N.of_nat (length input) < 2 ^ N.of_nat (iso_cci m v))%N ->
  let bits := bytes_bits (iso_codewords m v l input) in
  parse_segments (S (length bits)) v bits = Some [(m, input)].
Proof.
  intros m v l input Hm Hc Hb bits. unfold bits. rewrite iso_codewords_bits.
  rewrite parse_segments_segment by assumption.
  assert (L : 4 <= length (iso_segment_bits m v input)).
  { unfold iso_segment_bits. rewrite app_length, be_bits_length. lia. }
  rewrite app_length.
  destruct (length (iso_segment_bits m v input) + length (iso_tail m v l input)) as [|f] eqn:E; [lia|].
  rewrite parse_segments_tail by apply iso_tail_ok. reflexivity.
Qed.

Theorem parse_roundtrip : forall m v l input,
  m < 3 -> v < 40 -> l < 4 ->
  match m with
  | 0 => forallb iso_is_digit input = true
  | 1 => forallb iso_is_alnum input = true
  | _ => Forall (fun b => (b < 256)%N) input
  end ->
  (N.of_nat (length input) < 2 ^ N.of_nat (iso_cci m v))%N ->
  iso_fits m l (N.of_nat (length input)) v = true ->
  let bits := bytes_bits (iso_codewords m v l input) in
  parse_segments (S (length bits)) v bits = Some [(m, input)].
Proof.
  intros m v l input Hm _ _ Hc Hb _. apply parse_roundtrip_strong; assumption.
Qed.

(* with the capacity hypothesis the codeword sequence has exactly the Table 9 length and consists of bytes *)
Theorem iso_codewords_fits_length m v l input : m < 3 ->
  iso_fits m l (N.of_nat (length input)) v = true ->
  length (iso_codewords m v l input) = iso_data_codewords v l.
Proof. intros Hm F. apply iso_codewords_length. now apply iso_fits_length. Qed.
