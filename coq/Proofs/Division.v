(* Property C07: the log-domain long division of polynomials.rs computes the true polynomial remainder over GF(2^8),
   and the hard-coded generator polynomials of hardcode.rs are the Reed-Solomon generators prod_{i<k} (x - alpha^i).

   Main results
     poly_div_loop_spec / poly_rem_spec   cur = q*g + (0^n ++ r): poly_rem is a remainder of data * x^k by the monic g
     xor_gen_is_xor_prefix                one inner loop of the Rust code = xor of c * g_tail into the window
     div_loop_is_poly_div_loop            the model loop (skip-zero branch, log tables) = the schoolbook loop
     division_is_remainder                division_ec data gen = poly_rem data (map LOG gen)
     generators_are_rs                    map LOG (get_polynomial v e) = rs_generator (iso_ec v (ecl_idx e))   (160 pairs)
     ec_is_rs_remainder                   division_ec data (get_polynomial v e) = poly_rem data (rs_generator ...)
   No axioms. *)
From Coq Require Import NArith List Bool Arith Lia.
From FQ Require Import Lib.ListX Generated.Tables Model.Types Model.Hardcode Model.Poly Model.Qr
  Spec.IsoTable9 Spec.Iso Spec.Gf Proofs.Tables Proofs.GfField.
Import ListNotations.
Local Open Scope N_scope.

(* ------------------------------------------------------------------ the schoolbook loop computes a remainder *)
Lemma len_cons_sub1 {A} (x : A) l : (length (x :: l) - 1)%nat = length l.
Proof. cbn [length]. lia. Qed.
Lemma poly_div_loop_S gt n c rest :
  poly_div_loop gt (S n) (c :: rest) = poly_div_loop gt n (xor_prefix rest (scale c gt)).
Proof. reflexivity. Qed.

(* invariant: cur = q * g + (0^n ++ r), |q| = n, |r| = |gt|; bytes are preserved *)
Theorem poly_div_loop_spec gt : forall n cur,
  length cur = (n + length gt)%nat ->
  exists q, length q = n /\
    length (poly_div_loop gt n cur) = length gt /\
    cur = xorl (pmul q (1 :: gt)) (zeros n ++ poly_div_loop gt n cur) /\
    (bytes cur -> bytes gt -> bytes q /\ bytes (poly_div_loop gt n cur)).
Proof.
  induction n as [|n IH]; intros cur Hlen.
  - exists []. cbn [poly_div_loop length zeros repeat app]. split; [reflexivity|]. split; [lia|]. split.
    + rewrite pmul_nil, len_cons_sub1. symmetry. apply xorl_zeros_l. lia.
    + intros Hcur Hgt. split; [constructor | exact Hcur].
  - destruct cur as [|c rest]; [cbn [length] in Hlen; lia|]. cbn [length] in Hlen.
    rewrite poly_div_loop_S.
    set (rest' := xor_prefix rest (scale c gt)).
    assert (Hrest' : rest' = xorl rest (scale c gt ++ zeros n)).
    { subst rest'. rewrite xor_prefix_as_xorl by (rewrite scale_length; lia).
      rewrite scale_length. replace (length rest - length gt)%nat with n by lia. reflexivity. }
    assert (Hl' : length rest' = (n + length gt)%nat).
    { subst rest'. rewrite xor_prefix_length. lia. }
    destruct (IH rest' Hl') as [q [Hq [Hr [Heq Hby]]]].
    exists (c :: q). cbn [length]. split; [lia|]. split; [exact Hr|]. split; [|intros Hcur Hgt; split].
    + rewrite pmul_cons, scale_cons, gf_mul_1_r, zeros_S.
      cbn [app xorl]. rewrite N.lxor_0_r, N.lxor_0_r. f_equal.
      rewrite Hq, xorl_assoc, <- Heq, Hrest'.
      set (SZ := scale c gt ++ zeros n).
      rewrite (xorl_comm SZ), xorl_assoc, xorl_self.
      symmetry. apply xorl_zeros_r.
      subst SZ. rewrite app_length, scale_length, zeros_length. lia.
    + constructor; [now inversion Hcur | apply Hby; auto].
      subst rest'. apply xor_prefix_bytes; [now inversion Hcur|]. apply scale_bytes; auto. now inversion Hcur.
    + apply Hby; auto.
      subst rest'. apply xor_prefix_bytes; [now inversion Hcur|]. apply scale_bytes; auto. now inversion Hcur.
Qed.

(* C07, first half. No byte hypothesis is needed for the algebraic identity (only gf_mul c 1 = c); with bytes in,
   quotient and remainder are bytes. *)
Theorem poly_rem_spec_strong data gt :
  exists q, length q = length data /\
    length (poly_rem data (1 :: gt)) = length gt /\
    data ++ zeros (length gt) = xorl (pmul q (1 :: gt)) (zeros (length data) ++ poly_rem data (1 :: gt)) /\
    (bytes data -> bytes gt -> bytes q /\ bytes (poly_rem data (1 :: gt))).
Proof.
  unfold poly_rem. rewrite len_cons_sub1. cbn [tl].
  destruct (poly_div_loop_spec gt (length data) (data ++ zeros (length gt))) as [q [H1 [H2 [H3 H4]]]].
  { rewrite app_length, zeros_length. reflexivity. }
  exists q. split; [exact H1|]. split; [exact H2|]. split; [exact H3|].
  intros Hd Hg. apply H4; auto. apply bytes_app; auto using zeros_bytes.
Qed.

(* the statement of the task *)
Theorem poly_rem_spec data g gt :
  g = 1 :: gt -> Forall (fun b => b < 256) data -> Forall (fun b => b < 256) gt ->
  exists q, length q = length data /\ length (poly_rem data g) = length gt /\
    data ++ zeros (length gt) = xorl (pmul q g) (zeros (length data) ++ poly_rem data g).
Proof.
  intros -> _ _. destruct (poly_rem_spec_strong data gt) as [q [H1 [H2 [H3 _]]]]. exists q. auto.
Qed.

Lemma poly_rem_length data g : (1 <= length g)%nat -> length (poly_rem data g) = (length g - 1)%nat.
Proof.
  intros Hg. destruct g as [|g0 gt]; [cbn [length] in Hg; lia|].
  unfold poly_rem. rewrite len_cons_sub1. cbn [tl].
  destruct (poly_div_loop_spec gt (length data) (data ++ zeros (length gt))) as [q [_ [H2 _]]]; auto.
  rewrite app_length, zeros_length. reflexivity.
Qed.

Lemma poly_rem_bytes data g : bytes data -> bytes g -> (1 <= length g)%nat -> bytes (poly_rem data g).
Proof.
  intros Hd Hg Hl. destruct g as [|g0 gt]; [cbn [length] in Hl; lia|].
  unfold poly_rem. rewrite len_cons_sub1. cbn [tl].
  destruct (poly_div_loop_spec gt (length data) (data ++ zeros (length gt))) as [q [_ [_ [_ H4]]]].
  { rewrite app_length, zeros_length. reflexivity. }
  apply H4; [apply bytes_app; auto using zeros_bytes | now inversion Hg].
Qed.

(* ------------------------------------------------------------------ the model loop agrees with the schoolbook loop *)
Definition exps (l : list N) : Prop := Forall (fun x => x < 255) l.

Lemma map_LOG_bytes gen : exps gen -> bytes (map LOG gen).
Proof.
  unfold exps, bytes. intros H; induction H as [|g gen Hg H IH]; cbn [map]; constructor; auto.
  destruct (ANTILOG_LOG g Hg) as [_ [_ Hlt]]. exact Hlt.
Qed.

Lemma xor_gen_cons alpha x cur g gen :
  xor_gen alpha (x :: cur) (g :: gen) = N.lxor x (LOG ((g + alpha) mod 255)) :: xor_gen alpha cur gen.
Proof. reflexivity. Qed.

(* inner loop `for j { from_mut[i + j] ^= LOG[(by[j] + alpha) % 255] }` with alpha = ANTILOG[c], c != 0 *)
Lemma xor_gen_is_xor_prefix c : 0 < c < 256 -> forall cur gen, exps gen ->
  xor_gen (ANTILOG c) cur gen = xor_prefix cur (scale c (map LOG gen)).
Proof.
  intros Hc. induction cur as [|x cur IH]; intros gen Hg.
  - destruct gen; reflexivity.
  - destruct Hg as [|g gen Hg Hgen]; [reflexivity|].
    rewrite xor_gen_cons. cbn [map]. rewrite scale_cons. cbn [xor_prefix].
    rewrite log_step_is_mul by auto. f_equal. apply IH. exact Hgen.
Qed.

Lemma div_loop_S n c rest gen :
  div_loop (S n) (c :: rest) gen =
    if c =? 0 then div_loop n rest gen
    else match xor_gen (ANTILOG c) (c :: rest) gen with [] => [] | _ :: rest' => div_loop n rest' gen end.
Proof. reflexivity. Qed.

(* Only the tail of [gen] matters for the result: the head position is cancelled and dropped in both loops. *)
Theorem div_loop_is_poly_div_loop gen : exps (tl gen) -> forall n cur, bytes cur ->
  div_loop n cur gen = poly_div_loop (map LOG (tl gen)) n cur.
Proof.
  intros Hg. induction n as [|n IH]; intros cur Hcur; [reflexivity|].
  destruct cur as [|c rest]; [reflexivity|].
  assert (Hc : c < 256) by now inversion Hcur.
  assert (Hrest : bytes rest) by now inversion Hcur.
  rewrite div_loop_S, poly_div_loop_S.
  destruct (N.eqb_spec c 0) as [->|Hc0].
  - rewrite scale_0, xor_prefix_zeros. apply IH. exact Hrest.
  - assert (Hstep : match xor_gen (ANTILOG c) (c :: rest) gen with [] => [] | _ :: rest' => div_loop n rest' gen end
                    = div_loop n (xor_prefix rest (scale c (map LOG (tl gen)))) gen).
    { destruct gen as [|g0 gt].
      - cbn [xor_gen tl map]. unfold scale. cbn [map]. destruct rest; reflexivity.
      - rewrite xor_gen_cons. cbn [tl] in *. rewrite xor_gen_is_xor_prefix by (auto; lia). reflexivity. }
    rewrite Hstep. apply IH.
    apply xor_prefix_bytes; auto. apply scale_bytes; auto. apply map_LOG_bytes. exact Hg.
Qed.

Lemma tl_map {A B} (f : A -> B) l : tl (map f l) = map f (tl l).
Proof. destruct l; reflexivity. Qed.

(* C07, second half, in its most general form: no condition on the head of gen or on its length *)
Theorem division_is_remainder_gen data gen :
  Forall (fun x => x < 255) (tl gen) -> Forall (fun b => b < 256) data ->
  division_ec data gen = poly_rem data (map LOG gen).
Proof.
  intros Hg Hd. unfold division_ec, poly_rem.
  rewrite tl_map, map_length. fold (zeros (length gen - 1)).
  apply div_loop_is_poly_div_loop; auto.
  apply bytes_app; auto using zeros_bytes.
Qed.

(* the statement of the task *)
Theorem division_is_remainder data gen :
  hd 1 gen = 0 -> Forall (fun x => x < 255) gen -> Forall (fun b => b < 256) data -> (1 <= length gen)%nat ->
  division_ec data gen = poly_rem data (map LOG gen).
Proof.
  intros _ Hg Hd _. apply division_is_remainder_gen; auto.
  destruct Hg; [constructor | assumption].
Qed.

(* the generator seen by poly_rem is monic when the stored leading exponent is 0 *)
Lemma map_LOG_monic gen : hd 1 gen = 0 -> (1 <= length gen)%nat -> map LOG gen = 1 :: map LOG (tl gen).
Proof.
  intros Hh Hl. destruct gen as [|g0 gt]; [cbn [length] in Hl; lia|].
  cbn [hd] in Hh. subst g0. cbn [map tl]. now rewrite LOG_0.
Qed.

(* ------------------------------------------------------------------ the 13 hard-coded generators (160 (version, level) pairs) *)
Definition generator_ok (vl : nat * nat) : bool :=
  let gen := get_polynomial (fst vl) (ecl_of_idx (snd vl)) in
  list_eqb N.eqb (map LOG gen) (rs_generator (iso_ec (fst vl) (snd vl)))
  && forallb (fun x => x <? 255) gen
  && (hd 1 gen =? 0).
Definition find_bad_generator := filter (fun vl => negb (generator_ok vl)) pairs_vl.

Lemma generators_check : forallb generator_ok pairs_vl = true.
Proof. vm_compute. reflexivity. Qed.

Lemma generator_ok_all v e : (v < 40)%nat -> generator_ok (v, ecl_idx e) = true.
Proof.
  intros H. apply (forallb_In _ _ _ generators_check), in_prod; [apply in_versions, H | apply in_levels, ecl_idx_lt].
Qed.

Theorem generators_are_rs v e : (v < 40)%nat ->
  map LOG (get_polynomial v e) = rs_generator (iso_ec v (ecl_idx e)).
Proof.
  intros H. pose proof (generator_ok_all v e H) as G. unfold generator_ok in G. cbn [fst snd] in G.
  rewrite ecl_of_idx_idx in G. apply andb_prop in G as [G _]. apply andb_prop in G as [G _].
  revert G. apply list_eqb_eq. intros x y E. now apply N.eqb_eq.
Qed.

Theorem generator_exponents v e : (v < 40)%nat ->
  Forall (fun x => x < 255) (get_polynomial v e) /\ hd 1 (get_polynomial v e) = 0 /\
  length (get_polynomial v e) = (iso_ec v (ecl_idx e) + 1)%nat.
Proof.
  intros H. pose proof (generator_ok_all v e H) as G. unfold generator_ok in G. cbn [fst snd] in G.
  rewrite ecl_of_idx_idx in G. apply andb_prop in G as [G G3]. apply andb_prop in G as [_ G2].
  repeat split.
  - apply Forall_forall. intros x Hx. rewrite forallb_forall in G2. apply N.ltb_lt, G2, Hx.
  - now apply N.eqb_eq.
  - now apply degree_is_table9.
Qed.

(* consequences for the Reed-Solomon generators actually in use: monic, degree = Table 9's EC count, byte coefficients *)
Theorem rs_generator_in_use v e : (v < 40)%nat ->
  let k := iso_ec v (ecl_idx e) in
  hd 0 (rs_generator k) = 1 /\ length (rs_generator k) = (k + 1)%nat /\ bytes (rs_generator k).
Proof.
  intros H k. subst k. destruct (generator_exponents v e H) as [Hx [Hh Hl]].
  rewrite <- (generators_are_rs v e H). repeat split.
  - rewrite map_LOG_monic by (auto; lia). reflexivity.
  - now rewrite map_length.
  - now apply map_LOG_bytes.
Qed.

(* C07 for the generators in use *)
Corollary ec_is_rs_remainder v e data : (v < 40)%nat -> Forall (fun b => b < 256) data ->
  division_ec data (get_polynomial v e) = poly_rem data (rs_generator (iso_ec v (ecl_idx e))).
Proof.
  intros H Hd. destruct (generator_exponents v e H) as [Hx [Hh Hl]].
  rewrite <- (generators_are_rs v e H). apply division_is_remainder; auto. lia.
Qed.

Corollary division_ec_length v e data : (v < 40)%nat -> Forall (fun b => b < 256) data ->
  length (division_ec data (get_polynomial v e)) = iso_ec v (ecl_idx e) /\
  bytes (division_ec data (get_polynomial v e)).
Proof.
  intros H Hd. rewrite (ec_is_rs_remainder v e data H Hd).
  destruct (rs_generator_in_use v e H) as [_ [Hl Hb]]. split.
  - rewrite poly_rem_length by lia. lia.
  - apply poly_rem_bytes; auto. lia.
Qed.
