(* The text produced by Model/Svg.v, tag by tag: to_str c n m is the "flat document" (Proofs/XmlRoundTrip.v) made of
   the svg start tag, a background rect, one path per layer, the optional frame rect and image, and the end tag.
   The format templates of Generated/Strings.v (and the four hard-coded ones) are evaluated here with the hole
   contents left as variables. *)
From Coq Require Import NArith ZArith List Bool Arith String Ascii Lia.
From FQ Require Import Lib.ListX Lib.Mat Generated.Tables Generated.Strings Model.Types Model.Svg
  Spec.Xml Spec.SvgDoc Proofs.XmlRoundTrip.
Import ListNotations.
Local Open Scope N_scope.

(* ------------------------------------------------------------------------------------------------------------ *)
(* the append-to-rest functions are the plain concatenations                                                     *)

Lemma fold_right_app_flat_map {A} (f : A -> list N) (l : list A) (rest : list N) :
  fold_right (fun p acc => f p ++ acc) rest l = flat_map f l ++ rest.
Proof. induction l as [|x l IH]; cbn [fold_right flat_map app]; auto. now rewrite IH, app_assoc. Qed.

Lemma path_data_k_eq c s cs rest : path_data_k c s cs rest = path_data c s cs ++ rest.
Proof. apply fold_right_app_flat_map. Qed.

Lemma layer_path_k_eq c cs l rest : layer_path_k c cs l rest = layer_path c cs l ++ rest.
Proof. unfold layer_path_k, layer_path. rewrite path_data_k_eq. now rewrite <- !app_assoc. Qed.

Lemma path_k_eq c n m rest : path_k c n m rest = path c n m ++ rest.
Proof.
  unfold path_k, path. induction (effective_layers c) as [|l ls IH]; cbn [fold_right flat_map app]; auto.
  now rewrite layer_path_k_eq, IH, app_assoc.
Qed.

Theorem to_str_plain c n m :
  to_str c n m =
    fmt svg_open_tpl [(h_0, dec (c_margin c * 2 + N.of_nat n))]
    ++ fmt svg_rect_tpl [(h_0, dec (c_margin c * 2 + N.of_nat n)); (h_1, rgba2hex (c_background_color c))]
    ++ path c n m ++ image c (N.of_nat n) ++ svg_close.
Proof. unfold to_str. now rewrite path_k_eq. Qed.

(* ------------------------------------------------------------------------------------------------------------ *)
(* the dark modules                                                                                              *)

Lemma filter_flat_map {A B} (p : B -> bool) (f : A -> list B) l :
  filter p (flat_map f l) = flat_map (fun x => filter p (f x)) l.
Proof. induction l as [|x l IH]; cbn; auto. now rewrite filter_app, IH. Qed.

Lemma list_prod_flat_map {A B} (l : list A) (l' : list B) :
  list_prod l l' = flat_map (fun x => map (pair x) l') l.
Proof. induction l as [|x l IH]; cbn; auto. now rewrite IH. Qed.

Lemma filter_map_flat {A B} (p : B -> bool) (g : A -> B) l :
  filter p (map g l) = flat_map (fun x => if p (g x) then [g x] else []) l.
Proof. induction l as [|x l IH]; cbn; auto. destruct (p (g x)); cbn; now rewrite IH. Qed.

Lemma dark_cells_eq n m : dark_cells n m = dark n m.
Proof.
  unfold dark_cells, dark, cells. rewrite list_prod_flat_map, filter_flat_map.
  apply flat_map_ext. intros y. now rewrite filter_map_flat.
Qed.

(* ------------------------------------------------------------------------------------------------------------ *)
(* templates, with the hole contents as variables                                                                *)

Ltac norm_app := repeat (progress (cbn [app]; rewrite <- ?app_assoc)).
Ltac tpl := intros; cbv -[app]; norm_app; rewrite ?app_nil_r; reflexivity.

Lemma svg_open_eq s : fmt svg_open_tpl [(h_0, s)] =
  tag_text (bs "svg") [(bs "viewBox", bs "0 0 " ++ s ++ bs " " ++ s); (bs "xmlns", bs "http://www.w3.org/2000/svg")] [].
Proof. tpl. Qed.

Lemma svg_rect_eq s col : fmt svg_rect_tpl [(h_0, s); (h_1, col)] =
  tag_text (bs "rect") [(bs "width", s ++ bs "px"); (bs "height", s ++ bs "px"); (bs "fill", col)] [47].
Proof. tpl. Qed.

Lemma svg_close_eq : svg_close = end_tag_text (bs "svg").
Proof. reflexivity. Qed.

Lemma square_eq sx sy : fmt_segs square_segs [(h_x, sx); (h_y, sy)] = bs "M" ++ sx ++ bs "," ++ sy ++ bs "h1v1h-1".
Proof. tpl. Qed.
Lemma circle_eq sx sy : fmt_segs circle_segs [(h_pos, sx); (h_y, sy)] = bs "M" ++ sx ++ bs "," ++ sy ++ bs ".5a.5,.5 0 1,1 0,-.1".
Proof. tpl. Qed.
Lemma rounded_eq sx sy : fmt_segs rounded_square_segs [(h_x, sx); (h_y, sy)] =
  bs "M" ++ sx ++ bs ".2," ++ sy ++ bs ".2 " ++ sx ++ bs ".8," ++ sy ++ bs ".2 "
  ++ sx ++ bs ".8," ++ sy ++ bs ".8 " ++ sx ++ bs ".2," ++ sy ++ bs ".8z".
Proof. tpl. Qed.
Lemma vertical_eq sx sy : fmt_segs vertical_segs [(h_x, sx); (h_y, sy)] = bs "M" ++ sx ++ bs ".1," ++ sy ++ bs "h.8v1h-.8".
Proof. tpl. Qed.
Lemma horizontal_eq sx sy : fmt_segs horizontal_segs [(h_x, sx); (h_y, sy)] = bs "M" ++ sx ++ bs "," ++ sy ++ bs ".1h1v.8h-1".
Proof. tpl. Qed.
Lemma diamond_eq sx sy : fmt_segs diamond_segs [(h_x, sx); (h_y, sy)] = bs "M" ++ sx ++ bs ".5," ++ sy ++ bs "l.5,.5l-.5,.5l-.5,-.5z".
Proof. tpl. Qed.

(* Shape::f(y, x, _) = "M" ++ the sub-path of the specification *)
Lemma shape_fn_eq s y x : shape_fn s y x = bs "M" ++ subpath s x y.
Proof.
  destruct s; unfold shape_fn, subpath.
  - apply square_eq.
  - apply circle_eq.
  - apply rounded_eq.
  - apply vertical_eq.
  - apply horizontal_eq.
  - apply diamond_eq.
Qed.

Lemma path_data_eq c s n m : path_data c s (dark_cells n m) = path_d c s n m.
Proof.
  unfold path_data, path_d. rewrite dark_cells_eq. apply flat_map_ext. intros p.
  unfold cell_text, module_subpath. apply shape_fn_eq.
Qed.

(* a path element *)
Definition stroke_attrs (s : shape) (col : list N) : attrs :=
  match s with
  | RoundedSquare => [(bs "stroke-width", bs ".3"); (bs "stroke-linejoin", bs "round"); (bs "stroke", col)]
  | _ => []
  end.

Lemma path_plain_eq d col :
  path_open ++ d ++ fmt path_fill_tpl [(h_pos, col)] = tag_text (bs "path") [(bs "d", d); (bs "fill", col)] [47].
Proof. tpl. Qed.
Lemma path_rounded_eq d col :
  path_open ++ d ++ fmt path_stroke_tpl [(h_pos, col)] ++ fmt path_fill_tpl [(h_pos, col)] =
  tag_text (bs "path") [(bs "d", d); (bs "stroke-width", bs ".3"); (bs "stroke-linejoin", bs "round");
                        (bs "stroke", col); (bs "fill", col)] [47].
Proof. tpl. Qed.

Definition layer_child (c : cfg) (n : nat) (m : qmat) (l : shape * option rgba) : child :=
  (bs "path", [(bs "d", path_d c (fst l) n m)] ++ stroke_attrs (fst l) (layer_fill c l) ++ [(bs "fill", layer_fill c l)], [47]).

Lemma layer_path_eq c n m l : layer_path c (dark_cells n m) l = child_text (layer_child c n m l).
Proof.
  unfold layer_path, layer_child, child_text, layer_tail. rewrite path_data_eq.
  change (layer_color c l) with (layer_fill c l).
  destruct l as [s o]. cbn [fst snd].
  destruct s; cbn [shape_eqb shape_idx Nat.eqb stroke_attrs app].
  1,2,4,5,6: exact (path_plain_eq _ _).
  exact (path_rounded_eq _ _).
Qed.

Lemma effective_layers_eq c : effective_layers c = layers c.
Proof. reflexivity. Qed.

Lemma path_eq c n m : path c n m = flat_map child_text (map (layer_child c n m) (layers c)).
Proof.
  unfold path. rewrite effective_layers_eq. induction (layers c) as [|l ls IH]; cbn [flat_map map]; auto.
  now rewrite layer_path_eq, IH.
Qed.

(* the frame and the image *)
Definition rx_attrs (s : ishape) : attrs :=
  match s with
  | ISquare => []
  | ICircle => [(bs "rx", bs "1000px")]
  | IRoundedSquare => [(bs "rx", bs "1px")]
  end.

Lemma image_rect_eq s x y w col :
  fmt (image_rect_tpl s) [(h_0, x); (h_1, y); (h_2, w); (h_3, col)] =
  tag_text (bs "rect") ([(bs "x", x); (bs "y", y); (bs "width", w); (bs "height", w); (bs "fill", col)] ++ rx_attrs s) [47].
Proof. destruct s; tpl. Qed.

Lemma image_elem_eq x y w href :
  fmt image_elem_tpl [(h_0p2, x); (h_1p2, y); (h_2p2, w); (h_3, href)] =
  tag_text (bs "image") [(bs "x", x); (bs "y", y); (bs "width", w); (bs "height", w); (bs "href", href)] [32; 47].
Proof. tpl. Qed.

Local Open Scope Z_scope.
Definition frame_child (c : cfg) (px py border : fx) : child :=
  (bs "rect", [(bs "x", fx_to_string px); (bs "y", fx_to_string py);
               (bs "width", fx_to_string border); (bs "height", fx_to_string border);
               (bs "fill", rgba2hex (c_image_background_color c))] ++ rx_attrs (c_image_background_shape c), [47%N]).
Definition image_child (px py border isz : fx) (img : list N) : child :=
  (bs "image", [(bs "x", fx_fixed2 (px + (border - isz) / 2)); (bs "y", fx_fixed2 (py + (border - isz) / 2));
                (bs "width", fx_fixed2 isz); (bs "height", fx_fixed2 isz);
                (bs "href", escape_attribute img)], [32%N; 47%N]).
Local Open Scope N_scope.

Definition image_children (c : cfg) (n : nat) : list child :=
  match c_image c with
  | None => []
  | Some img =>
      let v := match version_from_n (N.of_nat n) with Some v => v | None => O end in
      let '(px, py, border, isz) := image_geometry c (N.of_nat n) v in
      [frame_child c px py border; image_child px py border isz img]
  end.

Lemma image_eq c n : image c (N.of_nat n) = flat_map child_text (image_children c n).
Proof.
  unfold image, image_children. destruct (c_image c) as [img|]; [|reflexivity].
  unfold image_with. destruct (image_geometry c (N.of_nat n) _) as [[[px py] border] isz].
  cbn [flat_map]. rewrite app_nil_r. unfold frame_child, image_child, child_text.
  now rewrite image_rect_eq, image_elem_eq.
Qed.

(* ------------------------------------------------------------------------------------------------------------ *)
(* the whole document                                                                                            *)

Definition root_attrs (c : cfg) (n : nat) : attrs :=
  [(bs "viewBox", bs "0 0 " ++ dec (side c n) ++ bs " " ++ dec (side c n)); (bs "xmlns", bs "http://www.w3.org/2000/svg")].
Definition rect_child (c : cfg) (n : nat) : child :=
  (bs "rect", [(bs "width", dec (side c n) ++ bs "px"); (bs "height", dec (side c n) ++ bs "px");
               (bs "fill", rgba2hex (c_background_color c))], [47]).
Definition children (c : cfg) (n : nat) (m : qmat) : list child :=
  rect_child c n :: map (layer_child c n m) (layers c) ++ image_children c n.

Lemma side_eq c n : c_margin c * 2 + N.of_nat n = side c n.
Proof. unfold side. lia. Qed.

Theorem to_str_flat c n m : to_str c n m = flat_doc_text (bs "svg") (root_attrs c n) (children c n m).
Proof.
  rewrite to_str_plain, side_eq, svg_open_eq, svg_rect_eq, path_eq, image_eq, svg_close_eq.
  unfold flat_doc_text, children, root_attrs. cbn [flat_map]. rewrite flat_map_app.
  unfold rect_child at 1. cbn [child_text]. now rewrite <- !app_assoc.
Qed.
