(* GF(2^8) algebra for Spec/Gf.v and its link to the LOG / ANTILOG tables of polynomials.rs.

   Naming trap (Rust and model): LOG i = alpha^i (exponent -> value), ANTILOG x = discrete logarithm of x.

   Contents
     - table identities by kernel computation over finite, stated domains (255 exponents, 255 non-zero bytes, 256^2 pairs)
     - gf_mul_log (65 025-pair sweep): the shift-and-add product equals the log-domain product
     - field laws for bytes (< 256) derived from gf_mul_log by arithmetic mod 255: comm, assoc, units, no zero divisors
     - bilinearity of gf_mul over xor, UNCONDITIONALLY (all of N), by structural induction on gf_mul_fuel
     - xorl / zeros / scale / xor_prefix / pmul list lemmas used by Division.v and Syndromes.v
   Everything is closed under the global context (no axioms). *)
From Coq Require Import NArith List Bool Arith Lia.
From FQ Require Import Lib.ListX Generated.Tables Model.Poly Spec.Gf.
Import ListNotations.
Local Open Scope N_scope.

Arguments N.add : simpl never.
Arguments N.sub : simpl never.
Arguments N.mul : simpl never.
Arguments N.eqb : simpl never.
Arguments N.ltb : simpl never.
Arguments N.leb : simpl never.
Arguments N.div : simpl never.
Arguments N.modulo : simpl never.
Arguments N.shiftl : simpl never.
Arguments N.shiftr : simpl never.
Arguments N.land : simpl never.
Arguments N.lor : simpl never.
Arguments N.lxor : simpl never.
Arguments N.testbit : simpl never.
Arguments N.pow : simpl never.

Definition byte (x : N) : Prop := x < 256.
Definition bytes (l : list N) : Prop := Forall (fun b => b < 256) l.

(* ------------------------------------------------------------------ enumeration helpers *)
Definition exps255 : list N := map N.of_nat (seq 0 255).      (* 0 .. 254 *)
Definition nzbytes : list N := map N.of_nat (seq 1 255).      (* 1 .. 255 *)
Definition allbytes : list N := map N.of_nat (seq 0 256).     (* 0 .. 255 *)

Lemma in_exps255 i : i < 255 -> In i exps255.
Proof. intros H. rewrite <- (N2Nat.id i). apply in_map, in_seq. lia. Qed.
Lemma in_nzbytes x : 0 < x < 256 -> In x nzbytes.
Proof. intros H. rewrite <- (N2Nat.id x). apply in_map, in_seq. lia. Qed.
Lemma in_allbytes x : x < 256 -> In x allbytes.
Proof. intros H. rewrite <- (N2Nat.id x). apply in_map, in_seq. lia. Qed.

Lemma forallb_In' {A} (f : A -> bool) l x : forallb f l = true -> In x l -> f x = true.
Proof. intros H Hin. rewrite forallb_forall in H. auto. Qed.

(* ------------------------------------------------------------------ table identities (finite sweeps) *)
(* 255 exponents *)
Lemma LOG_pow2_check : forallb (fun i => LOG (N.of_nat i) =? gf_pow2 i) (seq 0 255) = true.
Proof. vm_compute. reflexivity. Qed.
Theorem LOG_is_pow2 (i : nat) : (i < 255)%nat -> LOG (N.of_nat i) = gf_pow2 i.
Proof. intros H. apply N.eqb_eq, (forallb_In' _ _ i LOG_pow2_check), in_seq. lia. Qed.

Theorem LOG_255 : LOG 255 = 1.
Proof. vm_compute. reflexivity. Qed.
Theorem LOG_0 : LOG 0 = 1.
Proof. vm_compute. reflexivity. Qed.

(* 255 non-zero bytes *)
Lemma LOG_ANTILOG_check : forallb (fun x => (LOG (ANTILOG x) =? x) && (ANTILOG x <? 255)) nzbytes = true.
Proof. vm_compute. reflexivity. Qed.
Theorem LOG_ANTILOG x : 0 < x < 256 -> LOG (ANTILOG x) = x /\ ANTILOG x < 255.
Proof.
  intros H. pose proof (forallb_In' _ _ x LOG_ANTILOG_check (in_nzbytes x H)) as C.
  apply andb_prop in C as [C1 C2]. split; [now apply N.eqb_eq | now apply N.ltb_lt].
Qed.

(* 255 exponents *)
Lemma ANTILOG_LOG_check :
  forallb (fun i => (ANTILOG (LOG i) =? i) && (0 <? LOG i) && (LOG i <? 256)) exps255 = true.
Proof. vm_compute. reflexivity. Qed.
Theorem ANTILOG_LOG i : i < 255 -> ANTILOG (LOG i) = i /\ 0 < LOG i < 256.
Proof.
  intros H. pose proof (forallb_In' _ _ i ANTILOG_LOG_check (in_exps255 i H)) as C.
  apply andb_prop in C as [C C3]. apply andb_prop in C as [C1 C2].
  repeat split; [now apply N.eqb_eq | now apply N.ltb_lt | now apply N.ltb_lt].
Qed.

(* 256 x 256 pairs *)
Lemma gf_mul_byte_check : forallb (fun a => forallb (fun b => gf_mul a b <? 256) allbytes) allbytes = true.
Proof. vm_compute. reflexivity. Qed.
Theorem gf_mul_lt_256 a b : a < 256 -> b < 256 -> gf_mul a b < 256.
Proof.
  intros Ha Hb. apply N.ltb_lt.
  apply (forallb_In' _ _ b (forallb_In' _ _ a gf_mul_byte_check (in_allbytes a Ha)) (in_allbytes b Hb)).
Qed.

(* 255 x 255 pairs *)
Lemma gf_mul_log_check :
  forallb (fun a => forallb (fun b => gf_mul a b =? LOG ((ANTILOG a + ANTILOG b) mod 255)) nzbytes) nzbytes = true.
Proof. vm_compute. reflexivity. Qed.
Theorem gf_mul_log a b : 0 < a < 256 -> 0 < b < 256 -> gf_mul a b = LOG ((ANTILOG a + ANTILOG b) mod 255).
Proof.
  intros Ha Hb. apply N.eqb_eq.
  apply (forallb_In' _ _ b (forallb_In' _ _ a gf_mul_log_check (in_nzbytes a Ha)) (in_nzbytes b Hb)).
Qed.

(* ------------------------------------------------------------------ structural facts about gf_mul_fuel (all of N) *)
Lemma gf_mul_fuel_S n a b acc :
  gf_mul_fuel (S n) a b acc = gf_mul_fuel n (xtime a) (N.div2 b) (if N.odd b then N.lxor acc a else acc).
Proof. reflexivity. Qed.

Lemma gf_mul_fuel_b0 n : forall x acc, gf_mul_fuel n x 0 acc = acc.
Proof.
  induction n as [|n IH]; intros x acc; [reflexivity|]. rewrite gf_mul_fuel_S.
  change (N.odd 0) with false. change (N.div2 0) with 0. apply IH.
Qed.
Lemma xtime_0 : xtime 0 = 0.
Proof. reflexivity. Qed.
Lemma gf_mul_fuel_a0 n : forall b acc, gf_mul_fuel n 0 b acc = acc.
Proof.
  induction n as [|n IH]; intros b acc; [reflexivity|]. rewrite gf_mul_fuel_S, xtime_0, IH.
  destruct (N.odd b); [apply N.lxor_0_r|reflexivity].
Qed.

Theorem gf_mul_0_l b : gf_mul 0 b = 0.
Proof. apply gf_mul_fuel_a0. Qed.
Theorem gf_mul_0_r a : gf_mul a 0 = 0.
Proof. apply gf_mul_fuel_b0. Qed.
Theorem gf_mul_1_r a : gf_mul a 1 = a.
Proof.
  unfold gf_mul. change 8%nat with (S 7). rewrite gf_mul_fuel_S.
  change (N.odd 1) with true. change (N.div2 1) with 0. rewrite gf_mul_fuel_b0. apply N.lxor_0_l.
Qed.

(* the accumulator is just xored in *)
Lemma gf_mul_fuel_acc n : forall a b acc, gf_mul_fuel n a b acc = N.lxor acc (gf_mul_fuel n a b 0).
Proof.
  induction n as [|n IH]; intros a b acc.
  - cbn [gf_mul_fuel]. now rewrite N.lxor_0_r.
  - rewrite !gf_mul_fuel_S. destruct (N.odd b).
    + rewrite (IH _ _ (N.lxor acc a)), (IH _ _ (N.lxor 0 a)). rewrite N.lxor_0_l. now rewrite N.lxor_assoc.
    + apply IH.
Qed.

(* xtime is linear over xor, for all N *)
Lemma xtime_lxor a a' : xtime (N.lxor a a') = N.lxor (xtime a) (xtime a').
Proof.
  unfold xtime. cbv zeta. rewrite N.shiftl_lxor, N.lxor_spec.
  destruct (N.testbit (N.shiftl a 1) 8), (N.testbit (N.shiftl a' 1) 8); cbn [xorb].
  - rewrite N.lxor_assoc, (N.lxor_comm 285), N.lxor_assoc, N.lxor_nilpotent, N.lxor_0_r. reflexivity.
  - rewrite !N.lxor_assoc. f_equal. apply N.lxor_comm.
  - now rewrite N.lxor_assoc.
  - reflexivity.
Qed.

Lemma lxor_4 a b c d : N.lxor (N.lxor a b) (N.lxor c d) = N.lxor (N.lxor a c) (N.lxor b d).
Proof. rewrite !N.lxor_assoc. f_equal. rewrite <- !N.lxor_assoc. f_equal. apply N.lxor_comm. Qed.

(* linear in the first factor *)
Lemma gf_mul_fuel_lxor_a n : forall a a' b,
  gf_mul_fuel n (N.lxor a a') b 0 = N.lxor (gf_mul_fuel n a b 0) (gf_mul_fuel n a' b 0).
Proof.
  induction n as [|n IH]; intros a a' b; [reflexivity|].
  rewrite !gf_mul_fuel_S, xtime_lxor. destruct (N.odd b).
  - rewrite !N.lxor_0_l.
    rewrite (gf_mul_fuel_acc n _ _ (N.lxor a a')), (gf_mul_fuel_acc n _ _ a), (gf_mul_fuel_acc n _ _ a').
    rewrite IH. apply lxor_4.
  - apply IH.
Qed.

Lemma odd_lxor b c : N.odd (N.lxor b c) = xorb (N.odd b) (N.odd c).
Proof. rewrite <- !N.bit0_odd. apply N.lxor_spec. Qed.
Lemma div2_lxor b c : N.div2 (N.lxor b c) = N.lxor (N.div2 b) (N.div2 c).
Proof. rewrite !N.div2_spec. apply N.shiftr_lxor. Qed.

(* linear in the second factor *)
Lemma gf_mul_fuel_lxor_b n : forall a b c,
  gf_mul_fuel n a (N.lxor b c) 0 = N.lxor (gf_mul_fuel n a b 0) (gf_mul_fuel n a c 0).
Proof.
  induction n as [|n IH]; intros a b c; [reflexivity|].
  rewrite !gf_mul_fuel_S, odd_lxor, div2_lxor, !N.lxor_0_l.
  destruct (N.odd b), (N.odd c); cbn [xorb].
  - rewrite (gf_mul_fuel_acc n _ (N.div2 b) a), (gf_mul_fuel_acc n _ (N.div2 c) a), IH.
    rewrite lxor_4, N.lxor_nilpotent, N.lxor_0_l. reflexivity.
  - rewrite (gf_mul_fuel_acc n _ _ a), (gf_mul_fuel_acc n _ (N.div2 b) a), IH. now rewrite N.lxor_assoc.
  - rewrite (gf_mul_fuel_acc n _ _ a), (gf_mul_fuel_acc n _ (N.div2 c) a), IH.
    rewrite <- !N.lxor_assoc. f_equal. apply N.lxor_comm.
  - apply IH.
Qed.

(* distributivity, both sides, no bound needed *)
Theorem gf_mul_lxor_r a b c : gf_mul a (N.lxor b c) = N.lxor (gf_mul a b) (gf_mul a c).
Proof. apply gf_mul_fuel_lxor_b. Qed.
Theorem gf_mul_lxor_l a a' b : gf_mul (N.lxor a a') b = N.lxor (gf_mul a b) (gf_mul a' b).
Proof. apply gf_mul_fuel_lxor_a. Qed.
(* the statement of the task, with its (unneeded) bounds *)
Corollary gf_mul_distr a b c : a < 256 -> b < 256 -> c < 256 ->
  gf_mul a (N.lxor b c) = N.lxor (gf_mul a b) (gf_mul a c).
Proof. intros _ _ _. apply gf_mul_lxor_r. Qed.

Global Opaque gf_mul.

(* ------------------------------------------------------------------ field laws on bytes, via logarithms *)
Lemma N_pos_or_0 a : a = 0 \/ 0 < a.
Proof. lia. Qed.

Theorem gf_mul_comm a b : a < 256 -> b < 256 -> gf_mul a b = gf_mul b a.
Proof.
  intros Ha Hb. destruct (N_pos_or_0 a) as [->|Ha0]; [now rewrite gf_mul_0_l, gf_mul_0_r|].
  destruct (N_pos_or_0 b) as [->|Hb0]; [now rewrite gf_mul_0_l, gf_mul_0_r|].
  rewrite !gf_mul_log by lia. now rewrite N.add_comm.
Qed.

Theorem gf_mul_1_l a : a < 256 -> gf_mul 1 a = a.
Proof. intros Ha. rewrite gf_mul_comm by (auto; reflexivity). apply gf_mul_1_r. Qed.

(* the product of non-zero bytes is a non-zero byte whose logarithm is the sum mod 255 *)
Lemma gf_mul_nz_log a b : 0 < a < 256 -> 0 < b < 256 ->
  0 < gf_mul a b < 256 /\ ANTILOG (gf_mul a b) = (ANTILOG a + ANTILOG b) mod 255.
Proof.
  intros Ha Hb. rewrite gf_mul_log by auto.
  assert (Hk : (ANTILOG a + ANTILOG b) mod 255 < 255) by (apply N.mod_lt; lia).
  destruct (ANTILOG_LOG _ Hk) as [H1 H2]. split; auto.
Qed.

Theorem gf_mul_nonzero a b : a < 256 -> b < 256 -> gf_mul a b = 0 -> a = 0 \/ b = 0.
Proof.
  intros Ha Hb H. destruct (N_pos_or_0 a) as [->|Ha0]; [now left|].
  destruct (N_pos_or_0 b) as [->|Hb0]; [now right|].
  destruct (gf_mul_nz_log a b) as [[Hp _] _]; try lia.
Qed.

Theorem gf_mul_assoc a b c : a < 256 -> b < 256 -> c < 256 ->
  gf_mul (gf_mul a b) c = gf_mul a (gf_mul b c).
Proof.
  intros Ha Hb Hc.
  destruct (N_pos_or_0 a) as [->|Ha0]; [now rewrite !gf_mul_0_l|].
  destruct (N_pos_or_0 b) as [->|Hb0]; [now rewrite ?gf_mul_0_l, ?gf_mul_0_r, ?gf_mul_0_l|].
  destruct (N_pos_or_0 c) as [->|Hc0]; [now rewrite !gf_mul_0_r|].
  destruct (gf_mul_nz_log a b) as [Hab Lab]; try lia.
  destruct (gf_mul_nz_log b c) as [Hbc Lbc]; try lia.
  rewrite (gf_mul_log (gf_mul a b) c), (gf_mul_log a (gf_mul b c)) by lia.
  rewrite Lab, Lbc. f_equal.
  rewrite N.add_mod_idemp_l, N.add_mod_idemp_r by lia. now rewrite N.add_assoc.
Qed.

(* what the Rust inner loop computes: LOG[(g + ANTILOG c) % 255] is c * alpha^g *)
Theorem log_step_is_mul c g : 0 < c < 256 -> g < 255 ->
  LOG ((g + ANTILOG c) mod 255) = gf_mul c (LOG g).
Proof.
  intros Hc Hg. destruct (ANTILOG_LOG g Hg) as [H1 H2].
  rewrite gf_mul_log by lia. rewrite H1. now rewrite N.add_comm.
Qed.

(* xor of bytes is a byte *)
Lemma lxor_lt_256 a b : a < 256 -> b < 256 -> N.lxor a b < 256.
Proof.
  intros Ha Hb. destruct (N.eq_dec (N.lxor a b) 0) as [E|E]; [rewrite E; reflexivity|].
  change 256 with (2 ^ 8). apply N.log2_lt_pow2; [lia|].
  pose proof (N.log2_lxor a b) as H.
  assert (La : a = 0 \/ N.log2 a < 8).
  { destruct (N.eq_dec a 0); [now left|right]. apply N.log2_lt_pow2; [lia|exact Ha]. }
  assert (Lb : b = 0 \/ N.log2 b < 8).
  { destruct (N.eq_dec b 0); [now left|right]. apply N.log2_lt_pow2; [lia|exact Hb]. }
  destruct La as [->|La], Lb as [->|Lb]; cbn [N.log2] in H; lia.
Qed.

(* ------------------------------------------------------------------ lists: xorl, zeros, scale, xor_prefix, pmul *)
Lemma zeros_length n : length (zeros n) = n.
Proof. apply repeat_length. Qed.
Lemma zeros_S n : zeros (S n) = 0 :: zeros n.
Proof. reflexivity. Qed.
Lemma zeros_app n m : zeros n ++ zeros m = zeros (n + m).
Proof. unfold zeros. symmetry. apply repeat_app. Qed.

Lemma xorl_length a b : length (xorl a b) = Nat.min (length a) (length b).
Proof. revert b; induction a as [|x a IH]; intros [|y b]; cbn [xorl length Nat.min]; auto. Qed.
Lemma xorl_zeros_r a n : length a = n -> xorl a (zeros n) = a.
Proof.
  revert n; induction a as [|x a IH]; intros [|n] H; cbn [length] in H; try discriminate; [reflexivity|].
  rewrite zeros_S. cbn [xorl]. rewrite N.lxor_0_r, IH; auto.
Qed.
Lemma xorl_zeros_l a n : length a = n -> xorl (zeros n) a = a.
Proof.
  revert n; induction a as [|x a IH]; intros [|n] H; cbn [length] in H; try discriminate; [reflexivity|].
  rewrite zeros_S. cbn [xorl]. rewrite N.lxor_0_l, IH; auto.
Qed.
Lemma xorl_comm a b : xorl a b = xorl b a.
Proof. revert b; induction a as [|x a IH]; intros [|y b]; cbn [xorl]; auto. now rewrite N.lxor_comm, IH. Qed.
Lemma xorl_assoc a b c : xorl (xorl a b) c = xorl a (xorl b c).
Proof. revert b c; induction a as [|x a IH]; intros [|y b] [|z c]; cbn [xorl]; auto. now rewrite N.lxor_assoc, IH. Qed.
Lemma xorl_self a : xorl a a = zeros (length a).
Proof. induction a as [|x a IH]; cbn [xorl length]; auto. now rewrite N.lxor_nilpotent, IH. Qed.
Lemma xorl_app a b c d : length a = length c -> xorl (a ++ b) (c ++ d) = xorl a c ++ xorl b d.
Proof.
  revert c; induction a as [|x a IH]; intros [|y c] H; cbn [length] in H; try discriminate; [reflexivity|].
  cbn [app xorl]. f_equal. apply IH. lia.
Qed.
Lemma xorl_bytes a b : bytes a -> bytes b -> bytes (xorl a b).
Proof.
  unfold bytes. intros Ha; revert b; induction Ha as [|x a Hx Ha IH]; intros b Hb; [constructor|].
  destruct Hb as [|y b Hy Hb]; cbn [xorl]; constructor; auto using lxor_lt_256.
Qed.
Lemma zeros_bytes n : bytes (zeros n).
Proof. unfold bytes, zeros. induction n; cbn [repeat]; constructor; auto. reflexivity. Qed.
Lemma bytes_app a b : bytes a -> bytes b -> bytes (a ++ b).
Proof. unfold bytes. intros; apply Forall_app; auto. Qed.

Lemma scale_length c g : length (scale c g) = length g.
Proof. apply map_length. Qed.
Lemma scale_cons c x g : scale c (x :: g) = gf_mul c x :: scale c g.
Proof. reflexivity. Qed.
Lemma scale_0 g : scale 0 g = zeros (length g).
Proof.
  induction g as [|x g IH]; [reflexivity|]. rewrite scale_cons, gf_mul_0_l, IH. reflexivity.
Qed.
Lemma scale_zeros c n : scale c (zeros n) = zeros n.
Proof. induction n as [|n IH]; [reflexivity|]. rewrite zeros_S, scale_cons, gf_mul_0_r, IH. reflexivity. Qed.
Lemma scale_app c a b : scale c (a ++ b) = scale c a ++ scale c b.
Proof. apply map_app. Qed.
Lemma scale_bytes c g : c < 256 -> bytes g -> bytes (scale c g).
Proof.
  unfold bytes. intros Hc Hg; induction Hg as [|x g Hx Hg IH]; [constructor|].
  rewrite scale_cons. constructor; auto using gf_mul_lt_256.
Qed.
Lemma scale_xorl c a b : scale c (xorl a b) = xorl (scale c a) (scale c b).
Proof.
  revert b; induction a as [|x a IH]; intros [|y b]; try reflexivity.
  cbn [xorl]. rewrite !scale_cons. cbn [xorl]. now rewrite gf_mul_lxor_r, IH.
Qed.
Lemma scale_scale c d g : c < 256 -> d < 256 -> bytes g -> scale c (scale d g) = scale (gf_mul c d) g.
Proof.
  unfold bytes. intros Hc Hd Hg; induction Hg as [|x g Hx Hg IH]; [reflexivity|].
  rewrite !scale_cons, IH. f_equal. symmetry. now apply gf_mul_assoc.
Qed.
Lemma scale_lxor c d g : scale (N.lxor c d) g = xorl (scale c g) (scale d g).
Proof.
  induction g as [|x g IH]; [reflexivity|]. rewrite !scale_cons. cbn [xorl]. now rewrite gf_mul_lxor_l, IH.
Qed.

Lemma xor_prefix_as_xorl rest p : (length p <= length rest)%nat ->
  xor_prefix rest p = xorl rest (p ++ zeros (length rest - length p)).
Proof.
  revert p; induction rest as [|r rest IH]; intros [|x p] H; cbn [length] in H; try lia; try reflexivity.
  - cbn [xor_prefix length app]. rewrite Nat.sub_0_r, xorl_zeros_r; reflexivity.
  - cbn [xor_prefix length app xorl Nat.sub]. f_equal. apply IH. lia.
Qed.
Lemma xor_prefix_length rest p : length (xor_prefix rest p) = length rest.
Proof. revert p; induction rest as [|r rest IH]; intros [|x p]; cbn [xor_prefix length]; auto. Qed.
Lemma xor_prefix_zeros rest n : xor_prefix rest (zeros n) = rest.
Proof.
  revert n; induction rest as [|r rest IH]; intros [|n]; try reflexivity.
  rewrite zeros_S. cbn [xor_prefix]. now rewrite N.lxor_0_r, IH.
Qed.
Lemma xor_prefix_bytes rest p : bytes rest -> bytes p -> bytes (xor_prefix rest p).
Proof.
  unfold bytes. intros Hr; revert p; induction Hr as [|r rest Hx Hr IH]; intros p Hp; [destruct p; constructor|].
  destruct Hp as [|y p Hy Hp]; cbn [xor_prefix]; constructor; auto using lxor_lt_256.
Qed.

Lemma pmul_nil g : pmul [] g = zeros (length g - 1).
Proof. reflexivity. Qed.
Lemma pmul_cons c q g : pmul (c :: q) g = xorl (scale c g ++ zeros (length q)) (0 :: pmul q g).
Proof. reflexivity. Qed.
Lemma pmul_length q g : (1 <= length g)%nat -> length (pmul q g) = (length q + length g - 1)%nat.
Proof.
  intros Hg. induction q as [|c q IH].
  - rewrite pmul_nil, zeros_length. cbn [length]. lia.
  - rewrite pmul_cons, xorl_length. cbn [length]. rewrite app_length, IH, scale_length, zeros_length. lia.
Qed.
Lemma pmul_bytes q g : bytes q -> bytes g -> bytes (pmul q g).
Proof.
  intros Hq Hg. induction Hq as [|c q Hc Hq IH].
  - rewrite pmul_nil. apply zeros_bytes.
  - rewrite pmul_cons. apply xorl_bytes.
    + apply bytes_app; [now apply scale_bytes | apply zeros_bytes].
    + constructor; [reflexivity | exact IH].
Qed.
