(* Syndromes of an encoded Reed-Solomon block vanish (needed by property C02).

   Main results (all generic in the degree k, no computation over k)
     poly_eval_xorl        evaluation is additive (equal lengths)
     poly_eval_pmul        evaluation is multiplicative:  (q * g)(x) = q(x) * g(x)            (bytes, |g| >= 1)
     rs_generator_root     (rs_generator k)(alpha^i) = 0 for every i < k, every k
     rs_generator_shape    rs_generator k = 1 :: t, |t| = k, byte coefficients
     block_is_multiple     data ++ poly_rem data g = q * g  for monic g
     rs_block_syndromes    syndromes (data ++ poly_rem data (rs_generator k)) k = repeat 0 k
     model_block_syndromes the same for  data ++ division_ec data (get_polynomial v e)  with k = iso_ec v (ecl_idx e)
   The only computation is a 256-case sweep (xtime maps bytes to bytes). No axioms. *)
From Coq Require Import NArith List Bool Arith Lia.
From FQ Require Import Lib.ListX Generated.Tables Model.Types Model.Hardcode Model.Poly
  Spec.IsoTable9 Spec.Iso Spec.Gf Proofs.Tables Proofs.GfField Proofs.Division.
Import ListNotations.
Local Open Scope N_scope.

(* ------------------------------------------------------------------ bytes: xtime, alpha^i *)
(* 256 cases *)
Lemma xtime_byte_check : forallb (fun a => xtime a <? 256) allbytes = true.
Proof. vm_compute. reflexivity. Qed.
Lemma xtime_lt_256 a : a < 256 -> xtime a < 256.
Proof. intros H. apply N.ltb_lt, (forallb_In' _ _ a xtime_byte_check), in_allbytes, H. Qed.
Lemma gf_pow2_S k : gf_pow2 (S k) = xtime (gf_pow2 k).
Proof. reflexivity. Qed.
Lemma gf_pow2_lt_256 k : gf_pow2 k < 256.
Proof. induction k as [|k IH]; [reflexivity|]. rewrite gf_pow2_S. now apply xtime_lt_256. Qed.

(* ------------------------------------------------------------------ Horner evaluation with an explicit accumulator *)
Definition horner (acc : N) (p : list N) (x : N) : N := fold_left (fun a c => N.lxor (gf_mul a x) c) p acc.

Lemma poly_eval_horner p x : poly_eval p x = horner 0 p x.
Proof. reflexivity. Qed.
Lemma horner_nil acc x : horner acc [] x = acc.
Proof. reflexivity. Qed.
Lemma horner_cons acc c p x : horner acc (c :: p) x = horner (N.lxor (gf_mul acc x) c) p x.
Proof. reflexivity. Qed.
Lemma horner_app acc p q x : horner acc (p ++ q) x = horner (horner acc p x) q x.
Proof. apply fold_left_app. Qed.

Lemma horner_lt_256 x : x < 256 -> forall p acc, acc < 256 -> bytes p -> horner acc p x < 256.
Proof.
  intros Hx. induction p as [|c p IH]; intros acc Ha Hp; [exact Ha|].
  rewrite horner_cons. apply IH; [|now inversion Hp].
  apply lxor_lt_256; [now apply gf_mul_lt_256 | now inversion Hp].
Qed.
Lemma poly_eval_lt_256 p x : x < 256 -> bytes p -> poly_eval p x < 256.
Proof. intros Hx Hp. rewrite poly_eval_horner. apply horner_lt_256; auto. reflexivity. Qed.

(* joint linearity in (accumulator, coefficients); no bound needed *)
Lemma horner_lxor x : forall p q a b, length p = length q ->
  horner (N.lxor a b) (xorl p q) x = N.lxor (horner a p x) (horner b q x).
Proof.
  induction p as [|c p IH]; intros [|d q] a b H; cbn [length] in H; try discriminate; [reflexivity|].
  cbn [xorl]. rewrite !horner_cons, gf_mul_lxor_l, lxor_4. apply IH. lia.
Qed.

Theorem poly_eval_xorl p q x : length p = length q ->
  poly_eval (xorl p q) x = N.lxor (poly_eval p x) (poly_eval q x).
Proof.
  intros H. rewrite !poly_eval_horner. pose proof (horner_lxor x p q 0 0 H) as E.
  rewrite N.lxor_0_l in E. exact E.
Qed.

Lemma poly_eval_nil x : poly_eval [] x = 0.
Proof. reflexivity. Qed.
Lemma poly_eval_0_cons p x : poly_eval (0 :: p) x = poly_eval p x.
Proof. rewrite !poly_eval_horner, horner_cons, gf_mul_0_l, N.lxor_0_l. reflexivity. Qed.
Lemma poly_eval_cons c p x : poly_eval (c :: p) x = horner c p x.
Proof. rewrite poly_eval_horner, horner_cons, gf_mul_0_l, N.lxor_0_l. reflexivity. Qed.

(* x^n in GF(2^8) *)
Fixpoint gpow (x : N) (n : nat) : N := match n with O => 1 | S n' => gf_mul (gpow x n') x end.
Lemma gpow_S x n : gpow x (S n) = gf_mul (gpow x n) x.
Proof. reflexivity. Qed.
Lemma gpow_lt_256 x n : x < 256 -> gpow x n < 256.
Proof. intros Hx. induction n as [|n IH]; [reflexivity|]. rewrite gpow_S. now apply gf_mul_lt_256. Qed.

Lemma horner_zeros x : x < 256 -> forall n acc, acc < 256 -> horner acc (zeros n) x = gf_mul acc (gpow x n).
Proof.
  intros Hx. induction n as [|n IH]; intros acc Ha.
  - cbn [zeros repeat gpow]. rewrite horner_nil. symmetry. apply gf_mul_1_r.
  - rewrite zeros_S, horner_cons, N.lxor_0_r, IH by (now apply gf_mul_lt_256).
    rewrite gpow_S. pose proof (gpow_lt_256 x n Hx) as Hp.
    rewrite gf_mul_assoc by auto. f_equal. now apply gf_mul_comm.
Qed.

Lemma poly_eval_zeros n x : x < 256 -> poly_eval (zeros n) x = 0.
Proof. intros Hx. rewrite poly_eval_horner, horner_zeros by (auto; reflexivity). apply gf_mul_0_l. Qed.

(* the accumulator contributes acc * x^|p| *)
Lemma horner_acc acc p x : acc < 256 -> x < 256 ->
  horner acc p x = N.lxor (gf_mul acc (gpow x (length p))) (poly_eval p x).
Proof.
  intros Ha Hx.
  pose proof (horner_lxor x (zeros (length p)) p acc 0) as E.
  rewrite zeros_length, N.lxor_0_r, xorl_zeros_l in E by reflexivity.
  rewrite E by reflexivity. rewrite horner_zeros by auto. reflexivity.
Qed.

Lemma poly_eval_app_zeros p n x : x < 256 -> bytes p ->
  poly_eval (p ++ zeros n) x = gf_mul (poly_eval p x) (gpow x n).
Proof.
  intros Hx Hp. rewrite poly_eval_horner, horner_app, <- poly_eval_horner.
  apply horner_zeros; auto. now apply poly_eval_lt_256.
Qed.

Lemma horner_scale c x : c < 256 -> x < 256 -> forall g acc, acc < 256 -> bytes g ->
  horner (gf_mul c acc) (scale c g) x = gf_mul c (horner acc g x).
Proof.
  intros Hc Hx. induction g as [|y g IH]; intros acc Ha Hg; [reflexivity|].
  assert (Hy : y < 256) by now inversion Hg.
  rewrite scale_cons, !horner_cons, gf_mul_assoc, <- gf_mul_lxor_r by auto.
  apply IH; [|now inversion Hg]. apply lxor_lt_256; auto. now apply gf_mul_lt_256.
Qed.

Theorem poly_eval_scale c g x : c < 256 -> x < 256 -> bytes g ->
  poly_eval (scale c g) x = gf_mul c (poly_eval g x).
Proof.
  intros Hc Hx Hg. rewrite !poly_eval_horner.
  pose proof (horner_scale c x Hc Hx g 0) as E. rewrite gf_mul_0_r in E. apply E; auto. reflexivity.
Qed.

(* evaluation is multiplicative *)
Theorem poly_eval_pmul q g x : bytes q -> bytes g -> x < 256 -> (1 <= length g)%nat ->
  poly_eval (pmul q g) x = gf_mul (poly_eval q x) (poly_eval g x).
Proof.
  intros Hq Hg Hx Hl. induction Hq as [|c q Hc Hq IH].
  - rewrite pmul_nil, poly_eval_zeros, poly_eval_nil, gf_mul_0_l by auto. reflexivity.
  - rewrite pmul_cons, poly_eval_xorl.
    2:{ cbn [length]. rewrite app_length, scale_length, zeros_length, pmul_length by auto. lia. }
    rewrite poly_eval_0_cons, IH, poly_eval_app_zeros by (auto using scale_bytes).
    rewrite poly_eval_scale by auto.
    rewrite poly_eval_cons, horner_acc by auto.
    set (G := poly_eval g x). set (Q := poly_eval q x). set (X := gpow x (length q)).
    assert (HG : G < 256) by (subst G; now apply poly_eval_lt_256).
    assert (HX : X < 256) by (subst X; now apply gpow_lt_256).
    rewrite gf_mul_lxor_l. f_equal.
    rewrite !gf_mul_assoc by auto. f_equal. now apply gf_mul_comm.
Qed.

(* ------------------------------------------------------------------ the Reed-Solomon generator and its roots *)
Lemma mul_linear_length p r : length (mul_linear p r) = S (length p).
Proof.
  unfold mul_linear. rewrite xorl_length, app_length. cbn [length]. rewrite scale_length. lia.
Qed.
Lemma mul_linear_bytes p r : bytes p -> r < 256 -> bytes (mul_linear p r).
Proof.
  intros Hp Hr. unfold mul_linear. apply xorl_bytes.
  - apply bytes_app; auto. constructor; [reflexivity | constructor].
  - constructor; [reflexivity | now apply scale_bytes].
Qed.

(* (p * (X + r))(x) = p(x) * (x + r) *)
Lemma poly_eval_mul_linear p r x : bytes p -> r < 256 -> x < 256 ->
  poly_eval (mul_linear p r) x = gf_mul (poly_eval p x) (N.lxor x r).
Proof.
  intros Hp Hr Hx. unfold mul_linear.
  rewrite poly_eval_xorl by (rewrite app_length; cbn [length]; rewrite scale_length; lia).
  rewrite poly_eval_0_cons, poly_eval_scale by auto.
  rewrite poly_eval_horner, horner_app, <- poly_eval_horner, horner_cons, horner_nil, N.lxor_0_r.
  rewrite gf_mul_lxor_r. f_equal. apply gf_mul_comm; auto. now apply poly_eval_lt_256.
Qed.

Lemma rs_aux_S k i p : rs_generator_aux (S k) i p = rs_generator_aux k (S i) (mul_linear p (gf_pow2 i)).
Proof. reflexivity. Qed.

Lemma rs_aux_keeps_root x : x < 256 -> forall k i p, bytes p -> poly_eval p x = 0 ->
  poly_eval (rs_generator_aux k i p) x = 0.
Proof.
  intros Hx. induction k as [|k IH]; intros i p Hp H0; [exact H0|].
  rewrite rs_aux_S. apply IH.
  - apply mul_linear_bytes; auto. apply gf_pow2_lt_256.
  - rewrite poly_eval_mul_linear by (auto; apply gf_pow2_lt_256). rewrite H0. apply gf_mul_0_l.
Qed.

Lemma rs_aux_root : forall k i p j, bytes p -> (i <= j < i + k)%nat ->
  poly_eval (rs_generator_aux k i p) (gf_pow2 j) = 0.
Proof.
  induction k as [|k IH]; intros i p j Hp Hj; [lia|].
  rewrite rs_aux_S.
  assert (Hb : bytes (mul_linear p (gf_pow2 i))) by (apply mul_linear_bytes; auto; apply gf_pow2_lt_256).
  destruct (Nat.eq_dec j i) as [->|Hne].
  - apply rs_aux_keeps_root; auto; [apply gf_pow2_lt_256|].
    rewrite poly_eval_mul_linear by (auto; apply gf_pow2_lt_256).
    rewrite N.lxor_nilpotent. apply gf_mul_0_r.
  - apply IH; auto. lia.
Qed.

(* every alpha^i, i < k, is a root of g_k -- for every k *)
Theorem rs_generator_root k i : (i < k)%nat -> poly_eval (rs_generator k) (gf_pow2 i) = 0.
Proof.
  intros H. unfold rs_generator. apply rs_aux_root; [|lia].
  constructor; [reflexivity | constructor].
Qed.

Lemma mul_linear_monic t r : mul_linear (1 :: t) r = 1 :: xorl (t ++ [0]) (scale r (1 :: t)).
Proof. unfold mul_linear. cbn [app xorl]. rewrite N.lxor_0_r. reflexivity. Qed.

Lemma rs_aux_shape : forall k i t, bytes t ->
  exists t', rs_generator_aux k i (1 :: t) = 1 :: t' /\ length t' = (length t + k)%nat /\ bytes t'.
Proof.
  induction k as [|k IH]; intros i t Ht.
  - exists t. cbn [rs_generator_aux]. repeat split; auto.
  - rewrite rs_aux_S, mul_linear_monic.
    set (t1 := xorl (t ++ [0]) (scale (gf_pow2 i) (1 :: t))).
    assert (H1 : bytes t1).
    { subst t1. apply xorl_bytes.
      - apply bytes_app; auto. constructor; [reflexivity | constructor].
      - apply scale_bytes; [apply gf_pow2_lt_256|]. constructor; [reflexivity | exact Ht]. }
    assert (L1 : length t1 = S (length t)).
    { subst t1. rewrite xorl_length, app_length, scale_length. cbn [length]. lia. }
    destruct (IH (S i) t1 H1) as [t' [E [L B]]]. exists t'. repeat split; auto. lia.
Qed.

(* g_k is monic of degree k with byte coefficients -- for every k *)
Theorem rs_generator_shape k : exists t, rs_generator k = 1 :: t /\ length t = k /\ bytes t.
Proof.
  unfold rs_generator. destruct (rs_aux_shape k 0 [] (Forall_nil _)) as [t [E [L B]]].
  exists t. repeat split; auto.
Qed.

(* ------------------------------------------------------------------ an encoded block is a multiple of the generator *)
Theorem block_is_multiple data gt : bytes data -> bytes gt ->
  exists q, bytes q /\ length q = length data /\ data ++ poly_rem data (1 :: gt) = pmul q (1 :: gt).
Proof.
  intros Hd Hg. destruct (poly_rem_spec_strong data gt) as [q [Hq [Hr [E Hb]]]].
  destruct (Hb Hd Hg) as [Bq Br]. exists q. split; [exact Bq|]. split; [exact Hq|].
  set (r := poly_rem data (1 :: gt)) in *.
  set (Z := zeros (length data) ++ r) in *.
  assert (LZ : length Z = (length data + length gt)%nat).
  { subst Z. rewrite app_length, zeros_length, Hr. reflexivity. }
  assert (LM : length (pmul q (1 :: gt)) = (length data + length gt)%nat).
  { rewrite pmul_length by (cbn [length]; lia). cbn [length]. lia. }
  (* xor both sides of E with Z *)
  assert (E2 : xorl (data ++ zeros (length gt)) Z = pmul q (1 :: gt)).
  { rewrite E, xorl_assoc, xorl_self, LZ. apply xorl_zeros_r. exact LM. }
  rewrite <- E2. subst Z. rewrite xorl_app by (now rewrite zeros_length).
  rewrite xorl_zeros_r by reflexivity. rewrite xorl_zeros_l by exact Hr. reflexivity.
Qed.

Lemma map_const_repeat {A B} (b : B) (l : list A) : map (fun _ => b) l = repeat b (length l).
Proof. induction l as [|a l IH]; cbn [map length repeat]; [reflexivity|]. now rewrite IH. Qed.

(* C02 ingredient: all k syndromes of  data ++ EC(data)  vanish, for every degree k and every byte string data *)
Theorem rs_block_syndromes k data : Forall (fun b => b < 256) data ->
  syndromes (data ++ poly_rem data (rs_generator k)) k = repeat 0 k.
Proof.
  intros Hd. destruct (rs_generator_shape k) as [t [E [L B]]].
  destruct (block_is_multiple data t Hd B) as [q [Bq [Lq Eb]]].
  unfold syndromes. rewrite <- (seq_length k 0) at 2. rewrite <- map_const_repeat.
  apply map_ext_in. intros i Hi. apply in_seq in Hi.
  pose proof (rs_generator_root k i ltac:(lia)) as R.
  rewrite E in *. rewrite Eb.
  rewrite poly_eval_pmul; auto.
  - rewrite R. apply gf_mul_0_r.
  - constructor; [reflexivity | exact B].
  - apply gf_pow2_lt_256.
  - cbn [length]. lia.
Qed.

Corollary rs_block_syndromes_b k data : Forall (fun b => b < 256) data ->
  forallb (N.eqb 0) (syndromes (data ++ poly_rem data (rs_generator k)) k) = true.
Proof.
  intros Hd. rewrite rs_block_syndromes by exact Hd. apply forallb_forall. intros x Hx.
  apply repeat_spec in Hx. subst x. reflexivity.
Qed.

(* the same for what the implementation computes *)
Corollary model_block_syndromes v e data : (v < 40)%nat -> Forall (fun b => b < 256) data ->
  syndromes (data ++ division_ec data (get_polynomial v e)) (iso_ec v (ecl_idx e)) = repeat 0 (iso_ec v (ecl_idx e)).
Proof.
  intros Hv Hd. rewrite ec_is_rs_remainder by auto. now apply rs_block_syndromes.
Qed.

Corollary model_block_syndromes_b v e data : (v < 40)%nat -> Forall (fun b => b < 256) data ->
  forallb (N.eqb 0) (syndromes (data ++ division_ec data (get_polynomial v e)) (iso_ec v (ecl_idx e))) = true.
Proof.
  intros Hv Hd. rewrite ec_is_rs_remainder by auto. now apply rs_block_syndromes_b.
Qed.
