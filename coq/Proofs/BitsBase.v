(* Generic facts used by PushBits.v / EncodeIso.v: big-endian bit lists (Spec.Iso.be_bits), the big-endian value of a
   byte list, list splitting helpers.  Nothing here mentions the model. *)
From Coq Require Import NArith List Bool Arith Lia ZArith.
From Coq Require Import ZifyBool ZifyNat ZifyN.
From FQ Require Import Lib.ListX Spec.Iso.
Import ListNotations.
Local Open Scope N_scope.
Ltac Zify.zify_post_hook ::= Z.div_mod_to_equations.
Arguments N.add : simpl never.
Arguments N.sub : simpl never.
Arguments N.mul : simpl never.
Arguments N.div : simpl never.
Arguments N.modulo : simpl never.
Arguments N.pow : simpl never.
Arguments N.shiftl : simpl never.
Arguments N.shiftr : simpl never.
Arguments N.land : simpl never.
Arguments N.lor : simpl never.
Arguments N.testbit : simpl never.
Arguments N.of_nat : simpl never.
Arguments N.to_nat : simpl never.

(* ------------------------------------------------------------------ lists *)
Lemma firstn_app_exact {A} (l1 l2 : list A) n : length l1 = n -> firstn n (l1 ++ l2) = l1.
Proof.
  intros <-. rewrite firstn_app, Nat.sub_diag, firstn_all. cbn [firstn]. apply app_nil_r.
Qed.

Lemma skipn_app_exact {A} (l1 l2 : list A) n : length l1 = n -> skipn n (l1 ++ l2) = l2.
Proof.
  intros <-. rewrite skipn_app, Nat.sub_diag, skipn_all. reflexivity.
Qed.

Lemma Forall_repeat {A} (P : A -> Prop) x n : P x -> Forall P (repeat x n).
Proof. intros H. induction n as [|n IH]; cbn [repeat]; constructor; auto. Qed.

Lemma Forall_skipn {A} (P : A -> Prop) (l : list A) n : Forall P l -> Forall P (skipn n l).
Proof.
  revert l; induction n as [|n IH]; intros l H; cbn [skipn]; auto.
  destruct l as [|x t]; auto. inversion H; subst; auto.
Qed.

Lemma Forall_firstn {A} (P : A -> Prop) (l : list A) n : Forall P l -> Forall P (firstn n l).
Proof.
  revert l; induction n as [|n IH]; intros l H; cbn [firstn]; auto.
  destruct l as [|x t]; auto. inversion H; subst; auto.
Qed.

Lemma skipn_skipn {A} (l : list A) a b : skipn a (skipn b l) = skipn (b + a) l.
Proof.
  revert l; induction b as [|b IH]; intros l; cbn [skipn Nat.add]; auto.
  destruct l as [|x t]; [now rewrite skipn_nil | apply IH].
Qed.

Lemma all_false_repeat (l : list bool) : Forall (fun b => b = false) l -> l = repeat false (length l).
Proof. induction 1 as [|x t Hx Ht IH]; cbn [length repeat]; [reflexivity | now rewrite Hx, <- IH]. Qed.

(* ------------------------------------------------------------------ powers *)
Lemma pow256 e : 256 ^ e = 2 ^ (8 * e).
Proof. change 256 with (2 ^ 8). now rewrite <- N.pow_mul_r. Qed.

Lemma pow2_pos e : 0 < 2 ^ e.
Proof. apply N.neq_0_lt_0, N.pow_nonzero. lia. Qed.

Lemma pow2_nz e : 2 ^ e <> 0.
Proof. apply N.pow_nonzero. lia. Qed.

Lemma pow2_split a b : b <= a -> 2 ^ a = 2 ^ b * 2 ^ (a - b).
Proof. intros H. rewrite <- N.pow_add_r. f_equal. lia. Qed.

Lemma pow2_le a b : a <= b -> 2 ^ a <= 2 ^ b.
Proof. intros H. apply N.pow_le_mono_r; lia. Qed.

Lemma pow2_lt a b : a < b -> 2 ^ a < 2 ^ b.
Proof. intros H. apply N.pow_lt_mono_r; lia. Qed.

(* OR equals + when bits are disjoint: low r bits of a are zero and y < 2^r *)
Lemma lor_add_disjoint a y r : a mod 2 ^ r = 0 -> y < 2 ^ r -> N.lor a y = a + y.
Proof.
  intros Ha Hy.
  assert (Hand : N.land a y = 0).
  { apply N.bits_inj_iff; intros k. rewrite N.land_spec, N.bits_0.
    destruct (N.lt_ge_cases k r) as [Hk|Hk].
    - assert (N.testbit a k = false) as ->; [|reflexivity].
      rewrite <- (N.mod_pow2_bits_low a r k Hk), Ha. apply N.bits_0.
    - assert (N.testbit y k = false) as ->; [|apply andb_false_r].
      destruct (N.eq_dec y 0) as [->|Hy0]; [apply N.bits_0|].
      apply N.bits_above_log2. apply N.log2_lt_pow2 in Hy; lia. }
  rewrite <- N.lxor_lor by exact Hand. symmetry. apply N.add_nocarry_lxor. exact Hand.
Qed.

(* ------------------------------------------------------------------ be_bits *)
Lemma be_bits_S w x : be_bits (S w) x = N.testbit x (N.of_nat w) :: be_bits w x.
Proof. reflexivity. Qed.

Lemma be_bits_length w x : length (be_bits w x) = w.
Proof. induction w as [|w IH]; [reflexivity | rewrite be_bits_S; cbn [length]; now rewrite IH]. Qed.

Lemma be_bits_ext w x y :
  (forall j, j < N.of_nat w -> N.testbit x j = N.testbit y j) -> be_bits w x = be_bits w y.
Proof.
  induction w as [|w IH]; intros H; [reflexivity|].
  rewrite !be_bits_S. f_equal; [apply H; lia | apply IH; intros j Hj; apply H; lia].
Qed.

Lemma be_bits_app w1 w2 x :
  be_bits (w1 + w2) x = be_bits w1 (N.shiftr x (N.of_nat w2)) ++ be_bits w2 x.
Proof.
  induction w1 as [|w1 IH]; [reflexivity|].
  cbn [Nat.add]. rewrite !be_bits_S. cbn [app]. rewrite IH. f_equal.
  rewrite N.shiftr_spec'. f_equal. lia.
Qed.

Lemma be_bits_mod w m x : N.of_nat w <= m -> be_bits w (x mod 2 ^ m) = be_bits w x.
Proof. intros H. apply be_bits_ext. intros j Hj. apply N.mod_pow2_bits_low. lia. Qed.

Lemma be_bits_land_ones w m x : N.of_nat w <= m -> be_bits w (N.land x (N.ones m)) = be_bits w x.
Proof. intros H. rewrite N.land_ones. now apply be_bits_mod. Qed.

Lemma be_bits_0 w : be_bits w 0 = repeat false w.
Proof. induction w as [|w IH]; [reflexivity|]. rewrite be_bits_S, N.bits_0, IH. reflexivity. Qed.

Lemma be_bits_num w1 w2 u z : z < 2 ^ N.of_nat w2 ->
  be_bits (w1 + w2) (u * 2 ^ N.of_nat w2 + z) = be_bits w1 u ++ be_bits w2 z.
Proof.
  intros Hz. rewrite be_bits_app. f_equal.
  - f_equal. rewrite N.shiftr_div_pow2, N.div_add_l by apply pow2_nz.
    rewrite N.div_small by exact Hz. lia.
  - rewrite <- (be_bits_mod w2 (N.of_nat w2)) by lia.
    rewrite N.add_comm, N.mod_add by apply pow2_nz.
    rewrite N.mod_small by exact Hz. reflexivity.
Qed.

Lemma be_bits_false_testbit w x : Forall (fun b => b = false) (be_bits w x) ->
  forall j, j < N.of_nat w -> N.testbit x j = false.
Proof.
  induction w as [|w IH]; intros H j Hj; [lia|].
  rewrite be_bits_S in H. inversion H as [|b t Hb Ht]; subst.
  destruct (N.eq_dec j (N.of_nat w)) as [->|Hne]; [exact Hb | apply IH; [exact Ht | lia]].
Qed.

Lemma be_bits_false_mod w x : Forall (fun b => b = false) (be_bits w x) -> x mod 2 ^ N.of_nat w = 0.
Proof.
  intros H. apply N.bits_inj_iff; intros j. rewrite N.bits_0.
  destruct (N.lt_ge_cases j (N.of_nat w)) as [Hj|Hj].
  - rewrite N.mod_pow2_bits_low by exact Hj. now apply (be_bits_false_testbit w).
  - now apply N.mod_pow2_bits_high.
Qed.

Lemma be_bits_mod0 w x : x mod 2 ^ N.of_nat w = 0 -> be_bits w x = repeat false w.
Proof. intros H. rewrite <- (be_bits_mod w (N.of_nat w)) by lia. rewrite H. apply be_bits_0. Qed.

Lemma be_bits_skipn w r x : (r <= w)%nat -> skipn r (be_bits w x) = be_bits (w - r) x.
Proof.
  intros H. replace w with (r + (w - r))%nat at 1 by lia.
  rewrite be_bits_app. apply skipn_app_exact, be_bits_length.
Qed.

Lemma be_bits_firstn w r x : (r <= w)%nat ->
  firstn r (be_bits w x) = be_bits r (N.shiftr x (N.of_nat (w - r))).
Proof.
  intros H. replace w with (r + (w - r))%nat at 1 by lia.
  rewrite be_bits_app. apply firstn_app_exact, be_bits_length.
Qed.

(* value of a bit list produced by be_bits *)
Lemma bits_val_be_bits w x : bits_val (be_bits w x) = x mod 2 ^ N.of_nat w.
Proof.
  induction w as [|w IH].
  - cbn [be_bits bits_val]. change (2 ^ N.of_nat 0) with 1. now rewrite N.mod_1_r.
  - rewrite be_bits_S. cbn [bits_val]. rewrite be_bits_length, IH.
    replace (N.of_nat (S w)) with (N.succ (N.of_nat w)) by lia.
    rewrite N.pow_succ_r'.
    pose proof (N.testbit_spec' x (N.of_nat w)) as Hb.
    pose proof (pow2_pos (N.of_nat w)) as Hp.
    set (P := 2 ^ N.of_nat w) in *.
    assert (Hq : (x / P) mod 2 = (if N.testbit x (N.of_nat w) then 1 else 0)).
    { rewrite <- Hb. now destruct (N.testbit x (N.of_nat w)). }
    rewrite <- Hq. clear Hb Hq.
    rewrite (N.mul_comm 2 P), N.mod_mul_r by lia. lia.
Qed.

(* ------------------------------------------------------------------ big-endian value of a byte list *)
Fixpoint val (d : list N) : N :=
  match d with [] => 0 | b :: t => b * 256 ^ N.of_nat (length t) + val t end.

Definition bytes (d : list N) := Forall (fun b => b < 256) d.

Lemma val_upd_add d : forall i y, (i < length d)%nat ->
  val (upd d i (nth i d 0 + y)) = val d + y * 256 ^ N.of_nat (length d - 1 - i).
Proof.
  induction d as [|b t IH]; intros [|i] y H; cbn [length] in H; try lia.
  - cbn [upd val nth length]. replace (S (length t) - 1 - 0)%nat with (length t) by lia. lia.
  - cbn [upd val nth]. rewrite upd_length, IH by lia. cbn [length].
    replace (S (length t) - 1 - S i)%nat with (length t - 1 - i)%nat by lia. lia.
Qed.

Lemma val_bound d : bytes d -> val d < 256 ^ N.of_nat (length d).
Proof.
  induction 1 as [|b t Hb Ht IH]; cbn [val length]. reflexivity.
  rewrite Nat2N.inj_succ, N.pow_succ_r'. nia.
Qed.

Lemma val_app a b : val (a ++ b) = val a * 256 ^ N.of_nat (length b) + val b.
Proof.
  induction a as [|x t IH]; cbn [app val]; [lia|].
  rewrite IH, app_length, Nat2N.inj_add, N.pow_add_r. lia.
Qed.

Lemma val_repeat0 n : val (repeat 0 n) = 0.
Proof. induction n as [|n IH]; cbn [repeat val]; [reflexivity | rewrite IH; lia]. Qed.

(* digit extraction *)
Lemma nth_val d : bytes d -> forall i, (i < length d)%nat ->
  nth i d 0 = (val d / 256 ^ N.of_nat (length d - 1 - i)) mod 256.
Proof.
  induction 1 as [|b t Hb Ht IH]; intros [|i] H; cbn [length] in H; try lia.
  - cbn [nth val length]. replace (S (length t) - 1 - 0)%nat with (length t) by lia.
    pose proof (val_bound t Ht) as Hv.
    rewrite N.div_add_l by (apply N.pow_nonzero; lia).
    rewrite (N.div_small (val t)) by exact Hv. rewrite N.add_0_r. symmetry. apply N.mod_small; exact Hb.
  - cbn [nth val length]. replace (S (length t) - 1 - S i)%nat with (length t - 1 - i)%nat by lia.
    rewrite IH by lia.
    set (e := N.of_nat (length t - 1 - i)).
    assert (He : N.of_nat (length t) = e + (N.of_nat (length t) - e)) by (subst e; lia).
    assert (Hge : 1 <= N.of_nat (length t) - e) by (subst e; lia).
    rewrite He at 1. rewrite N.pow_add_r.
    replace (b * (256 ^ e * 256 ^ (N.of_nat (length t) - e)) + val t)
      with (val t + (b * 256 ^ (N.of_nat (length t) - e)) * 256 ^ e) by lia.
    rewrite N.div_add by (apply N.pow_nonzero; lia).
    replace (N.of_nat (length t) - e) with (N.succ (N.of_nat (length t) - e - 1)) by lia.
    rewrite N.pow_succ_r'.
    replace (b * (256 * 256 ^ (N.of_nat (length t) - e - 1))) with ((b * 256 ^ (N.of_nat (length t) - e - 1)) * 256) by lia.
    rewrite N.mod_add by lia. reflexivity.
Qed.

Lemma upd_bytes d i x : bytes d -> x < 256 -> bytes (upd d i x).
Proof.
  unfold bytes. revert i; induction d as [|h t IH]; intros [|i] H Hx; cbn [upd]; auto;
  inversion H; subst; constructor; auto.
Qed.

Lemma bytes_app a b : bytes a -> bytes b -> bytes (a ++ b).
Proof. intros Ha Hb. apply Forall_app. now split. Qed.

Lemma bytes_repeat0 n : bytes (repeat 0 n).
Proof. apply Forall_repeat. reflexivity. Qed.

(* ------------------------------------------------------------------ bytes_bits *)
Lemma bytes_bits_cons b t : bytes_bits (b :: t) = be_bits 8 b ++ bytes_bits t.
Proof. reflexivity. Qed.

Lemma bytes_bits_app a b : bytes_bits (a ++ b) = bytes_bits a ++ bytes_bits b.
Proof. apply flat_map_app. Qed.

Lemma bytes_bits_length d : length (bytes_bits d) = (8 * length d)%nat.
Proof.
  induction d as [|b t IH]; [reflexivity|].
  rewrite bytes_bits_cons, app_length, be_bits_length, IH. cbn [length]. lia.
Qed.

Lemma bytes_bits_val d : bytes d -> bytes_bits d = be_bits (8 * length d) (val d).
Proof.
  induction 1 as [|b t Hb Ht IH]; [reflexivity|].
  rewrite bytes_bits_cons, IH. cbn [val length].
  replace (8 * S (length t))%nat with (8 + 8 * length t)%nat by lia.
  rewrite pow256. replace (8 * N.of_nat (length t)) with (N.of_nat (8 * length t)) by lia.
  rewrite be_bits_num; [reflexivity|].
  pose proof (val_bound t Ht) as Hv. rewrite pow256 in Hv.
  replace (N.of_nat (8 * length t)) with (8 * N.of_nat (length t)) by lia. exact Hv.
Qed.

Lemma bytes_bits_firstn d j : firstn (8 * j) (bytes_bits d) = bytes_bits (firstn j d).
Proof.
  revert d; induction j as [|j IH]; intros d.
  - reflexivity.
  - destruct d as [|b t]; [reflexivity|].
    replace (8 * S j)%nat with (8 + 8 * j)%nat by lia.
    cbn [firstn]. rewrite !bytes_bits_cons.
    rewrite firstn_app, be_bits_length.
    rewrite firstn_all2 by (rewrite be_bits_length; lia).
    replace (8 + 8 * j - 8)%nat with (8 * j)%nat by lia. now rewrite IH.
Qed.
