(* C17: the wasm entry points (Model/Wasm.v).
   - every state reachable from SvgOptions::new by setter calls is well formed (run_wf), and on a well-formed state the
     glue of qr_svg has no panic of its own: qr_svg = QRCode::new followed by the native renderer on [abs s]
     (qr_svg_spec, qr_svg_glue_no_panic); the renderer is never asked for an invalid size (qr_svg_size_ok);
   - setters given malformed values leave the state unchanged (set_*_malformed);
   - color_to_code produces bytes, and inverts rgba2hex (color_to_code_bytes, color_to_code_rgba2hex);
   - qr returns size * size values, each 0 or 1 (bool_to_u8_length, bool_to_u8_bits);
   - for versions below 40 the checked and the unchecked build agree, so the extracted driver runs the same function
     (qr_svg_unchecked_eq, qr_unchecked_eq). *)
From Coq Require Import String Ascii NArith ZArith List Bool Arith Lia.
From Coq Require Import ZifyBool ZifyNat ZifyN.
From FQ Require Import Lib.ListX Lib.Mat Generated.Tables Model.Types Model.Hardcode Model.Qr Model.Svg Model.Wasm
  Spec.Iso Spec.Xml Spec.SvgDoc Proofs.VersionGet Proofs.GeomSafe Proofs.Build Proofs.SvgWellFormed.
Import ListNotations.
Local Open Scope N_scope.
Ltac Zify.zify_post_hook ::= Z.div_mod_to_equations.
Arguments N.add : simpl never. Arguments N.sub : simpl never. Arguments N.mul : simpl never.
Arguments N.eqb : simpl never. Arguments N.ltb : simpl never. Arguments N.leb : simpl never.
Arguments N.div : simpl never. Arguments N.modulo : simpl never.

(* ------------------------------------------------------------------------------------------------------------ *)
(* setter histories                                                                                              *)

Inductive op :=
| OShape (x : shape)
| OModuleColor (color : list N)
| OMargin (m : N)
| OBackgroundColor (color : list N)
| OImage (img : list N)
| OImageBackgroundColor (color : list N)
| OImageBackgroundShape (x : ishape)
| OImageSize (size gap : Z)
| OImagePosition (pos : list Z)
| OEcl (e : ecl)
| OVersion (v : nat).

Definition apply_op (s : svg_options) (o : op) : svg_options :=
  match o with
  | OShape x => set_shape s x
  | OModuleColor c => set_module_color s c
  | OMargin m => set_margin s m
  | OBackgroundColor c => set_background_color s c
  | OImage i => set_image s i
  | OImageBackgroundColor c => set_image_background_color s c
  | OImageBackgroundShape x => set_image_background_shape s x
  | OImageSize a b => set_image_size s a b
  | OImagePosition p => set_image_position s p
  | OEcl e => set_ecl s e
  | OVersion v => set_version s v
  end.
Definition run (ops : list op) (s : svg_options) : svg_options := fold_left apply_op ops s.

(* the Version enum has the 40 values V01..V40 *)
Definition op_ok (o : op) : Prop := match o with OVersion v => (v < 40)%nat | _ => True end.

(* ------------------------------------------------------------------------------------------------------------ *)
(* color_to_code                                                                                                 *)

Lemma hex_digit_value_lt ch d : hex_digit_value ch = Some d -> d < 16.
Proof.
  unfold hex_digit_value. intros H.
  destruct ((48 <=? ch) && (ch <=? 57)) eqn:E1; [inversion H; lia|].
  destruct ((97 <=? ch) && (ch <=? 102)) eqn:E2; [inversion H; lia|].
  destruct ((65 <=? ch) && (ch <=? 70)) eqn:E3; [inversion H; lia|discriminate].
Qed.

Lemma parse_chunk_lt a b x : parse_chunk a b = Some x -> x < 256.
Proof.
  unfold parse_chunk, u8_from_str_radix16. destruct (chunk_is_utf8 a b); [|discriminate].
  destruct (a =? 43).
  - intros H. apply hex_digit_value_lt in H. lia.
  - destruct (hex_digit_value a) as [h|] eqn:Eh; [|discriminate].
    destruct (hex_digit_value b) as [l|] eqn:El; [|discriminate].
    apply hex_digit_value_lt in Eh, El. intros H. inversion H. lia.
Qed.

Lemma parse_chunks_lt n : forall (s l : list N), (length s <= n)%nat -> parse_chunks s = Some l -> Forall (fun x => x < 256) l.
Proof.
  induction n as [|n IH]; intros s l Hl H.
  - destruct s; [|cbn in Hl; lia]. inversion H. constructor.
  - destruct s as [|a [|b t]]; try (inversion H; constructor).
    cbn [parse_chunks] in H. destruct (parse_chunk a b) as [x|] eqn:Ex; [|discriminate].
    destruct (parse_chunks t) as [r|] eqn:Er; [|discriminate]. inversion H; subst.
    constructor; [now apply parse_chunk_lt in Ex|]. apply (IH t); [cbn [length] in Hl; lia|exact Er].
Qed.

Theorem color_to_code_bytes color : Forall (fun x => x < 256) (color_to_code color).
Proof.
  unfold color_to_code.
  set (c := match color with [] => [] | ch :: t => if ch =? 35 then t else color end).
  assert (H : Forall (fun x => x < 256) (match parse_chunks c with Some l => l | None => [] end)).
  { destruct (parse_chunks c) as [l|] eqn:E; [|constructor]. now apply (parse_chunks_lt (length c) c). }
  destruct (length _ =? 3)%nat; [|exact H]. apply Forall_app. split; [exact H|]. constructor; [lia|constructor].
Qed.

(* a colour printed by the renderer is read back by color_to_code *)
Lemma hex_digit_value_hexdig d : d < 16 -> hex_digit_value (hexdig d) = Some d.
Proof.
  intros H. unfold hex_digit_value, hexdig. destruct (d <? 10) eqn:E.
  - replace ((48 <=? 48 + d) && (48 + d <=? 57)) with true by lia. f_equal. lia.
  - replace ((48 <=? 87 + d) && (87 + d <=? 57)) with false by lia.
    replace ((97 <=? 87 + d) && (87 + d <=? 102)) with true by lia. f_equal. lia.
Qed.

Lemma hexdig_range d : d < 16 -> 48 <= hexdig d <= 102.
Proof. intros H. unfold hexdig. destruct (d <? 10) eqn:E; lia. Qed.

Lemma parse_chunk_hex2 b : b < 256 -> parse_chunk (hexdig (b / 16)) (hexdig (b mod 16)) = Some b.
Proof.
  intros H. unfold parse_chunk, u8_from_str_radix16, chunk_is_utf8.
  pose proof (hexdig_range (b / 16)) as R1. pose proof (hexdig_range (b mod 16)) as R2.
  replace ((hexdig (b / 16) <? 128) && (hexdig (b mod 16) <? 128)) with true by lia. cbn [orb].
  replace (hexdig (b / 16) =? 43) with false by lia.
  rewrite !hex_digit_value_hexdig by lia. f_equal. lia.
Qed.

Theorem color_to_code_rgba2hex x : rgba_ok x = true ->
  color_to_code (rgba2hex x) = [c_r x; c_g x; c_b x; c_a x].
Proof.
  unfold rgba_ok. intros H. unfold color_to_code, rgba2hex. cbn [app]. change (35 =? 35) with true. cbv iota.
  unfold hex2. cbn [app]. destruct (c_a x =? 255) eqn:E; cbn [app parse_chunks];
    rewrite !parse_chunk_hex2 by lia; cbn [length Nat.eqb app].
  - f_equal. f_equal. f_equal. f_equal. lia.
  - reflexivity.
Qed.

(* ------------------------------------------------------------------------------------------------------------ *)
(* well-formed states                                                                                            *)

Definition code_ok (v : list N) : Prop := length v = 4%nat /\ Forall (fun x => x < 256) v.
Definition opts_wf (s : svg_options) : Prop :=
  code_ok (w_module_color s) /\ code_ok (w_background_color s) /\ code_ok (w_image_background_color s)
  /\ (forall v, w_version s = Some v -> (v < 40)%nat).

Lemma new_wf : opts_wf new_options.
Proof.
  unfold opts_wf, code_ok, new_options; cbn. repeat split; try (repeat constructor; lia). discriminate.
Qed.

Lemma code_ok_color color : (length (color_to_code color) =? 4)%nat = true -> code_ok (color_to_code color).
Proof. intros H. split; [now apply Nat.eqb_eq|apply color_to_code_bytes]. Qed.

Lemma apply_op_wf s o : op_ok o -> opts_wf s -> opts_wf (apply_op s o).
Proof.
  intros Ho (H1 & H2 & H3 & H4).
  assert (Hs : opts_wf s) by exact (conj H1 (conj H2 (conj H3 H4))).
  destruct o as [x|color|m|color|img|color|x|size gap|pos|e|v]; cbn [apply_op].
  - split; [exact H1|split; [exact H2|split; [exact H3|exact H4]]].
  - unfold set_module_color. destruct (length (color_to_code color) =? 4)%nat eqn:E; cbn [negb]; [|exact Hs].
    split; [now apply code_ok_color|split; [exact H2|split; [exact H3|exact H4]]].
  - split; [exact H1|split; [exact H2|split; [exact H3|exact H4]]].
  - unfold set_background_color. destruct (length (color_to_code color) =? 4)%nat eqn:E; cbn [negb]; [|exact Hs].
    split; [exact H1|split; [now apply code_ok_color|split; [exact H3|exact H4]]].
  - split; [exact H1|split; [exact H2|split; [exact H3|exact H4]]].
  - unfold set_image_background_color. destruct (length (color_to_code color) =? 4)%nat eqn:E; cbn [negb]; [|exact Hs].
    split; [exact H1|split; [exact H2|split; [now apply code_ok_color|exact H4]]].
  - split; [exact H1|split; [exact H2|split; [exact H3|exact H4]]].
  - split; [exact H1|split; [exact H2|split; [exact H3|exact H4]]].
  - unfold set_image_position. destruct (negb _); [exact Hs|].
    split; [exact H1|split; [exact H2|split; [exact H3|exact H4]]].
  - split; [exact H1|split; [exact H2|split; [exact H3|exact H4]]].
  - split; [exact H1|split; [exact H2|split; [exact H3|]]].
    cbn. intros v' E. inversion E; subst. exact Ho.
Qed.

Theorem run_wf ops : forall s, Forall op_ok ops -> opts_wf s -> opts_wf (run ops s).
Proof.
  induction ops as [|o ops IH]; intros s Ho Hs; [exact Hs|].
  inversion Ho; subst. cbn [run fold_left]. apply IH; auto. now apply apply_op_wf.
Qed.

(* ------------------------------------------------------------------------------------------------------------ *)
(* malformed values                                                                                              *)

Theorem set_module_color_malformed s color : length (color_to_code color) <> 4%nat -> set_module_color s color = s.
Proof. intros H. unfold set_module_color. apply Nat.eqb_neq in H. now rewrite H. Qed.
Theorem set_background_color_malformed s color : length (color_to_code color) <> 4%nat -> set_background_color s color = s.
Proof. intros H. unfold set_background_color. apply Nat.eqb_neq in H. now rewrite H. Qed.
Theorem set_image_background_color_malformed s color :
  length (color_to_code color) <> 4%nat -> set_image_background_color s color = s.
Proof. intros H. unfold set_image_background_color. apply Nat.eqb_neq in H. now rewrite H. Qed.
Theorem set_image_position_malformed s pos : length pos <> 2%nat -> set_image_position s pos = s.
Proof. intros H. unfold set_image_position. apply Nat.eqb_neq in H. now rewrite H. Qed.

(* when is a colour string malformed: anything but one optional '#' followed by 3 or 4 two-character groups
   (plus at most one ignored trailing byte), each group two hex digits of either case or '+' and one hex digit *)
Theorem color_to_code_length color :
  length (color_to_code color) = 4%nat <->
  exists l, parse_chunks (match color with ch :: t => if ch =? 35 then t else color | [] => [] end) = Some l
            /\ (length l = 3 \/ length l = 4)%nat.
Proof.
  unfold color_to_code. set (c := match color with [] => [] | ch :: t => if ch =? 35 then t else color end).
  destruct (parse_chunks c) as [l|]; cbn zeta.
  - destruct (length l =? 3)%nat eqn:E.
    + apply Nat.eqb_eq in E. rewrite app_length, E. cbn. split; [intros _; exists l; auto|auto].
    + apply Nat.eqb_neq in E. split.
      * intros H. exists l. auto.
      * intros (l' & H & [Hl|Hl]); inversion H; subst; lia.
  - cbn. split; [discriminate|]. intros (l & H & _). discriminate.
Qed.

(* ------------------------------------------------------------------------------------------------------------ *)
(* qr_svg                                                                                                        *)

Definition rgba_of (v : list N) : rgba :=
  {| c_r := nth 0 v 0; c_g := nth 1 v 0; c_b := nth 2 v 0; c_a := nth 3 v 0 |}.

(* the native builder configuration that qr_svg sets up *)
Definition abs (s : svg_options) : cfg := {|
  c_layers := [(w_shape s, None)];
  c_margin := w_margin s;
  c_background_color := rgba_of (w_background_color s);
  c_dot_color := rgba_of (w_module_color s);
  c_image := match w_image s with [] => None | img => Some img end;
  c_image_background_color := rgba_of (w_image_background_color s);
  c_image_background_shape := w_image_background_shape s;
  c_image_size := match w_image_size s with [size; _] => Some size | _ => None end;
  c_image_gap := match w_image_size s with [_; gap] => Some gap | _ => None end;
  c_image_position := match w_image_position s with [x; y] => Some (x, y) | _ => None end;
|}.

Lemma color_of_vec_ok v : code_ok v -> color_of_vec v = Ok (rgba_of v).
Proof.
  intros [Hl _]. destruct v as [|r [|g [|b [|a [|x v]]]]]; cbn in Hl; try lia. reflexivity.
Qed.

Lemma builder_of_wf s : opts_wf s -> builder_of s = Ok (abs s).
Proof.
  intros (H1 & H2 & H3 & _). unfold builder_of.
  rewrite (color_of_vec_ok _ H2), (color_of_vec_ok _ H1), (color_of_vec_ok _ H3).
  unfold abs. destruct (w_image s) as [|i0 img]; destruct (w_image_size s) as [|sz [|gp [|x l]]];
    destruct (w_image_position s) as [|px [|py [|y l']]]; reflexivity.
Qed.

Definition svg_of_build (s : svg_options) (r : result qrcode) : result (list N) :=
  match r with
  | Ok q => Ok (Svg.to_str (abs s) (q_size q) (q_mat q))
  | ErrEncodedData | ErrSpecifiedVersion => Ok []
  | Panic c => Panic c
  end.

Lemma qr_svg_with_spec bld content s : opts_wf s ->
  qr_svg_with bld content s = svg_of_build s (bld content (qr_options (w_ecl s) (w_version s))).
Proof.
  intros H. unfold qr_svg_with. rewrite (builder_of_wf s H). destruct (bld content _); reflexivity.
Qed.

Theorem qr_svg_spec content s : opts_wf s ->
  qr_svg content s = svg_of_build s (Qr.build content (qr_options (w_ecl s) (w_version s))).
Proof. apply qr_svg_with_spec. Qed.

(* the glue adds no panic: after any setter history, qr_svg can only panic when QRCode::new itself does *)
Theorem qr_svg_glue_no_panic ops content c : Forall op_ok ops ->
  qr_svg content (run ops new_options) = Panic c ->
  Qr.build content (qr_options (w_ecl (run ops new_options)) (w_version (run ops new_options))) = Panic c.
Proof.
  intros Ho. rewrite qr_svg_spec by (apply run_wf; [exact Ho|apply new_wf]).
  destruct (Qr.build content _); cbn [svg_of_build]; congruence.
Qed.

(* the renderer is called with the size of a real version: Version::from_n does not panic *)
Lemma version_from_n_size_check : forallb (fun v => match version_from_n (N.of_nat (version_size v)) with Some v' => Nat.eqb v' v | None => false end) (seq 0 40) = true.
Proof. vm_compute. reflexivity. Qed.

Lemma version_from_n_size v : (v < 40)%nat -> version_from_n (N.of_nat (version_size v)) = Some v.
Proof.
  intros H. pose proof version_from_n_size_check as C. rewrite forallb_forall in C.
  specialize (C v). rewrite in_seq in C. specialize (C ltac:(lia)).
  destruct (version_from_n _) as [v'|]; [|discriminate]. apply Nat.eqb_eq in C. now subst.
Qed.

Lemma build_version_lt content o q : (forall v, o_version o = Some v -> (v < 40)%nat) ->
  Qr.build content o = Ok q -> (q_version q < 40)%nat /\ q_size q = version_size (q_version q).
Proof.
  intros Hv H. destruct (build_ok_fields content o q H) as (_ & _ & Hs & Hf & Hn & _). split; [|exact Hs].
  destruct (o_version o) as [uv|] eqn:E.
  - rewrite (Hf uv eq_refl). now apply Hv.
  - specialize (Hn eq_refl). now apply min_version_spec in Hn.
Qed.

Theorem qr_svg_size_ok content s q : opts_wf s ->
  Qr.build content (qr_options (w_ecl s) (w_version s)) = Ok q -> to_str_panics (abs s) (q_size q) = false.
Proof.
  intros (_ & _ & _ & Hv) H. apply build_version_lt in H as [Hq Hs]; [|exact Hv].
  unfold to_str_panics. rewrite Hs, version_from_n_size by exact Hq. destruct (c_image (abs s)); reflexivity.
Qed.

(* checked and unchecked builds *)
Lemma build_eq_unchecked content o : (forall v, o_version o = Some v -> (v < 40)%nat) ->
  build_unchecked content o = Qr.build content o.
Proof.
  intros Hv. unfold Qr.build, build_unchecked, build_with.
  destruct (resolve content o) as [[[m e] v]| | |] eqn:R; try reflexivity.
  assert (Hlt : (v < 40)%nat).
  { unfold resolve in R. rewrite version_get_is_min in R.
    destruct (iso_min_version _ _ _) as [vmin|] eqn:Emin; [|discriminate].
    apply min_version_spec in Emin as [Hmin _].
    destruct (o_version o) as [uv|] eqn:Eu.
    - destruct (vmin <=? uv)%nat; inversion R; subst. now apply Hv.
    - inversion R; subst. exact Hmin. }
  unfold build_matrix, build_matrix_unchecked. rewrite (config_safe_all v e Hlt). reflexivity.
Qed.

Theorem qr_svg_unchecked_eq content s : opts_wf s -> qr_svg_unchecked content s = qr_svg content s.
Proof.
  intros H. unfold qr_svg_unchecked, qr_svg. rewrite !qr_svg_with_spec by exact H.
  rewrite build_eq_unchecked; [reflexivity|]. cbn [qr_options o_version]. apply H.
Qed.

Theorem qr_unchecked_eq content : qr_unchecked content = qr content.
Proof.
  unfold qr_unchecked, qr, qr_with. rewrite build_eq_unchecked; [reflexivity|]. cbn. discriminate.
Qed.

(* ------------------------------------------------------------------------------------------------------------ *)
(* qr                                                                                                            *)

Theorem qr_spec content :
  qr content = match Qr.build content no_options with
               | Ok q => Ok (bool_to_u8 q)
               | ErrEncodedData | ErrSpecifiedVersion => Ok []
               | Panic c => Panic c
               end.
Proof. reflexivity. Qed.

Lemma flat_map_length_const {A B} (f : A -> list B) l k : (forall x, length (f x) = k) -> length (flat_map f l) = (length l * k)%nat.
Proof. intros H. induction l as [|x l IH]; cbn [flat_map length]; auto. rewrite app_length, H, IH. lia. Qed.

Theorem bool_to_u8_length q : length (bool_to_u8 q) = (q_size q * q_size q)%nat.
Proof.
  unfold bool_to_u8. rewrite (flat_map_length_const _ _ (q_size q)).
  - now rewrite seq_length.
  - intros r. now rewrite map_length, seq_length.
Qed.

Theorem bool_to_u8_bits q : Forall (fun x => x = 0 \/ x = 1) (bool_to_u8 q).
Proof.
  unfold bool_to_u8. apply Forall_forall. intros x Hx. apply in_flat_map in Hx as (r & _ & Hx).
  apply in_map_iff in Hx as (c & <- & _). destruct (snd _); auto.
Qed.

(* the value at index r * size + c is the module (r, c) *)
Theorem bool_to_u8_nth q r c : (r < q_size q)%nat -> (c < q_size q)%nat ->
  nth (r * q_size q + c) (bool_to_u8 q) 0 = if snd (qget (q_mat q) r c) then 1 else 0.
Proof.
  unfold bool_to_u8. set (n := q_size q). set (f := fun r c => if snd (qget (q_mat q) r c) then 1 else 0).
  intros Hr Hc. change (nth (r * n + c) (flat_map (fun r => map (f r) (seq 0 n)) (seq 0 n)) 0 = f r c).
  assert (G : forall k s, (r < k)%nat ->
            nth (r * n + c) (flat_map (fun r0 => map (f r0) (seq 0 n)) (seq s k)) 0 = f (s + r)%nat c).
  { revert Hc. clear Hr. revert c. induction r as [|r IH]; intros c Hc k s Hk.
    - destruct k as [|k]; [lia|]. cbn [seq flat_map]. rewrite app_nth1 by (rewrite map_length, seq_length; lia).
      rewrite (nth_indep _ 0 (f s 0%nat)) by (rewrite map_length, seq_length; lia).
      rewrite map_nth, seq_nth by lia. now rewrite Nat.add_0_r.
    - destruct k as [|k]; [lia|]. cbn [seq flat_map].
      rewrite app_nth2 by (rewrite map_length, seq_length; lia). rewrite map_length, seq_length.
      replace (S r * n + c - n)%nat with (r * n + c)%nat by lia.
      rewrite (IH c Hc k (S s)) by lia. f_equal. lia. }
  now rewrite (G n 0%nat Hr).
Qed.

(* ------------------------------------------------------------------------------------------------------------ *)
(* C12 for the wasm entry point                                                                                  *)

Lemma rgba_of_ok v : code_ok v -> rgba_ok (rgba_of v) = true.
Proof.
  intros [Hl Hb]. destruct v as [|r [|g [|b [|a [|x v]]]]]; cbn in Hl; try lia.
  inversion Hb as [|? ? Hr Hb1]; subst. inversion Hb1 as [|? ? Hg Hb2]; subst.
  inversion Hb2 as [|? ? Hbb Hb3]; subst. inversion Hb3 as [|? ? Ha _]; subst.
  unfold rgba_ok, rgba_of. cbn [nth c_r c_g c_b c_a]. lia.
Qed.

Theorem abs_cfg_ok s : opts_wf s -> chars_ok (w_image s) = true -> cfg_ok (abs s) = true.
Proof.
  intros (H1 & H2 & H3 & _) Hi. unfold cfg_ok, abs. cbn [c_background_color c_dot_color c_image_background_color c_layers c_image].
  rewrite !rgba_of_ok by assumption. cbn [forallb snd opt_rgba_ok andb].
  destruct (w_image s); [reflexivity|exact Hi].
Qed.

(* after any setter history, for an image string that is valid UTF-8 of XML characters, a successful qr_svg returns
   a well-formed document with the expected structure *)
Theorem qr_svg_well_formed ops content q :
  let s := run ops new_options in
  Forall op_ok ops -> chars_ok (w_image s) = true ->
  Qr.build content (qr_options (w_ecl s) (w_version s)) = Ok q ->
  exists text, qr_svg content s = Ok text /\ xml_parse text = Some (expected_doc (abs s) (q_size q) (q_mat q)).
Proof.
  intros s Ho Hi Hb. assert (Hs : opts_wf s) by (apply run_wf; [exact Ho|apply new_wf]).
  exists (Svg.to_str (abs s) (q_size q) (q_mat q)). split.
  - rewrite qr_svg_spec by exact Hs. now rewrite Hb.
  - apply svg_well_formed. now apply abs_cfg_ok.
Qed.
