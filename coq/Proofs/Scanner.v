(* The one-pass line scanner of score.rs (Model.Score.line) computes, for EVERY list of cells, the documented
   line penalty of Spec.Penalty: 40 per 1011101 window of encoding-region cells, and N-2 per maximal run of N >= 5
   equal encoding-region cells.  Both parts are proved by induction on the list, generalised over the scanner state.

   runs:    the scanner's (count, current) is the spec's open run: count = 0 <-> None, count >= 1 <-> Some (current, count);
            the initial state (count 1, current = negb first value) is a one-cell virtual run of the opposite value that
            the first real cell closes without any contribution.
   windows: the scanner's (buffer, count_data) are abstracted by the last six cells h (initially six virtual cells
            outside the encoding region): buffer mod 64 encodes their values, and count_data >= j iff the last j cells
            of h are all in the encoding region (j <= 6).  The scanner fires at the END of a window, the spec at its START;
            with the six-cell history in front of the remaining suffix these coincide. *)
From Coq Require Import NArith ZArith List Bool Arith Lia ZifyBool ZifyNat ZifyN.
From FQ Require Import Lib.ListX Lib.Mat Model.Types Model.Score Spec.Penalty.
Import ListNotations.
Local Open Scope N_scope.
Ltac Zify.zify_post_hook ::= Z.div_mod_to_equations.
Local Arguments N.add : simpl never.
Local Arguments N.sub : simpl never.
Local Arguments N.mul : simpl never.
Local Arguments N.eqb : simpl never.
Local Arguments N.ltb : simpl never.
Local Arguments N.leb : simpl never.
Local Arguments N.div : simpl never.
Local Arguments N.modulo : simpl never.
Local Arguments N.shiftl : simpl never.
Local Arguments N.shiftr : simpl never.
Local Arguments N.land : simpl never.
Local Arguments N.lor : simpl never.

(* a model cell seen by the spec: (in encoding region, value) *)
Definition pc (x : cell) : pcell := (is_data x, snd x).

(* ------------------------------------------------------------------------------------------------ *)
(* runs *)

(* the value `line` returns: the pending run is closed at the end *)
Definition ls_final (s : lstate) : N := if 5 <=? ls_count s then ls_line s + (ls_count s - 2) else ls_line s.
(* the spec's open run represented by a scanner state *)
Definition ls_run (s : lstate) : option (bool * N) :=
  if ls_count s =? 0 then None else Some (ls_current s, ls_count s).

Lemma run_step s x t :
  ls_line (line_step s x) + runs_from (ls_run (line_step s x)) t = ls_line s + runs_from (ls_run s) (pc x :: t).
Proof.
  destruct s as [ln pt ct cu bf cd]. destruct x as [ty v].
  unfold line_step, ls_run, pc, is_data, T_DATA.
  cbn [ls_line ls_patt ls_count ls_current ls_buffer ls_cdata fst snd].
  destruct (ct =? 0) eqn:Ec.
  - apply N.eqb_eq in Ec. subst ct.
    destruct (ty =? 0) eqn:Et; destruct v, cu;
      cbn [Bool.eqb negb ls_line ls_count ls_current runs_from];
      rewrite ?N.add_0_l;
      repeat match goal with |- context [if ?b then _ else _] => destruct b eqn:? end; try lia.
  - destruct (ty =? 0) eqn:Et; destruct v, cu;
      cbn [Bool.eqb negb ls_line ls_count ls_current runs_from];
      rewrite ?N.add_0_l;
      repeat match goal with |- context [if ?b then _ else _] => destruct b eqn:? end; try lia.
Qed.

Lemma runs_fold l : forall s,
  ls_final (fold_left line_step l s) = ls_line s + runs_from (ls_run s) (map pc l).
Proof.
  induction l as [|x l IH]; intros s.
  - cbn [fold_left map runs_from]. unfold ls_final, ls_run.
    destruct (ls_count s =? 0) eqn:Ec; destruct (5 <=? ls_count s) eqn:E5; lia.
  - cbn [fold_left map]. rewrite IH. apply run_step.
Qed.

(* ------------------------------------------------------------------------------------------------ *)
(* windows *)

(* the three fields of the window scanner after one step *)
Lemma step_buffer s x :
  ls_buffer (line_step s x) = N.land (N.lor (N.shiftl (ls_buffer s) 1) (b2n (snd x))) 127.
Proof. unfold line_step. destruct (Bool.eqb (snd x) (ls_current s)); destruct (negb (is_data x)); reflexivity. Qed.

Lemma step_cdata s x : ls_cdata (line_step s x) = if is_data x then ls_cdata s + 1 else 0.
Proof. unfold line_step. destruct (Bool.eqb (snd x) (ls_current s)); destruct (is_data x); reflexivity. Qed.

Lemma step_patt s x :
  ls_patt (line_step s x) =
  if is_data x && ((7 <=? ls_cdata s + 1) && (ls_buffer (line_step s x) =? 93)) then ls_patt s + 40 else ls_patt s.
Proof.
  rewrite step_buffer. unfold line_step.
  destruct (Bool.eqb (snd x) (ls_current s)); destruct (is_data x); reflexivity.
Qed.

Lemma buffer_arith b v : N.land (N.lor (N.shiftl b 1) (b2n v)) 127 = 2 * (b mod 64) + b2n v.
Proof.
  assert (E : N.lor (N.shiftl b 1) (b2n v) = 2 * b + b2n v) by (destruct b, v; reflexivity).
  rewrite E. change 127 with (N.ones 7). rewrite N.land_ones. change (2 ^ 7) with 128.
  destruct v; unfold b2n; lia.
Qed.

(* big-endian value of a list of bits *)
Definition enc (l : list bool) : N := fold_left (fun a v => 2 * a + b2n v) l 0.

Lemma enc_93 v0 v1 v2 v3 v4 v5 v :
  (2 * enc [v0; v1; v2; v3; v4; v5] + b2n v =? 93) = list_eqb Bool.eqb [v0; v1; v2; v3; v4; v5; v] window_pattern.
Proof. destruct v0, v1, v2, v3, v4, v5, v; reflexivity. Qed.

Lemma enc_shift v0 v1 v2 v3 v4 v5 v :
  (2 * enc [v0; v1; v2; v3; v4; v5] + b2n v) mod 64 = enc [v1; v2; v3; v4; v5; v].
Proof. destruct v0, v1, v2, v3, v4, v5, v; reflexivity. Qed.

(* h = the last six cells seen (virtual cells outside the encoding region before the start of the line) *)
Definition winv (h : list pcell) (s : lstate) : Prop :=
  length h = 6%nat /\
  ls_buffer s mod 64 = enc (map snd h) /\
  forall j, (j <= 6)%nat -> (N.of_nat j <=? ls_cdata s) = forallb fst (skipn (6 - j) h).

Lemma win_step c0 h5 s x t :
  winv (c0 :: h5) s ->
  winv (h5 ++ [pc x]) (line_step s x) /\
  ls_patt (line_step s x) = ls_patt s + 40 * (if window_here (c0 :: h5 ++ pc x :: t) then 1 else 0).
Proof.
  intros (Hlen & Hbuf & Hcd).
  assert (Hlen5 : length h5 = 5%nat) by (cbn [length] in Hlen; lia).
  (* the data counter *)
  assert (Hcd' : forall j, (j <= 6)%nat ->
            (N.of_nat j <=? ls_cdata (line_step s x)) = forallb fst (skipn (6 - j) (h5 ++ [pc x]))).
  { intros j Hj. rewrite step_cdata. destruct j as [|k].
    - rewrite skipn_all2 by (rewrite app_length; cbn [length]; lia). cbn [forallb]. lia.
    - rewrite skipn_app. replace (6 - S k - length h5)%nat with 0%nat by lia.
      cbn [skipn]. rewrite forallb_app. cbn [forallb pc fst].
      specialize (Hcd k ltac:(lia)).
      replace (6 - k)%nat with (S (6 - S k)) in Hcd by lia. cbn [skipn] in Hcd.
      unfold pcell in *. set (B := forallb fst (skipn _ h5)) in *. clearbody B.
      destruct B; destruct (is_data x); cbn [andb]; lia. }
  specialize (Hcd 6%nat ltac:(lia)). cbn [Nat.sub skipn] in Hcd.
  destruct h5 as [|c1 [|c2 [|c3 [|c4 [|c5 [|c6 h']]]]]]; cbn [length] in Hlen5; try lia.
  cbn [map] in Hbuf.
  assert (Hb' : ls_buffer (line_step s x) = 2 * enc [snd c0; snd c1; snd c2; snd c3; snd c4; snd c5] + b2n (snd x)).
  { rewrite step_buffer, buffer_arith, Hbuf. reflexivity. }
  split.
  - split; [reflexivity|]. split; [|exact Hcd'].
    rewrite Hb'. cbn [app map pc snd]. apply enc_shift.
  - rewrite step_patt, Hb', enc_93.
    unfold window_here. cbn [app length firstn forallb map pc fst snd Nat.leb].
    cbn [forallb] in Hcd.
    replace (7 <=? ls_cdata s + 1) with (N.of_nat 6 <=? ls_cdata s) by lia.
    rewrite Hcd.
    destruct (fst c0), (fst c1), (fst c2), (fst c3), (fst c4), (fst c5), (is_data x); cbn [andb]; try lia;
      destruct (list_eqb _ _ _); lia.
Qed.

Lemma windows_short l : (length l < 7)%nat -> windows l = 0.
Proof.
  induction l as [|a l IH]; intros H; [reflexivity|].
  cbn [windows]. rewrite IH by (cbn [length] in H; lia).
  unfold window_here. replace (7 <=? length (a :: l))%nat with false by lia. reflexivity.
Qed.

Lemma win_fold l : forall h s, winv h s ->
  ls_patt (fold_left line_step l s) = ls_patt s + 40 * windows (h ++ map pc l).
Proof.
  induction l as [|x l IH]; intros h s Hinv.
  - cbn [fold_left map]. rewrite app_nil_r, windows_short; [lia|]. destruct Hinv as [-> _]. lia.
  - destruct h as [|c0 h5]; [destruct Hinv as [Hl _]; discriminate Hl|].
    destruct (win_step c0 h5 s x (map pc l) Hinv) as [Hinv' Hp].
    cbn [fold_left map]. rewrite (IH _ _ Hinv'), Hp.
    rewrite <- app_assoc. cbn [app windows]. lia.
Qed.

Lemma window_here_nondata v t : window_here ((false, v) :: t) = false.
Proof.
  unfold window_here. change (firstn 7 ((false, v) :: t)) with ((false, v) :: firstn 6 t).
  cbn [forallb fst andb]. rewrite andb_false_r. reflexivity.
Qed.

(* ------------------------------------------------------------------------------------------------ *)
(* the scanner is the spec, for every list (the empty list included: both sides are (0, 0)) *)
Theorem line_is_spec_all : forall l, line l = (40 * windows (map pc l), runs_penalty (map pc l)).
Proof.
  intros l. unfold line.
  set (init := {| ls_line := 0; ls_patt := 0; ls_count := 1; ls_current := negb (snd (hd dflt_cell l));
                  ls_buffer := 0; ls_cdata := 0 |}).
  change (if 5 <=? ls_count (fold_left line_step l init)
          then ls_line (fold_left line_step l init) + (ls_count (fold_left line_step l init) - 2)
          else ls_line (fold_left line_step l init)) with (ls_final (fold_left line_step l init)).
  f_equal.
  - assert (Hinv : winv (repeat (false, false) 6) init).
    { split; [reflexivity|]. split; [reflexivity|]. intros j Hj. cbn [ls_cdata init].
      destruct j as [|[|[|[|[|[|[|j]]]]]]]; try lia; reflexivity. }
    rewrite (win_fold l _ _ Hinv). cbn [ls_patt init repeat app windows].
    rewrite !window_here_nondata. lia.
  - rewrite runs_fold. unfold runs_penalty. cbn [ls_line init]. rewrite N.add_0_l.
    destruct l as [|[ty v] l]; [reflexivity|].
    unfold ls_run. cbn [ls_count ls_current init hd snd map pc].
    change (1 =? 0) with false. change (pc (ty, v)) with (is_data (ty, v), v). cbn [runs_from].
    destruct (is_data (ty, v)); cbn [negb]; [|reflexivity].
    destruct v; cbn [negb Bool.eqb]; change (5 <=? 1) with false; rewrite ?N.add_0_l; reflexivity.
Qed.

Theorem line_is_spec : forall l, l <> [] -> line l = (40 * windows (map pc l), runs_penalty (map pc l)).
Proof. intros l _. apply line_is_spec_all. Qed.

Corollary line_is_penalty l : fst (line l) + snd (line l) = line_penalty (map pc l).
Proof. rewrite line_is_spec_all. reflexivity. Qed.

Print Assumptions line_is_spec.
