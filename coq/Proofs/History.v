(* C14: the builder's option algebra. Setters: last value wins per field; Build returns build(input, current fields) and
   leaves the state unchanged; hence any two histories ending in the same fields give the same outputs. *)
From Coq Require Import NArith List Bool Arith Lia.
From FQ Require Import Model.Types Model.Qr Model.Builder Generated.Purity.
Import ListNotations.

Definition last_some {A} (sel : bop -> option A) (ops : list bop) (init : option A) : option A :=
  fold_left (fun acc op => match sel op with Some x => Some x | None => acc end) ops init.

Definition sel_mode (op : bop) := match op with SetMode m => Some m | _ => None end.
Definition sel_ecl (op : bop) := match op with SetEcl e => Some e | _ => None end.
Definition sel_version (op : bop) := match op with SetVersion v => Some v | _ => None end.
Definition sel_mask (op : bop) := match op with SetMask k => Some k | _ => None end.

Lemma bstep_state b op : b_input (fst (bstep b op)) = b_input b /\ b_opts (fst (bstep b op)) = set_opt (b_opts b) op.
Proof. destruct op; cbn; auto. Qed.

Theorem history_state ops : forall b,
  let b' := fst (run_history b ops) in
  b_input b' = b_input b /\
  o_mode (b_opts b') = last_some sel_mode ops (o_mode (b_opts b)) /\
  o_ecl (b_opts b') = last_some sel_ecl ops (o_ecl (b_opts b)) /\
  o_version (b_opts b') = last_some sel_version ops (o_version (b_opts b)) /\
  o_mask (b_opts b') = last_some sel_mask ops (o_mask (b_opts b)).
Proof.
  induction ops as [|op ops IH]; intros b; cbn zeta; [cbn; auto|].
  cbn [run_history]. destruct (bstep b op) as [b1 out] eqn:E1. destruct (run_history b1 ops) as [b2 outs] eqn:E2.
  cbn [fst]. specialize (IH b1). rewrite E2 in IH. cbn [fst] in IH. cbn zeta in IH.
  destruct (bstep_state b op) as [S1 S2]. rewrite E1 in S1, S2. cbn [fst] in S1, S2.
  destruct IH as (I1 & I2 & I3 & I4 & I5). rewrite I1, I2, I3, I4, I5, S1, S2.
  unfold last_some. cbn [fold_left]. destruct op; cbn; auto.
Qed.

(* every Build output is build(input, fields at that moment) *)
Theorem build_is_function ops : forall b,
  Forall (fun r => exists pre, exists post, ops = pre ++ Build :: post /\
                    r = build (b_input b) (b_opts (fst (run_history b pre)))) (snd (run_history b ops)).
Proof.
  induction ops as [|op ops IH]; intros b; cbn [run_history]; [constructor|].
  destruct (bstep b op) as [b1 out] eqn:E1. destruct (run_history b1 ops) as [b2 outs] eqn:E2. cbn [snd].
  specialize (IH b1). rewrite E2 in IH. cbn [snd] in IH.
  assert (Hin : b_input b1 = b_input b) by (pose proof (bstep_state b op) as S; rewrite E1 in S; apply S).
  assert (Tail : Forall (fun r => exists pre post, op :: ops = pre ++ Build :: post /\
                   r = build (b_input b) (b_opts (fst (run_history b pre)))) outs).
  { eapply Forall_impl; [|exact IH]. intros r (pre & post & Eo & Er). exists (op :: pre), post. split; [now rewrite Eo|].
    cbn [run_history]. rewrite E1. destruct (run_history b1 pre) as [b3 o3]. cbn [fst]. now rewrite <- Hin. }
  destruct op; cbn in E1; inversion E1; subst; try exact Tail.
  constructor; [|exact Tail]. exists [], ops. split; reflexivity.
Qed.

(* two builders with the same input whose final fields agree produce the same result at a final Build,
   whatever the histories were *)
Theorem same_final_fields_same_output input ops1 ops2 :
  b_opts (fst (run_history (new_builder input) ops1)) = b_opts (fst (run_history (new_builder input) ops2)) ->
  snd (bstep (fst (run_history (new_builder input) ops1)) Build) = snd (bstep (fst (run_history (new_builder input) ops2)) Build).
Proof.
  intros H. cbn [bstep snd]. rewrite H.
  destruct (history_state ops1 (new_builder input)) as (I1 & _). destruct (history_state ops2 (new_builder input)) as (J1 & _).
  cbn zeta in I1, J1. now rewrite I1, J1.
Qed.

(* Build does not change the builder *)
Theorem build_leaves_state b : fst (bstep b Build) = b.
Proof. reflexivity. Qed.

(* no hidden state in the crate: the lexical scan of the non-test, non-hook sources for statics, interior mutability,
   thread-locals, lazily initialised globals, unsafe blocks and ambient inputs (regenerated on every run) is empty *)
Theorem no_hidden_state : purity_findings = [].
Proof. reflexivity. Qed.
