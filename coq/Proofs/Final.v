(* Characterisation of every cell of the matrix that placement + format information + masking produce, for all
   payloads, levels and masks: types are those of the blank symbol; a Data cell holds (its stream bit) xor (Table 10
   condition); a Format cell holds the bit the format writes put there; every other cell is as in the blank symbol. *)
From Coq Require Import NArith List Bool Arith Lia.
From FQ Require Import Lib.ListX Lib.Mat Generated.Tables Model.Types Model.Hardcode Model.Default Model.Masking
  Model.Placement Model.Qr Spec.Iso Spec.Oracles Proofs.Tables Proofs.Geometry Proofs.GeomSafe Proofs.Stages Proofs.Plans.
Import ListNotations.

(* ---------------------------------------------------------------- small facts *)
Lemma blank_wf v : wf (version_size v) (blank v).
Proof. unfold blank. apply apply_writes_wf, mconst_wf. Qed.

Lemma last_write_some_in ws p x : last_write ws p None = Some x ->
  exists w, In w ws /\ write_coord w = p /\ write_cell w = x.
Proof.
  induction ws as [|w ws IH]; [discriminate|].
  rewrite last_write_cons. destruct (coord_eqb_spec (write_coord w) p) as [E|NE].
  - rewrite last_write_acc. destruct (last_write ws p None) as [z|] eqn:L.
    + intros H; inversion H; subst. destruct (IH eq_refl) as (w' & Hin & A & B). exists w'. split; [now right | auto].
    + intros H; inversion H; subst. exists w. split; [now left | auto].
  - intros H. destruct (IH H) as (w' & Hin & A & B). exists w'. split; [now right | auto].
Qed.

Lemma place_coords_in_range v : v < 40 -> Forall (in_sq (version_size v)) (place_coords (version_size v)).
Proof.
  intros Hv. pose proof (geom_safe_all v Hv) as G. unfold geom_safe in G.
  repeat (apply andb_prop in G as [G ?]).
  match goal with H : forallb (in_sqb _) (place_coords _) = true |- _ => rename H into Hp end.
  apply Forall_forall. intros q Hq. rewrite forallb_forall in Hp. now apply in_sqb_spec, Hp.
Qed.

Lemma format_writes_coords n w : map write_coord (format_writes n w) = map write_coord (format_writes n 0).
Proof.
  unfold format_writes. rewrite !map_app, !flat_map_concat_map, !concat_map, !map_map. reflexivity.
Qed.

Lemma format_writes_in_range v w : v < 40 ->
  Forall (fun x : write => fst (fst x) < version_size v /\ snd (fst x) < version_size v) (format_writes (version_size v) w).
Proof.
  intros Hv. pose proof (geom_safe_all v Hv) as G. unfold geom_safe in G. repeat (apply andb_prop in G as [G ?]).
  match goal with H : writes_in_range _ (format_writes _ 0) = true |- _ => rename H into Hfr end.
  assert (R0 : Forall (in_sq (version_size v)) (map write_coord (format_writes (version_size v) 0))).
  { apply Forall_forall. intros q Hq. apply in_map_iff in Hq as (x & <- & Hx).
    unfold writes_in_range in Hfr. rewrite forallb_forall in Hfr. specialize (Hfr x Hx).
    destruct x as [[r c] y]. apply andb_prop in Hfr as [A B]. apply Nat.ltb_lt in A, B. split; assumption. }
  rewrite <- (format_writes_coords _ w) in R0. apply Forall_forall. intros x Hx.
  rewrite Forall_forall in R0. apply (R0 (write_coord x)). now apply in_map.
Qed.

(* ---------------------------------------------------------------- format plan, unpacked *)
Lemma format_word_in e k : k < 8 -> In (format_information e k) format_words.
Proof.
  intros Hk. rewrite (format_table_is_bch e k Hk). unfold format_words.
  apply (in_map (fun lk : nat * nat => iso_format_word (fst lk) (snd lk)) _ (ecl_idx e, k)).
  apply in_prod; apply in_seq; [pose proof (ecl_idx_lt e) | ]; lia.
Qed.

Section FormatPlan.
Variables (v : nat) (e : ecl) (k : nat).
Hypothesis Hv : v < 40.
Hypothesis Hk : k < 8.
Let n := version_size v.
Let w := format_information e k.
Let ws := format_writes n w.

Lemma fp_unpack :
  (forall x, In x ws -> fst (qget (blank v) (fst (fst x)) (snd (fst x))) = T_FORMAT /\ fst (snd x) = T_FORMAT) /\
  (forall j, j < 15 -> exists a b, last_write ws (iso_format_pos1 j) None = Some a /\ last_write ws (iso_format_pos2 n j) None = Some b /\
                                   snd a = N.testbit w (N.of_nat j) /\ snd b = N.testbit w (N.of_nat j)) /\
  (forall r c, r < n -> c < n -> fst (qget (blank v) r c) = T_FORMAT ->
      exists j, j < 15 /\ (iso_format_pos1 j = (r, c) \/ iso_format_pos2 n j = (r, c))).
Proof.
  pose proof (forallb_In _ _ _ format_plan_check (in_versions v Hv)) as C.
  unfold format_plan_ok in C. fold n in C. apply andb_prop in C as [C1 C3].
  pose proof (forallb_In _ _ _ C1 (format_word_in e k Hk)) as Cw. cbn beta zeta in Cw. fold w in Cw. fold ws in Cw.
  apply andb_prop in Cw as [Ca Cb].
  split; [|split].
  - intros x Hx. pose proof (forallb_In _ _ _ Ca Hx) as Hx'. cbn beta in Hx'.
    apply andb_prop in Hx' as [A B]. split; now apply N.eqb_eq.
  - intros j Hj. pose proof (forallb_In _ _ j Cb ltac:(apply in_seq; lia)) as Hj'. cbn beta in Hj'.
    destruct (last_write ws (iso_format_pos1 j) None) as [a|]; [|discriminate].
    destruct (last_write ws (iso_format_pos2 n j) None) as [b|]; [|discriminate].
    apply andb_prop in Hj' as [A B]. exists a, b. repeat split; auto; now apply eqb_prop.
  - intros r c Hr Hc Ht.
    pose proof (forallb_In _ _ r C3 ltac:(apply in_seq; lia)) as Cr. cbn beta in Cr.
    pose proof (forallb_In _ _ c Cr ltac:(apply in_seq; lia)) as Cc. cbn beta in Cc.
    rewrite Ht in Cc. rewrite N.eqb_refl in Cc. cbn [negb orb] in Cc.
    apply existsb_exists in Cc as (j & Hj & Hor). apply in_seq in Hj.
    exists j. split; [lia|]. apply orb_prop in Hor as [H|H]; [left | right]; now apply coord_eqb_eq.
Qed.
End FormatPlan.

(* ---------------------------------------------------------------- the final matrix *)
Section FinalMatrix.
Variables (v : nat) (e : ecl) (k : nat) (bytes : list N).
Hypothesis Hv : v < 40.
Hypothesis Hk : k < 8.
Let n := version_size v.
Let B := blank v.
Let P := fst (place_data n B bytes).
Let w := format_information e k.
Let F := apply_mask n (place_format n P e k) k.

Lemma place_facts :
  wf n P /\ same_types n P B /\ snd (place_data n B bytes) = N.of_nat (length (iso_data_coords v)) /\
  forall r c, r < n -> c < n ->
    qget P r c = match index_of (r, c) (iso_data_coords v) with
                 | Some j => cell_set (qget B r c) (nth j (stream_bits bytes) false)
                 | None => qget B r c
                 end.
Proof.
  destruct (place_plan v Hv) as (Hvis & Hnd & _).
  pose proof (place_fold n (place_coords n) B 0%N (stream_bits bytes) (blank_wf v) (place_coords_in_range v Hv)) as PF.
  fold n B in Hvis. rewrite Hvis in PF. specialize (PF Hnd). cbn zeta in PF.
  destruct PF as (P1 & P2 & P3 & P4 & P5).
  unfold P, place_data. unfold place_result in *.
  split; [exact P1|]. split; [exact P2|]. split; [|exact P5].
  cbn [snd fst]. destruct (fold_left place_step (place_coords n) (B, 0%N, stream_bits bytes)) as [[a b] c'].
  cbn [fst snd] in *. rewrite P3. lia.
Qed.

Lemma final_wf : wf n F.
Proof.
  destruct place_facts as (W & _). unfold F. apply apply_mask_wf. unfold place_format. now apply apply_writes_wf.
Qed.

Theorem final_type r c : r < n -> c < n -> fst (qget F r c) = fst (qget B r c).
Proof.
  intros Hr Hc. destruct place_facts as (W & ST & _ & _).
  unfold F. rewrite (apply_mask_spec v k _ r c Hv Hk) by (auto; unfold place_format; now apply apply_writes_wf).
  cbn zeta. set (x := qget (place_format n P e k) r c).
  assert (Hx : fst x = fst (qget B r c)).
  { unfold x, place_format. rewrite (apply_writes_get n) by auto.
    destruct (last_write _ (r, c) None) as [y|] eqn:L.
    - destruct (last_write_some_in _ _ _ L) as (wr & Hin & Hc1 & Hc2).
      destruct (fp_unpack v e k Hv Hk) as (F1 & _ & _). destruct (F1 wr Hin) as [A Bt].
      unfold write_coord in Hc1. inversion Hc1; subst. unfold write_cell. fold B in A. now rewrite A, Bt.
    - apply ST; auto. }
  destruct (is_data x && iso_cond k r c); [unfold cell_toggle; cbn [fst]|]; exact Hx.
Qed.

(* Data cells: stream bit xor mask condition *)
Theorem final_data r c j : r < n -> c < n -> index_of (r, c) (iso_data_coords v) = Some j ->
  fst (qget B r c) = T_DATA ->
  snd (qget F r c) = xorb (nth j (stream_bits bytes) false) (iso_cond k r c).
Proof.
  intros Hr Hc Hj Ht. destruct place_facts as (W & ST & _ & PG).
  unfold F. rewrite (apply_mask_spec v k _ r c Hv Hk) by (auto; unfold place_format; now apply apply_writes_wf).
  cbn zeta.
  assert (Hx : qget (place_format n P e k) r c = cell_set (qget B r c) (nth j (stream_bits bytes) false)).
  { unfold place_format. rewrite (apply_writes_get n) by auto.
    destruct (last_write _ (r, c) None) as [y|] eqn:L.
    - exfalso. destruct (last_write_some_in _ _ _ L) as (wr & Hin & Hc1 & _).
      destruct (fp_unpack v e k Hv Hk) as (F1 & _ & _). destruct (F1 wr Hin) as [A _].
      unfold write_coord in Hc1. inversion Hc1; subst. fold B in A. rewrite Ht in A. discriminate.
    - rewrite PG by auto. now rewrite Hj. }
  rewrite Hx. unfold is_data, cell_set, cell_toggle. cbn [fst snd]. rewrite Ht. cbn [N.eqb T_DATA andb].
  destruct (iso_cond k r c); cbn [snd]; [now rewrite xorb_true_r | now rewrite xorb_false_r].
Qed.

(* every other non-Format cell: as in the blank symbol *)
Theorem final_fixed r c : r < n -> c < n ->
  fst (qget B r c) <> T_DATA -> fst (qget B r c) <> T_FORMAT -> qget F r c = qget B r c.
Proof.
  intros Hr Hc Hnd Hnf. destruct place_facts as (W & ST & _ & PG).
  unfold F. rewrite (apply_mask_spec v k _ r c Hv Hk) by (auto; unfold place_format; now apply apply_writes_wf).
  cbn zeta.
  assert (Hx : qget (place_format n P e k) r c = qget B r c).
  { unfold place_format. rewrite (apply_writes_get n) by auto.
    destruct (last_write _ (r, c) None) as [y|] eqn:L.
    - exfalso. destruct (last_write_some_in _ _ _ L) as (wr & Hin & Hc1 & _).
      destruct (fp_unpack v e k Hv Hk) as (F1 & _ & _). destruct (F1 wr Hin) as [A _].
      unfold write_coord in Hc1. inversion Hc1; subst. now apply Hnf.
    - rewrite PG by auto. destruct (index_of (r, c) (iso_data_coords v)) as [j|] eqn:Ej; [|reflexivity].
      (* a coordinate in the ISO data list is Data in the blank symbol *)
      exfalso. apply Hnd. destruct (place_plan v Hv) as (Hvis & _ & _).
      assert (Hin : In (r, c) (iso_data_coords v)).
      { clear -Ej. revert j Ej. induction (iso_data_coords v) as [|p t IH]; intros j Ej; [discriminate|].
        cbn [index_of] in Ej. destruct (coord_eqb_spec p (r, c)) as [->|NE]; [now left|].
        right. destruct (index_of (r, c) t) as [j'|]; [eapply IH; eauto | discriminate]. }
      rewrite <- Hvis in Hin. unfold data_visits in Hin. apply filter_In in Hin as [_ Hd].
      cbn [fst snd] in Hd. unfold is_data in Hd. now apply N.eqb_eq in Hd. }
  rewrite Hx. unfold is_data. destruct (N.eqb_spec (fst (qget B r c)) T_DATA) as [E|_]; [contradiction|]. reflexivity.
Qed.

(* Format cells: bit j of the format word at both ISO positions of bit j *)
Theorem final_format j : j < 15 ->
  snd (qget F (fst (iso_format_pos1 j)) (snd (iso_format_pos1 j))) = N.testbit w (N.of_nat j) /\
  snd (qget F (fst (iso_format_pos2 n j)) (snd (iso_format_pos2 n j))) = N.testbit w (N.of_nat j).
Proof.
  intros Hj. destruct place_facts as (W & ST & _ & PG).
  destruct (fp_unpack v e k Hv Hk) as (F1 & F2 & _).
  destruct (F2 j Hj) as (a & b & La & Lb & Va & Vb).
  assert (G : forall p x, last_write (format_writes n w) p None = Some x ->
              fst p < n /\ snd p < n /\ qget F (fst p) (snd p) = x).
  { intros p x L. destruct (last_write_some_in _ _ _ L) as (wr & Hin & Hc1 & Hc2).
    destruct (F1 wr Hin) as [A Bt].
    (* in range: the write coordinates do not depend on the word, and geom_safe bounds them *)
    assert (Hrange : fst p < n /\ snd p < n).
    { pose proof (format_writes_in_range v w Hv) as R. fold n in R.
      rewrite Forall_forall in R. specialize (R wr Hin). unfold write_coord in Hc1. subst p. exact R. }
    destruct Hrange as [Hr Hc]. split; [exact Hr|]. split; [exact Hc|].
    unfold F. rewrite (apply_mask_spec v k _ _ _ Hv Hk) by (auto; unfold place_format; now apply apply_writes_wf).
    cbn zeta. unfold place_format. rewrite (apply_writes_get n) by auto. fold w. rewrite <- surjective_pairing, L.
    unfold is_data. unfold write_cell in Hc2. subst x. rewrite Bt. reflexivity. }
  destruct (G _ _ La) as (_ & _ & Ga). destruct (G _ _ Lb) as (_ & _ & Gb).
  split; [exact (eq_trans (f_equal snd Ga) Va) | exact (eq_trans (f_equal snd Gb) Vb)].
Qed.
End FinalMatrix.
