(* What the ISO reference decoder reads from a built symbol: the format word (both copies), hence (level, mask);
   and, after un-masking along the ISO read order, exactly the bits of the stream that was placed. *)
From Coq Require Import NArith List Bool Arith Lia.
From FQ Require Import Lib.ListX Lib.Mat Generated.Tables Model.Types Model.Hardcode Model.Default Model.Masking
  Model.Placement Model.Qr Spec.Iso Spec.Oracles
  Proofs.Tables Proofs.Geometry Proofs.GeomSafe Proofs.Stages Proofs.Plans Proofs.Final Proofs.BuildMatrix.
Import ListNotations.

Definition vals (m : qmat) : bmat := map (map snd) m.

Lemma bget_vals n (m : qmat) r c : wf n m -> r < n -> c < n -> bget (vals m) r c = snd (qget m r c).
Proof.
  intros _ _ _. unfold bget, vals, qget, mget.
  change (@nil bool) with (map (@snd N bool) (@nil cell)). rewrite map_nth.
  change false with (snd dflt_cell). now rewrite map_nth.
Qed.

Lemma vals_length (m : qmat) : length (vals m) = length m.
Proof. apply map_length. Qed.

(* ---------------------------------------------------------------- list helpers *)
Lemma index_of_nth (l : list (nat * nat)) d : NoDup l -> forall j, j < length l -> index_of (nth j l d) l = Some j.
Proof.
  induction 1 as [|p l Hnotin Hnd IH]; intros j Hj; cbn [length] in Hj; [lia|].
  destruct j as [|j]; cbn [nth index_of].
  - destruct (coord_eqb_spec p p); [reflexivity | congruence].
  - destruct (coord_eqb_spec p (nth j l d)) as [E|NE].
    + exfalso. apply Hnotin. rewrite E. apply nth_In. lia.
    + rewrite IH by lia. reflexivity.
Qed.

Lemma map_nth_seq {A B} (f : A -> B) (g : nat -> B) (l : list A) (d : A) :
  (forall j, j < length l -> f (nth j l d) = g j) -> map f l = map g (seq 0 (length l)).
Proof.
  intros H. apply nth_ext with (d := f d) (d' := g 0).
  - now rewrite !map_length, seq_length.
  - intros j Hj. rewrite map_length in Hj. rewrite map_nth.
    rewrite (nth_indep _ (g 0) (g (length l))) by (now rewrite map_length, seq_length).
    rewrite map_nth, seq_nth by lia. apply H, Hj.
Qed.

Lemma firstn_as_map {A} (l : list A) d k : k <= length l -> firstn k l = map (fun j => nth j l d) (seq 0 k).
Proof.
  revert l. induction k as [|k IH]; intros l Hk; [reflexivity|].
  destruct l as [|x l]; cbn [length] in Hk; [lia|].
  cbn [firstn seq map nth]. f_equal. rewrite IH by lia. rewrite <- seq_shift, map_map. reflexivity.
Qed.

(* ---------------------------------------------------------------- the data read-out *)
Lemma data_coord_facts v j : v < 40 -> j < length (iso_data_coords v) ->
  let p := nth j (iso_data_coords v) (0, 0) in
  fst p < version_size v /\ snd p < version_size v /\ fst (qget (blank v) (fst p) (snd p)) = T_DATA /\
  index_of p (iso_data_coords v) = Some j.
Proof.
  intros Hv Hj p. destruct (place_plan v Hv) as (Hvis & Hnd & Hrange).
  assert (Hin : In p (iso_data_coords v)) by (apply nth_In, Hj).
  rewrite Forall_forall in Hrange. destruct (Hrange p Hin) as [Hr Hc].
  split; [exact Hr|]. split; [exact Hc|]. split.
  - rewrite <- Hvis in Hin. unfold data_visits in Hin. apply filter_In in Hin as [_ Hd].
    unfold is_data in Hd. now apply N.eqb_eq in Hd.
  - now apply index_of_nth.
Qed.

Theorem readout v e k bytes : v < 40 -> k < 8 ->
  length (iso_data_coords v) <= length (stream_bits bytes) ->
  iso_unmasked_bits v k (vals (final_matrix v e k bytes)) = firstn (length (iso_data_coords v)) (stream_bits bytes).
Proof.
  intros Hv Hk Hlen. unfold iso_unmasked_bits.
  rewrite (firstn_as_map _ false) by exact Hlen.
  apply (map_nth_seq _ _ _ (0, 0)). intros j Hj.
  destruct (data_coord_facts v j Hv Hj) as (Hr & Hc & Ht & Hi). cbn zeta in *.
  set (p := nth j (iso_data_coords v) (0, 0)) in *.
  rewrite (bget_vals (version_size v)) by (auto using final_matrix_wf).
  unfold final_matrix. rewrite (final_data v e k bytes Hv Hk (fst p) (snd p) j Hr Hc); auto.
  - now rewrite xorb_assoc, xorb_nilpotent, xorb_false_r.
  - now rewrite <- surjective_pairing.
Qed.

(* ---------------------------------------------------------------- words *)
Lemma read_word_bits (m : bmat) (pos : nat -> nat * nat) (w : N) : forall nb s,
  (forall j, j < nb -> bget m (fst (pos (s + j))) (snd (pos (s + j))) = N.testbit w (N.of_nat (s + j))) ->
  fold_right (fun k acc => (2 * acc + (if bget m (fst (pos k)) (snd (pos k)) then 1 else 0))%N) 0%N (seq s nb)
  = ((w / 2 ^ N.of_nat s) mod 2 ^ N.of_nat nb)%N.
Proof.
  induction nb as [|nb IH]; intros s H; cbn [seq fold_right].
  - cbn. now rewrite N.mod_1_r.
  - rewrite IH by (intros j Hj; replace (S s + j) with (s + S j) by lia; apply H; lia).
    specialize (H 0 ltac:(lia)). rewrite Nat.add_0_r in H. rewrite H.
    set (x := (w / 2 ^ N.of_nat s)%N).
    assert (E1 : (w / 2 ^ N.of_nat (S s) = x / 2)%N).
    { unfold x. rewrite Nat2N.inj_succ, N.pow_succ_r', (N.mul_comm 2), N.div_div; [reflexivity | apply N.pow_nonzero; lia | lia]. }
    assert (E2 : ((if N.testbit w (N.of_nat s) then 1 else 0) = x mod 2)%N).
    { unfold x. rewrite <- N.testbit_spec'. destruct (N.testbit w (N.of_nat s)); reflexivity. }
    rewrite E1, E2. rewrite (Nat2N.inj_succ nb), N.pow_succ_r'.
    rewrite (N.mod_mul_r x 2 (2 ^ N.of_nat nb)) by (try apply N.pow_nonzero; lia). lia.
Qed.

Lemma read_word_testbits (m : bmat) pos nb w : (w < 2 ^ N.of_nat nb)%N ->
  (forall j, j < nb -> bget m (fst (pos j)) (snd (pos j)) = N.testbit w (N.of_nat j)) ->
  read_word m pos nb = w.
Proof.
  intros Hw H. unfold read_word. rewrite (read_word_bits m pos w nb 0) by (intros j Hj; apply H, Hj).
  cbn [N.of_nat]. rewrite N.pow_0_r, N.div_1_r. now apply N.mod_small.
Qed.

(* format positions are inside every symbol *)
Lemma format_pos_in_range v j : v < 40 -> j < 15 ->
  let n := version_size v in
  fst (iso_format_pos1 j) < n /\ snd (iso_format_pos1 j) < n /\ fst (iso_format_pos2 n j) < n /\ snd (iso_format_pos2 n j) < n.
Proof.
  intros Hv Hj n.
  assert (Hn : 21 <= n).
  { unfold n, version_size. cbv [size_mul size_add]. lia. }
  unfold iso_format_pos1, iso_format_pos2.
  repeat match goal with |- context [if ?b then _ else _] => destruct b eqn:? end; cbn [fst snd];
    repeat match goal with H : (_ <=? _) = _ |- _ => first [apply Nat.leb_le in H | apply Nat.leb_gt in H] end;
    repeat match goal with H : (_ =? _) = _ |- _ => first [apply Nat.eqb_eq in H | apply Nat.eqb_neq in H] end; lia.
Qed.

Lemma format_words_small : forallb (fun w => (w <? 2 ^ 15)%N) format_words = true.
Proof. vm_compute. reflexivity. Qed.

Theorem format_readback v e k bytes : v < 40 -> k < 8 ->
  let m := vals (final_matrix v e k bytes) in
  read_word m iso_format_pos1 15 = format_information e k /\
  read_word m (iso_format_pos2 (version_size v)) 15 = format_information e k.
Proof.
  intros Hv Hk m.
  assert (Hw : (format_information e k < 2 ^ N.of_nat 15)%N).
  { pose proof (forallb_In _ _ _ format_words_small (format_word_in e k Hk)) as H. now apply N.ltb_lt in H. }
  split; apply read_word_testbits; auto; intros j Hj;
    destruct (format_pos_in_range v j Hv Hj) as (A & B & C & D);
    destruct (final_format v e k bytes Hv Hk j Hj) as [F1 F2];
    unfold m; rewrite (bget_vals (version_size v)) by (auto using final_matrix_wf); assumption.
Qed.

(* the 32 format words are distinct: the decoder's look-up recovers (level, mask) *)
Lemma find_format_check :
  forallb (fun lk : nat * nat =>
    match iso_find_format (iso_format_word (fst lk) (snd lk)) with
    | Some p => coord_eqb p lk | None => false end) (list_prod (seq 0 4) (seq 0 8)) = true.
Proof. vm_compute. reflexivity. Qed.
Theorem find_format_word l k : l < 4 -> k < 8 -> iso_find_format (iso_format_word l k) = Some (l, k).
Proof.
  intros Hl Hk. pose proof (forallb_In _ _ (l, k) find_format_check) as H.
  specialize (H ltac:(apply in_prod; apply in_seq; lia)). cbn [fst snd] in H.
  destruct (iso_find_format _) as [p|]; [|discriminate]. now rewrite (coord_eqb_eq _ _ H).
Qed.

(* ---------------------------------------------------------------- version information words, versions 7..40 *)
Definition version_plan_ok (v : nat) : bool :=
  let n := version_size v in
  let B := blank v in
  forallb (fun j =>
    let p1 := iso_version_pos1 n j in let p2 := iso_version_pos2 n j in
    (fst p1 <? n) && (snd p1 <? n) && (fst p2 <? n) && (snd p2 <? n)
    && N.eqb (fst (qget B (fst p1) (snd p1))) T_VERSION && N.eqb (fst (qget B (fst p2) (snd p2))) T_VERSION
    && Bool.eqb (snd (qget B (fst p1) (snd p1))) (N.testbit (iso_version_word v) (N.of_nat j))
    && Bool.eqb (snd (qget B (fst p2) (snd p2))) (N.testbit (iso_version_word v) (N.of_nat j))) (seq 0 18)
  && (iso_version_word v <? 2 ^ 18)%N.
Lemma version_plan_check : forallb version_plan_ok (seq 6 34) = true.
Proof. vm_compute. reflexivity. Qed.

Lemma version_cell v e k bytes j : 6 <= v < 40 -> k < 8 -> j < 18 ->
  let n := version_size v in
  let F := final_matrix v e k bytes in
  let p1 := iso_version_pos1 n j in let p2 := iso_version_pos2 n j in
  (fst p1 < n /\ snd p1 < n /\ snd (qget F (fst p1) (snd p1)) = N.testbit (iso_version_word v) (N.of_nat j)) /\
  (fst p2 < n /\ snd p2 < n /\ snd (qget F (fst p2) (snd p2)) = N.testbit (iso_version_word v) (N.of_nat j)).
Proof.
  intros Hv Hk Hj n F p1 p2.
  pose proof (forallb_In _ _ v version_plan_check ltac:(apply in_seq; lia)) as C.
  unfold version_plan_ok in C. apply andb_prop in C as [C _].
  pose proof (forallb_In _ _ j C ltac:(apply in_seq; lia)) as Cj. cbn beta zeta in Cj.
  fold n in Cj. fold p1 in Cj. fold p2 in Cj.
  apply andb_prop in Cj as [Cj V2]. apply andb_prop in Cj as [Cj V1].
  apply andb_prop in Cj as [Cj T2]. apply andb_prop in Cj as [Cj T1].
  apply andb_prop in Cj as [Cj R4]. apply andb_prop in Cj as [Cj R3]. apply andb_prop in Cj as [R1 R2].
  apply Nat.ltb_lt in R1, R2, R3, R4. apply N.eqb_eq in T1, T2. apply eqb_prop in V1, V2.
  assert (G : forall r c, r < n -> c < n -> fst (qget (blank v) r c) = T_VERSION -> qget F r c = qget (blank v) r c).
  { intros r c Hr Hc Ht. unfold F, final_matrix. apply final_fixed; auto; try lia; rewrite Ht; discriminate. }
  split; (split; [assumption|]; split; [assumption|]).
  - rewrite (G _ _ R1 R2 T1). exact V1.
  - rewrite (G _ _ R3 R4 T2). exact V2.
Qed.

Theorem version_readback v e k bytes : 6 <= v < 40 -> k < 8 ->
  let m := vals (final_matrix v e k bytes) in
  read_word m (iso_version_pos1 (version_size v)) 18 = iso_version_word v /\
  read_word m (iso_version_pos2 (version_size v)) 18 = iso_version_word v.
Proof.
  intros Hv Hk m.
  pose proof (forallb_In _ _ v version_plan_check ltac:(apply in_seq; lia)) as C.
  unfold version_plan_ok in C. apply andb_prop in C as [_ Cw]. apply N.ltb_lt in Cw.
  split; apply read_word_testbits; auto; intros j Hj;
    destruct (version_cell v e k bytes j Hv Hk Hj) as [(A1 & A2 & A3) (B1 & B2 & B3)];
    unfold m; rewrite (bget_vals (version_size v) _ _ _ (final_matrix_wf v e k bytes ltac:(lia) Hk)) by assumption; assumption.
Qed.
