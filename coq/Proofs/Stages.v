(* Generic lemmas about the three kinds of matrix stages, each proved once for all payloads by induction over the
   coordinate list the stage visits:
     - a fold of writes        (blank symbol, format information, transpose): the last write to a cell wins;
     - a fold of guarded toggles (masks): a Data cell is toggled iff it is visited an odd number of times;
     - the placement fold: the k-th Data cell visited receives bit k of the stream.
   All three preserve well-formedness and module types. *)
From Coq Require Import NArith List Bool Arith Lia.
From FQ Require Import Lib.ListX Lib.Mat Model.Types Model.Default Model.Masking Model.Placement.
Import ListNotations.

Lemma qget_qset_same n m r c x : wf n m -> r < n -> c < n -> qget (qset m r c x) r c = x.
Proof. apply mget_mset_same. Qed.
Lemma qget_qset_other m r c r' c' x : (r, c) <> (r', c') -> qget (qset m r c x) r' c' = qget m r' c'.
Proof. apply mget_mset_other. Qed.
Lemma qset_wf n m r c x : wf n m -> wf n (qset m r c x).
Proof. apply mset_wf. Qed.

(* ------------------------------------------------------------------ writes *)
Definition write_coord (w : write) : nat * nat := (fst (fst w), snd (fst w)).
Definition write_cell (w : write) : cell := snd w.

(* the value of the last write to p, starting from acc *)
Definition last_write (ws : list write) (p : nat * nat) (acc : option cell) : option cell :=
  fold_left (fun a w => if coord_eqb (write_coord w) p then Some (write_cell w) else a) ws acc.

Lemma last_write_cons w ws p acc :
  last_write (w :: ws) p acc = last_write ws p (if coord_eqb (write_coord w) p then Some (write_cell w) else acc).
Proof. reflexivity. Qed.
Lemma apply_writes_cons m w ws : apply_writes m (w :: ws) = apply_writes (apply_write m w) ws.
Proof. reflexivity. Qed.

Lemma last_write_acc ws p : forall acc,
  last_write ws p acc = match last_write ws p None with Some z => Some z | None => acc end.
Proof.
  induction ws as [|w ws IH]; intros acc; [reflexivity|].
  rewrite !last_write_cons. destruct (coord_eqb (write_coord w) p).
  - rewrite (IH (Some (write_cell w))). destruct (last_write ws p None); reflexivity.
  - apply IH.
Qed.

Lemma apply_write_wf n m w : wf n m -> wf n (apply_write m w).
Proof. destruct w as [[r c] x]. apply qset_wf. Qed.
Lemma apply_writes_wf n ws : forall m, wf n m -> wf n (apply_writes m ws).
Proof.
  induction ws as [|w ws IH]; intros m H; [exact H|].
  rewrite apply_writes_cons. apply IH, apply_write_wf, H.
Qed.

Theorem apply_writes_get n ws : forall m r c, wf n m -> r < n -> c < n ->
  qget (apply_writes m ws) r c =
  match last_write ws (r, c) None with Some x => x | None => qget m r c end.
Proof.
  induction ws as [|w ws IH]; intros m r c Hwf Hr Hc; [reflexivity|].
  rewrite apply_writes_cons, last_write_cons.
  rewrite IH by (auto using apply_write_wf).
  destruct w as [[wr wc] x]. unfold write_coord, write_cell; cbn [fst snd apply_write].
  destruct (coord_eqb_spec (wr, wc) (r, c)) as [E|NE].
  - inversion E; subst. rewrite (last_write_acc ws (r, c) (Some x)).
    destruct (last_write ws (r, c) None); [reflexivity|]. now apply qget_qset_same with (n := n).
  - rewrite qget_qset_other by exact NE. reflexivity.
Qed.

(* ------------------------------------------------------------------ toggles *)
Fixpoint occ (p : nat * nat) (l : list (nat * nat)) : nat :=
  match l with [] => 0 | q :: t => (if coord_eqb q p then 1 else 0) + occ p t end.

Lemma toggle_at_wf n m p : wf n m -> wf n (toggle_at m p).
Proof. intros H; unfold toggle_at. destruct (is_data _); auto. now apply qset_wf. Qed.

Lemma toggle_at_get n m p q : wf n m -> in_sq n p ->
  qget (toggle_at m p) (fst q) (snd q) =
  let x := qget m (fst q) (snd q) in
  if coord_eqb p q && is_data x then cell_toggle x else x.
Proof.
  intros Hwf [Hr Hc]. unfold toggle_at. cbn zeta.
  destruct (coord_eqb_spec p q) as [->|Hne]; cbn [andb].
  - destruct (is_data (qget m (fst q) (snd q))) eqn:E; auto.
    now apply qget_qset_same with (n := n).
  - destruct (is_data (qget m (fst p) (snd p))); auto.
    rewrite qget_qset_other; auto. destruct p, q; cbn in *; congruence.
Qed.

Lemma fold_toggle_wf n ps : forall m, wf n m -> wf n (fold_left toggle_at ps m).
Proof. induction ps as [|p ps IH]; intros m H; cbn [fold_left]; auto. apply IH, toggle_at_wf, H. Qed.

Theorem toggles_get n (ps : list (nat * nat)) : forall m q, wf n m -> Forall (in_sq n) ps ->
  qget (fold_left toggle_at ps m) (fst q) (snd q) =
  let x := qget m (fst q) (snd q) in
  if is_data x && Nat.odd (occ q ps) then cell_toggle x else x.
Proof.
  induction ps as [|p ps IH]; intros m q Hwf Hall; cbn [fold_left occ].
  - cbn. now rewrite andb_false_r.
  - inversion Hall as [|? ? Hp Hps]; subst.
    rewrite IH; auto using toggle_at_wf. cbn zeta.
    rewrite (toggle_at_get n) by auto. cbn zeta.
    set (x := qget m (fst q) (snd q)).
    destruct (coord_eqb_spec p q) as [->|Hne]; cbn [andb Nat.add].
    + destruct (is_data x) eqn:E; cbn [andb].
      * unfold is_data, cell_toggle in *; cbn [fst snd]. rewrite E. cbn [andb].
        rewrite Nat.odd_succ, <- Nat.negb_odd. destruct (Nat.odd (occ q ps)); cbn [negb]; auto.
        rewrite negb_involutive. now destruct x.
      * rewrite E. reflexivity.
    + reflexivity.
Qed.

Corollary toggles_type n ps m q : wf n m -> Forall (in_sq n) ps ->
  fst (qget (fold_left toggle_at ps m) (fst q) (snd q)) = fst (qget m (fst q) (snd q)).
Proof.
  intros H1 H2. rewrite (toggles_get n) by auto. cbn zeta.
  destruct (is_data _ && _); reflexivity.
Qed.

(* ------------------------------------------------------------------ placement *)
Definition data_visits (m : qmat) (coords : list (nat * nat)) : list (nat * nat) :=
  filter (fun p => is_data (qget m (fst p) (snd p))) coords.

Fixpoint index_of (q : nat * nat) (l : list (nat * nat)) : option nat :=
  match l with
  | [] => None
  | p :: t => if coord_eqb p q then Some 0 else option_map S (index_of q t)
  end.

Lemma index_of_notin q l : ~ In q l -> index_of q l = None.
Proof.
  induction l as [|p t IH]; intros H; cbn [index_of]; [reflexivity|].
  destruct (coord_eqb_spec p q) as [->|NE]; [exfalso; apply H; now left|].
  rewrite IH; [reflexivity|]. intros Hin; apply H; now right.
Qed.

Definition same_types (n : nat) (a b : qmat) : Prop :=
  forall r c, r < n -> c < n -> fst (qget a r c) = fst (qget b r c).

Lemma data_visits_same_types n a b coords : same_types n a b -> Forall (in_sq n) coords ->
  data_visits a coords = data_visits b coords.
Proof.
  intros Hs Hall. induction Hall as [|p t [Hr Hc] Ht IH]; cbn [data_visits filter]; [reflexivity|].
  fold (data_visits a t). fold (data_visits b t). rewrite IH.
  unfold is_data. now rewrite (Hs _ _ Hr Hc).
Qed.

Definition place_result (st : qmat * N * list bool) : qmat := fst (fst st).

Lemma place_step_data m idx bits p : is_data (qget m (fst p) (snd p)) = true ->
  place_step (m, idx, bits) p =
  (qset m (fst p) (snd p) (cell_set (qget m (fst p) (snd p)) (hd false bits)), (idx + 1)%N, tl bits).
Proof. intros H. unfold place_step. now rewrite H. Qed.
Lemma place_step_nodata m idx bits p : is_data (qget m (fst p) (snd p)) = false ->
  place_step (m, idx, bits) p = (m, idx, bits).
Proof. intros H. unfold place_step. now rewrite H. Qed.

Theorem place_fold n coords : forall (m : qmat) (idx : N) (bits : list bool),
  wf n m -> Forall (in_sq n) coords -> NoDup (data_visits m coords) ->
  let st' := fold_left place_step coords (m, idx, bits) in
  let visits := data_visits m coords in
  wf n (place_result st') /\ same_types n (place_result st') m /\
  snd (fst st') = (idx + N.of_nat (length visits))%N /\ snd st' = skipn (length visits) bits /\
  forall r c, r < n -> c < n ->
    qget (place_result st') r c =
    match index_of (r, c) visits with
    | Some k => cell_set (qget m r c) (nth k bits false)
    | None => qget m r c
    end.
Proof.
  induction coords as [|p coords IH]; intros m idx bits Hwf Hall Hnd; cbn zeta.
  - cbn [fold_left data_visits filter length place_result fst snd skipn index_of].
    split; [exact Hwf|]. split; [intros r c _ _; reflexivity|]. split; [lia|]. split; [reflexivity|].
    intros r c _ _; reflexivity.
  - inversion Hall as [|? ? [Hpr Hpc] Hall']; subst.
    cbn [fold_left].
    cbn [data_visits filter] in *. fold (data_visits m coords) in *.
    destruct (is_data (qget m (fst p) (snd p))) eqn:Ed.
    + rewrite place_step_data by exact Ed.
      set (m1 := qset m (fst p) (snd p) (cell_set (qget m (fst p) (snd p)) (hd false bits))).
      assert (Hwf1 : wf n m1) by (apply qset_wf, Hwf).
      assert (Hst : same_types n m1 m).
      { intros r c Hr Hc. unfold m1. destruct (coord_eqb_spec (fst p, snd p) (r, c)) as [E|NE].
        - inversion E; subst. rewrite (qget_qset_same n) by auto. reflexivity.
        - rewrite qget_qset_other by exact NE. reflexivity. }
      assert (Hv : data_visits m1 coords = data_visits m coords) by (eapply data_visits_same_types; eauto).
      inversion Hnd as [|? ? Hnotin Hnd']; subst.
      specialize (IH m1 (idx + 1)%N (tl bits) Hwf1 Hall'). rewrite Hv in IH. specialize (IH Hnd').
      cbn zeta in IH. destruct IH as (I1 & I2 & I3 & I4 & I5).
      split; [exact I1|]. split.
      { intros r c Hr Hc. rewrite (I2 r c Hr Hc). apply Hst; auto. }
      split; [rewrite I3; cbn [length]; lia|]. split.
      { rewrite I4. cbn [length]. destruct bits; cbn [tl skipn]; [now rewrite skipn_nil | reflexivity]. }
      intros r c Hr Hc. rewrite (I5 r c Hr Hc). cbn [index_of].
      destruct (coord_eqb_spec p (r, c)) as [E|NE].
      * subst p. cbn [fst snd] in *. rewrite index_of_notin by exact Hnotin.
        unfold m1. rewrite (qget_qset_same n) by auto. destruct bits; reflexivity.
      * assert (Hq : qget m1 r c = qget m r c).
        { unfold m1. apply qget_qset_other. destruct p; cbn [fst snd] in *. congruence. }
        rewrite Hq. destruct (index_of (r, c) (data_visits m coords)) as [k|]; cbn [option_map]; [|reflexivity].
        destruct bits; cbn [tl nth]; [destruct k; reflexivity | reflexivity].
    + rewrite place_step_nodata by exact Ed.
      specialize (IH m idx bits Hwf Hall' Hnd). cbn zeta in IH. exact IH.
Qed.

(* ------------------------------------------------------------------ a NoDup test that the kernel can run on 30 000 coordinates *)
Definition mark_step (st : bool * @matrix bool) (p : nat * nat) : bool * @matrix bool :=
  (fst st && negb (mget false (snd st) (fst p) (snd p)), mset (snd st) (fst p) (snd p) true).
Definition nodup_check (n : nat) (l : list (nat * nat)) : bool :=
  forallb (in_sqb n) l && fst (fold_left mark_step l (true, mconst n false)).

Lemma mark_fold n l : forall ok M (seen : list (nat * nat)),
  wf n M -> Forall (in_sq n) l ->
  (forall q, in_sq n q -> (mget false M (fst q) (snd q) = true <-> In q seen)) ->
  fst (fold_left mark_step l (ok, M)) = true ->
  ok = true /\ NoDup l /\ forall q, In q l -> ~ In q seen.
Proof.
  induction l as [|p l IH]; intros ok M seen Hwf Hall Hinv Hres; cbn [fold_left] in Hres.
  - cbn in Hres. repeat split; auto. constructor.
  - inversion Hall as [|? ? Hp Hall']; subst. unfold mark_step at 2 in Hres. cbn [fst snd] in Hres.
    assert (Hwf' : wf n (mset M (fst p) (snd p) true)) by (apply mset_wf, Hwf).
    assert (Hinv' : forall q, in_sq n q ->
              (mget false (mset M (fst p) (snd p) true) (fst q) (snd q) = true <-> In q (p :: seen))).
    { intros q Hq. destruct (coord_eqb_spec p q) as [->|NE].
      - destruct Hq as [Hr Hc]. rewrite (mget_mset_same false n) by auto. split; [intros _; now left | auto].
      - rewrite mget_mset_other by (destruct p, q; cbn [fst snd] in *; congruence).
        rewrite (Hinv q Hq). split; [intros; now right | intros [E|H]; [congruence | exact H]]. }
    destruct (IH _ _ (p :: seen) Hwf' Hall' Hinv' Hres) as (Hok & Hnd & Hfresh).
    apply andb_prop in Hok as [Hok Hnew]. apply negb_true_iff in Hnew.
    split; [exact Hok|]. split.
    + constructor; [|exact Hnd]. intros Hin. apply (Hfresh p Hin). now left.
    + intros q [->|Hin].
      * intros Hs. apply (Hinv q Hp) in Hs. congruence.
      * intros Hs. apply (Hfresh q Hin). now right.
Qed.

Theorem nodup_check_sound n l : nodup_check n l = true -> NoDup l /\ Forall (in_sq n) l.
Proof.
  unfold nodup_check. intros H. apply andb_prop in H as [Hr Hm].
  assert (Hall : Forall (in_sq n) l).
  { apply Forall_forall. intros q Hq. rewrite forallb_forall in Hr. now apply in_sqb_spec, Hr. }
  split; [|exact Hall].
  destruct (mark_fold n l true (mconst n false) [] (mconst_wf n false) Hall) as (_ & Hnd & _); auto.
  intros q [Hr' Hc']. rewrite mconst_get by auto. split; [discriminate | intros []].
Qed.
