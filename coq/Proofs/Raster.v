(* Property C13, logic part: ImageBuilder option forwarding, fit-size arithmetic, module-outline geometry.
   (a) forwarding      [forwarding], [fit_width_last], [fit_height_last], [fit_request_last]
   (b) pixmap size     [pixmap_side_original] .. [pixmap_side_size], [pixmap_side_square], [to_pixmap_panics_iff]
   (c) geometry (Q)    [outline_clearance], [outline_in_enlarged_cell], [pixel_dark], [pixel_light],
                       [pixel_colour_class], [centre_pixel_contains], [square_pixel_cell], ...
   Everything is about the MODEL of the geometry (Spec/RasterGeom.v); the rasteriser and the PNG codec are outside. *)
From Coq Require Import NArith ZArith QArith Qabs List Bool Lia Lqa.
From FQ Require Import Lib.Mat Model.Types Model.Svg Model.Image Spec.SvgDoc Spec.RasterGeom Proofs.SvgReadBack.
Import ListNotations.

(* ============================================================================================================ *)
(* (a) forwarding                                                                                                *)

(* one call of a method of the Builder trait *)
Inductive op :=
| OMargin (m : N)
| OModuleColor (x : rgba)
| OBackgroundColor (x : rgba)
| OShape (s : shape)
| OShapeColor (s : shape) (x : rgba)
| OImage (img : list N)
| OImageBackgroundColor (x : rgba)
| OImageBackgroundShape (s : ishape)
| OImageSize (h : Z)
| OImageGap (h : Z)
| OImagePosition (x y : Z).

(* one call on an ImageBuilder: a Builder method, fit_width or fit_height *)
Inductive iop := IBuilder (o : op) | IFitWidth (w : N) | IFitHeight (h : N).

(* the call on an SvgBuilder *)
Definition svg_step (c : cfg) (o : op) : cfg :=
  match o with
  | OMargin m => Svg.set_margin c m
  | OModuleColor x => Svg.set_module_color c x
  | OBackgroundColor x => Svg.set_background_color c x
  | OShape s => Svg.add_shape c s
  | OShapeColor s x => Svg.add_shape_color c s x
  | OImage img => Svg.set_image c img
  | OImageBackgroundColor x => Svg.set_image_background_color c x
  | OImageBackgroundShape s => Svg.set_image_background_shape c s
  | OImageSize h => Svg.set_image_size c h
  | OImageGap h => Svg.set_image_gap c h
  | OImagePosition x y => Svg.set_image_position c x y
  end.

(* the call on an ImageBuilder *)
Definition img_builder_step (b : image_builder) (o : op) : image_builder :=
  match o with
  | OMargin m => Image.set_margin b m
  | OModuleColor x => Image.set_module_color b x
  | OBackgroundColor x => Image.set_background_color b x
  | OShape s => Image.add_shape b s
  | OShapeColor s x => Image.add_shape_color b s x
  | OImage img => Image.set_image b img
  | OImageBackgroundColor x => Image.set_image_background_color b x
  | OImageBackgroundShape s => Image.set_image_background_shape b s
  | OImageSize h => Image.set_image_size b h
  | OImageGap h => Image.set_image_gap b h
  | OImagePosition x y => Image.set_image_position b x y
  end.
Definition img_step (b : image_builder) (o : iop) : image_builder :=
  match o with
  | IBuilder o' => img_builder_step b o'
  | IFitWidth w => set_fit_width b w
  | IFitHeight h => set_fit_height b h
  end.

Definition run_svg (c : cfg) (ops : list op) : cfg := fold_left svg_step ops c.
Definition run_img (b : image_builder) (ops : list iop) : image_builder := fold_left img_step ops b.

(* the Builder-trait calls of a history, in order *)
Definition builder_ops (ops : list iop) : list op :=
  flat_map (fun o => match o with IBuilder o' => [o'] | _ => [] end) ops.
(* the last fit_width / fit_height argument of a history, if any *)
Definition last_fit_width (ops : list iop) (init : option N) : option N :=
  fold_left (fun acc o => match o with IFitWidth w => Some w | _ => acc end) ops init.
Definition last_fit_height (ops : list iop) (init : option N) : option N :=
  fold_left (fun acc o => match o with IFitHeight h => Some h | _ => acc end) ops init.

Lemma img_builder_step_svg b o : svg (img_builder_step b o) = svg_step (svg b) o.
Proof. destruct o; reflexivity. Qed.
Lemma img_builder_step_fit b o :
  fit_width (img_builder_step b o) = fit_width b /\ fit_height (img_builder_step b o) = fit_height b.
Proof. destruct o; split; reflexivity. Qed.

(* the inner SvgBuilder after any history equals the SvgBuilder driven by the Builder calls of that history *)
Theorem forwarding : forall ops b, svg (run_img b ops) = run_svg (svg b) (builder_ops ops).
Proof.
  induction ops as [|o ops IH]; intro b.
  - reflexivity.
  - unfold run_img, run_svg, builder_ops in *. cbn [fold_left flat_map]. rewrite IH.
    destruct o as [o'|w|h]; cbn [img_step app fold_left].
    + now rewrite img_builder_step_svg.
    + reflexivity.
    + reflexivity.
Qed.

Corollary forwarding_default : forall ops,
  svg (run_img Image.default ops) = run_svg Svg.default (builder_ops ops).
Proof. intro ops. apply forwarding. Qed.

(* fit_width / fit_height: the last value wins; Builder calls and the other fit option do not touch it *)
Theorem fit_width_last : forall ops b, fit_width (run_img b ops) = last_fit_width ops (fit_width b).
Proof.
  induction ops as [|o ops IH]; intro b.
  - reflexivity.
  - unfold run_img, last_fit_width in *. cbn [fold_left]. rewrite IH.
    destruct o as [o'|w|h]; cbn [img_step]; try reflexivity.
    now destruct (img_builder_step_fit b o') as [-> _].
Qed.
Theorem fit_height_last : forall ops b, fit_height (run_img b ops) = last_fit_height ops (fit_height b).
Proof.
  induction ops as [|o ops IH]; intro b.
  - reflexivity.
  - unfold run_img, last_fit_height in *. cbn [fold_left]. rewrite IH.
    destruct o as [o'|w|h]; cbn [img_step]; try reflexivity.
    now destruct (img_builder_step_fit b o') as [_ ->].
Qed.

(* fit_width / fit_height do not touch the inner state (one step) *)
Lemma fit_steps_keep_svg b w h : svg (set_fit_width b w) = svg b /\ svg (set_fit_height b h) = svg b.
Proof. split; reflexivity. Qed.

(* the FitTo chosen by to_pixmap after a history *)
Theorem fit_request_last : forall ops b,
  fit_request (run_img b ops) =
  match last_fit_width ops (fit_width b), last_fit_height ops (fit_height b) with
  | Some w, Some h => FitSize w h
  | Some w, None => FitWidth w
  | None, Some h => FitHeight h
  | None, None => FitOriginal
  end.
Proof. intros ops b. unfold fit_request. now rewrite fit_width_last, fit_height_last. Qed.

(* ============================================================================================================ *)
(* (b) pixmap size                                                                                               *)

Section Size.
Local Open Scope N_scope.

Lemma cdiv_mul w S : 1 <= S -> cdiv (w * S) S = w.
Proof.
  intro HS. unfold cdiv. symmetry. apply (N.div_unique _ _ _ (S - 1)); lia.
Qed.
Lemma rdiv_mul w S : 1 <= S -> rdiv (w * S) S = w.
Proof.
  intro HS. unfold rdiv. symmetry. apply (N.div_unique _ _ _ S); lia.
Qed.
Lemma to_screen_mul w S : 1 <= S -> 1 <= w -> w <= u32_max -> to_screen (w * S) S = w.
Proof. intros HS H1 H2. unfold to_screen, sat_u32. rewrite rdiv_mul by assumption. lia. Qed.
Lemma to_screen_1 w : 1 <= w -> w <= u32_max -> to_screen w 1 = w.
Proof. intros H1 H2. rewrite <- (N.mul_1_r w) at 1. apply to_screen_mul; lia. Qed.
Lemma doc_screen_id S : 1 <= S -> S <= u32_max -> doc_screen S = S.
Proof. apply to_screen_1. Qed.

(* FitTo::fit_to on a square S x S screen size *)
Lemma fit_to_size_width w S : 1 <= S -> 1 <= w -> w <= u32_max -> fit_to_size (FitWidth w) S S = Some (w, w).
Proof.
  intros HS H1 H2. cbn [fit_to_size]. rewrite cdiv_mul by assumption. unfold sat_u32, screen_size_new.
  replace (N.min w u32_max) with w by lia.
  destruct (N.ltb_spec 0 w); [reflexivity | lia].
Qed.
Lemma fit_to_size_height h S : 1 <= S -> 1 <= h -> h <= u32_max -> fit_to_size (FitHeight h) S S = Some (h, h).
Proof.
  intros HS H1 H2. cbn [fit_to_size]. rewrite cdiv_mul by assumption. unfold sat_u32, screen_size_new.
  replace (N.min h u32_max) with h by lia.
  destruct (N.ltb_spec 0 h); [reflexivity | lia].
Qed.
Lemma fit_to_size_size w h S : 1 <= S -> 1 <= w -> w <= u32_max -> 1 <= h -> h <= u32_max ->
  fit_to_size (FitSize w h) S S = Some (N.min w h, N.min w h).
Proof.
  intros HS Hw1 Hw2 Hh1 Hh2. cbn [fit_to_size].
  destruct (N.eqb_spec w 0) as [E|_]; [lia|]. destruct (N.eqb_spec h 0) as [E|_]; [lia|]. cbn [orb].
  rewrite !to_screen_mul, !to_screen_1 by assumption.
  destruct (N.leb_spec (w * S) (h * S)) as [L|L].
  - assert (w <= h) by nia. now replace (N.min w h) with w by lia.
  - assert (h < w) by nia. now replace (N.min w h) with h by lia.
Qed.

Section Builder.
Variable b : image_builder.
Variable S : N.
Hypothesis HS1 : 1 <= S.
Hypothesis HS2 : S <= u32_max.

(* Original: the pixmap is S x S *)
Theorem pixmap_side_original : fit_width b = None -> fit_height b = None -> pixmap_side b S = (S, S).
Proof. intros Hw Hh. unfold pixmap_side, fit_request. rewrite Hw, Hh, doc_screen_id by assumption. reflexivity. Qed.

(* Width(w): w x w *)
Theorem pixmap_side_width w : fit_width b = Some w -> fit_height b = None -> 1 <= w -> w <= u32_max ->
  pixmap_side b S = (w, w).
Proof.
  intros Hw Hh H1 H2. unfold pixmap_side, fit_request. rewrite Hw, Hh, doc_screen_id by assumption.
  now rewrite fit_to_size_width.
Qed.

(* Height(h): h x h *)
Theorem pixmap_side_height h : fit_width b = None -> fit_height b = Some h -> 1 <= h -> h <= u32_max ->
  pixmap_side b S = (h, h).
Proof.
  intros Hw Hh H1 H2. unfold pixmap_side, fit_request. rewrite Hw, Hh, doc_screen_id by assumption.
  now rewrite fit_to_size_height.
Qed.

(* Size(w, h): the largest square that fits into w x h *)
Theorem pixmap_side_size w h : fit_width b = Some w -> fit_height b = Some h ->
  1 <= w -> w <= u32_max -> 1 <= h -> h <= u32_max ->
  pixmap_side b S = (N.min w h, N.min w h).
Proof.
  intros Hw Hh Hw1 Hw2 Hh1 Hh2. unfold pixmap_side, fit_request. rewrite Hw, Hh, doc_screen_id by assumption.
  now rewrite fit_to_size_size.
Qed.
End Builder.

(* a fit request is in range when every requested side is a u32 >= 1 *)
Definition fit_in_range (o : option N) : Prop := match o with Some v => 1 <= v /\ v <= u32_max | None => True end.
(* the side requested: the smaller of the requested sides, the document side when nothing is requested *)
Definition requested_side (b : image_builder) (S : N) : N :=
  match fit_width b, fit_height b with
  | Some w, Some h => N.min w h
  | Some w, None => w
  | None, Some h => h
  | None, None => S
  end.

(* all four cases at once: the pixmap is the square of the requested side; that side P satisfies P <= w and P <= h for
   every requested bound, with equality for one of them (so it is the largest such square) *)
Theorem pixmap_side_square : forall b S, 1 <= S -> S <= u32_max ->
  fit_in_range (fit_width b) -> fit_in_range (fit_height b) ->
  pixmap_side b S = (requested_side b S, requested_side b S) /\ 1 <= requested_side b S.
Proof.
  intros b S HS1 HS2 Rw Rh. unfold requested_side.
  destruct (fit_width b) as [w|] eqn:Hw; destruct (fit_height b) as [h|] eqn:Hh; cbn [fit_in_range] in Rw, Rh.
  - split; [apply pixmap_side_size; tauto | lia].
  - split; [apply pixmap_side_width; tauto | lia].
  - split; [apply pixmap_side_height; tauto | lia].
  - split; [apply pixmap_side_original; tauto | lia].
Qed.

(* to_pixmap panics (resvg::render returns None) exactly when a requested side is 0 *)
Lemma screen_size_new_none w h : screen_size_new w h = None <-> (w = 0 \/ h = 0).
Proof.
  unfold screen_size_new. destruct (N.ltb_spec 0 w) as [Pw|Zw]; destruct (N.ltb_spec 0 h) as [Ph|Zh]; cbn [andb];
    split; intro H; try discriminate H; try reflexivity; lia.
Qed.
Lemma sat_u32_zero n : sat_u32 n = 0 <-> n = 0.
Proof. unfold sat_u32, u32_max. lia. Qed.

Definition fit_has_zero (f : fit) : Prop :=
  match f with
  | FitOriginal => False
  | FitWidth w => w = 0
  | FitHeight h => h = 0
  | FitSize w h => w = 0 \/ h = 0
  end.

Lemma fit_to_size_none f s0 : 1 <= s0 -> (fit_to_size f s0 s0 = None <-> fit_has_zero f).
Proof.
  intro H0. destruct f as [|w|h|w h]; unfold fit_to_size, fit_has_zero.
  - split; [discriminate | tauto].
  - rewrite screen_size_new_none, sat_u32_zero, cdiv_mul by assumption. tauto.
  - rewrite screen_size_new_none, sat_u32_zero, cdiv_mul by assumption. tauto.
  - destruct (N.eqb_spec w 0) as [Ew|Nw]; [cbn [orb]; tauto|].
    destruct (N.eqb_spec h 0) as [Eh|Nh]; [cbn [orb]; tauto|]. cbn [orb].
    destruct (w * s0 <=? h * s0); (split; [discriminate | tauto]).
Qed.

Theorem to_pixmap_panics_iff : forall b S,
  to_pixmap_panics b S = true <-> (fit_width b = Some 0 \/ fit_height b = Some 0).
Proof.
  intros b S. unfold to_pixmap_panics.
  assert (D : 1 <= doc_screen S) by (unfold doc_screen, to_screen; lia).
  generalize (fit_to_size_none (fit_request b) (doc_screen S) D).
  destruct (fit_to_size (fit_request b) (doc_screen S) (doc_screen S)) as [p|]; intros [F1 F2].
  - split; [discriminate|]. intro H. enough (E : Some p = None) by discriminate E. apply F2.
    unfold fit_request. destruct H as [H|H]; rewrite H.
    + destruct (fit_height b); cbn [fit_has_zero]; auto.
    + destruct (fit_width b); cbn [fit_has_zero]; auto.
  - split; [|reflexivity]. intros _. specialize (F1 eq_refl). unfold fit_request in F1.
    destruct (fit_width b) as [w|]; destruct (fit_height b) as [h|]; cbn [fit_has_zero] in F1.
    + destruct F1 as [->| ->]; auto.
    + subst w; auto.
    + subst h; auto.
    + contradiction.
Qed.
End Size.

(* ============================================================================================================ *)
(* (c) geometry                                                                                                  *)

Section Geometry.
Local Open Scope Q_scope.

Ltac geom :=
  unfold outline, square_outline, vertical_outline, horizontal_outline, diamond_outline, in_pixel, in_pixel_interior,
    in_box, in_rect, cell_cx, cell_cy in *.

(* ---- small facts about squares in Q ---- *)
Lemma sq_nonneg (a : Q) : 0 <= a * a.
Proof. nra. Qed.
Lemma sq_le_mono (a b : Q) : 0 <= a -> a <= b -> a * a <= b * b.
Proof. intros; nra. Qed.
Lemma sq_le_mono_neg (a b : Q) : a <= 0 -> b <= a -> a * a <= b * b.
Proof. intros; nra. Qed.
Lemma sq_le_inv (a b : Q) : 0 <= b -> a * a <= b * b -> a <= b.
Proof. intros; nra. Qed.
Lemma sq_bound (a e : Q) : 0 <= e -> a * a <= e * e -> - e <= a /\ a <= e.
Proof. intros; split; nra. Qed.
Lemma bound_sq (a e : Q) : - e <= a -> a <= e -> a * a <= e * e.
Proof. intros; nra. Qed.

(* ---- integers inside Q ---- *)
Lemma zq_lt_succ (m n : Z) : (m < n)%Z -> zq m + 1 <= zq n.
Proof. intro H. unfold zq, Qle, Qplus, inject_Z. cbn [Qnum Qden]. lia. Qed.
Lemma zq_neq (m n : Z) : m <> n -> zq m + 1 <= zq n \/ zq n + 1 <= zq m.
Proof. intro H. destruct (Z.lt_trichotomy m n) as [L|[E|L]]; [left | contradiction | right]; now apply zq_lt_succ. Qed.
Lemma zq_between (m n : Z) : zq m < zq n + 1 -> zq n < zq m + 1 -> m = n.
Proof. unfold zq, Qlt, Qplus, inject_Z. cbn [Qnum Qden]. lia. Qed.

(* ---- the diamond, with absolute values ---- *)
Lemma diamond_abs x y X Y :
  diamond_outline x y X Y <-> Qabs (X - cell_cx x) + Qabs (Y - cell_cy y) <= 1#2.
Proof.
  unfold diamond_outline. set (a := X - cell_cx x). set (b := Y - cell_cy y). cbv zeta.
  destruct (Qlt_le_dec a 0) as [Ha|Ha]; destruct (Qlt_le_dec b 0) as [Hb|Hb].
  - rewrite (Qabs_neg a), (Qabs_neg b) by lra. split; intros; lra.
  - rewrite (Qabs_neg a), (Qabs_pos b) by lra. split; intros; lra.
  - rewrite (Qabs_pos a), (Qabs_neg b) by lra. split; intros; lra.
  - rewrite (Qabs_pos a), (Qabs_pos b) by lra. split; intros; lra.
Qed.

(* ---- the rounded square ---- *)
Lemma rounded_contains_polygon x y X Y :
  in_rect (zq x + (1#5)) (zq x + (4#5)) (zq y + (1#5)) (zq y + (4#5)) X Y -> rounded_outline x y X Y.
Proof. intro H. exists X, Y. split; [exact H | nra]. Qed.

Lemma rounded_bbox x y X Y :
  rounded_outline x y X Y -> in_rect (zq x + (1#20)) (zq x + (19#20)) (zq y + (1#20)) (zq y + (19#20)) X Y.
Proof.
  intros (px & py & R & D). unfold in_rect in *.
  pose proof (sq_nonneg (X - px)) as NA. pose proof (sq_nonneg (Y - py)) as NB.
  assert (A : (X - px) * (X - px) <= (3#20) * (3#20)) by lra.
  assert (B : (Y - py) * (Y - py) <= (3#20) * (3#20)) by lra.
  apply sq_bound in A; [|lra]. apply sq_bound in B; [|lra]. lra.
Qed.

(* a point within e of the interval [lo, hi] has a point of the interval within e *)
Lemma clamp_exists (lo hi e X : Q) : 0 <= e -> lo <= hi -> lo - e <= X -> X <= hi + e ->
  exists p, lo <= p /\ p <= hi /\ - e <= X - p /\ X - p <= e.
Proof.
  intros He H0 H1 H2. destruct (Qlt_le_dec X lo) as [A|A].
  - exists lo. lra.
  - destruct (Qlt_le_dec hi X) as [B|B].
    + exists hi. lra.
    + exists X. lra.
Qed.

Lemma rounded_clear x y X Y : in_box (cell_cx x) (cell_cy y) (2#5) X Y -> rounded_outline x y X Y.
Proof.
  geom. intro H.
  destruct (clamp_exists (zq x + (1#5)) (zq x + (4#5)) (1#10) X) as (px & P1 & P2 & P3 & P4); try lra.
  destruct (clamp_exists (zq y + (1#5)) (zq y + (4#5)) (1#10) Y) as (py & R1 & R2 & R3 & R4); try lra.
  exists px, py. unfold in_rect. repeat split; try assumption.
  assert (A : (X - px) * (X - px) <= (1#10) * (1#10)) by (apply bound_sq; assumption).
  assert (B : (Y - py) * (Y - py) <= (1#10) * (1#10)) by (apply bound_sq; assumption).
  lra.
Qed.

(* the Minkowski-sum description is the union of the two paint operations, fill and stroke *)
Lemma clamp_near (lo hi p X : Q) : lo <= p -> p <= hi ->
  exists q, lo <= q /\ q <= hi /\ (X - q) * (X - q) <= (X - p) * (X - p) /\
            ((lo <= X /\ X <= hi /\ q == X) \/ q == lo \/ q == hi).
Proof.
  intros H1 H2. destruct (Qlt_le_dec X lo) as [A|A].
  - exists lo. repeat split; try lra. apply sq_le_mono_neg; lra.
  - destruct (Qlt_le_dec hi X) as [B|B].
    + exists hi. repeat split; try lra. apply sq_le_mono; lra.
    + exists X. repeat split; try lra. pose proof (sq_nonneg (X - p)). nra.
Qed.

Theorem rounded_split x y X Y : rounded_outline x y X Y <-> (rounded_fill x y X Y \/ rounded_stroke x y X Y).
Proof.
  split.
  - intros (px & py & R & D). unfold in_rect in R. destruct R as (R1 & R2 & R3 & R4).
    destruct (clamp_near _ _ _ X R1 R2) as (qx & A1 & A2 & A3 & A4).
    destruct (clamp_near _ _ _ Y R3 R4) as (qy & B1 & B2 & B3 & B4).
    assert (Dq : (X - qx) * (X - qx) + (Y - qy) * (Y - qy) <= 9#400) by lra.
    assert (Rq : rounded_fill x y qx qy) by (unfold rounded_fill, in_rect; tauto).
    destruct A4 as [(I1 & I2 & _)|A4].
    + destruct B4 as [(J1 & J2 & _)|B4].
      * left. unfold rounded_fill, in_rect. tauto.
      * right. exists qx, qy. split; [split; [exact Rq | tauto] | exact Dq].
    + right. exists qx, qy. split; [split; [exact Rq | tauto] | exact Dq].
  - intros [F|(px & py & [R _] & D)].
    + now apply rounded_contains_polygon.
    + exists px, py. split; [exact R | exact D].
Qed.

(* the stroke stays more than e away from the cell centre for every e < .15: the square of half-side e about the
   centre is painted by the fill only *)
Lemma rounded_stroke_far x y e X Y :
  e < 3#20 -> in_box (cell_cx x) (cell_cy y) e X Y -> ~ rounded_stroke x y X Y.
Proof.
  intros He Hb (px & py & [R E] & D). unfold rounded_fill in R. geom.
  pose proof (sq_nonneg (X - px)) as NA. pose proof (sq_nonneg (Y - py)) as NB.
  assert (A : (X - px) * (X - px) <= (3#20) * (3#20)) by lra.
  assert (B : (Y - py) * (Y - py) <= (3#20) * (3#20)) by lra.
  apply sq_bound in A; [|lra]. apply sq_bound in B; [|lra].
  destruct E as [E|[E|[E|E]]]; lra.
Qed.

(* ---- the circle ---- *)
(* the exact region lies between the two rational discs of the pencil through P0 and P1 *)
Lemma circle_inner_outline x y X Y : circle_inner x y X Y -> circle_outline x y X Y.
Proof.
  unfold circle_inner, circle_pencil, circle_outline, circle_L.
  set (u := circle_u x X). set (v := circle_v y Y). cbv zeta. intros [Hu H].
  split; [exact Hu|].
  destruct (Qlt_le_dec 0 (u * u + v * v - (1#400))) as [Lp|Ln]; [right | left; exact Ln].
  set (L := u * u + v * v - (1#400)) in *.
  assert (M : L <= - (2#1) * u * (4974#10000)) by (unfold L; nra).
  assert (M2 : L * L <= (- (2#1) * u * (4974#10000)) * (- (2#1) * u * (4974#10000))) by (apply sq_le_mono; lra).
  assert (U : 0 <= u * u) by nra.
  nra.
Qed.

Lemma circle_outline_outer x y X Y : circle_outline x y X Y -> circle_outer x y X Y.
Proof.
  unfold circle_outer, circle_pencil, circle_outline, circle_L.
  set (u := circle_u x X). set (v := circle_v y Y). cbv zeta. intros [Hu H].
  split; [exact Hu|].
  set (L := u * u + v * v - (1#400)) in *.
  enough (M : L <= - (2#1) * u * (4975#10000)) by (unfold L in M; nra).
  destruct H as [Ln|Lsq]; [nra|].
  apply sq_le_inv; [nra|].
  assert (U : 0 <= u * u) by nra.
  nra.
Qed.

(* the exact region is inside [x, x+1] x [y-.05, y+.95] *)
Lemma circle_bbox x y X Y :
  circle_outline x y X Y -> in_rect (zq x) (zq x + 1) (zq y - (1#20)) (zq y + (19#20)) X Y.
Proof.
  intro H. pose proof (circle_outline_outer _ _ _ _ H) as O.
  unfold circle_outer, circle_pencil, circle_outline, circle_L in *.
  revert H O. unfold circle_u, circle_v.
  set (u := X - (zq x + 1)). set (v := Y - (zq y + (9#20))). cbv zeta. intros [Hu H] [_ O].
  (* v^2 <= 1/4, from the exact condition *)
  assert (V : v * v <= (1#2) * (1#2)).
  { set (A := u * u) in *. set (B := v * v) in *.
    assert (A0 : 0 <= A) by (unfold A; nra).
    assert (B0 : 0 <= B) by (unfold B; nra).
    destruct H as [Ln|Lsq]; [lra|].
    destruct (Qlt_le_dec (1#4) B) as [Bad|Ok]; [exfalso | lra].
    pose proof (sq_nonneg (A - (99#400))) as S1.
    assert (S2 : 0 <= (B - (1#4)) * (A + (99#400))) by (apply Qmult_le_0_compat; lra).
    assert (S3 : 0 < (B - (1#4)) * (B - (1#4))) by (apply Qmult_lt_0_compat; lra).
    assert (E : (A + B - (1#400)) * (A + B - (1#400)) - (99#100) * A ==
                (A - (99#400)) * (A - (99#400)) + (2#1) * ((B - (1#4)) * (A + (99#400)))
                + (B - (1#4)) * (B - (1#4))) by ring.
    lra. }
  apply sq_bound in V; [|lra].
  (* u >= -1, from the outer disc *)
  assert (W : (u + (4975#10000)) * (u + (4975#10000)) <= (50001#100000) * (50001#100000)) by nra.
  apply sq_bound in W; [|lra].
  unfold in_rect. unfold u, v in *. lra.
Qed.

Lemma circle_clear x y X Y : in_box (cell_cx x) (cell_cy y) (3#10) X Y -> circle_outline x y X Y.
Proof.
  intro H. apply circle_inner_outline. geom. unfold circle_inner, circle_pencil, circle_u, circle_v.
  set (u := X - (zq x + 1)). set (v := Y - (zq y + (9#20))). cbv zeta.
  assert (U1 : - (3026#10000) <= u + (4974#10000)) by (unfold u; lra).
  assert (U2 : u + (4974#10000) <= 3026#10000) by (unfold u; lra).
  assert (V1 : - (35#100) <= v) by (unfold v; lra).
  assert (V2 : v <= 35#100) by (unfold v; lra).
  pose proof (bound_sq _ _ U1 U2) as A. pose proof (bound_sq _ _ V1 V2) as B.
  split; [unfold u; lra | lra].
Qed.

(* the circle really reaches into the cell above: (x+.5, y-.04) is painted *)
Lemma circle_reaches_above x y : circle_outline x y (zq x + (1#2)) (zq y - (1#25)).
Proof.
  unfold circle_outline, circle_L, circle_u, circle_v. cbv zeta.
  assert (Eu : zq x + (1#2) - (zq x + 1) == - (1#2)) by ring.
  assert (Ev : zq y - (1#25) - (zq y + (9#20)) == - (49#100)) by ring.
  rewrite Eu, Ev. split; [lra | right; lra].
Qed.

(* ---- all six shapes ---- *)

(* the outline contains the axis-parallel square of half-side [clearance s] about the centre of its own cell; in
   particular the centre itself, with that clearance *)
Theorem outline_clearance : forall s x y X Y,
  in_box (cell_cx x) (cell_cy y) (clearance s) X Y -> outline s x y X Y.
Proof.
  intros s x y X Y H. destruct s; cbn [outline clearance] in *.
  - geom; lra.
  - now apply circle_clear.
  - now apply rounded_clear.
  - geom; lra.
  - geom; lra.
  - geom; lra.
Qed.

Lemma clearance_ge_quarter s : 1#4 <= clearance s.
Proof. destruct s; cbn [clearance]; lra. Qed.

Corollary outline_contains_centre s x y : outline s x y (cell_cx x) (cell_cy y).
Proof. apply outline_clearance. pose proof (clearance_ge_quarter s). unfold in_box, in_rect. lra. Qed.

Corollary outline_quarter_box s x y X Y : in_box (cell_cx x) (cell_cy y) (1#4) X Y -> outline s x y X Y.
Proof. intro H. apply outline_clearance. pose proof (clearance_ge_quarter s). unfold in_box, in_rect in *. lra. Qed.

(* every outline stays inside its own cell, except that it may reach .05 above it (the circle does) *)
Theorem outline_reach : forall s x y X Y,
  outline s x y X Y -> in_rect (zq x) (zq x + 1) (zq y - (1#20)) (zq y + 1) X Y.
Proof.
  intros s x y X Y H. destruct s; cbn [outline] in H.
  - geom; lra.
  - apply circle_bbox in H. unfold in_rect in *. lra.
  - apply rounded_bbox in H. unfold in_rect in *. lra.
  - geom; lra.
  - geom; lra.
  - geom; lra.
Qed.

(* hence inside the cell enlarged by .05 on each side *)
Corollary outline_in_enlarged_cell : forall s x y X Y,
  outline s x y X Y -> in_rect (zq x - (1#20)) (zq x + (21#20)) (zq y - (1#20)) (zq y + (21#20)) X Y.
Proof. intros s x y X Y H. apply outline_reach in H. unfold in_rect in *. lra. Qed.

(* all shapes but the circle stay inside their own closed cell *)
Lemma outline_in_cell s x y X Y : s <> Circle -> outline s x y X Y -> square_outline x y X Y.
Proof.
  intros Hs H. destruct s; cbn [outline] in H; try contradiction; try (geom; lra).
  apply rounded_bbox in H. geom. lra.
Qed.

(* a point within e < .45 (per axis) of the centre of cell (x, y) is outside the outline of every OTHER cell *)
Theorem outline_far : forall s x y x' y' e X Y,
  (x' <> x \/ y' <> y) -> e < 9#20 -> in_box (cell_cx x) (cell_cy y) e X Y -> ~ outline s x' y' X Y.
Proof.
  intros s x y x' y' e X Y Hne He Hb Ho. apply outline_in_enlarged_cell in Ho. geom.
  destruct Hne as [Hx|Hy].
  - destruct (zq_neq _ _ Hx); lra.
  - destruct (zq_neq _ _ Hy); lra.
Qed.

(* ---- pixels ---- *)

(* the centre of a pixel that contains a point c is within half a pixel of c (per axis) *)
Lemma pixel_centre_near (a h c : Q) : a <= c -> c <= a + h ->
  - (h * (1#2)) <= a + h * (1#2) - c /\ a + h * (1#2) - c <= h * (1#2).
Proof. intros; lra. Qed.

(* a pixel (lower corner (a, b), side h) that contains the centre of cell (x, y) lies in the square of half-side h
   about that centre *)
Lemma pixel_in_box (a b h : Q) x y X Y :
  in_pixel a b h (cell_cx x) (cell_cy y) -> in_pixel a b h X Y -> in_box (cell_cx x) (cell_cy y) h X Y.
Proof. geom. lra. Qed.

(* DARK: at >= 4 pixels per module (h <= 1/4) the WHOLE pixel containing the cell centre is inside the outline *)
Theorem pixel_dark : forall s (a b h : Q) x y X Y,
  h <= 1#4 -> in_pixel a b h (cell_cx x) (cell_cy y) -> in_pixel a b h X Y -> outline s x y X Y.
Proof.
  intros s a b h x y X Y Hh Hc Hp. apply outline_quarter_box.
  pose proof (pixel_in_box _ _ _ _ _ _ _ Hc Hp) as B. geom. lra.
Qed.

(* LIGHT / QUIET ZONE: the whole pixel is outside the outline of every other cell *)
Theorem pixel_light : forall s (a b h : Q) x y x' y' X Y,
  h <= 1#4 -> in_pixel a b h (cell_cx x) (cell_cy y) -> in_pixel a b h X Y ->
  (x' <> x \/ y' <> y) -> ~ outline s x' y' X Y.
Proof.
  intros s a b h x y x' y' X Y Hh Hc Hp Hne.
  apply (outline_far s x y x' y' h X Y Hne); [lra|]. exact (pixel_in_box _ _ _ _ _ _ _ Hc Hp).
Qed.

(* the same for one shape at a time with its own bound: the whole pixel is inside as soon as h <= clearance s
   (Square: 2 pixels per module, Vertical / Horizontal / RoundedSquare: 2.5, Circle: 3.34, Diamond: 4) *)
Theorem pixel_dark_shape : forall s (a b h : Q) x y X Y,
  h <= clearance s -> in_pixel a b h (cell_cx x) (cell_cy y) -> in_pixel a b h X Y -> outline s x y X Y.
Proof.
  intros s a b h x y X Y Hh Hc Hp. apply outline_clearance.
  pose proof (pixel_in_box _ _ _ _ _ _ _ Hc Hp) as B. geom. lra.
Qed.

(* sampling at the pixel CENTRE only needs 2 pixels per module (h <= 1/2): the centre of the pixel containing the
   centre of cell (x, y) is painted iff the cell is dark *)
Theorem pixel_centre_colour_class : forall s (dark : Z -> Z -> Prop) (a b h : Q) x y,
  0 <= h -> h <= 1#2 -> in_pixel a b h (cell_cx x) (cell_cy y) ->
  (covered s dark (a + h * (1#2)) (b + h * (1#2)) <-> dark x y).
Proof.
  intros s dark a b h x y H0 Hh Hc.
  assert (B : in_box (cell_cx x) (cell_cy y) (1#4) (a + h * (1#2)) (b + h * (1#2))) by (geom; lra).
  split.
  - intros (x' & y' & Hd & Ho).
    destruct (Z.eq_dec x' x) as [Ex|Nx]; [destruct (Z.eq_dec y' y) as [Ey|Ny]|].
    + now subst.
    + exfalso. apply (outline_far s x y x' y' (1#4) _ _ (or_intror Ny)) in Ho; [exact Ho | lra | exact B].
    + exfalso. apply (outline_far s x y x' y' (1#4) _ _ (or_introl Nx)) in Ho; [exact Ho | lra | exact B].
  - intro Hd. exists x, y. split; [exact Hd|]. now apply outline_quarter_box.
Qed.

(* the colour class of the pixel containing the centre of cell (x, y) is that of the cell, for an arbitrary set of
   dark cells: every point of the pixel is painted iff the cell is dark *)
Theorem pixel_colour_class : forall s (dark : Z -> Z -> Prop) (a b h : Q) x y X Y,
  h <= 1#4 -> in_pixel a b h (cell_cx x) (cell_cy y) -> in_pixel a b h X Y ->
  (covered s dark X Y <-> dark x y).
Proof.
  intros s dark a b h x y X Y Hh Hc Hp. split.
  - intros (x' & y' & Hd & Ho).
    destruct (Z.eq_dec x' x) as [Ex|Nx]; [destruct (Z.eq_dec y' y) as [Ey|Ny]|].
    + now subst.
    + exfalso. exact (pixel_light s a b h x y x' y' X Y Hh Hc Hp (or_intror Ny) Ho).
    + exfalso. exact (pixel_light s a b h x y x' y' X Y Hh Hc Hp (or_introl Nx) Ho).
  - intro Hd. exists x, y. split; [exact Hd|]. exact (pixel_dark s a b h x y X Y Hh Hc Hp).
Qed.

(* ---- which pixel contains a cell centre, and how big pixels are ---- *)

Lemma pixel_size_pos P S : 0 < pixel_size P S.
Proof. unfold pixel_size, Qlt. cbn [Qnum Qden]. lia. Qed.

(* at least 4 pixels per module *)
Lemma pixel_size_quarter P S : (4 * Zpos S <= Zpos P)%Z -> pixel_size P S <= 1#4.
Proof. intro H. unfold pixel_size, Qle. cbn [Qnum Qden]. lia. Qed.

(* pixel number floor((x + 1/2) P / S) contains the centre of cell x (and the centre is not on its upper edge) *)
Lemma centre_pixel_contains P S x :
  pixel_lo P S (centre_pixel P S x) <= cell_cx x /\ cell_cx x < pixel_lo P S (centre_pixel P S x) + pixel_size P S.
Proof.
  unfold pixel_lo, pixel_size, centre_pixel, cell_cx, zq.
  set (i := ((2 * x + 1) * Zpos P / (2 * Zpos S))%Z).
  assert (D : (2 * Zpos S * i <= (2 * x + 1) * Zpos P < 2 * Zpos S * (i + 1))%Z).
  { unfold i. pose proof (Z.mul_div_le ((2 * x + 1) * Zpos P) (2 * Zpos S)).
    pose proof (Z.mul_succ_div_gt ((2 * x + 1) * Zpos P) (2 * Zpos S)). lia. }
  clearbody i. unfold Qle, Qlt, Qplus, Qmult, inject_Z. cbn [Qnum Qden].
  rewrite ?Pos2Z.inj_mul. split; nia.
Qed.

Theorem centre_pixel_in_pixel P S x y :
  in_pixel (pixel_lo P S (centre_pixel P S x)) (pixel_lo P S (centre_pixel P S y)) (pixel_size P S)
           (cell_cx x) (cell_cy y).
Proof.
  destruct (centre_pixel_contains P S x) as [A1 A2]. destruct (centre_pixel_contains P S y) as [B1 B2].
  unfold cell_cy. unfold cell_cx in *. unfold in_pixel, in_rect. lra.
Qed.

(* the two together: pixmap of side P, document of side S, P >= 4 S: pixel (floor((x+.5)P/S), floor((y+.5)P/S)) is
   painted at every one of its points iff cell (x, y) is dark *)
Theorem centre_pixel_colour_class : forall s (dark : Z -> Z -> Prop) (P S : positive) x y X Y,
  (4 * Zpos S <= Zpos P)%Z ->
  in_pixel (pixel_lo P S (centre_pixel P S x)) (pixel_lo P S (centre_pixel P S y)) (pixel_size P S) X Y ->
  (covered s dark X Y <-> dark x y).
Proof.
  intros s dark P S x y X Y H4 Hp.
  apply (pixel_colour_class s dark _ _ _ x y X Y (pixel_size_quarter P S H4) (centre_pixel_in_pixel P S x y) Hp).
Qed.

(* ---- the square shape at an integer scale k >= 1 (P = k S): every pixel lies in one cell ---- *)

Lemma pixel_size_integer_scale k S : pixel_size (k * S) S == 1 # k.
Proof. unfold pixel_size, Qeq. cbn [Qnum Qden]. rewrite Pos2Z.inj_mul. lia. Qed.

Lemma unit_pixel_lo k i : (zq (i / Zpos k) <= zq i * (1 # k)) /\ (zq i * (1 # k) + (1 # k) <= zq (i / Zpos k) + 1).
Proof.
  set (x := (i / Zpos k)%Z).
  assert (D : (Zpos k * x <= i < Zpos k * (x + 1))%Z).
  { unfold x. pose proof (Z.mul_div_le i (Zpos k)). pose proof (Z.mul_succ_div_gt i (Zpos k)). lia. }
  clearbody x. unfold zq, Qle, Qplus, Qmult, inject_Z. cbn [Qnum Qden].
  rewrite ?Pos2Z.inj_mul. split; nia.
Qed.

(* every point of the closed pixel (i, j) is in the closed cell (floor(i/k), floor(j/k)) *)
Theorem square_pixel_in_cell : forall k i j X Y,
  in_pixel (zq i * (1 # k)) (zq j * (1 # k)) (1 # k) X Y -> square_outline (i / Zpos k) (j / Zpos k) X Y.
Proof.
  intros k i j X Y H. destruct (unit_pixel_lo k i) as [A1 A2]. destruct (unit_pixel_lo k j) as [B1 B2].
  geom. lra.
Qed.

(* every interior point of pixel (i, j) is strictly inside that cell, and in no other cell's square *)
Theorem square_pixel_cell : forall k i j X Y,
  in_pixel_interior (zq i * (1 # k)) (zq j * (1 # k)) (1 # k) X Y ->
  (zq (i / Zpos k) < X /\ X < zq (i / Zpos k) + 1 /\ zq (j / Zpos k) < Y /\ Y < zq (j / Zpos k) + 1) /\
  (forall x' y', square_outline x' y' X Y -> x' = (i / Zpos k)%Z /\ y' = (j / Zpos k)%Z).
Proof.
  intros k i j X Y H. destruct (unit_pixel_lo k i) as [A1 A2]. destruct (unit_pixel_lo k j) as [B1 B2].
  geom.
  assert (I : zq (i / Zpos k) < X /\ X < zq (i / Zpos k) + 1 /\ zq (j / Zpos k) < Y /\ Y < zq (j / Zpos k) + 1) by lra.
  split; [exact I|].
  intros x' y' Hs. split; apply zq_between; lra.
Qed.

(* the pixel centre ((i + 1/2) / k, (j + 1/2) / k) is an interior point *)
Lemma pixel_centre_interior (a b h : Q) : 0 < h -> in_pixel_interior a b h (a + h * (1#2)) (b + h * (1#2)).
Proof. intro H. unfold in_pixel_interior. lra. Qed.

Corollary square_pixel_centre_cell : forall k i j,
  let X := zq i * (1 # k) + (1 # k) * (1#2) in
  let Y := zq j * (1 # k) + (1 # k) * (1#2) in
  (zq (i / Zpos k) < X /\ X < zq (i / Zpos k) + 1 /\ zq (j / Zpos k) < Y /\ Y < zq (j / Zpos k) + 1) /\
  (forall x' y', square_outline x' y' X Y -> x' = (i / Zpos k)%Z /\ y' = (j / Zpos k)%Z).
Proof.
  intros k i j X Y. apply square_pixel_cell. apply pixel_centre_interior. unfold Qlt. cbn [Qnum Qden]. lia.
Qed.

(* colour class, square shape, integer scale: an interior point of pixel (i, j) is painted iff the cell
   (floor(i/k), floor(j/k)) is dark *)
Theorem square_pixel_colour_class : forall (dark : Z -> Z -> Prop) k i j X Y,
  in_pixel_interior (zq i * (1 # k)) (zq j * (1 # k)) (1 # k) X Y ->
  (covered Square dark X Y <-> dark (i / Zpos k)%Z (j / Zpos k)%Z).
Proof.
  intros dark k i j X Y H. destruct (square_pixel_cell k i j X Y H) as [I U]. split.
  - intros (x' & y' & Hd & Ho). cbn [outline] in Ho. destruct (U x' y' Ho) as [-> ->]. exact Hd.
  - intro Hd. exists (i / Zpos k)%Z, (j / Zpos k)%Z. split; [exact Hd|]. cbn [outline]. geom. lra.
Qed.

(* ---- the cells of the document of a matrix ---- *)

(* cell (x, y) of the document is dark iff it lies inside the symbol (margin <= x, y < margin + n) and the module
   (row y - margin, column x - margin) is dark; in particular no cell of the quiet zone is *)
Theorem doc_dark_iff : forall c n m x y,
  doc_dark c n m x y <->
  (Z.of_N (c_margin c) <= x < Z.of_N (c_margin c) + Z.of_nat n /\
   Z.of_N (c_margin c) <= y < Z.of_N (c_margin c) + Z.of_nat n /\
   snd (qget m (Z.to_nat (y - Z.of_N (c_margin c))) (Z.to_nat (x - Z.of_N (c_margin c)))) = true)%Z.
Proof.
  intros c n m x y. unfold doc_dark. split.
  - intros (r & col & Hin & -> & ->). apply dark_spec in Hin. destruct Hin as (Hr & Hc & Hd).
    replace (Z.to_nat (Z.of_N (N.of_nat r + c_margin c) - Z.of_N (c_margin c))) with r by lia.
    replace (Z.to_nat (Z.of_N (N.of_nat col + c_margin c) - Z.of_N (c_margin c))) with col by lia.
    repeat split; try lia. exact Hd.
  - intros (Hx & Hy & Hd).
    exists (Z.to_nat (y - Z.of_N (c_margin c))), (Z.to_nat (x - Z.of_N (c_margin c))).
    split; [apply dark_spec; repeat split; try lia; exact Hd | split; lia].
Qed.

Corollary quiet_zone_not_dark : forall c n m x y,
  (x < Z.of_N (c_margin c) \/ Z.of_N (c_margin c) + Z.of_nat n <= x \/
   y < Z.of_N (c_margin c) \/ Z.of_N (c_margin c) + Z.of_nat n <= y)%Z -> ~ doc_dark c n m x y.
Proof. intros c n m x y H D. apply doc_dark_iff in D. lia. Qed.

End Geometry.
