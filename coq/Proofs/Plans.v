(* Finite plan checks (kernel computation over all 40 versions / 320 version-mask pairs / 32 format words) and, from
   them and the generic stage lemmas, the characterisation of every cell of a built symbol. *)
From Coq Require Import NArith List Bool Arith Lia.
From FQ Require Import Lib.ListX Lib.Mat Generated.Tables Model.Types Model.Hardcode Model.Default Model.Masking
  Model.Placement Model.Qr Spec.Iso Spec.Oracles Proofs.Tables Proofs.Geometry Proofs.GeomSafe Proofs.Stages.
Import ListNotations.

(* ------------------------------------------------------------ placement plan: the Data cells the walk visits, in
   order, are exactly the ISO read-out order of the encoding region, without repetition *)
Definition place_plan_ok (v : nat) : bool :=
  let n := version_size v in
  list_eqb coord_eqb (data_visits (blank v) (place_coords n)) (iso_data_coords v)
  && nodup_check n (iso_data_coords v).
Definition find_bad_place_plan := filter (fun v => negb (place_plan_ok v)) all_versions.
Lemma place_plan_check : forallb place_plan_ok all_versions = true.
Proof. vm_compute. reflexivity. Qed.

Lemma coord_eqb_eq p q : coord_eqb p q = true -> p = q.
Proof. intros H. now destruct (coord_eqb_spec p q). Qed.

Theorem place_plan v : v < 40 ->
  data_visits (blank v) (place_coords (version_size v)) = iso_data_coords v /\
  NoDup (iso_data_coords v) /\ Forall (in_sq (version_size v)) (iso_data_coords v).
Proof.
  intros H. pose proof (forallb_In _ _ _ place_plan_check (in_versions v H)) as C.
  unfold place_plan_ok in C. apply andb_prop in C as [C1 C2].
  split; [apply (list_eqb_eq coord_eqb coord_eqb_eq), C1|]. now apply nodup_check_sound.
Qed.

(* ------------------------------------------------------------ mask plan: on an all-Data, all-light matrix each sweep
   leaves dark exactly the cells satisfying the Table 10 condition *)
Definition all_data (n : nat) : qmat := mconst n (T_DATA, false).
Definition mask_plan_ok (vk : nat * nat) : bool :=
  let n := version_size (fst vk) in
  let M := apply_mask n (all_data n) (snd vk) in
  forallb (fun r => forallb (fun c => Bool.eqb (snd (qget M r c)) (iso_cond (snd vk) r c)) (seq 0 n)) (seq 0 n).
Definition find_bad_mask_plan := filter (fun vk => negb (mask_plan_ok vk)) (list_prod all_versions all_masks).
Lemma mask_plan_check : forallb mask_plan_ok (list_prod all_versions all_masks) = true.
Proof. vm_compute. reflexivity. Qed.

Lemma mask_coords_in_range v k : v < 40 -> k < 8 -> Forall (in_sq (version_size v)) (mask_coords (version_size v) k).
Proof.
  intros Hv Hk. pose proof (geom_safe_all v Hv) as G. unfold geom_safe in G.
  repeat (apply andb_prop in G as [G ?]).
  match goal with H : forallb (fun mk => forallb _ (mask_coords _ mk)) all_masks = true |- _ => rename H into Hm end.
  pose proof (forallb_In _ _ k Hm (in_masks k Hk)) as Hk'. cbn beta in Hk'.
  apply Forall_forall. intros q Hq. rewrite forallb_forall in Hk'. now apply in_sqb_spec, Hk'.
Qed.

Theorem mask_parity v k r c : v < 40 -> k < 8 -> r < version_size v -> c < version_size v ->
  Nat.odd (occ (r, c) (mask_coords (version_size v) k)) = iso_cond k r c.
Proof.
  intros Hv Hk Hr Hc. set (n := version_size v) in *.
  pose proof (forallb_In _ _ (v, k) mask_plan_check) as C.
  assert (Hin : In (v, k) (list_prod all_versions all_masks)) by (apply in_prod; [apply in_versions | apply in_masks]; auto).
  specialize (C Hin). unfold mask_plan_ok in C. cbn [fst snd] in C. fold n in C.
  pose proof (forallb_In _ _ r C ltac:(apply in_seq; lia)) as Cr. cbn beta in Cr.
  pose proof (forallb_In _ _ c Cr ltac:(apply in_seq; lia)) as Cc. cbn beta in Cc.
  apply eqb_prop in Cc. rewrite <- Cc. unfold apply_mask.
  pose proof (toggles_get n (mask_coords n k) (all_data n) (r, c) (mconst_wf n _) (mask_coords_in_range v k Hv Hk)) as T.
  cbn [fst snd] in T. rewrite T. cbn zeta. unfold all_data, qget. rewrite mconst_get by auto.
  cbn [is_data fst snd T_DATA N.eqb andb]. destruct (Nat.odd _); reflexivity.
Qed.

(* ------------------------------------------------------------ the masking theorem for any matrix (C08) *)
Theorem apply_mask_spec v k m r c : v < 40 -> k < 8 -> wf (version_size v) m -> r < version_size v -> c < version_size v ->
  qget (apply_mask (version_size v) m k) r c =
  let x := qget m r c in if is_data x && iso_cond k r c then cell_toggle x else x.
Proof.
  intros Hv Hk Hwf Hr Hc. unfold apply_mask.
  pose proof (toggles_get _ (mask_coords (version_size v) k) m (r, c) Hwf (mask_coords_in_range v k Hv Hk)) as T.
  cbn [fst snd] in T. rewrite T. cbn zeta. now rewrite mask_parity.
Qed.
Lemma apply_mask_wf v k m : wf (version_size v) m -> wf (version_size v) (apply_mask (version_size v) m k).
Proof. apply fold_toggle_wf. Qed.

(* ------------------------------------------------------------ format plan: for each of the 32 format words, the writes
   hit only cells typed Format in the blank symbol, with type Format, and leave bit j of the word at both ISO positions of
   bit j; every Format cell of the blank symbol is written *)
Definition format_words : list N := map (fun lk : nat * nat => iso_format_word (fst lk) (snd lk)) (list_prod (seq 0 4) (seq 0 8)).
Definition format_plan_ok (v : nat) : bool :=
  let n := version_size v in
  let B := blank v in
  forallb (fun w : N =>
    let ws := format_writes n w in
    forallb (fun x : write => N.eqb (fst (qget B (fst (fst x)) (snd (fst x)))) T_FORMAT && N.eqb (fst (snd x)) T_FORMAT) ws
    && forallb (fun j =>
         match last_write ws (iso_format_pos1 j) None, last_write ws (iso_format_pos2 n j) None with
         | Some a, Some b => Bool.eqb (snd a) (N.testbit w (N.of_nat j)) && Bool.eqb (snd b) (N.testbit w (N.of_nat j))
         | _, _ => false
         end) (seq 0 15)) format_words
  && forallb (fun r => forallb (fun c =>
       negb (N.eqb (fst (qget B r c)) T_FORMAT)
       || existsb (fun j => coord_eqb (iso_format_pos1 j) (r, c) || coord_eqb (iso_format_pos2 n j) (r, c)) (seq 0 15)) (seq 0 n)) (seq 0 n).
Definition find_bad_format_plan := filter (fun v => negb (format_plan_ok v)) all_versions.
Lemma format_plan_check : forallb format_plan_ok all_versions = true.
Proof. vm_compute. reflexivity. Qed.
