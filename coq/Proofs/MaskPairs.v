(* C08 corollaries: the same payload built with two forced masks. *)
From Coq Require Import NArith List Bool Arith Lia.
From FQ Require Import Lib.ListX Lib.Mat Generated.Tables Model.Types Model.Hardcode Model.Compact Model.Encode Model.Poly Model.Default Model.Masking
  Model.Placement Model.Qr Spec.Iso Spec.Oracles
  Proofs.Tables Proofs.Geometry Proofs.Stages Proofs.Plans Proofs.Final Proofs.Build Proofs.BuildMatrix Proofs.Regions Proofs.DataCells Proofs.Readout.
Import ListNotations.

Definition with_mask (o : options) (k : nat) : options :=
  {| o_mode := o_mode o; o_ecl := o_ecl o; o_version := o_version o; o_mask := Some k |}.

Lemma with_mask_wf o k : options_wf o -> k < 8 -> options_wf (with_mask o k).
Proof. intros [A B] Hk. split; cbn; [exact A | intros k' E; inversion E; subst; exact Hk]. Qed.

Lemma resolve_with_mask input o k : resolve input (with_mask o k) = resolve input o.
Proof. reflexivity. Qed.

Lemma both_builds input o a b qa qb : options_wf o -> a < 8 -> b < 8 ->
  build input (with_mask o a) = Ok qa -> build input (with_mask o b) = Ok qb ->
  exists v e m, v < 40 /\ q_version qa = v /\ q_version qb = v /\ q_size qa = version_size v /\ q_size qb = version_size v /\
    q_mat qa = final_matrix v e a (stream_of input e m v) /\ q_mat qb = final_matrix v e b (stream_of input e m v).
Proof.
  intros W Ha Hb Hqa Hqb.
  destruct (build_ok_matrix _ _ _ (with_mask_wf o a W Ha) Hqa) as (Hv & _ & Hs & _ & _ & Hr & _ & Hm).
  destruct (build_ok_matrix _ _ _ (with_mask_wf o b W Hb) Hqb) as (Hv' & _ & Hs' & _ & _ & Hr' & _ & Hm').
  rewrite resolve_with_mask in Hr, Hr'. rewrite Hr in Hr'. inversion Hr' as [[E1 E2 E3]].
  assert (Ka : q_mask qa = a).
  { destruct (build_ok_fields _ _ _ Hqa) as (_ & _ & _ & _ & _ & K). now apply K. }
  assert (Kb : q_mask qb = b).
  { destruct (build_ok_fields _ _ _ Hqb) as (_ & _ & _ & _ & _ & K). now apply K. }
  exists (q_version qa), (q_ecl qa), (q_mode qa). rewrite Ka in Hm. rewrite Kb, <- E1, <- E2, <- E3 in Hm'. rewrite <- E3 in Hs'.
  repeat split; auto.
Qed.

Theorem two_masks input o a b qa qb : options_wf o -> a < 8 -> b < 8 ->
  build input (with_mask o a) = Ok qa -> build input (with_mask o b) = Ok qb ->
  q_version qa = q_version qb /\ q_size qa = q_size qb /\
  forall r c, r < q_size qa -> c < q_size qa ->
    match iso_region (q_version qa) r c with
    | RData => xorb (snd (qget (q_mat qa) r c)) (snd (qget (q_mat qb) r c)) = xorb (iso_cond a r c) (iso_cond b r c)
    | RFormat => True
    | _ => qget (q_mat qa) r c = qget (q_mat qb) r c
    end.
Proof.
  intros W Ha Hb Hqa Hqb.
  destruct (both_builds input o a b qa qb W Ha Hb Hqa Hqb) as (v & e & m & Hv & Va & Vb & Sa & Sb & Ma & Mb).
  split; [congruence|]. split; [congruence|]. intros r c Hr Hc. rewrite Sa in Hr, Hc. rewrite Va, Ma, Mb.
  destruct (blank_cell_is_region v r c Hv Hr Hc) as [_ M]. unfold cell_matches in M. apply andb_prop in M as [Mt _].
  apply N.eqb_eq in Mt.
  destruct (iso_region v r c) eqn:ER; cbn [region_type] in Mt; try exact I;
    try (unfold final_matrix; rewrite !final_fixed by (auto; rewrite Mt; discriminate); reflexivity).
  destruct (data_cell_has_index v r c Hv Hr Hc Mt) as (j & Hj & _).
  unfold final_matrix. rewrite (final_data v e a _ Hv Ha r c j), (final_data v e b _ Hv Hb r c j) by auto.
  destruct (nth j _ false), (iso_cond a r c), (iso_cond b r c); reflexivity.
Qed.

Lemma stream_bits_length bytes : length (stream_bits bytes) = 8 * length bytes.
Proof.
  unfold stream_bits. induction bytes as [|x t IH]; [reflexivity|].
  cbn [flat_map]. rewrite app_length, IH. cbn [byte_bits length]. lia.
Qed.

Lemma structure_buffer_length data e v : (interleave_buf <= N.of_nat (length (structure_buffer data e v)))%N.
Proof.
  unfold structure_buffer. rewrite app_length, repeat_length. lia.
Qed.

Lemma max_bytes_bound v : v < 40 -> (max_bytes v <= 3706)%N /\ (missing_bits v <= 7)%N.
Proof.
  intros Hv. assert (H : forallb (fun v => (max_bytes v <=? 3706)%N && (missing_bits v <=? 7)%N) all_versions = true) by (vm_compute; reflexivity).
  pose proof (forallb_In _ _ _ H (in_versions v Hv)) as C. apply andb_prop in C as [A B]. split; now apply N.leb_le.
Qed.

Lemma coords_le_stream v input e m : v < 40 -> length (iso_data_coords v) <= length (stream_bits (stream_of input e m v)).
Proof.
  intros Hv. rewrite stream_bits_length. unfold stream_of.
  pose proof (structure_buffer_length (cdata (encode input e m v)) e v) as L.
  pose proof (Nat.div_mod (length (iso_data_coords v)) 8 ltac:(lia)) as D.
  destruct (counts_from_geometry v Hv) as [C1 C2]. unfold iso_total_codewords, iso_remainder_bits in C1, C2.
  destruct (max_bytes_bound v Hv) as [B1 B2].
  change interleave_buf with 5430%N in L. lia.
Qed.

Theorem unmask_independent input o a b qa qb : options_wf o -> a < 8 -> b < 8 ->
  build input (with_mask o a) = Ok qa -> build input (with_mask o b) = Ok qb ->
  iso_unmasked_bits (q_version qa) a (map (map snd) (q_mat qa)) = iso_unmasked_bits (q_version qb) b (map (map snd) (q_mat qb)).
Proof.
  intros W Ha Hb Hqa Hqb.
  destruct (both_builds input o a b qa qb W Ha Hb Hqa Hqb) as (v & e & m & Hv & Va & Vb & Sa & Sb & Ma & Mb).
  rewrite Va, Vb, Ma, Mb. fold (vals (final_matrix v e a (stream_of input e m v))). fold (vals (final_matrix v e b (stream_of input e m v))).
  rewrite !readout by (auto using coords_le_stream). reflexivity.
Qed.
