(* Bit / byte conversions of Spec/Iso.v: be_bits, bits_val, bytes_bits, bits_bytes and the chunks function they use.
   Round trips, lengths, and interaction with app / firstn / skipn. *)
From Coq Require Import NArith List Bool Arith Lia ZArith.
From Coq Require Import ZifyBool ZifyNat ZifyN.
From FQ Require Import Lib.ListX Spec.Iso.
Import ListNotations.
Ltac Zify.zify_post_hook ::= Z.div_mod_to_equations.

#[local] Arguments N.add : simpl never.
#[local] Arguments N.sub : simpl never.
#[local] Arguments N.mul : simpl never.
#[local] Arguments N.eqb : simpl never.
#[local] Arguments N.ltb : simpl never.
#[local] Arguments N.leb : simpl never.
#[local] Arguments N.div : simpl never.
#[local] Arguments N.modulo : simpl never.
#[local] Arguments N.pow : simpl never.
#[local] Arguments N.testbit : simpl never.
#[local] Arguments N.of_nat : simpl never.

(* ------------------------------------------------------------------ one-step unfoldings *)
Lemma be_bits_0 x : be_bits 0 x = [].
Proof. reflexivity. Qed.
Lemma be_bits_S w x : be_bits (S w) x = N.testbit x (N.of_nat w) :: be_bits w x.
Proof. reflexivity. Qed.
Lemma bits_val_nil : bits_val [] = 0%N.
Proof. reflexivity. Qed.
Lemma bits_val_cons b t :
  bits_val (b :: t) = ((if b then 1 else 0) * 2 ^ N.of_nat (length t) + bits_val t)%N.
Proof. reflexivity. Qed.

(* ------------------------------------------------------------------ be_bits / bits_val *)
Lemma be_bits_length w x : length (be_bits w x) = w.
Proof. induction w as [|w IH]; [reflexivity|]. rewrite be_bits_S. cbn [length]. now rewrite IH. Qed.

Lemma pow2_pos n : (0 < 2 ^ n)%N.
Proof. apply N.neq_0_lt_0, N.pow_nonzero. discriminate. Qed.

Lemma pow2_succ_nat w : (2 ^ N.of_nat (S w) = 2 ^ N.of_nat w * 2)%N.
Proof. rewrite Nat2N.inj_succ, N.pow_succ_r'. apply N.mul_comm. Qed.

Lemma bits_val_bound l : (bits_val l < 2 ^ N.of_nat (length l))%N.
Proof.
  induction l as [|b t IH].
  - rewrite bits_val_nil. cbn [length]. apply pow2_pos.
  - rewrite bits_val_cons. cbn [length]. rewrite pow2_succ_nat.
    destruct b; lia.
Qed.

Lemma b2n_testbit x n : ((if N.testbit x n then 1 else 0) = (x / 2 ^ n) mod 2)%N.
Proof. rewrite <- N.testbit_spec'. destruct (N.testbit x n); reflexivity. Qed.

(* the general form: be_bits w keeps exactly the w low bits *)
Lemma bits_val_be_bits_mod w x : bits_val (be_bits w x) = (x mod 2 ^ N.of_nat w)%N.
Proof.
  induction w as [|w IH].
  - rewrite be_bits_0, bits_val_nil. cbn [N.of_nat]. change (2 ^ N.of_nat 0)%N with 1%N. now rewrite N.mod_1_r.
  - rewrite be_bits_S, bits_val_cons, be_bits_length, IH, b2n_testbit, pow2_succ_nat.
    pose proof (pow2_pos (N.of_nat w)) as Hp.
    rewrite N.mod_mul_r by lia. lia.
Qed.

Lemma bits_val_be_bits w x : (x < 2 ^ N.of_nat w)%N -> bits_val (be_bits w x) = x.
Proof. intros H. rewrite bits_val_be_bits_mod. now apply N.mod_small. Qed.

Lemma be_bits_ext w x y :
  (forall i, (i < N.of_nat w)%N -> N.testbit x i = N.testbit y i) -> be_bits w x = be_bits w y.
Proof.
  induction w as [|w IH]; intros H; [reflexivity|].
  rewrite !be_bits_S. f_equal.
  - apply H. lia.
  - apply IH. intros i Hi. apply H. lia.
Qed.

Lemma be_bits_mod w x : be_bits w (x mod 2 ^ N.of_nat w) = be_bits w x.
Proof. apply be_bits_ext. intros i Hi. now apply N.mod_pow2_bits_low. Qed.

Lemma be_bits_add_high w c r : be_bits w (c * 2 ^ N.of_nat w + r) = be_bits w r.
Proof.
  rewrite <- (be_bits_mod w (c * 2 ^ N.of_nat w + r)), <- (be_bits_mod w r). f_equal.
  pose proof (pow2_pos (N.of_nat w)).
  rewrite N.add_comm, N.mod_add by lia. reflexivity.
Qed.

Lemma testbit_add_high n (b : bool) r :
  (r < 2 ^ n)%N -> N.testbit ((if b then 1 else 0) * 2 ^ n + r) n = b.
Proof.
  intros H. rewrite N.testbit_eqb. rewrite N.div_add_l by lia. rewrite N.div_small by assumption.
  destruct b; reflexivity.
Qed.

Lemma be_bits_bits_val l : be_bits (length l) (bits_val l) = l.
Proof.
  induction l as [|b t IH]; [reflexivity|].
  cbn [length]. rewrite be_bits_S, bits_val_cons. f_equal.
  - apply testbit_add_high, bits_val_bound.
  - rewrite be_bits_add_high. exact IH.
Qed.

Lemma bits_val_inj a b : length a = length b -> bits_val a = bits_val b -> a = b.
Proof.
  intros Hl Hv. rewrite <- (be_bits_bits_val a), <- (be_bits_bits_val b). now rewrite Hl, Hv.
Qed.

Lemma be_bits_inj w x y : (x < 2 ^ N.of_nat w)%N -> (y < 2 ^ N.of_nat w)%N -> be_bits w x = be_bits w y -> x = y.
Proof.
  intros Hx Hy E. rewrite <- (bits_val_be_bits w x Hx), <- (bits_val_be_bits w y Hy). now rewrite E.
Qed.

Lemma bits_val_repeat_false n : bits_val (repeat false n) = 0%N.
Proof.
  induction n as [|n IH]; [reflexivity|]. cbn [repeat]. rewrite bits_val_cons, IH. lia.
Qed.

Lemma be_bits_zero w : be_bits w 0 = repeat false w.
Proof. induction w as [|w IH]; [reflexivity|]. rewrite be_bits_S, IH, N.bits_0. reflexivity. Qed.

Lemma bits_val_app a b : bits_val (a ++ b) = (bits_val a * 2 ^ N.of_nat (length b) + bits_val b)%N.
Proof.
  induction a as [|x a IH].
  - cbn [app]. rewrite bits_val_nil. lia.
  - cbn [app]. rewrite !bits_val_cons, IH, app_length, Nat2N.inj_add, N.pow_add_r. lia.
Qed.

(* ------------------------------------------------------------------ chunks *)
Lemma chunks_aux_S {A} f n (l : list A) :
  chunks_aux (S f) n l = match l with [] => [] | _ => firstn n l :: chunks_aux f n (skipn n l) end.
Proof. reflexivity. Qed.

Lemma chunks_aux_fuel {A} n : 0 < n -> forall f1 f2 (l : list A),
  length l <= f1 -> length l <= f2 -> chunks_aux f1 n l = chunks_aux f2 n l.
Proof.
  intros Hn. induction f1 as [|f1 IH]; intros f2 l H1 H2.
  - destruct l as [|x l]; [|cbn [length] in H1; lia]. destruct f2; reflexivity.
  - destruct f2 as [|f2].
    + destruct l as [|x l]; [reflexivity|cbn [length] in H2; lia].
    + rewrite !chunks_aux_S. destruct l as [|x l]; [reflexivity|].
      f_equal. apply IH; rewrite skipn_length; cbn [length] in *; lia.
Qed.

Lemma chunks_nil {A} n : chunks n (@nil A) = [].
Proof. reflexivity. Qed.

Lemma chunks_step {A} n (l : list A) : 0 < n -> l <> [] ->
  chunks n l = firstn n l :: chunks n (skipn n l).
Proof.
  intros Hn Hl. unfold chunks. destruct l as [|x l]; [congruence|].
  cbn [length]. rewrite chunks_aux_S. f_equal.
  apply chunks_aux_fuel; [assumption| |lia]. rewrite skipn_length. cbn [length]. lia.
Qed.

Lemma chunks_app {A} n (a b : list A) : 0 < n -> length a = n -> chunks n (a ++ b) = a :: chunks n b.
Proof.
  intros Hn Ha. rewrite chunks_step; [|assumption|].
  - rewrite firstn_app, skipn_app, Ha, Nat.sub_diag. cbn [firstn skipn].
    rewrite <- Ha, firstn_all, skipn_all, app_nil_r. reflexivity.
  - destruct a; [cbn [length] in Ha; lia|discriminate].
Qed.

Lemma chunks_short {A} n (l : list A) : 0 < n -> l <> [] -> length l <= n -> chunks n l = [l].
Proof.
  intros Hn Hl Hle. rewrite chunks_step by assumption.
  rewrite firstn_all2, skipn_all2 by assumption. reflexivity.
Qed.

Lemma chunks_length_exact {A} n k : 0 < n -> forall l : list A, length l = k * n -> length (chunks n l) = k.
Proof.
  intros Hn. induction k as [|k IH]; intros l Hl.
  - destruct l; [reflexivity|cbn [length] in Hl; lia].
  - rewrite <- (firstn_skipn n l). rewrite chunks_app; [|assumption|rewrite firstn_length; lia].
    cbn [length]. f_equal. apply IH. rewrite skipn_length. lia.
Qed.

Lemma chunks_concat {A} n (l : list A) : 0 < n -> concat (chunks n l) = l.
Proof.
  intros Hn. remember (length l) as k eqn:Hk. revert l Hk.
  induction k as [k IH] using lt_wf_ind. intros l Hk.
  destruct l as [|x l]; [reflexivity|].
  rewrite chunks_step by (assumption || discriminate). cbn [concat].
  rewrite (IH (length (skipn n (x :: l)))); [apply firstn_skipn| |reflexivity].
  rewrite skipn_length. cbn [length] in *. lia.
Qed.

Lemma chunks_Forall_length {A} n k : 0 < n -> forall l : list A, length l = k * n ->
  Forall (fun c => length c = n) (chunks n l).
Proof.
  intros Hn. induction k as [|k IH]; intros l Hl.
  - destruct l; [constructor|cbn [length] in Hl; lia].
  - rewrite <- (firstn_skipn n l). rewrite chunks_app; [|assumption|rewrite firstn_length; lia].
    constructor; [rewrite firstn_length; lia|]. apply IH. rewrite skipn_length. lia.
Qed.

(* ------------------------------------------------------------------ bytes_bits / bits_bytes *)
Lemma bytes_bits_nil : bytes_bits [] = [].
Proof. reflexivity. Qed.
Lemma bytes_bits_cons x l : bytes_bits (x :: l) = be_bits 8 x ++ bytes_bits l.
Proof. reflexivity. Qed.
Lemma bytes_bits_app a b : bytes_bits (a ++ b) = bytes_bits a ++ bytes_bits b.
Proof. unfold bytes_bits. apply flat_map_app. Qed.

Lemma bytes_bits_length l : length (bytes_bits l) = 8 * length l.
Proof.
  induction l as [|x l IH]; [reflexivity|].
  rewrite bytes_bits_cons, app_length, be_bits_length, IH. cbn [length]. lia.
Qed.

Lemma bits_bytes_nil : bits_bytes [] = [].
Proof. reflexivity. Qed.

Lemma bits_bytes_app8 a b : length a = 8 -> bits_bytes (a ++ b) = bits_val a :: bits_bytes b.
Proof. intros Ha. unfold bits_bytes. rewrite chunks_app by (lia || assumption). reflexivity. Qed.

Lemma bits_bytes_bytes_bits l : Forall (fun b => (b < 256)%N) l -> bits_bytes (bytes_bits l) = l.
Proof.
  induction 1 as [|x l Hx Hl IH]; [reflexivity|].
  rewrite bytes_bits_cons, bits_bytes_app8 by apply be_bits_length.
  rewrite IH. f_equal. apply bits_val_be_bits. exact Hx.
Qed.

Lemma bytes_bits_bits_bytes_k k : forall l, length l = 8 * k -> bytes_bits (bits_bytes l) = l.
Proof.
  induction k as [|k IH]; intros l Hl.
  - destruct l; [reflexivity|cbn [length] in Hl; lia].
  - rewrite <- (firstn_skipn 8 l) at 1.
    assert (H8 : length (firstn 8 l) = 8) by (rewrite firstn_length; lia).
    rewrite bits_bytes_app8 by exact H8. rewrite bytes_bits_cons.
    rewrite IH by (rewrite skipn_length; lia).
    rewrite <- H8 at 1. rewrite be_bits_bits_val. apply firstn_skipn.
Qed.

Lemma bytes_bits_bits_bytes l : length l mod 8 = 0 -> bytes_bits (bits_bytes l) = l.
Proof. intros H. apply (bytes_bits_bits_bytes_k (length l / 8)). lia. Qed.

Lemma bits_bytes_length l : length l mod 8 = 0 -> length (bits_bytes l) = length l / 8.
Proof.
  intros H. pose proof (bytes_bits_length (bits_bytes l)) as E.
  rewrite bytes_bits_bits_bytes in E by assumption. lia.
Qed.

Lemma bits_bytes_length_k l k : length l = 8 * k -> length (bits_bytes l) = k.
Proof. intros H. rewrite bits_bytes_length; lia. Qed.

Lemma bits_bytes_bound l : Forall (fun b => (b < 256)%N) (bits_bytes l).
Proof.
  unfold bits_bytes. apply Forall_forall. intros x Hx.
  apply in_map_iff in Hx as [c [<- Hc]].
  assert (Hlen : length c <= 8).
  { clear -Hc. remember (length l) as k eqn:Hk. revert l Hk c Hc.
    induction k as [k IH] using lt_wf_ind. intros l Hk c Hc.
    destruct l as [|x l]; [destruct Hc|].
    rewrite chunks_step in Hc by (lia || discriminate).
    destruct Hc as [<-|Hc]; [rewrite firstn_length; lia|].
    eapply (IH (length (skipn 8 (x :: l)))); [|reflexivity|exact Hc].
    rewrite skipn_length. cbn [length] in *. lia. }
  pose proof (bits_val_bound c) as Hb.
  assert (2 ^ N.of_nat (length c) <= 2 ^ 8)%N by (apply N.pow_le_mono_r; lia).
  change (2 ^ 8)%N with 256%N in *. lia.
Qed.

Lemma bytes_bits_firstn k l : firstn (8 * k) (bytes_bits l) = bytes_bits (firstn k l).
Proof.
  revert l. induction k as [|k IH]; intros l.
  - reflexivity.
  - destruct l as [|x l].
    + change (bytes_bits []) with (@nil bool). rewrite !firstn_nil. reflexivity.
    + cbn [firstn]. rewrite !bytes_bits_cons.
      replace (8 * S k) with (length (be_bits 8 x) + 8 * k) by (rewrite be_bits_length; lia).
      rewrite firstn_app_2. now rewrite IH.
Qed.

Lemma bytes_bits_skipn k l : skipn (8 * k) (bytes_bits l) = bytes_bits (skipn k l).
Proof.
  revert l. induction k as [|k IH]; intros l.
  - reflexivity.
  - destruct l as [|x l].
    + change (bytes_bits []) with (@nil bool). rewrite !skipn_nil. reflexivity.
    + cbn [skipn]. rewrite bytes_bits_cons.
      rewrite skipn_app, be_bits_length.
      rewrite skipn_all2 by (rewrite be_bits_length; lia).
      replace (8 * S k - 8) with (8 * k) by lia. cbn [app]. apply IH.
Qed.

Lemma bits_bytes_app a b : length a mod 8 = 0 -> bits_bytes (a ++ b) = bits_bytes a ++ bits_bytes b.
Proof.
  intros H. assert (E : exists k, length a = 8 * k) by (exists (length a / 8); lia).
  destruct E as [k Hk]. clear H. revert a Hk. induction k as [|k IH]; intros a Hk.
  - destruct a; [reflexivity|cbn [length] in Hk; lia].
  - assert (H8 : length (firstn 8 a) = 8) by (rewrite firstn_length; lia).
    assert (Hq : length (skipn 8 a) = 8 * k) by (rewrite skipn_length; lia).
    pose proof (firstn_skipn 8 a) as E. revert H8 Hq E.
    generalize (firstn 8 a) (skipn 8 a). intros p q H8 Hq <-.
    rewrite <- app_assoc. rewrite (bits_bytes_app8 p (q ++ b)), (bits_bytes_app8 p q) by exact H8.
    rewrite IH by exact Hq. reflexivity.
Qed.

(* nth of bytes_bits: bit j of the stream is bit 7 - j mod 8 of byte j / 8 *)
Lemma nth_be_bits w x i : i < w -> nth i (be_bits w x) false = N.testbit x (N.of_nat (w - 1 - i)).
Proof.
  revert i. induction w as [|w IH]; intros i Hi; [lia|].
  rewrite be_bits_S. destruct i as [|i].
  - cbn [nth]. f_equal. f_equal. lia.
  - cbn [nth]. rewrite IH by lia. f_equal. f_equal. lia.
Qed.

Lemma nth_bytes_bits l j : j < 8 * length l ->
  nth j (bytes_bits l) false = N.testbit (nth (j / 8) l 0%N) (N.of_nat (7 - j mod 8)).
Proof.
  revert j. induction l as [|x l IH]; intros j Hj; [cbn [length] in Hj; lia|].
  rewrite bytes_bits_cons. destruct (Nat.ltb_spec j 8) as [Hlt|Hge].
  - rewrite app_nth1 by (rewrite be_bits_length; exact Hlt).
    rewrite nth_be_bits by exact Hlt.
    replace (j / 8) with 0 by lia. replace (j mod 8) with j by lia. cbn [nth]. f_equal.
  - rewrite app_nth2 by (rewrite be_bits_length; exact Hge). rewrite be_bits_length.
    cbn [length] in Hj. rewrite IH by lia.
    replace (j / 8) with (S ((j - 8) / 8)) by lia.
    replace ((j - 8) mod 8) with (j mod 8) by lia. reflexivity.
Qed.
