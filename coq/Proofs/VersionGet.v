(* C05: Version::get returns the smallest version whose ISO capacity holds the input, for EVERY length.
   Finite part: the 12 x 40 arms are contiguous from 0, arm k maps to version k, its upper end fits version k and
   its lower end fits no smaller version, and one past the last arm fits no version (kernel computation).
   Generic part: the bit need is monotone in the length. *)
From Coq Require Import NArith List Bool Arith Lia ZArith.
From Coq Require Import ZifyBool ZifyNat ZifyN.
From FQ Require Import Lib.ListX Generated.Tables Model.Types Model.Hardcode Spec.IsoTable9 Spec.Iso Proofs.Tables.
Import ListNotations.
Ltac Zify.zify_post_hook ::= Z.div_mod_to_equations.

(* ---- monotonicity of the need in the length ---- *)
Lemma payload_len_mono m a b : (a <= b)%N -> (iso_payload_len m a <= iso_payload_len m b)%N.
Proof.
  intros H. destruct m as [|[|m]]; unfold iso_payload_len.
  - destruct (N.eqb_spec (a mod 3) 0), (N.eqb_spec (a mod 3) 1), (N.eqb_spec (b mod 3) 0), (N.eqb_spec (b mod 3) 1); lia.
  - lia.
  - lia.
Qed.

Lemma fits_antitone m l v a b : (a <= b)%N -> iso_fits m l b v = true -> iso_fits m l a v = true.
Proof.
  unfold iso_fits, iso_need. intros H F. pose proof (payload_len_mono m a b H). lia.
Qed.
Lemma nofit_monotone m l v a b : (a <= b)%N -> iso_fits m l a v = false -> iso_fits m l b v = false.
Proof.
  intros H F. destruct (iso_fits m l b v) eqn:E; auto. rewrite (fits_antitone m l v a b H E) in F. discriminate.
Qed.

(* ---- the arm checker ---- *)
Fixpoint arms_check (m l : nat) (arms : list (N * N * N)) (k : nat) (lo : N) : bool :=
  match arms with
  | [] => (k =? 40) && forallb (fun j => negb (iso_fits m l lo j)) (seq 0 40)
  | (lo', hi, v) :: t =>
      (lo' =? lo)%N && (N.to_nat v =? k) && (lo <=? hi)%N && iso_fits m l hi k
      && forallb (fun j => negb (iso_fits m l lo j)) (seq 0 k)
      && arms_check m l t (S k) (hi + 1)
  end.

Lemma find_seq_first (f : nat -> bool) k n : k < n -> f k = true -> (forall j, j < k -> f j = false) ->
  find f (seq 0 n) = Some k.
Proof.
  intros Hk Hf Hlt.
  assert (G : forall s len, s <= k -> k < s + len -> find f (seq s len) = Some k).
  { intros s len; revert s; induction len as [|len IH]; intros s Hs Hl; [lia|].
    cbn [seq find]. destruct (Nat.eq_dec s k) as [->|Hne]; [now rewrite Hf|].
    rewrite Hlt by lia. apply IH; lia. }
  apply G; lia.
Qed.
Lemma find_seq_none (f : nat -> bool) n : (forall j, j < n -> f j = false) -> find f (seq 0 n) = None.
Proof.
  intros H. assert (G : forall s len, s + len <= n -> find f (seq s len) = None).
  { intros s len; revert s; induction len as [|len IH]; intros s Hs; [reflexivity|].
    cbn [seq find]. rewrite H by lia. apply IH; lia. }
  apply G; lia.
Qed.

Definition arm_version (o : option (N * N * N)) : option nat :=
  match o with Some (_, _, v) => Some (N.to_nat v) | None => None end.

Lemma arms_check_sound m l : forall arms k lo,
  arms_check m l arms k lo = true -> k + length arms = 40 ->
  forall n, (lo <= n)%N -> arm_version (find (arm_matches n) arms) = iso_min_version m l n.
Proof.
  induction arms as [|[[lo' hi] v] t IH]; intros k lo C Hlen n Hn; cbn [arms_check] in C.
  - apply andb_prop in C as [Ck Cn]. apply Nat.eqb_eq in Ck. cbn [find arm_version].
    unfold iso_min_version. symmetry. apply find_seq_none. intros j Hj.
    rewrite forallb_forall in Cn. specialize (Cn j). rewrite in_seq in Cn.
    apply (nofit_monotone m l j lo n Hn). apply negb_true_iff, Cn. lia.
  - repeat (apply andb_prop in C as [C ?]).
    match goal with H : arms_check _ _ t _ _ = true |- _ => rename H into Crec end.
    match goal with H : forallb _ (seq 0 k) = true |- _ => rename H into Cno end.
    match goal with H : iso_fits m l hi k = true |- _ => rename H into Cfit end.
    match goal with H : (lo <=? hi)%N = true |- _ => rename H into Clh end.
    match goal with H : (N.to_nat v =? k) = true |- _ => rename H into Cv end.
    apply N.eqb_eq in C. subst lo'. apply Nat.eqb_eq in Cv.
    cbn [find]. unfold arm_matches at 1. cbn [length] in Hlen.
    destruct (N.leb_spec n hi) as [Hle|Hgt].
    + assert ((lo <=? n)%N = true) as -> by lia. cbn [andb arm_version]. rewrite Cv.
      unfold iso_min_version. symmetry. apply find_seq_first; [lia | apply (fits_antitone m l k n hi Hle Cfit) |].
      intros j Hj. rewrite forallb_forall in Cno. specialize (Cno j). rewrite in_seq in Cno.
      apply (nofit_monotone m l j lo n Hn). apply negb_true_iff, Cno. lia.
    + rewrite andb_false_r. apply (IH (S k) (hi + 1)%N Crec); lia.
Qed.

Definition arms_ok (ml : nat * nat) : bool :=
  let arms := nth (fst ml * 4 + snd ml) version_get_arms [] in
  (length arms =? 40) && arms_check (fst ml) (snd ml) arms 0 0.
Definition find_bad_arms := filter (fun ml => negb (arms_ok ml)) (list_prod (seq 0 3) (seq 0 4)).
Lemma arms_check_all : forallb arms_ok (list_prod (seq 0 3) (seq 0 4)) = true.
Proof. vm_compute. reflexivity. Qed.

Theorem version_get_is_min m e n :
  version_get m e n = iso_min_version (mode_idx m) (ecl_idx e) n.
Proof.
  pose proof (forallb_In _ _ (mode_idx m, ecl_idx e) arms_check_all) as H.
  assert (Hin : In (mode_idx m, ecl_idx e) (list_prod (seq 0 3) (seq 0 4))).
  { apply in_prod; apply in_seq; [destruct m | destruct e]; cbn; lia. }
  specialize (H Hin). unfold arms_ok in H. cbn [fst snd] in H. apply andb_prop in H as [Hl Hc].
  apply Nat.eqb_eq in Hl.
  unfold version_get, version_get_arms_for.
  pose proof (arms_check_sound _ _ _ 0 0%N Hc ltac:(lia) n ltac:(lia)) as S.
  unfold arm_version in S. rewrite <- S.
  destruct (find (arm_matches n) _) as [[[a b] c]|]; reflexivity.
Qed.

(* ---- a forced larger version still fits; the count fits its field ---- *)
Definition upward_ok (ml : nat * nat) : bool :=
  let '(m, l) := ml in
  let arms := nth (m * 4 + l) version_get_arms [] in
  forallb (fun a : N * N * N =>
    let '(_, hi, v) := a in
    forallb (fun v' => iso_fits m l hi v') (seq (N.to_nat v) (40 - N.to_nat v))
    && forallb (fun v' => (hi <? 2 ^ N.of_nat (iso_cci m v'))%N) (seq (N.to_nat v) (40 - N.to_nat v))) arms.
Lemma upward_check_all : forallb upward_ok (list_prod (seq 0 3) (seq 0 4)) = true.
Proof. vm_compute. reflexivity. Qed.

Lemma min_version_spec m l n v : iso_min_version m l n = Some v ->
  v < 40 /\ iso_fits m l n v = true /\ forall j, j < v -> iso_fits m l n j = false.
Proof.
  unfold iso_min_version. intros H.
  assert (G : forall s len, find (iso_fits m l n) (seq s len) = Some v ->
              s <= v < s + len /\ iso_fits m l n v = true /\ forall j, s <= j < v -> iso_fits m l n j = false).
  { intros s len; revert s; induction len as [|len IH]; intros s F; cbn [seq find] in F; [discriminate|].
    destruct (iso_fits m l n s) eqn:E.
    - inversion F; subst. repeat split; auto; lia.
    - destruct (IH (S s) F) as (A & B & C). repeat split; auto; try lia.
      intros j Hj. destruct (Nat.eq_dec j s) as [->|]; auto. apply C; lia. }
  destruct (G 0 40 H) as (A & B & C). repeat split; auto; try lia. intros j Hj; apply C; lia.
Qed.

(* the upper end of arm v, as a function *)
Definition arm_hi (m l v : nat) : N :=
  match nth v (nth (m * 4 + l) version_get_arms []) (0, 0, 0)%N with (_, hi, _) => hi end.

Theorem forced_version_fits m e n v v' :
  version_get m e n = Some v -> v <= v' < 40 ->
  iso_fits (mode_idx m) (ecl_idx e) n v' = true /\ (n < 2 ^ N.of_nat (iso_cci (mode_idx m) v'))%N.
Proof.
  intros G Hv.
  (* n lies in the arm of v: n <= hi_v *)
  unfold version_get in G.
  destruct (find (arm_matches n) (version_get_arms_for m e)) as [[[lo hi] w]|] eqn:F; [|discriminate].
  inversion G; subst v. apply find_some in F as [Hin Hm].
  unfold arm_matches in Hm. apply andb_prop in Hm as [_ Hle]. apply N.leb_le in Hle.
  pose proof (forallb_In _ _ (mode_idx m, ecl_idx e) upward_check_all) as U.
  assert (Hin2 : In (mode_idx m, ecl_idx e) (list_prod (seq 0 3) (seq 0 4))).
  { apply in_prod; apply in_seq; [destruct m | destruct e]; cbn; lia. }
  specialize (U Hin2). unfold upward_ok in U. unfold version_get_arms_for in Hin.
  rewrite forallb_forall in U. specialize (U _ Hin). cbn beta iota in U.
  apply andb_prop in U as [U1 U2]. rewrite forallb_forall in U1, U2.
  assert (Hs : In v' (seq (N.to_nat w) (40 - N.to_nat w))) by (apply in_seq; lia).
  split.
  - apply (fits_antitone _ _ _ n hi Hle). apply U1, Hs.
  - specialize (U2 _ Hs). apply N.ltb_lt in U2. lia.
Qed.
