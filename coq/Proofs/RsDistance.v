(* Minimum distance of the Reed-Solomon codes in use (the recovery corollary of property C02).

   A word of length n <= 255 over GF(2^8) whose k syndromes S_j = w(alpha^j), j < k, all vanish is a codeword of the RS code
   with generator prod_{i<k} (x - alpha^i).  Two distinct codewords differ in MORE than k positions (minimum distance k + 1),
   hence a received word has at most one codeword within Hamming distance k / 2.

   Main results (generic in k and in the word length; no computation over k or n)
     sparse_zero               Vandermonde elimination: a list of t pairs (c_i, x_i), bytes, pairwise distinct x_i, with
                               xor-sum_i c_i * x_i^j = 0 for all j < k, t <= k, has all c_i = 0
     poly_eval_ssum            w(alpha^j) = xor-sum_i w_i * (alpha^(n-1-i))^j
     gf_pow2_inj               alpha^i = alpha^j, i, j < 255  ->  i = j   (from the 255-case table sweeps of GfField.v)
     low_weight_codeword_zero  a word of weight <= k with k zero syndromes, length <= 255, is the zero word
     rs_min_distance           the target theorem
     hamming_sym, hamming_triangle
     unique_nearest_codeword   the corollary (stated with k / 2); rs_corrects_errors the same with 2 t <= k
     rs_block_unique           two encoded blocks  data ++ EC(data)  (total length <= 255) at distance <= k carry the same data
   The only new computation is a 256-case sweep (xtime a = a * 2).  No axioms. *)
From Coq Require Import NArith List Bool Arith Lia.
From FQ Require Import Lib.ListX Generated.Tables Spec.Gf Proofs.GfField Proofs.Division Proofs.Syndromes.
Import ListNotations.
Local Open Scope N_scope.

(* ------------------------------------------------------------------ Hamming distance and weight *)
(* number of positions where the two words differ (positions beyond the shorter word are ignored; all uses have equal lengths) *)
Fixpoint hamming (a b : list N) : nat :=
  match a, b with
  | x :: a', y :: b' => ((if N.eqb x y then 0 else 1) + hamming a' b')%nat
  | _, _ => 0%nat
  end.
(* number of non-zero entries *)
Fixpoint weight (e : list N) : nat :=
  match e with
  | [] => 0%nat
  | x :: e' => ((if N.eqb x 0 then 0 else 1) + weight e')%nat
  end.

Lemma hamming_cons x y a b : hamming (x :: a) (y :: b) = ((if N.eqb x y then 0 else 1) + hamming a b)%nat.
Proof. reflexivity. Qed.
Lemma weight_cons x e : weight (x :: e) = ((if N.eqb x 0 then 0 else 1) + weight e)%nat.
Proof. reflexivity. Qed.

Lemma lxor_eqb_0 x y : (N.lxor x y =? 0) = (x =? y).
Proof.
  destruct (N.eqb_spec x y) as [E|E].
  - subst y. rewrite N.lxor_nilpotent. reflexivity.
  - apply N.eqb_neq. intros H. apply N.lxor_eq in H. contradiction.
Qed.

Lemma hamming_weight : forall a b, hamming a b = weight (xorl a b).
Proof.
  induction a as [|x a IH]; intros [|y b]; try reflexivity.
  cbn [xorl]. rewrite hamming_cons, weight_cons, lxor_eqb_0, IH. reflexivity.
Qed.

Lemma hamming_sym : forall a b, hamming a b = hamming b a.
Proof.
  induction a as [|x a IH]; intros [|y b]; try reflexivity.
  rewrite !hamming_cons, IH, (N.eqb_sym x y). reflexivity.
Qed.

Lemma hamming_self a : hamming a a = 0%nat.
Proof. induction a as [|x a IH]; [reflexivity|]. rewrite hamming_cons, N.eqb_refl, IH. reflexivity. Qed.

Lemma hamming_triangle : forall a b c, length a = length b -> length b = length c ->
  (hamming a c <= hamming a b + hamming b c)%nat.
Proof.
  induction a as [|x a IH]; intros [|y b] [|z c] H1 H2; cbn [length] in H1, H2; try discriminate; [cbn [hamming]; lia|].
  rewrite !hamming_cons. pose proof (IH b c ltac:(lia) ltac:(lia)) as T.
  destruct (N.eqb_spec x z) as [Exz|Exz], (N.eqb_spec x y) as [Exy|Exy], (N.eqb_spec y z) as [Eyz|Eyz]; lia.
Qed.

Lemma hamming_0_eq : forall a b, length a = length b -> hamming a b = 0%nat -> a = b.
Proof.
  induction a as [|x a IH]; intros [|y b] HL H; cbn [length] in HL; try discriminate; [reflexivity|].
  rewrite hamming_cons in H. destruct (N.eqb_spec x y) as [E|E]; [|lia].
  subst y. f_equal. apply IH; lia.
Qed.

(* ------------------------------------------------------------------ powers in GF(2^8) *)
Lemma gpow_0 x : gpow x 0 = 1.
Proof. reflexivity. Qed.

Lemma gpow_add x a b : x < 256 -> gpow x (a + b) = gf_mul (gpow x a) (gpow x b).
Proof.
  intros Hx. induction b as [|b IH].
  - rewrite Nat.add_0_r, gpow_0, gf_mul_1_r. reflexivity.
  - rewrite Nat.add_succ_r, !gpow_S, IH. apply gf_mul_assoc; auto using gpow_lt_256.
Qed.

Lemma gpow_mul x a b : x < 256 -> gpow (gpow x a) b = gpow x (a * b).
Proof.
  intros Hx. induction b as [|b IH].
  - rewrite Nat.mul_0_r. reflexivity.
  - rewrite gpow_S, IH, Nat.mul_succ_r, gpow_add by exact Hx. reflexivity.
Qed.

(* 256 cases *)
Lemma xtime_is_mul2_check : forallb (fun a => gf_mul a 2 =? xtime a) allbytes = true.
Proof. vm_compute. reflexivity. Qed.
Lemma xtime_is_mul2 a : a < 256 -> xtime a = gf_mul a 2.
Proof. intros H. symmetry. apply N.eqb_eq, (forallb_In' _ _ a xtime_is_mul2_check), in_allbytes, H. Qed.

Lemma gf_pow2_gpow k : gf_pow2 k = gpow 2 k.
Proof.
  induction k as [|k IH]; [reflexivity|].
  rewrite gf_pow2_S, gpow_S, <- IH. apply xtime_is_mul2, gf_pow2_lt_256.
Qed.

(* (alpha^j)^p = (alpha^p)^j *)
Lemma gpow_gf_pow2_swap j p : gpow (gf_pow2 j) p = gpow (gf_pow2 p) j.
Proof.
  rewrite !gf_pow2_gpow, !gpow_mul by reflexivity. f_equal. apply Nat.mul_comm.
Qed.

(* alpha has order 255: alpha^0 .. alpha^254 are pairwise distinct (via the LOG / ANTILOG table sweeps, 255 cases each) *)
Theorem gf_pow2_inj i j : (i < 255)%nat -> (j < 255)%nat -> gf_pow2 i = gf_pow2 j -> i = j.
Proof.
  intros Hi Hj E. rewrite <- !LOG_is_pow2 in E by assumption.
  destruct (ANTILOG_LOG (N.of_nat i) ltac:(lia)) as [Ai _].
  destruct (ANTILOG_LOG (N.of_nat j) ltac:(lia)) as [Aj _].
  rewrite E, Aj in Ai. lia.
Qed.

(* ------------------------------------------------------------------ sparse sums  Sum_i c_i * x_i^j *)
Definition term := (N * N)%type.                       (* (coefficient c, locator x) *)
Definition wf_terms (ts : list term) : Prop := Forall (fun t => fst t < 256 /\ snd t < 256) ts.

Fixpoint ssum (ts : list term) (j : nat) : N :=
  match ts with
  | [] => 0
  | t :: ts' => N.lxor (gf_mul (fst t) (gpow (snd t) j)) (ssum ts' j)
  end.

Lemma ssum_cons t ts j : ssum (t :: ts) j = N.lxor (gf_mul (fst t) (gpow (snd t) j)) (ssum ts j).
Proof. reflexivity. Qed.

Lemma ssum_lt_256 ts j : wf_terms ts -> ssum ts j < 256.
Proof.
  intros H. induction H as [|t ts [Hc Hx] H IH]; [reflexivity|].
  rewrite ssum_cons. apply lxor_lt_256; auto. apply gf_mul_lt_256; auto using gpow_lt_256.
Qed.

Lemma ssum_all_zero ts j : Forall (fun t => fst t = 0) ts -> ssum ts j = 0.
Proof.
  intros H. induction H as [|t ts Ht H IH]; [reflexivity|].
  rewrite ssum_cons, Ht, gf_mul_0_l, IH. reflexivity.
Qed.

(* one elimination step: multiply every coefficient by (x_i + x0) *)
Definition elim (x0 : N) (ts : list term) : list term :=
  map (fun t => (gf_mul (fst t) (N.lxor (snd t) x0), snd t)) ts.

Lemma elim_cons x0 t ts : elim x0 (t :: ts) = (gf_mul (fst t) (N.lxor (snd t) x0), snd t) :: elim x0 ts.
Proof. reflexivity. Qed.
Lemma elim_length x0 ts : length (elim x0 ts) = length ts.
Proof. apply map_length. Qed.
Lemma elim_snd x0 ts : map snd (elim x0 ts) = map snd ts.
Proof. unfold elim. rewrite map_map. reflexivity. Qed.
Lemma elim_wf x0 ts : x0 < 256 -> wf_terms ts -> wf_terms (elim x0 ts).
Proof.
  intros Hx H. induction H as [|t ts [Hc Ht] H IH]; [constructor|].
  rewrite elim_cons. constructor; [|exact IH]. cbn [fst snd]. split; [|exact Ht].
  apply gf_mul_lt_256; auto using lxor_lt_256.
Qed.

(* Sum_i c_i (x_i + x0) x_i^j  =  S_{j+1} + x0 * S_j *)
Lemma ssum_elim x0 ts j : x0 < 256 -> wf_terms ts ->
  ssum (elim x0 ts) j = N.lxor (ssum ts (S j)) (gf_mul x0 (ssum ts j)).
Proof.
  intros Hx H. induction H as [|t ts [Hc Ht] H IH].
  - cbn [elim map ssum]. rewrite gf_mul_0_r. reflexivity.
  - rewrite elim_cons, !ssum_cons, IH. cbn [fst snd].
    destruct t as [c x]. cbn [fst snd] in *.
    pose proof (gpow_lt_256 x j Ht) as HP. set (P := gpow x j) in *.
    rewrite (gf_mul_lxor_r x0 (gf_mul c P)), lxor_4. f_equal.
    rewrite gpow_S. fold P.
    rewrite gf_mul_assoc by auto using lxor_lt_256.
    rewrite gf_mul_lxor_l, gf_mul_lxor_r.
    rewrite (gf_mul_comm P x) by auto. f_equal.
    rewrite <- !gf_mul_assoc by auto. f_equal. apply gf_mul_comm; auto.
Qed.

(* Vandermonde elimination *)
Lemma sparse_zero_n : forall (n : nat) (ts : list term) (k : nat), length ts = n ->
  wf_terms ts -> NoDup (map snd ts) -> (length ts <= k)%nat ->
  (forall j, (j < k)%nat -> ssum ts j = 0) ->
  Forall (fun t => fst t = 0) ts.
Proof.
  induction n as [|n IH]; intros ts k Hn Hwf Hnd Hlen Hsum.
  - destruct ts; [constructor | discriminate].
  - destruct ts as [|[c0 x0] rest]; [discriminate|].
    cbn [length] in Hn, Hlen. destruct k as [|k']; [lia|].
    inversion Hwf as [|t0 ts0 [Hc0 Hx0] Hwr]; subst t0 ts0. cbn [fst snd] in Hc0, Hx0.
    cbn [map snd] in Hnd. apply NoDup_cons_iff in Hnd as [Hnin Hndr].
    (* the reduced system has the same shape *)
    assert (Hred : Forall (fun t => fst t = 0) (elim x0 rest)).
    { apply (IH (elim x0 rest) k').
      - rewrite elim_length. lia.
      - now apply elim_wf.
      - now rewrite elim_snd.
      - rewrite elim_length. lia.
      - intros j Hj.
        pose proof (Hsum j ltac:(lia)) as E0. pose proof (Hsum (S j) ltac:(lia)) as E1.
        rewrite ssum_cons in E0, E1. cbn [fst snd] in E0, E1.
        rewrite ssum_elim by auto.
        (* S_rest(j+1) = c0 x0^(j+1),  S_rest(j) = c0 x0^j *)
        apply N.lxor_eq in E0. apply N.lxor_eq in E1. rewrite <- E0, <- E1.
        rewrite gpow_S.
        pose proof (gpow_lt_256 x0 j Hx0) as HP.
        rewrite <- gf_mul_assoc by auto.
        rewrite (gf_mul_comm x0) by auto using gf_mul_lt_256.
        apply N.lxor_nilpotent. }
    (* so every c_i (x_i + x0) = 0, hence c_i = 0 *)
    assert (Hrest : Forall (fun t => fst t = 0) rest).
    { apply Forall_forall. intros [c x] Hin. cbn [fst].
      rewrite Forall_forall in Hred.
      pose proof (Hred (gf_mul c (N.lxor x x0), x)) as Hz. cbn [fst] in Hz.
      assert (Hin' : In (gf_mul c (N.lxor x x0), x) (elim x0 rest)).
      { unfold elim. apply in_map_iff. exists (c, x). split; [reflexivity | exact Hin]. }
      specialize (Hz Hin').
      unfold wf_terms in Hwr. rewrite Forall_forall in Hwr. destruct (Hwr _ Hin) as [Hc Hx]. cbn [fst snd] in Hc, Hx.
      apply gf_mul_nonzero in Hz; auto using lxor_lt_256.
      destruct Hz as [Hz|Hz]; [exact Hz|].
      apply N.lxor_eq in Hz. subst x. exfalso. apply Hnin.
      apply in_map_iff. exists (c, x0). split; [reflexivity | exact Hin]. }
    constructor; [|exact Hrest]. cbn [fst].
    pose proof (Hsum 0%nat ltac:(lia)) as E0. rewrite ssum_cons in E0. cbn [fst snd] in E0.
    rewrite (ssum_all_zero rest 0 Hrest), N.lxor_0_r, gpow_0, gf_mul_1_r in E0. exact E0.
Qed.

Theorem sparse_zero (ts : list term) (k : nat) :
  wf_terms ts -> NoDup (map snd ts) -> (length ts <= k)%nat ->
  (forall j, (j < k)%nat -> ssum ts j = 0) ->
  Forall (fun t => fst t = 0) ts.
Proof. apply (sparse_zero_n (length ts)). reflexivity. Qed.

(* dropping the terms with a zero coefficient does not change the sums *)
Definition nzf (ts : list term) : list term := filter (fun t => negb (fst t =? 0)) ts.

Lemma ssum_nzf ts j : ssum (nzf ts) j = ssum ts j.
Proof.
  induction ts as [|t ts IH]; [reflexivity|].
  unfold nzf in *. cbn [filter]. destruct (N.eqb_spec (fst t) 0) as [E|E]; cbn [negb].
  - rewrite ssum_cons, E, gf_mul_0_l, N.lxor_0_l. exact IH.
  - rewrite !ssum_cons, IH. reflexivity.
Qed.
Lemma nzf_wf ts : wf_terms ts -> wf_terms (nzf ts).
Proof.
  unfold wf_terms, nzf. rewrite !Forall_forall. intros H t Ht. apply filter_In in Ht as [Ht _]. auto.
Qed.
Lemma nzf_NoDup ts : NoDup (map snd ts) -> NoDup (map snd (nzf ts)).
Proof.
  induction ts as [|t ts IH]; intros H; [constructor|].
  cbn [map] in H. apply NoDup_cons_iff in H as [Hn Hd].
  unfold nzf in *. cbn [filter]. destruct (negb (fst t =? 0)); [|auto].
  cbn [map]. constructor; [|auto].
  intros Hin. apply Hn. apply in_map_iff in Hin as [u [Eu Hu]]. apply filter_In in Hu as [Hu _].
  apply in_map_iff. exists u. auto.
Qed.
Lemma nzf_all_zero ts : Forall (fun t => fst t = 0) (nzf ts) -> Forall (fun t => fst t = 0) ts.
Proof.
  rewrite !Forall_forall. intros H t Ht. destruct (N.eqb_spec (fst t) 0) as [E|E]; [exact E|].
  apply H. unfold nzf. apply filter_In. split; [exact Ht|]. apply negb_true_iff, N.eqb_neq, E.
Qed.

(* ------------------------------------------------------------------ a word as a sparse sum *)
(* position i of a word of length n carries locator alpha^(n-1-i) *)
Fixpoint terms (w : list N) : list term :=
  match w with
  | [] => []
  | c :: w' => (c, gf_pow2 (length w')) :: terms w'
  end.

Lemma terms_cons c w : terms (c :: w) = (c, gf_pow2 (length w)) :: terms w.
Proof. reflexivity. Qed.
Lemma terms_fst w : map fst (terms w) = w.
Proof. induction w as [|c w IH]; [reflexivity|]. rewrite terms_cons. cbn [map fst]. now rewrite IH. Qed.
Lemma terms_wf w : bytes w -> wf_terms (terms w).
Proof.
  intros H. induction H as [|c w Hc H IH]; [constructor|].
  rewrite terms_cons. constructor; [|exact IH]. cbn [fst snd]. split; [exact Hc | apply gf_pow2_lt_256].
Qed.
Lemma terms_nzf_length w : length (nzf (terms w)) = weight w.
Proof.
  induction w as [|c w IH]; [reflexivity|].
  rewrite terms_cons, weight_cons. unfold nzf in *. cbn [filter fst].
  destruct (c =? 0); cbn [negb length]; rewrite IH; reflexivity.
Qed.
Lemma terms_snd_in w x : In x (map snd (terms w)) -> exists m, (m < length w)%nat /\ x = gf_pow2 m.
Proof.
  induction w as [|c w IH]; intros H; [destruct H|].
  rewrite terms_cons in H. cbn [map snd length] in *. destruct H as [H|H].
  - exists (length w). split; [lia | now symmetry].
  - destruct (IH H) as [m [Hm E]]. exists m. split; [lia | exact E].
Qed.
Lemma terms_NoDup w : (length w <= 255)%nat -> NoDup (map snd (terms w)).
Proof.
  induction w as [|c w IH]; intros H; [constructor|].
  cbn [length] in H. rewrite terms_cons. cbn [map snd]. constructor; [|apply IH; lia].
  intros Hin. apply terms_snd_in in Hin as [m [Hm E]].
  apply gf_pow2_inj in E; lia.
Qed.

(* w(alpha^j) = Sum_i w_i (alpha^(n-1-i))^j *)
Theorem poly_eval_ssum w j : bytes w -> poly_eval w (gf_pow2 j) = ssum (terms w) j.
Proof.
  intros H. induction H as [|c w Hc H IH]; [reflexivity|].
  rewrite terms_cons, ssum_cons, <- IH. cbn [fst snd].
  rewrite poly_eval_cons, horner_acc by (auto; apply gf_pow2_lt_256).
  rewrite gpow_gf_pow2_swap. reflexivity.
Qed.

Lemma nth_repeat_lt {A} (a d : A) : forall k j, (j < k)%nat -> nth j (repeat a k) d = a.
Proof.
  induction k as [|k IH]; intros j Hj; [lia|].
  destruct j as [|j]; [reflexivity|]. cbn [repeat nth]. apply IH. lia.
Qed.

Lemma syndromes_zero w k : syndromes w k = repeat 0 k ->
  forall j, (j < k)%nat -> poly_eval w (gf_pow2 j) = 0.
Proof.
  intros H j Hj. unfold syndromes in H.
  assert (E : nth j (map (fun i => poly_eval w (gf_pow2 i)) (seq 0 k)) (poly_eval w (gf_pow2 0)) = 0).
  { rewrite H. now apply nth_repeat_lt. }
  rewrite (map_nth (fun i => poly_eval w (gf_pow2 i))), seq_nth in E by exact Hj. exact E.
Qed.

(* ------------------------------------------------------------------ minimum distance *)
Lemma all_zero_word w : Forall (fun t => fst t = 0) (terms w) -> w = zeros (length w).
Proof.
  induction w as [|c w IH]; intros H; [reflexivity|].
  rewrite terms_cons in H. inversion H as [|t ts Hc Hr]; subst t ts. cbn [fst] in Hc.
  cbn [length]. rewrite zeros_S, <- IH by exact Hr. now subst c.
Qed.

(* a non-zero codeword of the RS code with k check symbols (length <= 255) has weight > k *)
Theorem low_weight_codeword_zero k e :
  bytes e -> (length e <= 255)%nat -> syndromes e k = repeat 0 k -> (weight e <= k)%nat ->
  e = zeros (length e).
Proof.
  intros Hb Hl Hs Hw. apply all_zero_word, nzf_all_zero.
  apply (sparse_zero (nzf (terms e)) k).
  - now apply nzf_wf, terms_wf.
  - now apply nzf_NoDup, terms_NoDup.
  - now rewrite terms_nzf_length.
  - intros j Hj. rewrite ssum_nzf, <- poly_eval_ssum by exact Hb. now apply (syndromes_zero e k).
Qed.

Lemma xorl_zero_eq : forall a b, length a = length b -> xorl a b = zeros (length a) -> a = b.
Proof.
  induction a as [|x a IH]; intros [|y b] HL H; cbn [length] in HL; try discriminate; [reflexivity|].
  cbn [xorl length] in H. rewrite zeros_S in H. injection H as Hx Hr.
  apply N.lxor_eq in Hx. subst y. f_equal. apply IH; [lia | exact Hr].
Qed.

Lemma syndromes_xorl w1 w2 k : length w1 = length w2 ->
  syndromes w1 k = repeat 0 k -> syndromes w2 k = repeat 0 k -> syndromes (xorl w1 w2) k = repeat 0 k.
Proof.
  intros HL H1 H2. unfold syndromes. rewrite <- (seq_length k 0) at 2. rewrite <- map_const_repeat.
  apply map_ext_in. intros j Hj. apply in_seq in Hj.
  rewrite poly_eval_xorl by exact HL.
  rewrite (syndromes_zero w1 k H1 j), (syndromes_zero w2 k H2 j) by lia. reflexivity.
Qed.

(* two codewords at Hamming distance <= k coincide: the minimum distance is k + 1 *)
Theorem rs_min_distance : forall k (w1 w2 : list N),
  bytes w1 -> bytes w2 -> length w1 = length w2 -> (length w1 <= 255)%nat ->
  syndromes w1 k = repeat 0%N k -> syndromes w2 k = repeat 0%N k ->
  (hamming w1 w2 <= k)%nat -> w1 = w2.
Proof.
  intros k w1 w2 B1 B2 HL Hn S1 S2 Hd.
  assert (Le : length (xorl w1 w2) = length w1) by (rewrite xorl_length; lia).
  apply xorl_zero_eq; [exact HL|]. rewrite <- Le.
  apply (low_weight_codeword_zero k).
  - now apply xorl_bytes.
  - lia.
  - now apply syndromes_xorl.
  - now rewrite <- hamming_weight.
Qed.

(* a received word w (any content) has at most one codeword within distance k / 2 *)
Corollary unique_nearest_codeword : forall k (c w c' : list N),
  bytes c -> bytes c' -> length w = length c -> length w = length c' -> (length w <= 255)%nat ->
  syndromes c k = repeat 0%N k -> syndromes c' k = repeat 0%N k ->
  (hamming w c <= k / 2)%nat -> (hamming w c' <= k / 2)%nat -> c = c'.
Proof.
  intros k c w c' Bc Bc' L1 L2 Hn Sc Sc' D1 D2.
  apply (rs_min_distance k); auto; try lia.
  pose proof (hamming_triangle c w c' ltac:(lia) ltac:(lia)) as T.
  rewrite (hamming_sym c w) in T.
  pose proof (Nat.div_mod k 2 ltac:(lia)) as DM.
  pose proof (Nat.mod_upper_bound k 2 ltac:(lia)). lia.
Qed.

(* the same with 2 t <= k errors, and the codeword actually sent: decoding to the nearest codeword recovers it *)
Corollary rs_corrects_errors : forall k t (sent recv other : list N),
  bytes sent -> bytes other -> length recv = length sent -> length recv = length other -> (length recv <= 255)%nat ->
  syndromes sent k = repeat 0%N k -> syndromes other k = repeat 0%N k ->
  (2 * t <= k)%nat -> (hamming recv sent <= t)%nat -> (hamming recv other <= t)%nat -> other = sent.
Proof.
  intros k t sent recv other Bs Bo L1 L2 Hn Ss So Ht D1 D2.
  apply (rs_min_distance k); auto; try lia.
  pose proof (hamming_triangle other recv sent ltac:(lia) ltac:(lia)) as T.
  rewrite (hamming_sym other recv) in T. lia.
Qed.

(* for the blocks the implementation produces *)
Corollary rs_block_unique k data data' : bytes data -> bytes data' -> length data = length data' ->
  (length data + k <= 255)%nat ->
  (hamming (data ++ poly_rem data (rs_generator k)) (data' ++ poly_rem data' (rs_generator k)) <= k)%nat ->
  data = data'.
Proof.
  intros Bd Bd' HL Hn Hd.
  destruct (rs_generator_shape k) as [t [E [Lt Bt]]].
  assert (Bg : bytes (rs_generator k)) by (rewrite E; constructor; [reflexivity | exact Bt]).
  assert (Lg : (1 <= length (rs_generator k))%nat) by (rewrite E; cbn [length]; lia).
  assert (Lr : forall d, length (poly_rem d (rs_generator k)) = k).
  { intros d. rewrite poly_rem_length by exact Lg. rewrite E. cbn [length]. lia. }
  assert (EQ : data ++ poly_rem data (rs_generator k) = data' ++ poly_rem data' (rs_generator k)).
  { apply (rs_min_distance k).
    - apply bytes_app; auto using poly_rem_bytes.
    - apply bytes_app; auto using poly_rem_bytes.
    - rewrite !app_length, !Lr. lia.
    - rewrite app_length, Lr. lia.
    - now apply rs_block_syndromes.
    - now apply rs_block_syndromes.
    - exact Hd. }
  apply (f_equal (firstn (length data))) in EQ.
  rewrite firstn_app, Nat.sub_diag, firstn_all, firstn_O, app_nil_r in EQ.
  rewrite HL, firstn_app, Nat.sub_diag, firstn_all, firstn_O, app_nil_r in EQ. exact EQ.
Qed.

Print Assumptions rs_min_distance.
Print Assumptions unique_nearest_codeword.
Print Assumptions sparse_zero.
Print Assumptions rs_block_unique.
