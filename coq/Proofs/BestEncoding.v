(* C09: the automatic mode chosen by best_encoding is the most compact ISO/IEC 18004 mode that can
   represent the input: Numeric iff every character is a digit (including the empty input), Alphanumeric
   iff every character is in the 45-character set of Table 5 and not all are digits, Byte otherwise.

   Byte-level table facts are established by kernel computation over the finite domain c < 256 (all
   byte values) and, separately, by a structural argument for c >= 256 (every table bound is < 256), so
   the main theorems hold for arbitrary N lists; the versions carrying the hypothesis
   `Forall (fun c => c < 256) input` (the shape asked for) are corollaries. *)
From Coq Require Import NArith List Bool Arith Lia.
From FQ Require Import Lib.ListX Generated.Tables Model.Types Model.Encode Spec.Iso Spec.Oracles.
Import ListNotations.
Local Open Scope N_scope.

Arguments N.add : simpl never.
Arguments N.sub : simpl never.
Arguments N.mul : simpl never.
Arguments N.eqb : simpl never.
Arguments N.ltb : simpl never.
Arguments N.leb : simpl never.
Arguments N.div : simpl never.
Arguments N.modulo : simpl never.

(* ------------------------------------------------------------------------------------------------ *)
(* The finite domain: all 256 byte values                                                            *)

Definition all_bytes : list N := map N.of_nat (seq 0 256).

Lemma in_all_bytes c : c < 256 -> In c all_bytes.
Proof.
  intros H. unfold all_bytes. apply in_map_iff. exists (N.to_nat c). split.
  - apply N2Nat.id.
  - apply in_seq. lia.
Qed.

Definition opt_N_eqb (a b : option N) : bool :=
  match a, b with
  | Some x, Some y => N.eqb x y
  | None, None => true
  | _, _ => false
  end.

Lemma opt_N_eqb_eq a b : opt_N_eqb a b = true -> a = b.
Proof.
  destruct a as [x|], b as [y|]; cbn; try discriminate; auto.
  intros H. apply N.eqb_eq in H. now subst.
Qed.

Definition byte_facts (c : N) : bool :=
  Bool.eqb (is_qr_alphanumeric c) (iso_is_alnum c)
  && Bool.eqb (is_ascii_digit c) (iso_is_digit c)
  && opt_N_eqb (ascii_to_alphanumeric c) (option_map N.of_nat (iso_alnum_value c))
  && implb (iso_is_digit c) (iso_is_alnum c).

(* kernel computation over the 256 byte values *)
Lemma byte_facts_all : forallb byte_facts all_bytes = true.
Proof. vm_compute. reflexivity. Qed.

Lemma byte_facts_lt c : c < 256 -> byte_facts c = true.
Proof.
  intros H. pose proof byte_facts_all as HA. rewrite forallb_forall in HA.
  apply HA, in_all_bytes, H.
Qed.

(* ------------------------------------------------------------------------------------------------ *)
(* c >= 256: every table entry is a byte, so nothing matches                                         *)

Lemma existsb_in_range_high c (rs : list (N * N)) :
  Forall (fun r => snd r < 256) rs -> 256 <= c -> existsb (in_range c) rs = false.
Proof.
  intros HF Hc. induction HF as [|r rs Hr HF IH]; cbn [existsb]; auto.
  rewrite IH, orb_false_r. unfold in_range.
  apply andb_false_iff. right. apply N.leb_gt. lia.
Qed.

Lemma find_arm_high c (arms : list (N * N * N * N)) :
  Forall (fun a => snd (fst (fst a)) < 256) arms -> 256 <= c -> find (alnum_arm_matches c) arms = None.
Proof.
  intros HF Hc. induction HF as [|a arms Ha HF IH]; cbn [find]; auto.
  destruct a as [[[lo hi] sub] add]. cbn [fst snd] in Ha.
  replace (alnum_arm_matches c (lo, hi, sub, add)) with false; auto.
  symmetry. unfold alnum_arm_matches. apply andb_false_iff. right. apply N.leb_gt. lia.
Qed.

Lemma find_index_eqb_high c (l : list N) :
  Forall (fun k => k < 256) l -> 256 <= c -> find_index (N.eqb c) l = None.
Proof.
  intros HF Hc. induction HF as [|k l Hk HF IH]; cbn [find_index]; auto.
  replace (c =? k) with false; [now rewrite IH|].
  symmetry. apply N.eqb_neq. lia.
Qed.

Lemma Forall_of_forallb {A} (p : A -> bool) (P : A -> Prop) (l : list A) :
  (forall x, p x = true -> P x) -> forallb p l = true -> Forall P l.
Proof.
  intros H HA. apply Forall_forall. intros x Hx. rewrite forallb_forall in HA. auto.
Qed.

Lemma is_alnum_ranges_bytes : Forall (fun r : N * N => snd r < 256) is_alnum_ranges.
Proof.
  apply Forall_of_forallb with (p := fun r => snd r <? 256).
  - intros x Hx. now apply N.ltb_lt.
  - vm_compute. reflexivity.
Qed.

Lemma alnum_arms_bytes : Forall (fun a : N * N * N * N => snd (fst (fst a)) < 256) alnum_arms.
Proof.
  apply Forall_of_forallb with (p := fun a => snd (fst (fst a)) <? 256).
  - intros x Hx. now apply N.ltb_lt.
  - vm_compute. reflexivity.
Qed.

Lemma iso_alnum_chars_bytes : Forall (fun k => k < 256) iso_alnum_chars.
Proof.
  apply Forall_of_forallb with (p := fun k => k <? 256).
  - intros x Hx. now apply N.ltb_lt.
  - vm_compute. reflexivity.
Qed.

Lemma is_qr_alphanumeric_high c : 256 <= c -> is_qr_alphanumeric c = false.
Proof. intros H. unfold is_qr_alphanumeric. apply existsb_in_range_high; auto using is_alnum_ranges_bytes. Qed.

Lemma ascii_to_alphanumeric_high c : 256 <= c -> ascii_to_alphanumeric c = None.
Proof. intros H. unfold ascii_to_alphanumeric. rewrite find_arm_high; auto using alnum_arms_bytes. Qed.

Lemma iso_alnum_value_high c : 256 <= c -> iso_alnum_value c = None.
Proof. intros H. unfold iso_alnum_value. apply find_index_eqb_high; auto using iso_alnum_chars_bytes. Qed.

Lemma iso_is_alnum_high c : 256 <= c -> iso_is_alnum c = false.
Proof. intros H. unfold iso_is_alnum. now rewrite iso_alnum_value_high. Qed.

Lemma iso_is_digit_high c : 256 <= c -> iso_is_digit c = false.
Proof. intros H. unfold iso_is_digit. apply andb_false_iff. right. apply N.leb_gt. lia. Qed.

(* ------------------------------------------------------------------------------------------------ *)
(* Byte-level table facts, first with the bound c < 256 (pure computation), then for every c         *)

Lemma is_qr_alphanumeric_iso_byte c : c < 256 -> is_qr_alphanumeric c = iso_is_alnum c.
Proof.
  intros H. pose proof (byte_facts_lt c H) as HB. unfold byte_facts in HB.
  rewrite !andb_true_iff in HB. destruct HB as [[[H1 H2] H3] H4]. now apply eqb_prop.
Qed.

Lemma is_ascii_digit_iso_byte c : c < 256 -> is_ascii_digit c = iso_is_digit c.
Proof.
  intros H. pose proof (byte_facts_lt c H) as HB. unfold byte_facts in HB.
  rewrite !andb_true_iff in HB. destruct HB as [[[H1 H2] H3] H4]. now apply eqb_prop.
Qed.

Lemma ascii_to_alphanumeric_iso_byte c :
  c < 256 -> ascii_to_alphanumeric c = option_map N.of_nat (iso_alnum_value c).
Proof.
  intros H. pose proof (byte_facts_lt c H) as HB. unfold byte_facts in HB.
  rewrite !andb_true_iff in HB. destruct HB as [[[H1 H2] H3] H4]. now apply opt_N_eqb_eq.
Qed.

Lemma iso_digit_is_alnum_byte c : c < 256 -> iso_is_digit c = true -> iso_is_alnum c = true.
Proof.
  intros H HD. pose proof (byte_facts_lt c H) as HB. unfold byte_facts in HB.
  rewrite !andb_true_iff in HB. destruct HB as [[[H1 H2] H3] H4]. rewrite HD in H4. exact H4.
Qed.

Lemma byte_or_high c : c < 256 \/ 256 <= c.
Proof. lia. Qed.

Lemma is_qr_alphanumeric_iso c : is_qr_alphanumeric c = iso_is_alnum c.
Proof.
  destruct (byte_or_high c) as [H|H].
  - now apply is_qr_alphanumeric_iso_byte.
  - now rewrite is_qr_alphanumeric_high, iso_is_alnum_high.
Qed.

Lemma is_ascii_digit_iso c : is_ascii_digit c = iso_is_digit c.
Proof. reflexivity. Qed.

(* Table 5 values; None exactly outside the 45 characters *)
Lemma ascii_to_alphanumeric_iso c : ascii_to_alphanumeric c = option_map N.of_nat (iso_alnum_value c).
Proof.
  destruct (byte_or_high c) as [H|H].
  - now apply ascii_to_alphanumeric_iso_byte.
  - now rewrite ascii_to_alphanumeric_high, iso_alnum_value_high.
Qed.

Lemma iso_digit_is_alnum c : iso_is_digit c = true -> iso_is_alnum c = true.
Proof.
  destruct (byte_or_high c) as [H|H].
  - now apply iso_digit_is_alnum_byte.
  - rewrite iso_is_digit_high by assumption. discriminate.
Qed.

Lemma ascii_to_alphanumeric_some_iff c :
  (exists v, ascii_to_alphanumeric c = Some v) <-> iso_is_alnum c = true.
Proof.
  rewrite ascii_to_alphanumeric_iso. unfold iso_is_alnum.
  destruct (iso_alnum_value c) as [k|]; cbn [option_map]; split.
  - auto.
  - intros _. now exists (N.of_nat k).
  - intros [v Hv]. discriminate.
  - discriminate.
Qed.

Lemma ascii_to_alphanumeric_none_iff c :
  ascii_to_alphanumeric c = None <-> ~ In c iso_alnum_chars.
Proof.
  rewrite ascii_to_alphanumeric_iso. unfold iso_alnum_value.
  generalize iso_alnum_chars as l. induction l as [|k l IH]; cbn [find_index In option_map].
  - tauto.
  - destruct (N.eqb_spec c k) as [E|E]; cbn [option_map].
    + split; [discriminate|]. intros HN. exfalso. apply HN. now left.
    + destruct (find_index (N.eqb c) l) as [i|] eqn:EF; cbn [option_map] in *.
      * split; [discriminate|]. intros HN. exfalso.
        destruct IH as [_ IH]. assert (HX : Some (N.of_nat i) = None) by (apply IH; tauto). discriminate.
      * split; auto. intros _ [HK|HI]; [congruence|]. destruct IH as [IH _]. now apply IH.
Qed.

(* membership form of the two ISO predicates *)
Lemma iso_is_alnum_in c : iso_is_alnum c = true <-> In c iso_alnum_chars.
Proof.
  split.
  - intros H. destruct (in_dec N.eq_dec c iso_alnum_chars) as [HI|HN]; auto.
    apply ascii_to_alphanumeric_none_iff in HN. apply ascii_to_alphanumeric_some_iff in H as [v Hv]. congruence.
  - intros HI. destruct (iso_is_alnum c) eqn:E; auto. exfalso.
    assert (HN : ascii_to_alphanumeric c = None).
    { rewrite ascii_to_alphanumeric_iso. unfold iso_is_alnum in E.
      destruct (iso_alnum_value c); [discriminate|reflexivity]. }
    apply ascii_to_alphanumeric_none_iff in HN. contradiction.
Qed.

Lemma iso_alnum_chars_count : length iso_alnum_chars = 45%nat /\ NoDup iso_alnum_chars.
Proof.
  split; [reflexivity|].
  assert (H : forall l : list N, (fix nd (l : list N) : bool :=
              match l with [] => true | x :: t => negb (existsb (N.eqb x) t) && nd t end) l = true -> NoDup l).
  { induction l as [|x t IH]; intros Hl; constructor.
    - apply andb_prop in Hl as [Hx _]. intros HI. apply negb_true_iff in Hx.
      assert (HE : existsb (N.eqb x) t = true) by (apply existsb_exists; exists x; split; auto; apply N.eqb_refl).
      congruence.
    - apply andb_prop in Hl as [_ Ht]. auto. }
  apply H. vm_compute. reflexivity.
Qed.

(* ------------------------------------------------------------------------------------------------ *)
(* The scans                                                                                         *)

Lemma try_alnum_spec l :
  try_alnum l = if forallb iso_is_alnum l then Alphanumeric else Byte.
Proof.
  induction l as [|c t IH]; cbn [try_alnum forallb]; auto.
  rewrite is_qr_alphanumeric_iso. destruct (iso_is_alnum c); cbn [andb]; auto.
Qed.

Lemma try_numeric_spec whole l :
  try_numeric whole l = if forallb iso_is_digit l then Numeric else try_alnum whole.
Proof.
  induction l as [|c t IH]; cbn [try_numeric forallb]; auto.
  rewrite is_ascii_digit_iso. destruct (iso_is_digit c); cbn [andb]; auto.
Qed.

(* Main theorem, for arbitrary code lists *)
Theorem best_encoding_spec_all : forall input, best_encoding input = mode_of_idx (oracle_mode input).
Proof.
  intros input. unfold best_encoding, oracle_mode. rewrite try_numeric_spec, try_alnum_spec.
  destruct (forallb iso_is_digit input); [reflexivity|].
  destruct (forallb iso_is_alnum input); reflexivity.
Qed.

(* ... and in the shape requested (bytes are always < 256) *)
Theorem best_encoding_spec : forall input, Forall (fun c => c < 256) input ->
  best_encoding input = mode_of_idx (oracle_mode input).
Proof. intros input _. apply best_encoding_spec_all. Qed.

Lemma forallb_digit_alnum l : forallb iso_is_digit l = true -> forallb iso_is_alnum l = true.
Proof.
  rewrite !forallb_forall. intros H x Hx. apply iso_digit_is_alnum. auto.
Qed.

Theorem best_encoding_accepts_all : forall input, alphabet_ok (best_encoding input) input = true.
Proof.
  intros input. rewrite best_encoding_spec_all. unfold oracle_mode.
  destruct (forallb iso_is_digit input) eqn:ED; cbn [mode_of_idx alphabet_ok].
  - exact ED.
  - destruct (forallb iso_is_alnum input) eqn:EA; cbn [mode_of_idx alphabet_ok]; auto.
    rewrite forallb_forall in *. intros c Hc. specialize (EA c Hc).
    apply ascii_to_alphanumeric_some_iff in EA as [v Hv]. now rewrite Hv.
Qed.

Theorem best_encoding_accepts : forall input, Forall (fun c => c < 256) input ->
  alphabet_ok (best_encoding input) input = true.
Proof. intros input _. apply best_encoding_accepts_all. Qed.

(* ------------------------------------------------------------------------------------------------ *)
(* "exactly when" corollaries                                                                        *)

Definition all_digits (l : list N) : Prop := Forall (fun c => 48 <= c <= 57) l.
Definition all_alnum (l : list N) : Prop := Forall (fun c => In c iso_alnum_chars) l.

Lemma forallb_digit_iff l : forallb iso_is_digit l = true <-> all_digits l.
Proof.
  unfold all_digits. rewrite forallb_forall, Forall_forall. unfold iso_is_digit.
  split; intros H c Hc; specialize (H c Hc).
  - apply andb_prop in H as [H1 H2]. apply N.leb_le in H1, H2. lia.
  - apply andb_true_iff. split; apply N.leb_le; lia.
Qed.

Lemma forallb_alnum_iff l : forallb iso_is_alnum l = true <-> all_alnum l.
Proof.
  unfold all_alnum. rewrite forallb_forall, Forall_forall.
  split; intros H c Hc; apply iso_is_alnum_in; auto.
Qed.

Corollary best_encoding_numeric_iff input : best_encoding input = Numeric <-> all_digits input.
Proof.
  rewrite best_encoding_spec_all, <- forallb_digit_iff. unfold oracle_mode.
  destruct (forallb iso_is_digit input); [tauto|].
  destruct (forallb iso_is_alnum input); cbn [mode_of_idx]; split; discriminate.
Qed.

Corollary best_encoding_alphanumeric_iff input :
  best_encoding input = Alphanumeric <-> all_alnum input /\ ~ all_digits input.
Proof.
  rewrite best_encoding_spec_all, <- forallb_digit_iff, <- forallb_alnum_iff. unfold oracle_mode.
  destruct (forallb iso_is_digit input) eqn:ED; cbn [mode_of_idx].
  - split; [discriminate|]. intros [_ H]. exfalso. auto.
  - destruct (forallb iso_is_alnum input); cbn [mode_of_idx]; intuition discriminate.
Qed.

Corollary best_encoding_byte_iff input : best_encoding input = Byte <-> ~ all_alnum input.
Proof.
  rewrite best_encoding_spec_all, <- forallb_alnum_iff. unfold oracle_mode.
  destruct (forallb iso_is_digit input) eqn:ED; cbn [mode_of_idx].
  - rewrite (forallb_digit_alnum _ ED). intuition discriminate.
  - destruct (forallb iso_is_alnum input); cbn [mode_of_idx]; intuition discriminate.
Qed.

(* the empty input is Numeric *)
Corollary best_encoding_nil : best_encoding [] = Numeric.
Proof. apply best_encoding_numeric_iff. constructor. Qed.

(* minimality: every mode whose alphabet accepts the input is at least as late in the order
   Numeric < Alphanumeric < Byte as the chosen one (so the chosen mode is the most compact admissible) *)
Corollary best_encoding_minimal input m :
  alphabet_ok m input = true -> (mode_idx (best_encoding input) <= mode_idx m)%nat.
Proof.
  intros H. rewrite best_encoding_spec_all. unfold oracle_mode.
  destruct m; cbn [alphabet_ok mode_idx] in *.
  - assert (HD : forallb iso_is_digit input = true).
    { rewrite forallb_forall in *. intros c Hc. rewrite <- is_ascii_digit_iso. auto. }
    rewrite HD. cbn. lia.
  - assert (HA : forallb iso_is_alnum input = true).
    { rewrite forallb_forall in *. intros c Hc. specialize (H c Hc).
      apply ascii_to_alphanumeric_some_iff. destruct (ascii_to_alphanumeric c) as [v|]; [now exists v|discriminate]. }
    rewrite HA. destruct (forallb iso_is_digit input); cbn; lia.
  - destruct (forallb iso_is_digit input); [cbn; lia|].
    destruct (forallb iso_is_alnum input); cbn; lia.
Qed.
