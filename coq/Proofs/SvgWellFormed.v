(* C12: the SVG text is a well-formed XML document with exactly the expected structure.
     svg_well_formed : cfg_ok c = true -> to_str_panics c n = false -> xml_parse (to_str c n m) = Some (expected_doc c n m)
   plus the read-back lemmas that give the printed attribute values their meaning (sub-path decomposition at 'M',
   anchors, decimal numbers, colours, escaped href). *)
From Coq Require Import String Ascii NArith ZArith List Bool Arith Lia.
From Coq Require Import ZifyBool ZifyNat ZifyN.
From FQ Require Import Lib.ListX Lib.Mat Generated.Tables Generated.Strings Model.Types Model.Svg
  Spec.Xml Spec.SvgDoc Proofs.XmlRoundTrip Proofs.SvgShape.
Import ListNotations.
Local Open Scope N_scope.
Ltac Zify.zify_post_hook ::= Z.div_mod_to_equations.
Arguments N.add : simpl never. Arguments N.sub : simpl never. Arguments N.mul : simpl never.
Arguments N.eqb : simpl never. Arguments N.ltb : simpl never. Arguments N.leb : simpl never.
Arguments N.div : simpl never. Arguments N.modulo : simpl never.

(* ------------------------------------------------------------------------------------------------------------ *)
(* plain attribute text: printable ASCII other than the double quote, ampersand, less-than and greater-than       *)

Definition plain_byte (b : N) : bool :=
  (32 <=? b) && (b <? 127) && negb (b =? 34) && negb (b =? 38) && negb (b =? 60) && negb (b =? 62).
Definition plain_ok (l : list N) : bool := forallb plain_byte l.

Lemma plain_ok_app a b : plain_ok (a ++ b) = plain_ok a && plain_ok b.
Proof. apply forallb_app. Qed.

Lemma plain_ok_cons x a : plain_ok (x :: a) = plain_byte x && plain_ok a.
Proof. reflexivity. Qed.

Lemma plain_unescape v : plain_ok v = true -> unescape v = Some v.
Proof.
  unfold unescape. induction v as [|c v IH]; [reflexivity|].
  rewrite plain_ok_cons. intros H. apply andb_prop in H as [H1 H2]. cbn [unescape_aux].
  unfold plain_byte in H1.
  replace (c =? 38) with false by lia.
  replace ((c =? 60) || (c =? 9) || (c =? 10) || (c =? 13)) with false by lia.
  now rewrite (IH H2).
Qed.

Lemma plain_has c v : plain_byte c = false -> plain_ok v = true -> has c v = false.
Proof.
  intros Hc H. apply has_false_forall. unfold plain_ok in H. rewrite forallb_forall in *.
  intros x Hx. specialize (H x Hx). apply negb_true_iff, N.eqb_neq. intros ->. congruence.
Qed.

Lemma plain_ascii v : plain_ok v = true -> ascii_ok v = true.
Proof.
  unfold plain_ok, ascii_ok. rewrite !forallb_forall. intros H x Hx. specialize (H x Hx).
  unfold plain_byte in H. unfold ascii_byte_ok, ascii_char_ok. lia.
Qed.

Lemma plain_value_ok v : plain_ok v = true -> value_ok v v.
Proof.
  intros H. repeat split.
  - now apply plain_unescape.
  - now apply plain_has.
  - now apply plain_has.
  - now apply plain_has.
  - now apply chars_ok_ascii, plain_ascii.
Qed.

(* decimal numbers *)
Lemma plain_dec_aux fuel : forall n acc, plain_ok acc = true -> plain_ok (dec_aux fuel n acc) = true.
Proof.
  induction fuel as [|f IH]; intros n acc H; cbn [dec_aux]; auto.
  assert (Hd : plain_ok ((48 + n mod 10) :: acc) = true).
  { rewrite plain_ok_cons, H. unfold plain_byte. lia. }
  destruct (n / 10 =? 0); auto.
Qed.

Lemma plain_dec n : plain_ok (dec n) = true.
Proof. apply plain_dec_aux. reflexivity. Qed.

(* colours *)
Lemma plain_hexdig d : d < 16 -> plain_byte (hexdig d) = true.
Proof. intros H. unfold hexdig, plain_byte. destruct (d <? 10) eqn:E; lia. Qed.

Lemma plain_hex2 b : b < 256 -> plain_ok (hex2 b) = true.
Proof.
  intros H. unfold hex2. rewrite !plain_ok_cons. rewrite !plain_hexdig by lia. reflexivity.
Qed.

Lemma plain_rgba2hex x : rgba_ok x = true -> plain_ok (rgba2hex x) = true.
Proof.
  unfold rgba_ok. intros H. unfold rgba2hex. rewrite !plain_ok_app.
  rewrite !plain_hex2 by lia. destruct (c_a x =? 255); [reflexivity|]. rewrite plain_hex2 by lia. reflexivity.
Qed.

(* fixed-point numbers *)
Lemma plain_digit d : d < 10 -> plain_byte (digit d) = true.
Proof. intros H. unfold digit, plain_byte. lia. Qed.

Lemma plain_sign (t : Z) : plain_ok (if (t <? 0)%Z then [45] else []) = true.
Proof. destruct (t <? 0)%Z; reflexivity. Qed.

Lemma plain_fx_to_string t : plain_ok (fx_to_string t) = true.
Proof.
  unfold fx_to_string. rewrite !plain_ok_app, plain_sign, plain_dec. cbn [andb].
  set (fr := Z.abs_N t mod 1000).
  assert (Hfr : fr < 1000) by (unfold fr; lia).
  repeat match goal with |- context [if ?b then _ else _] => destruct b end;
    rewrite ?plain_ok_cons, ?plain_digit by lia; reflexivity.
Qed.

Lemma plain_fx_fixed2 t : plain_ok (fx_fixed2 t) = true.
Proof.
  unfold fx_fixed2. rewrite !plain_ok_app, plain_sign, plain_dec. cbn [andb].
  rewrite !plain_ok_cons, !plain_digit by lia. reflexivity.
Qed.

(* path data *)
Lemma plain_subpath s x y : plain_ok (subpath s x y) = true.
Proof. destruct s; unfold subpath; rewrite !plain_ok_app, !plain_dec; reflexivity. Qed.

Lemma plain_flat_map {A} (f : A -> list N) l : (forall x, plain_ok (f x) = true) -> plain_ok (flat_map f l) = true.
Proof. intros H. induction l as [|x l IH]; cbn [flat_map]; auto. now rewrite plain_ok_app, H, IH. Qed.

Lemma plain_path_d c s n m : plain_ok (path_d c s n m) = true.
Proof. apply plain_flat_map. intros p. rewrite plain_ok_app. unfold module_subpath. now rewrite plain_subpath. Qed.

(* ------------------------------------------------------------------------------------------------------------ *)
(* (a) escape_attribute / unescape                                                                               *)

Definition special (b : N) : bool :=
  (b =? 38) || (b =? 60) || (b =? 62) || (b =? 34) || (b =? 39) || (b =? 9) || (b =? 10) || (b =? 13).

Lemma escape_byte_other b : special b = false -> escape_byte b = [b].
Proof.
  unfold special. intros H. unfold escape_byte, escape_arms. cbn [find fst snd list_eqb].
  repeat match goal with |- context [(?k =? b) && true] => replace (k =? b) with false by lia; cbn [andb] end.
  reflexivity.
Qed.

Lemma escape_byte_special b : special b = true ->
  (b = 38 \/ b = 60 \/ b = 62 \/ b = 34 \/ b = 39 \/ b = 9 \/ b = 10 \/ b = 13).
Proof. unfold special. lia. Qed.

(* the escaped form of one byte is read back as that byte *)
Lemma unescape_escape_byte b t :
  unescape_aux (escape_byte b ++ t) None = match unescape_aux t None with Some r => Some (b :: r) | None => None end.
Proof.
  destruct (special b) eqn:E.
  - apply escape_byte_special in E.
    destruct E as [->|[->|[->|[->|[->|[->|[->| ->]]]]]]]; reflexivity.
  - rewrite escape_byte_other by exact E. cbn [app unescape_aux]. unfold special in E.
    replace (b =? 38) with false by lia.
    replace ((b =? 60) || (b =? 9) || (b =? 10) || (b =? 13)) with false by lia. reflexivity.
Qed.

Theorem unescape_escape s : unescape (escape_attribute s) = Some s.
Proof.
  unfold unescape, escape_attribute. induction s as [|b s IH]; [reflexivity|].
  cbn [flat_map]. now rewrite unescape_escape_byte, IH.
Qed.

(* the escaped text contains no double quote, less-than or greater-than sign (and, by unescape_escape, every
   ampersand in it starts one of the eight references) *)
Lemma escape_byte_has c b : (c = 34 \/ c = 60 \/ c = 62) -> has c (escape_byte b) = false.
Proof.
  intros Hc. destruct (special b) eqn:E.
  - apply escape_byte_special in E.
    destruct E as [->|[->|[->|[->|[->|[->|[->| ->]]]]]]]; destruct Hc as [->|[->| ->]]; reflexivity.
  - rewrite escape_byte_other by exact E. unfold special in E. cbn [has existsb]. destruct Hc as [->|[->| ->]]; lia.
Qed.

Theorem escape_has c s : (c = 34 \/ c = 60 \/ c = 62) -> has c (escape_attribute s) = false.
Proof.
  intros Hc. unfold escape_attribute. induction s as [|b s IH]; [reflexivity|].
  cbn [flat_map]. now rewrite has_app, escape_byte_has, IH.
Qed.

Lemma escape_byte_ascii b : b < 128 -> ascii_char_ok b = true -> ascii_ok (escape_byte b) = true.
Proof.
  intros Hb Hok. destruct (special b) eqn:E.
  - apply escape_byte_special in E.
    destruct E as [->|[->|[->|[->|[->|[->|[->| ->]]]]]]]; reflexivity.
  - rewrite escape_byte_other by exact E. cbn. unfold ascii_byte_ok. rewrite Hok. replace (b <? 128) with true by lia. reflexivity.
Qed.

Lemma escape_byte_high b : 128 <= b -> escape_byte b = [b].
Proof. intros H. apply escape_byte_other. unfold special. lia. Qed.

Lemma chars_ok_escape_aux n : forall s : list N, (length s <= n)%nat -> chars_ok s = true -> chars_ok (escape_attribute s) = true.
Proof.
  induction n as [|n IH]; intros s Hl Hs.
  - destruct s; [reflexivity|cbn in Hl; lia].
  - destruct s as [|x s]; [reflexivity|].
    unfold escape_attribute. cbn [flat_map]. fold (escape_attribute s).
    cbn [chars_ok] in Hs. cbn [length] in Hl.
    destruct (x <? 128) eqn:E1.
    + apply andb_prop in Hs as [H1 H2]. rewrite chars_ok_ascii_app by (apply escape_byte_ascii; [lia|exact H1]).
      apply IH; [lia|exact H2].
    + rewrite escape_byte_high by lia. cbn [app].
      destruct (x <? 194) eqn:E2; [discriminate|].
      destruct (x <? 224) eqn:E3.
      * destruct s as [|y s]; [discriminate|]. apply andb_prop in Hs as [H1 H2].
        unfold escape_attribute. cbn [flat_map]. fold (escape_attribute s).
        rewrite escape_byte_high by (unfold is_cont in H1; lia). cbn [app chars_ok].
        rewrite E1, E2, E3, H1. cbn [andb]. apply IH; [cbn [length] in Hl; lia|exact H2].
      * destruct (x <? 240) eqn:E4.
        -- destruct s as [|y [|z s]]; try discriminate. apply andb_prop in Hs as [H1 H2].
           unfold escape_attribute. cbn [flat_map]. fold (escape_attribute s).
           assert (Hy : 128 <= y /\ 128 <= z) by (unfold is_cont in H1; lia).
           rewrite !escape_byte_high by lia. cbn [app chars_ok].
           rewrite E1, E2, E3, E4, H1. cbn [andb]. apply IH; [cbn [length] in Hl; lia|exact H2].
        -- destruct (x <? 245) eqn:E5; [|discriminate].
           destruct s as [|y [|z [|w s]]]; try discriminate. apply andb_prop in Hs as [H1 H2].
           unfold escape_attribute. cbn [flat_map]. fold (escape_attribute s).
           assert (Hy : 128 <= y /\ 128 <= z /\ 128 <= w) by (unfold is_cont in H1; lia).
           rewrite !escape_byte_high by lia. cbn [app chars_ok].
           rewrite E1, E2, E3, E4, E5, H1. cbn [andb]. apply IH; [cbn [length] in Hl; lia|exact H2].
Qed.

Theorem chars_ok_escape s : chars_ok s = true -> chars_ok (escape_attribute s) = true.
Proof. apply (chars_ok_escape_aux (length s)). lia. Qed.

Theorem escape_value_ok s : chars_ok s = true -> value_ok (escape_attribute s) s.
Proof.
  intros H. repeat split.
  - apply unescape_escape.
  - apply escape_has; auto.
  - apply escape_has; auto.
  - apply escape_has; auto.
  - now apply chars_ok_escape.
Qed.

(* ------------------------------------------------------------------------------------------------------------ *)
(* (b) the document                                                                                              *)

Definition plain_attrs (l : attrs) : Prop := Forall (fun kv => name_ok (fst kv) = true /\ plain_ok (snd kv) = true) l.

Lemma plain_attrs_ok l : plain_attrs l -> attrs_ok l l.
Proof.
  induction 1 as [|kv l [Hk Hv] _ IH]; constructor; auto.
  repeat split; auto; now apply plain_value_ok.
Qed.

Lemma plain_attrs_app a b : plain_attrs a -> plain_attrs b -> plain_attrs (a ++ b).
Proof. intros Ha Hb. apply Forall_app. now split. Qed.

Ltac plain_attrs_tac :=
  repeat (first [apply Forall_nil | apply Forall_cons; [split; [reflexivity|]|]]).

Definition dchild_of (ch : child) : dchild := (fst (fst ch), snd (fst ch)).

(* a child whose attribute values are all plain reads back as itself *)
Lemma plain_child_ok nm l cl :
  name_ok nm = true -> closer_ok cl = true -> closer_empty cl = true -> plain_attrs l ->
  nodup_keys (map fst l) = true -> child_ok (nm, l, cl) (nm, l).
Proof. intros. cbn. repeat split; auto. now apply plain_attrs_ok. Qed.

Lemma rect_child_ok c n : rgba_ok (c_background_color c) = true -> child_ok (rect_child c n) (dchild_of (rect_child c n)).
Proof.
  intros H. apply plain_child_ok; try reflexivity.
  plain_attrs_tac; cbn [snd]; rewrite ?plain_ok_app, ?plain_dec, ?plain_rgba2hex by exact H; reflexivity.
Qed.

Lemma layer_child_ok c n m l :
  rgba_ok (c_dot_color c) = true -> opt_rgba_ok (snd l) = true ->
  child_ok (layer_child c n m l) (dchild_of (layer_child c n m l)).
Proof.
  intros Hd Hl.
  assert (Hcol : plain_ok (layer_fill c l) = true).
  { unfold layer_fill. apply plain_rgba2hex. destruct (snd l); auto. }
  unfold layer_child. apply plain_child_ok; try reflexivity.
  - apply plain_attrs_app; [|apply plain_attrs_app].
    + plain_attrs_tac. cbn [snd]. apply plain_path_d.
    + destruct (fst l); cbn [stroke_attrs]; plain_attrs_tac; cbn [snd]; auto.
    + plain_attrs_tac. cbn [snd]. exact Hcol.
  - destruct (fst l); reflexivity.
Qed.

Lemma frame_child_ok c px py b :
  rgba_ok (c_image_background_color c) = true -> child_ok (frame_child c px py b) (dchild_of (frame_child c px py b)).
Proof.
  intros H. unfold frame_child. apply plain_child_ok; try reflexivity.
  - apply plain_attrs_app.
    + plain_attrs_tac; cbn [snd]; rewrite ?plain_fx_to_string, ?plain_rgba2hex by exact H; reflexivity.
    + destruct (c_image_background_shape c); cbn [rx_attrs]; plain_attrs_tac; reflexivity.
  - destruct (c_image_background_shape c); reflexivity.
Qed.

Local Open Scope Z_scope.
Definition image_dchild (px py border isz : fx) (img : list N) : dchild :=
  (bs "image", [(bs "x", fx_fixed2 (px + (border - isz) / 2)); (bs "y", fx_fixed2 (py + (border - isz) / 2));
                (bs "width", fx_fixed2 isz); (bs "height", fx_fixed2 isz); (bs "href", img)]).
Local Open Scope N_scope.

Lemma attrs_ok_cons k v dv l d :
  name_ok k = true -> value_ok v dv -> attrs_ok l d -> attrs_ok ((k, v) :: l) ((k, dv) :: d).
Proof. intros Hk Hv Hl. constructor; auto. Qed.

Lemma image_child_ok px py b i img :
  chars_ok img = true -> child_ok (image_child px py b i img) (image_dchild px py b i img).
Proof.
  intros H. unfold image_child, image_dchild, child_ok. cbn [fst snd].
  split; [reflexivity|]. split; [reflexivity|]. split; [reflexivity|]. split; [reflexivity|]. split; [|reflexivity].
  repeat (apply attrs_ok_cons; [reflexivity|first [apply plain_value_ok, plain_fx_fixed2|now apply escape_value_ok]|]).
  constructor.
Qed.

Definition image_dchildren (c : cfg) (n : nat) : list dchild :=
  match c_image c with
  | None => []
  | Some img =>
      let v := match version_from_n (N.of_nat n) with Some v => v | None => O end in
      let '(px, py, border, isz) := image_geometry c (N.of_nat n) v in
      [dchild_of (frame_child c px py border); image_dchild px py border isz img]
  end.

Definition dchildren (c : cfg) (n : nat) (m : qmat) : list dchild :=
  dchild_of (rect_child c n) :: map (fun l => dchild_of (layer_child c n m l)) (layers c) ++ image_dchildren c n.

Lemma Forall2_map_in {A B C} (R : B -> C -> Prop) (f : A -> B) (g : A -> C) l :
  (forall x, In x l -> R (f x) (g x)) -> Forall2 R (map f l) (map g l).
Proof.
  induction l as [|x l IH]; intros H; cbn [map]; constructor.
  - apply H. now left.
  - apply IH. intros y Hy. apply H. now right.
Qed.

Lemma layers_ok c : forallb (fun l => opt_rgba_ok (snd l)) (c_layers c) = true ->
  forall l, In l (layers c) -> opt_rgba_ok (snd l) = true.
Proof.
  intros H l Hl. unfold layers in Hl. destruct (c_layers c) as [|l0 ls] eqn:E.
  - destruct Hl as [<-|[]]. reflexivity.
  - rewrite forallb_forall in H. now apply H.
Qed.

Lemma children_ok c n m : cfg_ok c = true -> Forall2 child_ok (children c n m) (dchildren c n m).
Proof.
  unfold cfg_ok. intros H. apply andb_prop in H as [H Himg]. apply andb_prop in H as [H Hlay].
  apply andb_prop in H as [H Hibg]. apply andb_prop in H as [Hbg Hdot].
  unfold children, dchildren. constructor; [now apply rect_child_ok|].
  apply Forall2_app.
  - apply Forall2_map_in. intros l Hl.
    apply layer_child_ok; auto. now apply (layers_ok c Hlay).
  - unfold image_children, image_dchildren. destruct (c_image c) as [img|]; [|constructor].
    destruct (image_geometry c (N.of_nat n) _) as [[[px py] b] i].
    constructor; [now apply frame_child_ok|]. constructor; [now apply image_child_ok|constructor].
Qed.

Lemma root_attrs_ok c n : attrs_ok (root_attrs c n) (root_attrs c n).
Proof.
  apply plain_attrs_ok. unfold root_attrs. plain_attrs_tac; cbn [snd]; rewrite ?plain_ok_app, ?plain_dec; reflexivity.
Qed.

Lemma leaf_dchildren c n m :
  map leaf (dchildren c n m) =
  Elem (bs "rect")
       [(bs "width", dec (side c n) ++ bs "px"); (bs "height", dec (side c n) ++ bs "px");
        (bs "fill", rgba2hex (c_background_color c))] []
  :: map (layer_elem c n m) (layers c) ++ image_elems c n.
Proof.
  unfold dchildren. cbn [map]. rewrite map_app, map_map.
  change (leaf (dchild_of (rect_child c n))) with
    (Elem (bs "rect") [(bs "width", dec (side c n) ++ bs "px"); (bs "height", dec (side c n) ++ bs "px");
                       (bs "fill", rgba2hex (c_background_color c))] []).
  apply f_equal. apply f_equal2.
  - apply map_ext. intros l. unfold leaf, dchild_of, layer_child, layer_elem. cbn [fst snd].
    destruct (fst l); reflexivity.
  - unfold image_dchildren, image_elems. destruct (c_image c) as [img|]; [|reflexivity].
    destruct (image_geometry c (N.of_nat n) _) as [[[px py] b] i]. cbn [map].
    unfold leaf, dchild_of, frame_child, frame_elem, image_dchild, image_elem. cbn [fst snd].
    destruct (c_image_background_shape c); reflexivity.
Qed.

(* C12, structure. (The hypothesis to_str_panics c n = false is not needed for the equation itself -- to_str is total --
   but when it fails the Rust code panics in Version::from_n instead of returning the string.) *)
Theorem svg_well_formed c n m :
  cfg_ok c = true -> xml_parse (to_str c n m) = Some (expected_doc c n m).
Proof.
  intros H. rewrite to_str_flat.
  rewrite (flat_doc_parse (bs "svg") (root_attrs c n) (root_attrs c n) (children c n m) (dchildren c n m)).
  - unfold expected_doc. now rewrite leaf_dchildren.
  - reflexivity.
  - apply root_attrs_ok.
  - reflexivity.
  - now apply children_ok.
Qed.
