(* Basic facts about build: which branch it takes, and what the returned record reports. *)
From Coq Require Import NArith List Bool Arith Lia.
From FQ Require Import Lib.ListX Lib.Mat Generated.Tables Model.Types Model.Hardcode Model.Compact Model.Encode
  Model.Poly Model.Default Model.Masking Model.Score Model.Placement Model.Qr Spec.Iso Proofs.VersionGet.
Import ListNotations.

Definition eff_mode (input : list N) (o : options) : mode :=
  match o_mode o with Some m => m | None => best_encoding input end.
Definition eff_level (o : options) : ecl := match o_ecl o with Some e => e | None => default_level end.

Lemma default_level_is_Q : default_level = EQ.
Proof. reflexivity. Qed.

Lemma build_matrix_fields input e m v fm q :
  build_matrix input e m v fm = Ok q ->
  q_version q = v /\ q_ecl q = e /\ q_mode q = m /\ q_size q = version_size v /\
  (forall k, fm = Some k -> q_mask q = k).
Proof.
  unfold build_matrix. destruct (encode_panic input e m v); [discriminate|].
  destruct (negb (config_safe v e)); [discriminate|].
  destruct (place_on_matrix v _ e fm) as [mat mask] eqn:P. intros H; inversion H; subst; cbn [q_version q_ecl q_mode q_size q_mask].
  repeat split; auto. intros k ->. unfold place_on_matrix in P. apply (f_equal snd) in P. cbn [snd] in P. symmetry; exact P.
Qed.

Lemma build_matrix_not_err input e m v fm :
  build_matrix input e m v fm <> ErrEncodedData /\ build_matrix input e m v fm <> ErrSpecifiedVersion.
Proof.
  unfold build_matrix. destruct (encode_panic input e m v); [split; discriminate|].
  destruct (negb (config_safe v e)); [split; discriminate|].
  destruct (place_on_matrix v _ e fm); split; discriminate.
Qed.

(* the branch structure of build in terms of the ISO minimum version *)
Theorem build_outcome input o :
  let m := eff_mode input o in
  let e := eff_level o in
  match iso_min_version (mode_idx m) (ecl_idx e) (N.of_nat (length input)) with
  | None => build input o = ErrEncodedData
  | Some vmin =>
      match o_version o with
      | None => build input o = build_matrix input e m vmin (o_mask o)
      | Some uv => if vmin <=? uv then build input o = build_matrix input e m uv (o_mask o)
                   else build input o = ErrSpecifiedVersion
      end
  end.
Proof.
  cbn zeta. unfold build, build_with, resolve. fold (eff_mode input o). fold (eff_level o).
  rewrite version_get_is_min.
  destruct (iso_min_version _ _ _) as [vmin|]; [|reflexivity].
  destruct (o_version o) as [uv|]; [|reflexivity].
  destruct (vmin <=? uv); reflexivity.
Qed.

Theorem build_ok_fields input o q :
  build input o = Ok q ->
  q_mode q = eff_mode input o /\ q_ecl q = eff_level o /\ q_size q = version_size (q_version q) /\
  (forall uv, o_version o = Some uv -> q_version q = uv) /\
  (o_version o = None -> iso_min_version (mode_idx (q_mode q)) (ecl_idx (q_ecl q)) (N.of_nat (length input)) = Some (q_version q)) /\
  (forall k, o_mask o = Some k -> q_mask q = k).
Proof.
  intros H. pose proof (build_outcome input o) as B. cbn zeta in B.
  destruct (iso_min_version _ _ _) as [vmin|] eqn:Emin; [|congruence].
  destruct (o_version o) as [uv|] eqn:Ev.
  - destruct (vmin <=? uv); [|congruence]. rewrite B in H.
    destruct (build_matrix_fields _ _ _ _ _ _ H) as (A1 & A2 & A3 & A4 & A5).
    split; [exact A3|]. split; [exact A2|]. split; [congruence|]. split; [|split].
    + intros uv' E; inversion E; subst; auto.
    + discriminate.
    + exact A5.
  - rewrite B in H. destruct (build_matrix_fields _ _ _ _ _ _ H) as (A1 & A2 & A3 & A4 & A5).
    split; [exact A3|]. split; [exact A2|]. split; [congruence|]. split; [|split].
    + discriminate.
    + intros _. rewrite A1, A2, A3. exact Emin.
    + exact A5.
Qed.
