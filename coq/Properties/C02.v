(* C02 -- Error-correction blocks are valid RS codewords with the ISO block layout. *)
From Coq Require Import NArith List Bool Arith Lia.
From FQ Require Import Lib.Mat Model.Types Model.Hardcode Model.Qr Spec.IsoTable9 Spec.Iso Spec.Gf
  Proofs.BuildMatrix Proofs.Readout Proofs.Decode Proofs.Syndromes.
Import ListNotations.

(* For every built symbol: un-masking with the reported mask along the ISO read order gives exactly `total codewords` bytes
   (total derived from the geometry) followed by all-zero remainder bits; the Table 9 split has g1 + g2 blocks of the Table 9
   data sizes with ec EC codewords each, total = data + ec x blocks; every block has all-zero syndromes at
   alpha^0 .. alpha^(ec-1) over GF(256)/0x11D (table-free multiplication); the de-interleaved data codewords are the ISO 7.4
   encoding of the input. *)
Theorem C02_blocks_are_rs_codewords : forall input o q,
  options_wf o -> Forall (fun b => (b < 256)%N) input -> build input o = Ok q ->
  let v := q_version q in let l := ecl_idx (q_ecl q) in
  let bits := iso_unmasked_bits v (q_mask q) (vals (q_mat q)) in
  let cw := bits_bytes (firstn (8 * iso_total_codewords v) bits) in
  length cw = iso_total_codewords v /\
  Forall (fun b => b = false) (skipn (8 * iso_total_codewords v) bits) /\
  (let '(d1, g1, d2, g2) := iso_layout v l in
   iso_total_codewords v = iso_data_codewords v l + iso_ec v l * (g1 + g2) /\
   length (iso_blocks_of v l cw) = g1 + g2 /\
   forall b, b < g1 + g2 ->
     length (iso_block_data v l cw b) = (if b <? g1 then d1 else d2) /\ length (iso_block_ec v l cw b) = iso_ec v l /\
     forallb (N.eqb 0) (syndromes (iso_block_data v l cw b ++ iso_block_ec v l cw b) (iso_ec v l)) = true) /\
  iso_deinterleave_data v l cw = iso_codewords (mode_idx (q_mode q)) v l input.
Proof. exact built_blocks. Qed.
Print Assumptions C02_blocks_are_rs_codewords.

(* generic: any block data ++ remainder by the degree-k RS generator has zero syndromes, for every k and every content *)
Theorem C02_rs_block_syndromes : forall k data, Forall (fun b => (b < 256)%N) data ->
  syndromes (data ++ poly_rem data (rs_generator k)) k = repeat 0%N k.
Proof. exact rs_block_syndromes. Qed.
Print Assumptions C02_rs_block_syndromes.

(* the generator has the roots alpha^0 .. alpha^(k-1) *)
Theorem C02_generator_roots : forall k i, i < k -> poly_eval (rs_generator k) (gf_pow2 i) = 0%N.
Proof. exact rs_generator_root. Qed.
Print Assumptions C02_generator_roots.

(* PARTIAL: the consequence "up to floor(ec/2) corrupted codewords per block are recoverable" (minimum distance ec + 1 of
   the code with these ec consecutive roots) is NOT proved here; the statement it would take is:
     forall two words w1 w2 of equal length <= 255 with all-zero syndromes at alpha^0..alpha^(ec-1),
       (number of positions where they differ) <= ec -> w1 = w2.
   It is covered only by the thorough tier's sampled corruption + Berlekamp-Massey decoding in the harness. *)
